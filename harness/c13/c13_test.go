// C13 harness: the node's background loops, UNMODIFIED, started exactly as FullNode.Run starts them
// (node/full.go: one-slot errCh, spawnWorker fan-out per mode, select on errCh / parent context, wg.Wait),
// inside a testing/synctest bubble (virtual time) against doubles of the outermost collaborators
// (execution layer, sequencer, DA layer, P2P broadcasters / stores).  A case fixes the configuration, the
// timing of the doubles and the stop instant.  Observed per loop: where it was parked at the stop instant,
// whether it had returned by the virtual deadline, and if not where it sits (goroutine dump + go/ast, see
// stack_test.go).  Go oracle: every loop returns by the deadline; after the node has halted the store
// satisfies the C01/C06/C07 (aggregator) resp. C02/C07 (full node) safety invariants.  Coq side
// (Check/StopCheck.v): a loop may only be stuck at an operation that the regenerated table lists as not
// cancellable for that loop, and every parking position is in the table.
// Part B scenarios (one per listed non-cancellable operation) are fixed cases of the same machinery.
// Two further parts: twowriters_test.go (the two writers of the data submission watermark - block production's
// pending-limit test and the data submission loop - on the real code with one store write held; real time) and a
// pass of this same test built with the race detector (raceRun: short in the quick tier, long in thorough).
package c13

import (
	"bytes"
	"context"
	"encoding/binary"
	"encoding/json"
	"errors"
	"fmt"
	"math/rand"
	"os"
	"os/exec"
	"path/filepath"
	"regexp"
	"runtime/debug"
	"sort"
	"strings"
	"sync"
	"sync/atomic"
	"testing"
	"testing/synctest"
	"time"

	ds "github.com/ipfs/go-datastore"
	dssync "github.com/ipfs/go-datastore/sync"
	logging "github.com/ipfs/go-log/v2"
	"github.com/libp2p/go-libp2p/core/crypto"

	"github.com/evstack/ev-node/block"
	"github.com/evstack/ev-node/pkg/config"
	genesispkg "github.com/evstack/ev-node/pkg/genesis"
	"github.com/evstack/ev-node/pkg/signer"
	noopsigner "github.com/evstack/ev-node/pkg/signer/noop"
	"github.com/evstack/ev-node/pkg/store"
	"github.com/evstack/ev-node/types"

	"verif/harness/vgen"
)

// ---- a case ---------------------------------------------------------------------------------------

type Case struct {
	Seed     int64  `json:"seed"`
	Idx      int    `json:"idx"`
	Scenario string `json:"scenario,omitempty"` // part B scenario name ("" = random exploration)
	Mode     string `json:"mode"`               // "agg" | "full"

	Lazy           bool   `json:"lazy,omitempty"`
	InitialHeight  uint64 `json:"initial_height"`
	GenesisOffset  int64  `json:"genesis_offset_ms"` // genesis time relative to node start (agg): <0 past, >0 future
	BlockTimeMs    int64  `json:"block_time_ms"`
	DABlockTimeMs  int64  `json:"da_block_time_ms"`
	LazyIntervalMs int64  `json:"lazy_interval_ms,omitempty"`
	MaxPending     uint64 `json:"max_pending,omitempty"`
	TxEveryMs      int64  `json:"tx_every_ms,omitempty"`

	ExecDelayMs    int64  `json:"exec_delay_ms,omitempty"`
	ExecLagMs      int64  `json:"exec_lag_ms,omitempty"` // time ExecuteTxs needs to notice a cancellation
	FinalDelayMs   int64  `json:"final_delay_ms,omitempty"`
	FinalLagMs     int64  `json:"final_lag_ms,omitempty"`
	ExecIgnoresCtx bool   `json:"exec_ignores_ctx,omitempty"`
	ExecFailAt     uint64 `json:"exec_fail_at,omitempty"`
	FinalFailAt    uint64 `json:"final_fail_at,omitempty"`

	DASubmitDelayMs int64 `json:"da_submit_delay_ms,omitempty"`
	DAFailEvery     int   `json:"da_fail_every,omitempty"`
	DAGetDelayMs    int64 `json:"da_get_delay_ms,omitempty"`
	DAGetFailEvery  int   `json:"da_get_fail_every,omitempty"`

	ChainLen       int    `json:"chain_len,omitempty"`    // full: blocks the proposer made
	TxBlocks       []bool `json:"tx_blocks,omitempty"`    // full: which of them carry transactions (index 0 = first block, always empty)
	Delivery       string `json:"delivery,omitempty"`     // full: "both" | "da" | "p2p"
	P2PEveryMs     int64  `json:"p2p_every_ms,omitempty"` // full: the P2P stores receive one more item every so often
	Flood          string `json:"flood,omitempty"`        // full: "da-header" | "da-data" | "p2p-header" | "p2p-data": more than 10000 items of that kind
	StallP2P       bool   `json:"stall_p2p,omitempty"`    // agg: the broadcasters do not return until their context is done
	hangHits       int32
	HangCall       string `json:"hang_call,omitempty"`           // this external call does not complete until the context it was given is done
	BuildIsParent  bool   `json:"build_ctx_is_parent,omitempty"` // NewManager / NewReaper get the context Run is later called with (cmd wiring); default: an unrelated one
	ErrChTaken     bool   `json:"errch_taken,omitempty"`         // the one-slot errCh already holds an error nobody reads (Run has taken the stop branch)
	RestartAfterMs int64  `json:"restart_after_ms,omitempty"`    // agg: the node first runs this long, is stopped, and a NEW Manager / Reaper on the same store is the node under observation (its start-up wait is `last block time + block time`)
	TwoWriters     *TwoW  `json:"two_writers,omitempty"`         // the two writers of the data watermark, one store write of one of them held (twowriters_test.go; real time, no loops)
	StopAtMs       int64  `json:"stop_at_ms"`
	DeadlineMs     int64  `json:"deadline_ms"`
}

const chainID = "c13chain"

// the fan-out of FullNode.Run as this harness reproduces it; compared with node/full.go on every run
var fanoutAgg = []string{"blockManager.AggregationLoop(ctx, errCh)", "reaper.Start(ctx)", "blockManager.HeaderSubmissionLoop(ctx)", "blockManager.DataSubmissionLoop(ctx)", "blockManager.DAIncluderLoop(ctx, errCh)"}
var fanoutFull = []string{"blockManager.RetrieveLoop(ctx)", "blockManager.HeaderStoreRetrieveLoop(ctx)", "blockManager.DataStoreRetrieveLoop(ctx)", "blockManager.SyncLoop(ctx, errCh)", "blockManager.DAIncluderLoop(ctx, errCh)"}

var rootsAgg = []string{"AggregationLoop", "Reaper.Start", "HeaderSubmissionLoop", "DataSubmissionLoop", "DAIncluderLoop"}
var rootsFull = []string{"RetrieveLoop", "HeaderStoreRetrieveLoop", "DataStoreRetrieveLoop", "SyncLoop", "DAIncluderLoop"}

// checkFanout: node/full.go still starts the loops this harness starts, on a one-slot error channel
func checkFanout() error {
	b, err := os.ReadFile(sourcePath("/repo/node/full.go"))
	if err != nil {
		return err
	}
	src := string(b)
	i := strings.Index(src, "if n.nodeConfig.Node.Aggregator {")
	j := strings.Index(src, "select {\n\tcase err := <-errCh:")
	if i < 0 || j < i {
		return errors.New("node/full.go: fan-out not found")
	}
	parts := strings.SplitN(src[i:j], "} else {", 2)
	if len(parts) != 2 {
		return errors.New("node/full.go: fan-out has no else branch")
	}
	re := regexp.MustCompile(`spawnWorker\(func\(\) \{ n\.([^}]*?) \}\)`)
	get := func(s string) []string {
		var out []string
		for _, m := range re.FindAllStringSubmatch(s, -1) {
			out = append(out, m[1])
		}
		return out
	}
	if a := get(parts[0]); strings.Join(a, ";") != strings.Join(fanoutAgg, ";") {
		return fmt.Errorf("aggregator fan-out is %v", a)
	}
	if a := get(parts[1]); strings.Join(a, ";") != strings.Join(fanoutFull, ";") {
		return fmt.Errorf("full-node fan-out is %v", a)
	}
	if !strings.Contains(src[:i], "errCh := make(chan error, 1)") {
		return errors.New("errCh is no longer make(chan error, 1)")
	}
	if !strings.Contains(src[j:], "case <-parentCtx.Done():") || !strings.Contains(src[j:], "wg.Wait()") {
		return errors.New("Run no longer selects on parentCtx.Done / waits for the workers")
	}
	return nil
}

// ---- the node -------------------------------------------------------------------------------------------

type chain struct {
	headers []*types.SignedHeader // index i = height initial+i
	datas   []*types.Data
	states  []types.State
	hblobs  [][]byte
	dblobs  [][]byte // nil for empty blocks
}

type node struct {
	c      *Case
	gen    genesispkg.Genesis
	sg     signer.Signer
	st     store.Store
	kv     ds.Batching
	gate   *gateStore // two-writers cases: the store, with the writes of the submission watermarks recorded / one of them held
	m      *block.Manager
	reaper *block.Reaper
	exec   *execDouble
	seq    *seqDouble
	da     *daDouble
	hb     *bcast[*types.SignedHeader]
	db     *bcast[*types.Data]
	chain  *chain

	mu       sync.Mutex
	returned map[string]time.Time
	panics   [][2]string // (loop, panic value and stack)
	selfStop time.Time
	errCh    chan error
	halted   chan struct{}
}

type rndReader struct{ r *rand.Rand }

func (x rndReader) Read(p []byte) (int, error) { return x.r.Read(p) }

func quiet() logging.EventLogger {
	l := logging.Logger("c13")
	_ = logging.SetLogLevel("c13", "fatal")
	return l
}

func (c *Case) config(rootDir string, aggregator bool) config.Config {
	cfg := config.DefaultConfig
	cfg.RootDir = rootDir
	cfg.Node.Aggregator = aggregator
	cfg.Node.LazyMode = c.Lazy
	cfg.Node.MaxPendingHeadersAndData = c.MaxPending
	cfg.Node.BlockTime.Duration = ms(c.BlockTimeMs)
	cfg.DA.BlockTime.Duration = ms(c.DABlockTimeMs)
	if c.LazyIntervalMs > 0 {
		cfg.Node.LazyBlockInterval.Duration = ms(c.LazyIntervalMs)
	}
	return cfg
}

func newKV() ds.Batching { return dssync.MutexWrap(ds.NewMapDatastore()) }

// produceChain: a real aggregator Manager makes the proposer's chain and submits it to the DA double with its
// own submission code (one DA height per submission).
func produceChain(c *Case, sg signer.Signer, gen genesispkg.Genesis, rootDir string, da *daDouble) (*chain, error) {
	ctx := context.Background()
	quietCase := &Case{}
	st := store.New(newKV())
	ex := &execDouble{c: quietCase, start: time.Now()}
	sq := &seqDouble{}
	saved := da.c
	da.c = quietCase
	defer func() { da.c = saved }()
	cfg := c.config(rootDir, true)
	cfg.Node.LazyMode = false
	cfg.Node.MaxPendingHeadersAndData = 0
	m, err := block.NewManager(ctx, sg, cfg, gen, st, ex, sq, da, quiet(), nil, nil,
		&bcast[*types.SignedHeader]{}, &bcast[*types.Data]{}, block.NopMetrics(), 1, 1, block.DefaultManagerOptions())
	if err != nil {
		return nil, fmt.Errorf("proposer NewManager: %w", err)
	}
	ch := &chain{}
	ini := gen.InitialHeight
	for i := 0; i < c.ChainLen; i++ {
		time.Sleep(ms(c.BlockTimeMs))
		if i < len(c.TxBlocks) && c.TxBlocks[i] && i > 0 {
			sq.pending = [][]byte{[]byte(fmt.Sprintf("tx-%d-a", i)), []byte(fmt.Sprintf("tx-%d-b", i))}
		}
		if err := m.VerifPublishBlock(ctx); err != nil {
			return nil, fmt.Errorf("proposer step %d: %w", i, err)
		}
		h, _ := st.Height(ctx)
		if h != ini+uint64(i) {
			return nil, fmt.Errorf("proposer step %d did not commit (height %d)", i, h)
		}
		hd, d, err := st.GetBlockData(ctx, h)
		if err != nil {
			return nil, err
		}
		s, err := st.GetState(ctx)
		if err != nil {
			return nil, err
		}
		ch.headers, ch.datas, ch.states = append(ch.headers, hd), append(ch.datas, d), append(ch.states, s)
		hb, err := hd.MarshalBinary()
		if err != nil {
			return nil, err
		}
		ch.hblobs = append(ch.hblobs, hb)
		var db []byte
		if len(d.Txs) > 0 {
			sds, err := m.VerifCreateSignedDataToSubmit(ctx)
			if err != nil {
				return nil, err
			}
			for _, sd := range sds {
				if sd.Height() == h {
					if db, err = sd.MarshalBinary(); err != nil {
						return nil, err
					}
				}
			}
			if db == nil {
				return nil, fmt.Errorf("proposer: no signed data for height %d", h)
			}
		}
		ch.dblobs = append(ch.dblobs, db)
		if c.Delivery != "p2p" {
			hs, err := m.VerifGetPendingHeaders(ctx)
			if err != nil {
				return nil, err
			}
			if err := m.VerifSubmitHeadersToDA(ctx, hs); err != nil {
				return nil, fmt.Errorf("proposer header submission: %w", err)
			}
			if db != nil {
				sds, err := m.VerifCreateSignedDataToSubmit(ctx)
				if err != nil {
					return nil, err
				}
				if err := m.VerifSubmitDataToDA(ctx, sds); err != nil {
					return nil, fmt.Errorf("proposer data submission: %w", err)
				}
			}
		}
	}
	return ch, nil
}

const floodN = 10050 // more than eventInChLength (10000)

// padding: headers the proposer signed beyond the chain (never applied: the sync loop is busy in these scenarios)
func paddingHeaders(sg signer.Signer, last *types.SignedHeader, n int) ([]*types.SignedHeader, error) {
	out := make([]*types.SignedHeader, 0, n)
	prev := last
	for i := 0; i < n; i++ {
		h := prev.Header
		h.BaseHeader.Height = prev.Height() + 1
		h.BaseHeader.Time = prev.BaseHeader.Time + uint64(time.Second)
		h.LastHeaderHash = prev.Hash()
		h.DataHash = block.VerifDataHashForEmptyTxs()
		sig, err := types.GetSignature(h, sg)
		if err != nil {
			return nil, err
		}
		sh := &types.SignedHeader{Header: h, Signer: prev.Signer, Signature: sig}
		out = append(out, sh)
		prev = sh
	}
	return out, nil
}

func paddingData(from uint64, n int) []*types.Data {
	out := make([]*types.Data, n)
	for i := range out {
		h := from + uint64(i)
		out[i] = &types.Data{Metadata: &types.Metadata{ChainID: chainID, Height: h, Time: uint64(h)}, Txs: types.Txs{types.Tx(fmt.Sprintf("pad-%d", h))}}
	}
	return out
}

func newNode(ctx context.Context, c *Case, rootDir string) (*node, error) {
	return newNodeOn(ctx, c, rootDir, nil)
}

// newNodeOn: prev != nil = a restart of the aggregator prev: new Manager and Reaper on prev's datastore, with prev's
// key, genesis and collaborators (execution layer, sequencer, DA layer keep their state, as real ones would)
func newNodeOn(ctx context.Context, c *Case, rootDir string, prev *node) (*node, error) {
	n := &node{c: c, returned: map[string]time.Time{}, halted: make(chan struct{})}
	if prev != nil {
		var err error
		n.sg, n.gen, n.kv, n.da, n.seq, n.exec = prev.sg, prev.gen, prev.kv, prev.da, prev.seq, prev.exec
		n.hb, n.db = &bcast[*types.SignedHeader]{c: c, name: "header", block: c.StallP2P}, &bcast[*types.Data]{c: c, name: "data", block: c.StallP2P}
		n.st = store.New(n.kv)
		n.m, err = block.NewManager(ctx, n.sg, c.config(rootDir, true), n.gen, n.st, n.exec, n.seq, n.da, quiet(), nil, nil,
			n.hb, n.db, block.NopMetrics(), 1, 1, block.DefaultManagerOptions())
		if err != nil {
			return nil, fmt.Errorf("NewManager (restart): %w", err)
		}
		n.reaper = block.NewReaper(ctx, n.exec, n.seq, chainID, ms(c.BlockTimeMs), quiet(), newKV())
		n.reaper.SetManager(n.m)
		return n, nil
	}
	r := rand.New(rand.NewSource(c.Seed*7919 + int64(c.Idx)))
	priv, _, err := crypto.GenerateEd25519Key(rndReader{r})
	if err != nil {
		return nil, err
	}
	if n.sg, err = noopsigner.NewNoopSigner(priv); err != nil {
		return nil, err
	}
	addr, err := n.sg.GetAddress()
	if err != nil {
		return nil, err
	}
	n.da = newDA(c)
	n.hb, n.db = &bcast[*types.SignedHeader]{c: c, name: "header", block: c.StallP2P}, &bcast[*types.Data]{c: c, name: "data", block: c.StallP2P}
	n.seq = &seqDouble{c: c}
	n.kv = newKV()
	n.st = store.New(n.kv)
	if c.TwoWriters != nil {
		n.gate = newGateStore(n.st)
		n.st = n.gate
	}
	if c.Mode == "agg" {
		n.gen = genesispkg.NewGenesis(chainID, c.InitialHeight, time.Now().Add(ms(c.GenesisOffset)), addr)
		n.exec = &execDouble{c: c, start: time.Now()}
		n.m, err = block.NewManager(ctx, n.sg, c.config(rootDir, true), n.gen, n.st, n.exec, n.seq, n.da, quiet(), nil, nil,
			n.hb, n.db, block.NopMetrics(), 1, 1, block.DefaultManagerOptions())
		if err != nil {
			return nil, fmt.Errorf("NewManager: %w", err)
		}
		n.reaper = block.NewReaper(ctx, n.exec, n.seq, chainID, ms(c.BlockTimeMs), quiet(), newKV())
		n.reaper.SetManager(n.m)
		return n, nil
	}
	// full node: first the proposer's chain
	n.gen = genesispkg.NewGenesis(chainID, c.InitialHeight, time.Now(), addr)
	if n.chain, err = produceChain(c, n.sg, n.gen, filepath.Join(rootDir, "proposer"), n.da); err != nil {
		return nil, err
	}
	hs := &p2pStore[*types.SignedHeader]{c: c, name: "header", everyMs: c.P2PEveryMs}
	dst := &p2pStore[*types.Data]{c: c, name: "data", everyMs: c.P2PEveryMs}
	if c.Delivery != "da" && c.InitialHeight == 1 {
		for i := range n.chain.headers {
			cp, cd := *n.chain.headers[i], *n.chain.datas[i]
			hs.items, dst.items = append(hs.items, &cp), append(dst.items, &cd)
		}
	}
	last := n.chain.headers[len(n.chain.headers)-1]
	switch c.Flood {
	case "p2p-header":
		pad, err := paddingHeaders(n.sg, last, floodN)
		if err != nil {
			return nil, err
		}
		hs.items = append(hs.items, pad...)
	case "p2p-data":
		dst.items = append(dst.items, paddingData(uint64(len(dst.items))+1, 4*floodN)...)
	case "da-header":
		pad, err := paddingHeaders(n.sg, last, floodN)
		if err != nil {
			return nil, err
		}
		blobs := make([][]byte, len(pad))
		for i, p := range pad {
			if blobs[i], err = p.MarshalBinary(); err != nil {
				return nil, err
			}
		}
		n.da.post(blobs)
	case "da-data":
		pub, _ := n.sg.GetPublic()
		blobs := make([][]byte, floodN)
		for i, d := range paddingData(last.Height()+1, floodN) {
			bz, err := d.MarshalBinary()
			if err != nil {
				return nil, err
			}
			sig, err := n.sg.Sign(bz)
			if err != nil {
				return nil, err
			}
			sd := &types.SignedData{Data: *d, Signature: sig, Signer: types.Signer{PubKey: pub, Address: addr}}
			if blobs[i], err = sd.MarshalBinary(); err != nil {
				return nil, err
			}
		}
		n.da.post(blobs)
	}
	hs.from, dst.from = time.Now(), time.Now()
	n.exec = &execDouble{c: c, start: time.Now()}
	n.m, err = block.NewManager(ctx, nil, c.config(rootDir, false), n.gen, n.st, n.exec, n.seq, n.da, quiet(), hs, dst,
		n.hb, n.db, block.NopMetrics(), 1, 1, block.DefaultManagerOptions())
	if err != nil {
		return nil, fmt.Errorf("NewManager: %w", err)
	}
	return n, nil
}

func (n *node) spawnWorker(wg *sync.WaitGroup, root string, f func()) {
	wg.Add(1)
	go func() {
		defer wg.Done()
		// FullNode.Run does not recover: a panic in a loop kills the node process.  Here it is recorded as the
		// failure of this case (with the case as the failing input) instead of killing the whole run.
		defer func() {
			if r := recover(); r != nil {
				st := string(debug.Stack())
				if i := strings.Index(st, "panic("); i >= 0 {
					st = st[i:]
				}
				if len(st) > 900 {
					st = st[:900]
				}
				n.mu.Lock()
				n.panics = append(n.panics, [2]string{root, fmt.Sprintf("%v; %s", r, strings.Join(strings.Fields(st), " "))})
				n.returned[root] = time.Now()
				n.mu.Unlock()
			}
		}()
		f()
		n.mu.Lock()
		n.returned[root] = time.Now()
		n.mu.Unlock()
	}()
}

// run mirrors FullNode.Run from the creation of errCh to wg.Wait() (node/full.go; compared by checkFanout)
func (n *node) run(parentCtx context.Context) {
	defer close(n.halted)
	ctx, cancelNode := context.WithCancel(parentCtx)
	defer cancelNode()
	errCh := make(chan error, 1)
	n.errCh = errCh
	if n.c.ErrChTaken {
		errCh <- errors.New("c13: another loop's error, written after Run took the stop branch")
	}
	var wg sync.WaitGroup
	if n.c.Mode == "agg" {
		n.spawnWorker(&wg, "AggregationLoop", func() { n.m.AggregationLoop(ctx, errCh) })
		n.spawnWorker(&wg, "Reaper.Start", func() { n.reaper.Start(ctx) })
		n.spawnWorker(&wg, "HeaderSubmissionLoop", func() { n.m.HeaderSubmissionLoop(ctx) })
		n.spawnWorker(&wg, "DataSubmissionLoop", func() { n.m.DataSubmissionLoop(ctx) })
		n.spawnWorker(&wg, "DAIncluderLoop", func() { n.m.DAIncluderLoop(ctx, errCh) })
	} else {
		n.spawnWorker(&wg, "RetrieveLoop", func() { n.m.RetrieveLoop(ctx) })
		n.spawnWorker(&wg, "HeaderStoreRetrieveLoop", func() { n.m.HeaderStoreRetrieveLoop(ctx) })
		n.spawnWorker(&wg, "DataStoreRetrieveLoop", func() { n.m.DataStoreRetrieveLoop(ctx) })
		n.spawnWorker(&wg, "SyncLoop", func() { n.m.SyncLoop(ctx, errCh) })
		n.spawnWorker(&wg, "DAIncluderLoop", func() { n.m.DAIncluderLoop(ctx, errCh) })
	}
	if n.c.ErrChTaken {
		<-parentCtx.Done()
		cancelNode()
	} else {
		select {
		case err := <-errCh:
			if err != nil {
				n.mu.Lock()
				n.selfStop = time.Now()
				n.mu.Unlock()
				cancelNode()
			}
		case <-parentCtx.Done():
			cancelNode()
		}
	}
	wg.Wait()
}

func (n *node) roots() []string {
	if n.c.Mode == "agg" {
		return rootsAgg
	}
	return rootsFull
}

// ---- one case -------------------------------------------------------------------------------------------

type loopObs struct {
	Root     string  `json:"root"`
	At       *parked `json:"at,omitempty"`           // parked there at the stop instant
	Stuck    *parked `json:"stuck,omitempty"`        // still parked there at the deadline
	InCall   string  `json:"in_call_from,omitempty"` // at the stop instant the loop was inside a call to a double, made from this function
	Returned bool    `json:"returned"`
	AfterMs  int64   `json:"returned_after_ms,omitempty"` // virtual time between the stop request and the return
}

type caseOut struct {
	loops      []loopObs
	viol       []string
	what       []string
	err        error
	height     uint64
	included   uint64
	selfStop   bool
	neverHalts bool
	conc       string // Coq term of the halted aggregator's state for Check/ConcCheck.v ("" = not applicable)
	concFull   string // Coq term of the halted full node's state for Check/ConcFullCheck.v
}

func (o *caseOut) fail(sig, what string) {
	for _, s := range o.viol {
		if s == sig {
			return
		}
	}
	o.viol = append(o.viol, sig)
	o.what = append(o.what, what)
}

func stuckSignature(p *parked) string {
	if p.Ext {
		return "loop-ignores-stop-during-" + p.Call
	}
	s := "uncancellable-" + p.Kind + "-" + p.Func
	if p.Kind == "send" || p.Kind == "recv" {
		s += "-" + p.What
	}
	return s
}

func find(ps []parked, root string) *parked {
	for i := range ps {
		if ps[i].Root == root {
			return &ps[i]
		}
	}
	return nil
}

func runCase(t *testing.T, c *Case, rootDir string) (out *caseOut) {
	wd := startWatchdog(c) // real clock: we are outside the bubble here (watchdog_test.go)
	defer wd.stop()
	if c.TwoWriters != nil {
		return runTwoWriters(t, c, rootDir)
	}
	out = &caseOut{}
	defer func() {
		// a loop that never returns, whatever the harness releases, leaves blocked goroutines behind: synctest
		// panics when the bubble's main goroutine exits.  The hang has been recorded as an oracle failure.
		if r := recover(); r != nil {
			if !out.neverHalts {
				panic(r)
			}
		}
	}()
	synctest.Test(t, func(t *testing.T) {
		// the context the node is CONSTRUCTED with (node.NewNode -> NewManager / NewReaper) and the context Run is
		// called with: unrelated by default (the API allows it), the same one in the cmd wiring; Run derives its
		// own cancellable context from the latter either way
		buildCtx, endCase := context.WithCancel(context.Background())
		defer endCase()
		var prev *node
		if c.RestartAfterMs > 0 && c.Mode == "agg" {
			// first run: a fresh node, stopped after RestartAfterMs; it must halt like any other
			n1, err := newNode(buildCtx, c, rootDir)
			if err != nil {
				out.err = err
				return
			}
			p1, stop1 := context.WithCancel(context.Background())
			go n1.run(p1)
			time.Sleep(ms(c.RestartAfterMs))
			synctest.Wait()
			stop1()
			select {
			case <-n1.halted:
			case <-time.After(ms(c.DeadlineMs)):
				synctest.Wait()
				late := snapshotLoops()
				n1.mu.Lock()
				for _, root := range n1.roots() {
					if _, ok := n1.returned[root]; !ok {
						p := find(late, root)
						if p == nil {
							p = &parked{Root: root, Func: root, Kind: "unknown", What: "not parked in /repo/block"}
						}
						out.fail(stuckSignature(p), fmt.Sprintf("first run (before the restart): %s had not returned %d ms (virtual) after the stop request: parked in %s [%s] %s %s (%s)", root, c.DeadlineMs, p.Func, p.Kind, p.What, p.Call, p.Pos))
					}
				}
				n1.mu.Unlock()
				endCase()
				if !n1.release() {
					out.neverHalts = true
				}
				return
			}
			n1.mu.Lock()
			for _, pn := range n1.panics {
				out.fail("loop-panicked-"+pn[0], fmt.Sprintf("first run (before the restart): %s panicked (FullNode.Run does not recover: the node process dies): %s", pn[0], pn[1]))
			}
			n1.mu.Unlock()
			prev = n1
		}
		n, err := newNodeOn(buildCtx, c, rootDir, prev)
		if err != nil {
			out.err = err
			return
		}
		parent, stop := context.WithCancel(context.Background())
		if c.BuildIsParent {
			parent, stop = buildCtx, endCase
		}
		go n.run(parent)
		time.Sleep(ms(c.StopAtMs))
		synctest.Wait()
		at := snapshotLoops()
		tStop := time.Now()
		if strings.HasPrefix(c.Scenario, "startup-wait-") || c.Scenario == "sleep-before-first-block" {
			if p := find(at, "AggregationLoop"); p == nil || p.Func != "AggregationLoop" {
				out.fail("scenario-not-reached-startup-wait", "AggregationLoop was not in its start-up wait at the stop instant: the scenario no longer exercises a stop request during that wait")
			}
		}
		if c.StallP2P && c.Scenario != "" {
			if p := find(at, "AggregationLoop"); p == nil || !(p.Func == "publishBlockInternal" || strings.HasPrefix(p.Call, "bcast.")) {
				out.fail("scenario-not-reached-broadcast-stalled", "AggregationLoop was not inside the broadcast of a committed block at the stop instant")
			}
		}
		if c.HangCall != "" {
			// the call never completes before its context is done, so "entered" = "in flight at the stop instant"
			// (or, when the node stopped itself earlier, at that instant)
			if atomic.LoadInt32(&c.hangHits) == 0 && c.Scenario != "" {
				out.fail("scenario-not-reached-"+c.HangCall, "no loop was inside "+c.HangCall+" at the stop instant: the scenario no longer exercises that call")
			}
		}
		// the node may have cancelled its run context by itself (a loop error): every loop must have returned
		// within the deadline after THAT, whether or not anybody cancels the parent
		n.mu.Lock()
		if !n.selfStop.IsZero() && tStop.Sub(n.selfStop) >= ms(c.DeadlineMs) {
			for _, root := range n.roots() {
				if _, ok := n.returned[root]; !ok {
					p := find(at, root)
					if p == nil {
						p = &parked{Root: root, Func: root, Kind: "unknown", What: "not parked in /repo/block"}
					}
					out.fail(stuckSignature(p), fmt.Sprintf("%s had not returned %d ms (virtual) after the node cancelled its run context on a loop error: parked in %s [%s] %s %s (%s)", root, tStop.Sub(n.selfStop).Milliseconds(), p.Func, p.Kind, p.What, p.Call, p.Pos))
				}
			}
		}
		n.mu.Unlock()
		stop()
		time.Sleep(ms(c.DeadlineMs))
		synctest.Wait()
		late := snapshotLoops()
		n.mu.Lock()
		for _, root := range n.roots() {
			lo := loopObs{Root: root}
			if p := find(at, root); p != nil && !p.Ext {
				lo.At = p
			} else if p != nil {
				lo.InCall = p.Call
			}
			if rt, ok := n.returned[root]; ok {
				lo.Returned = true
				if rt.After(tStop) {
					lo.AfterMs = rt.Sub(tStop).Milliseconds()
				}
			} else {
				p := find(late, root)
				if p == nil {
					p = &parked{Root: root, Func: root, Kind: "unknown", What: "not parked in /repo/block"}
				}
				lo.Stuck = p
				// a collaborator that ignores cancellation (exec_ignores_ctx) delays ONE call by its own latency; a loop
				// that goes on STARTING calls after the stop request is a different matter and gets its own signature
				if k := n.exec.startedAfter(p.Call, tStop); p.Ext && k >= 2 {
					out.fail("loop-keeps-calling-"+p.Call+"-after-stop", fmt.Sprintf("%s started %d further %s calls after the stop request and had not returned %d ms (virtual) after it (parked in %s, %s)", root, k, p.Call, c.DeadlineMs, p.Func, p.Pos))
					out.loops = append(out.loops, lo)
					continue
				}
				out.fail(stuckSignature(p), fmt.Sprintf("%s had not returned %d ms (virtual) after the stop request: parked in %s [%s] %s %s (%s)", root, c.DeadlineMs, p.Func, p.Kind, p.What, p.Call, p.Pos))
			}
			out.loops = append(out.loops, lo)
		}
		out.selfStop = !n.selfStop.IsZero()
		for _, pn := range n.panics {
			out.fail("loop-panicked-"+pn[0], fmt.Sprintf("%s panicked (FullNode.Run does not recover: the node process dies): %s", pn[0], pn[1]))
		}
		n.mu.Unlock()
		// release whatever is stuck so that the bubble can end: read what nobody reads, let the sleep run out
		endCase() // calls still in flight on the construction context return now
		if !n.release() {
			out.neverHalts = true
			if len(out.viol) == 0 {
				out.fail("node-never-halts", "the node did not halt even after the harness drained every channel and waited 40 s")
			}
			return
		}
		n.invariants(out)
		if c.Mode == "agg" && c.InitialHeight == 1 {
			out.conc = n.concTerm()
		}
		if c.Mode == "full" && c.InitialHeight == 1 {
			out.concFull = n.concFullTerm()
		}
	})
	return out
}

// release: read what nobody reads and let sleeps run out (up to 40 s of virtual time) so that loops stuck in an
// uncancellable operation can return and the bubble can end; reports whether the node has halted
func (n *node) release() bool {
	for i := 0; i < 400; i++ {
		select {
		case <-n.halted:
			return true
		default:
		}
	drain:
		for {
			select {
			case <-n.errCh:
			case <-n.m.VerifHeaderInCh():
			case <-n.m.VerifDataInCh():
			default:
				break drain
			}
		}
		time.Sleep(100 * time.Millisecond)
	}
	select {
	case <-n.halted:
		return true
	default:
		return false
	}
}

// ---- invariants on the halted node (C01 / C06 / C07 for the aggregator, C02 / C07 for the full node) --------

func (n *node) onDA() (hdr map[string]bool, dat map[string]bool) {
	hdr, dat = map[string]bool{}, map[string]bool{}
	for _, blobs := range n.da.snapshot() {
		for _, b := range blobs {
			var sh types.SignedHeader
			if sh.UnmarshalBinary(b) == nil && sh.ValidateBasic() == nil {
				hdr[string(sh.Hash())] = true
				continue
			}
			var sd types.SignedData
			if sd.UnmarshalBinary(b) == nil && len(sd.Txs) > 0 {
				dat[string(sd.Data.DACommitment())] = true
			}
		}
	}
	return
}

func (n *node) metaU64(key string) (uint64, bool) {
	b, err := n.st.GetMetadata(context.Background(), key)
	if err != nil || len(b) != 8 {
		return 0, false
	}
	return binary.LittleEndian.Uint64(b), true
}

func (n *node) invariants(out *caseOut) {
	ctx := context.Background()
	c := n.c
	ini := n.gen.InitialHeight
	height, err := n.st.Height(ctx)
	if err != nil {
		out.fail("store-height-unreadable", err.Error())
		return
	}
	out.height = height
	empty := block.VerifDataHashForEmptyTxs()
	var prev *types.SignedHeader
	for h := ini; h <= height; h++ {
		hd, d, err := n.st.GetBlockData(ctx, h)
		if err != nil {
			out.fail("committed-block-missing", fmt.Sprintf("store height is %d but height %d has no block: %v", height, h, err))
			return
		}
		if hd.Height() != h {
			out.fail("chain-invalid", fmt.Sprintf("block stored at %d has height %d", h, hd.Height()))
		}
		if !bytes.Equal(hd.ProposerAddress, n.gen.ProposerAddress) || hd.ValidateBasic() != nil {
			out.fail("chain-invalid", fmt.Sprintf("block %d is not signed by the genesis proposer: %v", h, hd.ValidateBasic()))
		}
		if prev != nil && !bytes.Equal(hd.LastHeaderHash, prev.Hash()) {
			out.fail("chain-invalid", fmt.Sprintf("block %d is not linked to block %d", h, h-1))
		}
		if prev != nil && hd.Time().Before(prev.Time()) {
			out.fail("chain-invalid", fmt.Sprintf("block %d is older than block %d", h, h-1))
		}
		if len(d.Txs) == 0 {
			if !bytes.Equal(hd.DataHash, empty) {
				out.fail("chain-invalid", fmt.Sprintf("block %d: empty data, data hash is not the empty hash", h))
			}
		} else if !bytes.Equal(hd.DataHash, d.DACommitment()) {
			out.fail("chain-invalid", fmt.Sprintf("block %d: data hash does not commit to the data", h))
		}
		if c.Mode == "full" {
			i := int(h - ini)
			if i >= len(n.chain.headers) || !bytes.Equal(hd.Hash(), n.chain.headers[i].Hash()) || !bytes.Equal(d.DACommitment(), n.chain.datas[i].DACommitment()) {
				out.fail("diverged-from-proposer", fmt.Sprintf("block %d is not the proposer's block %d", h, h))
			}
		}
		prev = hd
	}
	if height >= ini {
		s, err := n.st.GetState(ctx)
		if err != nil || s.LastBlockHeight != height {
			out.fail("height-state-disagree", fmt.Sprintf("store height %d, state height %d (%v)", height, s.LastBlockHeight, err))
		} else if c.Mode == "full" {
			if want := n.chain.states[height-ini]; !bytes.Equal(s.AppHash, want.AppHash) {
				out.fail("diverged-from-proposer", fmt.Sprintf("state root at %d is not the proposer's", height))
			}
		}
	}
	hdrOn, datOn := n.onDA()
	onDA := func(h uint64) (bool, bool) {
		hd, d, err := n.st.GetBlockData(ctx, h)
		if err != nil {
			return false, false
		}
		return hdrOn[string(hd.Hash())], len(d.Txs) == 0 || datOn[string(d.DACommitment())]
	}
	if c.Mode == "agg" {
		wh, wd := n.m.VerifLastSubmittedHeaderHeight(), n.m.VerifLastSubmittedDataHeight()
		if wh > height || wd > height {
			out.fail("watermark-above-height", fmt.Sprintf("header watermark %d, data watermark %d, height %d", wh, wd, height))
		}
		for h := ini; h <= wh && h <= height; h++ {
			if ok, _ := onDA(h); !ok {
				out.fail("watermark-unsound", fmt.Sprintf("header watermark is %d but header %d is not on the DA layer", wh, h))
			}
		}
		for h := ini; h <= wd && h <= height; h++ {
			if _, ok := onDA(h); !ok {
				out.fail("watermark-unsound", fmt.Sprintf("data watermark is %d but data %d is not on the DA layer", wd, h))
			}
		}
		if p, ok := n.metaU64(store.LastSubmittedHeaderHeightKey); ok && p != wh {
			out.fail("watermark-not-durable", fmt.Sprintf("header watermark %d, persisted %d", wh, p))
		}
		// every loop has returned: nobody is inside setLastSubmittedHeight, the recorded data watermark is the
		// in-memory one (Model/Conc.v g_wm_eq); the data watermark has two writers (submission loop, block production)
		if p, ok := n.metaU64(block.LastSubmittedDataHeightKey); ok && p != wd {
			out.fail("watermark-not-durable", fmt.Sprintf("data watermark %d, persisted %d", wd, p))
		}
	}
	di := n.m.GetDAIncludedHeight()
	out.included = di
	if di > height {
		out.fail("da-included-above-height", fmt.Sprintf("DA-included height %d, height %d", di, height))
	}
	for h := ini; h <= di && h <= height; h++ {
		if a, b := onDA(h); !a || !b {
			out.fail("da-included-unsound", fmt.Sprintf("DA-included height is %d but block %d is not entirely on the DA layer (header %v, data %v)", di, h, a, b))
		}
	}
	// nothing persisted yet: the DA-included height is the height below the initial one (0 for initial height 1)
	if p, ok := n.metaU64(store.DAIncludedHeightKey); (ok && p != di) || (!ok && di != ini-1) {
		out.fail("da-included-not-durable", fmt.Sprintf("DA-included height %d, persisted %d (%v)", di, p, ok))
	}
	n.exec.mu.Lock()
	for i, f := range n.exec.finals {
		if i > 0 && f != n.exec.finals[i-1]+1 {
			out.fail("finalization-out-of-order", fmt.Sprintf("SetFinal calls %v", n.exec.finals))
		}
	}
	n.exec.mu.Unlock()
}

// ---- generator ------------------------------------------------------------------------------------------

func pick[T any](r *rand.Rand, xs ...T) T { return xs[r.Intn(len(xs))] }

func genCase(seed int64, idx int) *Case {
	r := rand.New(rand.NewSource(seed*1000003 + int64(idx)))
	c := &Case{Seed: seed, Idx: idx, InitialHeight: 1, DeadlineMs: 1000}
	c.BlockTimeMs = pick[int64](r, 200, 500, 1000)
	c.DABlockTimeMs = pick[int64](r, 300, 1000, 2000)
	c.ExecDelayMs = pick[int64](r, 0, 0, 50, 400)
	c.FinalDelayMs = pick[int64](r, 0, 0, 100)
	c.ExecLagMs = pick[int64](r, 0, 0, 20)
	c.FinalLagMs = pick[int64](r, 0, 0, 20)
	c.ExecIgnoresCtx = r.Intn(5) == 0
	if r.Intn(7) == 0 {
		c.ExecFailAt = uint64(2 + r.Intn(5))
	}
	if r.Intn(10) == 0 {
		c.FinalFailAt = uint64(1 + r.Intn(3))
	}
	switch r.Intn(10) {
	case 0:
		c.StopAtMs = 0
	case 1:
		c.StopAtMs = int64(r.Intn(50))
	default:
		c.StopAtMs = int64(r.Intn(12000))
	}
	if r.Intn(100) < 55 {
		c.Mode = "agg"
		c.Lazy = r.Intn(10) < 3
		c.LazyIntervalMs = pick[int64](r, 1000, 3000)
		if r.Intn(2) == 0 {
			c.GenesisOffset = -int64(r.Intn(5000))
		} else {
			c.GenesisOffset = int64(100 + r.Intn(4000))
		}
		if r.Intn(4) == 0 {
			c.InitialHeight = 5
		}
		c.MaxPending = pick[uint64](r, 0, 0, 2, 5)
		c.TxEveryMs = pick[int64](r, 0, 150, 700)
		c.DASubmitDelayMs = pick[int64](r, 0, 100, 1500)
		c.DAFailEvery = pick(r, 0, 0, 2, 3)
	} else {
		c.Mode = "full"
		c.ChainLen = 2 + r.Intn(7)
		for i := 0; i < c.ChainLen; i++ {
			c.TxBlocks = append(c.TxBlocks, i > 0 && r.Intn(10) < 6)
		}
		c.Delivery = pick(r, "both", "both", "da", "p2p")
		c.P2PEveryMs = pick[int64](r, 0, 300, 1000)
		c.DAGetDelayMs = pick[int64](r, 0, 50, 800)
		c.DAGetFailEvery = pick(r, 0, 0, 3)
	}
	// 15%: one external call never completes before its context is done (a call in flight at the stop instant)
	if r.Intn(100) < 15 {
		if c.Mode == "agg" {
			c.HangCall = pick(r, "exec.GetTxs", "seq.SubmitBatchTxs", "seq.GetNextBatch", "exec.ExecuteTxs", "exec.SetFinal", "da.SubmitWithOptions",
				"bcast.WriteToStoreAndBroadcast:header", "bcast.WriteToStoreAndBroadcast:data")
			if c.TxEveryMs == 0 {
				c.TxEveryMs = 150
			}
		} else {
			c.HangCall = pick(r, "da.GetIDs", "da.Get", "exec.ExecuteTxs", "exec.SetFinal", "p2p.GetByHeight:header", "p2p.GetByHeight:data")
		}
		c.BuildIsParent = r.Intn(2) == 0
	}
	// 10% of the aggregator cases: the observed node is a RESTART on the store of a first run (start-up wait = last
	// block time + block time)
	if c.Mode == "agg" && r.Intn(10) == 0 {
		c.RestartAfterMs = int64(500 + r.Intn(6000))
	}
	return c
}

// Part B: one scenario per (function, kind, channel) the table listed as not cancellable before the repairs
// ca974a2 / 0d6bd4f / 4176904 (each was a confirmed hang; each must now halt), plus g.Wait (still listed)
func scenarios() []*Case {
	full := func(name string) *Case {
		return &Case{Scenario: name, Mode: "full", InitialHeight: 1, BlockTimeMs: 1000, DABlockTimeMs: 500, ChainLen: 8,
			TxBlocks: []bool{false, true, false, true, false, false, true, false}, Delivery: "da", DeadlineMs: 5000}
	}
	var out []*Case
	// AggregationLoop / sleep / delay: genesis 4 s in the future, stop after 1 s
	out = append(out, &Case{Scenario: "sleep-before-first-block", Mode: "agg", InitialHeight: 1, GenesisOffset: 4000, BlockTimeMs: 1000, DABlockTimeMs: 1000, StopAtMs: 1000, DeadlineMs: 2000})
	out = append(out, &Case{Scenario: "startup-wait-genesis-ahead-lazy", Mode: "agg", Lazy: true, LazyIntervalMs: 1000, InitialHeight: 1, GenesisOffset: 4000, BlockTimeMs: 1000, DABlockTimeMs: 1000, StopAtMs: 1000, DeadlineMs: 2000})
	// the other branch of the start-up wait (store height >= initial height: last block time + block time): the node
	// has produced blocks (at 0, 4 and 8 s), is stopped at 8.5 s and started again on the same store; the stop
	// request arrives 1 s later, 2.5 s before the next block is due
	out = append(out, &Case{Scenario: "startup-wait-after-restart", Mode: "agg", InitialHeight: 1, GenesisOffset: -5000, BlockTimeMs: 4000, DABlockTimeMs: 1000, TxEveryMs: 150, RestartAfterMs: 8500, StopAtMs: 1000, DeadlineMs: 2000})
	out = append(out, &Case{Scenario: "startup-wait-after-restart-lazy", Mode: "agg", Lazy: true, LazyIntervalMs: 3000, InitialHeight: 1, GenesisOffset: -5000, BlockTimeMs: 4000, DABlockTimeMs: 1000, TxEveryMs: 150, RestartAfterMs: 8500, StopAtMs: 1000, DeadlineMs: 2000})
	// AggregationLoop / send / errCh: production fails (execution layer) while the slot of errCh is taken and Run is past its select
	out = append(out, &Case{Scenario: "aggregation-error-slot-taken", Mode: "agg", InitialHeight: 1, GenesisOffset: -1000, BlockTimeMs: 500, DABlockTimeMs: 1000, TxEveryMs: 150, ExecFailAt: 3, ErrChTaken: true, StopAtMs: 4000, DeadlineMs: 3000})
	out = append(out, &Case{Scenario: "aggregation-error-slot-taken-lazy", Mode: "agg", Lazy: true, LazyIntervalMs: 1000, InitialHeight: 1, GenesisOffset: -1000, BlockTimeMs: 500, DABlockTimeMs: 1000, TxEveryMs: 150, ExecFailAt: 3, ErrChTaken: true, StopAtMs: 6000, DeadlineMs: 3000})
	// the same failure with Run reading errCh: the node stops by itself, nothing hangs
	out = append(out, &Case{Scenario: "aggregation-error-read-by-run", Mode: "agg", InitialHeight: 1, GenesisOffset: -1000, BlockTimeMs: 500, DABlockTimeMs: 1000, TxEveryMs: 150, ExecFailAt: 3, StopAtMs: 4000, DeadlineMs: 3000})
	// publishBlockInternal / wait / g.Wait: the broadcasters stall until their context is done
	out = append(out, &Case{Scenario: "broadcast-stalled", Mode: "agg", InitialHeight: 1, GenesisOffset: -1000, BlockTimeMs: 500, DABlockTimeMs: 1000, StallP2P: true, StopAtMs: 3000, DeadlineMs: 3000})
	out = append(out, &Case{Scenario: "broadcast-stalled-lazy", Mode: "agg", Lazy: true, LazyIntervalMs: 1000, InitialHeight: 1, GenesisOffset: -1000, BlockTimeMs: 500, DABlockTimeMs: 1000, TxEveryMs: 150, StallP2P: true, StopAtMs: 3000, DeadlineMs: 3000})
	// SyncLoop / send / errCh and DAIncluderLoop / send / errCh: stop while the sync loop is executing a block and the
	// includer is finalizing one; both calls fail with the cancellation; the second error finds the slot taken
	s := full("sync-error-second")
	s.ExecDelayMs, s.FinalDelayMs, s.DAGetDelayMs, s.ExecLagMs, s.FinalLagMs, s.StopAtMs = 1000, 5000, 300, 40, 10, 3200
	out = append(out, s)
	s = full("includer-error-second")
	s.ExecDelayMs, s.FinalDelayMs, s.DAGetDelayMs, s.ExecLagMs, s.FinalLagMs, s.StopAtMs = 1000, 5000, 300, 10, 40, 3200
	out = append(out, s)
	// bare sends into headerInCh / dataInCh: the sync loop is busy executing block 1 while more than 10000 events arrive
	for _, f := range []string{"da-header", "da-data", "p2p-header", "p2p-data"} {
		s = full("flood-" + f)
		s.Flood, s.ExecDelayMs, s.StopAtMs = f, 600000, 4000
		if strings.HasPrefix(f, "p2p") {
			s.Delivery = "p2p"
		}
		out = append(out, s)
	}
	// a call in flight at the stop instant, for EVERY external call the loops make; the double returns only when
	// the context it was given is done.  The blockpoints table does not cover these (it lists channel / sleep /
	// wait operations only): this half of the stop protocol rests on these scenarios.
	agg := func(call string) *Case {
		return &Case{Scenario: "in-flight-" + call, Mode: "agg", InitialHeight: 1, GenesisOffset: -1000, BlockTimeMs: 500, DABlockTimeMs: 1000,
			TxEveryMs: 150, HangCall: call, StopAtMs: 5000, DeadlineMs: 1000}
	}
	for _, call := range []string{"exec.GetTxs", "seq.SubmitBatchTxs", "seq.GetNextBatch", "exec.ExecuteTxs", "exec.SetFinal", "da.SubmitWithOptions",
		"bcast.WriteToStoreAndBroadcast:header", "bcast.WriteToStoreAndBroadcast:data"} {
		out = append(out, agg(call))
	}
	for _, call := range []string{"da.GetIDs", "da.Get", "exec.ExecuteTxs", "exec.SetFinal", "p2p.GetByHeight:header", "p2p.GetByHeight:data"} {
		s = full("in-flight-full-" + call)
		s.HangCall, s.StopAtMs, s.DeadlineMs = call, 5000, 1000
		// DA heights arrive spaced in virtual time: the includer is signalled only when a DA blob is handled, so with an
		// instantaneous DA scan it may never be signalled again after block 1 has been applied (a real-time race)
		s.DAGetDelayMs, s.ExecDelayMs = 300, 100
		if strings.HasPrefix(call, "p2p") {
			s.Delivery = "p2p"
		}
		out = append(out, s)
	}
	// cmd wiring (construction context = the context Run is called with) and the node stops ITSELF: the aggregation
	// loop fails at block 3 and Run cancels only its own derived context while the reaper is inside a call
	for _, call := range []string{"exec.GetTxs", "seq.SubmitBatchTxs"} {
		s = agg(call)
		s.Scenario, s.BuildIsParent, s.ExecFailAt, s.StopAtMs = "self-stop-in-flight-"+call, true, 3, 8000
		out = append(out, s)
	}
	return out
}

// ---- Coq terms ------------------------------------------------------------------------------------------

type descTable struct {
	ids  map[string]int
	defs []string
}

func (d *descTable) ref(p *parked) string {
	if p == nil {
		return "None"
	}
	if p.Ext {
		p = &parked{Func: p.Func, Kind: "call", What: p.Call}
	}
	k := p.desc()
	id, ok := d.ids[k]
	if !ok {
		id = len(d.ids)
		d.ids[k] = id
		d.defs = append(d.defs, fmt.Sprintf("Definition d%d : pdesc := (%s, %s, %s).", id, vgen.Str(p.Func), vgen.Str(p.Kind), vgen.Str(p.What)))
	}
	return fmt.Sprintf("(Some d%d)", id)
}

func caseRng(seed int64, c int) *rand.Rand { return rand.New(rand.NewSource(seed*1000003 + int64(c))) }

func hasSig(o *caseOut, sig string) bool {
	for _, s := range o.viol {
		if s == sig {
			return true
		}
	}
	return false
}

// shrink a failing case: drop the features that are not needed for the failure
func shrinkCase(t *testing.T, c *Case, sig, rootDir string) *Case {
	cur := *c
	try := func(f func(x *Case)) {
		cand := cur
		f(&cand)
		o := runCase(t, &cand, rootDir)
		if o.err == nil && hasSig(o, sig) {
			cur = cand
		}
	}
	try(func(x *Case) { x.RestartAfterMs = 0 })
	try(func(x *Case) { x.TxEveryMs = 0 })
	try(func(x *Case) { x.DAFailEvery, x.DAGetFailEvery = 0, 0 })
	try(func(x *Case) { x.DASubmitDelayMs, x.DAGetDelayMs = 0, 0 })
	try(func(x *Case) { x.ExecFailAt, x.FinalFailAt = 0, 0 })
	try(func(x *Case) {
		x.ExecDelayMs, x.FinalDelayMs, x.ExecLagMs, x.FinalLagMs, x.ExecIgnoresCtx = 0, 0, 0, 0, false
	})
	try(func(x *Case) { x.MaxPending = 0 })
	try(func(x *Case) { x.Lazy = false })
	try(func(x *Case) { x.InitialHeight = 1 })
	try(func(x *Case) { x.P2PEveryMs = 0 })
	try(func(x *Case) {
		if x.ChainLen > 2 {
			x.ChainLen, x.TxBlocks = 2, x.TxBlocks[:2]
		}
	})
	return &cur
}

const ruleText = "the node's loop fan-out as in FullNode.Run (one-slot errCh, five loops per mode, select on errCh / parent context, wg.Wait; compared with node/full.go on every run), real block.Manager / Reaper / store, unmodified loops, in a synctest bubble; the node is constructed with one context and run with another (or, 50% of the in-flight cases, the same, as cmd does), Run derives its own; doubles: execution layer (per-call delay, cancellation lag, may ignore its context, may fail from a height on; in 15% of the cases one external call - any of the 12 the loops make - blocks until the context it was given is done), FIFO sequencer, DA layer (delays, every k-th call fails), broadcasters, P2P stores; aggregator cases (55%): genesis 0..5 s in the past or 0.1..4.1 s in the future, lazy 30%, initial height 1 or 5, pending limit 0/2/5, mempool 0/150/700 ms, DA fast/slow; full-node cases (45%): the proposer's chain of 2..8 blocks made by a real aggregator Manager and submitted with its own code, delivered by DA, P2P or both; stop instant 0, <50 ms or uniform in 0..12 s; verdict 1 s (virtual) after the stop request; plus one fixed scenario per operation the table listed as not cancellable before the repairs (they must now halt) and one 'call in flight at the stop instant' scenario per external call of each loop (16); plus the two writers of the data submission watermark (block production's pending-limit test -> numWaitingData stepping over empty data; one iteration of the data submission loop) called as their loops call them on the real Manager and store, with ONE chosen write of the watermark held in the store wrapper while the other writer runs (5 fixed cases + 1 generated per 12 exploration cases: 0..3 submitted blocks, 1..3 + 1..2 empty / non-empty blocks above the watermark, which writer and which of its writes is held; pending limit = blocks above the watermark), oracle: values written under the watermark key never decrease, recorded = in-memory at rest, a Manager restarted on the same store re-submits nothing the DA layer accepted; 10% of the aggregator cases observe a RESTARTED node (first run 0.5..6.5 s, stop, new Manager / Reaper on the same store: start-up wait = last block time + block time); fixed scenarios for a stop request during the start-up wait (genesis ahead / after a restart, normal / lazy) and while the broadcasters of a committed block are blocked (normal / lazy); every case under a real-time watchdog (20 s: a loop that never blocks after the stop request freezes the virtual clock; recorded as loop-does-not-return-spinning-or-blocked with the case as input, the run ends there); plus a pass of the same binary under the race detector (quick: 8 aggregator scenarios with both submission loops in the same DA tick, the two-writers cases, 24 generated cases); non-trivial = at least one block committed; distinct = distinct (mode, lazy, genesis sign, parking positions, stuck positions)"

func TestVerif(t *testing.T) {
	logging.SetAllLoggers(logging.LevelFatal)
	e := vgen.GetEnv()
	res := vgen.NewResult("C13", e)
	rootDir, err := os.MkdirTemp("", "c13root")
	if err != nil {
		t.Fatal(err)
	}
	defer os.RemoveAll(rootDir)

	var jobs []*Case
	if e.Replay != "" {
		var c Case
		if err := vgen.LoadReplay(e.Replay, &c); err != nil {
			t.Fatal(err)
		}
		jobs = append(jobs, &c)
	} else if os.Getenv("VERIF_C13_RACE_CHILD") == "quick" {
		// the short pass under the race detector (quick tier): see raceRun
		jobs = append(jobs, raceScenarios()...)
		jobs = append(jobs, twoWriterScenarios()...)
		for i := 0; i < e.N; i++ {
			jobs = append(jobs, genCase(e.Seed, i))
		}
	} else {
		if os.Getenv("VERIF_NO_CORPUS") == "" {
			jobs = append(jobs, scenarios()...)
			jobs = append(jobs, twoWriterScenarios()...)
			files, _ := filepath.Glob("../corpus/C13/*.json")
			for _, f := range files {
				var c Case
				if vgen.LoadReplay(f, &c) == nil {
					jobs = append(jobs, &c)
				}
			}
		}
		for i := 0; i < e.N; i++ {
			jobs = append(jobs, genCase(e.Seed, i))
		}
		// the two writers of the data watermark with one store write held: 1 per 12 exploration cases
		for i := 0; i < e.N/12; i++ {
			jobs = append(jobs, genTwoWriters(e.Seed, i))
		}
	}
	if err := checkFanout(); err != nil {
		res.Violations = append(res.Violations, vgen.Violation{Signature: "fanout-differs-from-harness", What: "node/full.go no longer starts the loops the way this harness reproduces: " + err.Error(), Case: -1,
			Replay: map[string]string{"what": err.Error()}})
	}
	dt := &descTable{ids: map[string]int{}}
	var cases, ccases, fcases []string
	distinct := map[string]bool{}
	scen := map[string]interface{}{}
	sigSeen := map[string]int{}
	slowest := time.Duration(0)
	curJob := 0
	// finish: write the Coq cases and result.json for the cases completed so far (end of the run, or the watchdog)
	finish := func() error {
		if len(scen) > 0 {
			res.Extra["part_B_scenarios"] = scen
		}
		res.Extra["slowest_case_real_ms"] = slowest.Milliseconds()
		res.Distinct = len(distinct)
		res.Rule = ruleText
		defs := append([]string{}, dt.defs...)
		sort.Strings(defs)
		res.Cases = len(cases)
		header := "From Coq Require Import String NArith List Bool.\nFrom Verif Require Import Model.StopProto gen.BlockPoints Check.StopCheck."
		path := filepath.Join(e.Out, "cases_C13.v")
		if err := vgen.WriteCases(path, header, defs, "scase", cases, "mismatches"); err != nil {
			return err
		}
		res.CaseFiles = []string{path}
		cpath := filepath.Join(e.Out, "cases_C13_conc.v")
		if err := vgen.WriteCases(cpath, "From Coq Require Import NArith List Bool.\nFrom Verif Require Import Model.Conc Check.ConcCheck.\nOpen Scope N_scope.", nil, "ccase", ccases, "cmismatches"); err != nil {
			return err
		}
		res.CaseFiles = append(res.CaseFiles, cpath)
		res.Cases += len(ccases)
		res.Distribution["aggregator-states-checked-against-Conc-invariant"] = len(ccases)
		fpath := filepath.Join(e.Out, "cases_C13_concfull.v")
		if err := vgen.WriteCases(fpath, "From Coq Require Import NArith List Bool.\nFrom Verif Require Import Model.Conc Model.ConcFull Check.ConcFullCheck.\nOpen Scope N_scope.", nil, "fcase", fcases, "fmismatches"); err != nil {
			return err
		}
		res.CaseFiles = append(res.CaseFiles, fpath)
		res.Cases += len(fcases)
		res.Distribution["full-node-states-checked-against-ConcFull-invariant"] = len(fcases)
		return res.Write(e.Out)
	}
	// the watchdog fired (it holds hang.mu: this goroutine is inside runCase and not touching the state): the case
	// that does not end is the failing input; nothing after it can run in this process
	hang.mu.Lock()
	hang.onHang = func(c *Case, what string) {
		res.Evaluations++
		res.Count("case-did-not-finish-in-real-time")
		res.Violations = append(res.Violations, vgen.Violation{Signature: hangSignature, What: what, Case: curJob, Replay: c})
		res.Replays[fmt.Sprint(curJob)] = jobs[curJob]
		res.Extra["watchdog"] = map[string]interface{}{"fired_at_case": curJob, "cases_completed": curJob, "cases_not_run": len(jobs) - curJob - 1, "what": what}
		fmt.Printf("WATCHDOG: case %d (scenario %q) %s\n", curJob, c.Scenario, what)
		code := 0
		if err := finish(); err != nil {
			fmt.Println("WATCHDOG: could not write the results:", err)
			code = 3
		}
		_ = os.RemoveAll(rootDir)
		os.Exit(code)
	}
	hang.mu.Unlock()
	for ji, c := range jobs {
		dir := filepath.Join(rootDir, fmt.Sprintf("case%d", ji))
		hang.mu.Lock()
		curJob = ji
		hang.mu.Unlock()
		t0 := time.Now()
		o := runCase(t, c, dir)
		if o.err != nil {
			t.Fatalf("harness error (seed %d case %d scenario %q): %v", c.Seed, c.Idx, c.Scenario, o.err)
		}
		if d := time.Since(t0); d > slowest {
			slowest = d
		}
		// shrinking re-runs the case (each run under its own watchdog), so it happens before the state is locked
		shrunk := map[string]*Case{}
		for _, sig := range o.viol {
			if c.Scenario == "" && sigSeen[sig] == 0 {
				shrunk[sig] = shrinkCase(t, c, sig, filepath.Join(rootDir, fmt.Sprintf("shrink%d", ji)))
			}
		}
		hang.mu.Lock()
		res.Evaluations++
		res.Count("mode:" + c.Mode)
		if c.TwoWriters != nil {
			res.Count("two-writers:held-write-of-the-" + c.TwoWriters.First)
			if c.Scenario != "" {
				res.Count("scenario")
			}
		} else if c.Scenario != "" {
			res.Count("scenario")
		} else {
			if c.Mode == "agg" {
				if c.GenesisOffset > 0 {
					res.Count("agg:genesis-in-the-future")
				} else {
					res.Count("agg:genesis-in-the-past")
				}
				if c.Lazy {
					res.Count("agg:lazy")
				}
				if c.DASubmitDelayMs >= 1000 {
					res.Count("agg:slow-DA")
				}
			} else {
				res.Count("full:delivery-" + c.Delivery)
				if c.DAGetDelayMs >= 500 {
					res.Count("full:slow-DA")
				}
			}
			if c.ExecFailAt != 0 || c.FinalFailAt != 0 {
				res.Count("execution-layer-fails")
			}
			if c.ExecIgnoresCtx {
				res.Count("execution-layer-ignores-cancellation")
			}
			if c.HangCall != "" {
				res.Count("call-never-completes:" + c.HangCall)
			}
			switch {
			case c.StopAtMs == 0:
				res.Count("stop:at-start")
			case c.StopAtMs < 50:
				res.Count("stop:first-50ms")
			default:
				res.Count("stop:later")
			}
		}
		if o.selfStop {
			res.Count("node-stopped-itself-on-a-loop-error")
		}
		var loops, key []string
		maxAfter := int64(0)
		for _, lo := range o.loops {
			stuckForCoq := lo.Stuck
			if stuckForCoq != nil && stuckForCoq.Ext {
				stuckForCoq = nil // inside an external call: outside the scope of the blockpoints table; the Go oracle alone judges it
			}
			loops = append(loops, fmt.Sprintf("{| lo_root := %s; lo_at := %s; lo_stuck := %s |}", vgen.Str(lo.Root), dt.ref(lo.At), dt.ref(stuckForCoq)))
			a, s := "-", "-"
			if lo.At != nil {
				a = lo.At.desc()
				res.Count("parked-at-stop:" + lo.At.Func + "/" + lo.At.Kind)
				// the only blocking operation of AggregationLoop itself is its start-up wait
				if lo.Root == "AggregationLoop" && lo.At.Func == "AggregationLoop" {
					res.Count("stop:during-the-start-up-wait-of-AggregationLoop")
					if c.RestartAfterMs > 0 {
						res.Count("stop:during-the-start-up-wait-of-AggregationLoop-after-a-restart")
					}
				}
			}
			if lo.InCall != "" {
				res.Count("in-external-call-at-stop:" + lo.InCall)
			}
			if lo.Stuck != nil {
				s = lo.Stuck.desc()
				res.Count("stuck:" + stuckSignature(lo.Stuck))
			}
			if lo.AfterMs > maxAfter {
				maxAfter = lo.AfterMs
			}
			key = append(key, lo.Root+"@"+a+"!"+s)
		}
		switch {
		case maxAfter == 0:
			res.Count("returned-within:0ms")
		case maxAfter <= 100:
			res.Count("returned-within:100ms")
		default:
			res.Count("returned-within:more")
		}
		if o.height > 0 {
			distinct[fmt.Sprintf("%s|%v|%v|%s", c.Mode, c.Lazy, c.GenesisOffset > 0, strings.Join(key, ";"))] = true
		}
		res.Distribution["blocks-committed"] += int(o.height)
		res.Distribution["heights-DA-included"] += int(o.included)
		for vi, sig := range o.viol {
			sigSeen[sig]++
			if sigSeen[sig] > 3 {
				continue
			}
			rp := c
			if sc, ok := shrunk[sig]; ok {
				rp = sc
			}
			res.Violations = append(res.Violations, vgen.Violation{Signature: sig, What: o.what[vi], Case: ji, Replay: rp})
		}
		cases = append(cases, fmt.Sprintf("{| sc_id := %s; sc_loops := %s |}", vgen.N(uint64(ji)), vgen.List(loops)))
		if o.concFull != "" {
			fcases = append(fcases, fmt.Sprintf("{| fc_id := %s; %s |}", vgen.N(uint64(ji)), o.concFull))
		}
		if o.conc != "" {
			ccases = append(ccases, fmt.Sprintf("{| cc_id := %s; %s |}", vgen.N(uint64(ji)), o.conc))
		}
		res.Replays[fmt.Sprint(ji)] = c
		if c.Scenario != "" {
			scen[c.Scenario] = map[string]interface{}{"loops": o.loops, "oracle": o.viol, "blocks": o.height}
		}
		if len(res.Samples) < 3 && c.Scenario == "" && o.height > 2 && c.StopAtMs > 50 {
			res.Samples = append(res.Samples, map[string]interface{}{"case": c, "loops": o.loops, "blocks_committed": o.height, "da_included": o.included})
		}
		hang.mu.Unlock()
	}
	if d := os.Getenv("VERIF_C13_DUMP_SCENARIOS"); d != "" { // maintenance aid: write the scenario cases as replay files
		for _, c := range append(scenarios(), twoWriterScenarios()...) {
			b, _ := json.MarshalIndent(c, "", " ")
			_ = os.WriteFile(filepath.Join(d, "C13-"+c.Scenario+".json"), b, 0o644)
		}
	}
	if e.Replay == "" && os.Getenv("VERIF_NO_CORPUS") == "" && os.Getenv("VERIF_C13_RACE_CHILD") == "" {
		res.Extra["race_detector"] = raceRun(e, rootDir, res, e.Tier != "thorough")
	}
	hang.mu.Lock()
	defer hang.mu.Unlock()
	if err := finish(); err != nil {
		t.Fatal(err)
	}
}

// raceScenarios: aggregator cases in which HeaderSubmissionLoop and DataSubmissionLoop are both inside submitToDA
// in the same DA tick (the mempool is never empty, so every block carries transactions and both loops have
// something pending whenever the DA ticker fires; both tickers have the same period and start together), with
// and without DA failures (the gas-price escalation path), a pending limit (block production writes the data
// watermark too), lazy mode, a slow DA layer; block production, reaper and DA-includer run next to them.
func raceScenarios() []*Case {
	mk := func(name string, f func(c *Case)) *Case {
		c := &Case{Scenario: "race-" + name, Mode: "agg", InitialHeight: 1, GenesisOffset: -1000, BlockTimeMs: 200, DABlockTimeMs: 300,
			TxEveryMs: 150, StopAtMs: 5000, DeadlineMs: 1000}
		f(c)
		return c
	}
	return []*Case{
		mk("both-submission-loops", func(c *Case) {}),
		mk("both-submission-loops-da-fails", func(c *Case) { c.DAFailEvery = 2 }),
		mk("both-submission-loops-da-fails-3", func(c *Case) { c.DAFailEvery, c.DABlockTimeMs = 3, 1000 }),
		mk("both-submission-loops-slow-da", func(c *Case) { c.DASubmitDelayMs, c.StopAtMs = 100, 6000 }),
		mk("both-submission-loops-limit", func(c *Case) { c.MaxPending, c.TxEveryMs, c.DABlockTimeMs = 2, 700, 1000 }),
		mk("both-submission-loops-limit-5", func(c *Case) { c.MaxPending, c.DASubmitDelayMs = 5, 1500 }),
		mk("both-submission-loops-lazy", func(c *Case) { c.Lazy, c.LazyIntervalMs = true, 1000 }),
		mk("both-submission-loops-initial-height-5", func(c *Case) { c.InitialHeight, c.BlockTimeMs = 5, 500 }),
	}
}

// raceRun: the same test binary built with the race detector (`go test -race -c`, cgo), run as a child process.
// Thorough tier: the scenarios and 150 generated cases.  Quick tier: a SHORT pass - raceScenarios, the
// two-writers cases and 24 generated cases (about 3 s plus the build: 3 s with a warm Go build cache, 20 s cold).
// The binary is kept as .build/c13.race.test (the Go build cache makes a rebuild with unchanged sources a relink).
// Evidence, not proof: the detector sees only the interleavings that happen to occur.
func raceRun(e *vgen.Env, rootDir string, res *vgen.Result, quick bool) map[string]interface{} {
	info := map[string]interface{}{"label": "supporting exploration only - absence of reports is not a proof of race freedom"}
	t0 := time.Now()
	build := rootDir
	if r := os.Getenv("VERIF_ROOT"); r != "" {
		if err := os.MkdirAll(filepath.Join(r, ".build"), 0o755); err == nil {
			build = filepath.Join(r, ".build")
		}
	}
	tmp := filepath.Join(build, fmt.Sprintf("c13.race.%d.test", os.Getpid()))
	defer os.Remove(tmp)
	args := []string{"test", "-race", "-c", "-tags", "verif"}
	bin := filepath.Join(build, "c13.race.test")
	if o := os.Getenv("VERIF_OVERLAY"); o != "" { // bin/seedtest: a binary of patched sources is not the cached one
		args = append(args, "-overlay", o)
		bin = tmp
	}
	args = append(args, "-o", tmp, ".")
	cmd := exec.Command("go1.26", args...)
	cmd.Env = append(os.Environ(), "CGO_ENABLED=1", "GOFLAGS=-mod=mod", "GOPROXY=off", "GOTOOLCHAIN=local")
	if b, err := cmd.CombinedOutput(); err != nil {
		info["built"] = false
		info["why"] = fmt.Sprintf("%v: %s", err, tail(string(b), 600))
		return info
	}
	if bin != tmp {
		if err := os.Rename(tmp, bin); err != nil {
			bin = tmp
		}
	}
	info["built"] = true
	info["build_s"] = time.Since(t0).Seconds()
	out := filepath.Join(rootDir, "race-out")
	_ = os.MkdirAll(out, 0o755)
	mode, n := "thorough", 150
	if quick {
		mode, n = "quick", 24
	}
	info["pass"] = mode
	run := exec.Command(bin, "-test.run", "TestVerif", "-test.timeout", "0")
	run.Env = append(os.Environ(), "VERIF_C13_RACE_CHILD="+mode, "VERIF_TIER=quick", fmt.Sprintf("VERIF_N=%d", n), "VERIF_OUT="+out, fmt.Sprintf("VERIF_SEED=%d", e.Seed+31), "GORACE=halt_on_error=0")
	b, err := run.CombinedOutput()
	nr := strings.Count(string(b), "WARNING: DATA RACE")
	info["races_reported"] = nr
	var child struct {
		Evaluations int `json:"evaluations"`
		Violations  []struct {
			Signature string `json:"signature"`
		} `json:"violations"`
	}
	if rb, rerr := os.ReadFile(filepath.Join(out, "result.json")); rerr == nil {
		_ = json.Unmarshal(rb, &child)
	}
	info["cases"] = child.Evaluations
	info["wall_s"] = time.Since(t0).Seconds()
	how := "cd harness/c13 && CGO_ENABLED=1 go1.26 test -race -tags verif -run TestVerif ."
	if quick {
		how = "cd harness/c13 && VERIF_C13_RACE_CHILD=quick VERIF_N=24 CGO_ENABLED=1 go1.26 test -race -tags verif -run TestVerif ."
	}
	if nr > 0 {
		i := strings.Index(string(b), "WARNING: DATA RACE")
		rep := string(b)[i:]
		if len(rep) > 3000 {
			rep = rep[:3000]
		}
		res.Violations = append(res.Violations, vgen.Violation{Signature: "data-race-detected", What: "the race detector reported a data race between the background loops", Case: -1,
			Replay: map[string]interface{}{"seed": e.Seed + 31, "n": n, "pass": mode, "report": rep, "how": how}})
	} else if err != nil && child.Evaluations == 0 {
		info["why"] = fmt.Sprintf("race build did not run: %v: %s", err, tail(string(b), 600))
	}
	return info
}

func tail(s string, n int) string {
	if len(s) > n {
		return s[len(s)-n:]
	}
	return s
}

// concTerm: the halted aggregator's state in the vocabulary of Model/Conc.v (block ids = indices of header hashes)
func (n *node) concTerm() string {
	ctx := context.Background()
	ids := map[string]uint64{}
	id := func(h []byte) uint64 {
		if len(h) == 0 {
			return 0
		}
		if v, ok := ids[string(h)]; ok {
			return v
		}
		ids[string(h)] = uint64(len(ids) + 1)
		return ids[string(h)]
	}
	height, _ := n.st.Height(ctx)
	var blocks []string
	commitAt := map[uint64][]byte{}
	for h := uint64(1); h <= height+1; h++ {
		hd, d, err := n.st.GetBlockData(ctx, h)
		if err != nil {
			continue
		}
		prev := uint64(0)
		if h > 1 {
			prev = id(hd.LastHeaderHash)
		}
		commitAt[h] = d.DACommitment()
		blocks = append(blocks, fmt.Sprintf("(%s, mkb %s %s %s %s)", vgen.N(h), vgen.N(id(hd.Hash())), vgen.N(prev), vgen.Bool(len(d.Txs) > 0), vgen.Bool(len(hd.Signature) > 0)))
	}
	var dah, dad []string
	for _, blobs := range n.da.snapshot() {
		for _, b := range blobs {
			var sh types.SignedHeader
			if sh.UnmarshalBinary(b) == nil && sh.ValidateBasic() == nil {
				dah = append(dah, fmt.Sprintf("(%s, %s)", vgen.N(sh.Height()), vgen.N(id(sh.Hash()))))
				continue
			}
			var sd types.SignedData
			if sd.UnmarshalBinary(b) == nil && len(sd.Txs) > 0 && sd.Metadata != nil {
				h := sd.Height()
				bid := uint64(1 << 40) // data that is not the stored block's data
				if c, ok := commitAt[h]; ok && bytes.Equal(c, sd.Data.DACommitment()) {
					if hd, err := n.st.GetHeader(ctx, h); err == nil {
						bid = id(hd.Hash())
					}
				}
				dad = append(dad, fmt.Sprintf("(%s, %s)", vgen.N(h), vgen.N(bid)))
			}
		}
	}
	sort.Strings(dah)
	sort.Strings(dad)
	sth := uint64(0)
	if s, err := n.st.GetState(ctx); err == nil {
		sth = s.LastBlockHeight
	}
	pwh, _ := n.metaU64(store.LastSubmittedHeaderHeightKey)
	pwd, _ := n.metaU64(block.LastSubmittedDataHeightKey)
	pdi, _ := n.metaU64(store.DAIncludedHeightKey)
	fin := uint64(0)
	n.exec.mu.Lock()
	if l := len(n.exec.finals); l > 0 {
		fin = n.exec.finals[l-1]
	}
	n.exec.mu.Unlock()
	return fmt.Sprintf("cc_blocks := %s; cc_ht := %s; cc_sth := %s; cc_wh := %s; cc_pwh := %s; cc_wd := %s; cc_pwd := %s; cc_dah := %s; cc_dad := %s; cc_di := %s; cc_pdi := %s; cc_fin := %s",
		vgen.List(blocks), vgen.N(height), vgen.N(sth), vgen.N(n.m.VerifLastSubmittedHeaderHeight()), vgen.N(pwh), vgen.N(n.m.VerifLastSubmittedDataHeight()), vgen.N(pwd),
		vgen.List(dah), vgen.List(dad), vgen.N(n.m.GetDAIncludedHeight()), vgen.N(pdi), vgen.N(fin))
}

// concFullTerm: the halted full node's state and the proposer's chain in the vocabulary of Model/ConcFull.v
// (header id = index of the header hash, data id = index of the data commitment, 0 = no transactions)
func (n *node) concFullTerm() string {
	ctx := context.Background()
	ids := map[string]uint64{}
	id := func(h []byte) uint64 {
		if v, ok := ids[string(h)]; ok {
			return v
		}
		ids[string(h)] = uint64(len(ids) + 1)
		return ids[string(h)]
	}
	pair := func(h uint64, hd *types.SignedHeader, d *types.Data) string {
		did := uint64(0)
		if len(d.Txs) > 0 {
			did = id(append([]byte("d:"), d.DACommitment()...))
		}
		return fmt.Sprintf("(%s, (%s, %s))", vgen.N(h), vgen.N(id(append([]byte("h:"), hd.Hash()...))), vgen.N(did))
	}
	var chainT, blocks []string
	for i := range n.chain.headers {
		chainT = append(chainT, pair(uint64(i+1), n.chain.headers[i], n.chain.datas[i]))
	}
	height, _ := n.st.Height(ctx)
	for h := uint64(1); h <= height; h++ {
		if hd, d, err := n.st.GetBlockData(ctx, h); err == nil {
			blocks = append(blocks, pair(h, hd, d))
		}
	}
	sth := uint64(0)
	if s, err := n.st.GetState(ctx); err == nil {
		sth = s.LastBlockHeight
	}
	pdi, _ := n.metaU64(store.DAIncludedHeightKey)
	fin := uint64(0)
	n.exec.mu.Lock()
	if l := len(n.exec.finals); l > 0 {
		fin = n.exec.finals[l-1]
	}
	n.exec.mu.Unlock()
	return fmt.Sprintf("fc_chain := %s; fc_blocks := %s; fc_ht := %s; fc_sth := %s; fc_di := %s; fc_pdi := %s; fc_fin := %s",
		vgen.List(chainT), vgen.List(blocks), vgen.N(height), vgen.N(sth), vgen.N(n.m.GetDAIncludedHeight()), vgen.N(pdi), vgen.N(fin))
}
