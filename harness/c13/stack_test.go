// Where is each background loop parked?  Read from the goroutine dump of the running test binary: the
// innermost frame inside /repo/block of every loop goroutine, turned into the position-independent
// description the blockpoints translator uses (function, kind, channel / call text) by looking the frame's
// line up in the Go source with go/ast.
package c13

import (
	"bytes"
	"encoding/json"
	"fmt"
	"go/ast"
	"go/parser"
	"go/printer"
	"go/token"
	"os"
	"regexp"
	"runtime"
	"strconv"
	"strings"
	"sync"
)

const blockPkg = "github.com/evstack/ev-node/block."
const selfPkg = "verif/harness/c13."

type frame struct {
	fn   string
	file string
	line int
}

type parked struct {
	Root  string `json:"root"`           // loop root in the translator's naming
	State string `json:"state"`          // goroutine wait reason
	Ext   bool   `json:"ext,omitempty"`  // parked inside a call to a double
	Call  string `json:"call,omitempty"` // which call (e.g. exec.GetTxs)
	Func  string `json:"func,omitempty"` // function of the innermost /repo/block frame
	Kind  string `json:"kind,omitempty"`
	What  string `json:"what,omitempty"`
	Pos   string `json:"pos,omitempty"` // file:line (diagnostics only; never compared)
}

func (p parked) desc() string { return p.Func + "/" + p.Kind + "/" + p.What }

var reGoroutine = regexp.MustCompile(`^goroutine \d+ \[([^\]]*)\]:`)

// translator naming: methods of Manager by bare name, methods of other types as Type.Method, closures and
// generic instantiations folded into their function
func tableName(fn string) string {
	s := strings.TrimPrefix(fn, blockPkg)
	if i := strings.Index(s, "["); i >= 0 { // generic instantiation
		s = s[:i]
	}
	typ := ""
	if strings.HasPrefix(s, "(*") {
		if j := strings.Index(s, ")."); j >= 0 {
			typ, s = s[2:j], s[j+2:]
		}
	} else if j := strings.Index(s, "."); j >= 0 && !strings.HasPrefix(s[j+1:], "func") {
		typ, s = s[:j], s[j+1:]
	}
	if j := strings.Index(s, ".func"); j >= 0 {
		s = s[:j]
	}
	if typ != "" && typ != "Manager" {
		return typ + "." + s
	}
	return s
}

// callName: verif/harness/c13.(*execDouble).GetTxs -> exec.GetTxs
func callName(fn string) string {
	s := strings.TrimPrefix(fn, selfPkg)
	if i := strings.Index(s, "[...]"); i >= 0 {
		s = s[:i] + s[i+5:]
	}
	s = strings.NewReplacer("(*", "", ")", "", "Double", "", "p2pStore", "p2p").Replace(s)
	return s
}

func parseStacks(dump string) [][]string {
	var out [][]string
	for _, g := range strings.Split(dump, "\n\n") {
		lines := strings.Split(strings.TrimSpace(g), "\n")
		if len(lines) > 0 && reGoroutine.MatchString(lines[0]) {
			out = append(out, lines)
		}
	}
	return out
}

func framesOf(lines []string) []frame {
	var fs []frame
	for i := 1; i+1 < len(lines); i += 2 {
		fn := strings.TrimSpace(lines[i])
		if strings.HasPrefix(fn, "created by ") {
			break
		}
		if j := strings.LastIndex(fn, "("); j > 0 {
			fn = fn[:j]
		}
		loc := strings.TrimSpace(lines[i+1])
		if j := strings.Index(loc, " +0x"); j > 0 {
			loc = loc[:j]
		}
		f := frame{fn: fn}
		if j := strings.LastIndex(loc, ":"); j > 0 {
			f.file = loc[:j]
			f.line, _ = strconv.Atoi(loc[j+1:])
		}
		fs = append(fs, f)
	}
	return fs
}

// snapshotLoops returns where the loop goroutines spawned by the fan-out are parked.  Call after synctest.Wait().
func snapshotLoops() []parked {
	buf := make([]byte, 1<<20)
	for {
		n := runtime.Stack(buf, true)
		if n < len(buf) {
			buf = buf[:n]
			break
		}
		buf = make([]byte, 2*len(buf))
	}
	var out []parked
	for _, g := range parseStacks(string(buf)) {
		fs := framesOf(g)
		isLoop := false
		for _, f := range fs {
			if strings.HasPrefix(f.fn, selfPkg) && strings.Contains(f.fn, "spawnWorker") {
				isLoop = true
			}
		}
		if !isLoop {
			continue
		}
		p := parked{State: reGoroutine.FindStringSubmatch(g[0])[1]}
		if i := strings.Index(p.State, ","); i >= 0 {
			p.State = p.State[:i]
		}
		p.State = strings.TrimSpace(strings.TrimSuffix(strings.TrimSpace(p.State), "(durable)"))
		// root = outermost frame in /repo/block; position = innermost frame in /repo/block unless a double is above it
		inner := -1
		for i, f := range fs {
			if strings.HasPrefix(f.fn, blockPkg) {
				p.Root = tableName(f.fn)
				if inner < 0 {
					inner = i
				}
			}
		}
		if inner < 0 {
			continue // the loop has not entered /repo/block or has left it
		}
		for i := 0; i < inner; i++ {
			if strings.HasPrefix(fs[i].fn, selfPkg) {
				p.Ext = true
				p.Call = callName(fs[i].fn) // the frame nearest to /repo/block wins: the double's method
			}
		}
		p.Func = tableName(fs[inner].fn)
		p.Pos = fmt.Sprintf("%s:%d", fs[inner].file, fs[inner].line)
		if !p.Ext {
			p.Kind, p.What = describeAt(fs[inner].file, fs[inner].line)
		}
		out = append(out, p)
	}
	return out
}

// ---- source lookup ------------------------------------------------------------------------------------

var (
	srcMu    sync.Mutex
	srcFset  = token.NewFileSet()
	srcFiles = map[string]*ast.File{}
	overlay  map[string]string
)

// bin/seedtest builds against patched copies (go build -overlay): read the same copies
func sourcePath(file string) string {
	if overlay == nil {
		overlay = map[string]string{}
		if p := os.Getenv("VERIF_OVERLAY"); p != "" {
			if b, err := os.ReadFile(p); err == nil {
				var o struct{ Replace map[string]string }
				if json.Unmarshal(b, &o) == nil {
					overlay = o.Replace
				}
			}
		}
	}
	if r, ok := overlay[file]; ok {
		return r
	}
	return file
}

func srcText(n ast.Node) string {
	var b bytes.Buffer
	_ = printer.Fprint(&b, srcFset, n)
	return strings.Join(strings.Fields(b.String()), " ")
}

// describeAt: the blocking operation that starts on the given source line, described as the translator does
func describeAt(file string, line int) (kind, what string) {
	srcMu.Lock()
	defer srcMu.Unlock()
	af, ok := srcFiles[file]
	if !ok {
		var err error
		af, err = parser.ParseFile(srcFset, sourcePath(file), nil, 0)
		if err != nil {
			return "unknown", err.Error()
		}
		srcFiles[file] = af
	}
	at := func(n ast.Node) bool { return srcFset.Position(n.Pos()).Line == line }
	ast.Inspect(af, func(x ast.Node) bool {
		if x == nil || kind != "" {
			return false
		}
		switch s := x.(type) {
		case *ast.SelectStmt:
			if at(s) {
				var comms []string
				for _, c := range s.Body.List {
					if cc := c.(*ast.CommClause); cc.Comm != nil {
						comms = append(comms, srcText(cc.Comm))
					}
				}
				kind, what = "select", strings.Join(comms, " | ")
			}
		case *ast.SendStmt:
			if at(s) {
				kind, what = "send", srcText(s.Chan)
			}
		case *ast.CallExpr:
			if at(s) || srcFset.Position(s.Lparen).Line == line {
				t := srcText(s.Fun)
				if t == "time.Sleep" {
					kind, what = "sleep", srcText(s.Args[0])
				} else if strings.HasSuffix(t, ".Wait") {
					kind, what = "wait", t
				}
			}
		case *ast.UnaryExpr:
			if s.Op == token.ARROW && at(s) {
				kind, what = "recv", srcText(s.X)
			}
		}
		return true
	})
	if kind == "" {
		return "unknown", fmt.Sprintf("line %d", line)
	}
	return kind, what
}
