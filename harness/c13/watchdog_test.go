// Real-time watchdog.  A case normally takes milliseconds of real time (the clock inside a synctest bubble is
// virtual).  A loop that never BLOCKS after the stop request (a busy wait) keeps the bubble's virtual clock from
// advancing and synctest.Wait from returning: the case would never end and the whole run would be killed from
// outside without a failing input.  So every case runs under a timer on the REAL clock, armed outside the bubble:
// when it fires, the goroutines still inside /repo's block / node packages are read from the goroutine dump, the
// case is recorded as a violation (signature loop-does-not-return-spinning-or-blocked, the case itself as the
// replayable input), the results of the cases completed so far are written, and the process exits - a goroutine
// that spins cannot be stopped from inside the process.
package c13

import (
	"fmt"
	"os"
	"runtime"
	"sort"
	"strconv"
	"strings"
	"sync"
	"time"
)

const hangSignature = "loop-does-not-return-spinning-or-blocked"
const nodePkg = "github.com/evstack/ev-node/node."

var hang struct {
	mu     sync.Mutex                 // held by TestVerif while it updates its result state, and by a watchdog that has fired
	onHang func(c *Case, what string) // set by TestVerif: records the violation, writes the result files, exits
}

type watchdog struct {
	t    *time.Timer
	done bool
}

func watchdogDelay(c *Case) time.Duration {
	if v, err := strconv.Atoi(os.Getenv("VERIF_C13_WATCHDOG_S")); err == nil && v > 0 {
		return time.Duration(v) * time.Second
	}
	if c.TwoWriters != nil {
		return 90 * time.Second // real-time case with its own 20 s limits per step
	}
	if c.Flood != "" {
		return 60 * time.Second // more than 10000 signed items are made and handled: seconds of real time
	}
	return 20 * time.Second
}

// startWatchdog must be called OUTSIDE a synctest bubble (the timer has to run on the real clock)
func startWatchdog(c *Case) *watchdog {
	w := &watchdog{}
	d := watchdogDelay(c)
	w.t = time.AfterFunc(d, func() {
		hang.mu.Lock()
		defer hang.mu.Unlock()
		if w.done || hang.onHang == nil {
			return
		}
		hang.onHang(c, describeAlive(d))
	})
	return w
}

func (w *watchdog) stop() {
	hang.mu.Lock()
	w.done = true
	hang.mu.Unlock()
	w.t.Stop()
}

// describeAlive: the goroutines that are still inside /repo's block or node package: the loop (outermost block
// frame), the wait reason, the innermost /repo frame.  A goroutine that is running / runnable is not blocked: it spins.
func describeAlive(after time.Duration) string {
	buf := make([]byte, 1<<20)
	for {
		n := runtime.Stack(buf, true)
		if n < len(buf) {
			buf = buf[:n]
			break
		}
		buf = make([]byte, 2*len(buf))
	}
	type alive struct {
		spin bool
		txt  string
	}
	var as []alive
	for _, g := range parseStacks(string(buf)) {
		fs := framesOf(g)
		inner, root := -1, ""
		for i, f := range fs {
			if strings.HasPrefix(f.fn, blockPkg) || strings.HasPrefix(f.fn, nodePkg) {
				if inner < 0 {
					inner = i
				}
				if strings.HasPrefix(f.fn, blockPkg) {
					root = tableName(f.fn)
				}
			}
		}
		if inner < 0 {
			continue
		}
		state := reGoroutine.FindStringSubmatch(g[0])[1]
		spin := strings.HasPrefix(state, "running") || strings.HasPrefix(state, "runnable")
		call := ""
		for i := 0; i < inner; i++ {
			if strings.HasPrefix(fs[i].fn, selfPkg) {
				call = " inside the double's " + callName(fs[i].fn)
			}
		}
		file := fs[inner].file
		if j := strings.LastIndex(file, "/block/"); j >= 0 {
			file = file[j+1:]
		}
		txt := fmt.Sprintf("%s [%s] at %s %s:%d%s", root, state, strings.TrimPrefix(strings.TrimPrefix(fs[inner].fn, blockPkg), nodePkg), file, fs[inner].line, call)
		if spin {
			txt += " <- NOT BLOCKED: busy"
		}
		as = append(as, alive{spin, txt})
	}
	sort.SliceStable(as, func(i, j int) bool { return as[i].spin && !as[j].spin })
	var parts []string
	for i, a := range as {
		if i == 12 {
			parts = append(parts, fmt.Sprintf("... and %d more", len(as)-12))
			break
		}
		parts = append(parts, a.txt)
	}
	if len(parts) == 0 {
		parts = []string{"none (the harness itself is stuck)"}
	}
	return fmt.Sprintf("the case did not finish within %d s of REAL time (a case takes milliseconds: the clock of the synctest bubble is virtual; it cannot advance, and the harness cannot reach its verdict, while a goroutine of the node never blocks). Goroutines still inside /repo code: %s", int(after.Seconds()), strings.Join(parts, "; "))
}
