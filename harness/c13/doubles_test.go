// Doubles of the outermost collaborators of the node for the C13 harness: execution layer, sequencer,
// DA layer, P2P broadcasters and P2P stores.  Every double takes its timing from the case (virtual time
// inside a synctest bubble) and honours its context unless the case says otherwise.
package c13

import (
	"context"
	"crypto/sha256"
	"encoding/binary"
	"errors"
	"fmt"
	"sync"
	"sync/atomic"
	"time"

	goheader "github.com/celestiaorg/go-header"

	coreda "github.com/evstack/ev-node/core/da"
	coreseq "github.com/evstack/ev-node/core/sequencer"
	"github.com/evstack/ev-node/types"
)

func ms(v int64) time.Duration { return time.Duration(v) * time.Millisecond }

// hang: in a "call in flight at stop" scenario the named call does not complete; like every well-behaved
// collaborator it returns as soon as the context IT WAS GIVEN is done.
func (c *Case) hang(ctx context.Context, call string) error {
	if c == nil || c.HangCall != call {
		return nil
	}
	atomic.AddInt32(&c.hangHits, 1)
	<-ctx.Done()
	return ctx.Err()
}

// pause blocks for d of virtual time.  With honour it returns ctx.Err() as soon as ctx is cancelled (after
// a further lag, the time a remote call needs to notice); without, it sleeps the whole duration.
func pause(ctx context.Context, d, lag time.Duration, honour bool) error {
	if d <= 0 {
		return nil
	}
	if !honour {
		time.Sleep(d)
		return nil
	}
	t := time.NewTimer(d)
	defer t.Stop()
	select {
	case <-t.C:
		return nil
	case <-ctx.Done():
		if lag > 0 {
			time.Sleep(lag)
		}
		return ctx.Err()
	}
}

// ---- execution layer ----------------------------------------------------------------------------

type execDouble struct {
	mu     sync.Mutex
	c      *Case
	start  time.Time
	finals []uint64
	execs  []uint64
	starts map[string][]time.Time // when each call of a kind was entered
}

func initRoot(chainID string) []byte { h := sha256.Sum256([]byte("c13-init:" + chainID)); return h[:] }

func execRoot(prev []byte, height uint64, txs [][]byte) []byte {
	h := sha256.New()
	h.Write(prev)
	var b [8]byte
	binary.BigEndian.PutUint64(b[:], height)
	h.Write(b[:])
	for _, tx := range txs {
		binary.BigEndian.PutUint64(b[:], uint64(len(tx)))
		h.Write(b[:])
		h.Write(tx)
	}
	return h.Sum(nil)
}

func (e *execDouble) started(call string) {
	e.mu.Lock()
	if e.starts == nil {
		e.starts = map[string][]time.Time{}
	}
	e.starts[call] = append(e.starts[call], time.Now())
	e.mu.Unlock()
}

// startedAfter: how many calls of this kind were entered strictly after t
func (e *execDouble) startedAfter(call string, t time.Time) int {
	e.mu.Lock()
	defer e.mu.Unlock()
	n := 0
	for _, x := range e.starts[call] {
		if x.After(t) {
			n++
		}
	}
	return n
}

func (e *execDouble) InitChain(ctx context.Context, genesisTime time.Time, initialHeight uint64, chainID string) ([]byte, uint64, error) {
	return initRoot(chainID), 1 << 20, nil
}

// GetTxs: the mempool receives a new transaction every TxEveryMs of virtual time; the last few are returned.
func (e *execDouble) GetTxs(ctx context.Context) ([][]byte, error) {
	if err := e.c.hang(ctx, "exec.GetTxs"); err != nil {
		return nil, err
	}
	if e.c.TxEveryMs <= 0 {
		return nil, nil
	}
	n := int64(time.Since(e.start) / ms(e.c.TxEveryMs))
	var out [][]byte
	for i := n - 3; i <= n; i++ {
		if i >= 0 {
			out = append(out, []byte(fmt.Sprintf("tx-%d", i)))
		}
	}
	return out, nil
}

func (e *execDouble) ExecuteTxs(ctx context.Context, txs [][]byte, blockHeight uint64, timestamp time.Time, prev []byte) ([]byte, uint64, error) {
	e.started("exec.ExecuteTxs")
	if err := e.c.hang(ctx, "exec.ExecuteTxs"); err != nil {
		return nil, 0, err
	}
	if err := pause(ctx, ms(e.c.ExecDelayMs), ms(e.c.ExecLagMs), !e.c.ExecIgnoresCtx); err != nil {
		return nil, 0, err
	}
	if e.c.ExecFailAt != 0 && blockHeight >= e.c.ExecFailAt {
		return nil, 0, errors.New("c13: execution layer failure")
	}
	e.mu.Lock()
	e.execs = append(e.execs, blockHeight)
	e.mu.Unlock()
	return execRoot(prev, blockHeight, txs), 1 << 20, nil
}

func (e *execDouble) SetFinal(ctx context.Context, blockHeight uint64) error {
	e.started("exec.SetFinal")
	if err := e.c.hang(ctx, "exec.SetFinal"); err != nil {
		return err
	}
	if err := pause(ctx, ms(e.c.FinalDelayMs), ms(e.c.FinalLagMs), !e.c.ExecIgnoresCtx); err != nil {
		return err
	}
	if e.c.FinalFailAt != 0 && blockHeight >= e.c.FinalFailAt {
		return errors.New("c13: execution layer cannot finalize")
	}
	e.mu.Lock()
	e.finals = append(e.finals, blockHeight)
	e.mu.Unlock()
	return nil
}

// ---- sequencer: an in-memory FIFO ---------------------------------------------------------------

type seqDouble struct {
	c       *Case
	mu      sync.Mutex
	pending [][]byte
	taken   [][]byte
}

func (s *seqDouble) SubmitBatchTxs(ctx context.Context, req coreseq.SubmitBatchTxsRequest) (*coreseq.SubmitBatchTxsResponse, error) {
	if err := s.c.hang(ctx, "seq.SubmitBatchTxs"); err != nil {
		return nil, err
	}
	s.mu.Lock()
	defer s.mu.Unlock()
	if req.Batch != nil {
		s.pending = append(s.pending, req.Batch.Transactions...)
	}
	return &coreseq.SubmitBatchTxsResponse{}, nil
}
func (s *seqDouble) GetNextBatch(ctx context.Context, req coreseq.GetNextBatchRequest) (*coreseq.GetNextBatchResponse, error) {
	if err := s.c.hang(ctx, "seq.GetNextBatch"); err != nil {
		return nil, err
	}
	s.mu.Lock()
	defer s.mu.Unlock()
	txs := s.pending
	s.pending = nil
	s.taken = append(s.taken, txs...)
	return &coreseq.GetNextBatchResponse{Batch: &coreseq.Batch{Transactions: txs}, Timestamp: time.Now(), BatchData: [][]byte{[]byte("c13")}}, nil
}
func (s *seqDouble) VerifyBatch(ctx context.Context, req coreseq.VerifyBatchRequest) (*coreseq.VerifyBatchResponse, error) {
	return &coreseq.VerifyBatchResponse{Status: true}, nil
}

// ---- broadcasters -------------------------------------------------------------------------------

type bcast[T any] struct {
	c     *Case
	name  string // "header" | "data"
	mu    sync.Mutex
	block bool // the P2P layer is stalled: the call returns only when its context is done
	got   int
}

func (b *bcast[T]) WriteToStoreAndBroadcast(ctx context.Context, payload T) error {
	if err := b.c.hang(ctx, "bcast.WriteToStoreAndBroadcast:"+b.name); err != nil {
		return err
	}
	b.mu.Lock()
	b.got++
	blk := b.block
	b.mu.Unlock()
	if blk {
		<-ctx.Done()
		return ctx.Err()
	}
	return nil
}

// ---- DA layer -----------------------------------------------------------------------------------

type daDouble struct {
	mu      sync.Mutex
	c       *Case
	heights map[uint64][][]byte
	top     uint64
	nsub    int
	nget    int
}

func newDA(c *Case) *daDouble { return &daDouble{c: c, heights: map[uint64][][]byte{}} }

func makeID(h uint64, i int) []byte {
	id := make([]byte, 12)
	binary.LittleEndian.PutUint64(id, h)
	binary.LittleEndian.PutUint32(id[8:], uint32(i))
	return id
}

// post puts blobs at a new DA height (somebody's submission).
func (d *daDouble) post(blobs [][]byte) uint64 {
	d.mu.Lock()
	defer d.mu.Unlock()
	d.top++
	d.heights[d.top] = blobs
	return d.top
}

func (d *daDouble) SubmitWithOptions(ctx context.Context, blobs []coreda.Blob, gasPrice float64, ns []byte, opts []byte) ([]coreda.ID, error) {
	if err := d.c.hang(ctx, "da.SubmitWithOptions"); err != nil {
		return nil, err
	}
	if err := pause(ctx, ms(d.c.DASubmitDelayMs), 0, true); err != nil {
		return nil, err
	}
	d.mu.Lock()
	defer d.mu.Unlock()
	d.nsub++
	if d.c.DAFailEvery > 0 && d.nsub%d.c.DAFailEvery == 0 {
		return nil, errors.New("c13: DA layer unavailable")
	}
	cp := make([][]byte, len(blobs))
	for i, b := range blobs {
		cp[i] = append([]byte{}, b...)
	}
	d.top++
	d.heights[d.top] = cp
	ids := make([]coreda.ID, len(cp))
	for i := range ids {
		ids[i] = makeID(d.top, i)
	}
	return ids, nil
}
func (d *daDouble) Submit(ctx context.Context, blobs []coreda.Blob, gasPrice float64, ns []byte) ([]coreda.ID, error) {
	return d.SubmitWithOptions(ctx, blobs, gasPrice, ns, nil)
}
func (d *daDouble) GetIDs(ctx context.Context, height uint64, ns []byte) (*coreda.GetIDsResult, error) {
	if err := d.c.hang(ctx, "da.GetIDs"); err != nil {
		return nil, err
	}
	if err := pause(ctx, ms(d.c.DAGetDelayMs), 0, true); err != nil {
		return nil, err
	}
	d.mu.Lock()
	defer d.mu.Unlock()
	d.nget++
	if d.c.DAGetFailEvery > 0 && d.nget%d.c.DAGetFailEvery == 0 {
		return nil, errors.New("c13: DA layer unavailable")
	}
	if height > d.top {
		return nil, coreda.ErrHeightFromFuture
	}
	bl := d.heights[height]
	if len(bl) == 0 {
		return nil, coreda.ErrBlobNotFound
	}
	ids := make([]coreda.ID, len(bl))
	for i := range bl {
		ids[i] = makeID(height, i)
	}
	return &coreda.GetIDsResult{IDs: ids, Timestamp: time.Now()}, nil
}
func (d *daDouble) Get(ctx context.Context, ids []coreda.ID, ns []byte) ([]coreda.Blob, error) {
	if err := d.c.hang(ctx, "da.Get"); err != nil {
		return nil, err
	}
	d.mu.Lock()
	defer d.mu.Unlock()
	var out []coreda.Blob
	for _, id := range ids {
		if len(id) != 12 {
			return nil, coreda.ErrBlobNotFound
		}
		h, i := binary.LittleEndian.Uint64(id), int(binary.LittleEndian.Uint32(id[8:]))
		bl := d.heights[h]
		if i >= len(bl) {
			return nil, coreda.ErrBlobNotFound
		}
		out = append(out, bl[i])
	}
	return out, nil
}
func (d *daDouble) GetProofs(ctx context.Context, ids []coreda.ID, ns []byte) ([]coreda.Proof, error) {
	return make([]coreda.Proof, len(ids)), nil
}
func (d *daDouble) Commit(ctx context.Context, blobs []coreda.Blob, ns []byte) ([]coreda.Commitment, error) {
	return make([]coreda.Commitment, len(blobs)), nil
}
func (d *daDouble) Validate(ctx context.Context, ids []coreda.ID, proofs []coreda.Proof, ns []byte) ([]bool, error) {
	r := make([]bool, len(ids))
	for i := range r {
		r[i] = true
	}
	return r, nil
}
func (d *daDouble) GasPrice(ctx context.Context) (float64, error)      { return 1, nil }
func (d *daDouble) GasMultiplier(ctx context.Context) (float64, error) { return 1, nil }

// all blobs the DA layer holds, by DA height
func (d *daDouble) snapshot() map[uint64][][]byte {
	d.mu.Lock()
	defer d.mu.Unlock()
	out := map[uint64][][]byte{}
	for h, b := range d.heights {
		out[h] = b
	}
	return out
}

// ---- P2P stores (what the header / data sync services have received) ----------------------------------

type p2pStore[H goheader.Header[H]] struct {
	goheader.Store[H] // only Height and GetByHeight are used by the block manager
	c                 *Case
	name              string // "header" | "data"
	items             []H    // index i = height i+1
	from              time.Time
	everyMs           int64 // one more item becomes available every so often (0 = all at once)
}

func (s *p2pStore[H]) Height() uint64 {
	if s.everyMs <= 0 {
		return uint64(len(s.items))
	}
	n := int64(time.Since(s.from)/ms(s.everyMs)) + 1
	if n > int64(len(s.items)) {
		n = int64(len(s.items))
	}
	if n < 0 {
		n = 0
	}
	return uint64(n)
}

func (s *p2pStore[H]) GetByHeight(ctx context.Context, h uint64) (H, error) {
	var zero H
	if err := s.c.hang(ctx, "p2p.GetByHeight:"+s.name); err != nil {
		return zero, err
	}
	if h == 0 || h > uint64(len(s.items)) {
		return zero, fmt.Errorf("c13: height %d not in store", h)
	}
	return s.items[h-1], nil
}

var _ goheader.Store[*types.SignedHeader] = (*p2pStore[*types.SignedHeader])(nil)
var _ goheader.Store[*types.Data] = (*p2pStore[*types.Data])(nil)
