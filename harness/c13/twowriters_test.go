// The two writers of the DATA submission watermark (C13 on C06: "the recorded last-submitted height never
// decreases ... on every interleaving").  pendingBase.setLastSubmittedHeight is reached from two goroutines of an
// aggregator: the data submission loop (submitDataToDA's postSubmit after an accepted batch) and block production
// (publishBlockInternal's pending-limit test -> PendingData.numWaitingData steps over data without transactions;
// only when MaxPendingHeadersAndData != 0).  Model: coq/Model/Conc.v (PL0..PL7, SL..S6, the mutex mu).
//
// A two-writers case drives the REAL code (block.Manager on the real store) and FORCES the interleaving the
// synctest exploration cannot produce (an in-memory store write never yields): the store is wrapped so that ONE
// chosen write of the data watermark - by the first writer - is held while the second writer runs.  With the mutex
// of the repair d1559c9 the second writer has to wait at Lock until the first has finished, so it runs in its own
// goroutine and the held write is released as soon as it has either returned or is parked in Mutex.Lock under
// setLastSubmittedHeight (read from the goroutine dump).  Real time, no virtual clock, no loops: the two writers
// are called exactly as their loops call them (VerifPublishBlock = publishBlockInternal; createSignedDataToSubmit +
// submitDataToDA = one iteration of DataSubmissionLoop).
//
// Go oracle (independent of the model): the sequence of values actually WRITTEN under the watermark's key never
// decreases; at rest the recorded value is the in-memory one; a node restarted on the same store (new Manager, new
// PendingData) does not submit again anything the DA layer has already accepted.
// Coq side: the halted node's state goes through Check/ConcCheck.v like every aggregator case (gcheck: recorded =
// in-memory watermark when the mutex is free).
package c13

import (
	"context"
	"encoding/binary"
	"fmt"
	"math/rand"
	"runtime"
	"strings"
	"sync"
	"testing"
	"time"

	"github.com/evstack/ev-node/block"
	"github.com/evstack/ev-node/pkg/store"
	"github.com/evstack/ev-node/types"
)

// TwoW: block 1 is the block NewManager stores at the initial height (never any transactions); blocks
// 2..Prefix+1 carry transactions and are submitted the ordinary way (data watermark = Prefix+1, or 0 when Prefix
// is 0: block 1 is then still pending and is the first one stepped over); then one block per Layout entry (true =
// with transactions), heights Prefix+2...  The pending limit is the number of blocks above the watermark at that
// point, so that the limit test of the NEXT publishBlock call - and no earlier one - calls numWaitingData.
type TwoW struct {
	Prefix int    `json:"prefix"`
	Layout []bool `json:"layout"`
	First  string `json:"first"` // "producer": Layout = empty+ tx+, its write of Hold is held while the submission runs; "submitter": Layout = tx+ empty+, vice versa
	Hold   uint64 `json:"hold"`  // the value whose write is held
}

// gateStore: the real store; writes of the two submission watermarks are recorded in the order they reach the
// store, and one chosen write of the data watermark can be held (a slow disk write).
type gateStore struct {
	store.Store
	mu      sync.Mutex
	holdVal uint64
	entered chan struct{}
	release chan struct{}
	written map[string][]uint64
}

func newGateStore(st store.Store) *gateStore {
	return &gateStore{Store: st, entered: make(chan struct{}), release: make(chan struct{}), written: map[string][]uint64{}}
}

func (g *gateStore) SetMetadata(ctx context.Context, key string, value []byte) error {
	watermark := (key == block.LastSubmittedDataHeightKey || key == store.LastSubmittedHeaderHeightKey) && len(value) == 8
	if !watermark {
		return g.Store.SetMetadata(ctx, key, value)
	}
	v := binary.LittleEndian.Uint64(value)
	g.mu.Lock()
	hold := key == block.LastSubmittedDataHeightKey && g.holdVal != 0 && v == g.holdVal
	if hold {
		g.holdVal = 0
	}
	g.mu.Unlock()
	if hold {
		close(g.entered)
		<-g.release
	}
	// the write and its record are one step: the record is the order in which the values reached the store
	g.mu.Lock()
	defer g.mu.Unlock()
	err := g.Store.SetMetadata(ctx, key, value)
	if err == nil {
		g.written[key] = append(g.written[key], v)
	}
	return err
}

func (g *gateStore) hold(v uint64) {
	g.mu.Lock()
	g.holdVal = v
	g.mu.Unlock()
}

func (g *gateStore) sequence(key string) []uint64 {
	g.mu.Lock()
	defer g.mu.Unlock()
	return append([]uint64{}, g.written[key]...)
}

// a goroutine is parked in Mutex.Lock below pendingBase.setLastSubmittedHeight
func writerWaitsForTheMutex() bool {
	buf := make([]byte, 1<<18)
	for {
		n := runtime.Stack(buf, true)
		if n < len(buf) {
			buf = buf[:n]
			break
		}
		buf = make([]byte, 2*len(buf))
	}
	for _, g := range parseStacks(string(buf)) {
		m := reGoroutine.FindStringSubmatch(g[0])
		if m == nil || !(strings.Contains(m[1], "Mutex") || strings.Contains(m[1], "semacquire")) {
			continue
		}
		for _, l := range g[1:] {
			if strings.Contains(l, "setLastSubmittedHeight") {
				return true
			}
		}
	}
	return false
}

// base: the data watermark after the prefix; first: the height of Layout[0]
func (w *TwoW) base() uint64 {
	if w.Prefix == 0 {
		return 0
	}
	return uint64(w.Prefix + 1)
}
func (w *TwoW) first() uint64 { return uint64(w.Prefix + 2) }

func (w *TwoW) valid() error {
	if w.Prefix < 0 || len(w.Layout) < 2 {
		return fmt.Errorf("two-writers: prefix %d, layout %v", w.Prefix, w.Layout)
	}
	lead := w.First == "submitter" // kind of the leading run
	i := 0
	for i < len(w.Layout) && w.Layout[i] == lead {
		i++
	}
	j := i
	for j < len(w.Layout) && w.Layout[j] != lead {
		j++
	}
	if (w.First != "producer" && w.First != "submitter") || i == 0 || j == i || j != len(w.Layout) {
		return fmt.Errorf("two-writers: first %q needs layout %s, got %v", w.First, map[bool]string{false: "empty+ tx+", true: "tx+ empty+"}[lead], w.Layout)
	}
	lo, hi := w.base()+1, w.first()+uint64(i)-1
	if lead { // the submitter writes only the height of the last accepted item
		lo = hi
	}
	if w.Hold < lo || w.Hold > hi {
		return fmt.Errorf("two-writers: hold %d is not a value the first writer writes (%d..%d)", w.Hold, lo, hi)
	}
	return nil
}

func (n *node) publishOne(ctx context.Context, txs bool, tag string) error {
	if txs {
		n.seq.mu.Lock()
		n.seq.pending = [][]byte{[]byte("tx-" + tag + "-a"), []byte("tx-" + tag + "-b")}
		n.seq.mu.Unlock()
	}
	before, _ := n.st.Height(ctx)
	if err := n.m.VerifPublishBlock(ctx); err != nil {
		return err
	}
	if h, _ := n.st.Height(ctx); h != before+1 {
		return fmt.Errorf("block %d was not produced (height %d): the pending limit refused it earlier than the scenario expects", before+1, h)
	}
	// headers are submitted at once: the limit test must not be decided by the pending headers
	hs, err := n.m.VerifGetPendingHeaders(ctx)
	if err != nil {
		return err
	}
	return n.m.VerifSubmitHeadersToDA(ctx, hs)
}

// one iteration of DataSubmissionLoop (submitter.go) after its isEmpty test
func (n *node) submitDataOnce(ctx context.Context) error {
	sds, err := n.m.VerifCreateSignedDataToSubmit(ctx)
	if err != nil || len(sds) == 0 {
		return err
	}
	return n.m.VerifSubmitDataToDA(ctx, sds)
}

func runTwoWriters(t *testing.T, c *Case, rootDir string) (out *caseOut) {
	out = &caseOut{}
	w := c.TwoWriters
	if out.err = w.valid(); out.err != nil {
		return out
	}
	ctx, cancel := context.WithCancel(context.Background())
	defer cancel()
	cc := *c
	cc.Mode, cc.InitialHeight, cc.GenesisOffset = "agg", 1, -1000
	cc.MaxPending = w.first() + uint64(len(w.Layout)) - 1 - w.base()
	if cc.BlockTimeMs == 0 {
		cc.BlockTimeMs, cc.DABlockTimeMs = 1000, 1000
	}
	n, err := newNode(ctx, &cc, rootDir)
	if err != nil {
		out.err = err
		return out
	}
	for i := 0; i <= w.Prefix; i++ { // block 1 (stored by NewManager, no transactions), then the prefix
		if out.err = n.publishOne(ctx, i > 0, fmt.Sprint(i+1)); out.err != nil {
			return out
		}
		if out.err = n.submitDataOnce(ctx); out.err != nil {
			return out
		}
	}
	if wd := n.m.VerifLastSubmittedDataHeight(); wd != w.base() {
		out.err = fmt.Errorf("two-writers: data watermark %d after the prefix of %d blocks", wd, w.Prefix)
		return out
	}
	for i, tx := range w.Layout {
		if out.err = n.publishOne(ctx, tx, fmt.Sprint(w.first()+uint64(i))); out.err != nil {
			return out
		}
	}
	before := len(n.gate.sequence(block.LastSubmittedDataHeightKey))

	producer := func() error { return n.m.VerifPublishBlock(ctx) } // limit test -> numWaitingData -> step over
	submitter := func() error { return n.submitDataOnce(ctx) }
	first, second := producer, submitter
	if w.First == "submitter" {
		first, second = submitter, producer
	}
	n.gate.hold(w.Hold)
	doneA, doneB := make(chan error, 1), make(chan error, 1)
	go func() { doneA <- first() }()
	reached := false
	select {
	case <-n.gate.entered:
		reached = true
	case err := <-doneA:
		doneA <- err
	case <-time.After(20 * time.Second):
	}
	if !reached {
		// the first writer never wrote the chosen value: nothing to interleave with
		if c.Scenario != "" {
			out.fail("scenario-not-reached-two-writers", fmt.Sprintf("the %s never wrote %d under %s: the scenario no longer exercises the two writers of the data watermark", w.First, w.Hold, block.LastSubmittedDataHeightKey))
		}
		close(n.gate.release)
	} else {
		go func() { doneB <- second() }()
		// until the second writer has returned, or waits for the mutex the first one holds
		deadline := time.Now().Add(5 * time.Second)
	wait:
		for time.Now().Before(deadline) {
			select {
			case err := <-doneB:
				doneB <- err
				break wait
			default:
			}
			if writerWaitsForTheMutex() {
				break
			}
			time.Sleep(200 * time.Microsecond)
		}
		close(n.gate.release)
	}
	for i, ch := range []chan error{doneA, doneB} {
		if i == 1 && !reached {
			break
		}
		select {
		case err := <-ch:
			if err != nil {
				out.err = fmt.Errorf("two-writers: writer %d: %w", i, err)
				return out
			}
		case <-time.After(20 * time.Second):
			out.neverHalts = true
			out.fail("two-writers-never-return", fmt.Sprintf("writer %d of the data watermark had not returned 20 s after the held store write was released", i))
			return out
		}
	}

	// ---- oracle ----
	for _, key := range []string{block.LastSubmittedDataHeightKey, store.LastSubmittedHeaderHeightKey} {
		seq := n.gate.sequence(key)
		for i := 1; i < len(seq); i++ {
			if seq[i] < seq[i-1] {
				kind := "data"
				if key != block.LastSubmittedDataHeightKey {
					kind = "header"
				}
				out.fail("two-writers-recorded-"+kind+"-watermark-decreases", fmt.Sprintf("values written under %s, in the order they reached the store: %v (the write of %d by the %s was held while the other writer ran): the recorded height went from %d back to %d", key, seq, w.Hold, w.First, seq[i-1], seq[i]))
				break
			}
		}
	}
	wd := n.m.VerifLastSubmittedDataHeight()
	pwd, ok := n.metaU64(block.LastSubmittedDataHeightKey)
	if ok && pwd > wd {
		out.fail("two-writers-recorded-watermark-ahead", fmt.Sprintf("recorded data watermark %d, in memory %d", pwd, wd))
	}
	// restart on the same store: nothing the DA layer has accepted is submitted again
	_, accepted := n.onDA()
	cfg := cc.config(rootDir, true)
	m2, err := block.NewManager(ctx, n.sg, cfg, n.gen, store.New(n.kv), &execDouble{c: &Case{}, start: time.Now()}, &seqDouble{}, n.da, quiet(), nil, nil,
		&bcast[*types.SignedHeader]{}, &bcast[*types.Data]{}, block.NopMetrics(), 1, 1, block.DefaultManagerOptions())
	if err != nil {
		out.err = fmt.Errorf("two-writers: restart: %w", err)
		return out
	}
	again, err := m2.VerifCreateSignedDataToSubmit(ctx)
	if err != nil {
		out.err = fmt.Errorf("two-writers: restart: %w", err)
		return out
	}
	for _, sd := range again {
		if accepted[string(sd.Data.DACommitment())] {
			out.fail("two-writers-accepted-data-resubmitted-after-restart", fmt.Sprintf("after a restart (recorded data watermark %d, it was %d in memory) the data of block %d, which the DA layer has accepted, is pending again", pwd, wd, sd.Height()))
			break
		}
	}
	if len(n.gate.sequence(block.LastSubmittedDataHeightKey)) == before && reached {
		out.err = fmt.Errorf("two-writers: no write of the data watermark during the interleaving")
		return out
	}
	n.invariants(out)
	out.conc = n.concTerm()
	return out
}

// fixed cases: the history of the repair's commit message (3 -> 4 stepped over, 4 -> 5 accepted), the mirror image
// (submitter held), several heights stepped over with a later write held, nothing submitted before
func twoWriterScenarios() []*Case {
	mk := func(name string, w TwoW) *Case {
		return &Case{Scenario: name, Mode: "agg", InitialHeight: 1, BlockTimeMs: 1000, DABlockTimeMs: 1000, TwoWriters: &w}
	}
	return []*Case{
		mk("two-writers-step-over-held", TwoW{Prefix: 2, Layout: []bool{false, true}, First: "producer", Hold: 4}),
		mk("two-writers-submission-held", TwoW{Prefix: 1, Layout: []bool{true, false}, First: "submitter", Hold: 3}),
		mk("two-writers-second-step-over-held", TwoW{Prefix: 1, Layout: []bool{false, false, false, true, true}, First: "producer", Hold: 4}),
		mk("two-writers-from-genesis", TwoW{Prefix: 0, Layout: []bool{false, true}, First: "producer", Hold: 1}),
		mk("two-writers-submission-held-many-empty", TwoW{Prefix: 0, Layout: []bool{true, true, false, false}, First: "submitter", Hold: 3}),
	}
}

func genTwoWriters(seed int64, idx int) *Case {
	r := rand.New(rand.NewSource(seed*1000003 + 500000 + int64(idx)))
	w := TwoW{Prefix: r.Intn(4), First: pick(r, "producer", "producer", "submitter")}
	a, b := 1+r.Intn(3), 1+r.Intn(2)
	lead := w.First == "submitter"
	for i := 0; i < a; i++ {
		w.Layout = append(w.Layout, lead)
	}
	for i := 0; i < b; i++ {
		w.Layout = append(w.Layout, !lead)
	}
	if lead {
		w.Hold = w.first() + uint64(a) - 1
	} else {
		w.Hold = w.base() + 1 + uint64(r.Intn(int(w.first()+uint64(a)-1-w.base())))
	}
	return &Case{Seed: seed, Idx: idx, Mode: "agg", InitialHeight: 1, BlockTimeMs: 1000, DABlockTimeMs: 1000, TwoWriters: &w}
}
