// C15 correspondence harness: two REAL apps/testapp/kv KVExecutor instances are fed the same blocks under
// independent random schedules of InitChain / SetFinal / InjectTx / GetTxs / reopen calls (most cases on an
// in-memory go-datastore through the verif constructor hook, every 10th case on the real on-disk badger
// store with true close + NewKVExecutor reopen).  The Go oracle evaluates the property directly on what
// the code returned; every instance history is also written to cases_C15.v for Model/KVExec.v.
package c15

import (
	"context"
	"fmt"
	"math/rand"
	"os"
	"path/filepath"
	"sort"
	"strings"
	"testing"
	"time"

	ds "github.com/ipfs/go-datastore"
	"github.com/ipfs/go-datastore/query"
	dssync "github.com/ipfs/go-datastore/sync"

	kv "github.com/evstack/ev-node/apps/testapp/kv"

	"verif/harness/vgen"
)

// ---- histories -------------------------------------------------------------------------------

type Item struct {
	T   string   `json:"t"`             // init exec execgen final inject gettxs reopen
	Txs []string `json:"txs,omitempty"` // exec (valid UTF-8, so JSON round-trips it exactly)
	H   uint64   `json:"h,omitempty"`   // final
	Tx  string   `json:"tx,omitempty"`  // inject; execgen: the text of the one replaced transaction
	// execgen = ExecuteTxs of a generated block (size-boundary stream): N transactions
	// "k<N-1>=Tag" ... "k0000=Tag" (4 digits, descending keys); if Bad > 0 the one at index Bad-1 is Tx instead
	N   int    `json:"n,omitempty"`
	Bad int    `json:"bad,omitempty"`
	Tag string `json:"tag,omitempty"`
	gen *Item  // set on the expanded "exec" item: the execgen item it came from
}

func genBlock(it Item) []string {
	txs := make([]string, it.N)
	for i := range txs {
		txs[i] = fmt.Sprintf("k%04d=%s", it.N-1-i, it.Tag)
	}
	if it.Bad > 0 && it.Bad <= it.N {
		txs[it.Bad-1] = it.Tx
	}
	return txs
}

// execgen items written out as the exec calls they stand for
func expand(h []Item) []Item {
	out := make([]Item, len(h))
	for i, it := range h {
		if it.T == "execgen" {
			g := it
			out[i] = Item{T: "exec", Txs: genBlock(it), gen: &g}
		} else {
			out[i] = it
		}
	}
	return out
}

func isBig(h []Item) bool {
	for _, it := range h {
		if it.gen != nil {
			return true
		}
	}
	return false
}

// long roots are clipped in messages
func clip(s string) string {
	if len(s) <= 160 {
		return s
	}
	return fmt.Sprintf("%s...(%d bytes)...%s", s[:80], len(s), s[len(s)-40:])
}

// fingerprint of a string as Check/KVExecCheck.v fp computes it
func fp(s string) uint64 {
	var h uint64
	for i := 0; i < len(s); i++ {
		h = (h*257 + uint64(s[i])) % 1000000007
	}
	return h + uint64(len(s))*1000000007
}

type Replay struct {
	Seed int64  `json:"seed"`
	Case int    `json:"case"`
	Disk bool   `json:"disk"`
	A    []Item `json:"a"`
	B    []Item `json:"b"`
}

var (
	keysCommon   = []string{"a", "b", "c", "/a", "a/b", "k1"}
	keysTricky   = []string{"a//b", "a/./b", "a/../c", "c/", "..", "/", "./a", " a", "a\t", "\u00a0b", "b\u2003", "\u3000c\u0085", "a b", "a:b", "x;y", "a/b/../../..", " a/ ", "...", "\u00a0\t k1 \n", "\u1680a\u2028", "\u205fb\u202f", "\u00e9", "a\u00a0b"}
	keysReserved = []string{"genesis/initialized", "/genesis/stateroot", "genesis/../genesis/initialized", "finalizedHeight", "/finalizedHeight/", "genesis//stateroot", " genesis/./stateroot "}
	keysNear     = []string{"genesis", "genesis/x", "finalizedHeight/x", "finalizedheight", "genesis/initialized/x", "x/finalizedHeight"}
	keysEmpty    = []string{"", " ", "\u2003", "\t\n", "\u00a0\u0085"}
	values       = []string{"1", "2", "3", "", " 4 ", "x=y", "v:w;", "\u00a05", "=", "\u20096\u200a", "7 8", "\u2029"}
	malformed    = []string{"novalue", "", " ", "a", "genesis/initialized"}
)

func genTx(r *rand.Rand) string {
	x := r.Intn(100)
	pick := func(l []string) string { return l[r.Intn(len(l))] }
	var k string
	switch {
	case x < 2:
		return pick(malformed)
	case x < 80:
		k = pick(keysCommon)
	case x < 92:
		k = pick(keysTricky)
	case x < 95:
		k = pick(keysReserved)
	case x < 99:
		k = pick(keysNear)
	default:
		k = pick(keysEmpty)
	}
	v := pick(values[:3])
	if r.Intn(4) == 0 {
		v = pick(values)
	}
	sep := "="
	if r.Intn(6) == 0 {
		sep = " = "
	}
	return k + sep + v
}

func genBlocks(r *rand.Rand, max int) [][]string {
	n := 1 + r.Intn(max)
	var bs [][]string
	for i := 0; i < n; i++ {
		if i > 0 && r.Intn(8) == 0 { // the previous block again
			bs = append(bs, append([]string{}, bs[i-1]...))
			continue
		}
		nt := r.Intn(5)
		b := []string{}
		for t := 0; t < nt; t++ {
			b = append(b, genTx(r))
		}
		bs = append(bs, b)
	}
	return bs
}

func genSide(r *rand.Rand) Item {
	x := r.Intn(100)
	switch {
	case x < 45:
		return Item{T: "final", H: uint64(r.Intn(7))} // 0 is rejected by the code
	case x < 65:
		return Item{T: "inject", Tx: genTx(r)}
	case x < 80:
		return Item{T: "gettxs"}
	case x < 90:
		return Item{T: "reopen"}
	default:
		return Item{T: "init"}
	}
}

// one instance's schedule around the shared blocks
func genSchedule(r *rand.Rand, blocks [][]string) []Item {
	var bl []Item
	for _, b := range blocks {
		bl = append(bl, Item{T: "exec", Txs: b})
	}
	return genScheduleItems(r, bl)
}

func genScheduleItems(r *rand.Rand, blocks []Item) []Item {
	var h []Item
	if r.Intn(4) != 0 {
		h = append(h, Item{T: "init"})
	}
	for _, b := range blocks {
		for n := r.Intn(4); n > 0; n-- {
			h = append(h, genSide(r))
		}
		h = append(h, b)
	}
	for n := r.Intn(3); n > 0; n-- {
		h = append(h, genSide(r))
	}
	return h
}

// ---- size-boundary stream: large generated blocks, a rejected transaction at a late index ---------------

type bigSpec struct{ n, bad int } // bad = index of the rejected transaction + 1, 0 = none

var (
	bigSizes = []int{255, 256, 257, 511, 512, 513, 1023, 1024, 1025, 2049}
	bigQuick = []bigSpec{{257, 257}, {513, 513}, {513, 0}, {1025, 1025}, {1024, 601}}
	badTxs   = []string{"novalue", "=x", "genesis/initialized=1", " finalizedHeight = 2", " = "}
)

func genBigSpec(r *rand.Rand) bigSpec {
	n := bigSizes[r.Intn(len(bigSizes))]
	var cand []int // 0-based indices
	for _, i := range []int{0, 254, 255, 256, 257, 510, 511, 512, 513, 1022, 1023, 1024, 1025, 2046, 2047, 2048, n - 1, n / 2} {
		if i >= 0 && i < n {
			cand = append(cand, i)
		}
	}
	if r.Intn(5) == 0 {
		return bigSpec{n, 0}
	}
	return bigSpec{n, cand[r.Intn(len(cand))] + 1}
}

// shared blocks of a size-boundary pair: small block; the big block (rejected when it has a bad transaction);
// small block; and when the big block was rejected: the same keys accepted with another value, then the
// rejected block once more over the populated store, then a small block
func bigBlocks(r *rand.Rand, sp bigSpec) []Item {
	small := func() Item { return Item{T: "exec", Txs: []string{genTx(r), genTx(r)}} }
	bad := badTxs[r.Intn(len(badTxs))]
	mk := func(tag string, b int) Item {
		it := Item{T: "execgen", N: sp.n, Tag: tag, Bad: b}
		if b > 0 {
			it.Tx = bad
		}
		return it
	}
	bl := []Item{small(), mk("v", sp.bad), small()}
	if sp.bad > 0 {
		bl = append(bl, mk("w", 0), mk("x", sp.bad), small())
	}
	return bl
}

// ---- driving the real executor ------------------------------------------------------------------

type kvp struct{ k, v string }

type obs struct {
	kind   string
	root   *string // init / exec: returned root, nil = error
	ok     bool    // final
	txs    []string
	after  string // computeStateRoot after the call
	before []kvp  // full datastore before the call
	dump   []kvp  // full datastore after the call
}

type inst struct {
	disk bool
	dir  string
	db   ds.Batching
	ex   *kv.KVExecutor
	ctx  context.Context
	salt int
	n    uint64
}

func newInst(disk bool, salt int) (*inst, error) {
	in := &inst{disk: disk, ctx: context.Background(), salt: salt}
	if disk {
		dir, err := os.MkdirTemp("", "c15db")
		if err != nil {
			return nil, err
		}
		in.dir = dir
		ex, err := kv.NewKVExecutor(dir, "db")
		if err != nil {
			return nil, err
		}
		in.ex = ex
	} else {
		in.db = dssync.MutexWrap(ds.NewMapDatastore())
		in.ex = kv.VerifC15New(in.db)
	}
	return in, nil
}

func (in *inst) close() {
	if in.disk {
		_ = in.ex.VerifC15DB().Close()
		_ = os.RemoveAll(in.dir)
	}
}

func (in *inst) reopen() error {
	if in.disk {
		if err := in.ex.VerifC15DB().Close(); err != nil {
			return err
		}
		ex, err := kv.NewKVExecutor(in.dir, "db")
		if err != nil {
			return err
		}
		in.ex = ex
		return nil
	}
	in.ex = kv.VerifC15New(in.db) // a new process over the same durable datastore
	return nil
}

func (in *inst) dump() ([]kvp, error) {
	res, err := in.ex.VerifC15DB().Query(in.ctx, query.Query{})
	if err != nil {
		return nil, err
	}
	defer res.Close()
	var out []kvp
	for e := range res.Next() {
		if e.Error != nil {
			return nil, e.Error
		}
		out = append(out, kvp{e.Key, string(e.Value)})
	}
	sort.Slice(out, func(i, j int) bool { return out[i].k < out[j].k })
	return out, nil
}

func toBytes(txs []string) [][]byte {
	out := make([][]byte, len(txs))
	for i, t := range txs {
		out[i] = []byte(t)
	}
	return out
}

// the arguments the code is supposed to ignore differ between the two instances and between calls
func (in *inst) call(it Item) (obs, error) {
	o := obs{kind: it.T}
	in.n++
	switch it.T {
	case "init":
		r, _, err := in.ex.InitChain(in.ctx, time.Unix(int64(1000*in.salt)+int64(in.n), 0), 1+uint64(in.salt)*in.n, fmt.Sprintf("chain-%d-%d", in.salt, in.n))
		if err == nil {
			s := string(r)
			o.root = &s
		}
	case "exec":
		prev := []byte(nil)
		if in.salt > 0 {
			prev = []byte(fmt.Sprintf("garbage-%d", in.n))
		}
		r, _, err := in.ex.ExecuteTxs(in.ctx, toBytes(it.Txs), in.n*uint64(1+in.salt*7), time.Unix(int64(in.salt)*77+int64(in.n), 0), prev)
		if err == nil {
			s := string(r)
			o.root = &s
		}
	case "final":
		o.ok = in.ex.SetFinal(in.ctx, it.H) == nil
	case "inject":
		in.ex.InjectTx([]byte(it.Tx))
	case "gettxs":
		txs, err := in.ex.GetTxs(in.ctx)
		if err != nil {
			return o, err
		}
		for _, t := range txs {
			o.txs = append(o.txs, string(t))
		}
	case "reopen":
		if err := in.reopen(); err != nil {
			return o, err
		}
	default:
		return o, fmt.Errorf("bad item %q", it.T)
	}
	r, err := in.ex.VerifC15Root(in.ctx)
	if err != nil {
		return o, err
	}
	o.after = string(r)
	return o, nil
}

func runInst(hist []Item, disk bool, salt int) ([]obs, error) {
	in, err := newInst(disk, salt)
	if err != nil {
		return nil, err
	}
	defer in.close()
	var out []obs
	prev, err := in.dump()
	if err != nil {
		return nil, err
	}
	for _, it := range hist {
		o, err := in.call(it)
		if err != nil {
			return nil, err
		}
		o.before = prev
		if o.dump, err = in.dump(); err != nil {
			return nil, err
		}
		prev = o.dump
		out = append(out, o)
	}
	return out, nil
}

// ---- the oracle: the property evaluated directly on what the real code returned -------------------

type viol struct{ sig, what string }

func sameDump(a, b []kvp) bool {
	if len(a) != len(b) {
		return false
	}
	for i := range a {
		if a[i] != b[i] {
			return false
		}
	}
	return true
}

func sameTxs(a, b []string) bool {
	if len(a) != len(b) {
		return false
	}
	for i := range a {
		if a[i] != b[i] {
			return false
		}
	}
	return true
}

func rootStr(p *string) string {
	if p == nil {
		return "<error>"
	}
	return fmt.Sprintf("%q", clip(*p))
}

func oracleInst(name string, hist []Item, tr []obs) []viol {
	var vs []viol
	fail := func(sig, f string, a ...interface{}) { vs = append(vs, viol{sig, name + ": " + fmt.Sprintf(f, a...)}) }
	cur := "" // root before the call
	var genesis *string
	var pending []string // mempool reference: injected since the last GetTxs / reopen
	for i, it := range hist {
		o := tr[i]
		accepted := it.T == "exec" && o.root != nil
		if !accepted && o.after != cur {
			sig := map[string]string{"final": "finalize-changes-root", "inject": "mempool-changes-root", "gettxs": "mempool-changes-root",
				"reopen": "reopen-changes-root", "init": "init-changes-root", "exec": "rejected-block-changes-root"}[it.T]
			fail(sig, "call %d (%s, %d txs) changed the state root from %q to %q", i, it.T, len(it.Txs), clip(cur), clip(o.after))
		}
		switch it.T {
		case "exec":
			if o.root == nil {
				if !sameDump(o.before, o.dump) {
					fail("rejected-block-changes-store", "call %d: ExecuteTxs of %d transactions returned an error but the datastore changed (%d keys before, %d after)", i, len(it.Txs), len(o.before), len(o.dump))
				}
			} else {
				for _, tx := range it.Txs {
					if !strings.Contains(tx, "=") {
						fail("malformed-tx-accepted", "call %d: block with transaction %q (no '=') was accepted", i, tx)
					}
				}
				if *o.root != o.after {
					fail("exec-root-not-current-root", "call %d: ExecuteTxs returned %q but the store's root is %q", i, clip(*o.root), clip(o.after))
				}
			}
			if i > 0 && hist[i-1].T == "exec" && sameTxs(hist[i-1].Txs, it.Txs) {
				p := tr[i-1]
				if (p.root == nil) != (o.root == nil) || (o.root != nil && *p.root != *o.root) || !sameDump(p.dump, o.dump) {
					fail("reexec-not-idempotent", "call %d: executing the same block again gave %s after %s, or changed the datastore", i, rootStr(o.root), rootStr(p.root))
				}
			}
		case "init":
			if o.root == nil {
				fail("init-failed", "call %d: InitChain returned an error", i)
			} else if genesis == nil {
				g := *o.root
				genesis = &g
				if g != cur {
					fail("init-root-not-current-root", "call %d: first InitChain returned %q but the store's root was %q", i, clip(g), clip(cur))
				}
			} else {
				if *o.root != *genesis {
					fail("init-not-idempotent", "call %d: InitChain returned %q, the first call returned %q", i, clip(*o.root), clip(*genesis))
				}
				if !sameDump(o.before, o.dump) {
					fail("init-not-idempotent", "call %d: a repeated InitChain changed the datastore", i)
				}
			}
		case "final":
			if o.ok != (it.H != 0) {
				fail("final-result-wrong", "call %d: SetFinal(%d) ok=%v", i, it.H, o.ok)
			}
		case "inject":
			pending = append(pending, it.Tx)
		case "gettxs":
			if !sameTxs(pending, o.txs) {
				fail("mempool-not-fifo", "call %d: GetTxs returned %q, injected since the last drain/restart: %q", i, o.txs, pending)
			}
			pending = nil
		case "reopen":
			pending = nil
		}
		cur = o.after
	}
	return vs
}

func execIdx(hist []Item) []int {
	var ix []int
	for i, it := range hist {
		if it.T == "exec" {
			ix = append(ix, i)
		}
	}
	return ix
}

// the same blocks so far => the same ExecuteTxs results, whatever else was called
func oracleCross(ha, hb []Item, ta, tb []obs) []viol {
	ia, ib := execIdx(ha), execIdx(hb)
	for n := 0; n < len(ia) && n < len(ib); n++ {
		if !sameTxs(ha[ia[n]].Txs, hb[ib[n]].Txs) {
			break
		}
		ra, rb := ta[ia[n]].root, tb[ib[n]].root
		if (ra == nil) != (rb == nil) || (ra != nil && *ra != *rb) {
			return []viol{{"instances-disagree", fmt.Sprintf("ExecuteTxs #%d of the same block sequence returned %s on instance A and %s on instance B", n, rootStr(ra), rootStr(rb))}}
		}
	}
	return nil
}

// a fresh instance executing all accepted transactions as ONE block must reach the same root
func oracleFresh(ha []Item, ta []obs) ([]viol, error) {
	var all []string
	last := ""
	for i, it := range ha {
		if it.T == "exec" && ta[i].root != nil {
			all = append(all, it.Txs...)
		}
		last = ta[i].after
	}
	tr, err := runInst([]Item{{T: "exec", Txs: all}}, false, 3)
	if err != nil {
		return nil, err
	}
	if tr[0].root == nil || *tr[0].root != last {
		return []viol{{"root-depends-on-more-than-the-transactions", fmt.Sprintf("instance A ends with root %q; a fresh instance executing the same accepted transactions in one block returns %s", clip(last), rootStr(tr[0].root))}}, nil
	}
	return nil, nil
}

type caseRun struct {
	ha, hb  []Item // the histories with generated blocks written out
	ta, tb  []obs
	viol    []viol
	partial bool // the real code panicked: no complete trace
}

func runCase(rp Replay) (cr *caseRun, err error) {
	cr = &caseRun{}
	defer func() {
		if x := recover(); x != nil {
			cr.viol = append(cr.viol, viol{"panic", fmt.Sprint(x)})
			cr.partial = true
		}
	}()
	cr.ha, cr.hb = expand(rp.A), expand(rp.B)
	if cr.ta, err = runInst(cr.ha, rp.Disk, 0); err != nil {
		return nil, err
	}
	if cr.tb, err = runInst(cr.hb, rp.Disk, 1); err != nil {
		return nil, err
	}
	cr.viol = append(cr.viol, oracleInst("A", cr.ha, cr.ta)...)
	cr.viol = append(cr.viol, oracleInst("B", cr.hb, cr.tb)...)
	cr.viol = append(cr.viol, oracleCross(cr.ha, cr.hb, cr.ta, cr.tb)...)
	fv, err := oracleFresh(cr.ha, cr.ta)
	if err != nil {
		return nil, err
	}
	cr.viol = append(cr.viol, fv...)
	return cr, nil
}

func hasSig(rp Replay, sig string) bool {
	cr, err := runCase(rp)
	if err != nil {
		return false
	}
	for _, v := range cr.viol {
		if v.sig == sig {
			return true
		}
	}
	return false
}

func shrink(rp Replay, sig string) Replay {
	for round := 0; round < 3; round++ {
		na, nb := len(rp.A), len(rp.B)
		rp.A = vgen.Shrink(rp.A, func(a []Item) bool { return hasSig(Replay{rp.Seed, rp.Case, rp.Disk, a, rp.B}, sig) })
		rp.B = vgen.Shrink(rp.B, func(b []Item) bool { return hasSig(Replay{rp.Seed, rp.Case, rp.Disk, rp.A, b}, sig) })
		// transactions inside the remaining blocks
		for _, side := range []*[]Item{&rp.A, &rp.B} {
			for i := range *side {
				if (*side)[i].T != "exec" {
					continue
				}
				(*side)[i].Txs = vgen.Shrink((*side)[i].Txs, func(txs []string) bool {
					c := append([]Item{}, (*side)...)
					c[i] = Item{T: "exec", Txs: txs}
					if side == &rp.A {
						return hasSig(Replay{rp.Seed, rp.Case, rp.Disk, c, rp.B}, sig)
					}
					return hasSig(Replay{rp.Seed, rp.Case, rp.Disk, rp.A, c}, sig)
				})
			}
		}
		if len(rp.A) == na && len(rp.B) == nb {
			break
		}
	}
	return rp
}

// the mempool channel's capacity: beyond it InjectTx drops; none of it touches the root (oracle only)
func overflowCheck() ([]viol, error) {
	in, err := newInst(false, 0)
	if err != nil {
		return nil, err
	}
	if _, err := in.call(Item{T: "exec", Txs: []string{"a=1"}}); err != nil {
		return nil, err
	}
	capN := kv.VerifC15MempoolCap()
	devnull, _ := os.OpenFile(os.DevNull, os.O_WRONLY, 0)
	saved := os.Stdout
	if devnull != nil {
		os.Stdout = devnull // InjectTx prints a warning per dropped transaction
	}
	for i := 0; i < capN+5; i++ {
		in.ex.InjectTx([]byte(fmt.Sprintf("k%d=v", i)))
	}
	os.Stdout = saved
	if devnull != nil {
		devnull.Close()
	}
	o, err := in.call(Item{T: "gettxs"})
	if err != nil {
		return nil, err
	}
	var vs []viol
	if len(o.txs) != capN || o.txs[0] != "k0=v" || o.txs[capN-1] != fmt.Sprintf("k%d=v", capN-1) {
		vs = append(vs, viol{"mempool-not-fifo", fmt.Sprintf("after %d injections GetTxs returned %d transactions (capacity %d)", capN+5, len(o.txs), capN)})
	}
	if o.after != "/a:1;" {
		vs = append(vs, viol{"mempool-changes-root", fmt.Sprintf("root after mempool overflow and drain is %q", o.after)})
	}
	return vs, nil
}

// ---- Coq terms ---------------------------------------------------------------------------------

type interner struct {
	idx  map[string]int
	defs []string
}

func (in *interner) s(x string) string {
	if in.idx == nil {
		in.idx = map[string]int{}
	}
	i, ok := in.idx[x]
	if !ok {
		i = len(in.idx)
		in.idx[x] = i
		in.defs = append(in.defs, fmt.Sprintf("Definition s%d : string := %s.", i, vgen.Str(x)))
	}
	return fmt.Sprintf("s%d", i)
}

func (in *interner) list(xs []string) string {
	var l []string
	for _, x := range xs {
		l = append(l, in.s(x))
	}
	return vgen.List(l)
}

func (in *interner) opt(p *string) string {
	if p == nil {
		return "None"
	}
	return "(Some " + in.s(*p) + ")"
}

func histCoq(in *interner, h []Item) string {
	var items []string
	for _, it := range h {
		switch it.T {
		case "init":
			items = append(items, "IInit")
		case "exec":
			items = append(items, "IExec "+in.list(it.Txs))
		case "final":
			items = append(items, "IFinal "+vgen.N(it.H))
		case "inject":
			items = append(items, "IInject "+in.s(it.Tx))
		case "gettxs":
			items = append(items, "IGetTxs")
		case "reopen":
			items = append(items, "IReopen")
		}
	}
	return vgen.List(items)
}

func bigHistCoq(in *interner, h []Item) string {
	var items []string
	for _, it := range h {
		if it.gen != nil {
			bad := "None"
			if it.gen.Bad > 0 {
				bad = fmt.Sprintf("(Some (%s, %s))", vgen.N(uint64(it.gen.Bad-1)), in.s(it.gen.Tx))
			}
			items = append(items, fmt.Sprintf("GGen %s %s %s", vgen.N(uint64(it.gen.N)), in.s(it.gen.Tag), bad))
			continue
		}
		one := histCoq(in, []Item{it})
		items = append(items, "GI ("+one[1:len(one)-1]+")")
	}
	return vgen.List(items)
}

func bigOutsCoq(in *interner, tr []obs) string {
	fpo := func(p *string) string {
		if p == nil {
			return "None"
		}
		return "(Some " + vgen.N(fp(*p)) + ")"
	}
	var l []string
	for _, o := range tr {
		var t string
		switch o.kind {
		case "init":
			t = "PInit " + fpo(o.root)
		case "exec":
			t = "PExec " + fpo(o.root)
		case "final":
			t = "PFinal " + vgen.Bool(o.ok)
		case "gettxs":
			t = "PTxs " + in.list(o.txs)
		default:
			t = "PNone"
		}
		l = append(l, "("+t+", "+vgen.N(fp(o.after))+")")
	}
	return vgen.List(l)
}

func outsCoq(in *interner, tr []obs) string {
	var l []string
	for _, o := range tr {
		var t string
		switch o.kind {
		case "init":
			t = "OInit " + in.opt(o.root)
		case "exec":
			t = "OExec " + in.opt(o.root)
		case "final":
			t = "OFinal " + vgen.Bool(o.ok)
		case "gettxs":
			t = "OTxs " + in.list(o.txs)
		default:
			t = "ONone"
		}
		l = append(l, "("+t+", "+in.s(o.after)+")")
	}
	return vgen.List(l)
}

func dumpCoq(in *interner, tr []obs) string {
	if len(tr) == 0 {
		return "[]"
	}
	var l []string
	for _, e := range tr[len(tr)-1].dump {
		l = append(l, "("+in.s(e.k)+", "+in.s(e.v)+")")
	}
	return vgen.List(l)
}

// ds.NewKey and strings.TrimSpace evaluated by the real libraries on every key/value text of the case
func tablesCoq(in *interner, h []Item) (string, string) {
	seenK, seenT := map[string]bool{}, map[string]bool{}
	var ks, ts []string
	add := func(tx string) {
		parts := strings.SplitN(tx, "=", 2)
		for _, p := range parts {
			if !seenT[p] {
				seenT[p] = true
				ts = append(ts, "("+in.s(p)+", "+in.s(strings.TrimSpace(p))+")")
			}
		}
		if k := strings.TrimSpace(parts[0]); len(parts) == 2 && k != "" && !seenK[k] {
			seenK[k] = true
			ks = append(ks, "("+in.s(k)+", "+in.s(ds.NewKey(k).String())+")")
		}
	}
	for _, it := range h {
		for _, tx := range it.Txs {
			add(tx)
		}
		if it.T == "inject" {
			add(it.Tx)
		}
	}
	return vgen.List(ks), vgen.List(ts)
}

func caseRng(seed int64, c int) *rand.Rand { return rand.New(rand.NewSource(seed*1000003 + int64(c))) }

func TestVerif(t *testing.T) {
	e := vgen.GetEnv()
	res := vgen.NewResult("C15", e)
	maxBlocks := 8
	if e.Tier == "thorough" {
		maxBlocks = 20
	}
	var jobs []Replay
	if e.Replay != "" {
		var rp Replay
		if err := vgen.LoadReplay(e.Replay, &rp); err != nil {
			t.Fatal(err)
		}
		jobs = append(jobs, rp)
	} else {
		if os.Getenv("VERIF_NO_CORPUS") == "" {
			files, _ := filepath.Glob("../corpus/C15/*.json")
			sort.Strings(files)
			for _, f := range files {
				var rp Replay
				if vgen.LoadReplay(f, &rp) == nil {
					jobs = append(jobs, rp)
					res.Count("source:corpus")
				}
			}
			vs, err := overflowCheck()
			if err != nil {
				t.Fatalf("harness error: %v", err)
			}
			res.Evaluations++
			res.Count("special:mempool-overflow")
			for _, v := range vs {
				res.Violations = append(res.Violations, vgen.Violation{Signature: v.sig, What: v.what, Case: -1, Replay: Replay{}})
			}
		}
		// size-boundary stream: the fixed specs in quick (shard 0), seed-drawn ones in thorough
		var specs []bigSpec
		if e.Tier == "thorough" {
			r := caseRng(e.Seed, -7)
			for i := 0; i < 8; i++ {
				specs = append(specs, genBigSpec(r))
			}
		}
		if os.Getenv("VERIF_NO_CORPUS") == "" {
			specs = append(bigQuick, specs...)
		}
		for i, sp := range specs {
			r := caseRng(e.Seed, -100-i)
			bl := bigBlocks(r, sp)
			jobs = append(jobs, Replay{Seed: e.Seed, Case: -100 - i, Disk: i%4 == 1, A: genScheduleItems(r, bl), B: genScheduleItems(r, bl)})
			res.Count("source:size-boundary")
		}
		for c := 0; c < e.N; c++ {
			r := caseRng(e.Seed, c)
			blocks := genBlocks(r, maxBlocks)
			jobs = append(jobs, Replay{Seed: e.Seed, Case: c, Disk: c%10 == 3, A: genSchedule(r, blocks), B: genSchedule(r, blocks)})
		}
	}
	var cases, defsAll []string
	distinct := map[string]bool{}
	reported := map[string]bool{}
	for _, rp := range jobs {
		cr, err := runCase(rp)
		if err != nil {
			t.Fatalf("harness error: %v", err)
		}
		res.Evaluations++
		if rp.Disk {
			res.Count("history:on-disk-badger")
		}
		seen := map[string]bool{}
		for _, v := range cr.viol {
			if seen[v.sig] {
				continue
			}
			seen[v.sig] = true
			res.Count("violation:" + v.sig)
			if reported[v.sig] { // one shrunk witness per signature and run; further occurrences are only counted
				continue
			}
			reported[v.sig] = true
			res.Violations = append(res.Violations, vgen.Violation{Signature: v.sig, What: v.what, Case: len(cases), Replay: shrink(rp, v.sig)})
		}
		for side, h := range [][]Item{cr.ha, cr.hb} {
			if cr.partial {
				break
			}
			tr, compact := cr.ta, rp.A
			if side == 1 {
				tr, compact = cr.tb, rp.B
			}
			accepted, rejected, finals, reexec := 0, 0, 0, false
			for i, it := range h {
				res.Count("item:" + it.T)
				switch it.T {
				case "exec":
					if tr[i].root != nil {
						accepted++
					} else {
						rejected++
					}
					if i > 0 && h[i-1].T == "exec" && sameTxs(h[i-1].Txs, it.Txs) {
						reexec = true
					}
					res.Distribution["txs"] += len(it.Txs)
				case "final":
					if it.H > 0 {
						finals++
					}
				}
			}
			if rejected > 0 {
				res.Count("history:has-rejected-block")
			}
			if reexec {
				res.Count("history:has-reexecuted-block")
			}
			in := &interner{}
			if isBig(h) {
				// generated blocks are named, not written out; results cross as fingerprints
				for _, it := range h {
					if it.gen != nil {
						res.Count(fmt.Sprintf("big-block:n=%d,bad-index=%d", it.gen.N, it.gen.Bad-1))
					}
				}
				hc := bigHistCoq(in, h)
				if accepted >= 2 && finals >= 1 {
					distinct[hc] = true
				}
				ji := len(cases)
				last := tr[len(tr)-1].dump
				var sb strings.Builder
				for _, e := range last {
					sb.WriteString(e.k + ":" + e.v + ";")
				}
				defsAll = append(defsAll, fmt.Sprintf("Module C%d.\n%s\nDefinition c : bcase := {| bc_hist := %s;\n bc_outs := %s;\n bc_count := %s;\n bc_dump := %s |}.\nEnd C%d.",
					ji, strings.Join(in.defs, "\n"), hc, bigOutsCoq(in, tr), vgen.N(uint64(len(last))), vgen.N(fp(sb.String())), ji))
				cases = append(cases, fmt.Sprintf("Big C%d.c", ji))
				res.Replays[fmt.Sprint(ji)] = Replay{Seed: rp.Seed, Case: rp.Case, Disk: rp.Disk, A: compact}
				continue
			}
			hc := histCoq(in, h)
			if accepted >= 2 && finals >= 1 {
				distinct[hc] = true
			}
			ks, ts := tablesCoq(in, h)
			outs, dump := outsCoq(in, tr), dumpCoq(in, tr)
			ji := len(cases)
			defsAll = append(defsAll, fmt.Sprintf("Module C%d.\n%s\nDefinition c : kcase := {| kc_hist := %s;\n kc_outs := %s;\n kc_dump := %s;\n kc_keys := %s;\n kc_trims := %s;\n kc_cap := %s |}.\nEnd C%d.",
				ji, strings.Join(in.defs, "\n"), hc, outs, dump, ks, ts, vgen.N(uint64(kv.VerifC15MempoolCap())), ji))
			cases = append(cases, fmt.Sprintf("Small C%d.c", ji))
			one := Replay{Seed: rp.Seed, Case: rp.Case, Disk: rp.Disk, A: compact}
			res.Replays[fmt.Sprint(ji)] = one
			if len(res.Samples) < 3 && accepted >= 2 && rejected >= 1 && finals >= 1 {
				var roots []string
				for _, o := range tr {
					roots = append(roots, o.after)
				}
				res.Samples = append(res.Samples, map[string]interface{}{"history": h, "root_after_each_call": roots})
			}
		}
	}
	res.Distinct = len(distinct)
	res.Rule = "size-boundary stream (5 fixed pairs per quick run, 8 more seed-drawn per thorough shard): a generated block of 255..2049 distinct keys with one rejected transaction at a late index (256, 512, 1024, 600, ...) or none, then the same keys accepted, then the rejected block again over the populated store, small blocks in between, on both instances under their own schedules, compared exactly by the Go oracle and as fingerprints by the Coq model; plus pairs of instance histories: 1..8 (thorough 1..20) shared blocks of 0..4 transactions (keys from common / path-cleaning / white-space / reserved / near-reserved / empty pools, ~6% rejected transactions, 1 in 8 blocks repeats the previous one), each instance with its own random schedule of InitChain, SetFinal (height 0..6), InjectTx, GetTxs and reopen calls around them and different ignored arguments; every 10th pair on the on-disk badger store with real close/reopen; each instance history is one Coq case; non-trivial = at least 2 accepted blocks and one successful SetFinal; distinct = distinct Coq history terms"
	res.Cases = len(cases)
	header := "From Coq Require Import String Ascii NArith List Bool.\nFrom Verif Require Import Base.Keys Model.KVExec Check.KVExecCheck."
	path := filepath.Join(e.Out, "cases_C15.v")
	if err := vgen.WriteCases(path, header, defsAll, "xcase", cases, "xmismatches"); err != nil {
		t.Fatal(err)
	}
	res.CaseFiles = []string{path}
	if err := res.Write(e.Out); err != nil {
		t.Fatal(err)
	}
}
