// C19 histories: the real LoadFileSystemSigner / ExportPrivateKey / ImportPrivateKey / CreateFileSystemSigner
// applied ONE AFTER THE OTHER to the same path (current-format, imported and legacy salt-less files, or no
// file at all), with right and wrong passphrases (all-zero of the same length, empty, > 32 bytes, prefix,
// one bit flipped, the passphrase the file was sealed with BEFORE the last re-seal), and signing SESSIONS on
// the signers the loads yield (fresh slices, one buffer re-used, rewritten in place, a prefix of it).
// FAULTS between the steps (step kind "damage": the file truncated, emptied, deleted, a structural byte or a
// base64 character replaced, other text), typically after a key rotation and followed by load / export attempts
// with the passphrase in force and the one in force before: a damaged file yields nothing, whatever was on the
// path before (model: HDamage).  Passphrases ending in LF / CRLF / CR are passphrases like any others.
// After EVERY step the file is read back; its decoded, labelled content is what the Coq model
// (Model.KeyFile.hstep / hrun, Check.KeyFileCheck.check_hist) must predict, and whenever the text on disk
// changed the Go oracle probes a COPY of it with the real code: it must open with exactly the passphrase it
// was last sealed with (and to the key last sealed in it).
package c19

import (
	"bytes"
	"crypto/ed25519"
	"fmt"
	"math/rand"
	"os"
	"path/filepath"
	"strings"

	"github.com/evstack/ev-node/pkg/signer"
	"github.com/evstack/ev-node/pkg/signer/file"

	"verif/harness/vgen"
)

type SignOp struct {
	Kind string `json:"kind"` // new | patch | resign | prefix | fresh
	Data []byte `json:"data,omitempty"`
	Off  int    `json:"off,omitempty"` // patch: offset; prefix: length
}

// Damage: a fault of the environment between two operations on the path. Positions are relative to the text
// the file holds when the fault strikes (the salts and nonces the real code draws differ from run to run).
type Damage struct {
	Kind string `json:"kind"` // trunc (keep Pos mod len bytes) | empty | delete | struct (the (Pos mod n)-th of the n structural bytes {}":, := Byte) | value (the (Pos mod n)-th base64 character of the values := Byte) | raw (the text becomes Raw)
	Pos  int    `json:"pos,omitempty"`
	Byte int    `json:"byte,omitempty"`
	Raw  []byte `json:"raw,omitempty"`
}

type HStep struct {
	Kind     string   `json:"kind"` // load | export | import-exported | import-new | import-bad | create | sign | damage
	Damage   *Damage  `json:"damage,omitempty"`
	Pass     []byte   `json:"pass,omitempty"`
	PassKind string   `json:"pass_kind,omitempty"`
	Priv     []byte   `json:"priv,omitempty"` // import-new / import-bad: the key bytes handed to ImportPrivateKey
	Sign     []SignOp `json:"sign,omitempty"`
}

// ---- Coq names for the byte strings of one history ----------------------------------------------------

type interner struct {
	mod   string
	names map[string]string
	defs  []string
}

func newInterner(mod string) *interner { return &interner{mod: mod, names: map[string]string{}} }

func bytesLit(v []byte) string {
	runs := 0
	for i := 0; i < len(v); {
		j := i
		for j < len(v) && v[j] == v[i] {
			j++
		}
		runs++
		i = j
	}
	if len(v) > 8 && runs*3 < len(v) {
		return passTermLit(v)
	}
	return vgen.BytesN(v)
}

func (in *interner) b(v []byte) string {
	if len(v) <= 2 {
		return vgen.BytesN(v)
	}
	if n, ok := in.names[string(v)]; ok {
		return n
	}
	n := fmt.Sprintf("b%d", len(in.names))
	in.names[string(v)] = in.mod + "." + n
	in.defs = append(in.defs, fmt.Sprintf("Definition %s : bytes := %s.", n, bytesLit(v)))
	return in.mod + "." + n
}

func (in *interner) module() string {
	return fmt.Sprintf("Module %s.\n%s\nEnd %s.", in.mod, strings.Join(in.defs, "\n"), in.mod)
}

// ---- the state of a history ---------------------------------------------------------------------------

type histState struct {
	dir      string
	text     []byte // nil = no file
	term     string // Coq term of the file as last read back
	legacy   bool   // the file is in the salt-less format
	sealPass []byte // ghost: the passphrase the file was last sealed with
	prevPass []byte // ghost: the one before the last re-seal (nil = none)
	key      []byte // ghost: the 64 key bytes sealed in it (nil = none)
	plain    []byte // ghost: the plaintext sealed in it (64 or 96 bytes)
	used     [][]byte
	exported []byte
	signer   signer.Signer
	signerK  []byte
	in       *interner
	res      *caseResult
	// what the file held when it was last read back (decoded) and the label of its ciphertext
	lastDesc desc
	lastCt   string
	// ghost: a fault changed the decoded content since the file was last sealed: no passphrase may load it
	// (noLoad), none may export from it (noExport: the ciphertext, nonce or salt changed, or it no longer parses)
	noLoad, noExport bool
	damageWhat       string
}

func (d desc) stateWord() string {
	switch d.state {
	case "absent":
		return "is gone"
	case "badjson":
		return "does not parse"
	}
	return "decodes to other fields"
}

// applyDamage: the text of the key file after the fault (del = the file is removed).
func applyDamage(text []byte, d Damage) (out []byte, del bool) {
	pick := func(ok func(i int) bool) int {
		var idx []int
		for i := range text {
			if ok(i) {
				idx = append(idx, i)
			}
		}
		if len(idx) == 0 {
			return -1
		}
		p := d.Pos
		if p < 0 {
			p = -p
		}
		return idx[p%len(idx)]
	}
	switch d.Kind {
	case "trunc":
		if len(text) == 0 {
			return []byte{}, false
		}
		p := d.Pos
		if p < 0 {
			p = -p
		}
		return cp(text[:p%len(text)]), false
	case "empty":
		return []byte{}, false
	case "delete":
		return nil, true
	case "struct":
		i := pick(func(i int) bool { return strings.IndexByte("{}\":,", text[i]) >= 0 })
		t := cp(text)
		if i >= 0 {
			t[i] = byte(d.Byte)
			if t[i] == text[i] {
				t[i] = 'x'
			}
		}
		return t, false
	case "value":
		ts := string(text)
		i := pick(func(i int) bool {
			sp := spanOf(ts, i)
			return strings.HasPrefix(sp, "value-of-") || strings.HasPrefix(sp, "last-char-of-")
		})
		t := cp(text)
		if i >= 0 {
			t[i] = byte(d.Byte)
			if t[i] == text[i] {
				t[i] = b64[(strings.IndexByte(b64, text[i])+1)%64]
			}
		}
		return t, false
	}
	return cp(d.Raw), false
}

func sameFields(a, b desc) bool {
	return a.state == "data" && b.state == "data" && bytes.Equal(a.ct, b.ct) && bytes.Equal(a.nonce, b.nonce) && bytes.Equal(a.pub, b.pub) && bytes.Equal(a.salt, b.salt)
}

func zeros(n int) []byte { return make([]byte, n) }

func (st *histState) readBack() (text []byte) {
	t, err := os.ReadFile(filepath.Join(st.dir, "signer.json"))
	if err != nil {
		return nil
	}
	return t
}

func deriveFor(d desc, p []byte) ([]byte, bool) {
	if len(d.salt) == 0 {
		if len(p) == 0 {
			return nil, false
		}
		k, panicked := file.VerifC19FallbackDeriveKey(p)
		return k, !panicked
	}
	return file.VerifC19DeriveKeyArgon2(p, d.salt), true
}

// label decodes a file text and labels its ciphertext by decrypting it with the harness's own AES-GCM under
// the candidate passphrases (in order; the first is the one the file is expected to be sealed with, so on a
// healthy run one key derivation suffices).
func (st *histState) label(text []byte, cands [][]byte) (term string, d desc, openedBy []byte, plain []byte) {
	d = describe(text, text == nil)
	st.lastDesc, st.lastCt = d, "CJunk"
	switch d.state {
	case "absent":
		return "FAbsent", d, nil, nil
	case "badjson":
		return "FBadJson", d, nil, nil
	}
	ct := "CJunk"
	defer func() { st.lastCt = ct }()
	seen := map[string]bool{}
	for _, p := range cands {
		if p == nil {
			continue
		}
		if seen[string(p)] {
			continue
		}
		seen[string(p)] = true
		k, ok := deriveFor(d, p)
		if !ok {
			continue
		}
		if pt, ok := gcmOpen(k, d.nonce, d.ct); ok {
			key := fmt.Sprintf("(KArgon %s %s)", st.in.b(p), st.in.b(d.salt))
			if len(d.salt) == 0 {
				key = fmt.Sprintf("(KRaw %s)", st.in.b(k))
			}
			ct = fmt.Sprintf("(CSeal %s %s %s)", key, st.in.b(d.nonce), st.in.b(pt))
			openedBy, plain = cp(p), pt
			break
		}
	}
	return fmt.Sprintf("(FData (mk_kd %s %s %s %s))", ct, st.in.b(d.nonce), st.in.b(d.pub), st.in.b(d.salt)), d, openedBy, plain
}

func (st *histState) candidates(first ...[]byte) [][]byte {
	c := append([][]byte{}, first...)
	c = append(c, st.sealPass, st.prevPass)
	for _, p := range st.used {
		c = append(c, p)
	}
	for _, p := range append([][]byte{st.sealPass}, st.used...) {
		if len(p) > 0 {
			c = append(c, zeros(len(p)))
		}
	}
	return append(c, []byte{})
}

// opens: does the real code load a COPY of the file with this passphrase, and to which key?
func opensCopy(text []byte, pass, msg []byte, key []byte) (ok bool, sameKey bool, o outcome) {
	dir, err := os.MkdirTemp("", "c19-probe-")
	if err != nil {
		return false, false, outcome{class: "EIo", msg: err.Error()}
	}
	defer os.RemoveAll(dir)
	if err := os.WriteFile(filepath.Join(dir, "signer.json"), text, 0o600); err != nil {
		return false, false, outcome{class: "EIo", msg: err.Error()}
	}
	s, o := safeLoad(dir, pass)
	if o.class != "ok" {
		return false, false, o
	}
	f := facts(s, msg, [][]byte{key})
	return true, f.privIs != nil && f.sigOK && bytes.Equal(f.pub, key[32:64]), o
}

// sameLegacyKey: a legacy file cannot tell these two passphrases apart (known finding of the format)
func sameLegacyKey(a, b []byte) bool {
	if len(a) == 0 || len(b) == 0 {
		return false
	}
	ka, pa := file.VerifC19FallbackDeriveKey(a)
	kb, pb := file.VerifC19FallbackDeriveKey(b)
	return !pa && !pb && bytes.Equal(ka, kb)
}

// probe: after a step that changed the text on disk, the file must open with exactly the passphrase the
// ghost state says it is sealed with. sigLock / sigOpen = the signatures to report.
func (st *histState) probe(text []byte, msg []byte, after, sigLock, sigOpen string) {
	if st.key == nil {
		return
	}
	ok, same, o := opensCopy(text, st.sealPass, msg, st.key)
	if !ok {
		st.res.fail(sigLock, fmt.Sprintf("after %s the key file no longer loads with the %d-byte passphrase it was sealed with: %s", after, len(st.sealPass), o.msg))
	} else if !same {
		st.res.fail(sigLock, fmt.Sprintf("after %s the key file loads with its passphrase to ANOTHER key", after))
	}
	wrong := [][]byte{}
	if len(st.sealPass) > 0 {
		wrong = append(wrong, zeros(len(st.sealPass)), []byte{})
	}
	if st.prevPass != nil {
		wrong = append(wrong, st.prevPass)
	}
	for _, w := range wrong {
		if bytes.Equal(w, st.sealPass) || (st.legacy && sameLegacyKey(w, st.sealPass)) {
			continue
		}
		if ok, _, _ := opensCopy(text, w, msg, st.key); ok {
			kind := "the passphrase it was sealed with before"
			if len(w) == 0 {
				kind = "the empty passphrase"
			} else if bytes.Equal(w, zeros(len(w))) {
				kind = fmt.Sprintf("an all-zero passphrase of %d bytes", len(w))
			}
			st.res.fail(sigOpen, fmt.Sprintf("after %s the key file (sealed under a %d-byte passphrase) loads with %s", after, len(st.sealPass), kind))
		}
	}
}

// ---- one history -----------------------------------------------------------------------------------------

func runHistory(h History, res *caseResult, r *rand.Rand, msg []byte) *caseResult {
	dir, err := os.MkdirTemp("", "c19-hist-")
	if err != nil {
		res.err = err
		return res
	}
	defer os.RemoveAll(dir)
	res.reached = true
	res.region = "history"
	res.passRel = "history"
	in := newInterner(histMod)
	st := &histState{dir: dir, in: in, res: res}
	f0 := "FAbsent"
	if h.BaseKind != "absent" {
		b := res.base
		if b == nil {
			res.err = fmt.Errorf("history without a labelled base file")
			return res
		}
		if err := os.WriteFile(filepath.Join(dir, "signer.json"), b.text, 0o600); err != nil {
			res.err = err
			return res
		}
		st.text = cp(b.text)
		f0 = fileTerm(describe(b.text, false), b)
		st.lastDesc = describe(b.text, false)
		if b.name != "" {
			st.lastCt = b.name + ".ct"
		} else {
			st.lastCt = ctTermLit(b)
		}
		st.legacy = len(b.salt) == 0
		st.sealPass, st.plain = cp(b.pass), cp(b.priv)
		st.key = cp(b.priv[:64])
	}
	st.term = f0
	var ops, obs, kinds []string
	var sessions []string

	for si, step := range h.Steps {
		after := fmt.Sprintf("step %d (%s)", si+1, step.Kind)
		before := st.text
		emit := func(op, resT string, sigOK, addrOK bool, fileT string) {
			ops = append(ops, op)
			obs = append(obs, fmt.Sprintf("(mk_hobs %s %s %s %s)", resT, vgen.Bool(sigOK), vgen.Bool(addrOK), fileT))
		}
		// what the file holds after the step; expected = the passphrase a re-sealing step was given
		settle := func(expected []byte) (fileT string, d desc, openedBy, plain []byte, changed bool) {
			t := st.readBack()
			if (t == nil) == (before == nil) && bytes.Equal(t, before) {
				return st.term, desc{}, nil, nil, false
			}
			var first [][]byte
			if expected != nil {
				first = append(first, expected)
			}
			fileT, d, openedBy, plain = st.label(t, st.candidates(first...))
			st.text, st.term = t, fileT
			st.legacy = d.state == "data" && len(d.salt) == 0
			return fileT, d, openedBy, plain, true
		}
		dead := st.noLoad
		if step.Kind == "export" {
			dead = st.noExport
		}
		rightPass := st.key != nil && !dead && bytes.Equal(step.Pass, st.sealPass)
		legacyTwin := st.key != nil && !dead && !rightPass && st.legacy && sameLegacyKey(step.Pass, st.sealPass)
		if len(step.Pass) > 0 || step.Kind == "load" || step.Kind == "export" {
			st.used = append(st.used, cp(step.Pass))
		}
		kinds = append(kinds, step.Kind+":"+step.PassKind)

		switch step.Kind {
		case "load":
			s, o := safeLoad(dir, step.Pass)
			resT := "(RSigner " + outcomeTerm(o, "") + ")"
			sigOK, addrOK := false, false
			switch {
			case o.class == "panic":
				res.fail("panic-other", fmt.Sprintf("LoadFileSystemSigner panicked at %s of a history: %s", after, o.msg))
			case o.class == "ok":
				var cands [][]byte
				if st.key != nil {
					cands = append(cands, st.plain)
				}
				f := facts(s, msg, cands)
				sigOK, addrOK = f.sigOK, f.addrOK
				resT = fmt.Sprintf("(RSigner (Ok (mk_signer %s %s)))", in.b(f.privIs), in.b(f.pub))
				if f.panicked != "" {
					res.fail("panic-other", "loaded signer panicked: "+f.panicked)
				}
				if !f.sigOK {
					res.fail("loaded-signer-signature-invalid", fmt.Sprintf("at %s: signature of the loaded signer does not verify under the public key it reports", after))
				}
				if !f.addrOK {
					res.fail("address-differs", "loaded signer's address is not the one derived from its public key by types.KeyAddress / types.NewSigner")
				}
				if f.privIs != nil && f.sigOK && !f.noopSame {
					res.fail("noop-signer-differs", "noop signer of the same private key reports another public key/address")
				}
				switch {
				case rightPass:
					if f.privIs == nil || !bytes.Equal(f.pub, st.key[32:64]) {
						res.fail("roundtrip-changes-key", fmt.Sprintf("at %s: the loaded signer is not the key sealed in the file", after))
					}
				case legacyTwin:
					res.fail("legacy-passphrase-only-first-32-bytes-count", fmt.Sprintf("legacy salt-less file sealed under a %d-byte passphrase loads with a different %d-byte passphrase deriving the same legacy key", len(st.sealPass), len(step.Pass)))
				case st.key != nil && dead:
					res.fail("damaged-key-file-loads", fmt.Sprintf("at %s: a key file that was damaged after it was written (%s; it now %s) yields a usable signer with a %s passphrase", after, st.damageWhat, st.lastDesc.stateWord(), step.PassKind))
				default:
					res.fail("wrong-passphrase-loads", fmt.Sprintf("at %s: file sealed under a %d-byte passphrase loads with a different (%s) passphrase", after, len(st.sealPass), step.PassKind))
				}
				if f.privIs != nil {
					st.signer, st.signerK = s, f.privIs
				}
			case rightPass:
				res.fail("roundtrip-fails", fmt.Sprintf("at %s: the key file does not load with the passphrase it was sealed with: %s", after, o.msg))
			}
			fileT, _, _, _, changed := settle(nil)
			emit(fmt.Sprintf("(HLoad %s)", in.b(step.Pass)), resT, sigOK, addrOK, fileT)
			if changed {
				st.probe(st.text, msg, after, "load-changes-what-opens-key-file", "load-changes-what-opens-key-file")
			}

		case "export":
			pt, o := safeExport(dir, step.Pass)
			resT := "(RBytes " + outcomeTerm(o, "") + ")"
			switch {
			case o.class == "panic":
				res.fail("panic-other", fmt.Sprintf("ExportPrivateKey panicked at %s of a history: %s", after, o.msg))
			case o.class == "ok":
				resT = fmt.Sprintf("(RBytes (Ok %s))", in.b(pt))
				switch {
				case rightPass:
				case legacyTwin:
					res.fail("legacy-passphrase-only-first-32-bytes-count", fmt.Sprintf("legacy salt-less file sealed under a %d-byte passphrase exports with a different passphrase deriving the same legacy key", len(st.sealPass)))
				case st.key != nil && dead:
					res.fail("damaged-key-file-loads", fmt.Sprintf("at %s: ExportPrivateKey returns a private key from a key file that was damaged after it was written (%s; it now %s), with a %s passphrase", after, st.damageWhat, st.lastDesc.stateWord(), step.PassKind))
				default:
					res.fail("wrong-passphrase-loads", fmt.Sprintf("at %s: ExportPrivateKey succeeds with a different (%s) passphrase", after, step.PassKind))
				}
				if st.key != nil && !dead && !bytes.Equal(pt, st.plain) {
					res.fail("export-returns-other-bytes", "ExportPrivateKey returned bytes other than the sealed private key")
				}
				st.exported = cp(pt)
			case rightPass:
				res.fail("roundtrip-fails", fmt.Sprintf("at %s: ExportPrivateKey fails with the passphrase the file was sealed with: %s", after, o.msg))
			}
			fileT, _, _, _, changed := settle(nil)
			emit(fmt.Sprintf("(HExport %s)", in.b(step.Pass)), resT, false, false, fileT)
			if changed {
				st.probe(st.text, msg, after, "load-changes-what-opens-key-file", "load-changes-what-opens-key-file")
			}

		case "import-exported", "import-new", "import-bad":
			priv := step.Priv
			if step.Kind == "import-exported" {
				if st.exported == nil {
					kinds[len(kinds)-1] = "skipped"
					continue
				}
				priv = st.exported
			}
			o := safeImport(dir, priv, step.Pass)
			if o.class == "panic" {
				res.fail("panic-other", fmt.Sprintf("ImportPrivateKey panicked at %s of a history: %s", after, o.msg))
			}
			valid := len(priv) == 64 || (len(priv) == 96 && bytes.Equal(priv[32:64], priv[64:96]))
			var expected []byte
			if o.class == "ok" {
				expected = step.Pass
				if expected == nil {
					expected = []byte{}
				}
			}
			fileT, d, openedBy, plain, changed := settle(expected)
			resT := "(RDone " + outcomeTerm(o, "tt") + ")"
			salt, nonce := []byte{}, []byte{}
			if o.class == "ok" && changed && d.state == "data" {
				salt, nonce = d.salt, d.nonce
			}
			emit(fmt.Sprintf("(HImport %s %s %s %s)", in.b(priv), in.b(step.Pass), in.b(salt), in.b(nonce)), resT, false, false, fileT)
			switch {
			case o.class == "ok":
				if !valid {
					res.fail("import-accepts-bytes-that-are-no-key", fmt.Sprintf("ImportPrivateKey accepted %d bytes that are not an Ed25519 private key", len(priv)))
					break
				}
				if d.state != "data" || len(d.salt) != 16 || len(d.nonce) != 12 {
					res.fail("import-salt-nonce-size", fmt.Sprintf("at %s: ImportPrivateKey wrote a %d-byte salt / %d-byte nonce (want 16 / 12) or an undecodable file", after, len(d.salt), len(d.nonce)))
				}
				if openedBy == nil || !bytes.Equal(openedBy, expected) || !bytes.Equal(plain, priv) {
					res.fail("export-import-over-existing-file-loses-key", fmt.Sprintf("at %s: the file ImportPrivateKey wrote over the existing one does not decrypt, under the import passphrase, to the key it was given", after))
				}
				if !bytes.Equal(st.sealPass, expected) {
					st.prevPass = st.sealPass
				}
				st.sealPass, st.plain, st.key = cp(expected), cp(priv), cp(priv[:64])
				st.noLoad, st.noExport = false, false
				st.probe(st.text, msg, after, "export-import-over-existing-file-loses-key", "resealed-file-opens-with-another-passphrase")
			default:
				if valid && o.class != "panic" {
					res.fail("export-import-fails", fmt.Sprintf("at %s: ImportPrivateKey refuses a valid %d-byte key: %s", after, len(priv), o.msg))
				}
				if changed {
					res.fail("failed-import-changes-key-file", fmt.Sprintf("at %s: ImportPrivateKey returned an error (%s) but the key file changed", after, o.msg))
					st.probe(st.text, msg, after, "failed-import-changes-key-file", "failed-import-changes-key-file")
				}
			}

		case "create":
			var created signer.Signer
			var cerr error
			o := outcome{class: "ok"}
			func() {
				defer func() {
					if p := recover(); p != nil {
						o = outcome{class: "panic", msg: fmt.Sprint(p)}
					}
				}()
				created, cerr = file.CreateFileSystemSigner(dir, cp(step.Pass))
			}()
			if o.class == "ok" && cerr != nil {
				o = outcome{class: errClass(cerr), msg: cerr.Error()}
			}
			if o.class == "panic" {
				res.fail("panic-other", "CreateFileSystemSigner panicked: "+o.msg)
			}
			var expected []byte
			if o.class == "ok" {
				expected = step.Pass
				if expected == nil {
					expected = []byte{}
				}
			}
			existed := before != nil
			fileT, d, openedBy, plain, changed := settle(expected)
			resT := "(RDone " + outcomeTerm(o, "tt") + ")"
			sg, salt, nonce := "(mk_signer [] [])", []byte{}, []byte{}
			switch {
			case o.class == "ok" && existed:
				res.fail("create-overwrites-existing-key-file", fmt.Sprintf("at %s: CreateFileSystemSigner succeeded on a path that already holds a key file", after))
			case o.class == "ok":
				if openedBy == nil || len(plain) != 64 || !bytes.Equal(plain[32:], d.pub) || len(d.salt) != 16 || len(d.nonce) != 12 {
					res.fail("create-writes-unreadable-file", fmt.Sprintf("at %s: the file CreateFileSystemSigner wrote does not decrypt under its passphrase to a matching key (or salt/nonce sizes differ from 16/12)", after))
					break
				}
				sg, salt, nonce = fmt.Sprintf("(mk_signer %s %s)", in.b(plain), in.b(d.pub)), d.salt, d.nonce
				st.sealPass, st.plain, st.key, st.prevPass = cp(expected), cp(plain), cp(plain[:64]), nil
				st.noLoad, st.noExport = false, false
				cf := facts(created, msg, [][]byte{plain})
				if cf.privIs == nil || !cf.sigOK || !cf.addrOK || !bytes.Equal(cf.pub, d.pub) {
					res.fail("create-signer-differs-from-file", "the signer returned by CreateFileSystemSigner is not the key it wrote")
				} else {
					st.signer, st.signerK = created, cf.privIs
				}
				st.probe(st.text, msg, after, "roundtrip-fails", "wrong-passphrase-loads")
			case !existed && o.class != "panic":
				res.fail("create-fails", fmt.Sprintf("CreateFileSystemSigner failed on a free path: %s", o.msg))
			case changed:
				res.fail("create-overwrites-existing-key-file", fmt.Sprintf("at %s: CreateFileSystemSigner returned an error (%s) but the existing key file changed", after, o.msg))
				st.probe(st.text, msg, after, "create-overwrites-existing-key-file", "create-overwrites-existing-key-file")
			}
			emit(fmt.Sprintf("(HCreate %s %s %s %s)", sg, in.b(step.Pass), in.b(salt), in.b(nonce)), resT, false, false, fileT)

		case "damage":
			if before == nil || step.Damage == nil {
				kinds[len(kinds)-1] = "skipped"
				continue
			}
			kinds[len(kinds)-1] = "damage:" + step.Damage.Kind
			nt, del := applyDamage(before, *step.Damage)
			path := filepath.Join(dir, "signer.json")
			var werr error
			if del {
				werr = os.Remove(path)
			} else {
				werr = os.WriteFile(path, nt, 0o600)
			}
			if werr != nil {
				res.err = werr
				return res
			}
			prevD, prevCt := st.lastDesc, st.lastCt
			t := st.readBack()
			d := describe(t, t == nil)
			fileT := "FAbsent"
			switch d.state {
			case "badjson":
				fileT = "FBadJson"
			case "data":
				// a ciphertext field that still holds the bytes it held keeps its label; changed bytes are bytes no key opens
				ct := "CJunk"
				if prevD.state == "data" && bytes.Equal(d.ct, prevD.ct) {
					ct = prevCt
				}
				fileT = fmt.Sprintf("(FData (mk_kd %s %s %s %s))", ct, in.b(d.nonce), in.b(d.pub), in.b(d.salt))
				st.lastCt = ct
			}
			if d.state != "data" {
				st.lastCt = "CJunk"
			}
			st.lastDesc, st.text, st.term = d, t, fileT
			st.legacy = d.state == "data" && len(d.salt) == 0
			if !sameFields(prevD, d) {
				st.noLoad = true
				st.damageWhat = fmt.Sprintf("fault %q at step %d", step.Damage.Kind, si+1)
				if !(d.state == "data" && prevD.state == "data" && bytes.Equal(d.ct, prevD.ct) && bytes.Equal(d.nonce, prevD.nonce) && bytes.Equal(d.salt, prevD.salt)) {
					st.noExport = true
				}
			}
			emit("(HDamage "+fileT+")", "(RDone (Ok tt))", false, false, fileT)

		case "sign":
			if st.signer == nil {
				kinds[len(kinds)-1] = "skipped"
				continue
			}
			if c := runSession(st, step.Sign, after); c != "" {
				sessions = append(sessions, c)
			}

		default:
			res.err = fmt.Errorf("unknown history step %q", step.Kind)
			return res
		}
	}
	res.outClass = "history"
	res.histKinds = kinds
	if len(ops) > 0 {
		res.coq = append(res.coq, fmt.Sprintf("mk_case (OpHistory %s [%s]) (ObHistory [%s])", f0, strings.Join(ops, "; "), strings.Join(obs, "; ")))
	}
	res.coq = append(res.coq, sessions...)
	res.defs = append(res.defs, in.module())
	return res
}

// runSession: Sign called again and again on one loaded signer. Every signature is checked, for the bytes the
// message held at the time of the call, under the key GetPublic reports at that time, and compared with the
// (deterministic) Ed25519 signature of those bytes under the key sealed in the file.
func runSession(st *histState, sops []SignOp, after string) string {
	res, in := st.res, st.in
	s, key := st.signer, st.signerK
	var o outcome
	var msgs, sigs [][]byte
	var terms []string
	func() {
		defer func() {
			if p := recover(); p != nil {
				o = outcome{class: "panic", msg: fmt.Sprint(p)}
			}
		}()
		pk0, _ := s.GetPublic()
		raw0, _ := pk0.Raw()
		addr0, _ := s.GetAddress()
		var buf []byte
		for _, op := range sops {
			var m []byte // the slice handed to Sign
			switch op.Kind {
			case "new":
				buf = cp(op.Data)
				m = buf
				terms = append(terms, fmt.Sprintf("SNew %s", in.b(op.Data)))
			case "patch":
				off := op.Off
				if off > len(buf) {
					off = len(buf)
				}
				copy(buf[off:], op.Data)
				m = buf
				terms = append(terms, fmt.Sprintf("SPatch %s %s", vgen.Nat(off), in.b(op.Data)))
			case "resign":
				m = buf
				terms = append(terms, "SResign")
			case "prefix":
				n := op.Off
				if n > len(buf) {
					n = len(buf)
				}
				m = buf[:n]
				terms = append(terms, fmt.Sprintf("SPrefix %s", vgen.Nat(n)))
			default: // fresh
				m = cp(op.Data)
				terms = append(terms, fmt.Sprintf("SFresh %s", in.b(op.Data)))
			}
			content := cp(m)
			sig, err := s.Sign(m)
			if err != nil {
				res.fail("loaded-signer-sign-fails", fmt.Sprintf("Sign returned an error on a loaded signer: %v", err))
				sig = nil
			}
			if !bytes.Equal(m, content) {
				res.fail("sign-modifies-message", "Sign changed the bytes of the caller's message")
			}
			msgs = append(msgs, content)
			sigs = append(sigs, cp(sig))
			// the returned slice is the caller's: scribble over it (a signer must not hand out memory it keeps using)
			for i := range sig {
				sig[i] = 0xee
			}
		}
		pk1, _ := s.GetPublic()
		raw1, _ := pk1.Raw()
		addr1, _ := s.GetAddress()
		if !bytes.Equal(raw0, raw1) || !bytes.Equal(addr0, addr1) {
			res.fail("signer-identity-changes-while-signing", "GetPublic / GetAddress report something else after a signing session")
		}
		var obsT []string
		for i := range msgs {
			ok, err := pk1.Verify(msgs[i], sigs[i])
			ok = ok && err == nil
			origin := 9999
			for j := range msgs {
				if bytes.Equal(ed25519.Sign(ed25519.PrivateKey(key), msgs[j]), sigs[i]) {
					origin = j
					break
				}
			}
			if !ok {
				if origin != 9999 && !bytes.Equal(msgs[origin], msgs[i]) {
					res.fail("signature-of-earlier-message-returned", fmt.Sprintf("%s, Sign call %d (%s) on one signer: the signature returned is the signature of the bytes signed by call %d, not of the bytes the message holds now; it does not verify under the public key the signer reports", after, i+1, sops[i].Kind, origin+1))
				} else {
					res.fail("loaded-signer-signature-invalid", fmt.Sprintf("%s, Sign call %d (%s): the signature does not verify under the public key the signer reports", after, i+1, sops[i].Kind))
				}
			}
			obsT = append(obsT, fmt.Sprintf("(%s, %d%%N)", vgen.Bool(ok), origin))
		}
		for i := range terms {
			terms[i] = "(" + terms[i] + ")"
		}
		o = outcome{class: "ok", msg: strings.Join(obsT, "; ")}
	}()
	if o.class == "panic" {
		res.fail("panic-other", "a signing session on a loaded signer panicked: "+o.msg)
		return ""
	}
	if len(terms) == 0 {
		return ""
	}
	return fmt.Sprintf("mk_case (OpSession (mk_signer %s %s) [%s]) (ObSession [%s])", in.b(key), in.b(key[32:64]), strings.Join(terms, "; "), o.msg)
}

// ---- generator ---------------------------------------------------------------------------------------------

var histPassKinds = []string{"right", "right", "right", "right", "zero-same-len", "zero-same-len", "empty", "long-33", "long-4096", "prefix", "bit-flip", "previous", "extension", "unrelated", "plus-linebreak", "plus-linebreak", "minus-linebreak"}

var lineBreaks = []string{"\n", "\r\n", "\n\n", "\r", "\n\r\n"}

// withLineBreak: one time in four the passphrase ends in a line break (LF, CRLF, ...), the way a passphrase
// read from a file or piped in does; such bytes are part of the passphrase like any others.
func withLineBreak(r *rand.Rand, p []byte) []byte {
	if r.Intn(4) == 0 {
		return append(cp(p), lineBreaks[r.Intn(len(lineBreaks))]...)
	}
	return p
}

func genDamage(r *rand.Rand) *Damage {
	switch k := r.Intn(100); {
	case k < 30:
		return &Damage{Kind: "trunc", Pos: r.Intn(1 << 16)}
	case k < 40:
		return &Damage{Kind: "empty"}
	case k < 50:
		return &Damage{Kind: "delete"}
	case k < 70:
		return &Damage{Kind: "struct", Pos: r.Intn(1 << 16), Byte: substByte(r, 2, 0)}
	case k < 90:
		return &Damage{Kind: "value", Pos: r.Intn(1 << 16), Byte: substByte(r, 1, 0)}
	}
	raws := []string{"{}", "null", "not json", "{\"salt\":\"\"}", "[]", "{\"nonce\":\"AAAAAAAAAAAAAAAA\"}"}
	return &Damage{Kind: "raw", Raw: []byte(raws[r.Intn(len(raws))])}
}

func histPass(r *rand.Rand, kind string, seal, prev []byte) ([]byte, string) {
	var p []byte
	switch kind {
	case "right":
		return cp(seal), kind
	case "zero-same-len":
		p = zeros(len(seal))
	case "empty":
		p = []byte{}
	case "long-33":
		p = genPass(r, 33)
	case "long-4096":
		p = genPass(r, 4096)
	case "prefix":
		if len(seal) > 0 {
			p = cp(seal[:len(seal)-1])
		}
	case "bit-flip":
		if len(seal) > 0 {
			p = cp(seal)
			p[r.Intn(len(p))] ^= 1 << uint(r.Intn(8))
		}
	case "previous":
		p = cp(prev)
	case "extension":
		p = append(cp(seal), byte(r.Intn(256)))
	case "plus-linebreak":
		p = append(cp(seal), lineBreaks[r.Intn(len(lineBreaks))]...)
	case "minus-linebreak":
		if t := bytes.TrimRight(seal, "\r\n"); len(t) < len(seal) {
			p = cp(t)
			if r.Intn(3) == 0 { // one line break less, not all of them
				p = cp(seal[:len(seal)-1])
			}
		} else {
			p, kind = append(cp(seal), '\n'), "plus-linebreak"
		}
	}
	if p == nil {
		p, kind = rbytes(r, 1+r.Intn(20)), "unrelated"
	}
	if bytes.Equal(p, seal) {
		return cp(seal), "right"
	}
	return p, kind
}

func genSignOps(r *rand.Rand) []SignOp {
	lens := []int{0, 1, 8, 16, 16, 32, 48}
	n := 3 + r.Intn(6)
	var ops []SignOp
	bl := -1
	for i := 0; i < n; i++ {
		k := r.Intn(100)
		switch {
		case bl < 0 || k < 15:
			bl = lens[r.Intn(len(lens))]
			if bl == 0 && r.Intn(3) > 0 {
				bl = 16
			}
			ops = append(ops, SignOp{Kind: "new", Data: rbytes(r, bl)})
		case k < 60:
			off := 0
			if bl > 0 {
				off = r.Intn(bl)
			}
			l := 1
			if bl-off > 1 {
				l = 1 + r.Intn(bl-off)
			}
			if r.Intn(6) == 0 {
				l += 1 + r.Intn(4) // longer than what is left of the buffer: copy truncates
			}
			ops = append(ops, SignOp{Kind: "patch", Off: off, Data: rbytes(r, l)})
		case k < 72:
			ops = append(ops, SignOp{Kind: "resign"})
		case k < 82:
			ops = append(ops, SignOp{Kind: "prefix", Off: r.Intn(bl + 1)})
		default:
			ops = append(ops, SignOp{Kind: "fresh", Data: rbytes(r, lens[r.Intn(len(lens))])})
		}
	}
	return ops
}

// genHist: a history over one path. b == nil: the path is free and the first step creates the file.
func genHist(r *rand.Rand, seed int64, c int, b *baseInfo) History {
	h := History{Seed: seed, Case: c, Op: "history", Mut: Mut{Kind: "none"}}
	var seal, prev []byte
	loaded := false
	if b == nil {
		h.BaseKind = "absent"
		seal = withLineBreak(r, genPass(r, []int{0, 1, 10, 31, 32, 33, 4096}[r.Intn(7)]))
		h.Steps = append(h.Steps, HStep{Kind: "create", Pass: cp(seal), PassKind: "new"})
		loaded = true
	} else {
		h.BaseKind, h.SavePass, h.BaseFile = b.kind, cp(b.pass), cp(b.text)
		seal = cp(b.pass)
	}
	load := func(kind string) {
		p, k := histPass(r, kind, seal, prev)
		h.Steps = append(h.Steps, HStep{Kind: "load", Pass: p, PassKind: k})
		if k == "right" {
			loaded = true
		}
	}
	if r.Intn(10) < 6 {
		load("right")
	}
	// gone: a fault has removed the file (a create works again); dead: a fault has damaged it since it was last sealed
	gone, dead := false, false
	rotate := func() {
		priv, _ := newKey(r)
		np := withLineBreak(r, genPass(r, []int{0, 1, 8, 32, 33}[r.Intn(5)]))
		if r.Intn(4) == 0 {
			np = cp(seal) // a new key under the passphrase in force
		}
		h.Steps = append(h.Steps, HStep{Kind: "import-new", Pass: cp(np), PassKind: "new", Priv: priv})
		if !bytes.Equal(np, seal) {
			prev = seal
		}
		seal = np
		loaded, gone, dead = false, false, false
	}
	damage := func() {
		d := genDamage(r)
		h.Steps = append(h.Steps, HStep{Kind: "damage", Damage: d})
		if !gone {
			dead = true
		}
		if d.Kind == "delete" {
			gone = true
		}
		loaded = false
	}
	n := 2 + r.Intn(6)
	for i := 0; i < n; i++ {
		switch k := r.Intn(110); {
		case k >= 100: // a fault strikes the file, then the operator tries what he knows
			damage()
			load("right")
			if r.Intn(2) == 0 {
				load("previous")
			}
		case k < 36:
			load(histPassKinds[r.Intn(len(histPassKinds))])
		case k < 50:
			p, pk := histPass(r, histPassKinds[r.Intn(len(histPassKinds))], seal, prev)
			h.Steps = append(h.Steps, HStep{Kind: "export", Pass: p, PassKind: pk})
		case k < 64 && (dead || gone): // nothing to export from: a new key is imported over what is left
			rotate()
		case k < 64: // re-seal: export with the right passphrase, import what came out under a new one, over the same path
			np := withLineBreak(r, genPass(r, []int{0, 1, 8, 31, 32, 33, 100, 4096}[r.Intn(8)]))
			if r.Intn(8) == 0 {
				np = zeros(1 + r.Intn(40))
			}
			h.Steps = append(h.Steps, HStep{Kind: "export", Pass: cp(seal), PassKind: "right"}, HStep{Kind: "import-exported", Pass: cp(np), PassKind: "new"})
			if !bytes.Equal(np, seal) {
				prev = seal
			}
			seal = np
		case k < 70:
			rotate()
		case k < 76:
			bad := rbytes(r, []int{0, 32, 63, 65, 96}[r.Intn(5)]) // 96 random bytes: the redundant public key does not match
			h.Steps = append(h.Steps, HStep{Kind: "import-bad", Pass: genPass(r, 8), PassKind: "new", Priv: bad})
		case k < 82:
			p, pk := histPass(r, []string{"right", "unrelated", "empty"}[r.Intn(3)], seal, prev)
			h.Steps = append(h.Steps, HStep{Kind: "create", Pass: p, PassKind: pk})
			if gone { // the path is free again: this create seals a new key
				if !bytes.Equal(p, seal) {
					prev = seal
				}
				seal, gone, dead, loaded = cp(p), false, false, true
			}
		default:
			if !loaded {
				load("right")
			}
			h.Steps = append(h.Steps, HStep{Kind: "sign", Sign: genSignOps(r)})
		}
	}
	// a key rotation, then a fault on the file, then the operator tries the passphrases he knows (the one in
	// force, the one in force before the rotation), to load and to export; then (sometimes) a new key is imported
	if r.Intn(100) < 45 {
		for k := r.Intn(3); k > 0 || gone; k-- {
			rotate()
			if r.Intn(3) == 0 {
				load("right")
			}
		}
		damage()
		for _, k := range []string{"right", "previous"} {
			load(k)
		}
		p, pk := histPass(r, []string{"right", "previous"}[r.Intn(2)], seal, prev)
		h.Steps = append(h.Steps, HStep{Kind: "export", Pass: p, PassKind: pk})
		if r.Intn(3) == 0 {
			rotate()
			load("previous")
		}
	}
	// the way a node restarts: load with what the operator knows, then sign
	load("zero-same-len")
	load("right")
	h.Steps = append(h.Steps, HStep{Kind: "sign", Sign: genSignOps(r)})
	return h
}

// shrinkHistory drops steps (and Sign calls) one at a time while the same signature keeps failing on the real
// code; bounded, because every attempt re-runs the key derivations.
func shrinkHistory(h History, sig string) History {
	cur := h
	budget := 40
	fails := func(c History) bool {
		if budget <= 0 {
			return false
		}
		budget--
		r := runCase(c, caseRng(c.Seed, c.Case))
		return r.err == nil && hasSig(r, sig)
	}
	cur.Steps = vgen.Shrink(cur.Steps, func(s []HStep) bool { c := cur; c.Steps = s; return fails(c) })
	for i := range cur.Steps {
		if cur.Steps[i].Kind != "sign" {
			continue
		}
		i := i
		ops := vgen.Shrink(cur.Steps[i].Sign, func(s []SignOp) bool {
			c := cur
			c.Steps = append([]HStep{}, cur.Steps...)
			c.Steps[i].Sign = s
			return fails(c)
		})
		cur.Steps = append([]HStep{}, cur.Steps...)
		cur.Steps[i].Sign = ops
	}
	return cur
}
