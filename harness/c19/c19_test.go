// C19 correspondence harness: the REAL pkg/signer/file functions (CreateFileSystemSigner,
// LoadFileSystemSigner, ExportPrivateKey, ImportPrivateKey), pkg/signer/noop and types.KeyAddress /
// types.NewSigner are driven on key files made by the real code (and hand-built legacy salt-less
// files), on single-byte substitutions, truncations and field-level corruptions of them, with right
// and wrong passphrases (empty, 1, 31, 32, 33, 4096 bytes).  recover() turns a panic into an outcome.
// Each (possibly corrupted) file is re-parsed with the package's own keyData type (hook
// pkg/signer/file/verif_export_c19.go) to obtain its abstract description, on which the Coq model
// (Model/KeyFile.v, symbolic crypto of Check/KeyFileCheck.v) is evaluated.  Writes cases_C19.v and
// result.json (Go oracle = the property evaluated directly on what the implementation did).
// Multi-step histories over one path and signing sessions on the loaded signers: c19_history_test.go.
package c19

import (
	"bytes"
	"crypto/aes"
	"crypto/cipher"
	"crypto/ed25519"
	"crypto/sha256"
	"fmt"
	"math/rand"
	"os"
	"path/filepath"
	"strings"
	"sync"
	"testing"

	"github.com/libp2p/go-libp2p/core/crypto"

	"github.com/evstack/ev-node/pkg/signer"
	"github.com/evstack/ev-node/pkg/signer/file"
	"github.com/evstack/ev-node/pkg/signer/noop"
	"github.com/evstack/ev-node/types"

	"verif/harness/vgen"
)

// ---- histories -----------------------------------------------------------------------------

type Mut struct {
	Kind  string `json:"kind"`            // none | subst | trunc | field | raw | absent
	Pos   int    `json:"pos,omitempty"`   // subst: position; trunc: number of bytes kept
	Byte  int    `json:"byte,omitempty"`  // subst: replacement byte
	Field string `json:"field,omitempty"` // field: ct | nonce | pub | salt
	Val   []byte `json:"val,omitempty"`   // field: new decoded value; raw: file text
	Null  bool   `json:"null,omitempty"`  // field: value is nil (null / omitted)
}

type History struct {
	Seed     int64   `json:"seed"`
	Case     int     `json:"case"`
	BaseKind string  `json:"base_kind"` // create | import | import96 | legacy
	SavePass []byte  `json:"save_pass"` // passphrase the base file was saved under
	BaseFile []byte  `json:"base_file"` // the file text produced by the real code (replayed verbatim); empty = make a new one
	Mut      Mut     `json:"mut"`
	Op       string  `json:"op"`   // load | export | export-import (import into Target, then load) | create-load | history (Steps, see c19_history_test.go)
	Pass     []byte  `json:"pass"` // passphrase given to the operation
	Pass2    []byte  `json:"pass2,omitempty"`
	Target   Target  `json:"target,omitempty"` // export-import: what is at the import path before ImportPrivateKey runs
	Steps    []HStep `json:"steps,omitempty"`  // history: the operations applied one after the other to ONE path (BaseKind "absent": the path is free)
}

// Target describes the directory ImportPrivateKey writes into.  Kind "" / "fresh" = an empty directory.
type Target struct {
	Kind string `json:"kind,omitempty"` // fresh | current-same-pass | current-other-pass | legacy | salt-removed | corrupted | truncated | empty-file | json-empty-object | json-null | unrelated-files | source-path
	File []byte `json:"file,omitempty"` // text of the pre-existing signer.json (replayed verbatim)
}

var targetKinds = []string{"fresh", "current-same-pass", "current-other-pass", "legacy", "salt-removed", "corrupted", "truncated", "empty-file", "json-empty-object", "json-null", "unrelated-files", "source-path"}

// genTarget fills in a pre-existing file of the given kind from the bases of the run; it may set Pass2
// (current-same-pass: the import passphrase is the one the existing file was saved under).
func genTarget(r *rand.Rand, kind string, h *History, bases []*baseInfo) {
	var cur, leg []*baseInfo
	for _, b := range bases {
		if len(b.salt) > 0 {
			cur = append(cur, b)
		} else {
			leg = append(leg, b)
		}
	}
	h.Target = Target{Kind: kind}
	if len(cur) == 0 || len(leg) == 0 {
		h.Target.Kind = "fresh"
		return
	}
	c := cur[r.Intn(len(cur))]
	switch kind {
	case "current-same-pass":
		h.Target.File = cp(c.text)
		h.Pass2 = cp(c.pass)
	case "current-other-pass":
		h.Target.File = cp(c.text)
	case "legacy":
		h.Target.File = cp(leg[r.Intn(len(leg))].text)
	case "salt-removed":
		t, err := file.VerifC19MarshalKeyData(c.ct, c.nonce, c.pub, nil)
		if err != nil {
			panic(err)
		}
		h.Target.File = t
	case "corrupted":
		t := cp(c.text)
		pos := r.Intn(len(t))
		t[pos] = byte(substByte(r, r.Intn(3), t[pos]))
		h.Target.File = t
	case "truncated":
		h.Target.File = cp(c.text[:r.Intn(len(c.text))])
	case "empty-file":
		h.Target.File = []byte{}
	case "json-empty-object":
		h.Target.File = []byte("{}")
	case "json-null":
		h.Target.File = []byte("null")
	}
}

// prepareTarget builds the directory ImportPrivateKey is pointed at. srcDir = the directory holding the file
// the key was exported from (kind source-path: import over that very file, the in-place migration).
func prepareTarget(tg Target, srcDir string) (dir string, cleanup func(), err error) {
	if tg.Kind == "source-path" {
		return srcDir, func() {}, nil
	}
	dir, err = os.MkdirTemp("", "c19-imp-")
	if err != nil {
		return "", nil, err
	}
	cleanup = func() { os.RemoveAll(dir) }
	switch tg.Kind {
	case "", "fresh":
	case "unrelated-files":
		_ = os.WriteFile(filepath.Join(dir, "signer.json.bak"), []byte("{\"salt\":\"\"}"), 0o600)
		_ = os.WriteFile(filepath.Join(dir, "node_key.json"), []byte("{}"), 0o600)
		err = os.Mkdir(filepath.Join(dir, "data"), 0o700)
	default:
		err = os.WriteFile(filepath.Join(dir, "signer.json"), tg.File, 0o600)
	}
	return dir, cleanup, err
}

func cp(b []byte) []byte { return append([]byte{}, b...) }

// ---- bases: key files made by the real code ------------------------------------------------------

type baseInfo struct {
	kind                 string
	pass                 []byte
	text                 []byte
	ct, nonce, pub, salt []byte
	priv                 []byte // plaintext sealed in ct (64 or 96 bytes), obtained by the harness's own decryption
	rawKey               []byte // legacy: the 32 raw key bytes used
	name                 string // Coq module name
}

func gcmOpen(key, nonce, ct []byte) ([]byte, bool) {
	blk, err := aes.NewCipher(key)
	if err != nil || len(nonce) != 12 {
		return nil, false
	}
	g, err := cipher.NewGCM(blk)
	if err != nil {
		return nil, false
	}
	pt, err := g.Open(nil, nonce, ct, nil)
	return pt, err == nil
}

func gcmSeal(key, nonce, pt []byte) []byte {
	blk, err := aes.NewCipher(key)
	if err != nil {
		panic(err)
	}
	g, err := cipher.NewGCM(blk)
	if err != nil {
		panic(err)
	}
	return g.Seal(nil, nonce, pt, nil)
}

func newKey(r *rand.Rand) (priv []byte, pub []byte) {
	seed := make([]byte, 32)
	r.Read(seed)
	k := ed25519.NewKeyFromSeed(seed)
	return []byte(k), []byte(k[32:])
}

// makeBase creates a key file with the real code (or hand-builds a legacy one) and returns its text.
func makeBase(kind string, pass []byte, r *rand.Rand) ([]byte, error) {
	dir, err := os.MkdirTemp("", "c19-base-")
	if err != nil {
		return nil, err
	}
	defer os.RemoveAll(dir)
	switch kind {
	case "create":
		if _, err := file.CreateFileSystemSigner(dir, cp(pass)); err != nil {
			return nil, err
		}
	case "import", "import96":
		priv, pub := newKey(r)
		if kind == "import96" {
			priv = append(cp(priv), pub...)
		}
		if err := file.ImportPrivateKey(dir, cp(priv), cp(pass)); err != nil {
			return nil, err
		}
	case "legacy":
		priv, pub := newKey(r)
		key, panicked := file.VerifC19FallbackDeriveKey(pass)
		if panicked {
			return nil, fmt.Errorf("legacy base with a passphrase the legacy derivation panics on")
		}
		nonce := make([]byte, 12)
		r.Read(nonce)
		txt, err := file.VerifC19MarshalKeyData(gcmSeal(key, nonce, priv), nonce, pub, nil)
		return txt, err
	default:
		return nil, fmt.Errorf("unknown base kind %q", kind)
	}
	return os.ReadFile(filepath.Join(dir, "signer.json"))
}

var (
	baseMu    sync.Mutex
	baseCache = map[string]*baseInfo{}
)

// analyse labels a base file: decodes it and decrypts it with the harness's own AES-GCM under the key
// derived from the saving passphrase, so that the symbolic description handed to Coq is verified.
func analyse(kind string, pass, text []byte) (*baseInfo, error) {
	k := kind + "\x00" + string(pass) + "\x00" + string(text)
	baseMu.Lock()
	if b, ok := baseCache[k]; ok {
		baseMu.Unlock()
		return b, nil
	}
	baseMu.Unlock()
	b := &baseInfo{kind: kind, pass: cp(pass), text: cp(text)}
	var err error
	b.ct, b.nonce, b.pub, b.salt, err = file.VerifC19ParseKeyData(text)
	if err != nil {
		return nil, fmt.Errorf("base file does not parse: %w", err)
	}
	var key []byte
	if len(b.salt) == 0 {
		var p bool
		key, p = file.VerifC19FallbackDeriveKey(pass)
		if p {
			return nil, fmt.Errorf("legacy derivation panicked on base passphrase")
		}
		b.rawKey = key
	} else {
		key = file.VerifC19DeriveKeyArgon2(pass, b.salt)
	}
	pt, ok := gcmOpen(key, b.nonce, b.ct)
	if !ok {
		return nil, fmt.Errorf("base file (%s) does not decrypt under its own passphrase", kind)
	}
	b.priv = pt
	baseMu.Lock()
	baseCache[k] = b
	baseMu.Unlock()
	return b, nil
}

// ---- abstract description of a (possibly corrupted) file ------------------------------------------

type desc struct {
	state                string // absent | badjson | data
	ct, nonce, pub, salt []byte
}

func describe(text []byte, absent bool) desc {
	if absent {
		return desc{state: "absent"}
	}
	ct, nonce, pub, salt, err := file.VerifC19ParseKeyData(text)
	if err != nil {
		return desc{state: "badjson"}
	}
	return desc{state: "data", ct: ct, nonce: nonce, pub: pub, salt: salt}
}

func (d desc) sameAs(b *baseInfo) bool {
	return d.state == "data" && bytes.Equal(d.ct, b.ct) && bytes.Equal(d.nonce, b.nonce) && bytes.Equal(d.pub, b.pub) && bytes.Equal(d.salt, b.salt)
}

func applyMut(b *baseInfo, m Mut) (text []byte, absent bool, err error) {
	switch m.Kind {
	case "none", "":
		return cp(b.text), false, nil
	case "subst":
		t := cp(b.text)
		if m.Pos < 0 || m.Pos >= len(t) {
			return t, false, nil
		}
		t[m.Pos] = byte(m.Byte)
		return t, false, nil
	case "trunc":
		n := m.Pos
		if n < 0 {
			n = 0
		}
		if n > len(b.text) {
			n = len(b.text)
		}
		return cp(b.text[:n]), false, nil
	case "field":
		ct, nonce, pub, salt := b.ct, b.nonce, b.pub, b.salt
		v := cp(m.Val)
		if m.Null {
			v = nil
		} else if v == nil {
			v = []byte{}
		}
		switch m.Field {
		case "ct":
			ct = v
		case "nonce":
			nonce = v
		case "pub":
			pub = v
		case "salt":
			salt = v
		default:
			return nil, false, fmt.Errorf("unknown field %q", m.Field)
		}
		t, err := file.VerifC19MarshalKeyData(ct, nonce, pub, salt)
		return t, false, err
	case "raw":
		return cp(m.Val), false, nil
	case "absent":
		return nil, true, nil
	}
	return nil, false, fmt.Errorf("unknown mutation %q", m.Kind)
}

// ---- outcomes --------------------------------------------------------------------------------

type outcome struct {
	class string // ok | panic | error class (EIo, EJson, ELegacyEmpty, ENonce, EDecrypt, EPriv, EPub, EMismatch, EOther)
	msg   string
}

// errClass maps an error to the stage that refused the file (a small enum; unknown text = EOther, which
// the comparator accepts for any error).
func errClass(err error) string {
	s := err.Error()
	switch {
	case strings.Contains(s, "already exists"):
		return "EExists"
	case strings.Contains(s, "key file not found"), strings.Contains(s, "failed to read key file"), strings.Contains(s, "failed to check key file status"):
		return "EIo"
	case strings.Contains(s, "unmarshal key data"):
		return "EJson"
	case strings.Contains(s, "empty passphrase"):
		return "ELegacyEmpty"
	case strings.Contains(s, "nonce"):
		return "ENonce"
	case strings.Contains(s, "decrypt private key"):
		return "EDecrypt"
	case strings.Contains(s, "unmarshal private key"):
		return "EPriv"
	case strings.Contains(s, "unmarshal public key"):
		return "EPub"
	case strings.Contains(s, "does not match"):
		return "EMismatch"
	}
	return "EOther"
}

func safeLoad(dir string, pass []byte) (s signer.Signer, o outcome) {
	defer func() {
		if p := recover(); p != nil {
			s, o = nil, outcome{class: "panic", msg: fmt.Sprint(p)}
		}
	}()
	s, err := file.LoadFileSystemSigner(dir, cp(pass))
	if err != nil {
		return nil, outcome{class: errClass(err), msg: err.Error()}
	}
	return s, outcome{class: "ok"}
}

func safeExport(dir string, pass []byte) (b []byte, o outcome) {
	defer func() {
		if p := recover(); p != nil {
			b, o = nil, outcome{class: "panic", msg: fmt.Sprint(p)}
		}
	}()
	b, err := file.ExportPrivateKey(dir, cp(pass))
	if err != nil {
		return nil, outcome{class: errClass(err), msg: err.Error()}
	}
	return cp(b), outcome{class: "ok"}
}

func safeImport(dir string, priv, pass []byte) (o outcome) {
	defer func() {
		if p := recover(); p != nil {
			o = outcome{class: "panic", msg: fmt.Sprint(p)}
		}
	}()
	if err := file.ImportPrivateKey(dir, cp(priv), cp(pass)); err != nil {
		return outcome{class: errClass(err), msg: err.Error()}
	}
	return outcome{class: "ok"}
}

// signerFacts: what a loaded signer does (all through its public interface).
type signerFacts struct {
	pub      []byte
	privIs   []byte // the candidate private key whose (deterministic) Ed25519 signature equals the signer's; nil = none
	sigOK    bool   // its signature verifies under the public key it reports
	addrOK   bool   // its address = types.KeyAddress(pub) = types.NewSigner(pub).Address = sha256(raw pub)
	noopSame bool   // a noop signer built from the candidate private key reports the same public key and address
	panicked string
}

func facts(s signer.Signer, msg []byte, cands [][]byte) (f signerFacts) {
	defer func() {
		if p := recover(); p != nil {
			f.panicked = fmt.Sprint(p)
		}
	}()
	pk, err := s.GetPublic()
	if err != nil {
		return
	}
	f.pub, _ = pk.Raw()
	sig, err := s.Sign(cp(msg))
	if err != nil {
		return
	}
	ok, err := pk.Verify(msg, sig)
	f.sigOK = ok && err == nil
	addr, err := s.GetAddress()
	h := sha256.Sum256(f.pub)
	if err == nil {
		ts, err2 := types.NewSigner(pk)
		f.addrOK = bytes.Equal(addr, types.KeyAddress(pk)) && err2 == nil && bytes.Equal(addr, ts.Address) && bytes.Equal(addr, h[:])
		if f.addrOK && f.sigOK {
			v, err3 := ts.Verify(msg, sig)
			f.sigOK = v && err3 == nil
		}
	}
	for _, c := range cands {
		if len(c) < 64 {
			continue
		}
		if bytes.Equal(ed25519.Sign(ed25519.PrivateKey(c[:64]), msg), sig) {
			f.privIs = c[:64]
			lp, err := crypto.UnmarshalEd25519PrivateKey(cp(c[:64]))
			if err == nil {
				ns, err := noop.NewNoopSigner(lp)
				if err == nil {
					np, _ := ns.GetPublic()
					nraw, _ := np.Raw()
					na, _ := ns.GetAddress()
					f.noopSame = bytes.Equal(nraw, f.pub) && bytes.Equal(na, addr)
				}
			}
			break
		}
	}
	return
}

// ---- one case ---------------------------------------------------------------------------------

type caseResult struct {
	err       error
	hist      History // with BaseFile filled in
	base      *baseInfo
	viol      []string
	what      []string
	coq       []string // Coq case terms (use names of module B<base> and literals)
	outClass  string
	region    string
	passRel   string
	reached   bool     // the file parsed, so the operation got to key derivation
	defs      []string // history: Coq module with the byte strings of the history (module name = placeholder histMod)
	histKinds []string // history: step kinds
}

// histMod: placeholder for the Coq module name of a history; replaced by H<job index> when the cases file is assembled
const histMod = "@H@"

func (c *caseResult) fail(sig, what string) {
	for _, s := range c.viol {
		if s == sig {
			return
		}
	}
	c.viol = append(c.viol, sig)
	c.what = append(c.what, what)
}

func passRel(save, p []byte) string {
	switch {
	case bytes.Equal(save, p):
		return "same"
	case len(p) == 0:
		return "empty"
	case len(save) >= 32 && len(p) >= 32 && bytes.Equal(save[:32], p[:32]):
		return "same-first-32"
	case bytes.HasPrefix(p, save) && len(bytes.TrimRight(p[len(save):], "\r\n")) == 0:
		return "plus-linebreak"
	case bytes.HasPrefix(save, p) && len(bytes.TrimRight(save[len(p):], "\r\n")) == 0:
		return "minus-linebreak"
	case bytes.HasPrefix(save, p):
		return "prefix"
	case bytes.HasPrefix(p, save):
		return "extension"
	}
	return "other"
}

func runCase(h History, r *rand.Rand) (res *caseResult) {
	res = &caseResult{hist: h}
	defer func() {
		if p := recover(); p != nil {
			res.err = fmt.Errorf("harness panic: %v", p)
		}
	}()
	msg := make([]byte, 24)
	r.Read(msg)

	if h.Op == "create-load" {
		return runCreateLoad(h, res, msg)
	}
	if h.Op == "history" {
		if h.BaseKind != "absent" {
			if len(h.BaseFile) == 0 {
				t, err := makeBase(h.BaseKind, h.SavePass, r)
				if err != nil {
					res.err = err
					return
				}
				h.BaseFile = t
				res.hist = h
			}
			b, err := analyse(h.BaseKind, h.SavePass, h.BaseFile)
			if err != nil {
				res.err = err
				return
			}
			res.base = b
		}
		return runHistory(h, res, r, msg)
	}
	if len(h.BaseFile) == 0 {
		t, err := makeBase(h.BaseKind, h.SavePass, r)
		if err != nil {
			res.err = err
			return
		}
		h.BaseFile = t
		res.hist = h
	}
	b, err := analyse(h.BaseKind, h.SavePass, h.BaseFile)
	if err != nil {
		res.err = err
		return
	}
	res.base = b
	text, absent, err := applyMut(b, h.Mut)
	if err != nil {
		res.err = err
		return
	}
	d := describe(text, absent)
	res.reached = d.state == "data"
	res.region = regionOf(b, h.Mut)
	res.passRel = passRel(h.SavePass, h.Pass)
	same := d.sameAs(b)
	rightPass := bytes.Equal(h.SavePass, h.Pass)
	legacyTrunc := len(b.salt) == 0 && res.passRel == "same-first-32"

	dir, err := os.MkdirTemp("", "c19-case-")
	if err != nil {
		res.err = err
		return
	}
	defer os.RemoveAll(dir)
	if !absent {
		if err := os.WriteFile(filepath.Join(dir, "signer.json"), text, 0o600); err != nil {
			res.err = err
			return
		}
	}
	nm := names(b)
	fileT := fileTerm(d, b)
	passT := passTerm(h.Pass, b)

	panicSig := func(o outcome, fn string) {
		switch {
		case d.state == "data" && len(d.salt) == 0 && len(h.Pass) == 0:
			res.fail("panic-legacy-file-empty-passphrase", fmt.Sprintf("%s panicked (%s) on a salt-less key file with an empty passphrase", fn, o.msg))
		case d.state == "data" && len(d.nonce) != 12:
			res.fail("panic-nonce-length-not-12", fmt.Sprintf("%s panicked (%s) on a key file whose nonce has %d bytes (mutation %s)", fn, o.msg, len(d.nonce), mutString(h.Mut)))
		default:
			res.fail("panic-other", fmt.Sprintf("%s panicked: %s", fn, o.msg))
		}
	}

	switch h.Op {
	case "load":
		s, o := safeLoad(dir, h.Pass)
		res.outClass = o.class
		obs := outcomeTerm(o, "")
		if o.class == "panic" {
			panicSig(o, "LoadFileSystemSigner")
		}
		sigOK, addrOK := false, false
		if o.class == "ok" {
			f := facts(s, msg, [][]byte{b.priv})
			sigOK, addrOK = f.sigOK, f.addrOK
			obs = fmt.Sprintf("(Ok (mk_signer %s %s))", nm.bytesTerm(f.privIs), nm.bytesTerm(f.pub))
			if f.panicked != "" {
				res.fail("panic-other", "loaded signer panicked: "+f.panicked)
			}
			if !f.sigOK {
				if f.privIs != nil && !bytes.Equal(f.pub, f.privIs[32:]) {
					res.fail("stored-pubkey-mismatch-accepted", fmt.Sprintf("key file whose pub_key field is not the public key of the decrypted private key loads; the signer's signatures do not verify under the public key it reports (mutation %s)", mutString(h.Mut)))
				} else {
					res.fail("loaded-signer-signature-invalid", "signature of the loaded signer does not verify under the public key it reports")
				}
			}
			if !f.addrOK {
				res.fail("address-differs", "loaded signer's address is not the one derived from its public key by types.KeyAddress / types.NewSigner")
			}
			if f.privIs != nil && f.sigOK && !f.noopSame {
				res.fail("noop-signer-differs", "noop signer of the same private key reports another public key/address")
			}
			if !rightPass {
				if legacyTrunc {
					res.fail("legacy-passphrase-only-first-32-bytes-count", fmt.Sprintf("legacy salt-less file saved under a %d-byte passphrase loads with a different %d-byte passphrase sharing the first 32 bytes", len(h.SavePass), len(h.Pass)))
				} else {
					res.fail("wrong-passphrase-loads", fmt.Sprintf("file saved under a %d-byte passphrase loads with a different (%s) passphrase", len(h.SavePass), res.passRel))
				}
			}
			if !same && f.sigOK {
				res.fail("corrupted-file-loads", fmt.Sprintf("a key file whose decoded content differs from the saved one loads (mutation %s)", mutString(h.Mut)))
			}
			if same && rightPass && (f.privIs == nil || !bytes.Equal(f.pub, b.pub)) {
				res.fail("roundtrip-changes-key", "the loaded signer is not the saved key")
			}
		} else if same && rightPass && o.class != "panic" {
			res.fail("roundtrip-fails", "the saved file does not load with its own passphrase: "+o.msg)
		}
		res.coq = append(res.coq, fmt.Sprintf("mk_case (OpLoad %s %s) (ObLoad %s %s %s)", fileT, passT, obs, vgen.Bool(sigOK), vgen.Bool(addrOK)))

	case "export", "export-import":
		pt, o := safeExport(dir, h.Pass)
		res.outClass = o.class
		if o.class == "panic" {
			panicSig(o, "ExportPrivateKey")
		}
		obs := outcomeTerm(o, "")
		if o.class == "ok" {
			obs = fmt.Sprintf("(Ok %s)", nm.bytesTerm(pt))
			if !rightPass {
				if legacyTrunc {
					res.fail("legacy-passphrase-only-first-32-bytes-count", fmt.Sprintf("legacy salt-less file saved under a %d-byte passphrase exports with a different passphrase sharing the first 32 bytes", len(h.SavePass)))
				} else {
					res.fail("wrong-passphrase-loads", "ExportPrivateKey succeeds with a different passphrase")
				}
			}
			if !bytes.Equal(pt, b.priv) {
				res.fail("export-returns-other-bytes", "ExportPrivateKey returned bytes other than the sealed private key")
			}
		} else if same && rightPass && o.class != "panic" {
			res.fail("roundtrip-fails", "ExportPrivateKey fails on the saved file with its own passphrase: "+o.msg)
		}
		res.coq = append(res.coq, fmt.Sprintf("mk_case (OpExport %s %s) (ObBytes %s)", fileT, passT, obs))
		if h.Op == "export-import" && o.class == "ok" {
			dir2, cleanup2, err := prepareTarget(h.Target, dir)
			if err != nil {
				res.err = err
				return
			}
			defer cleanup2()
			over := h.Target.Kind != "" && h.Target.Kind != "fresh"
			loses := func(sig, what string) {
				if over {
					res.fail("export-import-over-existing-file-loses-key", fmt.Sprintf("export followed by import over a path holding %s: %s", h.Target.Kind, what))
				} else {
					res.fail(sig, what)
				}
			}
			io := safeImport(dir2, pt, h.Pass2)
			if io.class == "panic" {
				res.fail("panic-other", "ImportPrivateKey panicked: "+io.msg)
			}
			pass2T := passTerm(h.Pass2, b)
			if io.class != "ok" {
				loses("export-import-fails", "ImportPrivateKey refuses what ExportPrivateKey returned: "+io.msg)
				res.coq = append(res.coq, fmt.Sprintf("mk_case (OpImport %s %s [] []) (ObFile %s)", nm.bytesTerm(pt), pass2T, outcomeTerm(io, "")))
				return
			}
			t2, err := os.ReadFile(filepath.Join(dir2, "signer.json"))
			if err != nil {
				res.err = err
				return
			}
			d2 := describe(t2, false)
			if d2.state != "data" {
				loses("export-import-fails", "ImportPrivateKey wrote a file that does not parse")
				return
			}
			// label the imported file's ciphertext by decrypting it with the harness's own AES-GCM
			ct2T := "CJunk"
			if len(d2.salt) > 0 {
				if p2, ok := gcmOpen(file.VerifC19DeriveKeyArgon2(h.Pass2, d2.salt), d2.nonce, d2.ct); ok {
					ct2T = fmt.Sprintf("(CSeal (KArgon %s %s) %s %s)", pass2T, vgen.BytesN(d2.salt), vgen.BytesN(d2.nonce), nm.bytesTerm(p2))
				}
			}
			file2T := fmt.Sprintf("(FData (mk_kd %s %s %s %s))", ct2T, vgen.BytesN(d2.nonce), nm.bytesTerm(d2.pub), vgen.BytesN(d2.salt))
			res.coq = append(res.coq, fmt.Sprintf("mk_case (OpImport %s %s %s %s) (ObFile (Ok %s))", nm.bytesTerm(pt), pass2T, vgen.BytesN(d2.salt), vgen.BytesN(d2.nonce), file2T))
			if len(d2.salt) != 16 || len(d2.nonce) != 12 {
				res.fail("import-salt-nonce-size", fmt.Sprintf("ImportPrivateKey wrote a %d-byte salt / %d-byte nonce (want 16 / 12; path held: %s)", len(d2.salt), len(d2.nonce), h.Target.Kind))
			}
			s2, lo := safeLoad(dir2, h.Pass2)
			obs2 := outcomeTerm(lo, "")
			sigOK, addrOK := false, false
			if lo.class != "ok" {
				loses("export-import-fails", "the imported file does not load with the import passphrase: "+lo.msg)
			} else {
				f := facts(s2, msg, [][]byte{b.priv})
				sigOK, addrOK = f.sigOK, f.addrOK
				obs2 = fmt.Sprintf("(Ok (mk_signer %s %s))", nm.bytesTerm(f.privIs), nm.bytesTerm(f.pub))
				if f.privIs == nil || !bytes.Equal(f.pub, b.priv[32:64]) || !f.sigOK || !f.addrOK {
					loses("export-import-changes-key", "export followed by import does not preserve the key")
				}
			}
			res.coq = append(res.coq, fmt.Sprintf("mk_case (OpLoad %s %s) (ObLoad %s %s %s)", file2T, pass2T, obs2, vgen.Bool(sigOK), vgen.Bool(addrOK)))
		}
	default:
		res.err = fmt.Errorf("unknown op %q", h.Op)
	}
	// legacy derivation, byte for byte (model: fallback_derive)
	if len(b.salt) == 0 && len(h.Pass) <= 64 {
		k, p := file.VerifC19FallbackDeriveKey(h.Pass)
		o := "Panic"
		if !p {
			o = "(Ok " + vgen.BytesN(k) + ")"
		}
		res.coq = append(res.coq, fmt.Sprintf("mk_case (OpFallback %s) (ObBytes %s)", passTerm(h.Pass, b), o))
	}
	return
}

// runCreateLoad: the real CreateFileSystemSigner under SavePass, then LoadFileSystemSigner under Pass.
func runCreateLoad(h History, res *caseResult, msg []byte) *caseResult {
	dir, err := os.MkdirTemp("", "c19-create-")
	if err != nil {
		res.err = err
		return res
	}
	defer os.RemoveAll(dir)
	res.reached = true
	res.region = "none"
	res.passRel = passRel(h.SavePass, h.Pass)
	var created signer.Signer
	func() {
		defer func() {
			if p := recover(); p != nil {
				res.fail("panic-other", fmt.Sprintf("CreateFileSystemSigner panicked: %v", p))
			}
		}()
		created, err = file.CreateFileSystemSigner(dir, cp(h.SavePass))
	}()
	if created == nil || err != nil {
		res.fail("create-fails", fmt.Sprintf("CreateFileSystemSigner failed: %v", err))
		res.outClass = "create-failed"
		return res
	}
	text, err := os.ReadFile(filepath.Join(dir, "signer.json"))
	if err != nil {
		res.err = err
		return res
	}
	b, err := analyse("create", h.SavePass, text)
	if err != nil {
		res.fail("create-writes-unreadable-file", err.Error())
		res.outClass = "create-failed"
		return res
	}
	b2 := *b
	b2.name = "" // literals only
	res.base = &b2
	nm := names(&b2)
	cf := facts(created, msg, [][]byte{b.priv})
	if cf.privIs == nil || !cf.sigOK || !cf.addrOK || !bytes.Equal(cf.pub, b.pub) || !bytes.Equal(b.pub, b.priv[32:]) || len(b.salt) != 16 || len(b.nonce) != 12 {
		res.fail("create-signer-differs-from-file", "the signer returned by CreateFileSystemSigner is not the key it wrote (or salt/nonce sizes differ from 16/12)")
	}
	// the file written = model's save of (priv, pub) under the passphrase with the salt and nonce drawn
	d := describe(text, false)
	res.coq = append(res.coq, fmt.Sprintf("mk_case (OpSave (mk_signer %s %s) %s %s %s) (ObFile (Ok %s))",
		vgen.BytesN(b.priv), vgen.BytesN(b.pub), passTermLit(h.SavePass), vgen.BytesN(b.salt), vgen.BytesN(b.nonce), fileTerm(d, &b2)))
	s, o := safeLoad(dir, h.Pass)
	res.outClass = o.class
	obs := outcomeTerm(o, "")
	sigOK, addrOK := false, false
	right := bytes.Equal(h.SavePass, h.Pass)
	switch {
	case o.class == "panic":
		res.fail("panic-other", "LoadFileSystemSigner panicked on a freshly created file: "+o.msg)
	case o.class == "ok":
		f := facts(s, msg, [][]byte{b.priv})
		sigOK, addrOK = f.sigOK, f.addrOK
		obs = fmt.Sprintf("(Ok (mk_signer %s %s))", nm.bytesTerm(f.privIs), nm.bytesTerm(f.pub))
		if !right {
			res.fail("wrong-passphrase-loads", "a freshly created file loads with a different passphrase")
		}
		// signature made by the loaded signer verifies under the creating signer's key, and conversely
		cpk, _ := created.GetPublic()
		sg, _ := s.Sign(cp(msg))
		v, _ := cpk.Verify(msg, sg)
		if !v || f.privIs == nil || !f.sigOK || !f.addrOK || !bytes.Equal(f.pub, cf.pub) {
			res.fail("roundtrip-changes-key", "the signer loaded from a freshly created file is not the created key")
		}
	case right:
		res.fail("roundtrip-fails", "a freshly created file does not load with its own passphrase: "+o.msg)
	}
	res.coq = append(res.coq, fmt.Sprintf("mk_case (OpLoad %s %s) (ObLoad %s %s %s)", fileTerm(d, &b2), passTermLit(h.Pass), obs, vgen.Bool(sigOK), vgen.Bool(addrOK)))
	return res
}

// ---- Coq terms --------------------------------------------------------------------------------

type namer struct {
	mod   string
	named []struct {
		n string
		b []byte
	}
}

func names(b *baseInfo) namer {
	n := namer{mod: b.name}
	if b.name == "" {
		return n
	}
	add := func(s string, v []byte) {
		if len(v) > 0 {
			n.named = append(n.named, struct {
				n string
				b []byte
			}{b.name + "." + s, v})
		}
	}
	add("priv", b.priv)
	if len(b.priv) > 64 {
		add("priv64", b.priv[:64])
	}
	add("pub", b.pub)
	add("salt", b.salt)
	add("nonce", b.nonce)
	return n
}

func (n namer) bytesTerm(v []byte) string {
	for _, e := range n.named {
		if bytes.Equal(e.b, v) {
			return e.n
		}
	}
	return vgen.BytesN(v)
}

// passTermLit prints a passphrase as run-length pairs: pp [(byte,count);...]
func passTermLit(p []byte) string {
	var runs []string
	for i := 0; i < len(p); {
		j := i
		for j < len(p) && p[j] == p[i] {
			j++
		}
		runs = append(runs, fmt.Sprintf("(%d,%d)", p[i], j-i))
		i = j
	}
	return "(pp [" + strings.Join(runs, ";") + "]%N)"
}

func passTerm(p []byte, b *baseInfo) string {
	if b.name != "" && bytes.Equal(p, b.pass) {
		return b.name + ".pass"
	}
	return passTermLit(p)
}

func keyTermLit(b *baseInfo) string {
	if len(b.salt) == 0 {
		return "(KRaw " + vgen.BytesN(b.rawKey) + ")"
	}
	return fmt.Sprintf("(KArgon %s %s)", passTermLit(b.pass), vgen.BytesN(b.salt))
}

func ctTermLit(b *baseInfo) string {
	return fmt.Sprintf("(CSeal %s %s %s)", keyTermLit(b), vgen.BytesN(b.nonce), vgen.BytesN(b.priv))
}

func fileTerm(d desc, b *baseInfo) string {
	switch d.state {
	case "absent":
		return "FAbsent"
	case "badjson":
		return "FBadJson"
	}
	nm := names(b)
	ct := "CJunk"
	if bytes.Equal(d.ct, b.ct) {
		if b.name != "" {
			ct = b.name + ".ct"
		} else {
			ct = ctTermLit(b)
		}
	}
	return fmt.Sprintf("(FData (mk_kd %s %s %s %s))", ct, nm.bytesTerm(d.nonce), nm.bytesTerm(d.pub), nm.bytesTerm(d.salt))
}

func outcomeTerm(o outcome, okTerm string) string {
	switch o.class {
	case "ok":
		return "(Ok " + okTerm + ")"
	case "panic":
		return "Panic"
	}
	return "(Err " + o.class + ")"
}

func baseDefs(b *baseInfo) string {
	var sb strings.Builder
	fmt.Fprintf(&sb, "Module %s.\n", b.name)
	fmt.Fprintf(&sb, "Definition pass : bytes := %s.\n", passTermLit(b.pass))
	fmt.Fprintf(&sb, "Definition priv : bytes := %s.\n", vgen.BytesN(b.priv))
	if len(b.priv) > 64 {
		fmt.Fprintf(&sb, "Definition priv64 : bytes := %s.\n", vgen.BytesN(b.priv[:64]))
	}
	fmt.Fprintf(&sb, "Definition pub : bytes := %s.\n", vgen.BytesN(b.pub))
	fmt.Fprintf(&sb, "Definition salt : bytes := %s.\n", vgen.BytesN(b.salt))
	fmt.Fprintf(&sb, "Definition nonce : bytes := %s.\n", vgen.BytesN(b.nonce))
	if len(b.salt) == 0 {
		fmt.Fprintf(&sb, "Definition key : skey := KRaw %s.\n", vgen.BytesN(b.rawKey))
	} else {
		sb.WriteString("Definition key : skey := KArgon pass salt.\n")
	}
	sb.WriteString("Definition ct : sct := CSeal key nonce priv.\n")
	fmt.Fprintf(&sb, "End %s.", b.name)
	return sb.String()
}

// ---- regions of the file text (for the distribution and the distinct count) -----------------------

func regionOf(b *baseInfo, m Mut) string {
	switch m.Kind {
	case "none", "":
		return "none"
	case "field":
		return "field:" + m.Field
	case "raw", "absent":
		return m.Kind
	}
	t := string(b.text)
	pos := m.Pos
	if m.Kind == "trunc" {
		if pos >= len(t) {
			return "trunc:nothing"
		}
		return "trunc:" + spanOf(t, pos)
	}
	if pos < 0 || pos >= len(t) {
		return "subst:outside"
	}
	return "subst:" + spanOf(t, pos)
}

func spanOf(t string, pos int) string {
	for _, f := range []string{"priv_key_encrypted", "nonce", "pub_key", "salt"} {
		k := strings.Index(t, "\""+f+"\":\"")
		if k < 0 {
			continue
		}
		ks, ke := k+1, k+1+len(f)
		vs := k + len(f) + 4
		ve := vs + strings.Index(t[vs:], "\"")
		switch {
		case pos >= ks && pos < ke:
			return "name-of-" + f
		case pos >= vs && pos < ve:
			if pos == ve-1 {
				return "last-char-of-" + f
			}
			return "value-of-" + f
		}
	}
	return "punctuation"
}

func mutString(m Mut) string {
	switch m.Kind {
	case "subst":
		return fmt.Sprintf("byte %d := 0x%02x", m.Pos, m.Byte)
	case "trunc":
		return fmt.Sprintf("truncated to %d bytes", m.Pos)
	case "field":
		if m.Null {
			return m.Field + " := null"
		}
		return fmt.Sprintf("%s := %d bytes", m.Field, len(m.Val))
	}
	return m.Kind
}

// ---- generator ---------------------------------------------------------------------------------

func caseRng(seed int64, c int) *rand.Rand { return rand.New(rand.NewSource(seed*1000003 + int64(c))) }

func rbytes(r *rand.Rand, n int) []byte { b := make([]byte, n); r.Read(b); return b }

// genPass: passphrases of the lengths named by the property; long ones are made of a few runs so that
// their Coq term stays small.
func genPass(r *rand.Rand, n int) []byte {
	if n <= 40 {
		return rbytes(r, n)
	}
	p := make([]byte, 0, n)
	for len(p) < n {
		run := 1 + r.Intn(n/3+1)
		if len(p) < 40 {
			run = 1 + r.Intn(3)
		}
		if len(p)+run > n {
			run = n - len(p)
		}
		p = append(p, bytes.Repeat([]byte{byte(r.Intn(256))}, run)...)
	}
	return p
}

type baseSpec struct {
	kind string
	plen int
}

var baseSpecs = []baseSpec{
	{"create", 0}, {"create", 1}, {"create", 31}, {"create", 32}, {"create", 33}, {"create", 4096}, {"create", -1},
	{"import", -1}, {"import96", 12}, {"import", -2}, {"import96", -2}, // -2: a passphrase that ends in a line break (read from a file / piped in)
	{"legacy", 1}, {"legacy", 5}, {"legacy", 31}, {"legacy", 32}, {"legacy", 40}, {"legacy", 4096},
}

func wrongPass(r *rand.Rand, save []byte) []byte {
	switch k := r.Intn(10); {
	case k == 8: // the saved passphrase followed by a line break
		return append(cp(save), lineBreaks[r.Intn(len(lineBreaks))]...)
	case k == 9: // the saved passphrase without its trailing line break(s), or with a CR
		if t := bytes.TrimRight(save, "\r\n"); len(t) < len(save) {
			if r.Intn(3) == 0 {
				return cp(save[:len(save)-1])
			}
			return cp(t)
		}
		return append(cp(save), '\r')
	case k == 0 && len(save) > 0:
		return []byte{}
	case k == 1 && len(save) > 0:
		return cp(save[:len(save)-1])
	case k == 2:
		return append(cp(save), byte(r.Intn(256)))
	case k == 3 && len(save) >= 32:
		// same first 32 bytes, different tail
		p := cp(save)
		if len(p) == 32 {
			return append(p, 'x')
		}
		p[len(p)-1] ^= 0x55
		return p
	case k == 4 && len(save) > 0:
		p := cp(save)
		p[r.Intn(len(p))] ^= 1 << uint(r.Intn(8))
		return p
	case k == 5:
		return genPass(r, []int{1, 31, 32, 33, 4096}[r.Intn(5)])
	}
	p := rbytes(r, 1+r.Intn(20))
	if bytes.Equal(p, save) {
		p = append(p, 1)
	}
	return p
}

const b64 = "ABCDEFGHIJKLMNOPQRSTUVWXYZabcdefghijklmnopqrstuvwxyz0123456789+/"

func substByte(r *rand.Rand, class int, old byte) int {
	switch class {
	case 0:
		return '='
	case 1:
		for {
			c := b64[r.Intn(64)]
			if c != old {
				return int(c)
			}
		}
	}
	for {
		c := byte(r.Intn(256))
		if c != old {
			return int(c)
		}
	}
}

func genMut(r *rand.Rand, b *baseInfo, others []*baseInfo) Mut {
	n := len(b.text)
	switch k := r.Intn(100); {
	case k < 18:
		return Mut{Kind: "none"}
	case k < 50:
		pos := r.Intn(n)
		if r.Intn(4) == 0 { // aim at the last character of a value (base64 padding / length changes)
			t := string(b.text)
			f := []string{"priv_key_encrypted", "nonce", "pub_key", "salt"}[r.Intn(4)]
			if i := strings.Index(t, "\""+f+"\":\""); i >= 0 {
				vs := i + len(f) + 4
				pos = vs + strings.Index(t[vs:], "\"") - 1 - r.Intn(2)
			}
		}
		return Mut{Kind: "subst", Pos: pos, Byte: substByte(r, r.Intn(3), b.text[pos])}
	case k < 60:
		return Mut{Kind: "trunc", Pos: r.Intn(n)}
	case k < 90:
		f := []string{"ct", "nonce", "nonce", "pub", "pub", "salt"}[r.Intn(6)]
		cur := map[string][]byte{"ct": b.ct, "nonce": b.nonce, "pub": b.pub, "salt": b.salt}[f]
		switch v := r.Intn(7); {
		case v == 0:
			return Mut{Kind: "field", Field: f, Null: true}
		case v == 1:
			return Mut{Kind: "field", Field: f, Val: []byte{}}
		case v == 2 && len(cur) > 0:
			return Mut{Kind: "field", Field: f, Val: cp(cur[:len(cur)-1-r.Intn(len(cur))])}
		case v == 3:
			return Mut{Kind: "field", Field: f, Val: append(cp(cur), rbytes(r, 1+r.Intn(4))...)}
		case v == 4 && len(cur) > 0:
			c := cp(cur)
			c[r.Intn(len(c))] ^= 1 << uint(r.Intn(8))
			return Mut{Kind: "field", Field: f, Val: c}
		case v == 5 && f == "pub" && len(others) > 0:
			return Mut{Kind: "field", Field: f, Val: cp(others[r.Intn(len(others))].pub)}
		}
		return Mut{Kind: "field", Field: f, Val: rbytes(r, len(cur))}
	case k < 96:
		raws := []string{"", "{}", "null", "[]", "{\"nonce\":\"AAAA\"}", "{\"priv_key_encrypted\":[1,2,3],\"nonce\":\"AAAAAAAAAAAAAAAA\"}",
			"not json", "{\"pub_key\":12}", string(b.text) + "x", " " + string(b.text) + "\n",
			strings.Replace(string(b.text), "\"nonce\"", "\"NONCE\"", 1),
			strings.Replace(string(b.text), "}", ",\"nonce\":\"AAAA\"}", 1),
			strings.Replace(string(b.text), "}", ",\"extra\":1}", 1)}
		return Mut{Kind: "raw", Val: []byte(raws[r.Intn(len(raws))])}
	}
	return Mut{Kind: "absent"}
}

func genHistory(r *rand.Rand, seed int64, c int, b *baseInfo, others []*baseInfo) History {
	h := History{Seed: seed, Case: c, BaseKind: b.kind, SavePass: cp(b.pass), BaseFile: cp(b.text)}
	h.Mut = genMut(r, b, others)
	pRight := 65
	if h.Mut.Kind == "none" {
		pRight = 35
	}
	if r.Intn(100) < pRight {
		h.Pass = cp(b.pass)
	} else {
		h.Pass = wrongPass(r, b.pass)
	}
	switch k := r.Intn(100); {
	case k < 68:
		h.Op = "load"
	case k < 88:
		h.Op = "export"
	default:
		h.Op = "export-import"
		h.Pass2 = withLineBreak(r, genPass(r, []int{0, 1, 8, 31, 32, 33, 100}[r.Intn(7)]))
		if r.Intn(4) > 0 { // mostly on the intact file with the right passphrase, so that the import is reached
			h.Mut = Mut{Kind: "none"}
			h.Pass = cp(b.pass)
		}
		genTarget(r, targetKinds[r.Intn(len(targetKinds))], &h, others)
	}
	return h
}

// ---- shrinking -------------------------------------------------------------------------------

func hasSig(res *caseResult, sig string) bool {
	for _, s := range res.viol {
		if s == sig {
			return true
		}
	}
	return false
}

// shrink simplifies a failing history (shorter passphrases on a re-made base, simpler operation,
// canonical replacement byte) as long as the same signature keeps failing on the real code.
func shrink(h History, sig string) History {
	if h.Op == "history" {
		return shrinkHistory(h, sig)
	}
	cur := h
	try := func(c History) bool {
		r := runCase(c, caseRng(c.Seed, c.Case))
		if r.err == nil && hasSig(r, sig) {
			cur = r.hist
			return true
		}
		return false
	}
	if cur.Op == "export-import" {
		c := cur
		c.Op, c.Pass2 = "export", nil
		try(c)
	}
	if cur.Op == "export" {
		c := cur
		c.Op = "load"
		try(c)
	}
	if cur.Op != "create-load" {
		same := bytes.Equal(cur.SavePass, cur.Pass)
		for _, n := range []int{1, 4} {
			if len(cur.SavePass) <= n || cur.BaseKind == "import96" {
				continue
			}
			c := cur
			c.SavePass = cp(cur.SavePass[:n])
			c.BaseFile = nil
			if same {
				c.Pass = cp(c.SavePass)
			}
			if try(c) {
				break
			}
		}
		if cur.Mut.Kind == "subst" && cur.Mut.Byte != '=' {
			c := cur
			c.Mut.Byte = '='
			try(c)
		}
		if cur.Mut.Kind == "field" && len(cur.Mut.Val) > 1 && cur.Mut.Field != "pub" {
			c := cur
			c.Mut.Val = cp(cur.Mut.Val[:1])
			try(c)
		}
	}
	return cur
}

// ---- driver ------------------------------------------------------------------------------------

func TestVerif(t *testing.T) {
	e := vgen.GetEnv()
	res := vgen.NewResult("C19", e)
	type job struct {
		h    History
		base *baseInfo
		skip bool
	}
	var jobs []job
	var bases []*baseInfo
	if e.Replay != "" {
		var h History
		if err := vgen.LoadReplay(e.Replay, &h); err != nil {
			t.Fatal(err)
		}
		jobs = append(jobs, job{h: h})
	} else {
		files, _ := filepath.Glob("../corpus/C19/*.json")
		if os.Getenv("VERIF_NO_CORPUS") != "" {
			files = nil
		}
		for _, f := range files {
			var h History
			if vgen.LoadReplay(f, &h) == nil && h.Op != "" {
				jobs = append(jobs, job{h: h})
			}
		}
		// bases of this run: made by the real code, one per passphrase length named by the property
		for i, sp := range baseSpecs {
			r := caseRng(e.Seed, -1-i)
			n := sp.plen
			if n < 0 {
				n = 6 + r.Intn(20)
			}
			pass := genPass(r, n)
			if sp.plen == -2 {
				pass = append(pass, lineBreaks[r.Intn(len(lineBreaks))]...)
			}
			txt, err := makeBase(sp.kind, pass, r)
			if err != nil {
				t.Fatalf("making base %v: %v", sp, err)
			}
			b, err := analyse(sp.kind, pass, txt)
			if err != nil {
				t.Fatalf("analysing base %v: %v", sp, err)
			}
			b.name = fmt.Sprintf("B%d", i)
			bases = append(bases, b)
		}
		sysBase := bases[int(e.Seed%int64(len(bases)))]
		sysN := 0
		if e.Tier == "thorough" {
			sysN = 4 * len(sysBase.text) // every position x 3 replacement classes, and every truncation
		}
		for c := 0; c < e.N; c++ {
			r := caseRng(e.Seed, c)
			var h History
			switch {
			case c < sysN:
				b := sysBase
				h = History{Seed: e.Seed, Case: c, BaseKind: b.kind, SavePass: cp(b.pass), BaseFile: cp(b.text), Op: "load", Pass: cp(b.pass)}
				pos, cls := c%len(b.text), c/len(b.text)
				if cls < 3 {
					h.Mut = Mut{Kind: "subst", Pos: pos, Byte: substByte(r, cls, b.text[pos])}
				} else {
					h.Mut = Mut{Kind: "trunc", Pos: pos}
				}
				if c%7 == 3 {
					h.Op = "export"
				}
			case c%20 == 19:
				n := []int{0, 1, 31, 32, 33, 4096, 10}[r.Intn(7)]
				sp := withLineBreak(r, genPass(r, n))
				h = History{Seed: e.Seed, Case: c, BaseKind: "create", SavePass: sp, Op: "create-load", Pass: cp(sp), Mut: Mut{Kind: "none"}}
				if r.Intn(3) == 0 {
					h.Pass = wrongPass(r, sp)
				}
			default:
				b := bases[r.Intn(len(bases))]
				h = genHistory(r, e.Seed, c, b, bases)
			}
			jobs = append(jobs, job{h: h})
		}
		// histories over ONE path (load -> load -> export -> import -> load ...) and signing sessions on the loaded signers
		{
			var leg, cur, imp []*baseInfo
			for _, b := range bases {
				switch {
				case len(b.salt) == 0:
					leg = append(leg, b)
				case b.kind == "create":
					cur = append(cur, b)
				default:
					imp = append(imp, b)
				}
			}
			nHist := e.N / 10
			if nHist < 8 {
				nHist = 8
			}
			for k := 0; k < nHist; k++ {
				c := e.N + 1000 + k
				r := caseRng(e.Seed, c)
				var b *baseInfo
				switch x := r.Intn(100); {
				case x < 36:
					b = leg[r.Intn(len(leg))]
				case x < 70:
					b = cur[r.Intn(len(cur))]
				case x < 90:
					b = imp[r.Intn(len(imp))]
				}
				jobs = append(jobs, job{h: genHist(r, e.Seed, c, b)})
			}
		}
		// systematic: export from a current-format and from a legacy file, then import OVER every kind of
		// pre-existing content at the target path (incl. the source path itself), then load
		if os.Getenv("VERIF_NO_CORPUS") == "" {
			k := 0
			for _, src := range []*baseInfo{bases[1], bases[len(bases)-2]} {
				for _, kind := range targetKinds {
					c := e.N + k
					k++
					r := caseRng(e.Seed, c)
					h := History{Seed: e.Seed, Case: c, BaseKind: src.kind, SavePass: cp(src.pass), BaseFile: cp(src.text), Mut: Mut{Kind: "none"},
						Op: "export-import", Pass: cp(src.pass), Pass2: genPass(r, []int{0, 1, 8, 33}[r.Intn(4)])}
					genTarget(r, kind, &h, bases)
					jobs = append(jobs, job{h: h})
				}
			}
		}
	}

	// replayed / corpus histories carry their own base file: label it
	extra := 0
	for i := range jobs {
		h := jobs[i].h
		if h.Op == "create-load" || (h.Op == "history" && h.BaseKind == "absent") {
			continue
		}
		if len(h.BaseFile) == 0 {
			txt, err := makeBase(h.BaseKind, h.SavePass, caseRng(h.Seed, h.Case))
			if err != nil {
				t.Fatalf("making base for replay: %v", err)
			}
			h.BaseFile = txt
			jobs[i].h = h
		}
		b, err := analyse(h.BaseKind, h.SavePass, h.BaseFile)
		if err != nil {
			// a stored key file (corpus / witness / replay) that the code's own key derivation + AES-GCM no longer opens
			// under the passphrase it was written with: the key is lost
			res.Violations = append(res.Violations, vgen.Violation{Signature: "stored-key-file-no-longer-decrypts", Case: i, Replay: h,
				What: fmt.Sprintf("a %s key file written earlier no longer decrypts under its own passphrase with the code's key derivation: %v", h.BaseKind, err)})
			jobs[i].skip = true
			continue
		}
		if b.name == "" {
			b.name = fmt.Sprintf("R%d", extra)
			extra++
			bases = append(bases, b)
		}
		jobs[i].base = b
	}

	results := make([]*caseResult, len(jobs))
	var wg sync.WaitGroup
	sem := make(chan struct{}, 6)
	for i := range jobs {
		if jobs[i].skip {
			continue
		}
		wg.Add(1)
		sem <- struct{}{}
		go func(i int) {
			defer wg.Done()
			defer func() { <-sem }()
			h := jobs[i].h
			results[i] = runCase(h, caseRng(h.Seed, h.Case))
		}(i)
	}
	wg.Wait()

	var cases []string
	defs := []string{}
	for _, b := range bases {
		defs = append(defs, baseDefs(b))
	}
	distinct := map[string]bool{}
	shrunkSig := map[string]bool{}
	for ji, cr := range results {
		if cr == nil {
			res.Evaluations++
			res.Count("outcome:stored-file-unreadable")
			continue
		}
		if cr.err != nil {
			t.Fatalf("harness error on case %d: %v", ji, cr.err)
		}
		h := cr.hist
		res.Evaluations++
		res.Count("op:" + h.Op)
		if h.Op == "export-import" {
			tk := h.Target.Kind
			if tk == "" {
				tk = "fresh"
			}
			res.Count("import-target:" + tk)
		}
		res.Count("base:" + h.BaseKind)
		res.Count("mutation:" + h.Mut.Kind)
		res.Count("region:" + cr.region)
		res.Count("passphrase:" + cr.passRel)
		res.Count(fmt.Sprintf("save-pass-len:%d", lenClass(len(h.SavePass))))
		res.Count("outcome:" + cr.outClass)
		hmod := fmt.Sprintf("H%d", ji)
		hkey := ""
		for _, k := range cr.histKinds {
			res.Count("history-step:" + k)
			hkey += k + ","
		}
		for _, st := range h.Steps {
			for _, so := range st.Sign {
				res.Count("sign-call:" + so.Kind)
			}
		}
		for _, d := range cr.defs {
			defs = append(defs, strings.ReplaceAll(d, histMod, hmod))
		}
		key := fmt.Sprintf("%s|%s|%s|%s|%s|%d|%d|%s|%s", h.BaseKind, h.Mut.Kind, cr.region, cr.passRel, h.Op, lenClass(len(h.SavePass)), lenClass(len(h.Pass)), cr.outClass, hkey)
		if cr.reached && !(h.Mut.Kind == "none" && cr.passRel == "same") {
			distinct[key] = true
		}
		for vi, sig := range cr.viol {
			sh := h
			// a history is shrunk for the first failure of each signature only (every attempt re-runs the key derivations)
			if h.Op != "history" || !shrunkSig[sig] {
				sh = shrink(h, sig)
				shrunkSig[sig] = true
			}
			res.Violations = append(res.Violations, vgen.Violation{Signature: sig, What: cr.what[vi], Case: ji, Replay: sh})
		}
		for _, c := range cr.coq {
			res.Replays[fmt.Sprint(len(cases))] = h
			cases = append(cases, "("+strings.ReplaceAll(c, histMod, hmod)+")")
		}
		if len(res.Samples) < 3 && cr.reached && h.Mut.Kind != "none" && len(cr.coq) > 0 {
			hs := h
			hs.BaseFile = nil
			res.Samples = append(res.Samples, map[string]interface{}{"history": hs, "mutation": mutString(h.Mut), "outcome": cr.outClass, "coq_case": strings.ReplaceAll(cr.coq[0], histMod, hmod)})
		}
	}
	res.Distinct = len(distinct)
	res.Rule = "one history = a key file made by the real code (Create / Import of a 64- or 96-byte key / hand-built legacy salt-less file) under a passphrase of 0,1,31,32,33,4096 or a random number of bytes; a corruption (single-byte substitution by '=', another base64 character or an arbitrary byte; truncation; a decoded field replaced, shortened, extended, bit-flipped, emptied, nulled or swapped with another key's; arbitrary text; missing file); a passphrase (the right one, empty, prefix, extension, one bit flipped, same first 32 bytes, unrelated); an operation (load, export, create+load, export+import+load where the import path is empty or already holds a current-format file saved under the same / another passphrase, a legacy salt-less file, a file with the salt removed, a corrupted, truncated or empty file, {} / null, unrelated files, or is the source path itself); N/10 further histories over ONE path: a file made by Create / Import / in the legacy salt-less format (or a free path and a Create), then 3-10 steps out of load, export, export + import of what came out under a new passphrase over the same path, import of a new key, import of bytes that are no key, create on the occupied path, each with the right passphrase or an all-zero one of the same length, the empty one, 33 / 4096 bytes, a prefix, one bit flipped, the passphrase in force before the last re-seal, an extension, an unrelated one; one new passphrase in four ends in a line break (LF, CRLF, CR, ...), wrong passphrases include the sealed one plus / minus a trailing line break; FAULTS between the steps (the file truncated, emptied, deleted, a structural byte or a base64 character of a value replaced, replaced by other text; 45% of the histories: 0-2 imports of a new key, a fault, load with the passphrase in force and with the one in force before the rotation, an export, sometimes a new import) - a file whose decoded content a fault changed must neither load nor export; after every step the file is read back and compared with the model's, and when its text changed a copy is probed with the real code (opens with exactly the passphrase it was last sealed with); signing sessions of 3-8 Sign calls on the loaded signers (fresh slices, one buffer re-used, rewritten in place incl. truncated copies, a prefix of it, the same bytes again), every signature checked under GetPublic for the bytes at the time of the call. thorough tier: additionally every position x 3 replacement classes and every truncation of one base per shard. non-trivial = the file still parses (the operation reaches key derivation) and it is not the plain right-passphrase round trip; distinct = distinct (base kind, mutation kind, region of the file hit, passphrase relation, operation, passphrase length classes, outcome class)"
	res.Cases = len(cases)
	header := "From Coq Require Import String NArith List Bool.\nFrom Verif Require Import Model.KeyFile Check.KeyFileCheck."
	path := filepath.Join(e.Out, "cases_C19.v")
	if err := vgen.WriteCases(path, header, defs, "kcase", cases, "mismatches"); err != nil {
		t.Fatal(err)
	}
	res.CaseFiles = []string{path}
	if err := res.Write(e.Out); err != nil {
		t.Fatal(err)
	}
}

func lenClass(n int) int {
	switch {
	case n <= 1:
		return n
	case n < 32:
		return 31
	case n == 32:
		return 32
	case n <= 64:
		return 33
	}
	return 4096
}
