// C11 correspondence harness: the REAL block.Reaper (NewReaper + SubmitTxs), the REAL sequencers/single
// Sequencer (NewSequencerWithQueueSize: AddBatch / Next / Load) and the REAL aggregator block.Manager
// (NewManager + publishBlockInternal) wired as node/full.go and apps/*/cmd/run.go wire them — the sequencer on
// the bare datastore (records under /batches), the block store and the reaper's seen-set on the same
// datastore under the prefix /0 — all on ONE recording crash datastore.  Doubles (outermost collaborators
// only): the execution layer (a mempool that follows the executor interface: GetTxs does not remove,
// ExecuteTxs removes what it executed, deterministic state roots), the sequencer's clock (the Timestamp field
// of the real GetNextBatch response is overwritten with the scripted instant), broadcasters, no DA.
//
// A history is a list of: a transaction arrives in the mempool | boot (build all three components on the
// datastore as it is) | reap (Reaper.SubmitTxs) | produce (publishBlockInternal at a scripted instant) |
// the process dies inside a boot / reap / produce after K atomic datastore writes | write attempt number K of a
// boot / reap / produce returns an error ONCE and the process lives on (faultds.go: a transient datastore
// fault; every write of every action is a fault point).  After the history the harness drains: boot if needed,
// then produce + reap rounds with non-decreasing instants until nothing is in flight (a node whose production
// is refused with a validation error — the store-height write of the last step failed — is restarted).  Go oracle (independent of the Coq model): every transaction GetTxs ever returned is in a
// committed block, the non-empty committed blocks are the released batches in release order, and without
// a crash (and without a write fault that fired) no transaction is in the chain twice.  A batch dropped by a
// step is attributed to a listed defect only by what THAT step did (clock before the last block; died in the
// window; its block save was the write made to fail); any other dropped batch is a violation.  Writes cases_C11.v for Check/ReaperCheck.v + result.json.
//
// Further items: a produce step whose ExecuteTxs call returns an error once (Item.X: a transient failure of the
// execution layer; the model's IExecFail), and a produce step DURING which a complete Reaper.SubmitTxs runs (Item.Mid = p:
// after the first p acts of the step — datastore write attempts and the ExecuteTxs call —, fired from hooks in the
// datastore stack, the execution-layer double and the sequencer wrapper on the producer's own goroutine, i.e. at a
// point where the producer holds no lock: right after GetNextBatch has answered, after the cursor write, after the
// early block save, after ExecuteTxs, ...; the model's IMid).  Further oracle clauses: every hand-off the sequencer
// accepted (its queue record became durable) is released in acceptance order — a second time only after its record's
// Delete was made to fail —; a batch dropped by a step that died AFTER it had called ExecuteTxs is not attributed to
// the listed crash window (that window ends at the early block save, which precedes the call).
// Streams (gen): restarts while batches wait (genBacklog), reaps inside produce steps and failing executions
// (genConc), ONE hand-off of L-1 .. 3L+1 transactions for count limits L up to 1024 against an almost full queue
// (genCount; pool ids from manyFirst, printed to Coq as ranges), the size-boundary stream, the generic mix.
//
// Size-boundary stream (Cfg.Lim > 0, every 6th generated case + one corpus file): the pool also holds transactions of
// Lim/15 .. Lim+1 bytes (Lim = 1 500 000 mostly; also 1 MiB, 1 MB, 2 MB, 64*64*482), arranged so that ONE hand-off
// totals Lim-1, Lim, Lim+1, Lim + a few bytes, or a multiple of Lim; the block that takes such a batch is followed by a
// clean restart, a crash or nothing, then by further blocks.  The code as it is hands the batch out whole whatever its
// size (Props/C11.v C11_handout_whole_full); an implementation that bounds the bytes of a hand-out is driven through
// its split branch here.  A batch handed out is recorded from the GetNextBatch RESPONSE (what the manager really got),
// and the drain ends only after a produce on a quiet node handed out nothing (a batch that waits in memory only is
// still in flight).
//
// Pending-limit stream (Cfg.Pend > 0, every generated case with index = 11 mod 12 + one corpus file): the manager runs with
// MaxPendingHeadersAndData = Pend; items hsub / dsub = the DA layer has accepted the headers / the data up to a height
// (the manager's own setLastSubmitted{Header,Data}Height — all that the two submission loops do to the producer), each
// on its own, so that headers are confirmed while data stalls, or the reverse, or both stall.  A produce step that
// returns nil without a new height, without having asked the sequencer or the executor, is observed as "refused"
// (model: Model/ReaperLimit.v, result 13).  The oracle is the same: whatever a step takes from the sequencer under
// back-pressure must still be in the chain after the drain (during which the DA layer accepts everything).
package c11

import (
	"bytes"
	"context"
	"crypto/rand"
	"crypto/sha256"
	"encoding/binary"
	"encoding/hex"
	"errors"
	"fmt"
	mrand "math/rand"
	"os"
	"path/filepath"
	"sort"
	"strings"
	"sync"
	"testing"
	"time"

	ds "github.com/ipfs/go-datastore"
	ktds "github.com/ipfs/go-datastore/keytransform"
	logging "github.com/ipfs/go-log/v2"
	"github.com/libp2p/go-libp2p/core/crypto"
	"google.golang.org/protobuf/proto"

	"github.com/evstack/ev-node/block"
	coreexecutor "github.com/evstack/ev-node/core/execution"
	coresequencer "github.com/evstack/ev-node/core/sequencer"
	"github.com/evstack/ev-node/node"
	"github.com/evstack/ev-node/pkg/config"
	"github.com/evstack/ev-node/pkg/genesis"
	"github.com/evstack/ev-node/pkg/signer"
	noopsigner "github.com/evstack/ev-node/pkg/signer/noop"
	"github.com/evstack/ev-node/pkg/store"
	single "github.com/evstack/ev-node/sequencers/single"
	"github.com/evstack/ev-node/types"
	pb "github.com/evstack/ev-node/types/pb/evnode/v1"

	"verif/harness/doubles/crashds"
	"verif/harness/vgen"
)

// ---- histories ---------------------------------------------------------------------------------

type Cfg struct {
	Max  int   `json:"max"`  // maxQueueSize of the single sequencer (0 = unlimited)
	GOff int64 `json:"goff"` // genesis time, ms after the base instant
	// Lim > 0: the size-boundary stream — the pool also holds the big transactions 10..19, sized around Lim bytes
	// (bigSizes).  The model does not see sizes: a transaction is its pool id.
	Lim int64 `json:"lim,omitempty"`
	// Pend > 0: the back-pressure stream — config Node.MaxPendingHeadersAndData (0 = unlimited, the default); the model
	// is Model/ReaperLimit.v (items hsub / dsub: the DA layer has accepted headers / data).
	Pend int `json:"pend,omitempty"`
}

// bigSizes: pool ids 10..19 of a case with Cfg.Lim = L.  10+11, 10+13, 10+15 total L exactly; 12 + one of 11/13/15
// totals L+1; 14 + one of them L-1; a small transaction (1..40 bytes, 20 kB) on top gives L + a few bytes; 17+19 = L+7;
// 18 alone is over L; three or four of them are several times L.
func bigSizes(L int64) []int64 {
	return []int64{L / 3, L - L/3, L/3 + 1, L - L/3, L/3 - 1, L - L/3, L / 15, L / 2, L + 1, L/2 + 7}
}

const bigFirst = 10 // first pool id of the big transactions

// fillFast fills b with pseudo-random bytes (xorshift64*), much faster than math/rand.Read for megabytes.
func fillFast(b []byte, x uint64) {
	if x == 0 {
		x = 0x9E3779B97F4A7C15
	}
	i := 0
	for ; i+8 <= len(b); i += 8 {
		x ^= x >> 12
		x ^= x << 25
		x ^= x >> 27
		binary.LittleEndian.PutUint64(b[i:], x*0x2545F4914F6CDD1D)
	}
	for ; i < len(b); i++ {
		x ^= x >> 12
		x ^= x << 25
		x ^= x >> 27
		b[i] = byte(x >> 32)
	}
}

// Item: T = arrive | boot | reap | produce.  Crash: the process dies inside this boot/reap/produce right after
// K of its atomic datastore writes became durable (K >= the number of writes: it dies at the end of the call).
// E (produce only): an ExecuteTxs call that follows the K-th write directly (before any further write is
// attempted) still reaches the execution layer.
// Fault: write attempt number K (from 0) of this boot/reap/produce returns an error; nothing of it reaches the
// datastore; the process lives on and every later write succeeds (K >= the number of attempts: no fault).
// X (produce only): the ExecuteTxs call of this step returns an error once (a transient failure of the execution
// layer); the process lives on.
// Mid = p >= 1 (produce only): the reaper's SubmitTxs runs to completion DURING this step (reaper loop and aggregation
// loop are two goroutines), after the first p acts of the step (act = a datastore write attempt or the ExecuteTxs
// call; p = 1 after a batch was taken: right after GetNextBatch has answered); E: as late as possible (just before act
// number p starts) instead of as early as possible (right after act number p-1 has returned) — the same point for
// the model, two points of the code.  p >= the number of acts: right after the step.
// N (arrive only): N > 1 = the transactions Tx, Tx+1, ..., Tx+N-1 arrive, in this order.
// T = hsub | dsub (Cfg.Pend > 0): the DA layer has accepted the headers / the data up to height (store height - K)
// (what HeaderSubmissionLoop / DataSubmissionLoop do to the producer: setLastSubmitted{Header,Data}Height on the running
// manager); the height is resolved when the item runs and kept in N.
type Item struct {
	T     string `json:"t"`
	Tx    int    `json:"tx,omitempty"` // arrive: pool id (>= 1)
	N     int    `json:"n,omitempty"`
	Ts    int64  `json:"ts,omitempty"` // produce: the sequencer's clock reading, ms after the base instant
	Crash bool   `json:"crash,omitempty"`
	Fault bool   `json:"fault,omitempty"`
	K     int    `json:"k,omitempty"`
	E     bool   `json:"e,omitempty"`
	X     bool   `json:"x,omitempty"`
	Mid   int    `json:"mid,omitempty"`
}

type Replay struct {
	Seed    int64  `json:"seed"`
	Case    int    `json:"case"`
	Cfg     Cfg    `json:"cfg"`
	History []Item `json:"history"`
}

const chainID = "c11-chain"
const poolSize = 9
const baseNano = int64(1_700_000_000) * 1_000_000_000

func msToTime(ms int64) time.Time { return time.Unix(0, baseNano+ms*1_000_000) }
func nanoToMs(n uint64) int64     { return (int64(n) - baseNano) / 1_000_000 }

func caseRng(seed int64, c int) *mrand.Rand {
	return mrand.New(mrand.NewSource(seed*1000003 + int64(c)))
}

// ---- the datastore stack ---------------------------------------------------------------------------

// countds sits between the components and the recording datastore and counts write ATTEMPTS, so that the
// harness knows whether the dead process has tried another write since it died.
type countds struct {
	ds.Batching
	mu       sync.Mutex
	attempts int
	w        *World // for the mid-step reap (Item.Mid)
}

func (c *countds) bump() { c.mu.Lock(); c.attempts++; c.mu.Unlock() }

// the queue's writes are made under the queue's mutex (queue.go AddBatch / Next): no reap can run there
func underQueueLock(k ds.Key) bool { return strings.HasPrefix(k.String(), "/batches/") }

// the two DA watermarks (pending_base.go setLastSubmittedHeight; numWaitingData steps the data watermark over Data
// without transactions): bookkeeping of the submission side, not an act of the model's produce step
func daMark(k ds.Key) bool {
	return strings.HasSuffix(k.String(), "/m/"+block.LastSubmittedDataHeightKey) || strings.HasSuffix(k.String(), "/m/"+store.LastSubmittedHeaderHeightKey)
}

func (c *countds) Put(ctx context.Context, k ds.Key, v []byte) error {
	if daMark(k) {
		return c.Batching.Put(ctx, k, v)
	}
	if c.w != nil && !underQueueLock(k) {
		c.w.midPre()
	}
	c.bump()
	err := c.Batching.Put(ctx, k, v)
	if c.w != nil {
		if underQueueLock(k) {
			c.w.midCountOnly()
		} else {
			c.w.midPost()
		}
	}
	return err
}
func (c *countds) Delete(ctx context.Context, k ds.Key) error {
	if c.w != nil && !underQueueLock(k) {
		c.w.midPre()
	}
	c.bump()
	err := c.Batching.Delete(ctx, k)
	if c.w != nil {
		if underQueueLock(k) {
			c.w.midCountOnly()
		} else {
			c.w.midPost()
		}
	}
	return err
}

type countBatch struct {
	ds.Batch
	c *countds
}

func (c *countds) Batch(ctx context.Context) (ds.Batch, error) {
	b, err := c.Batching.Batch(ctx)
	if err != nil {
		return nil, err
	}
	return &countBatch{Batch: b, c: c}, nil
}
func (b *countBatch) Commit(ctx context.Context) error {
	if b.c.w != nil {
		b.c.w.midPre()
	}
	b.c.bump()
	err := b.Batch.Commit(ctx)
	if b.c.w != nil {
		b.c.w.midPost()
	}
	return err
}

// ---- doubles -----------------------------------------------------------------------------------------

// mempool: the execution layer.  It survives the node's crashes (it is another process).
type mempool struct {
	w        *World
	txs      []int   // pool ids, arrival order
	taken    [][]int // what each GetTxs call returned (calls by a live process only)
	execs    int
	failNext bool // the next ExecuteTxs call returns errExec (Item.X)
	failed   int  // calls that were made to fail
}

var errExec = errors.New("mempool double: injected ExecuteTxs failure")

var _ coreexecutor.Executor = (*mempool)(nil)

func genesisRoot() []byte { h := sha256.Sum256([]byte("c11-genesis")); return h[:] }

func (m *mempool) InitChain(ctx context.Context, genesisTime time.Time, initialHeight uint64, chainID string) ([]byte, uint64, error) {
	return genesisRoot(), 1 << 20, nil
}
func (m *mempool) GetTxs(ctx context.Context) ([][]byte, error) {
	out := make([][]byte, 0, len(m.txs))
	for _, id := range m.txs {
		out = append(out, append([]byte{}, m.w.Pool[id]...))
	}
	// SubmitTxs calls GetTxs before its first write: the caller is alive whatever the crash index of the item
	m.taken = append(m.taken, append([]int{}, m.txs...))
	return out, nil
}
func (m *mempool) ExecuteTxs(ctx context.Context, txs [][]byte, blockHeight uint64, timestamp time.Time, prevStateRoot []byte) ([]byte, uint64, error) {
	if m.w.dead() {
		// the process is dead; only a call that follows the last durable write directly may still arrive (Item.E)
		if !(m.w.execAfterDeath && m.w.cnt.attempts == m.w.attemptsAtDeath && !m.w.execAfterDeathUsed) {
			return nil, 0, errors.New("mempool double: caller is dead")
		}
		m.w.execAfterDeathUsed = true
	}
	m.w.midPre() // a reap scheduled just before this call
	if m.failNext {
		m.failNext = false
		m.failed++
		m.w.midPost()
		return nil, 0, errExec
	}
	m.execs++
	h := sha256.New()
	h.Write(prevStateRoot)
	for _, tx := range txs {
		var l [4]byte
		binary.BigEndian.PutUint32(l[:], uint32(len(tx)))
		h.Write(l[:])
		h.Write(tx)
	}
	gone := map[int]bool{}
	for _, x := range m.w.txIDs(txs) {
		gone[x] = true
	}
	keep := m.txs[:0:0]
	for _, id := range m.txs {
		if !gone[id] {
			keep = append(keep, id)
		}
	}
	m.txs = keep
	m.w.midPost() // a reap scheduled right after this call
	return h.Sum(nil), 1 << 20, nil
}
func (m *mempool) SetFinal(ctx context.Context, blockHeight uint64) error { return nil }

// clockSeq passes every call to the real single.Sequencer and replaces the clock reading of GetNextBatch
// (sequencer.go: Timestamp: time.Now()) by the scripted instant.
type clockSeq struct {
	inner *single.Sequencer
	w     *World
}

var _ coresequencer.Sequencer = (*clockSeq)(nil)

func (s *clockSeq) SubmitBatchTxs(ctx context.Context, req coresequencer.SubmitBatchTxsRequest) (*coresequencer.SubmitBatchTxsResponse, error) {
	return s.inner.SubmitBatchTxs(ctx, req)
}
func (s *clockSeq) GetNextBatch(ctx context.Context, req coresequencer.GetNextBatchRequest) (*coresequencer.GetNextBatchResponse, error) {
	res, err := s.inner.GetNextBatch(ctx, req)
	if res != nil {
		res.Timestamp = msToTime(s.w.now)
	}
	if err == nil && res != nil && res.Batch != nil {
		// what the manager really gets (oracle bookkeeping; the response is not altered)
		s.w.handed, s.w.handedSet = s.w.txIDs(res.Batch.Transactions), true
	}
	s.w.midAt() // a reap scheduled right after the sequencer's answer (before the manager looks at it)
	return res, err
}
func (s *clockSeq) VerifyBatch(ctx context.Context, req coresequencer.VerifyBatchRequest) (*coresequencer.VerifyBatchResponse, error) {
	return s.inner.VerifyBatch(ctx, req)
}

type bcast[T any] struct{}

func (b *bcast[T]) WriteToStoreAndBroadcast(ctx context.Context, payload T) error { return nil }

// ---- the world ----------------------------------------------------------------------------------------

type World struct {
	Cfg     Cfg
	Pool    [][]byte // index = id; Pool[0] unused
	hashID  map[string]int
	Gen     genesis.Genesis
	Signer  signer.Signer
	RootDir string
	DS      *crashds.DS
	flt     *faultDS
	cnt     *countds
	mainKV  ds.Batching
	ctx     context.Context
	mem     *mempool
	now     int64

	// the running process (nil = down)
	nd *proc

	execAfterDeath     bool
	execAfterDeathUsed bool
	attemptsAtDeath    int

	// a reap in the middle of a produce step (Item.Mid)
	midActive bool
	midP      int  // the reap runs after this many acts of the step
	midLate   bool // just before act number midP starts (else: right after act number midP-1 has returned)
	midCount  int  // acts of the step so far
	midFired  bool
	inReap    bool
	idOf      map[string]int // bytes -> pool id

	// bookkeeping for the oracle
	batchOfKey map[string][]int // /batches key -> contents
	released   []release
	maxTs      int64
	crashes    int
	faults     int             // write faults that fired
	staleKeys  map[string]bool // /batches records whose Delete was made to fail: handed out by the running process, still on disk
	handed     []int           // the transactions of the last GetNextBatch response
	accepted   [][]int         // the hand-offs whose queue record became durable, in that order
	handedSet  bool            // GetNextBatch answered (without error) since the flag was cleared
	or         oracle
}

type proc struct {
	seq    *single.Sequencer
	m      *block.Manager
	reaper *block.Reaper
}

type release struct {
	item      int
	txs       []int
	regress   bool // the clock reading of the releasing step was before the last block's time
	lostWin   bool // the releasing step died after the delete and before a block save — and before it called ExecuteTxs
	faultSave bool // the releasing step's block save was made to fail and it saved no block
	kept      bool // the Delete of the batch's queue record was made to fail: the record is loaded again by the next start-up
}

// the mid-step reap: hooks called by the datastore stack, the execution-layer double and the sequencer wrapper
func (w *World) midFire() {
	w.midFired, w.inReap = true, true
	w.nd.reaper.SubmitTxs()
	w.inReap = false
}

// midPre: an act of the produce step (a write attempt outside the queue's lock, the ExecuteTxs call) is about to start
func (w *World) midPre() {
	if w.midActive && !w.inReap && !w.midFired && w.midLate && w.midCount == w.midP {
		w.midFire()
	}
}

// midPost: that act has returned
func (w *World) midPost() {
	if !w.midActive || w.inReap {
		return
	}
	w.midCount++
	if !w.midFired && !w.midLate && w.midCount == w.midP {
		w.midFire()
	}
}

// midCountOnly: an act made under the queue's lock (the Delete of Next) has returned
func (w *World) midCountOnly() {
	if w.midActive && !w.inReap {
		w.midCount++
	}
}

// midAt: GetNextBatch has answered
func (w *World) midAt() {
	if w.midActive && !w.inReap && !w.midFired && w.midCount == w.midP {
		w.midFire()
	}
}

var logger = func() logging.EventLogger {
	logging.SetAllLoggers(logging.LevelFatal)
	l := logging.Logger("c11")
	logging.SetAllLoggers(logging.LevelFatal)
	return l
}()

// manyFirst: first pool id of the "many small transactions" (8 bytes each, made on demand up to the largest id a
// history uses): hand-offs of hundreds or thousands of transactions, backlogs of many batches.
const manyFirst = 100

func NewWorld(r *mrand.Rand, cfg Cfg, maxID int) (*World, error) {
	w := &World{Cfg: cfg, ctx: context.Background(), hashID: map[string]int{}, idOf: map[string]int{}, batchOfKey: map[string][]int{}, staleKeys: map[string]bool{}, maxTs: cfg.GOff, now: cfg.GOff}
	w.Pool = make([][]byte, poolSize+1)
	seen := map[string]bool{}
	for i := 1; i <= poolSize; i++ {
		var b []byte
		for {
			switch {
			case i == 1:
				b = []byte{} // the empty transaction
			case i == 2:
				b = make([]byte, 20_000)
				r.Read(b)
			default:
				b = make([]byte, 1+r.Intn(40))
				r.Read(b)
			}
			if !seen[string(b)] {
				break
			}
		}
		seen[string(b)] = true
		w.Pool[i] = b
		h := sha256.Sum256(b)
		w.hashID[hex.EncodeToString(h[:])] = i
	}
	if cfg.Lim > 0 { // after the small ones: their bytes are the same function of (seed, case) as without Lim
		for k, sz := range bigSizes(cfg.Lim) {
			b := make([]byte, sz)
			fillFast(b, r.Uint64())
			if len(b) >= 2 {
				b[0], b[1] = 0xB1, byte(bigFirst+k) // distinct whatever the filling
			}
			w.Pool = append(w.Pool, b)
			h := sha256.Sum256(b)
			w.hashID[hex.EncodeToString(h[:])] = bigFirst + k
		}
	}
	if maxID >= manyFirst {
		x := r.Uint64() | 1
		for id := len(w.Pool); id <= maxID; id++ {
			b := make([]byte, 8)
			b[0] = 0xC7
			binary.BigEndian.PutUint32(b[1:5], uint32(id))
			x ^= x >> 12
			x ^= x << 25
			x ^= x >> 27
			b[5], b[6], b[7] = byte(x>>8), byte(x>>24), byte(x>>40)
			w.Pool = append(w.Pool, b) // distinct by the id inside; ids between the fixed pool and manyFirst are never used
			h := sha256.Sum256(b)
			w.hashID[hex.EncodeToString(h[:])] = id
		}
	}
	for id := len(w.Pool) - 1; id >= 1; id-- { // the smallest id wins (all bytes are distinct anyway)
		w.idOf[string(w.Pool[id])] = id
	}
	priv, _, err := crypto.GenerateEd25519Key(rand.Reader)
	if err != nil {
		return nil, err
	}
	sg, err := noopsigner.NewNoopSigner(priv)
	if err != nil {
		return nil, err
	}
	addr, err := sg.GetAddress()
	if err != nil {
		return nil, err
	}
	w.Signer = sg
	w.Gen = genesis.NewGenesis(chainID, 1, msToTime(cfg.GOff), addr)
	dir, err := os.MkdirTemp(os.Getenv("VERIF_OUT"), "c11root")
	if err != nil {
		return nil, err
	}
	w.RootDir = dir
	w.DS = crashds.New()
	w.flt = newFaultDS(w.DS)
	w.cnt = &countds{Batching: w.flt, w: w}
	// node/full.go:87: mainKV := newPrefixKV(database, RollkitPrefix)
	w.mainKV = ktds.Wrap(w.cnt, ktds.PrefixTransform{Prefix: ds.NewKey(node.RollkitPrefix)})
	w.mem = &mempool{w: w}
	return w, nil
}

func (w *World) Close() { _ = os.RemoveAll(w.RootDir) }

func (w *World) dead() bool { return w.DS.FailAfter >= 0 && w.DS.Len() >= w.DS.FailAfter }

func (w *World) txIDs(txs [][]byte) []int {
	out := make([]int, 0, len(txs))
	for _, t := range txs {
		id, ok := w.idOf[string(t)]
		if !ok {
			id = 999999
		}
		out = append(out, id)
	}
	return out
}

func (w *World) Store() store.Store { return store.New(w.mainKV) }

// boot builds the three components the way the node does: apps/evm/single/cmd/run.go:57 (sequencer on the bare
// datastore), node/full.go:87-130 (store and reaper on the prefixed one, reaper.SetManager).
func (w *World) boot() (*proc, error) {
	seq, err := single.NewSequencerWithQueueSize(w.ctx, logger, w.cnt, nil, []byte(chainID), time.Second, nil, true, w.Cfg.Max)
	if err != nil {
		return nil, err
	}
	cs := &clockSeq{inner: seq, w: w}
	cfg := config.DefaultConfig
	cfg.RootDir = w.RootDir
	cfg.Node.Aggregator = true
	cfg.Node.MaxPendingHeadersAndData = uint64(w.Cfg.Pend)
	cfg.Node.BlockTime.Duration = time.Second
	m, err := block.NewManager(w.ctx, w.Signer, cfg, w.Gen, store.New(w.mainKV), w.mem, cs, nil, logger,
		nil, nil, &bcast[*types.SignedHeader]{}, &bcast[*types.Data]{}, block.NopMetrics(), 1, 1, block.DefaultManagerOptions())
	if err != nil {
		return nil, err
	}
	rp := block.NewReaper(w.ctx, w.mem, cs, chainID, time.Second, logger, w.mainKV)
	rp.SetManager(m)
	return &proc{seq: seq, m: m, reaper: rp}, nil
}

// ---- observations ---------------------------------------------------------------------------------------

// Shape of one atomic write that reached the datastore.
type Shape struct {
	Failed bool   // the attempt that was made to fail (nothing reached the datastore)
	K      string // qput qdel meta block state height seen other
	Txs    []int
	N      uint64
	T      int64
	Signed bool
	Tx     int
	Raw    string
}

type Obs struct {
	Res    string  // arrived boot-ok boot-fail reaped committed skipped e-time e-store e-validate e-other not-running crashed panic
	Writes []Shape // the writes that reached the datastore; a write-fault item: plus, at its place, the failed attempt (Failed)
	ErrTxt string
	Cause  string // a refused produce: which half of the back-pressure test held (read from the real manager before the step)
}

func (w *World) shapeOf(wr crashds.Write) Shape {
	if wr.Batch {
		sh := Shape{K: "other", Raw: "batch"}
		for _, p := range wr.Prims {
			switch {
			case strings.HasPrefix(p.Key, "/0/h/") && !p.Del:
				var hd types.SignedHeader
				if err := hd.UnmarshalBinary(p.Value); err == nil {
					sh.K, sh.N, sh.T = "block", hd.Height(), nanoToMs(hd.BaseHeader.Time)
				}
			case strings.HasPrefix(p.Key, "/0/d/") && !p.Del:
				var d types.Data
				if err := d.UnmarshalBinary(p.Value); err == nil {
					txs := make([][]byte, len(d.Txs))
					for i := range d.Txs {
						txs[i] = d.Txs[i]
					}
					sh.Txs = w.txIDs(txs)
				}
			case strings.HasPrefix(p.Key, "/0/c/") && !p.Del:
				sh.Signed = len(p.Value) > 0
			}
		}
		return sh
	}
	p := wr.Prims[0]
	switch {
	case strings.HasPrefix(p.Key, "/batches/") && p.Del:
		return Shape{K: "qdel", Txs: w.batchOfKey[p.Key]}
	case strings.HasPrefix(p.Key, "/batches/"):
		var b pb.Batch
		if err := proto.Unmarshal(p.Value, &b); err != nil {
			return Shape{K: "other", Raw: p.Key}
		}
		ids := w.txIDs(b.Txs)
		w.batchOfKey[p.Key] = ids
		return Shape{K: "qput", Txs: ids}
	case p.Del:
		return Shape{K: "other", Raw: "del:" + p.Key}
	case p.Key == "/0/t" && len(p.Value) == 8:
		return Shape{K: "height", N: binary.LittleEndian.Uint64(p.Value)}
	case p.Key == "/0/s":
		var s pb.State
		if err := proto.Unmarshal(p.Value, &s); err != nil {
			return Shape{K: "other", Raw: p.Key}
		}
		return Shape{K: "state", N: s.LastBlockHeight}
	case p.Key == "/0/m/l":
		return Shape{K: "meta"}
	case !p.Del && daMark(ds.NewKey(p.Key)):
		return Shape{K: "damark"}
	case strings.HasPrefix(p.Key, "/0/") && len(p.Key) == 3+64:
		if id, ok := w.hashID[p.Key[3:]]; ok && bytes.Equal(p.Value, []byte{1}) {
			return Shape{K: "seen", Tx: id}
		}
	}
	return Shape{K: "other", Raw: p.Key}
}

func (w *World) lastBlockTime() (int64, bool) {
	st := w.Store()
	h, _ := st.Height(w.ctx)
	if h == 0 {
		return 0, false
	}
	hd, err := st.GetHeader(w.ctx, h)
	if err != nil {
		return 0, false
	}
	return nanoToMs(hd.BaseHeader.Time), true
}

// Run executes item number idx against the real code.
func (w *World) Run(idx int, it Item) (obs Obs) {
	defer func() {
		if x := recover(); x != nil {
			obs.Res, obs.ErrTxt = "panic", fmt.Sprint(x)
			w.nd = nil
			w.DS.FailAfter = -1
			w.or.fail("panic", fmt.Sprintf("item %d (%s) panicked: %v", idx, it.T, x), idx)
		}
	}()
	if it.T == "arrive" {
		w.mem.txs = append(w.mem.txs, it.Tx)
		for i := 1; i < it.N; i++ {
			w.mem.txs = append(w.mem.txs, it.Tx+i)
		}
		return Obs{Res: "arrived"}
	}
	if it.T == "hsub" || it.T == "dsub" {
		if w.nd == nil {
			return Obs{Res: "not-running"}
		}
		if it.T == "hsub" {
			w.nd.m.VerifC11SetLastSubmittedHeaderHeight(w.ctx, uint64(it.N))
		} else {
			w.nd.m.VerifC11SetLastSubmittedDataHeight(w.ctx, uint64(it.N))
		}
		return Obs{Res: "arrived"}
	}
	start := w.DS.Len()
	w.handed, w.handedSet = nil, false
	if it.Crash {
		if it.T == "boot" || w.nd != nil {
			w.crashes++
		}
		w.DS.FailAfter = start + it.K
		w.execAfterDeath, w.execAfterDeathUsed = it.E, false
		w.attemptsAtDeath = w.cnt.attempts + it.K
	}
	if it.Fault {
		w.flt.Arm(it.K)
	}
	var failed *Shape // the write attempt that was made to fail, if the action got that far
	disarm := func() {
		if !it.Fault || failed != nil {
			return
		}
		if fw := w.flt.Disarm(); fw != nil {
			sh := w.shapeOf(*fw)
			sh.Failed = true
			failed = &sh
			w.faults++
			if sh.K == "qdel" {
				w.staleKeys[fw.Prims[0].Key] = true
			}
		}
	}
	switch it.T {
	case "boot":
		w.nd = nil
		w.staleKeys = map[string]bool{} // Load puts every record back into the in-memory queue
		p, err := w.boot()
		disarm()
		if err != nil {
			obs.Res, obs.ErrTxt = "boot-fail", err.Error()
			if failed == nil || !errors.Is(err, ErrFault) {
				w.or.fail("boot-failed", fmt.Sprintf("item %d: the node does not start: %v", idx, err), idx)
			}
		} else {
			obs.Res = "boot-ok"
			w.nd = p
		}
	case "reap":
		if w.nd == nil {
			obs.Res = "not-running"
			break
		}
		w.nd.reaper.SubmitTxs()
		disarm()
		obs.Res = "reaped"
	case "produce":
		if w.nd == nil {
			obs.Res = "not-running"
			break
		}
		w.now = it.Ts
		last, haveLast := w.lastBlockTime()
		before, _ := w.Store().Height(w.ctx)
		w.handed, w.handedSet = nil, false
		execsBefore := w.mem.execs
		w.mem.failNext = it.X
		if it.Mid > 0 {
			w.midActive, w.midP, w.midLate, w.midCount, w.midFired = true, it.Mid, it.E, 0, false
		}
		cause := "data-backlog-at-limit(headers-below)"
		if w.Cfg.Pend > 0 && w.nd.m.VerifNumPendingHeaders() >= uint64(w.Cfg.Pend) {
			cause = "header-backlog-at-limit"
		}
		err := w.nd.m.VerifPublishBlock(w.ctx)
		w.mem.failNext = false
		if it.Mid > 0 {
			w.midActive = false
			if !w.midFired { // the step made fewer acts: the reap follows it
				w.nd.reaper.SubmitTxs()
			}
		}
		disarm()
		after, _ := w.Store().Height(w.ctx)
		switch {
		case err == nil && after == before+1:
			obs.Res = "committed"
		case err == nil && after == before && !w.handedSet && w.mem.execs == execsBefore && w.Cfg.Pend > 0:
			obs.Res, obs.Cause = "refused", cause // nil, nothing committed, neither the sequencer nor the executor was called
		case err == nil && after == before:
			obs.Res = "skipped"
		case err != nil && strings.Contains(err.Error(), "timestamp is not monotonically increasing"):
			obs.Res, obs.ErrTxt = "e-time", err.Error()
		case err != nil && failed != nil && errors.Is(err, ErrFault):
			obs.Res, obs.ErrTxt = "e-store", err.Error() // the step returned the injected write error
		case err != nil && it.X && errors.Is(err, errExec) && strings.Contains(err.Error(), "error applying block"):
			obs.Res, obs.ErrTxt = "e-exec", err.Error() // the step returned the error of ExecuteTxs
		case err != nil && strings.Contains(err.Error(), "failed to validate block"):
			obs.Res, obs.ErrTxt = "e-validate", err.Error()
		default:
			obs.Res = "e-other"
			if err != nil {
				obs.ErrTxt = err.Error()
			}
		}
		// oracle bookkeeping: which batch did this step release, and under which circumstances
		var del []int
		hasDel, hasBlock := false, false
		for _, wr := range w.DS.Log[start:] {
			sh := w.shapeOf(wr)
			if sh.K == "qdel" {
				hasDel, del = true, sh.Txs
			}
			if sh.K == "block" {
				hasBlock = true
			}
		}
		if failed != nil && failed.K == "qdel" { // handed out by GetNextBatch although the Delete of its record failed
			hasDel, del = true, failed.Txs
		}
		if w.handedSet && len(w.handed) > 0 && (hasDel || !it.Crash) {
			// the batch as the manager of a live process got it (on the code as it is: the whole record, deleted in
			// this step); a process that died before the Delete became durable has handed out nothing that counts
			hasDel, del = true, w.handed
		}
		if hasDel {
			// the listed crash window lies between the queue Delete and the early block save, BEFORE the executor is
			// called: a step that died with the batch in hand after it had called ExecuteTxs is not in it
			w.released = append(w.released, release{item: idx, txs: del, regress: haveLast && it.Ts < last,
				lostWin:   it.Crash && !hasBlock && w.mem.execs == execsBefore,
				faultSave: failed != nil && failed.K == "block" && !hasBlock,
				kept:      failed != nil && failed.K == "qdel"})
		}
	default:
		panic("bad item " + it.T)
	}
	if it.Crash {
		w.DS.FailAfter = -1
		w.execAfterDeath = false
		w.nd = nil
		if obs.Res != "not-running" {
			obs = Obs{Res: "crashed"}
		}
	}
	disarm()
	for i, wr := range w.DS.Log[start:] {
		if failed != nil && i == it.K {
			obs.Writes = append(obs.Writes, *failed)
		}
		sh := w.shapeOf(wr)
		if sh.K == "damark" {
			continue
		}
		if sh.K == "qput" {
			w.accepted = append(w.accepted, sh.Txs)
		}
		obs.Writes = append(obs.Writes, sh)
	}
	if failed != nil && len(w.DS.Log[start:]) <= it.K {
		obs.Writes = append(obs.Writes, *failed)
	}
	return obs
}

// ---- final state ---------------------------------------------------------------------------------------

type PBlock struct {
	Txs    []int
	T      int64
	Signed bool
}

type Final struct {
	Blocks   []PBlock // the block records at heights 1, 2, ... as far as they exist
	SH, TH   uint64   // height of the stored state (0 = none), store height
	Queue    [][]int  // the /batches records in key order
	Seen     []int    // sorted
	Mem      []int
	Taken    []int   // all transactions GetTxs returned, in order
	Released [][]int // the batches the sequencer handed out (queue record deleted, or its Delete made to fail), in order
	Up       bool
	HSub     uint64 // Cfg.Pend > 0: last submitted header height, numPendingHeaders, numWaitingData of the running manager
	HPend    uint64
	Wait     uint64
	queued   int // records under /batches that the running process still holds in its in-memory queue
}

func (w *World) Final() Final {
	var f Final
	st := w.Store()
	f.TH, _ = st.Height(w.ctx)
	if s, err := st.GetState(w.ctx); err == nil {
		f.SH = s.LastBlockHeight
	}
	for n := uint64(1); ; n++ {
		hd, d, err := st.GetBlockData(w.ctx, n)
		if err != nil {
			break
		}
		txs := make([][]byte, len(d.Txs))
		for i := range d.Txs {
			txs[i] = d.Txs[i]
		}
		sig, err := st.GetSignature(w.ctx, n)
		f.Blocks = append(f.Blocks, PBlock{Txs: w.txIDs(txs), T: nanoToMs(hd.BaseHeader.Time), Signed: err == nil && sig != nil && len(*sig) > 0})
	}
	dump, _ := crashds.Dump(w.ctx, w.DS)
	for _, p := range dump { // sorted by key = Load's order
		switch {
		case strings.HasPrefix(p.Key, "/batches/"):
			var b pb.Batch
			if proto.Unmarshal(p.Value, &b) == nil {
				f.Queue = append(f.Queue, w.txIDs(b.Txs))
			}
			if !w.staleKeys[p.Key] {
				f.queued++
			}
		case strings.HasPrefix(p.Key, "/0/") && len(p.Key) == 3+64:
			if id, ok := w.hashID[p.Key[3:]]; ok {
				f.Seen = append(f.Seen, id)
			}
		}
	}
	sort.Ints(f.Seen)
	f.Mem = append([]int{}, w.mem.txs...)
	for _, t := range w.mem.taken {
		f.Taken = append(f.Taken, t...)
	}
	for _, r := range w.released {
		f.Released = append(f.Released, r.txs)
	}
	f.Up = w.nd != nil
	if w.Cfg.Pend > 0 && w.nd != nil {
		f.HSub, f.HPend = w.nd.m.VerifLastSubmittedHeaderHeight(), w.nd.m.VerifNumPendingHeaders()
	}
	return f
}

// quiet: nothing is in flight (node up, no batch queued, no block saved above the store height, every
// transaction in the mempool is marked seen) — read from the real datastore.
func (w *World) quiet() bool {
	if w.nd == nil {
		return false
	}
	f := w.Final()
	if f.queued > 0 || uint64(len(f.Blocks)) > f.TH {
		return false
	}
	for _, id := range f.Mem {
		h := sha256.Sum256(w.Pool[id])
		if ok, _ := w.mainKV.Has(w.ctx, ds.NewKey(hex.EncodeToString(h[:]))); !ok {
			return false
		}
	}
	return true
}

// ---- the Go oracle -----------------------------------------------------------------------------------------

type oracle struct {
	Sigs []string
	What []string
}

func (o *oracle) fail(sig, what string, _ int) {
	for _, s := range o.Sigs {
		if s == sig {
			return
		}
	}
	o.Sigs = append(o.Sigs, sig)
	o.What = append(o.What, what)
}

const (
	sigF12     = "regressed-timestamp-nonempty-batch-dropped"
	sigF13     = "crash-between-queue-delete-and-early-block-save"
	sigDupReap = "same-bytes-twice-in-one-reap-included-twice"
	sigFSave   = "store-fault-at-early-block-save-after-queue-delete"
)

func eqInts(a, b []int) bool {
	if len(a) != len(b) {
		return false
	}
	for i := range a {
		if a[i] != b[i] {
			return false
		}
	}
	return true
}

// judge evaluates the property on the final state of the real node (after the drain).
func (w *World) judge(f Final, quiesced bool) {
	if !quiesced {
		w.or.fail("no-quiescence", "after the drain (produce + reap rounds with non-decreasing timestamps, no crash) something is still in flight (or a produce on the quiet node still handed out a batch)", -1)
		return
	}
	var chain [][]int
	count := map[int]int{}
	for n := uint64(0); n < f.TH && n < uint64(len(f.Blocks)); n++ {
		if len(f.Blocks[n].Txs) > 0 {
			chain = append(chain, f.Blocks[n].Txs)
		}
		for _, t := range f.Blocks[n].Txs {
			count[t]++
		}
	}
	// (2) the non-empty committed blocks are the released batches, in release order
	j := 0
	var dropped []release
	for _, r := range w.released {
		if j < len(chain) && eqInts(chain[j], r.txs) {
			j++
		} else {
			dropped = append(dropped, r)
		}
	}
	if j < len(chain) {
		w.or.fail("block-not-a-released-batch-in-order", fmt.Sprintf("non-empty committed block number %d %v is not the next released batch (released: %v)", j+1, chain[j], f.Released), -1)
	}
	cause := func(r release) string {
		// the releasing step itself decides: a process that died in the window never reached the timestamp test
		if r.lostWin {
			return sigF13
		}
		if r.faultSave {
			return sigFSave
		}
		if r.regress {
			return sigF12
		}
		reg, win, fs := false, false, false
		for _, x := range w.released {
			if eqInts(x.txs, r.txs) {
				reg = reg || x.regress
				win = win || x.lostWin
				fs = fs || x.faultSave
			}
		}
		switch {
		case reg:
			return sigF12
		case win:
			return sigF13
		case fs:
			return sigFSave
		}
		return ""
	}
	for _, r := range dropped {
		lost := false
		for _, t := range r.txs {
			if count[t] == 0 {
				lost = true
			}
		}
		if c := cause(r); c == sigF12 {
			w.or.fail(sigF12, fmt.Sprintf("item %d: the batch %v was taken from the queue (record deleted) with a clock reading before the last block's time; publishBlockInternal returned an error and the batch is in no block (transactions lost: %v)", r.item, r.txs, lost), r.item)
		} else if c == sigF13 {
			w.or.fail(sigF13, fmt.Sprintf("item %d: the process died after the queue record of batch %v was deleted and before the block was saved; after the restart the batch is in no block (transactions lost: %v)", r.item, r.txs, lost), r.item)
		} else if c == sigFSave {
			w.or.fail(sigFSave, fmt.Sprintf("item %d: the batch %v was taken from the queue (record deleted), then the early SaveBlockData of the block built from it returned a (transient) error; publishBlockInternal returned the error and the batch is in no block (transactions lost: %v)", r.item, r.txs, lost), r.item)
		} else {
			w.or.fail("released-batch-not-included", fmt.Sprintf("item %d: released batch %v is in no committed block", r.item, r.txs), r.item)
		}
	}
	// (2b) hand-off order, end to end: every hand-off the sequencing layer accepted (its record became durable) is
	// released, in the order of acceptance; a batch is released a second time only if the Delete of its record was made
	// to fail (the record is loaded again by the next start-up)
	ai, orderOK := 0, true
	for ri, r := range w.released {
		if ai < len(w.accepted) && eqInts(w.accepted[ai], r.txs) {
			ai++
			continue
		}
		again := false
		for _, x := range w.released[:ri] {
			if x.kept && eqInts(x.txs, r.txs) {
				again = true
			}
		}
		if !again {
			next := "none"
			if ai < len(w.accepted) {
				next = fmt.Sprint(w.accepted[ai])
			}
			w.or.fail("released-not-in-acceptance-order", fmt.Sprintf("item %d: the sequencer released %v, but the oldest accepted hand-off not yet released is %s (accepted, in order: %v; released: %v)", r.item, r.txs, next, w.accepted, f.Released), r.item)
			orderOK = false
			break
		}
	}
	if orderOK && ai < len(w.accepted) {
		w.or.fail("accepted-hand-off-never-released", fmt.Sprintf("the hand-off %v was accepted by the sequencer (record durable, transactions marked seen) but never released although the queue is drained (accepted: %v; released: %v)", w.accepted[ai], w.accepted, f.Released), -1)
	}
	// (1) no loss: every transaction GetTxs returned is in a committed block
	for _, t := range f.Taken {
		if count[t] > 0 {
			continue
		}
		explained := false
		for _, r := range dropped {
			for _, x := range r.txs {
				if x == t && cause(r) != "" {
					explained = true
				}
			}
		}
		if !explained {
			w.or.fail("taken-transaction-not-in-chain", fmt.Sprintf("transaction %d was returned by GetTxs but is in no committed block after quiescence (and in no batch dropped by a listed defect)", t), -1)
		}
	}
	// (3) without a crash nothing is included twice (a write fault that fired leaves the same traces as a crash: a
	// hand-off whose mark failed, a handed-out batch whose record stayed)
	if w.crashes == 0 && w.faults == 0 {
		for t, c := range count {
			if c > 1 {
				twice := false
				for _, tk := range w.mem.taken {
					n := 0
					for _, x := range tk {
						if x == t {
							n++
						}
					}
					if n > 1 {
						twice = true
					}
				}
				if twice {
					w.or.fail(sigDupReap, fmt.Sprintf("transaction %d was in the mempool twice during one reap and is in the chain %d times although nothing crashed", t, c), -1)
				} else {
					w.or.fail("included-twice-without-crash", fmt.Sprintf("transaction %d is in the chain %d times although nothing crashed", t, c), -1)
				}
			}
		}
	}
}

// ---- running a case ------------------------------------------------------------------------------------------

type caseRun struct {
	w    *World
	hist []Item // the history as run, drain included
	obs  []Obs
	fin  Final
}

func runCase(seed int64, c int, cfg Cfg, hist []Item) (*caseRun, error) {
	maxID := 0
	for _, it := range hist {
		if it.T == "arrive" {
			if hi := it.Tx + it.N; hi > maxID {
				maxID = hi
			}
		}
	}
	w, err := NewWorld(caseRng(seed, c+7777), cfg, maxID)
	if err != nil {
		return nil, err
	}
	cr := &caseRun{w: w}
	do := func(it Item) {
		if it.T == "hsub" || it.T == "dsub" { // resolve "store height - K" now
			th, _ := w.Store().Height(w.ctx)
			it.N = 0
			if int(th) > it.K {
				it.N = int(th) - it.K
			}
		}
		cr.obs = append(cr.obs, w.Run(len(cr.hist), it))
		cr.hist = append(cr.hist, it)
	}
	for _, it := range hist {
		do(it)
		if it.T == "produce" && it.Ts > w.maxTs {
			w.maxTs = it.Ts // the drain never goes below any instant used so far
		}
	}
	// drain
	if w.nd == nil {
		do(Item{T: "boot"})
	}
	limit := 2*len(hist) + 10
	// quiescent = the datastore shows nothing in flight (quiet) AND a produce on that quiet node handed out nothing:
	// a batch that the running sequencer holds in memory without a record is still in flight
	q, confirmed := w.quiet(), false
	for i := 0; i < limit && !(q && confirmed); i++ {
		wasQuiet, nrel := q, len(w.released)
		if cfg.Pend > 0 { // the DA layer accepts everything: no back-pressure during the drain
			do(Item{T: "hsub"})
			do(Item{T: "dsub"})
		}
		do(Item{T: "produce", Ts: w.maxTs})
		confirmed = wasQuiet && w.handedSet && len(w.handed) == 0 && len(w.released) == nrel
		if cr.obs[len(cr.obs)-1].Res == "e-validate" {
			do(Item{T: "boot"}) // the running node refuses to produce (its state is above the store height): restart it
		}
		do(Item{T: "reap"})
		q = w.quiet()
	}
	cr.fin = w.Final()
	if cfg.Pend > 0 && w.nd != nil {
		cr.fin.Wait = w.nd.m.VerifC11NumWaitingData(w.ctx)
	}
	w.judge(cr.fin, q && confirmed)
	return cr, nil
}

// ---- Coq printing -----------------------------------------------------------------------------------------------

// txsCoq prints a list of ids; a run of 6 or more consecutive ids is printed as (rng first count) — Check/ReaperCheck.v.
func txsCoq(txs []int) string {
	if len(txs) == 0 {
		return "[]"
	}
	var segs []string
	var lit []string
	flush := func() {
		if len(lit) > 0 {
			segs = append(segs, "["+strings.Join(lit, ";")+"]%N")
			lit = nil
		}
	}
	for i := 0; i < len(txs); {
		j := i + 1
		for j < len(txs) && txs[j] == txs[j-1]+1 {
			j++
		}
		if j-i >= 6 {
			flush()
			segs = append(segs, fmt.Sprintf("rng %d %d", txs[i], j-i))
		} else {
			for k := i; k < j; k++ {
				lit = append(lit, fmt.Sprint(txs[k]))
			}
		}
		i = j
	}
	flush()
	if len(segs) == 1 && strings.HasPrefix(segs[0], "[") {
		return segs[0]
	}
	return "(" + strings.Join(segs, " ++ ") + ")"
}

// segList joins list segments: literal elements are collected into [..] lists, whole-list expressions stand alone.
type segList struct {
	segs []string
	lit  []string
}

func (l *segList) elem(e string) { l.lit = append(l.lit, e) }
func (l *segList) list(e string) {
	if len(l.lit) > 0 {
		l.segs = append(l.segs, vgen.List(l.lit))
		l.lit = nil
	}
	l.segs = append(l.segs, e)
}
func (l *segList) String() string {
	if len(l.lit) > 0 || len(l.segs) == 0 {
		l.segs = append(l.segs, vgen.List(l.lit))
		l.lit = nil
	}
	if len(l.segs) == 1 {
		return l.segs[0]
	}
	return "(" + strings.Join(l.segs, " ++ ") + ")"
}

func batchesCoq(bs [][]int) string {
	p := make([]string, len(bs))
	for i, b := range bs {
		p[i] = txsCoq(b)
	}
	return "[" + strings.Join(p, "; ") + "]"
}

func itemCoq(it Item) string {
	switch it.T {
	case "hsub":
		return fmt.Sprintf("LHdrSub %d", it.N)
	case "dsub":
		return fmt.Sprintf("LDataSub %d", it.N)
	case "arrive":
		return "IArrive " + vgen.N(uint64(it.Tx))
	case "boot":
		if it.Crash {
			return fmt.Sprintf("ICrash ABoot %d false", it.K)
		}
		if it.Fault {
			return fmt.Sprintf("IFault ABoot %d", it.K)
		}
		return "IRun ABoot"
	case "reap":
		if it.Crash {
			return fmt.Sprintf("ICrash AReap %d false", it.K)
		}
		if it.Fault {
			return fmt.Sprintf("IFault AReap %d", it.K)
		}
		return "IRun AReap"
	case "produce":
		if it.X {
			return fmt.Sprintf("IExecFail %s", vgen.Z(it.Ts))
		}
		if it.Mid > 0 {
			return fmt.Sprintf("IMid %s %d", vgen.Z(it.Ts), it.Mid-1)
		}
		if it.Fault {
			return fmt.Sprintf("IFault (AProduce %s) %d", vgen.Z(it.Ts), it.K)
		}
		if it.Crash {
			return fmt.Sprintf("ICrash (AProduce %s) %d %s", vgen.Z(it.Ts), it.K, vgen.Bool(it.E))
		}
		return fmt.Sprintf("IRun (AProduce %s)", vgen.Z(it.Ts))
	}
	return "IBad"
}

var resCode = map[string]int{"arrived": 0, "boot-ok": 1, "reaped": 2, "committed": 3, "skipped": 4, "e-time": 5, "not-running": 6, "crashed": 7,
	"e-store": 9, "e-validate": 10, "boot-fail": 11, "e-exec": 12, "refused": 13}

func shapeCoq(s Shape) string {
	if s.Failed {
		s.Failed = false
		return "WFail (" + shapeCoq(s) + ")"
	}
	switch s.K {
	case "qput":
		return "WQPut " + txsCoq(s.Txs)
	case "qdel":
		return "WQDel " + txsCoq(s.Txs)
	case "meta":
		return "WMeta"
	case "block":
		return fmt.Sprintf("WBlock %d %s %s %s", s.N, txsCoq(s.Txs), vgen.Z(s.T), vgen.Bool(s.Signed))
	case "state":
		return fmt.Sprintf("WState %d", s.N)
	case "height":
		return fmt.Sprintf("WHeight %d", s.N)
	case "seen":
		return "WSeen " + vgen.N(uint64(s.Tx))
	}
	return "WOther"
}

func (o Obs) coq() string {
	code, ok := resCode[o.Res]
	if !ok {
		code = 99
	}
	var sl segList
	for i := 0; i < len(o.Writes); {
		j := i
		for j < len(o.Writes) && o.Writes[j].K == "seen" && !o.Writes[j].Failed && o.Writes[j].Tx == o.Writes[i].Tx+(j-i) {
			j++
		}
		if j-i >= 6 { // a run of marks of consecutive ids
			sl.list(fmt.Sprintf("seens %d %d", o.Writes[i].Tx, j-i))
			i = j
			continue
		}
		sl.elem(shapeCoq(o.Writes[i]))
		i++
	}
	return fmt.Sprintf("(%d%%N, %s)", code, sl.String())
}

func (f Final) coq() string {
	bl := make([]string, len(f.Blocks))
	for i, b := range f.Blocks {
		bl[i] = fmt.Sprintf("(%s, %s, %s)", txsCoq(b.Txs), vgen.Z(b.T), vgen.Bool(b.Signed))
	}
	return fmt.Sprintf("mk_fin %s %d %d %s %s %s %s %s %s", vgen.List(bl), f.SH, f.TH, batchesCoq(f.Queue), txsCoq(f.Seen), txsCoq(f.Mem),
		txsCoq(f.Taken), batchesCoq(f.Released), vgen.Bool(f.Up))
}

func caseCoq(cfg Cfg, cr *caseRun) string {
	if cfg.Pend > 0 { // Check/ReaperLimitCheck.v
		var items, obs []string
		for i, it := range cr.hist {
			n := 1
			if it.T == "arrive" && it.N > 1 {
				n = it.N
			}
			for k := 0; k < n; k++ {
				switch it.T {
				case "hsub", "dsub":
					items = append(items, itemCoq(it))
				case "arrive":
					items = append(items, "LBase (IArrive "+vgen.N(uint64(it.Tx+k))+")")
				default:
					items = append(items, "LBase ("+itemCoq(it)+")")
				}
				o := cr.obs[i]
				if o.Res == "not-running" && (it.T == "hsub" || it.T == "dsub") {
					obs = append(obs, "(6%N, [])")
				} else {
					obs = append(obs, o.coq())
				}
			}
		}
		return fmt.Sprintf("CL (mk_lcase %d%%N %d%%N %s %s %s (%s) %d %d %d)", cfg.Pend, cfg.Max, vgen.Z(cfg.GOff), vgen.List(items), vgen.List(obs),
			cr.fin.coq(), cr.fin.HSub, cr.fin.HPend, cr.fin.Wait)
	}
	return "CB (" + caseCoqBase(cfg, cr) + ")"
}

func caseCoqBase(cfg Cfg, cr *caseRun) string {
	var items, obs segList
	for i, it := range cr.hist {
		if it.T == "arrive" && it.N > 1 { // N arrivals = N items of the model
			items.list(fmt.Sprintf("arrivals %d %d", it.Tx, it.N))
			obs.list(fmt.Sprintf("arr_obs %d", it.N))
			continue
		}
		items.elem(itemCoq(it))
		obs.elem(cr.obs[i].coq())
	}
	return fmt.Sprintf("mk_case %d%%N %s %s %s (%s)", cfg.Max, vgen.Z(cfg.GOff), items.String(), obs.String(), cr.fin.coq())
}

// ---- generator ---------------------------------------------------------------------------------------------------

func gen(r *mrand.Rand, tier string, c int) (Cfg, []Item) {
	switch c % 12 {
	case 1: // restarts while accepted batches wait, then further hand-offs, then restarts again
		return genBacklog(r, tier)
	case 5: // reaps in the middle of produce steps, failing ExecuteTxs calls
		return genConc(r, tier)
	case 7: // one hand-off of very many transactions against a queue that is almost full
		return genCount(r, tier)
	case 11: // the pending-submission limit: headers and data confirmed by the DA layer independently
		return genLimit(r, tier)
	}
	if c%6 == 3 { // the size-boundary stream
		if r.Intn(10) < 7 {
			return genBig(r, tier)
		}
		// the generic mix over a pool with the big transactions, fresh ids in a random order
		lim := bigLimits[r.Intn(len(bigLimits))]
		order := r.Perm(bigFirst + len(bigSizes(lim)) - 1)
		for i := range order {
			order[i]++
		}
		return genMix(r, tier, lim, order)
	}
	return genMix(r, tier, 0, nil)
}

// genMix: the generic generator.  order = the pool ids in the order in which fresh bytes arrive (nil: 1..poolSize).
func genMix(r *mrand.Rand, tier string, lim int64, order []int) (Cfg, []Item) {
	cfg := Cfg{Max: []int{1, 1, 2, 3, 0, 1000}[r.Intn(6)], GOff: int64(r.Intn(3)) * 2500, Lim: lim}
	if order == nil {
		for i := 1; i <= poolSize; i++ {
			order = append(order, i)
		}
	}
	maxLen := 36
	if tier == "thorough" {
		maxLen = 90
	}
	n := 4 + r.Intn(maxLen)
	crashPct := []int{0, 0, 6, 14}[r.Intn(4)]             // half of the cases are crash-free (the no-duplicate clause)
	regressPct := []int{0, 0, 0, 8}[r.Intn(4)]            // a quarter of the cases let the clock step back
	dupPct := []int{0, 5, 25}[r.Intn(3)]                  // repeats of bytes that arrived before
	faultPct := []int{0, 0, 0, 12, 24}[r.Intn(5)]         // transient write faults (30% of the cases have neither crash nor fault)
	execPct := []int{0, 0, 0, 10}[r.Intn(4)]              // a quarter of the cases: ExecuteTxs calls that fail
	midPct := []int{0, 0, 10, 25}[r.Intn(4)]              // half of the cases: reaps in the middle of produce steps
	produceK := []int{0, 0, 1, 1, 1, 2, 2, 3, 3, 4, 5, 6} // the write attempt of a produce that fails: every one of its writes, the early ones more often
	freshNext := 0
	var arrived []int
	cur := cfg.GOff
	h := []Item{}
	down := true
	if r.Intn(10) > 0 {
		h = append(h, Item{T: "boot"})
		down = false
	}
	for i := 0; i < n; i++ {
		x := r.Intn(100)
		if len(h) > 0 && h[len(h)-1].Crash {
			down = true
		}
		if down && r.Intn(4) > 0 {
			x = 99 // a node that is down is mostly restarted before anything else happens
		}
		switch {
		case x < 34:
			it := Item{T: "arrive"}
			if (len(arrived) > 0 && r.Intn(100) < dupPct) || freshNext >= len(order) {
				if len(arrived) == 0 {
					continue
				}
				it.Tx = arrived[r.Intn(len(arrived))]
			} else {
				it.Tx = order[freshNext]
				freshNext++
			}
			arrived = append(arrived, it.Tx)
			h = append(h, it)
		case x < 60:
			it := Item{T: "reap"}
			if r.Intn(100) < crashPct {
				it.Crash, it.K = true, r.Intn(5)
			} else if r.Intn(100) < faultPct {
				it.Fault, it.K = true, r.Intn(5)
			}
			h = append(h, it)
		case x < 94:
			it := Item{T: "produce"}
			d := int64(1 + r.Intn(3000))
			switch y := r.Intn(100); {
			case y < regressPct:
				d = -int64(1 + r.Intn(3000))
			case y < regressPct+8:
				d = 0
			}
			it.Ts = cur + d
			if d > 0 {
				cur = it.Ts
			}
			if r.Intn(100) < crashPct {
				it.Crash, it.K, it.E = true, r.Intn(8), r.Intn(2) == 0
			} else if r.Intn(100) < faultPct {
				it.Fault, it.K = true, produceK[r.Intn(len(produceK))]
			} else if r.Intn(100) < execPct {
				it.X = true
			} else if r.Intn(100) < midPct {
				it.Mid, it.E = midPoints[r.Intn(len(midPoints))], r.Intn(2) == 0
			}
			h = append(h, it)
		default:
			it := Item{T: "boot"}
			if r.Intn(100) < crashPct {
				it.Crash, it.K = true, r.Intn(3)
			} else if r.Intn(100) < faultPct {
				it.Fault, it.K = true, r.Intn(2)
			}
			down = it.Crash || it.Fault // a start-up whose write fails leaves no process
			h = append(h, it)
		}
	}
	return cfg, h
}

// the point of a produce step at which a concurrent reap runs: after the sequencer's answer most often
var midPoints = []int{1, 1, 1, 1, 2, 2, 3, 4, 5, 6, 7, 8}

// ---- restarts while batches wait -----------------------------------------------------------------------------------

// genBacklog: reaping outpaces block production (a stalled or slow producer) and the node is restarted while accepted
// batches wait: 2..4 (thorough: ..6) lives, each = 1..4 hand-offs of 1..3 fresh transactions (ids from manyFirst),
// fewer produces than batches waiting (so that some are taken and some stay), and an end: clean restart (55%), a crash
// in a reap / produce / start-up followed by a start-up (30%), nothing (15%).  Then the drain.
func genBacklog(r *mrand.Rand, tier string) (Cfg, []Item) {
	cfg := Cfg{Max: []int{0, 0, 1000, 5, 4, 3}[r.Intn(6)], GOff: int64(r.Intn(3)) * 2500}
	cur := cfg.GOff
	tick := func() int64 { cur += int64(1 + r.Intn(3000)); return cur }
	next := manyFirst
	h := []Item{{T: "boot"}}
	if r.Intn(4) > 0 {
		h = append(h, Item{T: "produce", Ts: tick()})
	}
	lives := 2 + r.Intn(3)
	if tier == "thorough" {
		lives = 2 + r.Intn(5)
	}
	waiting := 0
	for l := 0; l < lives; l++ {
		a := 1 + r.Intn(4)
		for i := 0; i < a; i++ {
			n := 1 + r.Intn(3)
			h = append(h, Item{T: "arrive", Tx: next, N: n})
			next += n
			if r.Intn(8) == 0 && next > manyFirst+2 { // bytes that arrived before (already seen: not handed off again)
				h = append(h, Item{T: "arrive", Tx: manyFirst + r.Intn(next-manyFirst)})
			}
			h = append(h, Item{T: "reap"})
			waiting++
			if r.Intn(5) == 0 {
				h = append(h, Item{T: "produce", Ts: tick()})
				if waiting > 0 {
					waiting--
				}
			}
		}
		t := 0
		if waiting > 1 {
			t = r.Intn(waiting) // at least one batch stays behind
		}
		for i := 0; i < t; i++ {
			h = append(h, Item{T: "produce", Ts: tick()})
			waiting--
		}
		switch y := r.Intn(100); {
		case y < 55:
			h = append(h, Item{T: "boot"})
		case y < 65:
			h = append(h, Item{T: "arrive", Tx: next}, Item{T: "reap", Crash: true, K: r.Intn(4)}, Item{T: "boot"})
			next++
		case y < 77:
			h = append(h, Item{T: "produce", Ts: tick(), Crash: true, K: r.Intn(8), E: r.Intn(2) == 0}, Item{T: "boot"})
		case y < 85:
			h = append(h, Item{T: "boot", Crash: true, K: r.Intn(3)}, Item{T: "boot"})
		}
	}
	return cfg, h
}

// ---- concurrency: a reap inside a produce step; failing executions ------------------------------------------------------

// genConc: the reaper keeps up with the producer (the queue holds 0..2 batches) and its SubmitTxs falls INTO produce
// steps: 6..30 (thorough: ..70) rounds of: 0..2 transactions arrive, sometimes a reap, a produce step that — per-case
// rates — has a reap in its middle (60/35%: after p = 1..8 of its acts, p = 1 most often; as early or as late as that
// point allows), whose ExecuteTxs call fails (0/12%), or is plain; 5% restarts.  Then the drain.
func genConc(r *mrand.Rand, tier string) (Cfg, []Item) {
	cfg := Cfg{Max: []int{0, 1, 1, 2, 3, 1000}[r.Intn(6)], GOff: int64(r.Intn(3)) * 2500}
	cur := cfg.GOff
	tick := func() int64 { cur += int64(1 + r.Intn(3000)); return cur }
	next := manyFirst
	midPct := []int{60, 60, 35}[r.Intn(3)]
	execPct := []int{0, 12, 12}[r.Intn(3)]
	reapPct := []int{20, 50, 80}[r.Intn(3)]
	rounds := 6 + r.Intn(25)
	if tier == "thorough" {
		rounds = 6 + r.Intn(65)
	}
	h := []Item{{T: "boot"}}
	if r.Intn(4) > 0 {
		h = append(h, Item{T: "produce", Ts: tick()})
	}
	for i := 0; i < rounds; i++ {
		if n := []int{0, 1, 1, 1, 2}[r.Intn(5)]; n > 0 {
			h = append(h, Item{T: "arrive", Tx: next, N: n})
			next += n
		}
		if r.Intn(100) < reapPct {
			h = append(h, Item{T: "reap"})
			if r.Intn(3) == 0 {
				h = append(h, Item{T: "arrive", Tx: next})
				next++
			}
		}
		p := Item{T: "produce", Ts: tick()}
		switch y := r.Intn(100); {
		case y < execPct:
			p.X = true
		case y < execPct+midPct:
			p.Mid, p.E = midPoints[r.Intn(len(midPoints))], r.Intn(2) == 0
		}
		h = append(h, p)
		if r.Intn(100) < 5 {
			h = append(h, Item{T: "boot"})
		}
	}
	return cfg, h
}

// ---- the pending-submission limit -----------------------------------------------------------------------------------------

// genLimit: MaxPendingHeadersAndData = 1..4.  Per case the DA layer is in one of the modes, switched now and then:
// accepts both (after every block, with a lag of 0..2 heights), accepts headers and stalls on data, accepts data and
// stalls on headers, stalls on both.  8..40 (thorough: ..90) rounds of: 0..2 transactions arrive, mostly a reap, a
// produce step (plain; per-case 0/20% with a reap in its middle, 0/10% with a failing ExecuteTxs), then the DA layer's
// confirmations for the mode.  4% restarts, per-case 0/8% crashes / write faults inside a reap or a start-up.  Then the
// drain (the DA layer accepts everything before every produce).
func genLimit(r *mrand.Rand, tier string) (Cfg, []Item) {
	cfg := Cfg{Max: []int{0, 0, 1, 2, 3, 1000}[r.Intn(6)], GOff: int64(r.Intn(3)) * 2500, Pend: []int{1, 2, 2, 3, 3, 4}[r.Intn(6)]}
	cur := cfg.GOff
	tick := func() int64 { cur += int64(1 + r.Intn(3000)); return cur }
	next := manyFirst
	rounds := 8 + r.Intn(33)
	if tier == "thorough" {
		rounds = 8 + r.Intn(83)
	}
	midPct := []int{0, 20}[r.Intn(2)]
	execPct := []int{0, 10}[r.Intn(2)]
	badPct := []int{0, 0, 8}[r.Intn(3)]
	// modes: 0 both accepted, 1 headers only (data stalls), 2 data only, 3 neither
	mode := []int{0, 1, 1, 1, 2, 3}[r.Intn(6)]
	h := []Item{{T: "boot"}}
	for i := 0; i < rounds; i++ {
		if r.Intn(100) < 12 {
			mode = []int{0, 1, 1, 2, 3}[r.Intn(5)]
		}
		if n := []int{0, 1, 1, 1, 2}[r.Intn(5)]; n > 0 {
			h = append(h, Item{T: "arrive", Tx: next, N: n})
			next += n
		}
		if r.Intn(100) < 75 {
			rp := Item{T: "reap"}
			if y := r.Intn(100); y < badPct {
				if r.Intn(2) == 0 {
					rp.Crash, rp.K = true, r.Intn(3)
				} else {
					rp.Fault, rp.K = true, r.Intn(3)
				}
			}
			h = append(h, rp)
			if rp.Crash {
				h = append(h, Item{T: "boot"})
			}
		}
		p := Item{T: "produce", Ts: tick()}
		switch y := r.Intn(100); {
		case y < execPct:
			p.X = true
		case y < execPct+midPct:
			p.Mid, p.E = midPoints[r.Intn(len(midPoints))], r.Intn(2) == 0
		}
		h = append(h, p)
		lag := []int{0, 0, 0, 1, 2}[r.Intn(5)]
		if mode == 0 || mode == 1 {
			h = append(h, Item{T: "hsub", K: lag})
		}
		if mode == 0 || mode == 2 {
			h = append(h, Item{T: "dsub", K: []int{0, 0, 0, 1, 2}[r.Intn(5)]})
		}
		if r.Intn(100) < 4 {
			b := Item{T: "boot"}
			if r.Intn(100) < badPct {
				b.Crash, b.K = true, r.Intn(2)
				h = append(h, b, Item{T: "boot"})
			} else {
				h = append(h, b)
			}
		}
	}
	return cfg, h
}

// ---- the count-boundary stream -----------------------------------------------------------------------------------------

// the numbers of transactions around which ONE hand-off is sized (a per-batch or per-block transaction limit a
// sequencing layer could apply); quick runs take the small ones more often
var countLimits = []int{16, 64, 100, 128, 256, 500, 512, 1000, 1000, 1024}

// genCount: block production is stalled or slow, so the queue (bound 2..5, sometimes none) is filled by small hand-offs
// up to one or two free slots; then a burst of L-1 / L / L+1 / 2L-1 / 2L / 2L+1 / 2L+L/2 / 3L / 3L+1 transactions
// (quick runs with L >= 500: up to 2L+1)
// (consecutive ids from manyFirst) arrives and is handed off in ONE reap — accepted as one batch by the code as it is;
// then produce and reap steps alternate (a mempool keeps listing a transaction until it is executed: a hand-off that
// was refused is offered again in full), sometimes with a restart, sometimes with a second, smaller burst; then the drain.
func genCount(r *mrand.Rand, tier string) (Cfg, []Item) {
	L := countLimits[r.Intn(len(countLimits))]
	if tier != "thorough" && L >= 500 && r.Intn(3) > 0 {
		L = countLimits[r.Intn(5)]
	}
	cfg := Cfg{Max: []int{2, 3, 3, 4, 5, 0}[r.Intn(6)], GOff: int64(r.Intn(3)) * 2500}
	cur := cfg.GOff
	tick := func() int64 { cur += int64(1 + r.Intn(3000)); return cur }
	h := []Item{{T: "boot"}}
	if r.Intn(4) > 0 {
		h = append(h, Item{T: "produce", Ts: tick()})
	}
	small := []int{2, 3, 4, 5, 6, 7, 8, 9}
	r.Shuffle(len(small), func(i, j int) { small[i], small[j] = small[j], small[i] })
	free := 1 + r.Intn(2)
	fill := cfg.Max - free
	if cfg.Max == 0 {
		fill = r.Intn(3)
	}
	for i := 0; i < fill && i < len(small); i++ {
		h = append(h, Item{T: "arrive", Tx: small[i]}, Item{T: "reap"})
	}
	next := manyFirst
	burst := func(n int) {
		h = append(h, Item{T: "arrive", Tx: next, N: n})
		next += n
	}
	sizes := []int{L - 1, L, L + 1, 2*L - 1, 2 * L, 2*L + 1, 2*L + L/2, 3 * L, 3*L + 1}
	if tier != "thorough" && L >= 500 {
		sizes = sizes[:6] // the model's evaluation is quadratic in the size of a hand-off
	}
	burst(sizes[r.Intn(len(sizes))])
	h = append(h, Item{T: "reap"})
	steps := 3 + r.Intn(6)
	for i := 0; i < steps; i++ {
		switch y := r.Intn(100); {
		case y < 45:
			h = append(h, Item{T: "produce", Ts: tick()})
		case y < 85:
			h = append(h, Item{T: "reap"})
		case y < 92:
			h = append(h, Item{T: "boot"})
		default:
			burst(1 + r.Intn(L))
		}
	}
	return cfg, h
}

// ---- the size-boundary stream ---------------------------------------------------------------------------------------

// the byte limits a size-aware hand-out could use: 1 500 000 (sequencers/based DefaultMaxBlobSize; most often), 1 MiB
// (the maxBytes the execution layer reports), 1 MB, 2 MB, 64*64*482 (da/cmd/local-da DefaultMaxBlobSize)
var bigLimits = []int64{1_500_000, 1_500_000, 1_500_000, 1_500_000, 1_500_000, 1 << 20, 1_000_000, 2_000_000, 64 * 64 * 482}

// genBig: boot, a first block, then 1..3 rounds of: ONE hand-off whose transactions total just under / exactly / just
// over the limit (or several times the limit, or a single over-limit transaction with company) — sometimes with a
// second, small hand-off queued behind it —, the block that takes it, then a clean restart / a crash in the next
// produce / a crash in a start-up / nothing, then one or two more blocks.  Crashes and write faults at the hand-off
// and at the taking block with a small probability.  The drain follows as for every history.
func genBig(r *mrand.Rand, tier string) (Cfg, []Item) {
	lim := bigLimits[r.Intn(len(bigLimits))]
	cfg := Cfg{Max: []int{0, 0, 1000, 3, 2}[r.Intn(5)], GOff: int64(r.Intn(3)) * 2500, Lim: lim}
	thirds := []int{10, 12, 14}     // L/3, L/3+1, L/3-1
	twoThirds := []int{11, 13, 15}  // L - L/3 each
	extras := []int{16, 17, 19, 18} // L/15, L/2, L/2+7, L+1
	smalls := []int{2, 3, 4, 5, 6, 7, 8, 9, 1}
	r.Shuffle(len(thirds), func(i, j int) { thirds[i], thirds[j] = thirds[j], thirds[i] })
	r.Shuffle(len(twoThirds), func(i, j int) { twoThirds[i], twoThirds[j] = twoThirds[j], twoThirds[i] })
	r.Shuffle(len(extras), func(i, j int) { extras[i], extras[j] = extras[j], extras[i] })
	r.Shuffle(len(smalls), func(i, j int) { smalls[i], smalls[j] = smalls[j], smalls[i] })
	take := func(l *[]int) (int, bool) {
		if len(*l) == 0 {
			return 0, false
		}
		x := (*l)[0]
		*l = (*l)[1:]
		return x, true
	}
	insert := func(b []int, x int) []int {
		k := r.Intn(len(b) + 1)
		b = append(b, 0)
		copy(b[k+1:], b[k:])
		b[k] = x
		return b
	}
	cur := cfg.GOff
	tick := func() int64 { cur += int64(1 + r.Intn(3000)); return cur }
	h := []Item{{T: "boot"}}
	if r.Intn(10) > 0 {
		h = append(h, Item{T: "produce", Ts: tick()})
	}
	rounds := 1 + r.Intn(3)
	if tier == "thorough" {
		rounds = 1 + r.Intn(4)
	}
	for i := 0; i < rounds; i++ {
		var b []int
		pair := func() {
			t, ok1 := take(&thirds)
			u, ok2 := take(&twoThirds)
			if ok1 && ok2 {
				if r.Intn(2) == 0 {
					b = append(b, t, u)
				} else {
					b = append(b, u, t)
				}
			}
		}
		switch k := r.Intn(10); {
		case k < 6: // the pair: L-1, L or L+1; often with one or two small transactions somewhere (L + a few bytes)
			pair()
			for n := []int{0, 0, 1, 1, 2}[r.Intn(5)]; n > 0; n-- {
				if x, ok := take(&smalls); ok {
					b = insert(b, x)
				}
			}
		case k < 8: // the pair and one of the extras: well over, up to twice the limit
			pair()
			if x, ok := take(&extras); ok {
				b = insert(b, x)
			}
		case k < 9: // extras only (L/2 + L/2+7, a single over-limit transaction first / last / alone, ...)
			for n := 1 + r.Intn(3); n > 0; n-- {
				if x, ok := take(&extras); ok {
					b = insert(b, x)
				}
			}
			if x, ok := take(&smalls); ok && r.Intn(2) == 0 {
				b = insert(b, x)
			}
		default: // control: a small batch
			if x, ok := take(&smalls); ok {
				b = append(b, x)
			}
		}
		if len(b) == 0 {
			if x, ok := take(&smalls); ok {
				b = append(b, x)
			}
		}
		for _, x := range b {
			h = append(h, Item{T: "arrive", Tx: x})
		}
		reap := Item{T: "reap"}
		switch y := r.Intn(100); {
		case y < 6:
			reap.Crash, reap.K = true, r.Intn(5)
		case y < 12:
			reap.Fault, reap.K = true, r.Intn(5)
		}
		h = append(h, reap)
		if reap.Crash {
			h = append(h, Item{T: "boot"}, Item{T: "reap"})
		}
		if r.Intn(10) < 3 { // a second hand-off waits behind the big one
			if x, ok := take(&smalls); ok {
				h = append(h, Item{T: "arrive", Tx: x}, Item{T: "reap"})
			}
		}
		// the block that takes the big batch
		p := Item{T: "produce", Ts: tick()}
		switch y := r.Intn(100); {
		case y < 6:
			p.Crash, p.K, p.E = true, r.Intn(8), r.Intn(2) == 0
		case y < 12:
			p.Fault, p.K = true, r.Intn(7)
		}
		h = append(h, p)
		if p.Crash {
			h = append(h, Item{T: "boot"})
		}
		// what happens between that block and the next
		switch y := r.Intn(100); {
		case y < 45: // a clean restart
			h = append(h, Item{T: "boot"})
		case y < 57: // the next produce dies
			h = append(h, Item{T: "produce", Ts: tick(), Crash: true, K: r.Intn(8), E: r.Intn(2) == 0}, Item{T: "boot"})
		case y < 64: // a start-up that dies, then a good one
			h = append(h, Item{T: "boot", Crash: true, K: r.Intn(3)}, Item{T: "boot"})
		case y < 70: // a reap, then a restart
			h = append(h, Item{T: "reap"}, Item{T: "boot"})
		}
		h = append(h, Item{T: "produce", Ts: tick()})
		if r.Intn(2) == 0 {
			h = append(h, Item{T: "produce", Ts: tick()})
		}
		if r.Intn(10) < 3 {
			h = append(h, Item{T: "reap"})
		}
	}
	return cfg, h
}

func nontrivial(cr *caseRun) bool {
	reaps, blocks := 0, 0
	for i, o := range cr.obs {
		if cr.hist[i].T == "reap" && len(o.Writes) > 0 {
			reaps++
		}
	}
	for n := uint64(0); n < cr.fin.TH && n < uint64(len(cr.fin.Blocks)); n++ {
		if len(cr.fin.Blocks[n].Txs) > 0 {
			blocks++
		}
	}
	return reaps >= 1 && blocks >= 1
}

// ---- TestVerif ------------------------------------------------------------------------------------------------------

func TestVerif(t *testing.T) {
	e := vgen.GetEnv()
	res := vgen.NewResult("C11", e)
	type job struct {
		rp  Replay
		gen bool
	}
	var jobs []job
	if e.Replay != "" {
		var rp Replay
		if err := vgen.LoadReplay(e.Replay, &rp); err != nil {
			t.Fatal(err)
		}
		jobs = append(jobs, job{rp: rp})
	} else {
		if os.Getenv("VERIF_NO_CORPUS") == "" {
			files, _ := filepath.Glob("../corpus/C11/*.json")
			sort.Strings(files)
			for _, f := range files {
				var rp Replay
				if vgen.LoadReplay(f, &rp) == nil && len(rp.History) > 0 {
					jobs = append(jobs, job{rp: rp})
				}
			}
		}
		for c := 0; c < e.N; c++ {
			jobs = append(jobs, job{rp: Replay{Seed: e.Seed, Case: c}, gen: true})
		}
	}
	var cases []string
	distinct := map[string]bool{}
	shrunk := map[string]bool{}
	for ji, j := range jobs {
		rp := j.rp
		if j.gen {
			rp.Cfg, rp.History = gen(caseRng(rp.Seed, rp.Case), e.Tier, rp.Case)
		}
		cr, err := runCase(rp.Seed, rp.Case, rp.Cfg, rp.History)
		if err != nil {
			t.Fatalf("harness error: %v", err)
		}
		res.Evaluations++
		res.Count(fmt.Sprintf("cfg:max-queue=%d", rp.Cfg.Max))
		if rp.Cfg.Lim > 0 {
			// coverage of the size-boundary stream, measured on what the real code did
			res.Count(fmt.Sprintf("size:cases-with-limit=%d", rp.Cfg.Lim))
			bytesOf := func(txs []int) int64 {
				var n int64
				for _, t := range txs {
					if t >= 1 && t < len(cr.w.Pool) {
						n += int64(len(cr.w.Pool[t]))
					}
				}
				return n
			}
			class := func(n int64) string {
				L := rp.Cfg.Lim
				switch {
				case n < L/2:
					return "small(<L/2)"
				case n < L-64:
					return "under(L/2..L-65)"
				case n < L:
					return "just-under(L-64..L-1)"
				case n == L:
					return "exactly-L"
				case n <= L+64:
					return "just-over(L+1..L+64)"
				case n < 2*L:
					return "over(L+65..2L-1)"
				}
				return "several-times(>=2L)"
			}
			for i, o := range cr.obs {
				if cr.hist[i].T == "reap" && len(o.Writes) > 0 && o.Writes[0].K == "qput" && !o.Writes[0].Failed {
					res.Count("size:hand-off-total:" + class(bytesOf(o.Writes[0].Txs)))
				}
				if cr.hist[i].T != "produce" {
					continue
				}
				took := int64(-1)
				for _, sh := range o.Writes {
					if sh.K == "qdel" {
						took = bytesOf(sh.Txs)
					}
				}
				if took <= rp.Cfg.Lim {
					continue
				}
				next := "end-of-history"
				for j := i + 1; j < len(cr.hist); j++ {
					if cr.hist[j].T == "arrive" {
						continue
					}
					next = cr.hist[j].T
					if cr.hist[j].Crash {
						next += "-crash"
					}
					if cr.hist[j].Fault {
						next += "-fault"
					}
					break
				}
				if cr.hist[i].Crash {
					res.Count("size:over-limit-batch-taken-by-a-produce-that-died")
				} else {
					res.Count("size:after-the-produce-that-took-an-over-limit-batch:" + next)
				}
			}
		}
		if j.gen {
			res.Count("stream:" + map[int]string{1: "backlog-restarts", 5: "concurrent-reaps-and-failing-executions", 7: "count-boundary", 3: "size-boundary", 9: "size-boundary", 11: "pending-limit"}[rp.Case%12])
		}
		// coverage of the new classes, measured on what the real code did
		waitingNow, releasedSoFar := 0, 0
		for i, it := range cr.hist {
			o := cr.obs[i]
			nput, ndel := 0, 0
			for _, sh := range o.Writes {
				if sh.K == "qput" && !sh.Failed {
					nput++
					n := len(sh.Txs)
					switch {
					case n <= 10:
						res.Count("hand-off-count:1-10")
					case n < 100:
						res.Count("hand-off-count:11-99")
					case n < 1000:
						res.Count("hand-off-count:100-999")
					case n == 1000:
						res.Count("hand-off-count:1000")
					case n < 2000:
						res.Count("hand-off-count:1001-1999")
					default:
						res.Count("hand-off-count:2000+")
					}
					if n >= 100 {
						free := "unbounded"
						if rp.Cfg.Max > 0 {
							free = fmt.Sprint(rp.Cfg.Max - waitingNow)
						}
						res.Count("hand-off-of-100+-transactions:free-queue-slots=" + free)
					}
				}
				if sh.K == "qdel" {
					ndel++
				}
			}
			if it.T == "boot" && !it.Crash && o.Res == "boot-ok" && i > 0 {
				w := waitingNow
				if w > 3 {
					w = 3
				}
				res.Count(fmt.Sprintf("restart:batches-waiting=%d%s:taken-before=%v", w, map[bool]string{true: "+", false: ""}[waitingNow > 3], releasedSoFar > 0))
			}
			if it.T == "produce" && it.X {
				res.Count(fmt.Sprintf("exec-fail:%s:batch-in-hand=%v", o.Res, ndel > 0))
			}
			if it.T == "produce" && o.Res == "refused" {
				res.Count(fmt.Sprintf("pending-limit:refused:%s:non-empty-batch-waiting=%v", o.Cause, waitingNow > 0))
			}
			if it.T == "produce" && rp.Cfg.Pend > 0 && ndel > 0 {
				res.Count("pending-limit:produce-took-a-batch:" + o.Res)
			}
			if it.T == "produce" && it.Mid > 0 && o.Res != "not-running" {
				p := it.Mid
				if p > 8 {
					p = 8
				}
				when := "early"
				if it.E {
					when = "late"
				}
				res.Count(fmt.Sprintf("mid-reap:after-act-%d:%s", p, when))
				if nput > 0 {
					res.Count(fmt.Sprintf("mid-reap:handed-off-inside-the-step:step-took-a-batch=%v:queue-drained-by-the-step=%v", ndel > 0, ndel > 0 && waitingNow == 1))
				}
			}
			waitingNow += nput - ndel
			releasedSoFar += ndel
			if waitingNow < 0 {
				waitingNow = 0
			}
		}
		crashFree := true
		for i, it := range cr.hist {
			k := "item:" + it.T
			if it.Crash {
				crashFree = false
				k += "-crash"
				res.Count(fmt.Sprintf("crash:%s-k=%d", it.T, it.K))
			}
			if it.X {
				k += "-exec-fails"
			}
			if it.Mid > 0 {
				k += "-with-reap-inside"
			}
			if it.Fault {
				k += "-fault"
				what := "none(fewer-writes)"
				if cr.obs[i].Res == "not-running" {
					what = "node-down"
				}
				for _, sh := range cr.obs[i].Writes {
					if sh.Failed {
						what = sh.K
					}
				}
				res.Count(fmt.Sprintf("fault:%s:failed-write=%s:%s", it.T, what, cr.obs[i].Res))
			}
			res.Count(k)
			res.Count("result:" + it.T + ":" + cr.obs[i].Res)
			if it.T == "reap" && !it.Crash && cr.obs[i].Res == "reaped" {
				switch {
				case len(cr.obs[i].Writes) > 0:
					res.Count("reap:handed-off")
				default:
					res.Count("reap:nothing-new-or-refused")
				}
			}
		}
		if crashFree {
			res.Count("history:crash-free")
		}
		if crashFree && cr.w.faults == 0 {
			res.Count("history:crash-free-and-no-write-fault-fired")
		}
		for _, r := range cr.w.released {
			if r.regress {
				res.Count("history:nonempty-batch-released-with-regressed-clock")
			}
			if r.lostWin {
				res.Count("history:died-between-queue-delete-and-block-save")
			}
			if r.faultSave {
				res.Count("history:early-block-save-failed-after-queue-delete")
			}
		}
		res.Count(fmt.Sprintf("chain-length:%s", bucket(cr.fin.TH)))
		if nontrivial(cr) {
			distinct[fmt.Sprint(rp.Cfg, rp.History)] = true
		}
		for vi, sig := range cr.w.or.Sigs {
			hist := rp.History
			what := cr.w.or.What[vi]
			if !shrunk[sig] || e.Replay != "" {
				shrunk[sig] = true
				run := func(h []Item) (string, bool) {
					c2, err := runCase(rp.Seed, rp.Case, rp.Cfg, h)
					if err != nil {
						return "", false
					}
					defer c2.w.Close()
					for i, s := range c2.w.or.Sigs {
						if s == sig {
							return c2.w.or.What[i], true
						}
					}
					return "", false
				}
				hist = vgen.Shrink(rp.History, func(h []Item) bool { _, ok := run(h); return ok })
				if wh, ok := run(hist); ok {
					what = wh
				}
			}
			res.Violations = append(res.Violations, vgen.Violation{Signature: sig, What: what, Case: ji,
				Replay: Replay{Seed: rp.Seed, Case: rp.Case, Cfg: rp.Cfg, History: hist}})
		}
		cases = append(cases, caseCoq(rp.Cfg, cr))
		res.Replays[fmt.Sprint(ji)] = rp
		if len(res.Samples) < 3 && nontrivial(cr) && len(rp.History) >= 8 {
			var os []string
			for i, o := range cr.obs {
				os = append(os, fmt.Sprintf("%s -> %s %d writes", cr.hist[i].T, o.Res, len(o.Writes)))
			}
			res.Samples = append(res.Samples, map[string]interface{}{"cfg": rp.Cfg, "history": rp.History, "observed": os,
				"final": map[string]interface{}{"store_height": cr.fin.TH, "taken": cr.fin.Taken, "released": cr.fin.Released}})
		}
		cr.w.Close()
	}
	res.Distinct = len(distinct)
	res.Rule = "streams by case index mod 12: 1 = restarts while batches wait (2..4 lives of 1..4 hand-offs of 1..3 fresh transactions, fewer produces than waiting batches, then clean restart 55% / crash in reap, produce or start-up + restart 30% / nothing; bounds none,1000,5,4,3), 5 = concurrency (6..30 rounds of arrivals, optional reap, a produce that has a complete reap in its middle after p = 1..8 of its acts (p = 1, right after the sequencer's answer, a third of the time; early or late at that point) at a per-case rate of 35/60%, or whose ExecuteTxs call fails at 0/12%; bounds none,1,1,2,3,1000), 7 = count boundary (queue bound 2..5 or none filled to 1..2 free slots by small hand-offs, then ONE hand-off of L-1, L, L+1, 2L-1, 2L, 2L+1, 2.5L, 3L or 3L+1 transactions for L from {16,64,100,128,256,500,512,1000,1024}, then 3..8 produce / reap / restart / further-burst steps), 3 and 9 = size boundary (below); 11 = pending limit (MaxPendingHeadersAndData 1..4; DA layer accepting both / headers only (data stalls) / data only / neither, switched with 12% per round; 8..40 rounds of arrivals, a reap (75%), a produce (per-case 0/20% with a reap inside, 0/10% with a failing ExecuteTxs), the confirmations of the mode with a lag of 0..2 heights; 4% restarts; per-case 0/8% crashes / write faults inside reaps and start-ups; the drain confirms everything before each produce; corpus data-stall-under-pending-limit); every other index = the generic mix, in which a quarter of the cases let 10% of the plain produces fail at ExecuteTxs and half of the cases give 10/25% of them a reap in the middle.  Corpus: + exec-failure-and-concurrent-reap-at-every-point, hand-off-of-1100-against-an-almost-full-queue.  Oracle: + every accepted hand-off (durable record) is released in acceptance order, a second time only after a failed record Delete; a batch dropped by a step that died AFTER calling ExecuteTxs is not attributed to the listed crash window.  GENERIC MIX: queue bound from {1,1,2,3,unlimited,1000}; optional first boot; 4..40 (quick) / 4..94 (thorough) items: 34% a transaction arrives (fresh bytes, or with a per-case probability of 0/5/25% bytes that arrived before; pool of 9 incl. the empty and a 20 kB transaction), 26% reap, 34% produce (clock +1..3000 ms, 8% equal, in a quarter of the cases 8% stepping back), 6% reboot; per-case crash rate 0/0/6/14% of the boots, reaps and produces, dying after k = 0..2 / 0..4 / 0..7 of their datastore writes (produce: with or without the ExecuteTxs call that follows the last durable write); per-case write-fault rate 0/0/0/12/24% of the remaining boots, reaps and produces: write attempt k = 0..1 / 0..4 / 0..6 (produce: early writes more often) returns an error once, the process lives on; corpus: a fault at every write of a batch-taking produce, of an empty produce, of a pending-block produce, of a hand-off and of a start-up; then the drain (boot if down, produce + reap rounds until nothing is in flight AND a produce on the quiet node has handed out nothing, restart of a node that refuses to produce with a validation error); size-boundary stream = every generated case with index = 3 mod 6 + corpus size-boundary-hand-offs-then-restart: the pool also holds 10 big transactions sized around a limit L from {1 500 000 (5/9), 2^20, 10^6, 2*10^6, 64*64*482} (L/3, L/3+-1, 3 x (L - L/3), L/15, L/2, L/2+7, L+1 bytes); 70% structured: boot, a block, 1..3 rounds of ONE hand-off totalling L-1 / L / L+1 (60%, often plus one or two small transactions anywhere in it), the pair plus a third big one (20%), big extras only (10%), a small control batch (10%), 30% a second small hand-off behind it, the produce that takes it (6% dying after k = 0..7 writes, 6% write fault), then 45% clean restart / 12% the next produce dies / 7% a start-up dies / 6% reap + restart / 30% nothing, then one or two more produces; 30%: the generic mix with the 19 pool ids arriving in a random order; non-trivial = at least one hand-off and one non-empty committed block; distinct = distinct (configuration, history)"
	res.Cases = len(cases)
	header := "From Coq Require Import NArith ZArith List Bool.\nFrom Verif Require Import Model.Reaper Model.ReaperLimit Check.ReaperCheck Check.ReaperLimitCheck."
	path := filepath.Join(e.Out, "cases_C11.v")
	if err := vgen.WriteCases(path, header, nil, "anycase", cases, "mismatches_any"); err != nil {
		t.Fatal(err)
	}
	res.CaseFiles = []string{path}
	if err := res.Write(e.Out); err != nil {
		t.Fatal(err)
	}
	if e.Replay != "" || os.Getenv("VERIF_VERBOSE") != "" {
		for _, v := range res.Violations {
			fmt.Printf("ORACLE %s: %s\n", v.Signature, v.What)
		}
	}
}

func bucket(n uint64) string {
	switch {
	case n <= 1:
		return "0-1"
	case n <= 3:
		return "2-3"
	case n <= 10:
		return "4-10"
	case n <= 30:
		return "11-30"
	}
	return "31+"
}
