// faultds: a transient write FAULT on top of the recording datastore (crashds cuts execution — the process
// dies; this layer makes ONE write attempt return an error while the process lives on).
//
// Arm(k): write attempt number k (from 0; a Put, a Delete or a Batch.Commit, counted from the call of Arm) returns
// ErrFault and does not reach the datastore; every other attempt is forwarded.  The attempt that was made to
// fail is kept (Failed, with the number of writes that had been forwarded before it) so that the harness can
// project it like a write that reached the log.
package c11

import (
	"context"
	"errors"
	"sync"

	ds "github.com/ipfs/go-datastore"

	"verif/harness/doubles/crashds"
)

var ErrFault = errors.New("faultds: injected transient write error")

type faultDS struct {
	ds.Batching
	mu       sync.Mutex
	armed    bool
	k        int // the attempt to fail
	attempts int // attempts since Arm
	Failed   *crashds.Write
}

func newFaultDS(inner ds.Batching) *faultDS { return &faultDS{Batching: inner} }

func (f *faultDS) Arm(k int) {
	f.mu.Lock()
	defer f.mu.Unlock()
	f.armed, f.k, f.attempts, f.Failed = true, k, 0, nil
}

// Disarm returns the attempt that was made to fail (nil: the action made fewer than k+1 attempts).
func (f *faultDS) Disarm() *crashds.Write {
	f.mu.Lock()
	defer f.mu.Unlock()
	f.armed = false
	w := f.Failed
	f.Failed = nil
	return w
}

// hit reports whether this attempt is the one to fail.
func (f *faultDS) hit(w crashds.Write) bool {
	f.mu.Lock()
	defer f.mu.Unlock()
	if !f.armed {
		return false
	}
	n := f.attempts
	f.attempts++
	if n == f.k && f.Failed == nil {
		f.Failed = &w
		return true
	}
	return false
}

func (f *faultDS) Put(ctx context.Context, k ds.Key, v []byte) error {
	if f.hit(crashds.Write{Prims: []crashds.Prim{{Key: k.String(), Value: append([]byte{}, v...)}}}) {
		return ErrFault
	}
	return f.Batching.Put(ctx, k, v)
}

func (f *faultDS) Delete(ctx context.Context, k ds.Key) error {
	if f.hit(crashds.Write{Prims: []crashds.Prim{{Key: k.String(), Del: true}}}) {
		return ErrFault
	}
	return f.Batching.Delete(ctx, k)
}

type faultBatch struct {
	ds.Batch
	f     *faultDS
	prims []crashds.Prim
}

func (f *faultDS) Batch(ctx context.Context) (ds.Batch, error) {
	b, err := f.Batching.Batch(ctx)
	if err != nil {
		return nil, err
	}
	return &faultBatch{Batch: b, f: f}, nil
}

func (b *faultBatch) Put(ctx context.Context, k ds.Key, v []byte) error {
	b.prims = append(b.prims, crashds.Prim{Key: k.String(), Value: append([]byte{}, v...)})
	return b.Batch.Put(ctx, k, v)
}

func (b *faultBatch) Delete(ctx context.Context, k ds.Key) error {
	b.prims = append(b.prims, crashds.Prim{Key: k.String(), Del: true})
	return b.Batch.Delete(ctx, k)
}

func (b *faultBatch) Commit(ctx context.Context) error {
	if b.f.hit(crashds.Write{Batch: true, Prims: b.prims}) {
		return ErrFault
	}
	return b.Batch.Commit(ctx)
}
