//go:build verif && go1.25

// C03 correspondence harness + oracle.  Drives the REAL code of /repo:
//
//	(a) DA path: a real non-aggregator block.Manager — handlePotentialHeader / handlePotentialData on real blobs
//	    (events on headerInCh/dataInCh, DA-included marks in the caches), and the direct answers of
//	    isUsingExpectedSingleSequencer / isValidSignedData / ValidateBasic;
//	(b) P2P path as go-header runs it (p2p/subscriber.go:208-216, sync/sync_head.go:158, sync/sync_store.go:48-63):
//	    UnmarshalBinary, hdr.Validate(), header.Verify(head, hdr), adjacent append to a real go-header store;
//	(c) end to end: a real syncing Manager — SyncLoop, HeaderStoreRetrieveLoop, DataStoreRetrieveLoop, DAIncluderLoop
//	    unmodified under testing/synctest — fed the genuine traffic of a real aggregator interleaved with
//	    adversarial items, and compared with the run on the genuine traffic alone;
//	(d) crowded DA heights (item via=dah): the proposer's header/data together with hundreds of third-party blobs
//	    published at ONE height of the node's DA double and read by the real processNextDAHeaderAndData ->
//	    fetchBlobs -> types.RetrieveWithHelpers (GetIDs, Get in batches of 100 ids) -> handlePotentialHeader/Data.
//
//	(e) the tie of transaction data to the signed header (Model/AdmissionCommit.v): types.Validate and execValidate on a
//	    genuine signed header with data whose transaction list is a near miss of the proposer's (item via=val); the real
//	    DACommitment of pairs of byte-level transaction lists and the bytes it hashes (item via=cmt); and, end to end,
//	    such near-miss data gossiped on the P2P data path (or posted on DA under the proposer's old signature) ahead of
//	    the genuine data (adversarial data items with Resplit > 0).
//
//	(f) ranges of the P2P header store (item via=range): several headers — the proposer's and third parties', at any
//	    position — appended to the node's real go-header store as its syncer does after a range request (store.Append: no
//	    check of its own), then ONE tick: the real HeaderStoreRetrieveLoop reads the whole range in one pass.
//
//	(g) non-canonical items: signer / proposer addresses of other lengths than a key address (empty next to a public key,
//	    truncated, extended), and altered copies of genuine headers in the fields OUTSIDE Model/Types.header (ValidatorHash,
//	    LastCommitHash, ConsensusHash, LastResultsHash, Version) under the genuine signature — on DA, on P2P, in ranges.
//
//	(h) identity copies and key-less signers: third-party copies of a proposer's header / signed data that keep its identity
//	    (header hash, data commitment: neither covers signature or signer) under another signature or signer, and signers
//	    that are an address without a public key - ahead of the proposer's own blob at an earlier DA height or inside the
//	    same DA height, behind it, and as header gossip.
//
// Writes cases_C03.v (for Model/Admission.v) and result.json (oracle).
package c03

import (
	"bytes"
	"context"
	"crypto/sha256"
	"errors"
	"fmt"
	"math/rand"
	"os"
	"path/filepath"
	"sort"
	"strings"
	"sync/atomic"
	"testing"
	"testing/synctest"

	goheader "github.com/celestiaorg/go-header"
	goheaderstore "github.com/celestiaorg/go-header/store"
	logging "github.com/ipfs/go-log/v2"

	"github.com/evstack/ev-node/types"

	"verif/harness/vgen"
)

// Replay is the replayable form of one case.
type Replay struct {
	Seed    int64  `json:"seed"`
	Case    int    `json:"case"`
	Kind    string `json:"kind"` // e2e | adm
	TxCount []int  `json:"tx_counts"`
	Items   []Item `json:"items"`
}

// ---- (b) go-header's acceptance of one gossip message, exactly its sequence of calls -------------

const (
	vAccept = "VAccept"
	vSoft   = "VSoft"
	vReject = "VReject"
)

func classify(err error) string {
	if err == nil {
		return vAccept
	}
	var ve *goheader.VerifyError
	if errors.As(err, &ve) && ve.SoftFailure {
		return vSoft
	}
	return vReject
}

// gossipHeader: what the subscriber's validator + the syncer's incoming-head path do with one message.
func gossipHeader(ctx context.Context, st *goheaderstore.Store[*types.SignedHeader], msg []byte) (validate bool, verdict string, stored bool) {
	defer func() {
		if recover() != nil { // p2p/subscriber.go:155-161: a panic is a reject
			verdict, stored = vReject, false
		}
	}()
	hdr := new(types.SignedHeader)
	if err := hdr.UnmarshalBinary(msg); err != nil {
		return false, vReject, false
	}
	if err := hdr.Validate(); err != nil { // p2p/subscriber.go:214
		return false, vReject, false
	}
	head, err := st.Head(ctx)
	if err != nil {
		return true, vReject, false // store not initialised: the syncer is not running
	}
	verdict = classify(goheader.Verify[*types.SignedHeader](head, hdr)) // sync/sync_head.go:158
	if verdict != vAccept {
		return true, verdict, false
	}
	if hdr.Height() != head.Height()+1 { // sync/sync_store.go:53-59: only the adjacent head is appended
		return true, verdict, false
	}
	if err := st.Append(ctx, hdr); err != nil {
		return true, verdict, false
	}
	synctest.Wait()
	return true, verdict, true
}

func gossipData(ctx context.Context, st *goheaderstore.Store[*types.Data], msg []byte) (stored bool) {
	defer func() {
		if recover() != nil {
			stored = false
		}
	}()
	d := new(types.Data)
	if err := d.UnmarshalBinary(msg); err != nil {
		return false
	}
	if err := d.Validate(); err != nil {
		return false
	}
	head, err := st.Head(ctx)
	if err != nil {
		return false
	}
	if classify(goheader.Verify[*types.Data](head, d)) != vAccept {
		return false
	}
	if d.Height() != head.Height()+1 {
		return false
	}
	if err := st.Append(ctx, d); err != nil {
		return false
	}
	synctest.Wait()
	return true
}

// ---- (a) one DA blob on a fresh node ----------------------------------------------------------------

type daObs struct{ handled, hevent, hmark, devent, dmark, panicked, direct, basic bool }

func (o daObs) coq() string {
	return fmt.Sprintf("{| ob_handled := %v; ob_hevent := %v; ob_hmark := %v; ob_devent := %v; ob_dmark := %v; ob_panic := %v; ob_direct := %v; ob_basic := %v |}",
		o.handled, o.hevent, o.hmark, o.devent, o.dmark, o.panicked, o.direct, o.basic)
}

// feedBlob does what RetrieveLoop does with one blob (block/retriever.go:83-92) and reports what happened.
func feedBlob(ctx context.Context, n *nodeParts, b *built, daHeight uint64) (o daObs) {
	if len(b.bytes) == 0 {
		return o // retriever.go:84
	}
	h0, d0 := len(n.m.VerifHeaderInCh()), len(n.m.VerifDataInCh())
	func() {
		defer func() {
			if r := recover(); r != nil {
				o.panicked = true
			}
		}()
		o.handled = n.m.VerifHandlePotentialHeader(ctx, b.bytes, daHeight)
		if !o.handled {
			n.m.VerifHandlePotentialData(ctx, b.bytes, daHeight)
		}
	}()
	if b.sh != nil {
		if dh, ok := n.m.VerifC03HeaderDAIncludedHeight(b.sh.Hash().String()); ok && dh == daHeight {
			o.hmark = true
		}
	}
	if b.sd != nil {
		if dh, ok := n.m.VerifC03DataDAIncludedHeight(b.sd.Data.DACommitment().String()); ok && dh == daHeight {
			o.dmark = true
		}
	}
	o.hevent = len(n.m.VerifHeaderInCh()) > h0
	o.devent = len(n.m.VerifDataInCh()) > d0
	return o
}

// ---- (c) the end-to-end run -------------------------------------------------------------------------

type admitted struct {
	idx   int
	class string
}
type runResult struct {
	outs            []uint64
	height          uint64
	halted          bool
	haltErr         string
	crashed         bool
	dainc           uint64
	applied         []*types.SignedHeader // newest first
	app             []byte
	hstoreH         uint64
	dstoreH         uint64
	hstore          []string // hashes, by height
	admitted        []admitted
	execLog         []execCall
	itemTerms       []string
	unsignedApplied []uint64
	unsignedStored  []uint64
	fetch           [][][2]int // per DA-height item read by the node: the da.Get calls (first id, count)
	skipped         []skip     // proposer's blobs present at a scanned DA height that got no DA-included mark
	scanErr         string     // processNextDAHeaderAndData returned an error on a DA height the double serves
	foreignData     []uint64   // stored blocks whose transaction list is not, byte for byte, the proposer's list of that height
	foreignExec     []string   // transaction lists handed to the executor that are no list of the proposer's chain
	forced          map[uint64]string // header-store heights a range item filled with a header NOT signed by the proposer (hash)
	rangeTaken      []admitted        // headers of a range, not signed by the proposer, that the sync loop took (cached / seen)
	rangeAdv        bool              // a range item held a third party's header: the content of the header store is the premise
	rangeUncovered  bool              // ... and a block from that height on is never published on DA (the P2P store was its only way in)
	crashWhat       string            // the third party's item a goroutine of the node panicked on
}

// skip: a blob signed by the proposer sat at position pos of a DA height of n blobs and was passed over
type skip struct {
	idx, pos, n int
	what        string
}

const (
	sigF3Header   = "da-header-foreign-key-under-proposer-address"
	sigF3Data     = "da-data-foreign-key-under-proposer-address"
	sigPanic      = "da-data-foreign-key-nil-metadata-panic"
	sigF4         = "p2p-header-not-proposer-signed-stored"
	sigP2PData    = "p2p-data-unauthenticated-stored"
	sigHalt       = "sync-halts-after-forged-item"         // through DA: repaired, must not come back
	sigApplied    = "forged-block-applied"                 // repaired, must not come back
	sigDiverge    = "end-state-diverges-after-forged-item" // through DA: repaired, must not come back
	sigHaltP2P    = "sync-halts-after-unauthenticated-p2p-data"
	sigDivergeP2P = "end-state-diverges-after-forged-p2p-item"
	sigUnexpected = "unexpected-admission"
	// a goroutine of the node (retrieve loop, a store loop, sync loop, DA includer) panicked while the node was handling an
	// item a third party made: node/full.go starts these goroutines bare, the process is gone
	sigCrash = "third-party-item-panics-node-goroutine"
	// a DA height whose scan returned nil (so RetrieveLoop moves on for good) although a blob signed by the
	// proposer that the DA layer holds at that height was neither marked DA-included nor handed to the syncer
	sigSkipped      = "proposer-blob-skipped-at-da-height"
	sigSkippedCrowd = "proposer-blob-skipped-at-da-height-over-100-blobs"
	sigScanErr      = "da-height-scan-error"
	// transaction data: the node applied / stored / executed a transaction list that is not the proposer's list for
	// that block (the header may well be genuine: the data is what was not signed)
	sigForeignApplied = "applied-transactions-not-the-proposers"
	// types.Validate / execValidate accepted, under a proposer-signed header, a transaction list other than the proposer's
	sigForeignValid = "header-accepts-foreign-transactions"
	// two different transaction lists with the same DACommitment
	// a pass of HeaderStoreRetrieveLoop over a range of the header store handed the sync loop a header the proposer
	// did not sign (it is cached for application: nothing downstream compares the proposer with genesis)
	sigRangeTaken = "store-range-forged-header-handed-to-syncer"
	sigCollision  = "commitment-collision"
	sigNotAFunc  = "commitment-differs-for-equal-lists"
)

// class of an adversarial item the node admitted: a decidable predicate of the item itself
func (w *world) admissionClass(b *built) string {
	prop := w.gen.ProposerAddress
	switch {
	case b.it.Via == "da" && b.sh != nil:
		sh := b.sh
		if bytes.Equal(sh.Signer.Address, prop) && bytes.Equal(sh.ProposerAddress, prop) && sh.Signer.PubKey != nil && !sh.Signer.PubKey.Equals(w.keys[1].GetPublic()) {
			pl, _ := sh.Header.MarshalBinary()
			if ok, _ := sh.Signer.PubKey.Verify(pl, sh.Signature); ok {
				return sigF3Header
			}
		}
	case b.it.Via == "da" && b.sd != nil:
		sd := b.sd
		if bytes.Equal(sd.Signer.Address, prop) && sd.Signer.PubKey != nil && !sd.Signer.PubKey.Equals(w.keys[1].GetPublic()) {
			db, _ := sd.Data.MarshalBinary()
			if ok, _ := sd.Signer.PubKey.Verify(db, sd.Signature); ok {
				return sigF3Data
			}
		}
	case b.it.Via == "p2p" && b.sh != nil:
		if bytes.Equal(b.sh.ProposerAddress, prop) {
			return sigF4
		}
	case b.it.Via == "p2p" && b.d != nil:
		return sigP2PData
	}
	return sigUnexpected
}

func (w *world) signerIsProposers(sh *types.SignedHeader) bool {
	return sh.Signer.PubKey != nil && sh.Signer.PubKey.Equals(w.keys[1].GetPublic()) && bytes.Equal(sh.Signer.Address, w.gen.ProposerAddress)
}

func (w *world) isAdversarial(b *built) bool {
	if !b.it.Adv {
		return false
	}
	switch {
	case b.sh != nil:
		return !w.headerSignedByProposer(b.sh)
	case b.sd != nil:
		return !w.dataSignedByProposer(b.sd)
	}
	return true
}

func (w *world) run(items []Item) *runResult {
	t, ctx0 := w.t, w.ctx
	ctx, cancel := context.WithCancel(ctx0)
	n := newNode(t, ctx, nil, w.gen, t.TempDir())
	res := &runResult{}
	errCh := make(chan error, 8)
	syncDone := make(chan struct{})
	// the node's goroutines as node/full.go starts them; a panic in one of them ends the process: recorded, not fatal to the harness
	var loopPanic atomic.Bool
	guard := func(f func()) {
		defer func() {
			if r := recover(); r != nil {
				loopPanic.Store(true)
			}
		}()
		f()
	}
	syncPanicked := false
	go func() {
		defer func() {
			if !syncPanicked {
				close(syncDone)
			}
		}()
		defer func() {
			if r := recover(); r != nil {
				syncPanicked = true
				loopPanic.Store(true)
			}
		}()
		n.m.SyncLoop(ctx, errCh)
	}()
	go guard(func() { n.m.HeaderStoreRetrieveLoop(ctx) })
	go guard(func() { n.m.DataStoreRetrieveLoop(ctx) })
	go guard(func() { n.m.DAIncluderLoop(ctx, errCh) })
	synctest.Wait()
	// crashedBy: the node is gone; the item it was handling is named when a third party made it (or part of it)
	crashedBy := func(i int, it Item) {
		if res.crashed {
			return
		}
		res.crashed = true
		adv := it.Adv
		for _, b := range it.Blobs {
			adv = adv || b.Adv
		}
		if adv {
			res.admitted = append(res.admitted, admitted{i, sigCrash})
			res.crashWhat = fmt.Sprintf("item %d (%s)", i, it)
		}
	}
	tick := func() {
		select {
		case n.m.VerifHeaderStoreCh() <- struct{}{}:
		default:
		}
		synctest.Wait()
		select {
		case n.m.VerifDataStoreCh() <- struct{}{}:
		default:
		}
		synctest.Wait()
		select {
		case n.m.VerifDAIncluderCh() <- struct{}{}:
		default:
		}
		synctest.Wait()
	}
	res.forced = map[uint64]string{}
	for i, it := range items {
		if it.Via == "range" {
			var subs []*built
			var terms []string
			for _, sub := range it.Blobs {
				sub.Via, sub.Kind = "p2p", "hdr"
				if sub.Adv {
					res.rangeAdv = true
					for h := sub.H; h <= uint64(len(w.chain)); h++ {
						if firstDA(items, h, "hdr") < 0 || firstDA(items, h, "data") < 0 {
							res.rangeUncovered = true
						}
					}
				}
				b := w.build(sub, nil)
				subs = append(subs, b)
				terms = append(terms, w.sheaderTerm(b.sh))
			}
			out := uint64(0)
			if !res.crashed {
				// a go-header store grows by the next height only (heightSub.Pub): the range continues the store
				ok := len(subs) > 0 && n.hstore.Height() > 0
				next := n.hstore.Height() + 1
				for _, b := range subs {
					ok = ok && b.sh.Height() == next
					next++
				}
				if ok {
					var hs []*types.SignedHeader
					var before []bool
					for _, b := range subs {
						cp := new(types.SignedHeader)
						if err := cp.UnmarshalBinary(b.bytes); err != nil {
							t.Fatal(err)
						}
						hs = append(hs, cp)
						before = append(before, n.m.VerifC03HeaderSeen(b.sh.Hash().String()))
					}
					if err := n.hstore.Append(ctx, hs...); err != nil {
						t.Fatal(err)
					}
					synctest.Wait()
					tick()
					taken := uint64(0)
					for j, b := range subs {
						hash := b.sh.Hash().String()
						seen := n.m.VerifC03HeaderSeen(hash) && !before[j]
						if seen {
							taken++
						}
						if !w.headerSignedByProposer(b.sh) {
							res.forced[b.sh.Height()] = hash
							cached := false
							if c := n.m.VerifC03HeaderCacheItem(b.sh.Height()); c != nil && bytes.Equal(c.Signature, b.sh.Signature) && c.Hash().String() == hash {
								cached = true
							}
							sameAsGenuine := b.sh.Height() <= uint64(len(w.chain)) && bytes.Equal(b.sh.Hash(), w.chain[b.sh.Height()-1].hdr.Hash())
							if (seen && !sameAsGenuine) || cached {
								res.rangeTaken = append(res.rangeTaken, admitted{i, fmt.Sprintf("header %d of %d in the range, height %d (%s)", j+1, len(subs), b.sh.Height(), b.it)})
							}
						}
					}
					out = 20 + taken
				} else {
					tick()
				}
				if loopPanic.Load() {
					crashedBy(i, it)
				}
			}
			res.outs = append(res.outs, out)
			res.itemTerms = append(res.itemTerms, "(IStoreRange ["+strings.Join(terms, "; ")+"])")
			continue
		}
		if it.Via == "dah" {
			subs, blobs := w.buildHeight(it)
			out := uint64(0)
			if !res.crashed {
				out = 10 + w.scanHeight(ctx, n, res, i, uint64(i+1), subs, blobs)
				synctest.Wait()
				if res.crashed { // the retrieve goroutine panicked inside the scan
					res.crashed = false
					crashedBy(i, it)
					res.crashed = true
				} else {
					tick()
				}
				if loopPanic.Load() {
					crashedBy(i, it)
				}
			}
			res.outs = append(res.outs, out)
			res.itemTerms = append(res.itemTerms, w.heightTerm(subs))
			continue
		}
		if res.crashed {
			res.outs = append(res.outs, 0)
			b := w.build(it, nil)
			res.itemTerms = append(res.itemTerms, w.itemTerm(b, false))
			continue
		}
		var dataHead *types.Data
		if n.dstore.Height() > 0 {
			dataHead, _ = n.dstore.Head(ctx)
		}
		b := w.build(it, dataHead)
		out := uint64(0)
		linked := false
		switch it.Via {
		case "init":
			if b.sh != nil && n.hstore.Height() == 0 {
				if err := n.hstore.Init(ctx, b.sh); err != nil {
					t.Fatal(err)
				}
				out = 2
			}
			if b.d != nil && n.dstore.Height() == 0 {
				if err := n.dstore.Init(ctx, b.d); err != nil {
					t.Fatal(err)
				}
				out = 2
			}
		case "da":
			o := feedBlob(ctx, n, b, uint64(i+1))
			switch {
			case o.panicked:
				out = 3
			case o.hmark || o.dmark:
				out = 2
			case o.handled:
				out = 1
			}
			// a blob the proposer signed (header, or signed data of a non-empty block) that the retriever passed over: no
			// DA-included mark, nothing handed to the syncer, and the retrieve loop moves on to the next DA height
			if !it.Adv && !o.panicked && out < 2 && (b.sh != nil || b.sd != nil) {
				kind := fmt.Sprintf("signed data of block %d", it.H)
				if b.sh != nil {
					kind = fmt.Sprintf("header of block %d", b.sh.Height())
				}
				res.skipped = append(res.skipped, skip{i, 0, 1, kind})
			}
		case "p2p":
			if b.sh != nil {
				if _, _, stored := gossipHeader(ctx, n.hstore, b.bytes); stored {
					out = 2
				}
			} else if b.d != nil {
				if dataHead != nil && b.d.Metadata != nil {
					linked = bytes.Equal(dataHead.Hash(), b.d.Metadata.LastDataHash)
				}
				if gossipData(ctx, n.dstore, b.bytes) {
					out = 2
				}
			}
		}
		synctest.Wait()
		if out != 3 {
			tick()
		}
		res.outs = append(res.outs, out)
		res.itemTerms = append(res.itemTerms, w.itemTerm(b, linked))
		// a third party's copy of a genuine header whose Signer is no longer the proposer's (key or address removed,
		// truncated, replaced): the signature still verifies over the header, ValidateBasic does not pass, go-header
		// stores it all the same and then refuses the proposer's gossip of that height as known — the F4 mechanism
		mangled := it.Via == "p2p" && it.Adv && b.sh != nil && !w.signerIsProposers(b.sh)
		if out == 3 {
			if b.sd != nil && w.isAdversarial(b) && w.admissionClass(b) == sigF3Data && b.sd.Metadata == nil {
				res.crashed = true
				res.admitted = append(res.admitted, admitted{i, sigPanic})
			} else {
				crashedBy(i, it)
			}
		} else if out >= 2 && (w.isAdversarial(b) || mangled) {
			res.admitted = append(res.admitted, admitted{i, w.admissionClass(b)})
		}
		if loopPanic.Load() {
			crashedBy(i, it)
		}
	}
	select {
	case <-syncDone:
		res.halted = true
		select {
		case e := <-errCh:
			res.haltErr = e.Error()
		default:
		}
	default:
	}
	var err error
	if res.height, err = n.st.Height(ctx); err != nil {
		t.Fatal(err)
	}
	res.app = n.m.GetLastState().AppHash
	res.dainc = n.m.GetDAIncludedHeight()
	for h := res.height; h >= 1; h-- {
		sh, _, err := n.st.GetBlockData(ctx, h)
		if err != nil {
			t.Fatalf("stored block %d missing: %v", h, err)
		}
		res.applied = append(res.applied, sh)
		if !w.headerSignedByProposer(sh) {
			res.unsignedApplied = append(res.unsignedApplied, h)
		}
		_, sd, _ := n.st.GetBlockData(ctx, h)
		if h <= uint64(len(w.chain)) && sd != nil && !sameTxs(sd.Txs, w.chain[h-1].data.Txs) {
			res.foreignData = append(res.foreignData, h)
		}
	}
	for _, c := range n.exec.calls {
		ok := false
		for _, g := range w.chain {
			ok = ok || sameTxs(c.txs, g.data.Txs)
		}
		if !ok {
			res.foreignExec = append(res.foreignExec, hexTxs(c.txs))
		}
	}
	res.hstoreH, res.dstoreH = n.hstore.Height(), n.dstore.Height()
	for h := uint64(1); h <= res.hstoreH; h++ {
		sh, err := n.hstore.GetByHeight(ctx, h)
		if err != nil {
			t.Fatal(err)
		}
		res.hstore = append(res.hstore, sh.Hash().String())
		if !w.headerSignedByProposer(sh) && res.forced[h] != sh.Hash().String() { // a forced height is the premise of the case
			res.unsignedStored = append(res.unsignedStored, h)
		}
	}
	res.execLog = n.exec.calls
	cancel()
	synctest.Wait()
	stopNode(n)
	synctest.Wait()
	return res
}

// buildHeight builds the blobs of a DA-height item: one built per entry of Blobs, and the blob list with repetitions.
func (w *world) buildHeight(it Item) (subs []*built, blobs [][]byte) {
	for _, sub := range it.Blobs {
		sub.Via = "da"
		b := w.build(sub, nil)
		subs = append(subs, b)
		for k := 0; k < sub.rep(); k++ {
			blobs = append(blobs, b.bytes)
		}
	}
	return subs, blobs
}

// heightTerm: the model's description of a DA height, run-length (expanded by Check.AdmissionCheck.rl)
func (w *world) heightTerm(subs []*built) string {
	var p []string
	for _, b := range subs {
		p = append(p, fmt.Sprintf("(%d, %s)", b.it.rep(), w.blobTerm(b)))
	}
	return "(IDAHeight (rl [" + strings.Join(p, "; ") + "]))"
}

// scanHeight publishes the blobs at DA height daH of the node's DA layer and lets the REAL retriever read it:
// processNextDAHeaderAndData -> fetchBlobs -> types.RetrieveWithHelpers (GetIDs, batched Get) -> handlePotentialHeader /
// handlePotentialData per blob.  Returns the number of blobs that got a DA-included mark at daH.
func (w *world) scanHeight(ctx context.Context, n *nodeParts, res *runResult, idx int, daH uint64, subs []*built, blobs [][]byte) uint64 {
	n.da.heights[daH] = blobs
	n.m.VerifSetDAHeight(daH)
	var perr error
	func() {
		defer func() {
			if r := recover(); r != nil {
				res.crashed = true
			}
		}()
		perr = n.m.VerifProcessNextDAHeaderAndData(ctx)
	}()
	synctest.Wait()
	res.fetch = append(res.fetch, n.da.gets[daH])
	if perr != nil && !res.crashed {
		res.scanErr = fmt.Sprintf("item %d: DA height with %d blobs: %v", idx, len(blobs), perr)
	}
	// which blobs of the height have their header hash / data commitment marked DA-included at daH.  A third-party
	// copy of a content the proposer published at this same height shares its hash: its mark is the proposer's.
	hashOf := func(b *built) string {
		switch {
		case b.sh != nil:
			return "h:" + b.sh.Hash().String()
		case b.sd != nil:
			return "d:" + b.sd.Data.DACommitment().String()
		}
		return ""
	}
	genuineHash := map[string]bool{}
	for _, b := range subs {
		if !w.isAdversarial(b) && hashOf(b) != "" {
			genuineHash[hashOf(b)] = true
		}
	}
	marked := uint64(0)
	pos := 0
	for _, b := range subs {
		ok, kind := false, ""
		if b.sh != nil {
			dh, has := n.m.VerifC03HeaderDAIncludedHeight(b.sh.Hash().String())
			ok, kind = has && dh == daH, fmt.Sprintf("header of block %d", b.sh.Height())
		}
		if b.sd != nil {
			dh, has := n.m.VerifC03DataDAIncludedHeight(b.sd.Data.DACommitment().String())
			ok, kind = has && dh == daH, fmt.Sprintf("signed data of block %d", b.it.H)
		}
		switch {
		case ok:
			marked += uint64(b.it.rep())
			if w.isAdversarial(b) && !genuineHash[hashOf(b)] {
				res.admitted = append(res.admitted, admitted{idx, w.admissionClass(b)})
			}
		case !b.it.Adv && kind != "" && perr == nil && !res.crashed:
			res.skipped = append(res.skipped, skip{idx, pos, len(blobs), kind})
		}
		pos += b.it.rep()
	}
	return marked
}

func (w *world) itemTerm(b *built, linked bool) string {
	switch b.it.Via {
	case "init":
		if b.sh != nil {
			return "(IInitH " + w.sheaderTerm(b.sh) + ")"
		}
		return "(IInitD " + w.dataTerm(b.d) + ")"
	case "da":
		return "(IDA " + w.blobTerm(b) + ")"
	}
	if b.sh != nil {
		return "(IGossipH " + w.sheaderTerm(b.sh) + ")"
	}
	return fmt.Sprintf("(IGossipD %s %v)", w.dataTerm(b.d), linked)
}

func sameHeaders(a, b []*types.SignedHeader) bool {
	if len(a) != len(b) {
		return false
	}
	for i := range a {
		if !bytes.Equal(a[i].Hash(), b[i].Hash()) {
			return false
		}
	}
	return true
}

// oracle: the property evaluated on the implementation's behaviour. ref = run on the genuine items alone.
func (w *world) oracle(ref, got *runResult) (sigs []string, what map[string]string) {
	what = map[string]string{}
	add := func(s, wh string) {
		if _, ok := what[s]; !ok {
			sigs = append(sigs, s)
			what[s] = wh
		}
	}
	known := map[string]bool{}
	for _, a := range got.admitted {
		known[a.class] = a.class != sigUnexpected
		switch a.class {
		case sigF3Header:
			add(a.class, fmt.Sprintf("item %d: a header signed with a third-party key that claims the proposer's address in signer.address was marked DA-included and handed to the syncer", a.idx))
		case sigF3Data:
			add(a.class, fmt.Sprintf("item %d: transaction data signed with a third-party key under the proposer's address was marked DA-included and handed to the syncer", a.idx))
		case sigPanic:
			add(a.class, fmt.Sprintf("item %d: forged signed data without Metadata is admitted and handlePotentialData dereferences nil (the retrieve goroutine panics: the node dies)", a.idx))
		case sigCrash:
			add(a.class, "a goroutine of the node panicked (node/full.go starts it bare: the process dies, and dies again when it re-reads the item after a restart) while handling third-party material: "+got.crashWhat)
		case sigF4:
			add(a.class, fmt.Sprintf("item %d: a header not signed by the proposer (it only names the proposer's address and hash-links to the head), or a third party's copy of a genuine header with the signer replaced (ValidateBasic fails on it), was appended to the header store served to light clients", a.idx))
		case sigP2PData:
			add(a.class, fmt.Sprintf("item %d: P2P transaction data (no signature exists on this path) from a third party was appended to the data store and handed to the syncer", a.idx))
		default:
			add(sigUnexpected, fmt.Sprintf("item %d: an adversarial item outside every listed class was admitted", a.idx))
		}
	}
	for _, a := range got.rangeTaken {
		add(sigRangeTaken, fmt.Sprintf("item %d: one pass of HeaderStoreRetrieveLoop over a range of the P2P header store handed the sync loop a header that the genesis proposer did not sign: %s", a.idx, a.class))
	}
	viaP2P := known[sigF4] || known[sigP2PData]
	viaDA := known[sigF3Header] || known[sigF3Data] || known[sigPanic]
	for _, sk := range got.skipped {
		sig := sigSkipped
		if sk.n > 100 {
			sig = sigSkippedCrowd
		}
		add(sig, fmt.Sprintf("item %d: a DA height holding %d blobs (%d of them ahead of it): the proposer's %s was neither marked DA-included nor handed to the syncer, yet the scan of the height returned nil, so the retrieve loop moves past this DA height for good", sk.idx, sk.n, sk.pos, sk.what))
	}
	if got.scanErr != "" {
		add(sigScanErr, "processNextDAHeaderAndData failed on a DA height the DA layer serves without error: "+got.scanErr)
	}
	if got.crashed && !known[sigPanic] && !known[sigCrash] {
		add("unexplained-crash", "a goroutine of the node panicked")
	}
	if len(got.foreignData) > 0 || (len(got.foreignExec) > 0 && len(got.unsignedApplied) == 0) {
		add(sigForeignApplied, fmt.Sprintf("the node applied transactions the proposer never signed: stored block(s) %v hold a transaction list that is not the proposer's list of that height; lists handed to the executor that are no list of the proposer's chain: %v", got.foreignData, got.foreignExec))
	}
	if len(got.unsignedApplied) > 0 {
		add(sigApplied, fmt.Sprintf("the node applied and stored block(s) %v whose header is not signed by the genesis proposer's key", got.unsignedApplied))
	}
	if got.halted && !ref.halted {
		// the listed halt: trySyncNextBlock's validation of the cached (header, data) pair fails because the
		// cached data is a third party's P2P data
		cls := trimErr(got.haltErr)
		switch {
		case validationErrs[cls] && known[sigP2PData]:
			add(sigHaltP2P, "SyncLoop returned with an error (the node stops following the chain) after third-party P2P data was cached: "+cls)
		case validationErrs[cls] && viaDA:
			add(sigHalt, "SyncLoop returned with an error after a forged DA item was admitted: "+cls)
		default:
			add("unexplained-halt", "SyncLoop returned with an error: "+cls)
		}
	}
	if !ref.halted && !got.halted && !got.crashed && len(got.unsignedApplied) == 0 {
		if got.height != ref.height || !bytes.Equal(got.app, ref.app) || !sameHeaders(got.applied, ref.applied) || got.dainc != ref.dainc {
			wh := fmt.Sprintf("end state differs from the genuine-only run: height %d vs %d, DA-included %d vs %d", got.height, ref.height, got.dainc, ref.dainc)
			switch {
			case got.rangeUncovered && got.height < ref.height && len(got.applied) <= len(ref.applied) &&
				sameHeaders(got.applied, ref.applied[len(ref.applied)-len(got.applied):]) && got.dainc <= ref.dainc:
				// the case put a third party's header at a height of the header store (its premise, not the node's doing) and
				// the proposer's block of that height, or a later one, is published nowhere else: the node holds a prefix of
				// the genuine-only run's chain, block for block
			case viaP2P:
				add(sigDivergeP2P, wh+" (a forged item sits in a go-header store; the genuine item of that height is rejected as known)")
			case len(got.skipped) > 0:
				// the cause is reported above (proposer's blob passed over at a DA height)
			case viaDA:
				add(sigDiverge, wh)
			default:
				add("unexplained-divergence", wh)
			}
		}
	}
	if len(got.unsignedStored) > 0 && !known[sigF4] {
		add("unexplained-unsigned-header-stored", fmt.Sprintf("header store holds headers %v not signed by the proposer", got.unsignedStored))
	}
	if strings.Join(got.hstore, ",") != strings.Join(ref.hstore, ",") && !known[sigF4] && !got.crashed && !got.rangeAdv {
		add("unexplained-header-store-divergence", "header store differs from the genuine-only run")
	}
	return sigs, what
}

var validationErrs = map[string]bool{"appHash mismatch": true, "chain ID mismatch": true, "dataHash from the header": true,
	"header and data do not match": true, "invalid header": true, "invalid height": true, "block time": true}

func trimErr(s string) string {
	for _, k := range []string{"appHash mismatch", "chain ID mismatch", "dataHash from the header", "header and data do not match", "invalid header", "invalid height", "block time"} {
		if strings.Contains(s, k) {
			return k
		}
	}
	if len(s) > 80 {
		return s[:80]
	}
	return s
}

// ---- (e) helpers: byte-level terms, the state ahead of a block, bases of the commitment pairs ---------------

func concatTxs(txs types.Txs) []byte {
	var out []byte
	for _, t := range txs {
		out = append(out, t...)
	}
	return out
}

func hexTxs(txs types.Txs) string {
	var p []string
	for _, t := range txs {
		if len(t) == 0 {
			p = append(p, "<empty tx>")
		} else {
			p = append(p, fmt.Sprintf("%x", []byte(t)))
		}
	}
	return fmt.Sprintf("%d tx [%s]", len(txs), strings.Join(p, " "))
}

func bytesTerm(b []byte) string {
	var sb strings.Builder
	sb.WriteByte('[')
	for i, x := range b {
		if i > 0 {
			sb.WriteByte(';')
		}
		fmt.Fprintf(&sb, "%d", x)
	}
	sb.WriteByte(']')
	return sb.String()
}

func btxsTerm(txs types.Txs) string {
	var p []string
	for _, t := range txs {
		p = append(p, bytesTerm(t))
	}
	return "[" + strings.Join(p, ";") + "]"
}

// stateBefore: the state of a node that has applied the proposer's blocks below h (what execValidate is given for block h)
func (w *world) stateBefore(h uint64) (types.State, string) {
	st := types.State{Version: types.InitStateVersion, ChainID: w.gen.ChainID, InitialHeight: w.gen.InitialHeight,
		LastBlockHeight: h - 1, LastBlockTime: w.gen.GenesisDAStartTime, AppHash: w.chain[h-1].hdr.AppHash}
	if h > 1 {
		st.LastBlockTime = w.chain[h-2].hdr.Time()
	}
	return st, fmt.Sprintf("{| s_chain := %d; s_initial := %d; s_height := %d; s_time := %d; s_app := %d; s_da := 0 |}",
		chainN(st.ChainID), st.InitialHeight, h-1, st.LastBlockTime.UnixNano(), w.root(st.AppHash))
}

// cmtBase: the list the two lists of a commitment pair are derived from: the proposer's transactions of block h, or 1-4
// short invented transactions over an alphabet of bytes that look like framing (tags, small lengths, 0x80, 0xff);
// now and then one of 128+ bytes (its length takes two varint groups)
func (w *world) cmtBase(h uint64, salt int64) types.Txs {
	if salt%2 == 0 && h >= 1 && h <= uint64(len(w.chain)) && len(w.chain[h-1].data.Txs) > 0 {
		return cloneTxs(w.chain[h-1].data.Txs)
	}
	r := rand.New(rand.NewSource(salt*15485863 + int64(h)))
	alphabet := []byte{0x00, 0x01, 0x02, 0x12, 0x0a, 0x80, 0xff}
	n := 1 + r.Intn(4)
	var out types.Txs
	for i := 0; i < n; i++ {
		tx := make(types.Tx, r.Intn(7))
		for j := range tx {
			if r.Intn(2) == 0 {
				tx[j] = alphabet[r.Intn(len(alphabet))]
			} else {
				tx[j] = byte(r.Intn(256))
			}
		}
		out = append(out, tx)
	}
	if r.Intn(16) == 0 {
		out[r.Intn(len(out))] = bytes.Repeat([]byte{byte(r.Intn(256))}, 128+r.Intn(80))
	}
	return out
}

// genTxDataItems: the items of stream (e).  Drawn from a PRNG of their own: the rest of the case is what it was.
func genTxDataItems(rs *rand.Rand, rp *Replay, L uint64) {
	kind := func() int {
		if rs.Intn(100) < 60 { // mostly the lists with the proposer's concatenation
			return []int{kindRecut, kindShift, kindEmpty, kindMerge}[rs.Intn(4)]
		}
		return 1 + rs.Intn(nVariantKind)
	}
	if rp.Kind == "adm" {
		for h := uint64(1); h <= L; h++ {
			for k := 0; k < 2; k++ {
				it := Item{Adv: true, Via: "val", Kind: "data", H: h, Resplit: kind(), Salt: int64(1 + rs.Intn(1000)), SignerKey: -1, SignerAddr: -1, PropAddr: -1}
				it.NoMeta = rs.Intn(100) < 10
				if rs.Intn(100) < 10 {
					it.Mut = []string{"chain", "height+", "oldstate"}[rs.Intn(3)]
				}
				rp.Items = append(rp.Items, it)
			}
		}
		rp.Items = append(rp.Items, Item{Adv: true, Via: "val", Kind: "data", H: 1 + uint64(rs.Intn(int(L))), Resplit: kindCopy, Salt: 1, SignerKey: -1, SignerAddr: -1, PropAddr: -1, NoMeta: rs.Intn(100) < 30})
		for k := 0; k < 6; k++ {
			it := Item{Adv: true, Via: "cmt", Kind: "pair", H: 1 + uint64(rs.Intn(int(L))), Resplit2: kind(), Salt: int64(1 + rs.Intn(1000)), SignerKey: -1, SignerAddr: -1, PropAddr: -1}
			switch p := rs.Intn(100); {
			case p < 40: // the base against a near miss of it
			case p < 50: // a list against itself
				it.Resplit = it.Resplit2
			default: // two near misses of one base
				it.Resplit = kind()
			}
			rp.Items = append(rp.Items, it)
		}
		return
	}
	// end to end: near-miss data for a block, gossiped on the P2P data path right where the data store takes it (just
	// ahead of the proposer's data of that height), or posted on DA under the proposer's signature of the genuine data
	if rs.Intn(100) >= 50 {
		return
	}
	start := 0
	for start < len(rp.Items) && rp.Items[start].Via == "init" {
		start++
	}
	var at []int
	for i, it := range rp.Items {
		if !it.Adv && it.Via == "p2p" && it.Kind == "data" {
			at = append(at, i)
		}
	}
	var it Item
	pos := start + rs.Intn(len(rp.Items)-start+1)
	if len(at) > 0 {
		i := at[rs.Intn(len(at))]
		it = Item{Adv: true, Via: "p2p", Kind: "data", H: rp.Items[i].H, Linked: true, Resplit: kind(), Salt: int64(1 + rs.Intn(1000)), SignerKey: -1, SignerAddr: -1, PropAddr: -1}
		if rs.Intn(100) < 80 {
			pos = i
		}
	} else {
		it = Item{Adv: true, Via: "da", Kind: "data", H: 1 + uint64(rs.Intn(int(L))), Resplit: kind(), Salt: int64(1 + rs.Intn(1000)), Sign: 0, SignerKey: -1, SignerAddr: -1, PropAddr: -1}
	}
	rp.Items = append(rp.Items[:pos], append([]Item{it}, rp.Items[pos:]...)...)
}

// ---- generators -----------------------------------------------------------------------------------

func genAdvItem(r *rand.Rand, L uint64, via string) Item {
	it := Item{Adv: true, Via: via, H: 1 + uint64(r.Intn(int(L)+1)), Salt: int64(1 + r.Intn(1000)), SignerKey: -1, SignerAddr: -1, PropAddr: -1}
	muts := []string{"", "app", "time", "chain", "datahash", "last", "height+", "height-", "future", "", "app", "datahash"}
	k := 2 + r.Intn(2)
	if via == "da" {
		switch p := r.Intn(100); {
		case p < 4:
			it.Kind = "junk"
			return it
		case p < 7:
			it.Kind = "empty"
			return it
		case p < 11:
			it.Kind = "trunc"
			return it
		case p < 15:
			it.Kind = "undecodable"
			return it
		case p < 40:
			it.Kind = "data"
		default:
			it.Kind = "hdr"
		}
	} else {
		if r.Intn(100) < 45 {
			it.Kind = "data"
		} else {
			it.Kind = "hdr"
		}
	}
	if it.Kind == "hdr" {
		it.Mut = muts[r.Intn(len(muts))]
		switch p := r.Intn(100); {
		case p < 38: // F3 shape: third-party key, proposer's address, re-signed
			it.Sign, it.SignerKey, it.SignerAddr = k, k, 1
		case p < 48: // honest third party: own key, own address everywhere
			it.Sign, it.SignerKey, it.SignerAddr, it.PropAddr = k, k, k, k
		case p < 56: // own key and address in the signer, proposer's address in the header
			it.Sign, it.SignerKey, it.SignerAddr = k, k, k
		case p < 66: // altered copy carrying the genuine signature and signer
			it.Sign = 0
			if it.Mut == "" {
				it.Mut = "app"
			}
		case p < 78: // unsigned, no signer (F4 shape)
			it.Sign, it.SignerKey = -2, 0
		case p < 86: // junk signature under the proposer's real key and address
			it.Sign = -1
		case p < 92: // third-party key, junk address
			it.Sign, it.SignerKey, it.SignerAddr = k, k, -2
		case p < 96: // empty proposer address
			it.Sign, it.SignerKey, it.SignerAddr, it.PropAddr = k, k, 0, 0
		default: // signed by one third-party key, carrying another's public key
			it.Sign, it.SignerKey, it.SignerAddr = 2, 3, 1
		}
		return it
	}
	// data
	it.NewTxs = r.Intn(100) < 70
	if via == "p2p" {
		it.Linked = r.Intn(100) < 70
		it.NoMeta = r.Intn(100) < 8
		if r.Intn(100) < 15 {
			it.Mut = []string{"chain", "height+"}[r.Intn(2)]
		}
		return it
	}
	it.NoMeta = r.Intn(100) < 12
	switch p := r.Intn(100); {
	case p < 45:
		it.Sign, it.SignerKey, it.SignerAddr = k, k, 1
	case p < 60:
		it.Sign, it.SignerKey, it.SignerAddr = k, k, k
	case p < 72:
		it.Sign = 0 // genuine signature on (possibly) altered data
		it.NewTxs = true
	case p < 82:
		it.Sign, it.SignerKey = -2, 0
	case p < 92:
		it.Sign = -1
	default:
		it.Sign, it.SignerKey, it.SignerAddr = 2, 3, 1
	}
	return it
}

// genuine traffic of a chain: optional P2P initialisation with block 1, then every block over DA, P2P or both
func genGenuine(r *rand.Rand, txCount []int) []Item {
	var out []Item
	L := uint64(len(txCount))
	p2pInit := r.Intn(100) < 60
	if p2pInit {
		out = append(out, Item{Via: "init", Kind: "hdr", H: 1}, Item{Via: "init", Kind: "data", H: 1})
	}
	for h := uint64(1); h <= L; h++ {
		// with a P2P-initialised node every block is gossiped (the stores only take adjacent items); 2/3 also come over DA
		if !p2pInit || h == 1 || r.Intn(3) != 0 {
			out = append(out, Item{Via: "da", Kind: "hdr", H: h}, Item{Via: "da", Kind: "data", H: h})
		}
		if p2pInit && h > 1 {
			out = append(out, Item{Via: "p2p", Kind: "hdr", H: h}, Item{Via: "p2p", Kind: "data", H: h})
		}
	}
	// an occasional swap of neighbours (data before header)
	for i := 2; i+1 < len(out); i++ {
		if r.Intn(100) < 15 && out[i].Via == out[i+1].Via && out[i].Via != "init" {
			out[i], out[i+1] = out[i+1], out[i]
		}
	}
	return out
}

func interleave(r *rand.Rand, g, a []Item) []Item {
	start := 0
	for start < len(g) && g[start].Via == "init" {
		start++
	}
	out := append([]Item{}, g...)
	for _, it := range a {
		pos := start + r.Intn(len(out)-start+1)
		out = append(out[:pos], append([]Item{it}, out[pos:]...)...)
	}
	return out
}

func genuineOnly(items []Item) []Item {
	var out []Item
	for _, it := range items {
		if it.Adv {
			continue
		}
		if it.Via == "range" { // the range as honest peers serve it: the proposer's header at every height
			var subs []Item
			for _, b := range it.Blobs {
				if b.Adv {
					b = Item{Via: "p2p", Kind: "hdr", H: b.H}
				}
				subs = append(subs, b)
			}
			it.Blobs = subs
		}
		if it.Via == "dah" { // the DA height without the third-party blobs
			var keep []Item
			for _, b := range it.Blobs {
				if !b.Adv {
					keep = append(keep, b)
				}
			}
			if len(keep) == 0 {
				continue
			}
			it.Blobs = keep
		}
		out = append(out, it)
	}
	return out
}

// ---- crowded DA heights: many third-party blobs at the DA height that carries the proposer's blobs ---------

// thirdPartyRuns: n third-party blobs as 1-3 runs of identical blobs (any adversarial DA kind of genAdvItem)
func thirdPartyRuns(r *rand.Rand, L uint64, n int) []Item {
	var out []Item
	for n > 0 {
		k := n
		if len(out) < 2 && n > 1 && r.Intn(100) < 55 {
			k = 1 + r.Intn(n)
		}
		it := genAdvItem(r, L, "da")
		it.Rep = k
		out = append(out, it)
		n -= k
	}
	return out
}

// crowdSize: how many third-party blobs share the DA height; the boundaries of RetrieveWithHelpers' batches of 100 ids
func crowdSize(r *rand.Rand, tier string) int {
	switch p := r.Intn(100); {
	case p < 60:
		return []int{99, 100, 101, 130, 150, 198, 199, 200, 201, 250, 298, 299, 300, 301, 350}[r.Intn(15)]
	case p < 82:
		return 101 + r.Intn(250)
	case p < 92:
		return r.Intn(100)
	}
	if tier == "thorough" {
		return 351 + r.Intn(700)
	}
	return 98
}

// crowdedHeight: the proposer's blobs gen (0-2 items) with T third-party blobs ahead of / between / behind them
func crowdedHeight(r *rand.Rand, L uint64, gen []Item, tier string) Item {
	T := crowdSize(r, tier)
	front := r.Intn(T + 1)
	if r.Intn(100) < 45 { // the proposer's blobs come last or nearly last: inside the trailing (partial) batch
		front = T - r.Intn(T%100+1)
		if r.Intn(100) < 50 {
			front = T
		}
	}
	mid := 0
	if len(gen) == 2 && r.Intn(100) < 35 {
		mid = r.Intn(T - front + 1)
	}
	it := Item{Via: "dah"}
	it.Blobs = append(it.Blobs, thirdPartyRuns(r, L, front)...)
	for i, g := range gen {
		it.Blobs = append(it.Blobs, g)
		if i == 0 && len(gen) == 2 {
			it.Blobs = append(it.Blobs, thirdPartyRuns(r, L, mid)...)
		}
	}
	it.Blobs = append(it.Blobs, thirdPartyRuns(r, L, T-front-mid)...)
	it.Adv = len(gen) == 0
	return it
}

// crowdHeights rewrites the genuine traffic: for one or two blocks delivered over DA, the header and/or data blob
// no longer arrive alone but inside a crowded DA height.
func crowdHeights(r *rand.Rand, g []Item, L uint64, tier string) []Item {
	var hs []uint64
	for _, it := range g {
		if it.Via == "da" && it.Kind == "hdr" {
			hs = append(hs, it.H)
		}
	}
	if len(hs) == 0 {
		return g
	}
	pick := map[uint64]int{} // 1 both blobs, 2 header only, 3 data only
	for k := 0; k < 1+r.Intn(2); k++ {
		pick[hs[r.Intn(len(hs))]] = []int{1, 1, 1, 1, 2, 3}[r.Intn(6)]
	}
	var out []Item
	done := map[uint64]bool{}
	for i, it := range g {
		mode := pick[it.H]
		if it.Via != "da" || mode == 0 {
			out = append(out, it)
			continue
		}
		switch {
		case mode == 1 && !done[it.H]: // both: at the position of the first of the two, in their order of arrival
			done[it.H] = true
			pair := []Item{it}
			for _, o := range g[i+1:] {
				if o.Via == "da" && o.H == it.H && o.Kind != it.Kind {
					pair = append(pair, o)
					break
				}
			}
			out = append(out, crowdedHeight(r, L, pair, tier))
		case mode == 1: // the second of the pair: already inside the height
		case (mode == 2 && it.Kind == "hdr") || (mode == 3 && it.Kind == "data"):
			out = append(out, crowdedHeight(r, L, []Item{it}, tier))
		default:
			out = append(out, it)
		}
	}
	return out
}

// ---- non-canonical items and ranges of the header store (streams f, g): PRNGs of their own -----------------------

var outsideMuts = []string{"valhash", "valhash", "valhash", "valhash1", "lastcommit", "consensus", "results", "version"}

func isOutsideMut(m string) bool {
	for _, o := range outsideMuts {
		if o == m {
			return true
		}
	}
	return false
}

// genAddrLenHdr: a header whose signer / proposer address has another length than a key address
func genAddrLenHdr(r *rand.Rand, L uint64, via string) Item {
	it := Item{Adv: true, Via: via, Kind: "hdr", H: 1 + uint64(r.Intn(int(L))), Salt: int64(1 + r.Intn(1000)), SignerKey: -1, SignerAddr: -1, PropAddr: -1}
	k := 2 + r.Intn(2)
	switch p := r.Intn(100); {
	case p < 30: // the proposer's address in the header, a third party's key, NO signer address
		it.Sign, it.SignerKey, it.SignerAddr = k, k, 0
	case p < 45: // ... a truncated form of the proposer's address in the signer
		it.Sign, it.SignerKey, it.SignerAddr = k, k, -3
	case p < 55: // ... a truncated form of the third party's own address in the signer
		it.Sign, it.SignerKey, it.SignerAddr = k, k, -4
	case p < 65: // the proposer's truncated address everywhere
		it.Sign, it.SignerKey, it.SignerAddr, it.PropAddr = k, k, -3, -3
	case p < 73: // the third party's truncated address everywhere
		it.Sign, it.SignerKey, it.SignerAddr, it.PropAddr = k, k, -4, -4
	case p < 83: // the genuine header and signature, the signer's address truncated
		it.SignerAddr = -3
	case p < 91: // the genuine header and signature, no signer address
		it.SignerAddr = 0
	default: // one byte too many
		it.Sign, it.SignerKey, it.SignerAddr = k, k, -5
	}
	if r.Intn(100) < 35 {
		it.Mut = []string{"app", "time", "datahash", "last", "chain"}[r.Intn(5)]
	}
	return it
}

// genOutsideHdr: an altered copy of a genuine header in a field outside Model/Types.header
func genOutsideHdr(r *rand.Rand, L uint64, via string) Item {
	it := Item{Adv: true, Via: via, Kind: "hdr", H: 1 + uint64(r.Intn(int(L))), Salt: int64(1 + r.Intn(1000)), SignerKey: -1, SignerAddr: -1, PropAddr: -1}
	it.Mut = outsideMuts[r.Intn(len(outsideMuts))]
	k := 2 + r.Intn(2)
	switch p := r.Intn(100); {
	case p < 70: // the genuine signature and signer
	case p < 80:
		it.Sign, it.SignerKey, it.SignerAddr = k, k, 1
	case p < 90:
		it.Sign, it.SignerKey, it.SignerAddr, it.PropAddr = k, k, k, k
	default:
		it.Sign = -1
	}
	return it
}

func genAddrLenData(r *rand.Rand, L uint64) Item {
	it := Item{Adv: true, Via: "da", Kind: "data", H: 1 + uint64(r.Intn(int(L))), Salt: int64(1 + r.Intn(1000)), SignerKey: -1, SignerAddr: -1, PropAddr: -1}
	k := 2 + r.Intn(2)
	it.NewTxs = r.Intn(100) < 50
	switch p := r.Intn(100); {
	case p < 35:
		it.Sign, it.SignerKey, it.SignerAddr = k, k, 0
	case p < 55:
		it.Sign, it.SignerKey, it.SignerAddr = k, k, -3
	case p < 70:
		it.Sign, it.SignerKey, it.SignerAddr = k, k, -4
	case p < 85: // the genuine data and signature, the signer's address truncated
		it.SignerAddr, it.NewTxs = -3, false
	default:
		it.SignerAddr, it.NewTxs = 0, false
	}
	return it
}

// genRangeSub: a third party's header for position h of a range
func genRangeSub(r *rand.Rand, L uint64, h uint64) Item {
	var it Item
	k := 2 + r.Intn(2)
	switch p := r.Intn(100); {
	case p < 45: // self-consistent: made, addressed and signed with the third party's own key
		it = Item{Adv: true, Kind: "hdr", Sign: k, SignerKey: k, SignerAddr: k, PropAddr: k}
	case p < 60: // the third party's key under the proposer's address
		it = Item{Adv: true, Kind: "hdr", Sign: k, SignerKey: k, SignerAddr: 1, PropAddr: -1}
	case p < 70: // unsigned, naming the proposer
		it = Item{Adv: true, Kind: "hdr", Sign: -2, SignerKey: 0, SignerAddr: -1, PropAddr: -1}
	case p < 80:
		it = genAddrLenHdr(r, L, "p2p")
		it.Mut = ""
	case p < 92:
		it = genOutsideHdr(r, L, "p2p")
	default: // an altered copy under the genuine signature
		it = Item{Adv: true, Kind: "hdr", SignerKey: -1, SignerAddr: -1, PropAddr: -1, Mut: "app"}
	}
	it.Via, it.H, it.Salt = "p2p", h, int64(1+r.Intn(1000))
	if it.Mut == "" && r.Intn(100) < 30 {
		it.Mut = []string{"app", "time", "datahash", "last", "chain", "height+"}[r.Intn(6)]
	}
	return it
}

// firstGenuineHeaderAt: index of the first item that brings the proposer's header of block h (len(items) if none)
func firstGenuineHeaderAt(items []Item, h uint64) int {
	for i, it := range items {
		if !it.Adv && it.Kind == "hdr" && it.H == h && it.Via != "init" {
			return i
		}
		for _, b := range it.Blobs {
			if !b.Adv && b.Kind == "hdr" && b.H == h {
				return i
			}
		}
	}
	return len(items)
}

func insertAt(items []Item, pos int, it Item) []Item {
	return append(items[:pos:pos], append([]Item{it}, items[pos:]...)...)
}

// widenCase adds the items of streams (f) and (g) to a generated case.
func widenCase(seed int64, c int, rp *Replay, L uint64) {
	rs := rand.New(rand.NewSource(seed*7368787 + int64(c)*31 + 2203))
	if rp.Kind == "adm" {
		for i := 0; i < 3; i++ {
			rp.Items = append(rp.Items, genAddrLenHdr(rs, L, "da"))
		}
		rp.Items = append(rp.Items, genAddrLenData(rs, L))
		for i := 0; i < 3; i++ {
			rp.Items = append(rp.Items, genOutsideHdr(rs, L, "da"))
		}
		for i := 0; i < 2; i++ {
			it := genAddrLenHdr(rs, L, "p2p")
			it.H = 1 + uint64(rs.Intn(int(L)+1))
			rp.Items = append(rp.Items, it)
			it = genOutsideHdr(rs, L, "p2p")
			it.H = 1 + uint64(rs.Intn(int(L)+1))
			rp.Items = append(rp.Items, it)
		}
		return
	}
	start := 0
	for start < len(rp.Items) && rp.Items[start].Via == "init" {
		start++
	}
	p2p := start > 0
	// (g) one non-canonical item, mostly ahead of the proposer's header of its height (where it competes with it)
	if rs.Intn(100) < 45 {
		via := "da"
		if p2p && rs.Intn(100) < 40 {
			via = "p2p"
		}
		var it Item
		switch p := rs.Intn(100); {
		case p < 45:
			it = genAddrLenHdr(rs, L, via)
		case p < 55 && via == "da":
			it = genAddrLenData(rs, L)
		default:
			it = genOutsideHdr(rs, L, via)
		}
		pos := start + rs.Intn(len(rp.Items)-start+1)
		if it.Kind == "hdr" && rs.Intn(100) < 75 {
			if via == "p2p" { // the header store only takes the next height: right ahead of the proposer's gossip of that height
				if it.H < 2 {
					it.H = 2
				}
				for i, g := range rp.Items {
					if !g.Adv && g.Via == "p2p" && g.Kind == "hdr" && g.H == it.H {
						pos = i
					}
				}
			} else if first := firstGenuineHeaderAt(rp.Items, it.H); first >= start {
				pos = start + rs.Intn(first-start+1)
			}
		}
		rp.Items = insertAt(rp.Items, pos, it)
	}
	// (f) a range of the header store: the proposer's gossip headers of heights a..b arrive in ONE pass of the store
	// loop, some positions held by a third party's header instead
	var at []int
	for i, it := range rp.Items {
		if !it.Adv && it.Via == "p2p" && it.Kind == "hdr" {
			at = append(at, i)
		}
	}
	if !p2p || len(at) < 2 || rs.Intn(100) >= 55 {
		return
	}
	lo := rs.Intn(len(at) - 1)
	hi := lo + 1 + rs.Intn(len(at)-lo-1)
	if rs.Intn(100) < 40 {
		hi = len(at) - 1
	}
	rg := Item{Via: "range"}
	nadv := 0
	for _, i := range at[lo : hi+1] {
		sub := rp.Items[i]
		if rs.Intn(100) < 40 {
			sub = genRangeSub(rs, L, sub.H)
			nadv++
		}
		rg.Blobs = append(rg.Blobs, sub)
	}
	if nadv == 0 && rs.Intn(100) < 70 { // mostly: at least one third-party header, at any position
		j := rs.Intn(len(rg.Blobs))
		rg.Blobs[j] = genRangeSub(rs, L, rg.Blobs[j].H)
	}
	where := at[lo]
	if rs.Intn(100) < 50 {
		where = at[hi]
	}
	var out []Item
	drop := map[int]bool{}
	for _, i := range at[lo : hi+1] {
		drop[i] = true
	}
	for i, it := range rp.Items {
		if i == where {
			out = append(out, rg)
		}
		if !drop[i] {
			out = append(out, it)
		}
	}
	// a height of the store held by a third party's header reaches the node over DA (the comparison with the genuine-only
	// run is about what the node does with the range, not about blocks that were published on P2P only)
	for h := rg.Blobs[0].H; h <= L; h++ {
		if firstDA(out, h, "hdr") < 0 {
			out = append(out, Item{Via: "da", Kind: "hdr", H: h})
		}
		if firstDA(out, h, "data") < 0 {
			out = append(out, Item{Via: "da", Kind: "data", H: h})
		}
	}
	rp.Items = out
}

// firstDA: index of the item that brings the proposer's header / data blob of block h over DA (-1 if none)
func firstDA(items []Item, h uint64, kind string) int {
	for i, it := range items {
		if !it.Adv && it.Via == "da" && it.Kind == kind && it.H == h {
			return i
		}
		if it.Via == "dah" {
			for _, b := range it.Blobs {
				if !b.Adv && b.Kind == kind && b.H == h {
					return i
				}
			}
		}
	}
	return -1
}

// ---- (h) copies that keep the IDENTITY of a genuine item, and signers without a public key: a PRNG of their own ----------
//
// The node names a header by Header.Hash() and signed data by Data.DACommitment(): neither covers the signature or the
// signer.  A third party that has seen the proposer's item (gossip, the DA layer itself) can post a COPY with the same
// identity and another signature / signer - no private key needed - ahead of the proposer's own blob: at an earlier DA
// height, or earlier in the same DA height.  Whatever the node remembers about the copy under that identity must not
// touch the proposer's item.  The wire format also allows a signer that has an address and NO public key.

// genShadowHdr: a copy of the proposer's header of block h: same Header, other signature and / or signer
func genShadowHdr(r *rand.Rand, h uint64, via string) Item {
	it := Item{Adv: true, Via: via, Kind: "hdr", H: h, Salt: int64(1 + r.Intn(1000)), SignerKey: -1, SignerAddr: -1, PropAddr: -1}
	k := 2 + r.Intn(2)
	switch p := r.Intn(100); {
	case p < 22: // the proposer's signer, the signature replaced by random bytes
		it.Sign = -1
	case p < 32: // the proposer's signer, a third party's signature over the same header
		it.Sign = k
	case p < 40: // the signature removed
		it.Sign = -2
	case p < 58: // the genuine signature, the public key removed, the address kept
		it.SignerKey = -2
	case p < 68: // no public key, the address kept, random signature
		it.SignerKey, it.Sign = -2, -1
	case p < 74: // the whole signer removed
		it.SignerKey = 0
	case p < 84: // a third party's key and signature under the proposer's address
		it.Sign, it.SignerKey, it.SignerAddr = k, k, 1
	case p < 90: // the genuine signature next to a third party's key
		it.SignerKey, it.SignerAddr = k, 1
	default: // not a copy: a third party's header under its OWN address everywhere, signed, without its public key
		it.Sign, it.SignerKey, it.SignerAddr, it.PropAddr = k, -2, k, k
	}
	return it
}

// genShadowData: a copy of the proposer's signed data of block h: same Data (same commitment), other signature / signer;
// for an empty block (the proposer posts no data blob) invented transactions
func genShadowData(r *rand.Rand, h uint64, empty bool) Item {
	it := Item{Adv: true, Via: "da", Kind: "data", H: h, Salt: int64(1 + r.Intn(1000)), SignerKey: -1, SignerAddr: -1, PropAddr: -1, NewTxs: empty}
	k := 2 + r.Intn(2)
	switch p := r.Intn(100); {
	case p < 22:
		it.Sign = -1
	case p < 32:
		it.Sign = k
	case p < 40:
		it.Sign = -2
	case p < 60:
		it.SignerKey = -2
	case p < 72:
		it.SignerKey, it.Sign = -2, -1
	case p < 80: // no public key, the proposer's address, invented transactions, a third party's signature
		it.SignerKey, it.Sign, it.NewTxs = -2, k, true
	case p < 86:
		it.SignerKey = 0
	case p < 94:
		it.Sign, it.SignerKey, it.SignerAddr = k, k, 1
	default:
		it.SignerKey, it.SignerAddr = k, 1
	}
	return it
}

// isShadow: a third party's item with the content of the proposer's item of block H (nothing inside the hash / commitment altered)
func isShadow(it Item, L uint64) bool {
	return it.Adv && (it.Kind == "hdr" || it.Kind == "data") && it.Mut == "" && !it.NewTxs && !it.NoMeta && it.Resplit == 0 && it.PropAddr == -1 &&
		it.H >= 1 && it.H <= L && (it.Sign != 0 || it.SignerKey != -1 || it.SignerAddr != -1)
}

// shadowCase adds the items of stream (h) to a generated case.
func shadowCase(seed int64, c int, rp *Replay, L uint64) {
	rs := rand.New(rand.NewSource(seed*7368787 + int64(c)*31 + 4409))
	if rp.Kind == "adm" {
		for i := 0; i < 4; i++ {
			rp.Items = append(rp.Items, genShadowHdr(rs, 1+uint64(rs.Intn(int(L))), "da"))
		}
		for i := 0; i < 3; i++ {
			h := 1 + uint64(rs.Intn(int(L)))
			rp.Items = append(rp.Items, genShadowData(rs, h, rp.TxCount[h-1] == 0))
		}
		for i := 0; i < 2; i++ {
			rp.Items = append(rp.Items, genShadowHdr(rs, 1+uint64(rs.Intn(int(L))), "p2p"))
		}
		return
	}
	if rs.Intn(100) >= 60 {
		return
	}
	start := 0
	for start < len(rp.Items) && rp.Items[start].Via == "init" {
		start++
	}
	for j, n := 0, 1+rs.Intn(2); j < n; j++ {
		kind := "hdr"
		if rs.Intn(100) < 35 {
			kind = "data"
		}
		// where the proposer's blob of that kind reaches the node over DA: (item, position inside a DA height or -1)
		type place struct{ i, s int }
		var at []place
		for i, it := range rp.Items {
			if !it.Adv && it.Via == "da" && it.Kind == kind && (kind == "hdr" || rp.TxCount[it.H-1] > 0) {
				at = append(at, place{i, -1})
			}
			if it.Via == "dah" {
				for s, b := range it.Blobs {
					if !b.Adv && b.Kind == kind && (kind == "hdr" || rp.TxCount[b.H-1] > 0) {
						at = append(at, place{i, s})
					}
				}
			}
		}
		if len(at) == 0 || (start > 0 && rs.Intn(100) < 25) {
			// the P2P header path: the copy gossiped right ahead of the proposer's gossip of that height
			for i, it := range rp.Items {
				if !it.Adv && it.Via == "p2p" && it.Kind == "hdr" && rs.Intn(100) < 50 {
					rp.Items = insertAt(rp.Items, i, genShadowHdr(rs, it.H, "p2p"))
					break
				}
			}
			continue
		}
		pl := at[rs.Intn(len(at))]
		g := rp.Items[pl.i]
		if pl.s >= 0 {
			g = g.Blobs[pl.s]
		}
		var sh Item
		if kind == "hdr" {
			sh = genShadowHdr(rs, g.H, "da")
		} else {
			sh = genShadowData(rs, g.H, false)
		}
		if rs.Intn(100) < 25 {
			sh.Rep = 2 + rs.Intn(3)
		}
		switch p := rs.Intn(100); {
		case p < 40: // at an earlier DA height
			sh.Rep = 0
			rp.Items = insertAt(rp.Items, start+rs.Intn(pl.i-start+1), sh)
		case p < 85: // in the same DA height, ahead of the proposer's blob
			if pl.s >= 0 {
				hgt := rp.Items[pl.i]
				hgt.Blobs = insertAt(hgt.Blobs, rs.Intn(pl.s+1), sh)
				rp.Items[pl.i] = hgt
			} else {
				rp.Items[pl.i] = Item{Via: "dah", Blobs: []Item{sh, g}}
			}
		default: // behind it: same height or a later one
			if pl.s >= 0 {
				hgt := rp.Items[pl.i]
				hgt.Blobs = insertAt(hgt.Blobs, pl.s+1+rs.Intn(len(hgt.Blobs)-pl.s), sh)
				rp.Items[pl.i] = hgt
			} else if rs.Intn(2) == 0 {
				rp.Items[pl.i] = Item{Via: "dah", Blobs: []Item{g, sh}}
			} else {
				sh.Rep = 0
				rp.Items = insertAt(rp.Items, pl.i+1+rs.Intn(len(rp.Items)-pl.i), sh)
			}
		}
	}
}

// shadowDist: where the copies of stream (h) sit relative to the proposer's item they copy
func shadowDist(items []Item, L uint64) (out []string) {
	type pos struct{ i, s int }
	first := map[string]pos{}
	for i, it := range items {
		if !it.Adv && it.Via == "da" {
			if _, ok := first[fmt.Sprint(it.Kind, it.H)]; !ok {
				first[fmt.Sprint(it.Kind, it.H)] = pos{i, 0}
			}
		}
		if it.Via == "dah" {
			for s, b := range it.Blobs {
				if _, ok := first[fmt.Sprint(b.Kind, b.H)]; !ok && !b.Adv {
					first[fmt.Sprint(b.Kind, b.H)] = pos{i, s}
				}
			}
		}
	}
	one := func(it Item, i, s int, via string) {
		if it.SignerKey == -2 {
			out = append(out, "keyless-signer:"+via+":"+it.Kind)
		}
		if !isShadow(it, L) || via == "p2p" {
			return
		}
		g, ok := first[fmt.Sprint(it.Kind, it.H)]
		switch {
		case !ok:
			out = append(out, "identity-copy:"+it.Kind+":proposers-item-not-on-da")
		case i < g.i:
			out = append(out, "identity-copy:"+it.Kind+":at-an-earlier-da-height")
		case i == g.i && s < g.s:
			out = append(out, "identity-copy:"+it.Kind+":ahead-in-the-same-da-height")
		default:
			out = append(out, "identity-copy:"+it.Kind+":behind-the-proposers-item")
		}
	}
	for i, it := range items {
		if it.Via == "da" || it.Via == "p2p" {
			one(it, i, 0, it.Via)
		}
		if it.Via == "dah" {
			for s, b := range it.Blobs {
				one(b, i, s, "da")
			}
		}
	}
	return out
}

func caseRng(seed int64, c int) *rand.Rand { return rand.New(rand.NewSource(seed*1000003 + int64(c))) }

func genTxCounts(r *rand.Rand, tier string) []int {
	L := 3 + r.Intn(3)
	if tier == "thorough" {
		L = 3 + r.Intn(6)
	}
	out := make([]int, L)
	for i := range out {
		if r.Intn(100) < 60 {
			out[i] = 1 + r.Intn(2)
		}
	}
	return out
}

// ---- one case ------------------------------------------------------------------------------------------

type caseOut struct {
	coqDefs  string
	coqCase  string
	sigs     []string
	what     map[string]string
	items    []Item
	nAdm     int
	outcomes []uint64
	summary  map[string]interface{}
	dist     []string
}

func (w *world) execTbl(logs ...[]execCall) string {
	seen := map[string]bool{}
	var ents []string
	for _, l := range logs {
		for _, c := range l {
			e := fmt.Sprintf("(%d, %s, %d)", w.root(c.prev), w.txs(c.txs), w.root(c.out))
			if !seen[e] {
				seen[e] = true
				ents = append(ents, e)
			}
		}
	}
	return "[" + strings.Join(ents, "; ") + "]"
}

func (w *world) genesisTerm() string {
	return fmt.Sprintf("{| g_chain := %d; g_initial := %d; g_proposer := %s |}", chainN(w.gen.ChainID), w.gen.InitialHeight, w.addr(w.gen.ProposerAddress))
}

func runE2E(t *testing.T, rp Replay, tier string, doShrink map[string]bool) *caseOut {
	co := &caseOut{}
	synctest.Test(t, func(t *testing.T) {
		ctx, cancel := context.WithCancel(context.Background())
		defer cancel()
		r := caseRng(rp.Seed, rp.Case)
		w := newWorld(t, ctx, r, rp.TxCount)
		ref := w.run(genuineOnly(rp.Items))
		got := w.run(rp.Items)
		co.sigs, co.what = w.oracle(ref, got)
		co.items = rp.Items
		co.outcomes = got.outs
		// shrink the first occurrence of each failure class
		co.summary = map[string]interface{}{"items": fmt.Sprint(rp.Items), "outcomes": got.outs, "ref_height": ref.height, "height": got.height,
			"halted": got.halted, "crashed": got.crashed, "da_included": got.dainc, "ref_da_included": ref.dainc, "oracle": co.sigs}
		var applied []string
		for _, sh := range got.applied {
			applied = append(applied, w.regHeader(&sh.Header))
		}
		var outs []string
		for _, o := range got.outs {
			outs = append(outs, fmt.Sprint(o))
		}
		var fetch []string
		for _, calls := range got.fetch {
			var cs []string
			for _, c := range calls {
				cs = append(cs, fmt.Sprintf("(%d, %d)", c[0], c[1]))
			}
			fetch = append(fetch, "["+strings.Join(cs, "; ")+"]")
		}
		co.coqCase = fmt.Sprintf("CE2E {| ec_gen := %s; ec_now := %d; ec_tb := %s; ec_app0 := %d; ec_t0 := %d;\n ec_items := [%s];\n ec_outs := [%s]; ec_fetch := ["+strings.Join(fetch, "; ")+"]; ec_height := %d; ec_halted := %v; ec_crashed := %v; ec_dainc := %d; ec_applied := [%s]; ec_app := %d; ec_hstore := %d; ec_dstore := %d |}",
			w.genesisTerm(), w.now.UnixNano(), w.execTbl(ref.execLog, got.execLog), w.root(w.app0), w.gen.GenesisDAStartTime.UnixNano(),
			strings.Join(got.itemTerms, ";\n   "), strings.Join(outs, ";"), got.height, got.halted, got.crashed, got.dainc,
			strings.Join(applied, ";"), w.root(got.app), got.hstoreH, got.dstoreH)
		co.coqDefs = strings.Join(w.defs, "\n")
		for _, a := range got.admitted {
			co.dist = append(co.dist, "admitted:"+a.class)
		}
		for i, it := range rp.Items {
			if it.Via != "dah" {
				continue
			}
			n := it.nBlobs()
			co.dist = append(co.dist, fmt.Sprintf("dah:blobs=%d..%d", n/100*100, n/100*100+99), fmt.Sprintf("dah:get-calls=%d", (n+99)/100))
			pos := 0
			for _, b := range it.Blobs {
				if !b.Adv && n > 100 {
					switch {
					case n%100 != 0 && pos >= n/100*100:
						co.dist = append(co.dist, "dah:proposer-blob-in-trailing-partial-batch")
					case pos >= 100:
						co.dist = append(co.dist, "dah:proposer-blob-behind-100-blobs")
					default:
						co.dist = append(co.dist, "dah:proposer-blob-in-first-batch-of-crowded-height")
					}
				}
				pos += b.rep()
			}
			if int(got.outs[i]) > 10 {
				co.dist = append(co.dist, "dah:admitted-some")
			}
		}
		for i, it := range rp.Items {
			if it.Via == "range" {
				co.dist = append(co.dist, fmt.Sprintf("range:headers=%d", len(it.Blobs)))
				last, anyAdv := it.Blobs[len(it.Blobs)-1], false
				for _, b := range it.Blobs[:len(it.Blobs)-1] {
					anyAdv = anyAdv || b.Adv
				}
				switch {
				case anyAdv && !last.Adv:
					co.dist = append(co.dist, "range:third-party-header-below-the-proposers-newest")
				case last.Adv:
					co.dist = append(co.dist, "range:third-party-header-newest")
				default:
					co.dist = append(co.dist, "range:proposers-headers-only")
				}
				if got.outs[i] >= 20 {
					co.dist = append(co.dist, fmt.Sprintf("range:read-in-one-pass:taken=%d", got.outs[i]-20))
				} else {
					co.dist = append(co.dist, "range:does-not-continue-the-store")
				}
			}
			if it.Adv && it.Kind == "hdr" && (isOutsideMut(it.Mut) || it.SignerAddr == 0 && it.SignerKey != 0 || it.SignerAddr <= -3 || it.PropAddr <= -3) {
				co.dist = append(co.dist, fmt.Sprintf("e2e:non-canonical-header:%s:outcome=%d", it.Via, got.outs[i]))
			}
			if it.Resplit > 0 && it.Kind == "data" {
				co.dist = append(co.dist, fmt.Sprintf("e2e:near-miss-data:%s:%s:outcome=%d", it.Via, variantName(it.Resplit), got.outs[i]))
			}
		}
		co.dist = append(co.dist, shadowDist(rp.Items, uint64(len(rp.TxCount)))...)
		if got.halted {
			co.dist = append(co.dist, "e2e:halted:"+trimErr(got.haltErr))
		}
		if ref.halted || ref.height != uint64(len(rp.TxCount)) {
			co.dist = append(co.dist, "e2e:reference-run-incomplete")
			if os.Getenv("C03_DEBUG") != "" {
				fmt.Println("REF-INCOMPLETE", rp.TxCount, genuineOnly(rp.Items), ref.outs, ref.height, ref.halted, ref.haltErr)
			}
		}
	})
	return co
}

func shrinkE2E(t *testing.T, rp Replay, tier, sig string) Replay {
	fails := func(items []Item) bool {
		c := rp
		c.Items = items
		co := runE2E(t, c, tier, nil)
		for _, s := range co.sigs {
			if s == sig {
				return true
			}
		}
		return false
	}
	out := rp
	out.Items = shrinkHeights(vgen.Shrink(rp.Items, fails), fails)
	return out
}

// shrinkHeights shrinks inside the DA-height items: drops runs of blobs, then lowers the run lengths
// (bisection towards the smallest count that still fails).
func shrinkHeights(items []Item, fails func([]Item) bool) []Item {
	cur := append([]Item{}, items...)
	with := func(i int, blobs []Item) []Item {
		c := append([]Item{}, cur...)
		c[i].Blobs = blobs
		return c
	}
	for i := range cur {
		if cur[i].Via == "range" { // a third party's header of the range that is not needed: the proposer's header instead
			for j, b := range cur[i].Blobs {
				if !b.Adv {
					continue
				}
				cand := append([]Item{}, cur[i].Blobs...)
				cand[j] = Item{Via: "p2p", Kind: "hdr", H: b.H}
				if c := with(i, cand); fails(c) {
					cur = c
				}
			}
			continue
		}
		if cur[i].Via != "dah" {
			continue
		}
		for j := 0; j < len(cur[i].Blobs); j++ {
			cand := append(append([]Item{}, cur[i].Blobs[:j]...), cur[i].Blobs[j+1:]...)
			if c := with(i, cand); fails(c) {
				cur = c
				j--
			}
		}
		for j := range cur[i].Blobs {
			lo, hi := 1, cur[i].Blobs[j].rep() // invariant: hi fails
			for lo < hi {
				mid := (lo + hi) / 2
				cand := append([]Item{}, cur[i].Blobs...)
				cand[j].Rep = mid
				if c := with(i, cand); fails(c) {
					cur, hi = c, mid
				} else {
					lo = mid + 1
				}
			}
		}
	}
	return cur
}

func runAdm(t *testing.T, rp Replay) *caseOut {
	co := &caseOut{}
	synctest.Test(t, func(t *testing.T) {
		ctx, cancel := context.WithCancel(context.Background())
		defer cancel()
		r := caseRng(rp.Seed, rp.Case)
		w := newWorld(t, ctx, r, rp.TxCount)
		var blobs, pairs, cmts, vals, vdefs []string
		var vn *nodeParts // one real Manager for the execValidate calls of the case
		vnamed := map[string]bool{}
		flag := func(sig, what string) {
			if co.what == nil {
				co.what = map[string]string{}
			}
			if _, dup := co.what[sig]; !dup {
				co.sigs = append(co.sigs, sig)
				co.what[sig] = what
			}
		}
		for i, it := range rp.Items {
			if it.Via == "val" {
				// (e) a genuine signed header of the chain + near-miss data, as the node gets them (wire round trip),
				// through the real types.Validate and the real execValidate
				L := uint64(len(w.chain))
				h := (it.H-1)%L + 1
				g := w.chain[h-1]
				hb, _ := g.hdr.MarshalBinary()
				hd := new(types.SignedHeader)
				if err := hd.UnmarshalBinary(hb); err != nil {
					t.Fatal(err)
				}
				sub := it
				sub.Via, sub.Kind, sub.Adv, sub.H = "p2p", "data", true, h
				b := w.build(sub, nil)
				sth := h
				if it.Mut == "oldstate" && h > 1 {
					sth = h - 1
				}
				st, stTerm := w.stateBefore(sth)
				if vn == nil {
					vn = newNode(t, ctx, nil, w.gen, t.TempDir())
				}
				okV := types.Validate(hd, b.d) == nil
				okE := vn.m.VerifC01ExecValidate(st, hd, b.d) == nil
				shName, stName := fmt.Sprintf("VSh%d", h), fmt.Sprintf("VSt%d", sth)
				if !vnamed[shName] {
					vnamed[shName] = true
					vdefs = append(vdefs, fmt.Sprintf("Definition %s : sheader := %s.", shName, w.sheaderTerm(hd)))
				}
				if !vnamed[stName] {
					vnamed[stName] = true
					vdefs = append(vdefs, fmt.Sprintf("Definition %s : cstate := %s.", stName, stTerm))
				}
				vals = append(vals, fmt.Sprintf("{| vo_state := %s; vo_hdr := %s; vo_data := %s; vo_validate := %v; vo_exec := %v |}",
					stName, shName, w.dataTerm(b.d), okV, okE))
				co.outcomes = append(co.outcomes, map[bool]uint64{true: 1, false: 0}[okV])
				co.dist = append(co.dist, fmt.Sprintf("val:%s:accepted=%v", variantName(it.Resplit), okV))
				if (okV || okE) && !sameTxs(b.d.Txs, g.data.Txs) {
					co.dist = append(co.dist, "admitted:"+sigForeignValid)
					flag(sigForeignValid, fmt.Sprintf("item %d (%s): under the proposer-signed header of block %d, types.Validate accepted=%v / execValidate accepted=%v data with the transactions %s, which are not the proposer's %s (near miss: %s)",
						i, it, h, okV, okE, hexTxs(b.d.Txs), hexTxs(g.data.Txs), variantName(it.Resplit)))
				}
				continue
			}
			if it.Via == "cmt" {
				// (e) the real DACommitment of two byte-level transaction lists, and the bytes it hashes
				base := w.cmtBase(it.H, it.Salt)
				A, B := cloneTxs(base), cloneTxs(base)
				if it.Resplit > 0 {
					A = variantTxs(base, it.Resplit, it.Salt)
				}
				if it.Resplit2 > 0 {
					B = variantTxs(base, it.Resplit2, it.Salt)
				}
				da, db := &types.Data{Txs: A}, &types.Data{Txs: B}
				if it.Salt%2 == 1 { // DACommitment leaves the Metadata out
					da.Metadata = &types.Metadata{ChainID: chainID, Height: it.H, Time: uint64(it.Salt), LastDataHash: bytes.Repeat([]byte{7}, 32)}
				}
				ca, cb := da.DACommitment(), db.DACommitment()
				eq := bytes.Equal(ca, cb)
				enc, err := (&types.Data{Txs: A}).MarshalBinary()
				if err != nil {
					t.Fatal(err)
				}
				pre := append([]byte{0}, enc...)
				sum := sha256.Sum256(pre)
				preOK := bytes.Equal(sum[:], ca)
				cmts = append(cmts, fmt.Sprintf("{| co_a := %s; co_b := %s; co_eq := %v; co_pre := %s; co_pre_ok := %v |}",
					btxsTerm(A), btxsTerm(B), eq, bytesTerm(pre), preOK))
				co.outcomes = append(co.outcomes, map[bool]uint64{true: 1, false: 0}[eq])
				same := sameTxs(A, B)
				switch {
				case same:
					co.dist = append(co.dist, "cmt:one-list-twice")
				case bytes.Equal(concatTxs(A), concatTxs(B)):
					co.dist = append(co.dist, "cmt:different-lists-same-concatenation")
				default:
					co.dist = append(co.dist, "cmt:different-lists-different-bytes")
				}
				if len(pre) > 130 {
					co.dist = append(co.dist, "cmt:transaction-of-128+-bytes")
				}
				switch {
				case eq && !same:
					flag(sigCollision, fmt.Sprintf("item %d (%s): the transaction lists %s and %s are different and have the same DACommitment %x", i, it, hexTxs(A), hexTxs(B), []byte(ca)))
				case !eq && same:
					flag(sigNotAFunc, fmt.Sprintf("item %d (%s): the transaction list %s has the DACommitments %x and %x", i, it, hexTxs(A), []byte(ca), []byte(cb)))
				}
				continue
			}
			if it.Via == "da" {
				b := w.build(it, nil)
				nctx, ncancel := context.WithCancel(ctx)
				n := newNode(t, nctx, nil, w.gen, t.TempDir())
				o := feedBlob(nctx, n, b, uint64(i+1))
				func() {
					defer func() {
						if recover() != nil { // the direct answers are given by the same code the retrieve goroutine runs
							o.panicked = true
						}
					}()
					if b.sh != nil {
						cp := new(types.SignedHeader)
						_ = cp.UnmarshalBinary(b.bytes)
						o.direct = n.m.VerifIsUsingExpectedSingleSequencer(cp)
						o.basic = cp.ValidateBasic() == nil
					}
					if b.sd != nil {
						cp := new(types.SignedData)
						_ = cp.UnmarshalBinary(b.bytes)
						o.direct = n.m.VerifIsValidSignedData(cp)
					}
				}()
				ncancel()
				stopNode(n)
				synctest.Wait()
				blobs = append(blobs, fmt.Sprintf("(%s, %s)", w.blobTerm(b), o.coq()))
				co.outcomes = append(co.outcomes, map[bool]uint64{true: 1, false: 0}[o.hmark || o.dmark])
				if (o.hmark || o.dmark || o.panicked) && w.isAdversarial(b) {
					cl := w.admissionClass(b)
					if o.panicked {
						if cl == sigF3Data && b.sd != nil && b.sd.Metadata == nil {
							cl = sigPanic
						} else {
							cl = sigCrash
						}
					}
					co.dist = append(co.dist, "admitted:"+cl)
					if _, ok := map[string]bool{sigF3Header: true, sigF3Data: true, sigPanic: true, sigCrash: true}[cl]; ok {
						if co.what == nil {
							co.what = map[string]string{}
						}
						if _, dup := co.what[cl]; !dup {
							co.sigs = append(co.sigs, cl)
							co.what[cl] = fmt.Sprintf("item %d (%s): admitted on the DA path", i, it)
							if o.panicked {
								co.what[cl] = fmt.Sprintf("item %d (%s): handlePotentialHeader / handlePotentialData panics on this third-party blob (in RetrieveLoop, a bare goroutine: the node process dies, and dies again when it re-reads the DA height after a restart)", i, it)
							}
						}
					} else {
						if co.what == nil {
							co.what = map[string]string{}
						}
						co.sigs = append(co.sigs, sigUnexpected)
						co.what[sigUnexpected] = fmt.Sprintf("item %d (%s): an adversarial item outside every listed class was admitted on the DA path", i, it)
					}
				}
				continue
			}
			// p2p pair: trusted = the genuine header below the item's base height (or the first one)
			th := it.H - 1
			if th < 1 {
				th = 1
			}
			if th > uint64(len(w.chain)) {
				th = uint64(len(w.chain))
			}
			if it.Kind != "hdr" {
				continue
			}
			b := w.build(it, nil)
			trusted := w.chain[th-1].hdr
			hs, ds := newGoHeaderStores(t, ctx)
			if err := hs.Init(ctx, trusted); err != nil {
				t.Fatal(err)
			}
			val, verdict, stored := gossipHeader(ctx, hs, b.bytes)
			_ = hs.Stop(context.Background())
			_ = ds.Stop(context.Background())
			synctest.Wait()
			tb, _ := trusted.MarshalBinary()
			td := new(types.SignedHeader)
			_ = td.UnmarshalBinary(tb)
			pairs = append(pairs, fmt.Sprintf("{| po_trusted := %s; po_untrusted := %s; po_validate := %v; po_verdict := %s; po_stored := %v |}",
				w.sheaderTerm(td), w.sheaderTerm(b.sh), val, verdict, stored))
			if stored && w.isAdversarial(b) {
				cl := w.admissionClass(b)
				co.dist = append(co.dist, "admitted:"+cl)
				if co.what == nil {
					co.what = map[string]string{}
				}
				if _, dup := co.what[cl]; !dup {
					co.sigs = append(co.sigs, cl)
					co.what[cl] = fmt.Sprintf("item %d (%s): stored by the header store (light node)", i, it)
				}
			}
		}
		co.items = rp.Items
		if vn != nil {
			stopNode(vn)
			synctest.Wait()
		}
		co.coqCase = fmt.Sprintf("CAdm {| ac_gen := %s; ac_now := %d;\n ac_blobs := [%s];\n ac_p2p := [%s];\n ac_cmt := [%s];\n ac_val := [%s] |}",
			w.genesisTerm(), w.now.UnixNano(), strings.Join(blobs, ";\n   "), strings.Join(pairs, ";\n   "),
			strings.Join(cmts, ";\n   "), strings.Join(vals, ";\n   "))
		co.coqDefs = strings.Join(append(append([]string{}, w.defs...), vdefs...), "\n")
		co.summary = map[string]interface{}{"items": fmt.Sprint(rp.Items), "oracle": co.sigs}
	})
	return co
}

func shrinkAdm(t *testing.T, rp Replay, sig string) Replay {
	fails := func(items []Item) bool {
		c := rp
		c.Items = items
		for _, s := range runAdm(t, c).sigs {
			if s == sig {
				return true
			}
		}
		return false
	}
	out := rp
	out.Items = vgen.Shrink(rp.Items, fails)
	return out
}

func genCase(seed int64, c int, tier string) Replay {
	r := rand.New(rand.NewSource(seed*7368787 + int64(c)*31 + 5))
	rp := Replay{Seed: seed, Case: c, TxCount: genTxCounts(r, tier)}
	L := uint64(len(rp.TxCount))
	if c%3 == 0 {
		rp.Kind = "adm"
		for i := 0; i < 10; i++ {
			rp.Items = append(rp.Items, genAdvItem(r, L, "da"))
		}
		for h := uint64(1); h <= L; h++ { // the genuine blobs too
			rp.Items = append(rp.Items, Item{Via: "da", Kind: "hdr", H: h}, Item{Via: "da", Kind: "data", H: h})
		}
		for i := 0; i < 8; i++ {
			it := genAdvItem(r, L, "p2p")
			it.Kind = "hdr"
			rp.Items = append(rp.Items, it)
		}
		for h := uint64(2); h <= L; h++ {
			rp.Items = append(rp.Items, Item{Via: "p2p", Kind: "hdr", H: h})
		}
		genTxDataItems(rand.New(rand.NewSource(seed*7368787+int64(c)*31+1301)), &rp, L)
		widenCase(seed, c, &rp, L)
		shadowCase(seed, c, &rp, L)
		return rp
	}
	rp.Kind = "e2e"
	g := genGenuine(r, rp.TxCount)
	// crowded DA heights: decided and built from a PRNG of their own (the other cases stay what they were)
	rc := rand.New(rand.NewSource(seed*7368787 + int64(c)*31 + 977))
	crowd := rc.Intn(100) < 40
	if crowd {
		g = crowdHeights(rc, g, L, tier)
	}
	var adv []Item
	na := 1 + r.Intn(4)
	if r.Intn(100) < 12 {
		na = 0
	}
	if crowd && rc.Intn(100) < 30 { // a DA height holding third-party blobs only
		adv = append(adv, crowdedHeight(rc, L, nil, tier))
	}
	for i := 0; i < na; i++ {
		via := "da"
		if r.Intn(100) < 45 {
			via = "p2p"
		}
		it := genAdvItem(r, L, via)
		adv = append(adv, it)
		// the companion of a forged header with invented transactions: the forged data for it
		if it.Kind == "hdr" && it.Mut == "datahash" && it.Via == "da" && r.Intn(100) < 70 {
			adv = append(adv, Item{Adv: true, Via: "da", Kind: "data", H: it.H, Salt: it.Salt, NewTxs: true, Sign: 2, SignerKey: 2, SignerAddr: 1, PropAddr: -1})
		}
	}
	rp.Items = interleave(r, g, adv)
	genTxDataItems(rand.New(rand.NewSource(seed*7368787+int64(c)*31+1301)), &rp, L)
	widenCase(seed, c, &rp, L)
	shadowCase(seed, c, &rp, L)
	return rp
}

func TestVerif(t *testing.T) {
	e := vgen.GetEnv()
	_ = logging.SetLogLevel("*", "FATAL")
	res := vgen.NewResult("C03", e)
	var jobs []Replay
	if e.Replay != "" {
		var rp Replay
		if err := vgen.LoadReplay(e.Replay, &rp); err != nil {
			t.Fatal(err)
		}
		jobs = append(jobs, rp)
	} else {
		files, _ := filepath.Glob("../corpus/C03/*.json")
		if os.Getenv("VERIF_NO_CORPUS") != "" {
			files = nil
		}
		sort.Strings(files)
		for _, f := range files {
			var rp Replay
			if vgen.LoadReplay(f, &rp) == nil && rp.Kind != "" {
				jobs = append(jobs, rp)
			}
		}
		for c := 0; c < e.N; c++ {
			jobs = append(jobs, genCase(e.Seed, c, e.Tier))
		}
	}
	var cases, defsAll []string
	distinct := map[string]bool{}
	shrunk := map[string]bool{}
	for ji, rp := range jobs {
		var co *caseOut
		if rp.Kind == "adm" {
			co = runAdm(t, rp)
		} else {
			co = runE2E(t, rp, e.Tier, nil)
		}
		res.Evaluations++
		res.Count("case:" + rp.Kind)
		nadv := 0
		for _, it := range rp.Items {
			res.Count("item:" + it.Via + "/" + it.Kind)
			for _, b := range it.Blobs {
				if it.Via == "range" {
					if b.Adv {
						nadv++
						res.Count("range-header:third-party:mut=" + b.Mut)
						res.Count(fmt.Sprintf("range-header:third-party:sign=%d,key=%d,addr=%d,prop=%d", b.Sign, b.SignerKey, b.SignerAddr, b.PropAddr))
					} else {
						res.Count("range-header:proposer")
					}
					continue
				}
				if b.Adv {
					res.Count("dah-blob:" + b.Kind)
					if !it.Adv {
						nadv++
					}
				}
			}
			if it.Adv {
				nadv++
				res.Count("adv:" + it.Kind + ":mut=" + it.Mut)
				if it.Kind == "hdr" || (it.Kind == "data" && it.Via == "da") {
					res.Count(fmt.Sprintf("adv:sign=%d,key=%d,addr=%d,prop=%d", it.Sign, it.SignerKey, it.SignerAddr, it.PropAddr))
				}
			}
		}
		for _, d := range co.dist {
			res.Count(d)
		}
		if nadv > 0 && len(rp.Items) >= 4 {
			distinct[fmt.Sprint(rp.TxCount, rp.Items)] = true
		}
		for _, sig := range co.sigs {
			res.Count("oracle:" + sig)
			v := vgen.Violation{Signature: sig, What: co.what[sig], Case: ji, Replay: rp}
			if !shrunk[sig] {
				shrunk[sig] = true
				if rp.Kind == "adm" {
					v.Replay = shrinkAdm(t, rp, sig)
				} else {
					v.Replay = shrinkE2E(t, rp, e.Tier, sig)
				}
				res.Violations = append(res.Violations, v)
			} else if e.Replay != "" {
				res.Violations = append(res.Violations, v)
			}
		}
		if len(co.sigs) == 0 {
			res.Count("oracle:clean")
		}
		defsAll = append(defsAll, fmt.Sprintf("Module C%d.\n%s\nDefinition c : case := %s.\nEnd C%d.", ji, co.coqDefs, co.coqCase, ji))
		cases = append(cases, fmt.Sprintf("C%d.c", ji))
		res.Replays[fmt.Sprint(ji)] = rp
		if len(res.Samples) < 3 && rp.Kind == "e2e" && nadv > 1 {
			res.Samples = append(res.Samples, co.summary)
		}
	}
	res.Distinct = len(distinct)
	res.Rule = "per case a fresh world: 3 real Ed25519 keys, a real aggregator Manager producing 3-5 blocks (thorough: 3-8; 60% non-empty); every third case = admission case (10 adversarial + all genuine DA blobs each on a fresh non-aggregator Manager; 8 adversarial + genuine gossip headers through go-header's Validate/Verify/append on a real store); other cases = end-to-end: genuine traffic (P2P init 60%, each block over DA/P2P/both, 15% neighbour swaps) interleaved at random positions with 0-4 adversarial items (45% over P2P, of which 45% data; F3 shape 38% of headers, honest third party, stolen signature, unsigned hash-linked, junk signature, wrong chain id, past/future height, future time, truncated/junk/undecodable/empty blobs, forged data with and without Metadata, linked/unlinked P2P data) on a real syncing Manager under synctest, plus the genuine-only reference run; 40% of the end-to-end cases are crowded: for 1-2 blocks delivered over DA the proposer's header and/or data blob sit in ONE DA height together with 0-350 (thorough: up to 1050) third-party blobs (sizes on the boundaries of RetrieveWithHelpers' batches of 100 ids: 99,100,101,130,...,299,300,301,350, or uniform) of the adversarial DA kinds, ahead of / between / behind the proposer's blobs (45%: the proposer's blobs last or within the trailing partial batch), 30% of them also get a DA height of third-party blobs only; such a height is published on the node's DA double and read by the real processNextDAHeaderAndData -> fetchBlobs -> types.RetrieveWithHelpers (GetIDs + batched Get) -> handlePotentialHeader/Data; transaction data (own PRNG per case): every admission case adds, per block of the chain, 2 pairs (genuine signed header, data whose transaction list is a near miss of the proposer's: 60% same concatenation = re-cut at random boundaries / one boundary moved by one byte / an empty transaction added / all merged, else any of those or swapped, rotated, truncated, duplicated, one bit flipped, protobuf tag+length inside one transaction, exact copy; 10% without Metadata, 10% wrong chain id / height / older state; for an empty block: lists of empty transactions) + 1 exact copy, handed after a wire round trip to the real types.Validate and execValidate, and 6 pairs of byte-level lists (the proposer's transactions or 1-4 invented ones of 0-6 bytes over an alphabet of framing-like bytes, 1/16 with a transaction of 128-207 bytes; base vs near miss 40%, a list against itself 10%, two near misses 50%) whose real DACommitments are compared, together with sha256(leafPrefix ++ real Data{Txs} encoding) == DACommitment; half of the end-to-end cases add one near-miss data item: gossiped on the P2P data path, hash-linked, 80% right ahead of the proposer's data of that height (where the data store takes it), or - node without P2P - posted on DA under the proposer's signature of the genuine data; non-canonical items (own PRNG per case): every admission case adds on DA 3 headers whose signer / proposer address has another length than a key address (third-party key with NO signer address 30%, with a 1/2/20/31-byte prefix of the proposer's or of its own address, prefixes everywhere, the genuine header and signature with the signer's address truncated or removed, one byte too many; 35% with a field mutation on top), 1 signed-data blob of that kind, 3 altered copies of a genuine header in a field OUTSIDE the model's header (ValidatorHash 32 bytes or 1 byte, LastCommitHash, ConsensusHash, LastResultsHash, Version.App; 70% under the genuine signature and signer, else re-signed by a third party under the proposer's / its own address or junk-signed), and 2+2 of them as gossip headers through go-header's Validate/Verify/append; 45% of the end-to-end cases add one such item (40% over P2P when the node has P2P), 75% of the headers ahead of the proposer's header of that height (P2P: right ahead of the proposer's gossip of that height); ranges of the header store: 55% of the P2P end-to-end cases replace the proposer's gossip headers of heights a..b (2 or more) by ONE item = those heights appended to the node's real go-header store in one store.Append (no check of its own: what its syncer does after a range request), then one tick, so the real HeaderStoreRetrieveLoop reads the whole range in one pass; each position holds a third party's header with probability 40% (at least one in 70% of the all-genuine draws): self-consistent under the third party's own key and address 45%, third-party key under the proposer's address 15%, unsigned naming the proposer 10%, non-canonical address 10%, altered outside field 12%, altered copy under the genuine signature 8%; 30% of those without a mutation get one (app, time, datahash, last, chain, or height+ - with height+ the range does not continue the store and is not appended); every block from the first third-party position on is also published on DA (appended to the traffic if it was not); the reference run gets the range with the proposer's header at every position; observed per range: how many of its headers the sync loop took (headerCache seen) and the end state; the oracle flags a header of a range not signed by the proposer that the sync loop took or cached; identity copies and key-less signers (own PRNG per case): a header hash / data commitment covers neither signature nor signer, so a third party can post a COPY of a proposer's item with the same identity - same Header / same Data - and another signature or signer (proposer's signer with 64 random signature bytes 22%, with a third party's signature 10%, signature removed 8%, the public key REMOVED and the address kept - the address-only signer the wire format allows - under the genuine signature 18% or random bytes 10%, whole signer removed, a third party's key under the proposer's address with its own or the genuine signature; 10% of the headers instead: a third party's header under its own address everywhere, signed, without its public key; data also: key-less signer under the proposer's address with invented transactions); every admission case adds 4 such headers and 3 such signed-data blobs on DA and 2 headers as gossip; 60% of the end-to-end cases add 1-2 of them (65% headers) tied to a proposer's blob that reaches the node over DA: 40% as a DA blob at an EARLIER DA height, 45% at an earlier position INSIDE the same DA height (a single blob becomes a DA height of the copy - 25%: 2-4 times - and the proposer's blob, read by the real processNextDAHeaderAndData), 15% behind it (control); on nodes with P2P 25% go as header gossip right ahead of the proposer's gossip of that height; the oracle flags every blob signed by the proposer, delivered alone or inside a DA height, that got no DA-included mark although the read returned nil (proposer-blob-skipped-at-da-height), and every panic of a node goroutine - retrieve path, both store loops, sync loop, DA includer, now started as node/full.go starts them with the panic recorded instead of killing the harness - while the node handles third-party material (third-party-item-panics-node-goroutine); non-trivial = at least one adversarial item and 4 items; distinct = distinct (tx counts, item list)"
	res.Cases = len(cases)
	header := "From Coq Require Import String NArith ZArith List Bool.\nFrom Verif Require Import Model.Types Model.Admission Check.AdmissionCheck.\nLocal Open Scope N_scope."
	path := filepath.Join(e.Out, "cases_C03.v")
	if err := vgen.WriteCases(path, header, defsAll, "case", cases, "mismatches"); err != nil {
		t.Fatal(err)
	}
	res.CaseFiles = []string{path}
	if err := res.Write(e.Out); err != nil {
		t.Fatal(err)
	}
}
