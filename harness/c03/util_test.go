//go:build verif && go1.25

// Helpers of the C03 harness: real keys, a real aggregator block.Manager producing the genuine
// chain, a real non-aggregator block.Manager (the node under test), real go-header stores.
package c03

import (
	"bytes"
	"context"
	"crypto/ed25519"
	"encoding/binary"
	"errors"
	"math/rand"
	"testing"
	"time"

	goheaderstore "github.com/celestiaorg/go-header/store"
	ds "github.com/ipfs/go-datastore"
	dssync "github.com/ipfs/go-datastore/sync"
	logging "github.com/ipfs/go-log/v2"
	"github.com/libp2p/go-libp2p/core/crypto"

	"github.com/evstack/ev-node/block"
	coreda "github.com/evstack/ev-node/core/da"
	coreexec "github.com/evstack/ev-node/core/execution"
	coreseq "github.com/evstack/ev-node/core/sequencer"
	"github.com/evstack/ev-node/pkg/config"
	"github.com/evstack/ev-node/pkg/genesis"
	"github.com/evstack/ev-node/pkg/signer"
	"github.com/evstack/ev-node/pkg/signer/noop"
	"github.com/evstack/ev-node/pkg/store"
	"github.com/evstack/ev-node/types"
)

const chainID = "c03-chain"
const otherChainID = "c03-other"

// detKey derives an Ed25519 key pair from (seed, index) deterministically.
func detKey(r *rand.Rand) crypto.PrivKey {
	seed := make([]byte, ed25519.SeedSize)
	r.Read(seed)
	k, _, err := crypto.GenerateEd25519Key(bytes.NewReader(append(seed, seed...)))
	if err != nil {
		panic(err)
	}
	return k
}

type nopBroadcaster[T any] struct{ got []T }

func (b *nopBroadcaster[T]) WriteToStoreAndBroadcast(ctx context.Context, payload T) error {
	b.got = append(b.got, payload)
	return nil
}

// countingExec wraps the reference DummyExecutor and logs the ExecuteTxs / SetFinal calls.
type execCall struct {
	prev []byte
	txs  types.Txs
	out  []byte
}
type countingExec struct {
	*coreexec.DummyExecutor
	calls    []execCall
	finalLog []uint64
}

func (e *countingExec) ExecuteTxs(ctx context.Context, txs [][]byte, h uint64, ts time.Time, prev []byte) ([]byte, uint64, error) {
	out, mb, err := e.DummyExecutor.ExecuteTxs(ctx, txs, h, ts, prev)
	c := execCall{prev: append([]byte(nil), prev...), out: append([]byte(nil), out...)}
	for _, t := range txs {
		c.txs = append(c.txs, append([]byte(nil), t...))
	}
	e.calls = append(e.calls, c)
	return out, mb, err
}
func (e *countingExec) SetFinal(ctx context.Context, h uint64) error {
	e.finalLog = append(e.finalLog, h)
	return e.DummyExecutor.SetFinal(ctx, h)
}

// heightDA is the DA layer of the node under test: the reference DummyDA for everything the harness does not
// use, with the two read methods of the retriever (GetIDs, Get) served from the DA heights the harness
// publishes. It records every Get call as (index of the first id, number of ids).
type heightDA struct {
	coreda.DA
	heights map[uint64][][]byte
	gets    map[uint64][][2]int
}

func newHeightDA() *heightDA {
	return &heightDA{DA: coreda.NewDummyDA(1<<20, 0, 0, time.Second), heights: map[uint64][][]byte{}, gets: map[uint64][][2]int{}}
}

func daID(h uint64, i int) []byte {
	b := make([]byte, 12)
	binary.BigEndian.PutUint64(b, h)
	binary.BigEndian.PutUint32(b[8:], uint32(i))
	return b
}

func (d *heightDA) GetIDs(ctx context.Context, h uint64, ns []byte) (*coreda.GetIDsResult, error) {
	blobs, ok := d.heights[h]
	if !ok {
		return nil, coreda.ErrHeightFromFuture
	}
	ids := make([][]byte, len(blobs))
	for i := range ids {
		ids[i] = daID(h, i)
	}
	return &coreda.GetIDsResult{IDs: ids, Timestamp: time.Now()}, nil
}

func (d *heightDA) Get(ctx context.Context, ids []coreda.ID, ns []byte) ([]coreda.Blob, error) {
	if len(ids) == 0 {
		return nil, errors.New("no ids")
	}
	h := binary.BigEndian.Uint64(ids[0])
	off := int(binary.BigEndian.Uint32(ids[0][8:]))
	d.gets[h] = append(d.gets[h], [2]int{off, len(ids)})
	out := make([][]byte, 0, len(ids))
	for _, id := range ids {
		i := int(binary.BigEndian.Uint32(id[8:]))
		if len(id) != 12 || binary.BigEndian.Uint64(id) != h || i >= len(d.heights[h]) {
			return nil, coreda.ErrBlobNotFound
		}
		out = append(out, d.heights[h][i])
	}
	return out, nil
}

type nodeParts struct {
	m      *block.Manager
	da     *heightDA
	st     store.Store
	exec   *countingExec
	seq    *coreseq.DummySequencer
	hstore *goheaderstore.Store[*types.SignedHeader]
	dstore *goheaderstore.Store[*types.Data]
	hb     *nopBroadcaster[*types.SignedHeader]
	db     *nopBroadcaster[*types.Data]
}

func newGoHeaderStores(t testing.TB, ctx context.Context) (*goheaderstore.Store[*types.SignedHeader], *goheaderstore.Store[*types.Data]) {
	hs, err := goheaderstore.NewStore[*types.SignedHeader](dssync.MutexWrap(ds.NewMapDatastore()), goheaderstore.WithStorePrefix("headerSync"))
	if err != nil {
		t.Fatal(err)
	}
	dst, err := goheaderstore.NewStore[*types.Data](dssync.MutexWrap(ds.NewMapDatastore()), goheaderstore.WithStorePrefix("dataSync"))
	if err != nil {
		t.Fatal(err)
	}
	if err := hs.Start(ctx); err != nil {
		t.Fatal(err)
	}
	if err := dst.Start(ctx); err != nil {
		t.Fatal(err)
	}
	return hs, dst
}

// newNode builds a real block.Manager with NewManager. sg == nil: non-aggregator (full node).
func newNode(t testing.TB, ctx context.Context, sg signer.Signer, gen genesis.Genesis, dir string) *nodeParts {
	cfg := config.DefaultConfig
	cfg.RootDir = dir
	cfg.ChainID = gen.ChainID
	cfg.Node.Aggregator = sg != nil
	cfg.Node.BlockTime.Duration = time.Second
	cfg.DA.BlockTime.Duration = 6 * time.Second
	p := &nodeParts{}
	p.st = store.New(dssync.MutexWrap(ds.NewMapDatastore()))
	p.exec = &countingExec{DummyExecutor: coreexec.NewDummyExecutor()}
	p.seq = coreseq.NewDummySequencer()
	p.hstore, p.dstore = newGoHeaderStores(t, ctx)
	p.hb, p.db = &nopBroadcaster[*types.SignedHeader]{}, &nopBroadcaster[*types.Data]{}
	da := newHeightDA()
	p.da = da
	lg := logging.Logger("c03")
	_ = logging.SetLogLevel("c03", "FATAL")
	m, err := block.NewManager(ctx, sg, cfg, gen, p.st, p.exec, p.seq, da, lg, p.hstore, p.dstore, p.hb, p.db,
		block.NopMetrics(), 0, 0, block.DefaultManagerOptions())
	if err != nil {
		t.Fatal(err)
	}
	p.m = m
	return p
}

// genuine block material produced by the real aggregator
type gblock struct {
	hdr     *types.SignedHeader
	data    *types.Data
	hdrBlob []byte // what the aggregator posts on DA for the header
	datBlob []byte // SignedData blob (nil for empty blocks: the aggregator posts none)
}

// produceChain runs the real aggregator for len(txCounts) blocks; txCounts[i] = number of transactions of block i+1.
func produceChainNode(t testing.TB, ctx context.Context, r *rand.Rand, propKey crypto.PrivKey, gen genesis.Genesis, dir string, txCounts []int) ([]gblock, *nodeParts) {
	sg, err := noop.NewNoopSigner(propKey)
	if err != nil {
		t.Fatal(err)
	}
	agg := newNode(t, ctx, sg, gen, dir)
	var out []gblock
	for i, n := range txCounts {
		if n > 0 {
			var txs [][]byte
			for j := 0; j < n; j++ {
				tx := make([]byte, 4+r.Intn(8))
				r.Read(tx)
				txs = append(txs, tx)
			}
			if _, err := agg.seq.SubmitBatchTxs(ctx, coreseq.SubmitBatchTxsRequest{Id: []byte(gen.ChainID), Batch: &coreseq.Batch{Transactions: txs}}); err != nil {
				t.Fatal(err)
			}
		}
		time.Sleep(time.Second) // virtual (synctest) second between blocks
		if err := agg.m.VerifPublishBlock(ctx); err != nil {
			t.Fatalf("aggregator: block %d: %v", i+1, err)
		}
	}
	sds, err := agg.m.VerifCreateSignedDataToSubmit(ctx)
	if err != nil {
		t.Fatal(err)
	}
	for h := uint64(1); h <= uint64(len(txCounts)); h++ {
		hd, d, err := agg.st.GetBlockData(ctx, h)
		if err != nil {
			t.Fatal(err)
		}
		hb, err := hd.MarshalBinary()
		if err != nil {
			t.Fatal(err)
		}
		g := gblock{hdr: hd, data: d, hdrBlob: hb}
		for _, sd := range sds {
			if sd.Height() == h {
				g.datBlob, err = sd.MarshalBinary()
				if err != nil {
					t.Fatal(err)
				}
			}
		}
		out = append(out, g)
	}
	return out, agg
}

// stopNode stops the go-header stores of a node (their flush goroutines must end before the bubble does).
func stopNode(p *nodeParts) {
	_ = p.hstore.Stop(context.Background())
	_ = p.dstore.Stop(context.Background())
}
