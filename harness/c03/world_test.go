//go:build verif && go1.25

// C03 harness, part 1: the per-case world — real keys, the genuine chain from a real aggregator,
// construction of every adversarial item with real keys and real protobuf, and the projection of
// real objects onto the symbolic terms of coq/Model/Types.v + Admission.v.
package c03

import (
	"bytes"
	"context"
	"encoding/hex"
	"fmt"
	"math/rand"
	"sort"
	"strings"
	"testing"
	"time"

	"github.com/libp2p/go-libp2p/core/crypto"

	"github.com/evstack/ev-node/block"
	"github.com/evstack/ev-node/pkg/genesis"
	"github.com/evstack/ev-node/types"
	pb "github.com/evstack/ev-node/types/pb/evnode/v1"
	"google.golang.org/protobuf/proto"

	"verif/harness/vgen"
)

// Item is one traffic item of a history (replayable: everything is derived from the case PRNG and these fields).
type Item struct {
	Adv        bool   `json:"adv"`           // built by the harness without the proposer's key (or a mutation of genuine material)
	Via        string `json:"via"`           // da | p2p | init | dah (a whole DA height: Blobs, read by processNextDAHeaderAndData from the DA double)
	Kind       string `json:"kind"`          // hdr | data | junk | empty | undecodable | trunc
	H          uint64 `json:"h"`             // base height: the genuine block this item is, or is derived from (L+1 = one past the chain)
	// Mut: app | time | future | chain | datahash | last | height+ | height- ; a header field OUTSIDE Model/Types.header
	// (covered by the signature, read by nobody in the block manager): valhash | valhash1 | lastcommit | consensus | results | version
	Mut       string `json:"mut,omitempty"`
	Sign      int    `json:"sign"`       // 0 keep the original signature, k>0 re-sign with key k, -1 junk bytes, -2 empty
	SignerKey int    `json:"signer_key"` // -1 keep, 0 absent (the whole signer), k = public key of key k, -2 the public key removed and the ADDRESS kept / chosen by SignerAddr (the address-only signer the wire format allows)
	// addresses: -1 keep, 0 empty, k = address of key k, -2 other bytes; non-canonical LENGTHS: -3 a proper prefix of the
	// proposer's address (1, 2, 20 or 31 bytes, by Salt), -4 a proper prefix of the address of the signer's key,
	// -5 the proposer's address followed by one more byte
	SignerAddr int `json:"signer_addr"`
	PropAddr   int `json:"prop_addr"` // ProposerAddress of the header
	NoMeta     bool   `json:"no_meta,omitempty"`
	NewTxs     bool   `json:"new_txs,omitempty"` // data: transactions invented by the third party (derived from Salt)
	Linked     bool   `json:"linked,omitempty"`  // p2p data: LastDataHash = hash of the current data-store head
	Salt       int64  `json:"salt,omitempty"`
	// Resplit > 0 (data): the transaction list is a NEAR MISS of the proposer's list of block H (variantTxs: the same
	// bytes cut at other boundaries, a boundary moved by one byte, empty transactions, merged, reordered, rotated,
	// truncated, duplicated, a flipped bit, protobuf framing inside a transaction, an exact copy = kindCopy).
	// via=val: the pair (genuine signed header H, that data) handed to types.Validate / execValidate.
	// via=cmt: two byte-level lists (variant Resplit and variant Resplit2 of one base, 0 = the base) and their DACommitments.
	Resplit  int    `json:"resplit,omitempty"`
	Resplit2 int    `json:"resplit2,omitempty"`
	// via=dah: the blobs of the DA height in id order (each a via=da item).  via=range: the headers (oldest first) the P2P
	// header store gains between two passes of HeaderStoreRetrieveLoop, appended to the real go-header store as its
	// syncer does after a range request (store.Append), then ONE tick of the store loop
	Blobs    []Item `json:"blobs,omitempty"`
	Rep      int    `json:"rep,omitempty"`   // inside Blobs: the blob is published Rep times in a row (0 = once)
}

func (it Item) rep() int {
	if it.Rep < 1 {
		return 1
	}
	return it.Rep
}

// nBlobs: number of blobs a DA-height item holds
func (it Item) nBlobs() int {
	n := 0
	for _, b := range it.Blobs {
		n += b.rep()
	}
	return n
}

func (it Item) String() string {
	if it.Via == "range" {
		var p []string
		for _, b := range it.Blobs {
			b.Via = "p2p"
			p = append(p, b.String())
		}
		return fmt.Sprintf("range(%d headers){%s}", len(it.Blobs), strings.Join(p, " "))
	}
	if it.Via == "dah" {
		var p []string
		for _, b := range it.Blobs {
			p = append(p, fmt.Sprintf("%dx%s", b.rep(), b.String()))
		}
		s := fmt.Sprintf("dah(%d blobs){%s}", it.nBlobs(), strings.Join(p, " "))
		if it.Adv {
			s = "ADV:" + s
		}
		return s
	}
	s := fmt.Sprintf("%s/%s@%d", it.Via, it.Kind, it.H)
	if it.Adv {
		s = "ADV:" + s + fmt.Sprintf("[%s sign=%d key=%d addr=%d prop=%d nometa=%v new=%v link=%v]", it.Mut, it.Sign, it.SignerKey, it.SignerAddr, it.PropAddr, it.NoMeta, it.NewTxs, it.Linked)
	}
	if it.Resplit > 0 || it.Resplit2 > 0 {
		s += fmt.Sprintf("{txs:%s/%s}", variantName(it.Resplit), variantName(it.Resplit2))
	}
	return s
}

type world struct {
	t        testing.TB
	ctx      context.Context
	keys     []crypto.PrivKey // [1] = genesis proposer, [2],[3] = third parties
	gen      genesis.Genesis
	chain    []gblock
	finalApp []byte // state root after the last genuine block
	app0     []byte
	now      time.Time

	restGenuine map[string]bool   // the header fields outside the model as the proposer's headers carry them (block 1 is built by getInitialState, the others by execCreateBlock: two values)
	rawIdx      map[string]uint64 // addresses that are no key's address, by their bytes

	hdrName map[string]string
	defs    []string
	txIdx   map[string]uint64
	rootIdx map[string]uint64
	commit  map[string]string
	// two different transaction lists the harness built that the real DACommitment does not tell apart
	collisions []string
	sigs       map[string]string
	dsigs      map[string]string
}

var emptyDataHash = block.VerifDataHashForEmptyTxs()

func newWorld(t testing.TB, ctx context.Context, r *rand.Rand, txCounts []int) *world {
	w := &world{t: t, ctx: ctx, hdrName: map[string]string{}, txIdx: map[string]uint64{}, rootIdx: map[string]uint64{}, rawIdx: map[string]uint64{},
		commit: map[string]string{}, sigs: map[string]string{}, dsigs: map[string]string{}}
	w.keys = []crypto.PrivKey{nil, detKey(r), detKey(r), detKey(r)}
	w.gen = genesis.NewGenesis(chainID, 1, time.Now().Add(-time.Hour), types.KeyAddress(w.keys[1].GetPublic()))
	w.defs = append(w.defs, "Definition HDummy : header := Header 0 0 9 None [] 0 AddrEmpty.")
	var agg *nodeParts
	w.chain, agg = produceChainNode(t, ctx, r, w.keys[1], w.gen, t.TempDir(), txCounts)
	w.finalApp = agg.m.GetLastState().AppHash
	w.app0 = w.chain[0].hdr.AppHash
	stopNode(agg)
	// register the genuine material: the aggregator's signatures are signatures of key 1 — checked, not assumed
	w.restGenuine = map[string]bool{}
	for _, g := range w.chain {
		w.regCommit(g.data.Txs)
		w.restGenuine[restOf(&g.hdr.Header)] = true
	}
	for _, g := range w.chain {
		name := w.regHeader(&g.hdr.Header)
		pl, _ := g.hdr.Header.MarshalBinary()
		if ok, _ := w.keys[1].GetPublic().Verify(pl, g.hdr.Signature); !ok {
			t.Fatalf("genuine header %d is not signed by the proposer key", g.hdr.Height())
		}
		w.sigs[string(g.hdr.Signature)] = fmt.Sprintf("(Sig 1 %s)", name)
		w.regCommit(g.data.Txs)
		if g.datBlob != nil {
			var sd types.SignedData
			if err := sd.UnmarshalBinary(g.datBlob); err != nil {
				t.Fatal(err)
			}
			db, _ := sd.Data.MarshalBinary()
			if ok, _ := w.keys[1].GetPublic().Verify(db, sd.Signature); !ok {
				t.Fatalf("genuine data %d is not signed by the proposer key", g.hdr.Height())
			}
			w.dsigs[string(sd.Signature)] = fmt.Sprintf("(DSig 1 %s)", w.dataTerm(&sd.Data))
		}
	}
	w.now = time.Now()
	return w
}

// ---- projection of real values onto symbolic terms ------------------------------------------

func (w *world) keyOfAddr(a []byte) int {
	for k := 1; k < len(w.keys); k++ {
		if bytes.Equal(a, types.KeyAddress(w.keys[k].GetPublic())) {
			return k
		}
	}
	return 0
}
func (w *world) addr(a []byte) string {
	if len(a) == 0 {
		return "AddrEmpty"
	}
	if k := w.keyOfAddr(a); k > 0 {
		return fmt.Sprintf("(Addr %d)", k)
	}
	// any other bytes (a truncated or extended key address included): equal bytes, equal index
	v, ok := w.rawIdx[string(a)]
	if !ok {
		v = uint64(1 + len(w.rawIdx))
		w.rawIdx[string(a)] = v
	}
	return fmt.Sprintf("(AddrRaw %d)", v)
}

// restOf: the header fields Model/Types.header does not have (all of them inside the signed bytes and the hash).
func restOf(h *types.Header) string {
	return fmt.Sprintf("%d|%d|%x|%x|%x|%x", h.Version.Block, h.Version.App, []byte(h.LastCommitHash), []byte(h.ConsensusHash), []byte(h.LastResultsHash), []byte(h.ValidatorHash))
}

// appOf: the name of the model's h_app.  The index names the pair (AppHash, fields outside the model): for a header
// that carries the proposer's values there (every header the proposer builds) it is the AppHash alone; an altered copy
// differs from its original in h_app, as its bytes and its hash do.
func (w *world) appOf(h *types.Header) uint64 {
	if r := restOf(h); !w.restGenuine[r] {
		return w.root(append(append(append([]byte{}, h.AppHash...), []byte("|outside-the-model|")...), []byte(r)...))
	}
	return w.root(h.AppHash)
}
func (w *world) keyOfPub(p crypto.PubKey) int {
	for k := 1; k < len(w.keys); k++ {
		if w.keys[k].GetPublic().Equals(p) {
			return k
		}
	}
	return 99
}
func chainN(s string) uint64 {
	switch s {
	case chainID:
		return 7
	case otherChainID:
		return 8
	}
	return 9
}
func (w *world) root(b []byte) uint64 {
	if v, ok := w.rootIdx[string(b)]; ok {
		return v
	}
	v := uint64(50 + len(w.rootIdx))
	w.rootIdx[string(b)] = v
	return v
}
func (w *world) tx(b []byte) uint64 {
	if v, ok := w.txIdx[string(b)]; ok {
		return v
	}
	v := uint64(1 + len(w.txIdx))
	w.txIdx[string(b)] = v
	return v
}
func (w *world) txs(txs types.Txs) string {
	var p []string
	for _, t := range txs {
		p = append(p, fmt.Sprint(w.tx(t)))
	}
	return "[" + strings.Join(p, ";") + "]"
}

// regCommit labels the real commitment of a transaction list with the list.  The first list registered under a hash
// keeps the label (the proposer's lists are registered first, newWorld): a later, different list with the same
// real commitment is a collision — recorded, never silently relabelled.
func (w *world) regCommit(txs types.Txs) {
	d := types.Data{Txs: txs}
	key, term := string(d.DACommitment()), w.txs(txs)
	if old, ok := w.commit[key]; ok {
		if old != term {
			w.collisions = append(w.collisions, old+" vs "+term)
		}
		return
	}
	w.commit[key] = term
}
func (w *world) commitment(h []byte) string {
	if bytes.Equal(h, emptyDataHash) {
		return "[]"
	}
	if c, ok := w.commit[string(h)]; ok {
		return c
	}
	return "[999999]"
}

// regHeader names a header (by hash) and emits its definition; the LastHeaderHash is resolved to the named
// header it is the hash of (hash = the term), to None when empty, to a dummy when it is the hash of nothing known.
func (w *world) regHeader(h *types.Header) string {
	key := string(h.Hash())
	if n, ok := w.hdrName[key]; ok {
		return n
	}
	last := "None"
	if len(h.LastHeaderHash) > 0 {
		if n, ok := w.hdrName[string(h.LastHeaderHash)]; ok {
			last = "(Some " + n + ")"
		} else {
			last = "(Some HDummy)"
		}
	}
	name := fmt.Sprintf("H%d", len(w.hdrName))
	w.hdrName[key] = name
	w.defs = append(w.defs, fmt.Sprintf("Definition %s : header := Header %d %d %d %s %s %d %s.", name,
		h.Height(), int64(h.BaseHeader.Time), chainN(h.ChainID()), last, w.commitment(h.DataHash), w.appOf(h), w.addr(h.ProposerAddress)))
	return name
}
func (w *world) sigTerm(s []byte) string {
	if len(s) == 0 {
		return "SigEmpty"
	}
	if t, ok := w.sigs[string(s)]; ok {
		return t
	}
	return "(SigJunk 1)"
}
func (w *world) dsigTerm(s []byte) string {
	if len(s) == 0 {
		return "DSigEmpty"
	}
	if t, ok := w.dsigs[string(s)]; ok {
		return t
	}
	return "DSigJunk"
}
func (w *world) signerTerm(s types.Signer) string {
	pub := "None"
	if s.PubKey != nil {
		pub = fmt.Sprintf("(Some (Pub %d))", w.keyOfPub(s.PubKey))
	}
	return fmt.Sprintf("{| sg_pub := %s; sg_addr := %s |}", pub, w.addr(s.Address))
}
func (w *world) sheaderTerm(sh *types.SignedHeader) string {
	return fmt.Sprintf("{| sh_hdr := %s; sh_sig := %s; sh_signer := %s |}", w.regHeader(&sh.Header), w.sigTerm(sh.Signature), w.signerTerm(sh.Signer))
}
func (w *world) dataTerm(d *types.Data) string {
	meta := "None"
	if d.Metadata != nil {
		meta = fmt.Sprintf("(Some {| m_chain := %d; m_height := %d; m_time := %d |})", chainN(d.Metadata.ChainID), d.Metadata.Height, int64(d.Metadata.Time))
	}
	return fmt.Sprintf("{| d_meta := %s; d_txs := %s |}", meta, w.txs(d.Txs))
}
func (w *world) sdataTerm(sd *types.SignedData) string {
	return fmt.Sprintf("{| sd_data := %s; sd_sig := %s; sd_signer := %s |}", w.dataTerm(&sd.Data), w.dsigTerm(sd.Signature), w.signerTerm(sd.Signer))
}

// ---- construction of real items ---------------------------------------------------------------

type built struct {
	it    Item
	bytes []byte              // the wire bytes (DA blob / gossip message)
	sh    *types.SignedHeader // decoded from bytes (nil if not a header item or undecodable)
	sd    *types.SignedData
	d     *types.Data // p2p data (decoded)
	class string      // blob class for the model: hdr | data | junk | empty | undecodable
}

func (w *world) addrBytes(sel int, keep []byte, it Item) []byte {
	cut := []int{1, 2, 20, 31}[int(it.Salt%4+4)%4]
	switch {
	case sel == -1:
		return keep
	case sel == 0:
		return nil
	case sel == -2:
		return bytes.Repeat([]byte{0xab}, 32)
	case sel == -3:
		return append([]byte{}, w.gen.ProposerAddress[:cut]...)
	case sel == -4:
		k := it.SignerKey
		if k < 1 {
			k = 1
		}
		return append([]byte{}, types.KeyAddress(w.keys[k].GetPublic())[:cut]...)
	case sel == -5:
		return append(append([]byte{}, w.gen.ProposerAddress...), byte(it.Salt))
	}
	return types.KeyAddress(w.keys[sel].GetPublic())
}

func (w *world) newTxs(h uint64, salt int64) types.Txs {
	r := rand.New(rand.NewSource(salt*7919 + int64(h)))
	n := 1 + r.Intn(2)
	var out types.Txs
	for i := 0; i < n; i++ {
		b := make([]byte, 5+r.Intn(4))
		r.Read(b)
		out = append(out, b)
	}
	w.regCommit(out)
	return out
}

// baseHeader: the genuine signed header at h, or (h = L+1) the header a proposer would produce next (empty block)
func (w *world) baseHeader(h uint64) *types.SignedHeader {
	L := uint64(len(w.chain))
	if h >= 1 && h <= L {
		c := *w.chain[h-1].hdr
		c.Header.LastHeaderHash = append([]byte(nil), c.Header.LastHeaderHash...)
		return &c
	}
	last := w.chain[L-1].hdr
	c := *last
	c.Header.BaseHeader.Height = L + 1
	c.Header.BaseHeader.Time = last.BaseHeader.Time + uint64(time.Second)
	c.Header.LastHeaderHash = last.Hash()
	c.Header.DataHash = emptyDataHash
	c.Header.AppHash = w.finalApp
	return &c
}
func (w *world) baseData(h uint64) *types.Data {
	L := uint64(len(w.chain))
	if h >= 1 && h <= L {
		d := *w.chain[h-1].data
		if d.Metadata != nil {
			m := *d.Metadata
			d.Metadata = &m
		}
		return &d
	}
	bh := w.baseHeader(h)
	return &types.Data{Metadata: &types.Metadata{ChainID: bh.ChainID(), Height: bh.Height(), Time: bh.BaseHeader.Time, LastDataHash: w.chain[L-1].data.Hash()}}
}

func (w *world) build(it Item, dataHead *types.Data) *built {
	b := &built{it: it}
	r := rand.New(rand.NewSource(it.Salt*31 + int64(it.H) + 17))
	switch it.Kind {
	case "empty":
		b.class = "empty"
		return b
	case "junk":
		b.bytes = make([]byte, 20+r.Intn(60))
		r.Read(b.bytes)
		b.bytes[0] = 0xff // invalid field tag: neither message unmarshals
		b.class = "junk"
		return b
	case "trunc":
		src := w.chain[(it.H-1)%uint64(len(w.chain))].hdrBlob
		b.bytes = append([]byte(nil), src[:len(src)-1-r.Intn(len(src)/2)]...)
		b.class = "junk"
		return b
	case "undecodable":
		sh := w.baseHeader(it.H)
		p, _ := sh.ToProto()
		p.Signer.PubKey = []byte{1, 2, 3, 4, 5}
		b.bytes, _ = proto.Marshal(p)
		b.class = "undecodable"
		return b
	case "hdr":
		sh := w.baseHeader(it.H)
		if !it.Adv {
			bz, _ := sh.MarshalBinary()
			b.bytes = bz
		} else {
			switch it.Mut {
			case "app":
				sh.Header.AppHash = append([]byte("forged-app-"), byte(it.Salt))
			case "time":
				sh.Header.BaseHeader.Time += uint64(1 + it.Salt%5)
			case "future":
				sh.Header.BaseHeader.Time = uint64(w.now.Add(time.Hour).UnixNano())
			case "chain":
				sh.Header.BaseHeader.ChainID = otherChainID
			case "datahash":
				d := types.Data{Txs: w.newTxs(it.H, it.Salt)}
				sh.Header.DataHash = d.DACommitment()
			case "last":
				sh.Header.LastHeaderHash = bytes.Repeat([]byte{0xcd}, 32)
			case "height+":
				sh.Header.BaseHeader.Height += 3
			case "height-":
				if sh.Header.BaseHeader.Height > 1 {
					sh.Header.BaseHeader.Height--
				}
			case "valhash":
				sh.Header.ValidatorHash = bytes.Repeat([]byte{byte(1 + it.Salt%200)}, 32)
			case "valhash1":
				sh.Header.ValidatorHash = []byte{byte(1 + it.Salt%200)}
			case "lastcommit":
				sh.Header.LastCommitHash = bytes.Repeat([]byte{byte(1 + it.Salt%200)}, 32)
			case "consensus":
				sh.Header.ConsensusHash = bytes.Repeat([]byte{byte(1 + it.Salt%200)}, 32)
			case "results":
				sh.Header.LastResultsHash = bytes.Repeat([]byte{byte(1 + it.Salt%200)}, 32)
			case "version":
				sh.Header.Version.App += 1 + uint64(it.Salt%3)
			}
			if isOutsideMut(it.Mut) && w.restGenuine[restOf(&sh.Header)] {
				w.t.Fatalf("%s: the altered copy carries values the proposer's headers carry", it)
			}
			sh.Header.ProposerAddress = w.addrBytes(it.PropAddr, sh.Header.ProposerAddress, it)
			switch {
			case it.SignerKey == 0:
				sh.Signer = types.Signer{}
			case it.SignerKey == -2: // no public key, an address all the same (serialization.go FromProto keeps it)
				sh.Signer = types.Signer{Address: w.addrBytes(it.SignerAddr, sh.Signer.Address, it)}
			case it.SignerKey > 0:
				sh.Signer = types.Signer{PubKey: w.keys[it.SignerKey].GetPublic(), Address: sh.Signer.Address}
			}
			if sh.Signer.PubKey != nil {
				sh.Signer.Address = w.addrBytes(it.SignerAddr, sh.Signer.Address, it)
			}
			name := w.regHeader(&sh.Header)
			switch {
			case it.Sign > 0:
				pl, _ := sh.Header.MarshalBinary()
				sig, err := w.keys[it.Sign].Sign(pl)
				if err != nil {
					w.t.Fatal(err)
				}
				sh.Signature = sig
				w.sigs[string(sig)] = fmt.Sprintf("(Sig %d %s)", it.Sign, name)
			case it.Sign == -1:
				sh.Signature = make([]byte, 64)
				r.Read(sh.Signature)
			case it.Sign == -2:
				sh.Signature = nil
			}
			bz, err := sh.MarshalBinary()
			if err != nil {
				w.t.Fatal(err)
			}
			b.bytes = bz
		}
		dec := new(types.SignedHeader)
		if err := dec.UnmarshalBinary(b.bytes); err != nil {
			w.t.Fatalf("built header does not decode: %v", err)
		}
		b.sh = dec
		b.class = "hdr"
		return b
	case "data":
		d := w.baseData(it.H)
		if it.Adv {
			if it.NewTxs {
				d.Txs = w.newTxs(it.H, it.Salt)
			}
			if it.Resplit > 0 {
				d.Txs = variantTxs(d.Txs, it.Resplit, it.Salt)
			}
			if it.NoMeta {
				d.Metadata = nil
			}
			if it.Linked && dataHead != nil && d.Metadata != nil {
				d.Metadata.LastDataHash = dataHead.Hash()
			}
			if it.Mut == "chain" && d.Metadata != nil {
				d.Metadata.ChainID = otherChainID
			}
			if it.Mut == "height+" && d.Metadata != nil {
				d.Metadata.Height += 3
			}
		}
		w.regCommit(d.Txs)
		if it.Via == "p2p" || it.Via == "init" {
			bz, err := d.MarshalBinary()
			if err != nil {
				w.t.Fatal(err)
			}
			b.bytes = bz
			dec := new(types.Data)
			if err := dec.UnmarshalBinary(bz); err != nil {
				w.t.Fatal(err)
			}
			b.d = dec
			b.class = "pdata"
			return b
		}
		// DA: SignedData
		if !it.Adv {
			b.bytes = w.chain[it.H-1].datBlob
			if b.bytes == nil { // empty genuine block: the aggregator posts nothing
				b.class = "empty"
				return b
			}
		} else {
			sd := &types.SignedData{Data: *d}
			// start from the genuine signature/signer when there is one
			if it.H >= 1 && it.H <= uint64(len(w.chain)) && w.chain[it.H-1].datBlob != nil {
				var g types.SignedData
				_ = g.UnmarshalBinary(w.chain[it.H-1].datBlob)
				sd.Signature, sd.Signer = g.Signature, g.Signer
			} else {
				sd.Signer = types.Signer{PubKey: w.keys[1].GetPublic(), Address: w.gen.ProposerAddress}
				sd.Signature = bytes.Repeat([]byte{0x11}, 64)
			}
			switch {
			case it.SignerKey == 0:
				sd.Signer = types.Signer{}
			case it.SignerKey == -2:
				sd.Signer = types.Signer{Address: w.addrBytes(it.SignerAddr, sd.Signer.Address, it)}
			case it.SignerKey > 0:
				sd.Signer = types.Signer{PubKey: w.keys[it.SignerKey].GetPublic(), Address: sd.Signer.Address}
			}
			if sd.Signer.PubKey != nil {
				sd.Signer.Address = w.addrBytes(it.SignerAddr, sd.Signer.Address, it)
			}
			switch {
			case it.Sign > 0:
				// sign exactly what the verifier will hash: the wire round trip of Data
				db, _ := sd.Data.MarshalBinary()
				sig, err := w.keys[it.Sign].Sign(db)
				if err != nil {
					w.t.Fatal(err)
				}
				sd.Signature = sig
				var rt types.Data
				_ = rt.UnmarshalBinary(db)
				w.dsigs[string(sig)] = fmt.Sprintf("(DSig %d %s)", it.Sign, w.dataTerm(&rt))
			case it.Sign == -1:
				sd.Signature = make([]byte, 64)
				r.Read(sd.Signature)
			case it.Sign == -2:
				sd.Signature = nil
			}
			bz, err := sd.MarshalBinary()
			if err != nil {
				w.t.Fatal(err)
			}
			b.bytes = bz
		}
		dec := new(types.SignedData)
		if err := dec.UnmarshalBinary(b.bytes); err != nil {
			w.t.Fatalf("built data does not decode: %v", err)
		}
		b.sd = dec
		b.class = "data"
		return b
	}
	w.t.Fatalf("unknown item kind %q", it.Kind)
	return nil
}

// ---- near misses of a transaction list ----------------------------------------------------------------

const (
	kindRecut    = 1  // the same byte stream cut at other (random) boundaries, empty pieces allowed
	kindShift    = 2  // one boundary moved by one byte (a single transaction: split in two)
	kindEmpty    = 3  // an empty transaction added in front / in the middle / behind
	kindMerge    = 4  // everything in one transaction
	kindSwap     = 5  // the order of the transactions changed (a single one: its first two bytes)
	kindRotate   = 6  // the byte stream rotated by one byte under the same lengths (prefix moved to the end)
	kindDrop     = 7  // the last transaction (a single one: its last byte) dropped
	kindDup      = 8  // the first transaction twice
	kindFlip     = 9  // one bit flipped
	kindCopy     = 10 // an exact copy in fresh slices: the one variant that IS the list
	kindFrame    = 11 // one transaction holding protobuf framing (tag, length) between the proposer's bytes
	nVariantKind = 11
)

func variantName(k int) string {
	return [...]string{"base", "recut", "shift", "empty", "merge", "swap", "rotate", "drop", "dup", "flip", "copy", "frame"}[k%(nVariantKind+1)]
}

func cloneTxs(t types.Txs) types.Txs {
	out := make(types.Txs, len(t))
	for i := range t {
		out[i] = append(types.Tx{}, t[i]...)
	}
	return out
}

func sameTxs(a, b types.Txs) bool {
	if len(a) != len(b) {
		return false
	}
	for i := range a {
		if !bytes.Equal(a[i], b[i]) {
			return false
		}
	}
	return true
}

func cutAt(stream []byte, cuts []int) types.Txs {
	var out types.Txs
	prev := 0
	for _, c := range cuts {
		out = append(out, append(types.Tx{}, stream[prev:c]...))
		prev = c
	}
	return append(out, append(types.Tx{}, stream[prev:]...))
}

// variantTxs derives a near miss of base (kind = one of the constants above; only kindCopy returns the same list).
func variantTxs(base types.Txs, kind int, salt int64) types.Txs {
	r := rand.New(rand.NewSource(salt*104729 + int64(kind)*31 + int64(len(base))))
	kind = (kind-1)%nVariantKind + 1
	if kind == kindCopy {
		return cloneTxs(base)
	}
	var stream []byte
	for _, t := range base {
		stream = append(stream, t...)
	}
	out := cloneTxs(base)
	if len(stream) == 0 { // an empty block (or only empty transactions): the lists whose concatenation is empty too
		switch kind % 3 {
		case 0:
			out = types.Txs{types.Tx{}}
		case 1:
			out = types.Txs{types.Tx{}, types.Tx{}}
		default:
			out = types.Txs{types.Tx{0x12, 0x00}}
		}
		if sameTxs(out, base) {
			out = append(out, types.Tx{})
		}
		return out
	}
	switch kind {
	case kindRecut:
		k := r.Intn(len(base) + 2) // number of cuts
		cuts := make([]int, k)
		for i := range cuts {
			cuts[i] = r.Intn(len(stream) + 1)
		}
		sort.Ints(cuts)
		out = cutAt(stream, cuts)
	case kindShift:
		if len(base) == 1 {
			c := 1
			if r.Intn(2) == 0 {
				c = len(stream) - 1
			}
			out = cutAt(stream, []int{c})
		} else {
			i := r.Intn(len(base) - 1) // the boundary between i and i+1
			var cuts []int
			pos := 0
			for j, t := range base[:len(base)-1] {
				pos += len(t)
				c := pos
				if j == i {
					if c < len(stream) && (r.Intn(2) == 0 || c == 0) {
						c++
					} else if c > 0 {
						c--
					}
				}
				cuts = append(cuts, c)
			}
			sort.Ints(cuts)
			out = cutAt(stream, cuts)
		}
	case kindEmpty:
		i := r.Intn(len(base) + 1)
		out = append(append(cloneTxs(base[:i]), types.Tx{}), cloneTxs(base[i:])...)
	case kindMerge:
		out = types.Txs{append(types.Tx{}, stream...)}
	case kindSwap:
		if len(base) > 1 {
			out[0], out[len(out)-1] = out[len(out)-1], out[0]
		} else if len(out[0]) > 1 {
			out[0][0], out[0][1] = out[0][1], out[0][0]
		}
	case kindRotate:
		rot := append(append([]byte{}, stream[1:]...), stream[0])
		var cuts []int
		pos := 0
		for _, t := range base[:len(base)-1] {
			pos += len(t)
			cuts = append(cuts, pos)
		}
		out = cutAt(rot, cuts)
	case kindDrop:
		if len(base) > 1 {
			out = out[:len(out)-1]
		} else {
			out[0] = out[0][:len(out[0])-1]
		}
	case kindDup:
		out = append(types.Txs{append(types.Tx{}, base[0]...)}, out...)
	case kindFlip:
		i := r.Intn(len(out))
		for len(out[i]) == 0 {
			i = (i + 1) % len(out)
		}
		out[i][r.Intn(len(out[i]))] ^= 1 << uint(r.Intn(8))
	case kindFrame:
		// the proposer's transactions in ONE transaction, with the tag and length bytes the encoding would put between them
		var one types.Tx
		for j, t := range base {
			if j > 0 || len(base) == 1 {
				one = append(one, 0x12, byte(len(t)))
			}
			one = append(one, t...)
		}
		out = types.Txs{one}
	}
	if sameTxs(out, base) { // the variant happened to be the list itself (e.g. a re-cut at the old boundaries)
		out = append(cloneTxs(base), types.Tx{})
	}
	return out
}

// blobTerm: the model's description of a DA blob
func (w *world) blobTerm(b *built) string {
	switch b.class {
	case "empty":
		return "BEmpty"
	case "junk":
		return "BJunk"
	case "undecodable":
		return "BHdrUndecodable"
	case "hdr":
		return "(BHdr " + w.sheaderTerm(b.sh) + ")"
	case "data":
		return "(BData " + w.sdataTerm(b.sd) + ")"
	}
	w.t.Fatalf("no blob term for class %q", b.class)
	return ""
}

// headerSignedByProposer: the oracle's notion, evaluated with the real key: the signature over the header's
// own bytes verifies under the GENESIS PROPOSER's public key (not under whatever key the item carries).
func (w *world) headerSignedByProposer(sh *types.SignedHeader) bool {
	pl, err := sh.Header.MarshalBinary()
	if err != nil {
		return false
	}
	ok, err := w.keys[1].GetPublic().Verify(pl, sh.Signature)
	return err == nil && ok
}
func (w *world) dataSignedByProposer(sd *types.SignedData) bool {
	db, err := sd.Data.MarshalBinary()
	if err != nil {
		return false
	}
	ok, err := w.keys[1].GetPublic().Verify(db, sd.Signature)
	return err == nil && ok
}

// looksLikePBHeader is a sanity probe used in the evidence only.
func looksLikePBHeader(bz []byte) bool {
	var p pb.SignedHeader
	return proto.Unmarshal(bz, &p) == nil
}

func hexs(b []byte) string { return strings.ToUpper(hex.EncodeToString(b)) }

var _ = vgen.N
