// C10 correspondence harness: random histories of submit / next / restart / crash-inside-an-operation
// against the real sequencers/single Sequencer + BatchQueue on badger in-memory (key-ordered iteration,
// as in production) under the recording datastore.  Writes cases_C10.v (for Model/Queue.v) and
// result.json (Go oracle: the property — durable FIFO, exactly once, rejected = no trace, bound —
// evaluated directly on what the real code returned).  A share of the cases drives concurrent
// submitters (not sent to Coq; oracle only).  A share of the sequential and of the concurrent cases submits
// LARGE batches (payload at and around size boundaries: 1.5 MB and its multiples, 1 MiB, 2 MB, 2 MiB; 2..5
// transactions) into queues whose free slots are few: the model says admission does not depend on any size, so
// a size-aware implementation (splitting, truncating, refusing) shows as a difference.  Those cases run on the
// on-disk badger store (the production configuration; the in-memory one refuses values above 1 MiB).
// Hand-out requests may state a byte budget (GetNextBatchRequest.MaxBytes): the model and the property say the oldest batch
// is handed out whole whatever the budget; the oracle follows the queue at transaction level.
// A share of the cases are LONG RUNS: the number of batches accepted since the store was last empty passes a power of
// 10 / 16 with batches from both sides of it pending, then the process is restarted.
// The queue bound (maxQueueSize) is a parameter of every PROCESS START: a restart / crash recovery may start the new
// Sequencer with another bound than the one the records were written under (unchanged, unlimited, larger, equal to,
// smaller than the number of batches pending at that moment, 1).
// THE DATASTORE OF A RUN (Replay.Store): badger (it copies what it is given), or - half of the small sequential cases -
// the in-memory map datastore (dssync.MutexWrap(ds.NewMapDatastore()): what every in-memory node and every test of the
// repository runs on), which KEEPS THE SLICE handed to Put: a record must still hold the batch it was written for when
// the next process reads it, whatever its writer did with the buffer afterwards.  At every process start the records of
// the LIVE store are read back (decoded contents, key order): the oracle requires them to be exactly the pending batches
// in acceptance order, and they go to Coq (qc_starts; Model/QueueStarts.v) next to results, final image and write log.
package c10

import (
	"bytes"
	"context"
	"encoding/hex"
	"errors"
	"fmt"
	"math/rand"
	"os"
	"path/filepath"
	"sort"
	"strconv"
	"strings"
	"sync"
	"testing"
	"time"

	ds "github.com/ipfs/go-datastore"
	dssync "github.com/ipfs/go-datastore/sync"
	logging "github.com/ipfs/go-log/v2"
	"google.golang.org/protobuf/proto"

	coresequencer "github.com/evstack/ev-node/core/sequencer"
	"github.com/evstack/ev-node/pkg/store"
	single "github.com/evstack/ev-node/sequencers/single"
	pb "github.com/evstack/ev-node/types/pb/evnode/v1"

	"verif/harness/doubles/crashds"
	"verif/harness/vgen"
)

var chainID = []byte("c10-chain")
var foreignID = []byte("c10-other")

// ---- histories -----------------------------------------------------------------------------

// Item: T = submit | next | restart | crash.
// B: pool index (1-based) of the submitted batch; 0 = nil batch pointer; -1 = batch without transactions.
// Bad: the request carries a foreign chain id.  For T = crash: Op = submit | next is the operation the
// process dies in, N = number of its datastore writes that became durable before death.
// For T = restart | crash: Max = maxQueueSize of the process that is started (absent = the same bound as before).
// For T = next (and crash with Op = next): MB = GetNextBatchRequest.MaxBytes, the byte budget the consumer states
// (0 = none; the block manager passes 0 today, another consumer - or tomorrow's block manager - need not).
type Item struct {
	T   string `json:"t"`
	B   int    `json:"b,omitempty"`
	Bad bool   `json:"bad,omitempty"`
	Op  string `json:"op,omitempty"`
	N   int    `json:"n,omitempty"`
	Max *int   `json:"max,omitempty"`
	MB  uint64 `json:"mb,omitempty"`
}

func ip(v int) *int { return &v }

// the bound in force after the item
func boundAfter(cur int, it Item) int {
	if (it.T == "restart" || it.T == "crash") && it.Max != nil {
		return *it.Max
	}
	return cur
}

type Replay struct {
	Kind    string     `json:"kind"`             // seq | legacy | conc
	Store   string     `json:"store,omitempty"`  // "" = badger (in memory; on disk when the pool holds a large batch) | "map" = the in-memory map datastore, which keeps the slices it is given
	Legacy  []int      `json:"legacy,omitempty"` // kind legacy: pool ids whose records pre-exist under the old bare-hash keys
	Seed    int64      `json:"seed"`
	Case    int        `json:"case"`
	Max     int        `json:"max"`  // maxQueueSize of the first process (0 = unlimited; 1000 = NewSequencer's default constructor)
	Pool    [][]string `json:"pool"` // batches as lists of transactions; pool[i] is id i+1; a transaction is hex, or "#<size>:<byte>" = size bytes of that value
	History []Item     `json:"history"`
	Note    string     `json:"note,omitempty"`
}

func caseRng(seed int64, c int) *rand.Rand { return rand.New(rand.NewSource(seed*1000003 + int64(c))) }

func genPool(r *rand.Rand) [][][]byte {
	n := 2 + r.Intn(4)
	var pool [][][]byte
	seen := map[string]bool{}
	for len(pool) < n {
		var b [][]byte
		switch r.Intn(8) {
		case 0:
			b = [][]byte{{}} // one empty transaction
		case 1:
			b = [][]byte{[]byte("ab")}
		case 2:
			b = [][]byte{[]byte("a"), []byte("b")}
		case 3:
			b = [][]byte{[]byte("b"), []byte("a")}
		default:
			nt := 1 + r.Intn(3)
			for i := 0; i < nt; i++ {
				tx := make([]byte, r.Intn(6))
				r.Read(tx)
				b = append(b, tx)
			}
		}
		k := fmt.Sprintf("%x", b)
		if seen[k] {
			continue
		}
		seen[k] = true
		pool = append(pool, b)
	}
	return pool
}

// ---- size-boundary submissions ----------------------------------------------------------------------
// Limits an implementation could plausibly apply to a batch: the DA blob size of the based sequencer
// (1_500_000), 1 MiB (badger's value threshold), 2 MB, 2 MiB, 1 MB.
var sizeLimits = []int{1_500_000, 1_500_000, 1_500_000, 1_500_000, 1 << 20, 2_000_000, 2 << 20, 1_000_000}

const bigPayload = 500_000 // a pool with a batch of at least this payload runs on the on-disk store

func txDesc(size, fill int) string { return fmt.Sprintf("#%d:%d", size, fill) }

// one large batch: total payload = k * limit + delta (delta: -1, 0, +1, a little under / over, well inside the
// next multiple), cut into 2..5 transactions in one of several ways
func genBigBatch(r *rand.Rand, tag int) []string {
	L := sizeLimits[r.Intn(len(sizeLimits))]
	if r.Intn(8) == 0 {
		L = 300_000 + r.Intn(2_200_000)
	}
	k := 1 + r.Intn(3)
	for k > 1 && k*L > 5_000_000 {
		k--
	}
	var delta int
	switch r.Intn(7) {
	case 0:
		delta = -1
	case 1:
		delta = 0
	case 2:
		delta = 1
	case 3:
		delta = -(1 + r.Intn(4096))
	case 4:
		delta = 1 + r.Intn(4096)
	default:
		delta = L/4 + r.Intn(L/2)
	}
	total := k*L + delta
	nt := 2 + r.Intn(4)
	sizes := make([]int, nt)
	switch r.Intn(5) {
	case 0: // equal parts
		for i := range sizes {
			sizes[i] = total / nt
		}
		sizes[nt-1] += total % nt
	case 1: // random cuts
		cuts := []int{0, total}
		for i := 0; i < nt-1; i++ {
			cuts = append(cuts, 1+r.Intn(total-1))
		}
		sort.Ints(cuts)
		for i := range sizes {
			sizes[i] = cuts[i+1] - cuts[i]
		}
	case 2: // one huge transaction first, small ones behind
		rest := 0
		for i := 1; i < nt; i++ {
			sizes[i] = 1 + r.Intn(64)
			rest += sizes[i]
		}
		sizes[0] = total - rest
	case 3: // small ones first, one huge transaction last
		rest := 0
		for i := 0; i < nt-1; i++ {
			sizes[i] = 1 + r.Intn(64)
			rest += sizes[i]
		}
		sizes[nt-1] = total - rest
	default: // every transaction just over half the limit: any two together exceed it
		left := total
		for i := range sizes {
			sizes[i] = L/2 + 1
			if i == nt-1 || sizes[i] > left {
				sizes[i] = left
			}
			left -= sizes[i]
		}
	}
	var b []string
	for i, sz := range sizes {
		if sz <= 0 {
			continue
		}
		b = append(b, txDesc(sz, tag*16+i))
	}
	return b
}

// pool of a size-boundary case: 1-2 small batches (to fill the queue up to the wanted number of free slots)
// followed by 1-2 large ones
func genBigPool(r *rand.Rand) (desc [][]string, nsmall int) {
	nsmall = 1 + r.Intn(2)
	for i := 0; i < nsmall; i++ {
		desc = append(desc, []string{hex.EncodeToString([]byte(fmt.Sprintf("s%d", i)))})
	}
	nbig := 1 + r.Intn(2)
	for i := 0; i < nbig; i++ {
		desc = append(desc, genBigBatch(r, 1+i))
	}
	return desc, nsmall
}

// history of a size-boundary case: (usually) fill the queue so that 1..3 slots are free, then a large
// submission - completed, or cut by a crash after 0..5 of its datastore writes -, an aftermath (restart /
// hand-out / crash inside a hand-out) and a short random tail over the whole pool
func genBigHistory(r *rand.Rand, npool, nsmall, max int) []Item {
	var h []Item
	defer func() {
		// one size-boundary case in three: every process start draws its own bound
		if r.Intn(3) != 0 {
			return
		}
		for i := range h {
			if h[i].T == "restart" || h[i].T == "crash" {
				if x := r.Intn(6); x > 0 {
					h[i].Max = ip(x - 1) // 0 (unlimited), 1..4
				}
			}
		}
	}()
	small := func() int { return 1 + r.Intn(nsmall) }
	big := func() int { return nsmall + 1 + r.Intn(npool-nsmall) }
	switch {
	case max > 0 && r.Intn(4) > 0:
		free := 1 + r.Intn(3)
		for i := 0; i < max-free; i++ {
			h = append(h, Item{T: "submit", B: small()})
		}
	default:
		for i := r.Intn(3); i > 0; i-- {
			h = append(h, Item{T: "submit", B: small()})
		}
	}
	bigOp := func() Item {
		if r.Intn(10) < 3 {
			return Item{T: "crash", Op: "submit", B: big(), N: r.Intn(6)}
		}
		return Item{T: "submit", B: big()}
	}
	h = append(h, bigOp())
	switch r.Intn(5) {
	case 0:
		h = append(h, Item{T: "restart"})
	case 1:
		h = append(h, Item{T: "next"}, Item{T: "restart"})
	case 2:
		h = append(h, Item{T: "crash", Op: "next", N: r.Intn(3)})
	case 3:
		h = append(h, bigOp())
	}
	for i := r.Intn(7); i > 0; i-- {
		x := r.Intn(100)
		switch {
		case x < 30:
			h = append(h, bigOp())
		case x < 45:
			h = append(h, Item{T: "submit", B: small(), Bad: r.Intn(12) == 0})
		case x < 75:
			h = append(h, Item{T: "next"})
		case x < 87:
			h = append(h, Item{T: "restart"})
		default:
			h = append(h, Item{T: "crash", Op: "next", N: r.Intn(3)})
		}
	}
	return h
}

// ---- long runs: the acceptance counter passes a width boundary ---------------------------------------------------
// A queue that has been running for a while: the number of batches accepted since the store was last empty passes a
// power of a common radix (10, 16, 100, 256; thorough also 1000, 4096) while some batches accepted below it and some
// accepted at / above it are still pending - and then the process is restarted (or dies).  Whatever an implementation
// derives from a per-batch counter (record keys, file names, sort order) changes its width there.
var longBoundsQuick = []int{10, 16, 16, 16, 16, 10, 16, 100, 16, 256}
var longBoundsThorough = []int{10, 16, 16, 100, 256, 256, 16, 1000, 4096, 100}
var longMaxes = []int{0, 0, 1000, 5, 8, 12, 3}

func genLongHistory(r *rand.Rand, npool, max int, thorough bool) []Item {
	B := longBoundsQuick[r.Intn(len(longBoundsQuick))]
	if thorough {
		B = longBoundsThorough[r.Intn(len(longBoundsThorough))]
	}
	ceil := max // working ceiling for the number of pending batches
	if ceil == 0 || ceil > 12 {
		ceil = 4 + r.Intn(9)
	}
	if ceil < 2 {
		ceil = 2
	}
	lim := func(x int) int {
		if x > 4 {
			return 4
		}
		if x < 1 {
			return 1
		}
		return x
	}
	w := 1 + r.Intn(lim(ceil-1)) // accepted just below the boundary and left pending
	d := 1 + r.Intn(lim(ceil-w)) // accepted at / above the boundary
	var h []Item
	est, acc := 0, 0
	rr := r.Intn(npool)
	roundRobin := r.Intn(2) == 0
	pick := func() int {
		if roundRobin {
			rr++
			return 1 + rr%npool
		}
		return 1 + r.Intn(npool)
	}
	midRestart := -1
	if r.Intn(4) == 0 && B-w > 2 {
		midRestart = 1 + r.Intn(B-w-1) // a restart on the way (with something pending, so that numbering goes on)
	}
	nextPct := 30 + r.Intn(30)
	for acc < B-w {
		switch {
		case acc == midRestart && est > 0:
			h = append(h, Item{T: "restart"})
			midRestart = -1
		case est > 0 && (est >= ceil || (r.Intn(100) < nextPct && !(acc == midRestart && est == 1))):
			h = append(h, Item{T: "next"})
			est--
		default:
			h = append(h, Item{T: "submit", B: pick()})
			est++
			acc++
		}
	}
	for est+w+d > ceil && est > 0 {
		h = append(h, Item{T: "next"})
		est--
	}
	for i := 0; i < w+d; i++ {
		h = append(h, Item{T: "submit", B: pick()})
		est++
	}
	// the process start
	bound := func() *int {
		if r.Intn(3) > 0 {
			return nil
		}
		return drawBound(r, max, est)
	}
	switch r.Intn(5) {
	case 0:
		h = append(h, Item{T: "crash", Op: "next", N: r.Intn(2), Max: bound()})
	case 1:
		h = append(h, Item{T: "crash", Op: "submit", B: pick(), N: r.Intn(2), Max: bound()})
	default:
		h = append(h, Item{T: "restart", Max: bound()})
	}
	// a short tail
	for i := r.Intn(8); i > 0; i-- {
		x := r.Intn(100)
		switch {
		case x < 50:
			h = append(h, Item{T: "next"})
		case x < 85:
			h = append(h, Item{T: "submit", B: pick()})
		default:
			h = append(h, Item{T: "restart"})
		}
	}
	return h
}

// ---- the consumer's byte budget ----------------------------------------------------------------------------------------
// GetNextBatchRequest.MaxBytes of the next calls of a history, drawn from a PRNG stream of its own (so that the items
// of a history are what they were without budgets).  Per case: no call states a budget (half of the cases), some do,
// most do.  A budget is drawn relative to the sizes in the pool: 1 byte, the first transaction of a batch, one byte
// less than / exactly / one byte more than a batch's payload, a usual blob limit, practically unlimited.
func drawBudgets(seed int64, c int, pool [][][]byte, h []Item) {
	r := rand.New(rand.NewSource(seed*1000003 + int64(c) + 0x5bd1e995))
	pct := []int{0, 0, 25, 70}[r.Intn(4)]
	for i := range h {
		if !(h[i].T == "next" || (h[i].T == "crash" && h[i].Op == "next")) || r.Intn(100) >= pct {
			continue
		}
		b := pool[r.Intn(len(pool))]
		pl := uint64(payloadOf(b))
		var mb uint64
		switch r.Intn(8) {
		case 0:
			mb = 1
		case 1:
			mb = uint64(len(b[0]))
		case 2:
			if pl > 1 {
				mb = pl - 1
			} else {
				mb = 1
			}
		case 3:
			mb = pl
		case 4:
			mb = pl + 1
		case 5:
			mb = uint64(sizeLimits[r.Intn(len(sizeLimits))])
		case 6:
			mb = 1 << 40
		default:
			if pl > 2 {
				mb = 1 + uint64(r.Int63n(int64(pl)))
			} else {
				mb = 2
			}
		}
		if mb == 0 {
			mb = 1
		}
		h[i].MB = mb
	}
}

// the datastore of a generated small case, from a PRNG stream of its own: true = the in-memory map datastore
func drawStore(seed int64, c int) bool {
	return rand.New(rand.NewSource(seed*1000003+int64(c)+0x3c6ef372)).Intn(2) == 0
}

func payloadOf(b [][]byte) int {
	n := 0
	for _, tx := range b {
		n += len(tx)
	}
	return n
}

func needsDisk(pool [][][]byte) bool {
	for _, b := range pool {
		if payloadOf(b) >= bigPayload {
			return true
		}
	}
	return false
}

// the bound of a process start, relative to the bound in force (cur) and to the number of batches pending according
// to the generator's own count (est; a heuristic for drawing only, never used for judging): unchanged, unlimited,
// larger than both, equal to the number pending, smaller than the number pending, 1, any of the usual bounds
func drawBound(r *rand.Rand, cur, est int) *int {
	switch r.Intn(10) {
	case 0, 1, 2:
		return nil
	case 3:
		return ip(0)
	case 4:
		m := cur
		if est > m {
			m = est
		}
		return ip(m + 1 + r.Intn(3))
	case 5:
		if est >= 1 {
			return ip(est)
		}
		return ip(1)
	case 6, 7:
		if est >= 2 {
			return ip(1 + r.Intn(est-1))
		}
		return ip(1)
	case 8:
		return ip(1)
	}
	return ip(startMaxes[r.Intn(len(startMaxes))])
}

var startMaxes = []int{0, 1, 2, 3, 3, 5, 8, 1000}

func genHistory(r *rand.Rand, npool, maxLen, max int) []Item {
	n := 1 + r.Intn(maxLen)
	// per-case tendencies so that some cases have many duplicates / restarts and others none
	dupBias := r.Intn(3)     // 0: whole pool, 1: mostly one batch, 2: round-robin fresh-ish
	restartPct := r.Intn(25) // 0..24 %
	// 0: the bound never changes; 1, 2: every process start draws its bound; 3: as 1, after an opening burst of
	// submissions followed by a restart with a bound smaller than the number of batches pending
	boundMode := r.Intn(4)
	if boundMode > 0 && restartPct < 6 {
		restartPct += 6
	}
	var h []Item
	rr := 0
	pick := func() int {
		switch dupBias {
		case 1:
			if r.Intn(3) > 0 {
				return 1
			}
		case 2:
			rr++
			return 1 + (rr-1)%npool
		}
		return 1 + r.Intn(npool)
	}
	cur, est := max, 0 // the bound in force, and the generator's count of pending batches
	add := func(it Item) {
		h = append(h, it)
		switch {
		case it.T == "submit" && !it.Bad && it.B > 0, it.T == "crash" && it.Op == "submit" && it.N > 0:
			if cur == 0 || est < cur {
				est++
			}
		case it.T == "next" && !it.Bad, it.T == "crash" && it.Op == "next" && it.N > 0:
			if est > 0 {
				est--
			}
		}
		cur = boundAfter(cur, it)
	}
	if boundMode == 3 {
		k := 2 + r.Intn(6)
		if max > 0 && k > max {
			k = max
		}
		for i := 0; i < k; i++ {
			add(Item{T: "submit", B: pick()})
		}
		if est >= 2 {
			nb := 1 + r.Intn(est-1)
			if r.Intn(4) == 0 {
				add(Item{T: "crash", Op: []string{"submit", "next"}[r.Intn(2)], B: pick(), N: r.Intn(3), Max: ip(nb)})
			} else {
				add(Item{T: "restart", Max: ip(nb)})
			}
		}
	}
	bound := func() *int {
		if boundMode == 0 {
			return nil
		}
		return drawBound(r, cur, est)
	}
	for i := 0; i < n; i++ {
		x := r.Intn(100)
		switch {
		case x < restartPct:
			add(Item{T: "restart", Max: bound()})
		case x < restartPct+8:
			if r.Intn(2) == 0 {
				add(Item{T: "crash", Op: "submit", B: pick(), N: r.Intn(3), Max: bound()})
			} else {
				add(Item{T: "crash", Op: "next", N: r.Intn(3), Max: bound()})
			}
		case x < restartPct+8+38:
			add(Item{T: "next", Bad: r.Intn(12) == 0})
		default:
			it := Item{T: "submit", B: pick(), Bad: r.Intn(12) == 0}
			if y := r.Intn(14); y == 0 {
				it.B = 0
			} else if y == 1 {
				it.B = -1
			}
			add(it)
		}
	}
	return h
}

// closing sequence appended to every history: hand out everything, restart, ask once more
// (what was handed out must not come back).  Deterministic in the history, independent of the model.
func withClosing(h []Item) []Item {
	ns := 0
	for _, it := range h {
		if it.T == "submit" || (it.T == "crash" && it.Op == "submit") {
			ns++
		}
	}
	out := append([]Item{}, h...)
	for i := 0; i < ns+1; i++ {
		out = append(out, Item{T: "next"})
	}
	out = append(out, Item{T: "restart"}, Item{T: "next"})
	return out
}

// ---- running the real sequencer ---------------------------------------------------------------

type out struct {
	kind  string // ok invalid full empty batch none other
	id    int
	inner *out // crash: what the dying process computed (never seen by a caller; used by the oracle only)
	// submit: the datastore image after the call differs from the image before it (oracle only)
	changed bool
	// next, when the batch handed out is no pool batch: it is a proper contiguous part of pool batch partOf (oracle only)
	partOf, partLen int
	txs             [][]byte // next: the transactions handed out (oracle only)
	// restart / crash: the records the live store held when the new process was started, in key order
	start    []rec
	hasStart bool
}

// one record under the queue's prefix: key projected to its sequence number (projKey), DECODED contents as pool id
// (projVal: 999998 = does not decode, 999999 = decodes to a batch that is not in the pool)
type rec struct{ key, val uint64 }

func recsCoq(l []rec) string {
	var es []string
	for _, e := range l {
		es = append(es, fmt.Sprintf("(%s, %s)", vgen.N(e.key), vgen.N(e.val)))
	}
	return vgen.List(es)
}

func (o out) coq() string {
	switch o.kind {
	case "none":
		return "None"
	case "ok":
		return "(Some ROk)"
	case "invalid":
		return "(Some RInvalidId)"
	case "full":
		return "(Some RFull)"
	case "empty":
		return "(Some REmpty)"
	case "batch":
		return "(Some (RBatch " + vgen.N(uint64(o.id)) + "))"
	}
	return "(Some (RBatch 888888%N))" // an unexpected error class: forces a mismatch
}

type runner struct {
	pool [][][]byte
	max  int
	kv   ds.Batching
	cds  *crashds.DS
	seq  *single.Sequencer
	ctx  context.Context
	dir  string // on-disk store: its directory (removed on close)
}

// where on-disk stores are created (TestVerif points it into VERIF_OUT)
var scratchDir = ""

var logger = func() logging.EventLogger {
	_ = logging.SetLogLevel("c10", "FATAL")
	l := logging.Logger("c10")
	_ = logging.SetLogLevel("c10", "FATAL")
	return l
}()

func newRunnerSeeded(pool [][][]byte, storeKind string, max int, legacy []int) (*runner, error) {
	return newRunnerOn(pool, storeKind, max, legacy, needsDisk(pool))
}

// store "map": the in-memory map datastore (keeps the slices it is given; key-ordered queries by sorting).
// Otherwise badger - disk: the production store (on disk, values above 1 MiB go to its value log); else in memory
func newRunnerOn(pool [][][]byte, storeKind string, max int, legacy []int, disk bool) (*runner, error) {
	var kv ds.Batching
	var err error
	dir := ""
	if storeKind == "map" {
		kv = dssync.MutexWrap(ds.NewMapDatastore())
	} else if disk {
		if dir, err = os.MkdirTemp(scratchDir, "c10-ds-"); err != nil {
			return nil, err
		}
		kv, err = store.NewDefaultKVStore(dir, "data", "c10")
	} else {
		kv, err = store.NewDefaultInMemoryKVStore()
	}
	if err != nil {
		return nil, err
	}
	for _, id := range legacy {
		// exactly what the pre-repair AddBatch wrote: key = hex(hash), value = proto(Batch)
		val, err := proto.Marshal(&pb.Batch{Txs: pool[id-1]})
		if err != nil {
			return nil, err
		}
		if err := kv.Put(context.Background(), ds.NewKey("/batches/"+hex.EncodeToString(realHash(pool[id-1]))), val); err != nil {
			return nil, err
		}
	}
	r := &runner{pool: pool, max: max, kv: kv, cds: crashds.Wrap(kv, nil), ctx: context.Background(), dir: dir}
	if err := r.boot(); err != nil {
		return nil, err
	}
	return r, nil
}

// boot = process start: the real constructor, which reloads the queue from the datastore
func (r *runner) boot() error {
	var s *single.Sequencer
	var err error
	if r.max == 1000 {
		s, err = single.NewSequencer(r.ctx, logger, r.cds, nil, chainID, time.Second, nil, true)
	} else {
		s, err = single.NewSequencerWithQueueSize(r.ctx, logger, r.cds, nil, chainID, time.Second, nil, true, r.max)
	}
	if err != nil {
		return err
	}
	r.seq = s
	return nil
}

func (r *runner) close() {
	_ = r.kv.Close()
	if r.dir != "" {
		_ = os.RemoveAll(r.dir)
	}
}

func cloneBatch(b [][]byte) [][]byte {
	c := make([][]byte, len(b))
	for i, tx := range b {
		c[i] = append([]byte{}, tx...)
	}
	return c
}

func sameBatch(a, b [][]byte) bool {
	if len(a) != len(b) {
		return false
	}
	for i := range a {
		if !bytes.Equal(a[i], b[i]) {
			return false
		}
	}
	return true
}

func (r *runner) idOf(txs [][]byte) int {
	for i, p := range r.pool {
		if sameBatch(p, txs) {
			return i + 1
		}
	}
	return 999999
}

func (r *runner) id(bad bool) []byte {
	if bad {
		return foreignID
	}
	return chainID
}

func (r *runner) submit(it Item) out {
	req := coresequencer.SubmitBatchTxsRequest{Id: r.id(it.Bad)}
	switch {
	case it.B == 0:
		req.Batch = nil
	case it.B < 0:
		req.Batch = &coresequencer.Batch{Transactions: [][]byte{}}
	default:
		req.Batch = &coresequencer.Batch{Transactions: cloneBatch(r.pool[it.B-1])}
	}
	_, err := r.seq.SubmitBatchTxs(r.ctx, req)
	switch {
	case err == nil:
		return out{kind: "ok"}
	case errors.Is(err, single.ErrInvalidId):
		return out{kind: "invalid"}
	case errors.Is(err, single.ErrQueueFull):
		return out{kind: "full"}
	}
	return out{kind: "other"}
}

func (r *runner) next(it Item) out {
	resp, err := r.seq.GetNextBatch(r.ctx, coresequencer.GetNextBatchRequest{Id: r.id(it.Bad), MaxBytes: it.MB})
	switch {
	case errors.Is(err, single.ErrInvalidId):
		return out{kind: "invalid"}
	case err != nil || resp == nil || resp.Batch == nil:
		return out{kind: "other"}
	case len(resp.Batch.Transactions) == 0:
		return out{kind: "empty"}
	}
	o := out{kind: "batch", id: r.idOf(resp.Batch.Transactions), txs: resp.Batch.Transactions}
	if o.id == 999999 {
		o.partOf, o.partLen = r.partOf(resp.Batch.Transactions), len(resp.Batch.Transactions)
	}
	return o
}

// the pool batch of which txs is a proper contiguous run of transactions (0 = none)
func (r *runner) partOf(txs [][]byte) int {
	for i, p := range r.pool {
		for a := 0; a+len(txs) <= len(p) && len(txs) < len(p); a++ {
			if sameBatch(p[a:a+len(txs)], txs) {
				return i + 1
			}
		}
	}
	return 0
}

// did the datastore writes recorded since log position 'before' change the image?
func (r *runner) imageChangedSince(before int) bool {
	if r.cds.Len() == before {
		return false
	}
	a, b := r.cds.ImageAfter(before), r.cds.ImageAfter(r.cds.Len())
	if len(a) != len(b) {
		return true
	}
	for k, v := range a {
		if w, ok := b[k]; !ok || !bytes.Equal(v, w) {
			return true
		}
	}
	return false
}

// the records of the LIVE store (not of the write log), in key order, as the process about to be started will find them
func (r *runner) startImage() ([]rec, bool) {
	dump, err := crashds.Dump(r.ctx, r.kv)
	if err != nil {
		return nil, false
	}
	l := []rec{}
	for _, e := range dump {
		l = append(l, rec{projKey(e.Key), r.projVal(e.Value)})
	}
	return l, true
}

func (r *runner) exec(it Item) out {
	switch it.T {
	case "submit":
		before := r.cds.Len()
		o := r.submit(it)
		o.changed = r.imageChangedSince(before)
		return o
	case "next":
		return r.next(it)
	case "restart":
		r.max = boundAfter(r.max, it) // the new process's maxQueueSize
		st, ok := r.startImage()
		if err := r.boot(); err != nil {
			return out{kind: "other"}
		}
		return out{kind: "none", start: st, hasStart: ok}
	case "crash":
		// the process dies inside the operation after it.N of its datastore writes became durable
		before := r.cds.Len()
		r.cds.FailAfter = before + it.N
		var in out
		if it.Op == "submit" {
			in = r.submit(Item{T: "submit", B: it.B})
			in.changed = r.imageChangedSince(before)
		} else {
			in = r.next(Item{T: "next", MB: it.MB})
		}
		r.cds.FailAfter = -1
		r.max = boundAfter(r.max, it) // the new process's maxQueueSize
		st, ok := r.startImage()
		if err := r.boot(); err != nil {
			return out{kind: "other"}
		}
		return out{kind: "none", inner: &in, start: st, hasStart: ok}
	}
	panic("bad item " + it.T)
}

// ---- the oracle ---------------------------------------------------------------------------------
// A reference FIFO of pool ids, fed only by what the real code returned.  Judging stops at the first
// symptom (after a divergence the reference no longer knows the real queue).

type oracle struct {
	pool     [][][]byte
	max      int
	pending  []int
	symptom  string
	what     string
	dupPend  bool // a submission was accepted while a batch with equal contents was pending
	unordRst bool // a restart / crash happened while the pending batches' real hashes were not strictly increasing
	lowStart bool // a process was started with a positive bound smaller than the number of batches pending
	starts   map[string]int
	accepted int
	guardOK  bool
	hashes   map[int][]byte
	// transaction-level view: headOff = how many transactions of pending[0] have been handed out already (0 unless a
	// submission was handed out in parts); a partial hand-out is a symptom of its own (soft), but judging goes on at
	// transaction level, and a graver symptom found later (order, loss) is what gets reported
	headOff  int
	soft     string
	softWhat string
	// acceptance numbers: pendIdx[i] = how many batches had been accepted before pending[i] since the store was last
	// empty at a process start (what a per-batch sequence counter of any implementation would say); -1 = unknown (legacy record)
	pendIdx []int
	nextIdx int
	wideRst bool // a restart / crash happened while the acceptance numbers of the pending batches had different widths (decimal or hex digits)
	maxIdx  int
	// at the first out-of-order hand-out: was the batch handed out the pending one with the smallest content hash?
	gotMinHash bool
	// a process start found two or more pending batches of which an earlier one differs from the one accepted last
	// (its record was written before another batch was encoded by the same process)
	olderDiffRst bool
}

// "batches accepted but not yet handed out survive a restart": the records the live store holds when a process is
// started (read back and decoded, key order) are exactly the pending batches in acceptance order
func (o *oracle) checkRecords(idx int, got out) {
	if o.symptom != "" || !got.hasStart || o.headOff > 0 {
		return
	}
	var vals []int
	for _, e := range got.start {
		vals = append(vals, int(e.val))
	}
	same := len(vals) == len(o.pending)
	for i := 0; same && i < len(vals); i++ {
		same = vals[i] == o.pending[i]
	}
	if same {
		return
	}
	class := ""
	a, b := append([]int{}, vals...), append([]int{}, o.pending...)
	sort.Ints(a)
	sort.Ints(b)
	switch {
	case contains(vals, 999998):
		class = "record-does-not-decode"
	case len(vals) < len(o.pending):
		class = "pending-batch-without-record"
	case len(vals) > len(o.pending):
		class = "record-of-no-pending-batch"
	case fmt.Sprint(a) == fmt.Sprint(b):
		class = "records-out-of-acceptance-order"
	default:
		class = "record-holds-another-batch-than-the-one-accepted"
	}
	o.fail("process-start:"+class, fmt.Sprintf("item %d: the process is started on records holding (decoded, in key order) %v, but the batches accepted and not yet handed out are %v (999998 = undecodable, 999999 = no batch ever submitted)",
		idx, short(vals), short(o.pending)))
}

// number of digits of v in the radix
func width(v, radix int) int {
	w := 1
	for v >= radix {
		v /= radix
		w++
	}
	return w
}

func (o *oracle) hashOf(id int) []byte {
	if h, ok := o.hashes[id]; ok {
		return h
	}
	if o.hashes == nil {
		o.hashes = map[int][]byte{}
	}
	o.hashes[id] = realHash(o.pool[id-1])
	return o.hashes[id]
}

func realHash(b [][]byte) []byte {
	bb := coresequencer.Batch{Transactions: b}
	h, err := bb.Hash()
	if err != nil {
		panic(err)
	}
	return h
}

func (o *oracle) fail(sym, what string) {
	if o.symptom == "" {
		o.symptom, o.what = sym, what
	}
}

func (o *oracle) isFull() bool { return o.max > 0 && len(o.pending) >= o.max }

// a process start: the new process's bound applies from here on
func (o *oracle) noteRestart(it Item) {
	if o.starts == nil {
		o.starts = map[string]int{}
	}
	nb := boundAfter(o.max, it)
	switch {
	case it.Max == nil:
		o.starts["start:bound-unchanged"]++
	case nb == 0:
		o.starts["start:bound-unlimited"]++
	case nb < len(o.pending):
		o.starts["start:bound-smaller-than-pending"]++
	case nb == len(o.pending):
		o.starts["start:bound-equal-to-pending"]++
	case nb < o.max || o.max == 0:
		o.starts["start:bound-lowered-above-pending"]++
	default:
		o.starts["start:bound-raised-or-same-value"]++
	}
	if nb > 0 && nb < len(o.pending) {
		o.lowStart = true
	}
	o.max = nb
	if n := len(o.pendIdx); n >= 2 && o.pendIdx[0] >= 0 {
		a, b := o.pendIdx[0], o.pendIdx[n-1]
		if width(a, 10) != width(b, 10) || width(a, 16) != width(b, 16) {
			o.wideRst = true
			o.starts["start:pending-acceptance-numbers-of-different-width"]++
		}
	}
	if len(o.pending) == 0 {
		o.nextIdx = 0 // the store is empty: numbering may start over
	}
	for i := 0; i+1 < len(o.pending); i++ {
		if o.pending[i] != o.pending[len(o.pending)-1] {
			o.olderDiffRst = true
		}
	}
	for i := 0; i+1 < len(o.pending); i++ {
		if bytes.Compare(o.hashOf(o.pending[i]), o.hashOf(o.pending[i+1])) >= 0 {
			o.unordRst = true
		}
	}
}

func (o *oracle) enqueue(b int) {
	for _, p := range o.pending {
		if p == b {
			o.dupPend = true
		}
	}
	o.pending = append(o.pending, b)
	o.pendIdx = append(o.pendIdx, o.nextIdx)
	if o.nextIdx > o.maxIdx {
		o.maxIdx = o.nextIdx
	}
	o.nextIdx++
	o.accepted++
}

// the oldest pending batch has been handed out completely
func (o *oracle) pop() {
	o.pending = o.pending[1:]
	if len(o.pendIdx) > 0 {
		o.pendIdx = o.pendIdx[1:]
	}
	o.headOff = 0
}

func isPrefix(txs, of [][]byte) bool {
	return len(txs) < len(of) && sameBatch(txs, of[:len(txs)])
}

func (o *oracle) observe(idx int, it Item, got out) {
	if o.symptom != "" {
		return
	}
	switch it.T {
	case "submit":
		switch {
		case (got.kind == "full" || got.kind == "invalid") && got.changed:
			// "a submission rejected because the queue is full or the chain id is foreign leaves no trace"
			o.fail("rejected-submission-left-trace", fmt.Sprintf("item %d: submission of batch %d (%s) was rejected (%s) with %d pending, bound %d, yet the datastore records changed during the call",
				idx, it.B, o.shape(it.B), got.kind, len(o.pending), o.max))
		case it.Bad:
			if got.kind != "invalid" {
				o.fail("foreign-chain-id-not-rejected", fmt.Sprintf("item %d: submit with a foreign chain id returned %s", idx, got.kind))
			}
		case it.B <= 0:
			if got.kind != "ok" {
				o.fail("empty-submission-not-ok", fmt.Sprintf("item %d: empty submission returned %s", idx, got.kind))
			} else if got.changed {
				o.fail("empty-submission-left-trace", fmt.Sprintf("item %d: an empty submission changed the datastore records", idx))
			}
		case got.kind == "full":
			if !o.isFull() {
				o.fail("rejected-though-not-full", fmt.Sprintf("item %d: queue-full error with %d pending, bound %d", idx, len(o.pending), o.max))
			}
		case got.kind == "ok":
			if o.isFull() {
				o.fail("accepted-beyond-bound", fmt.Sprintf("item %d: submission accepted with %d pending, bound %d", idx, len(o.pending), o.max))
			}
			o.enqueue(it.B)
		default:
			o.fail("submit-unexpected-error", fmt.Sprintf("item %d: submit returned %s", idx, got.kind))
		}
	case "next":
		switch {
		case it.Bad:
			if got.kind != "invalid" {
				o.fail("foreign-chain-id-not-rejected", fmt.Sprintf("item %d: next with a foreign chain id returned %s", idx, got.kind))
			}
		case got.kind == "empty":
			if len(o.pending) > 0 {
				o.fail("next-empty-but-pending", fmt.Sprintf("item %d: nothing handed out, but %v were accepted and never handed out", idx, short(o.pending)))
			}
		case got.kind == "batch":
			var rem [][]byte // what is still to be handed out of the oldest pending batch
			if len(o.pending) > 0 {
				rem = o.pool[o.pending[0]-1][o.headOff:]
			}
			switch {
			case len(o.pending) > 0 && o.headOff == 0 && o.pending[0] == got.id:
				o.pop()
			case len(o.pending) > 0 && got.txs != nil && o.headOff > 0 && sameBatch(got.txs, rem):
				o.pop() // the rest of a submission that was handed out in parts
			case contains(o.pending, got.id):
				// a whole batch that is pending (even if it also is the beginning of the oldest one): out of order
				o.gotMinHash = true
				for _, p := range o.pending {
					if bytes.Compare(o.hashOf(p), o.hashOf(got.id)) < 0 {
						o.gotMinHash = false
					}
				}
				o.fail("next-out-of-order", fmt.Sprintf("item %d: handed out batch %d, but the oldest pending is %d%s (pending %v, accepted as numbers %v since the store was last empty)",
					idx, got.id, o.pending[0], o.headNote(), short(o.pending), short(o.pendIdx)))
			case len(o.pending) > 0 && got.txs != nil && len(got.txs) > 0 && isPrefix(got.txs, rem):
				// an accepted submission is handed out as the one batch it was: a symptom, but the transactions are the
				// right ones in the right order - go on judging at transaction level
				if o.soft == "" {
					o.soft = "submission-handed-out-in-parts"
					o.softWhat = fmt.Sprintf("item %d (byte budget %d): handed out %d of the %d transactions of batch %d (%s) as a batch of their own (pending %v)",
						idx, it.MB, len(got.txs), len(o.pool[o.pending[0]-1]), o.pending[0], o.shape(o.pending[0]), short(o.pending))
				}
				o.headOff += len(got.txs)
			case got.partOf > 0:
				// an accepted submission is handed out as the one batch it was, a rejected one not at all
				o.fail("submission-handed-out-in-parts", fmt.Sprintf("item %d: handed out %d of the %d transactions of batch %d (%s) as a batch of their own (pending %v)",
					idx, got.partLen, len(o.pool[got.partOf-1]), got.partOf, o.shape(got.partOf), short(o.pending)))
			default:
				o.fail("next-not-pending", fmt.Sprintf("item %d: handed out batch %d which is not pending (pending %v): handed out twice or never accepted", idx, got.id, short(o.pending)))
			}
		default:
			o.fail("next-unexpected-error", fmt.Sprintf("item %d: next returned %s", idx, got.kind))
		}
	case "restart":
		if got.kind != "none" {
			o.fail("restart-failed", fmt.Sprintf("item %d: the sequencer could not be rebuilt on its datastore", idx))
		}
		o.checkRecords(idx, got)
		if o.symptom != "" {
			return
		}
		o.noteRestart(it)
	}
}

// what failed, in words
func (o *oracle) report() string {
	switch {
	case o.symptom == "":
		return o.softWhat
	case o.soft != "":
		return o.softWhat + "; THEN " + o.what
	}
	return o.what
}

func (o *oracle) headNote() string {
	if o.headOff > 0 {
		return fmt.Sprintf(" (its last %d transactions, the first %d were handed out before)", len(o.pool[o.pending[0]-1])-o.headOff, o.headOff)
	}
	return ""
}

// "3 transactions, 2100000 bytes"
func (o *oracle) shape(id int) string {
	if id < 1 || id > len(o.pool) {
		return "no transactions"
	}
	return fmt.Sprintf("%d transactions, %d bytes", len(o.pool[id-1]), payloadOf(o.pool[id-1]))
}

// a list in a message: at most 24 entries
func short(l []int) string {
	if len(l) <= 24 {
		return fmt.Sprint(l)
	}
	s := fmt.Sprint(l[:24])
	return fmt.Sprintf("%s ... %d in all, the last %v]", s[:len(s)-1], len(l), l[len(l)-1])
}

func contains(l []int, x int) bool {
	for _, y := range l {
		if y == x {
			return true
		}
	}
	return false
}

// a crash inside an operation: whether the operation counts is decided by whether its write survived
// (read from the recorded log, i.e. from the real code's own behaviour)
func (o *oracle) observeCrash(idx int, it Item, wrote bool, got out) {
	if o.symptom != "" {
		return
	}
	if got.kind != "none" || got.inner == nil {
		o.fail("restart-failed", fmt.Sprintf("item %d: the sequencer could not be rebuilt after a crash", idx))
		return
	}
	if wrote {
		// the write is durable: the operation counts.  For a hand-out the delete is the hand-out point
		// (what happens to the batch after it is C11's subject); which batch it was is what the dying
		// process had taken from the queue.
		if it.Op == "submit" {
			o.observe(idx, Item{T: "submit", B: it.B}, *got.inner)
		} else {
			o.observe(idx, Item{T: "next", MB: it.MB}, *got.inner)
		}
		if o.symptom != "" {
			return
		}
	}
	o.checkRecords(idx, got)
	if o.symptom != "" {
		return
	}
	o.noteRestart(it)
}

// signature: the symptom, attributed to a trigger class of the history when one is present
func (o *oracle) signature() string {
	switch o.symptom {
	case "":
		return o.soft // a submission handed out in parts, everything else in order
	}
	if o.soft != "" {
		// the graver symptom that followed a partial hand-out (the remainder lost, overtaken, handed out twice ...)
		return "after-partial-hand-out:" + o.symptom
	}
	if o.lowStart {
		switch o.symptom {
		case "next-out-of-order", "next-empty-but-pending", "next-not-pending", "drained-queue-leaves-records",
			"rejected-though-not-full", "accepted-beyond-bound":
			return "start-below-pending:" + o.symptom
		}
	}
	switch o.symptom {
	case "next-out-of-order":
		if o.wideRst && !(o.unordRst && o.gotMinHash) {
			// the pending batches' acceptance numbers had different widths at a process start, and what came out first is
			// not what a reload in content-hash order would have produced
			return "restart-with-pending-numbers-of-different-width:next-out-of-order"
		}
		if o.unordRst {
			return "restart-with-pending-not-in-hash-order"
		}
		if o.dupPend {
			return "two-pending-equal-batches"
		}
	case "next-empty-but-pending", "accepted-beyond-bound":
		if o.dupPend {
			return "two-pending-equal-batches"
		}
	}
	return o.symptom
}

// ---- one sequential case --------------------------------------------------------------------------

type caseResult struct {
	keys   []string // the real datastore keys of the recorded Puts
	outs   []out
	image  []string
	log    []string
	starts []string // per process start: the records of the live store, as a Coq list
	sig    string
	what   string
	err    error
	orc    *oracle
	panicd bool
}

// keys of the repaired scheme: /batches/s<16 hex sequence number>-<64 hex content hash>; the model sees the
// sequence number.  Anything else (incl. a legacy bare-hash key) projects to a marker the model never produces.
func projKey(k string) uint64 {
	const pfx = "/batches/s"
	if !strings.HasPrefix(k, pfx) {
		return 777777
	}
	rest := k[len(pfx):]
	if len(rest) != 16+1+64 || rest[16] != '-' {
		return 777776
	}
	b, err := hex.DecodeString(rest[:16])
	if err != nil {
		return 777775
	}
	if _, err := hex.DecodeString(rest[17:]); err != nil {
		return 777774
	}
	var v uint64
	for _, c := range b {
		v = v<<8 | uint64(c)
	}
	return v
}

// the suffix of a record's key must be the hash of the batch stored under it
func keyMatchesValue(k string, v []byte) bool {
	var m pb.Batch
	if err := proto.Unmarshal(v, &m); err != nil {
		return false
	}
	return strings.HasSuffix(k, "-"+hex.EncodeToString(realHash(m.Txs)))
}

func (r *runner) projVal(v []byte) uint64 {
	var m pb.Batch
	if err := proto.Unmarshal(v, &m); err != nil {
		return 999998
	}
	return uint64(r.idOf(m.Txs))
}

// legacy: pool ids whose records pre-exist in the datastore under the OLD key scheme (bare hex hash), as a
// store written before the repair would hold them.
func runCase(pool [][][]byte, store string, max int, hist []Item, legacy ...int) (res *caseResult) {
	res = &caseResult{}
	defer func() {
		if x := recover(); x != nil {
			res.sig, res.what, res.panicd = "panic", fmt.Sprint(x), true
		}
	}()
	r, err := newRunnerSeeded(pool, store, max, legacy)
	if err != nil {
		res.err = err
		return
	}
	defer r.close()
	or := &oracle{pool: pool, max: max}
	res.orc = or
	// legacy records carry no acceptance order; they are expected first, in key (= hash) order
	lg := append([]int{}, legacy...)
	sort.Slice(lg, func(i, j int) bool { return bytes.Compare(realHash(pool[lg[i]-1]), realHash(pool[lg[j]-1])) < 0 })
	or.pending = lg
	for range lg {
		or.pendIdx = append(or.pendIdx, -1) // no acceptance number is known for a record of the old scheme
	}
	for i, it := range withClosing(hist) {
		before := r.cds.Len()
		o := r.exec(it)
		if it.T == "crash" {
			or.observeCrash(i, it, r.cds.Len() > before, o)
		} else {
			or.observe(i, it, o)
		}
		res.outs = append(res.outs, o)
		if it.T == "restart" || it.T == "crash" {
			res.starts = append(res.starts, recsCoq(o.start))
		}
	}
	if or.symptom == "" && len(or.pending) > 0 {
		or.fail("next-empty-but-pending", "closing: accepted batches never handed out")
	}
	res.sig, res.what = or.signature(), or.report()
	dump, err := crashds.Dump(r.ctx, r.kv)
	if err != nil {
		res.err = err
		return
	}
	if or.symptom == "" && len(dump) > 0 {
		or.fail("drained-queue-leaves-records", fmt.Sprintf("%d records left in the datastore after everything was handed out", len(dump)))
		res.sig, res.what = or.signature(), or.report()
	}
	for _, e := range dump {
		res.image = append(res.image, fmt.Sprintf("(%s, %s)", vgen.N(projKey(e.Key)), vgen.N(r.projVal(e.Value))))
	}
	for _, w := range r.cds.Log {
		for _, p := range w.Prims {
			if p.Del {
				res.log = append(res.log, "WDel "+vgen.N(projKey(p.Key)))
			} else {
				res.log = append(res.log, fmt.Sprintf("WPut %s %s", vgen.N(projKey(p.Key)), vgen.N(r.projVal(p.Value))))
				res.keys = append(res.keys, p.Key)
				if !keyMatchesValue(p.Key, p.Value) {
					res.log = append(res.log, "WDel 444444%N") // key suffix is not the content hash: force a mismatch
				}
			}
		}
		if w.Batch || len(w.Prims) != 1 {
			res.log = append(res.log, "WDel 555555%N") // the queue never batches: force a mismatch
		}
	}
	return
}

func histCoq(max int, h []Item) string {
	sub := func(it Item) string {
		switch {
		case it.B == 0:
			return "UNil"
		case it.B < 0:
			return "UEmpty"
		}
		return "(UB " + vgen.N(uint64(it.B)) + ")"
	}
	var items []string
	for _, it := range h {
		switch it.T {
		case "submit":
			items = append(items, fmt.Sprintf("BOp (BSubmit %s %s)", vgen.Bool(!it.Bad), sub(it)))
		case "next":
			items = append(items, fmt.Sprintf("BOp (BNext %s %s)", vgen.Bool(!it.Bad), vgen.N(it.MB)))
		case "restart":
			max = boundAfter(max, it)
			items = append(items, "BStart "+vgen.N(uint64(max)))
		case "crash":
			max = boundAfter(max, it)
			if it.Op == "submit" {
				items = append(items, fmt.Sprintf("BCrash (BSubmit true %s) %s %s", sub(it), vgen.Nat(it.N), vgen.N(uint64(max))))
			} else {
				items = append(items, fmt.Sprintf("BCrash (BNext true %s) %s %s", vgen.N(it.MB), vgen.Nat(it.N), vgen.N(uint64(max))))
			}
		}
	}
	return vgen.List(items)
}

// key samples for Model/QueueKeys.v: the sequence number a real record key was projected to (projKey) and the first
// 18 bytes of that key below the queue's prefix ("s" + 16 digits + "-"), one sample per distinct number
const keyPfx = "/batches/"

func noteKeySample(samples map[uint64]string, k string) {
	sq := projKey(k)
	if sq >= 700000 && sq <= 800000 { // a marker: the main comparison reports it
		return
	}
	if _, ok := samples[sq]; ok || !strings.HasPrefix(k, keyPfx) {
		return
	}
	head := k[len(keyPfx):]
	if len(head) > 18 {
		head = head[:18]
	}
	var bs []string
	for i := 0; i < len(head); i++ {
		bs = append(bs, strconv.Itoa(int(head[i])))
	}
	samples[sq] = fmt.Sprintf("(%s, [%s]%%N)", vgen.N(sq), strings.Join(bs, "; "))
}

func poolHex(pool [][][]byte) [][]string {
	var o [][]string
	for _, b := range pool {
		var l []string
		for _, tx := range b {
			l = append(l, hex.EncodeToString(tx))
		}
		o = append(o, l)
	}
	return o
}

func poolFromHex(p [][]string) [][][]byte {
	var o [][][]byte
	for _, b := range p {
		l := [][]byte{}
		for _, tx := range b {
			if strings.HasPrefix(tx, "#") { // "#<size>:<byte>"
				f := strings.SplitN(tx[1:], ":", 2)
				sz, err1 := strconv.Atoi(f[0])
				fill, err2 := 0, error(nil)
				if len(f) == 2 {
					fill, err2 = strconv.Atoi(f[1])
				}
				if err1 != nil || err2 != nil || sz < 0 || sz > 16<<20 {
					panic("bad transaction descriptor " + tx)
				}
				l = append(l, bytes.Repeat([]byte{byte(fill)}, sz))
				continue
			}
			x, err := hex.DecodeString(tx)
			if err != nil {
				panic(err)
			}
			l = append(l, x)
		}
		o = append(o, l)
	}
	return o
}

func validHist(h []Item, npool int) bool {
	for _, it := range h {
		if it.B > npool {
			return false
		}
		if it.T == "crash" && it.Op == "submit" && it.B <= 0 {
			return false
		}
		if it.Max != nil && (*it.Max < 0 || *it.Max > 1_000_000) {
			return false
		}
	}
	return true
}

// ---- concurrent submitters (oracle only) ------------------------------------------------------------
// G goroutines submit distinct batches tagged (g, i) while one goroutine hands out; then the rest is
// drained.  No restart (so key order plays no role).  Required: nothing lost, nothing twice, each
// submitter's batches in its own order, bound respected for what was accepted.
func runConcurrent(seed int64, c int) (sig, what string, stats map[string]int) {
	r := caseRng(seed, c)
	stats = map[string]int{}
	g := 2 + r.Intn(4)
	per := 5 + r.Intn(30)
	max := []int{0, 0, 7, 50}[r.Intn(4)]
	// every fourth concurrent case: LARGE submissions (2-3 transactions, payload around 1.5 MB .. 2.4 MB) into a
	// small bound - each must be admitted or rejected as a whole and handed out as the one batch it was
	large := r.Intn(4) == 0
	txSize := 0
	ntx := 1
	if large {
		g = 2 + r.Intn(2)
		per = 3 + r.Intn(4)
		max = []int{0, 2, 3, 3}[r.Intn(4)]
		ntx = 2 + r.Intn(2)
		txSize = []int{750_001, 800_000, 600_000, 1_100_000}[r.Intn(4)]
		stats["conc:large-runs"] = 1
	}
	run, err := newRunnerOn(nil, "", max, nil, large)
	if err != nil {
		return "harness-error", err.Error(), stats
	}
	defer run.close()
	mkBatch := func(gi, i int) [][]byte {
		var b [][]byte
		for k := 0; k < ntx; k++ {
			tag := []byte(fmt.Sprintf("g%d-i%d", gi, i))
			if large {
				tag = append([]byte(fmt.Sprintf("g%d-i%d-k%d-", gi, i, k)), bytes.Repeat([]byte{byte('a' + k)}, txSize)...)
			}
			b = append(b, tag)
		}
		return b
	}
	var mu sync.Mutex
	acceptedBy := make([][]int, g)
	var delivered [][2]int
	split := false // a batch handed out holds some, not all, transactions of one submission
	parse := func(txs [][]byte) (int, int, bool) {
		var a, b int
		if len(txs) == 0 || len(txs) > ntx {
			return 0, 0, false
		}
		head := txs[0]
		if len(head) > 64 {
			head = head[:64]
		}
		if _, err := fmt.Sscanf(string(head), "g%d-i%d", &a, &b); err != nil {
			return 0, 0, false
		}
		if a < 0 || b < 0 {
			return 0, 0, false
		}
		if !sameBatch(txs, mkBatch(a, b)) {
			want := mkBatch(a, b)
			for k := 0; k+len(txs) <= len(want); k++ {
				if len(txs) < len(want) && sameBatch(want[k:k+len(txs)], txs) {
					split = true
				}
			}
			return 0, 0, false
		}
		return a, b, true
	}
	var wg sync.WaitGroup
	done := make(chan struct{})
	var sig0, what0 string
	setFail := func(s, w string) {
		mu.Lock()
		if sig0 == "" {
			sig0, what0 = s, w
		}
		mu.Unlock()
	}
	for gi := 0; gi < g; gi++ {
		wg.Add(1)
		go func(gi int) {
			defer wg.Done()
			for i := 0; i < per; i++ {
				req := coresequencer.SubmitBatchTxsRequest{Id: chainID, Batch: &coresequencer.Batch{Transactions: mkBatch(gi, i)}}
				_, err := run.seq.SubmitBatchTxs(run.ctx, req)
				if err == nil {
					mu.Lock()
					acceptedBy[gi] = append(acceptedBy[gi], i)
					mu.Unlock()
				} else if !errors.Is(err, single.ErrQueueFull) {
					setFail("concurrent-submit-error", err.Error())
				}
			}
		}(gi)
	}
	var cw sync.WaitGroup
	cw.Add(1)
	take := func() bool {
		resp, err := run.seq.GetNextBatch(run.ctx, coresequencer.GetNextBatchRequest{Id: chainID})
		if err != nil || resp == nil || resp.Batch == nil {
			setFail("concurrent-next-error", fmt.Sprint(err))
			return false
		}
		if len(resp.Batch.Transactions) == 0 {
			return false
		}
		a, b, ok := parse(resp.Batch.Transactions)
		if !ok && split {
			setFail("concurrent-submission-handed-out-in-parts", fmt.Sprintf("handed out %d of the %d transactions of one submission as a batch of their own", len(resp.Batch.Transactions), ntx))
			return false
		}
		if !ok {
			setFail("concurrent-phantom", "handed out a batch nobody submitted")
			return false
		}
		delivered = append(delivered, [2]int{a, b})
		return true
	}
	go func() {
		defer cw.Done()
		for {
			select {
			case <-done:
				return
			default:
				take()
			}
		}
	}()
	wg.Wait()
	close(done)
	cw.Wait()
	for take() {
	}
	stats["conc:submitters"] = g
	stats["conc:submitted"] = g * per
	if sig0 != "" {
		return sig0, what0, stats
	}
	next := make([]int, g)
	for _, d := range delivered {
		a, i := d[0], d[1]
		if a < 0 || a >= g {
			return "concurrent-phantom", "unknown submitter tag", stats
		}
		if next[a] >= len(acceptedBy[a]) {
			return "concurrent-duplicate", fmt.Sprintf("submitter %d: more batches handed out than accepted", a), stats
		}
		if acceptedBy[a][next[a]] != i {
			return "concurrent-reordered-or-lost", fmt.Sprintf("submitter %d: handed out its batch %d where %d was due", a, i, acceptedBy[a][next[a]]), stats
		}
		next[a]++
	}
	tot := 0
	for a := 0; a < g; a++ {
		tot += len(acceptedBy[a])
		if next[a] != len(acceptedBy[a]) {
			return "concurrent-lost", fmt.Sprintf("submitter %d: %d accepted, %d handed out", a, len(acceptedBy[a]), next[a]), stats
		}
	}
	stats["conc:accepted"] = tot
	dump, err := crashds.Dump(run.ctx, run.kv)
	if err != nil {
		return "harness-error", err.Error(), stats
	}
	if len(dump) != 0 {
		return "drained-queue-leaves-records", fmt.Sprintf("%d records left after a concurrent run was drained", len(dump)), stats
	}
	return "", "", stats
}

// what the size-boundary cases reached (measured on the real run)
func sizeStats(res *vgen.Result, pool [][][]byte, max int, h []Item, cr *caseResult) {
	pending := 0 // what a FIFO of whole submissions holds (reference count from the results)
	full := withClosing(h)
	for i, it := range full {
		if i >= len(cr.outs) {
			break
		}
		o := cr.outs[i]
		if i > 0 {
			max = boundAfter(max, full[i-1]) // the bound of the process the item runs in
		}
		isSubmit := it.T == "submit" || (it.T == "crash" && it.Op == "submit")
		if isSubmit && it.B > 0 && !it.Bad {
			pl := payloadOf(pool[it.B-1])
			if pl >= bigPayload {
				res.Count("size:large-submission")
				if pl > 1_500_000 {
					res.Count("size:large-submission-over-1.5MB")
					parts := (pl + 1_499_999) / 1_500_000
					if free := max - pending; max > 0 && free >= 1 && free < parts {
						res.Count("size:over-1.5MB-with-free-slots-fewer-than-1.5MB-parts")
					}
				}
				if it.T == "crash" {
					res.Count(fmt.Sprintf("size:crash-in-large-submission:%d", it.N))
				}
			}
		}
		eff := o
		if it.T == "crash" {
			if o.inner == nil {
				continue
			}
			eff = *o.inner
			if it.N == 0 {
				continue
			}
		}
		switch {
		case isSubmit && eff.kind == "ok" && it.B > 0 && !it.Bad:
			pending++
			if payloadOf(pool[it.B-1]) >= bigPayload {
				res.Count("size:large-submission-accepted")
			}
		case isSubmit && eff.kind == "full":
			if it.B > 0 && payloadOf(pool[it.B-1]) >= bigPayload {
				res.Count("size:large-submission-rejected-full")
			}
		case !isSubmit && eff.kind == "batch":
			pending--
			if eff.id >= 1 && eff.id <= len(pool) && payloadOf(pool[eff.id-1]) >= bigPayload {
				res.Count("size:large-batch-handed-out")
			}
		}
	}
}

// shrinkHist removes runs of items (halving the run length down to single items, repeated until nothing changes)
// while [fails] keeps returning true.  Long histories make vgen.Shrink's one-item-at-a-time passes quadratic in
// real runs of the sequencer; [budget] bounds the number of runs (deterministically: a count, not a clock).
func shrinkHist(items []Item, budget int, fails func([]Item) bool) []Item {
	cur := items
	try := func(cand []Item) bool {
		if budget <= 0 {
			return false
		}
		budget--
		return fails(cand)
	}
	for changed := true; changed && budget > 0; {
		changed = false
		for size := len(cur) / 2; size >= 1; size /= 2 {
			for i := 0; i+size <= len(cur); {
				cand := append(append([]Item{}, cur[:i]...), cur[i+size:]...)
				if try(cand) {
					cur = cand
					changed = true
				} else {
					i += size
				}
			}
		}
	}
	return cur
}

// ---- driver ----------------------------------------------------------------------------------------

func TestVerif(t *testing.T) {
	e := vgen.GetEnv()
	res := vgen.NewResult("C10", e)
	type job struct {
		rp  Replay
		gen bool
	}
	var jobs []job
	if e.Replay != "" {
		var rp Replay
		if err := vgen.LoadReplay(e.Replay, &rp); err != nil {
			t.Fatal(err)
		}
		jobs = append(jobs, job{rp: rp})
	} else {
		files, _ := filepath.Glob("../corpus/C10/*.json")
		if os.Getenv("VERIF_NO_CORPUS") != "" {
			files = nil
		}
		sort.Strings(files)
		for _, f := range files {
			var rp Replay
			if vgen.LoadReplay(f, &rp) == nil {
				jobs = append(jobs, job{rp: rp})
			}
		}
		for c := 0; c < e.N; c++ {
			kind := "seq"
			switch c % 10 {
			case 9:
				kind = "conc"
			case 4:
				kind = "legacy"
			case 2, 7:
				kind = "size" // sequential, with size-boundary submissions (goes to Coq like "seq")
			}
			if c%20 == 6 {
				kind = "long" // sequential, a long run whose acceptance counter passes a width boundary (goes to Coq like "seq")
			}
			jobs = append(jobs, job{rp: Replay{Kind: kind, Seed: e.Seed, Case: c}, gen: true})
		}
	}
	maxLen := 24
	if e.Tier == "thorough" {
		maxLen = 60
	}
	maxes := []int{0, 1, 2, 3, 3, 5, 8, 1000}
	sizeMaxes := []int{0, 1, 2, 2, 2, 3, 3, 4}
	if e.Out != "" {
		scratchDir = e.Out
	}
	var cases, defsAll []string
	keySamples := map[uint64]string{}
	distinct := map[string]bool{}
	shrunk := map[string]int{}
	ji := 0
	for _, j := range jobs {
		rp := j.rp
		if rp.Kind == "conc" {
			sig, what, stats := runConcurrent(rp.Seed, rp.Case)
			res.Evaluations++
			res.Count("case:concurrent")
			for k, v := range stats {
				res.Distribution[k] += v
			}
			if sig != "" {
				res.Violations = append(res.Violations, vgen.Violation{Signature: sig, What: what, Case: -1, Replay: rp})
			}
			continue
		}
		var pool [][][]byte
		if j.gen && rp.Kind == "size" {
			r := caseRng(rp.Seed, rp.Case)
			var nsmall int
			rp.Pool, nsmall = genBigPool(r)
			pool = poolFromHex(rp.Pool)
			rp.Max = sizeMaxes[r.Intn(len(sizeMaxes))]
			rp.History = genBigHistory(r, len(pool), nsmall, rp.Max)
			drawBudgets(rp.Seed, rp.Case, pool, rp.History)
		} else if j.gen && rp.Kind == "long" {
			r := caseRng(rp.Seed, rp.Case)
			pool = genPool(r)
			rp.Max = longMaxes[r.Intn(len(longMaxes))]
			rp.Pool = poolHex(pool)
			rp.History = genLongHistory(r, len(pool), rp.Max, e.Tier == "thorough")
			drawBudgets(rp.Seed, rp.Case, pool, rp.History)
		} else if j.gen {
			r := caseRng(rp.Seed, rp.Case)
			pool = genPool(r)
			rp.Max = maxes[r.Intn(len(maxes))]
			rp.Pool = poolHex(pool)
			rp.History = genHistory(r, len(pool), maxLen, rp.Max)
			if rp.Kind == "legacy" {
				for _, id := range r.Perm(len(pool))[:1+r.Intn(2)] {
					rp.Legacy = append(rp.Legacy, id+1)
				}
				if rp.Max > 0 && rp.Max < len(rp.Legacy) {
					rp.Max = len(rp.Legacy) // a store written under the same bound never holds more
				}
			}
			drawBudgets(rp.Seed, rp.Case, pool, rp.History)
		} else {
			pool = poolFromHex(rp.Pool)
		}
		if j.gen && rp.Kind != "size" && drawStore(rp.Seed, rp.Case) {
			rp.Store = "map"
		}
		if rp.Store != "" && rp.Store != "map" {
			t.Fatalf("replay names an unknown store %q", rp.Store)
		}
		if !validHist(rp.History, len(pool)) {
			t.Fatalf("replay refers to a batch outside its pool")
		}
		for _, id := range rp.Legacy {
			if id < 1 || id > len(pool) {
				t.Fatalf("replay refers to a legacy batch outside its pool")
			}
		}
		cr := runCase(pool, rp.Store, rp.Max, rp.History, rp.Legacy...)
		if cr.err != nil {
			t.Fatalf("harness error: %v", cr.err)
		}
		res.Evaluations++
		switch {
		case len(rp.Legacy) > 0:
			res.Count("case:sequential-on-legacy-store")
		case needsDisk(pool):
			res.Count("case:sequential-size-boundary")
			sizeStats(res, pool, rp.Max, rp.History, cr)
		case rp.Kind == "long":
			res.Count("case:sequential-long-run")
		default:
			res.Count("case:sequential")
		}
		res.Count(fmt.Sprintf("max:%d", rp.Max))
		switch {
		case rp.Store == "map":
			res.Count("store:in-memory-map-datastore(keeps-the-slice-it-is-given)")
		case needsDisk(pool):
			res.Count("store:badger-on-disk")
		default:
			res.Count("store:badger-in-memory")
		}
		for _, it := range rp.History {
			k := "item:" + it.T
			if it.T == "crash" {
				k += fmt.Sprintf(":%s:%d", it.Op, it.N)
			}
			res.Count(k)
			if it.Bad {
				res.Count("item:foreign-chain-id")
			}
			if it.MB > 0 {
				res.Count("item:next-with-byte-budget")
			}
			if it.T == "submit" && it.B <= 0 {
				res.Count("item:empty-submission")
			}
		}
		for _, o := range cr.outs {
			res.Count("result:" + o.kind)
		}
		if cr.orc != nil {
			if cr.orc.dupPend {
				res.Count("history:two-pending-equal-batches")
			}
			if cr.orc.unordRst {
				res.Count("history:restart-with-pending-not-in-hash-order")
			}
			if cr.orc.lowStart {
				res.Count("history:start-with-bound-below-pending")
			}
			if cr.orc.olderDiffRst {
				res.Count("history:start-with-an-older-pending-batch-differing-from-the-last-accepted")
				if rp.Store == "map" {
					res.Count("history:start-with-an-older-pending-batch-differing-from-the-last-accepted:on-map-datastore")
				}
			}
			if cr.orc.wideRst {
				res.Count("history:start-with-pending-acceptance-numbers-of-different-width")
			}
			for _, b := range []int{10, 16, 100, 256, 1000, 4096} {
				if cr.orc.maxIdx >= b {
					res.Count(fmt.Sprintf("history:acceptance-number-reached-%d", b))
				}
			}
			for k, v := range cr.orc.starts {
				res.Distribution[k] += v
			}
			if !cr.orc.dupPend && !cr.orc.unordRst {
				res.Count("history:neither-trigger")
			}
		}
		full := withClosing(rp.History)
		hc := histCoq(rp.Max, full)
		if len(rp.History) >= 3 && cr.orc != nil && cr.orc.accepted > 0 {
			dk := fmt.Sprintf("%d|%v|%s|%s", rp.Max, rp.Legacy, hc, rp.Store)
			if needsDisk(pool) {
				dk += fmt.Sprint(rp.Pool) // size-boundary cases: the transactions' sizes are part of the input
			}
			distinct[dk] = true
		}
		if cr.sig != "" {
			sig := cr.sig
			sh := rp.History
			if shrunk[sig] < 2 { // bin/check reports one replay per signature; shrinking the rest is wasted time
				shrunk[sig]++
				sh = shrinkHist(rp.History, 1500, func(h []Item) bool {
					x := runCase(pool, rp.Store, rp.Max, h, rp.Legacy...)
					return x.sig == sig
				})
			}
			srp := rp
			srp.History = sh
			srp.Note = "the harness appends the closing sequence next x (submits+1), restart, next"
			what := cr.what
			if x := runCase(pool, rp.Store, rp.Max, sh, rp.Legacy...); x.sig == sig {
				what = x.what
			}
			vc := ji
			if len(rp.Legacy) > 0 {
				vc = -1
			}
			res.Violations = append(res.Violations, vgen.Violation{Signature: sig, What: what, Case: vc, Replay: srp})
		}
		var outs []string
		for _, o := range cr.outs {
			outs = append(outs, o.coq())
		}
		if len(rp.Legacy) > 0 {
			continue // the model starts from an empty store: cases on a pre-repair store are oracle-only
		}
		mod := fmt.Sprintf("Module C%d.\nDefinition c : qcase := {| qc_max := %s; qc_hist := %s;\n qc_outs := %s;\n qc_image := %s;\n qc_log := %s;\n qc_starts := %s |}.\nEnd C%d.",
			ji, vgen.N(uint64(rp.Max)), hc, vgen.List(outs), vgen.List(cr.image), vgen.List(cr.log), vgen.List(cr.starts), ji)
		defsAll = append(defsAll, mod)
		for _, k := range cr.keys {
			noteKeySample(keySamples, k)
		}
		cases = append(cases, fmt.Sprintf("C%d.c", ji))
		res.Replays[fmt.Sprint(ji)] = rp
		if len(res.Samples) < 3 && len(rp.History) >= 6 && cr.orc != nil && cr.orc.accepted > 1 {
			res.Samples = append(res.Samples, map[string]interface{}{"max": rp.Max, "history": rp.History, "outputs_with_closing": outs})
		}
		ji++
	}
	res.Distinct = len(distinct)
	res.Rule = "THE DATASTORE: half of the small sequential cases (plain, long-run, pre-repair-store; drawn per case) run on the in-memory map datastore (dssync.MutexWrap(ds.NewMapDatastore()), which keeps the slice handed to Put - what the repository's in-memory nodes and tests use), the others on badger in memory, size-boundary cases on badger on disk (store:*); at EVERY process start of every sequential case the records of the live store are read back and decoded: the oracle requires them to be exactly the pending batches in acceptance order (process-start:*), and they are compared in Coq with the records the model's starting processes find (qc_starts, Model/QueueStarts.v); history:start-with-an-older-pending-batch-differing-from-the-last-accepted counts the cases in which a process start found a record written before the same process encoded a DIFFERENT batch; sequential cases: pool of 2-5 batches (incl. one-empty-transaction, [ab] vs [a,b] vs [b,a]) submitted as fresh copies so equal contents recur; bound of the first process from {0,1,2,3,5,8,1000 (NewSequencer)}; THE BOUND IS A PARAMETER OF EVERY PROCESS START: in three cases of four every restart / crash recovery draws the new process's bound (30% unchanged, else unlimited / larger than bound and pending / equal to the number pending / smaller than the number pending (20%) / 1 / one of the usual bounds), one case in four opens with a burst of 2-7 submissions followed by a restart (or crash) whose new bound is smaller than the number of batches pending; one size-boundary case in three draws every start's bound from {unchanged,0,1,2,3,4}; THE CONSUMER'S BYTE BUDGET: in half of the sequential cases (a quarter: 25% of the hand-out requests, a quarter: 70%) GetNextBatchRequest.MaxBytes is set - 1 byte, the first transaction / one byte under / exactly / one byte over / a random part of the payload of a pool batch, a usual blob limit, 2^40 - and passed to the real GetNextBatch and to the model (item:next-with-byte-budget); the oracle follows the queue at transaction level: a hand-out that is part of a submission is a symptom, and a graver one found later (the remainder lost or overtaken, e.g. after a restart) is reported as after-partial-hand-out:*; LONG RUNS: every 20th case submits until the number of batches accepted since the store was last empty passes 10, 16 (six in ten), 100 or 256 (thorough: also 1000, 4096), keeping 0..11 batches pending on the way (bound from {0,1000,3,5,8,12}; one in four with a restart on the way), leaves 1-4 batches accepted below and 1-4 accepted at / above that number pending, then restarts (or dies inside a submit / next, one in three with a new bound) and goes on for 0..7 items (history:acceptance-number-reached-*, start:pending-acceptance-numbers-of-different-width are measured by the oracle's own count); the first 18 bytes of the real record keys are compared in Coq with Model/QueueKeys.v's key strings, one sample per distinct sequence number; the distribution entries start:* are measured against the oracle's pending count at each start; histories of 1..maxLen items over submit (8% foreign chain id, 14% nil/empty), next, restart (0-24% per case), crash inside submit/next with 0..2 writes surviving; every history is closed by next x (submits+1), restart, next; every 10th case = 2-5 concurrent submitters + one concurrent consumer (oracle only; every fourth of them with LARGE submissions of 2-3 transactions, 1.2-3.3 MB, bound from {0,2,3}, on the on-disk store); two cases in ten are size-boundary cases on the on-disk badger store: pool = 1-2 one-transaction batches + 1-2 LARGE batches (payload k*L+d, L from {1_500_000, 1 MiB, 2_000_000, 2 MiB, 1_000_000, random}, k 1..3, d from {-1, 0, +1, a few KB under / over, a quarter to three quarters of L over}; 2..5 transactions: equal parts, random cuts, one huge first / last, each just over L/2), bound from {0,1,2,3,4}, history = fill the queue so that 1..3 slots are free (or 0..2 small submissions), a large submission (30%: cut by a crash after 0..5 of its datastore writes), an aftermath (restart / next+restart / crash inside next / another large submission) and 0..6 random items; a rejected submission must leave the datastore image unchanged (oracle), a batch handed out must be a whole submission (oracle); every 10th case runs on a store pre-seeded with 1-2 records under the pre-repair bare-hash keys (oracle only: they must be handed out first, exactly once, and be deleted); non-trivial = at least 3 items and one accepted batch; distinct = distinct (first bound, keys, history with the bounds of its process starts) terms"
	res.Cases = len(cases)
	header := "From Coq Require Import NArith List Bool.\nFrom Verif Require Import Model.Queue Model.QueueBudget Model.QueueStarts Check.QueueCheck."
	path := filepath.Join(e.Out, "cases_C10.v")
	var sqs []uint64
	for sq := range keySamples {
		sqs = append(sqs, sq)
	}
	sort.Slice(sqs, func(i, j int) bool { return sqs[i] < sqs[j] })
	var samples []string
	for _, sq := range sqs {
		samples = append(samples, keySamples[sq])
	}
	res.Distribution["keys:distinct-sequence-numbers-compared-as-strings"] = len(samples)
	if err := writeCases(path, header, defsAll, cases, samples); err != nil {
		t.Fatal(err)
	}
	res.CaseFiles = []string{path}
	if err := res.Write(e.Out); err != nil {
		t.Fatal(err)
	}
}

// like vgen.WriteCases, without opening string_scope (the model has no strings)
func writeCases(path, header string, defs, cases, keySamples []string) error {
	var sb strings.Builder
	sb.WriteString(header)
	sb.WriteString("\nImport ListNotations.\nOpen Scope list_scope.\n")
	for _, d := range defs {
		sb.WriteString(d)
		sb.WriteString("\n")
	}
	const chunk = 50
	var names []string
	for i := 0; i < len(cases); i += chunk {
		j := i + chunk
		if j > len(cases) {
			j = len(cases)
		}
		name := fmt.Sprintf("cases_%d", i/chunk)
		names = append(names, name)
		sb.WriteString(fmt.Sprintf("Definition %s : list qcase := [\n  %s\n].\n", name, strings.Join(cases[i:j], ";\n  ")))
	}
	all := "[]"
	if len(names) > 0 {
		all = strings.Join(names, " ++ ")
	}
	sb.WriteString("Definition cases : list qcase := " + all + ".\n")
	sb.WriteString("Definition key_samples : list (N * list N) := [\n  " + strings.Join(keySamples, ";\n  ") + "\n].\n")
	sb.WriteString("Definition M := Eval vm_compute in mismatches cases ++ key_mismatches key_samples.\nPrint M.\n")
	sb.WriteString("Lemma cases_agree : M = [].\nProof. reflexivity. Qed.\n")
	return os.WriteFile(path, []byte(sb.String()), 0o644)
}
