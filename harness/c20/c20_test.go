// C20 correspondence harness: the REAL sequencers/based.Sequencer on a key-ordered map datastore with a
// scripted DA double (the only double).  A history is a list of GetNextBatch calls (each with its size
// limit, the DA tip during the call, a retrieval error script, the LastBatchData policy and the kind of
// request: ordinary, under a cancelled context, with a foreign chain id, with a LastBatchData whose last id
// cannot name a DA height) and restarts (a new NewSequencer on the same datastore).  After each call the harness projects: the response
// (transaction identities = (DA height, position) read from BatchData, timestamp as DA height), the DA
// heights the call retrieved, the persisted scan position, the in-memory and the persisted carry-over queue.
// Writes cases_C20.v (for Model/Based.v through Check/BasedCheck.v) and result.json (Go oracle).
package c20

import (
	"bytes"
	"context"
	"encoding/binary"
	"encoding/json"
	"errors"
	"fmt"
	"math/rand"
	"os"
	"path/filepath"
	"sort"
	"strings"
	"testing"
	"time"

	ds "github.com/ipfs/go-datastore"
	dssync "github.com/ipfs/go-datastore/sync"
	logging "github.com/ipfs/go-log/v2"

	coreda "github.com/evstack/ev-node/core/da"
	coresequencer "github.com/evstack/ev-node/core/sequencer"
	"github.com/evstack/ev-node/sequencers/based"

	"verif/harness/vgen"
)

// ---- histories -------------------------------------------------------------------------------

type Call struct {
	Max  uint64 `json:"max"`            // requested MaxBytes (0 = the sequencer's default)
	Tip  uint64 `json:"tip"`            // DA heights > tip are "from the future" during this call
	Errs []int  `json:"errs,omitempty"` // k-th retrieval of this call: 0 ok, 1 GetIDs fails, 2 Get fails, 3 an empty height is reported as ErrBlobNotFound (else: empty ID list)
	Lbd  string `json:"lbd,omitempty"`  // "" = what the block manager passes (BatchData of the last non-empty batch), "none", "raw", "short"
	LbdH uint64 `json:"lbdh,omitempty"` // raw: a forged LastBatchData naming this height
	Req  string `json:"req,omitempty"`  // "" = ordinary, "cancelled" = the context is already cancelled, "foreign" = another chain's id
	V    int    `json:"v,omitempty"`    // which malformed LastBatchData / which foreign id (shortLBD, foreignID)
}

// unusable: GetNextBatch cannot use the request (foreign chain id; LastBatchData whose last id has <= 8 bytes)
func (c *Call) unusable() bool { return c.Req == "foreign" || c.Lbd == "short" }

// a LastBatchData whose LAST id cannot name a DA height (coreda.SplitID needs more than 8 bytes)
func shortLBD(v int, mgr [][]byte) [][]byte {
	switch v % 5 {
	case 0:
		return [][]byte{[]byte("short")}
	case 1:
		return [][]byte{{}} // the empty id
	case 2: // what the manager kept, followed by an id of exactly 8 bytes (a height without a commitment)
		out := append([][]byte{}, mgr...)
		return append(out, []byte{3, 0, 0, 0, 0, 0, 0, 0})
	case 3:
		return [][]byte{mkID(2, 0), nil}
	default:
		return [][]byte{mkID(1, 0), mkID(1, 1), {7}}
	}
}

func foreignID(v int) []byte {
	switch v % 3 {
	case 0:
		return []byte("c21")
	case 1:
		return nil
	default:
		return []byte("c20x")
	}
}
type Item struct {
	T    string `json:"t"` // call | restart
	Call *Call  `json:"call,omitempty"`
}
type DAH struct {
	H     uint64 `json:"h"`
	Sizes []int  `json:"sizes"`
}
type Replay struct {
	Seed    int64  `json:"seed"`
	Case    int    `json:"case"`
	Start   uint64 `json:"start"`
	Drift   uint64 `json:"drift"`
	DA      []DAH  `json:"da"`
	History []Item `json:"history"`
	Drain   bool   `json:"drain"` // append the deterministic drain calls and require that every transaction was released
}

const defaultMax = 1_500_000

func effMax(m uint64) uint64 {
	if m == 0 {
		return defaultMax
	}
	return m
}

func (rp *Replay) hasRaw() bool {
	for _, it := range rp.History {
		if it.Call != nil && it.Call.Lbd == "raw" {
			return true
		}
	}
	return false
}

func (rp *Replay) maxH() uint64 {
	var m uint64
	for _, d := range rp.DA {
		if d.H > m {
			m = d.H
		}
	}
	return m
}

// full history = the history, then (Drain) enough unrestricted error-free calls to scan every height
func (rp *Replay) full() []Item {
	h := append([]Item{}, rp.History...)
	if !rp.Drain {
		return h
	}
	mh := rp.maxH()
	n := 2
	if mh >= rp.Start {
		n = int((mh-rp.Start+1)/(rp.Drift+1)) + 3
	}
	for i := 0; i < n; i++ {
		h = append(h, Item{T: "call", Call: &Call{Max: 0, Tip: mh + 1}})
	}
	return h
}

func genReplay(r *rand.Rand, seed int64, c int, maxCalls int) Replay {
	rp := Replay{Seed: seed, Case: c, Drain: r.Intn(10) < 7}
	rp.Start = []uint64{0, 1, 1, 2, 3, 5}[r.Intn(6)]
	rp.Drift = []uint64{0, 1, 1, 2, 2, 3}[r.Intn(6)]
	lo := rp.Start
	if lo > 0 && r.Intn(3) == 0 {
		lo-- // a height below the start height: must never be released
	}
	nh := 3 + r.Intn(8)
	for h := lo; h < lo+uint64(nh); h++ {
		if r.Intn(100) < 35 {
			continue // empty height
		}
		nt := 1 + r.Intn(4)
		var sz []int
		for i := 0; i < nt; i++ {
			sz = append(sz, 1+r.Intn(6))
		}
		rp.DA = append(rp.DA, DAH{H: h, Sizes: sz})
	}
	maxes := []uint64{1, 2, 3, 4, 5, 6, 7, 8, 10, 12, 15, 0, 1000}
	constMax := r.Intn(2) == 0
	cm := maxes[r.Intn(len(maxes))]
	rawCase := r.Intn(10) == 0
	tip := rp.Start + uint64(r.Intn(4))
	if tip > 0 && r.Intn(4) == 0 {
		tip--
	}
	// half of the cases also contain requests that cannot be used (foreign chain id, malformed LastBatchData)
	// and calls under a cancelled context: anywhere between the ordinary calls, so also right after a call that
	// left a carry-over, right before and right after a restart, before the first and after the last call
	special := r.Intn(2) == 0
	unusableCall := func(max, tip uint64) Item {
		cl := &Call{Max: max, Tip: tip, V: r.Intn(15)}
		if r.Intn(10) < 6 {
			cl.Lbd = "short"
			if r.Intn(6) == 0 {
				cl.Req = "cancelled" // still refused before anything is touched
			}
		} else {
			cl.Req = "foreign"
			switch r.Intn(4) {
			case 0:
				cl.Lbd = "none"
			case 1:
				cl.Lbd = "short" // the chain id is looked at first
			}
		}
		return Item{T: "call", Call: cl}
	}
	ncalls := 3 + r.Intn(maxCalls)
	for i := 0; i < ncalls; i++ {
		restart := i > 0 && r.Intn(5) == 0
		mx := cm
		if !constMax {
			mx = maxes[r.Intn(len(maxes))]
		}
		if special && restart && r.Intn(4) == 0 {
			rp.History = append(rp.History, unusableCall(mx, tip)) // last call of the old process
		}
		if restart {
			rp.History = append(rp.History, Item{T: "restart"})
		}
		if special && r.Intn(5) == 0 {
			rp.History = append(rp.History, unusableCall(mx, tip))
			if r.Intn(4) == 0 {
				rp.History = append(rp.History, unusableCall(mx, tip))
			}
		}
		cl := &Call{Max: mx, Tip: tip}
		if special && r.Intn(7) == 0 {
			cl.Req = "cancelled"
		}
		if r.Intn(4) == 0 {
			n := 1 + r.Intn(int(rp.Drift)+1)
			for k := 0; k < n; k++ {
				cl.Errs = append(cl.Errs, []int{0, 0, 1, 2, 3, 3}[r.Intn(6)])
			}
		}
		switch x := r.Intn(100); {
		case x < 8:
			cl.Lbd = "none"
		case x < 20 && rawCase:
			cl.Lbd = "raw"
			cl.LbdH = rp.Start + uint64(r.Intn(nh+2))
		}
		rp.History = append(rp.History, Item{T: "call", Call: cl})
		tip += uint64([]int{0, 0, 1, 1, 2, 3}[r.Intn(6)])
	}
	if special && r.Intn(6) == 0 {
		rp.History = append(rp.History, unusableCall(cm, tip))
	}
	return rp
}

// ---- the DA double (the only double) -----------------------------------------------------------

var t0 = time.Unix(1_700_000_000, 0).UTC()

type txid struct{ h, i uint64 }

func txBytes(h, i uint64, size int) []byte {
	b := make([]byte, size)
	for k := range b {
		b[k] = byte(h*31 + i*7 + uint64(k)*3 + 1)
	}
	return b
}
func mkID(h, i uint64) []byte {
	id := make([]byte, 10)
	binary.LittleEndian.PutUint64(id, h)
	binary.BigEndian.PutUint16(id[8:], uint16(i))
	return id
}
func splitID(id []byte) (txid, bool) {
	if len(id) != 10 {
		return txid{}, false
	}
	return txid{binary.LittleEndian.Uint64(id), uint64(binary.BigEndian.Uint16(id[8:]))}, true
}

type scriptDA struct {
	sizes  map[uint64][]int
	tip    uint64
	errs   []int
	k      int
	getErr bool
	log    []uint64        // heights retrieved during the current call
	future map[uint64]bool // heights that were asked for while still in the future (oracle classification)
}

func (d *scriptDA) GetIDs(ctx context.Context, height uint64, ns []byte) (*coreda.GetIDsResult, error) {
	code := 0
	if d.k < len(d.errs) {
		code = d.errs[d.k]
	}
	d.k++
	d.log = append(d.log, height)
	d.getErr = false
	if err := ctx.Err(); err != nil { // a DA client does not answer a cancelled request
		return nil, err
	}
	if code == 1 {
		return nil, errors.New("scripted GetIDs failure")
	}
	if height > d.tip {
		d.future[height] = true
		return nil, fmt.Errorf("%w: requested %d, current %d", coreda.ErrHeightFromFuture, height, d.tip)
	}
	sz := d.sizes[height]
	if len(sz) == 0 {
		if code == 3 {
			return nil, coreda.ErrBlobNotFound
		}
		return &coreda.GetIDsResult{IDs: []coreda.ID{}, Timestamp: time.Now()}, nil
	}
	d.getErr = code == 2
	ids := make([]coreda.ID, len(sz))
	for i := range sz {
		ids[i] = mkID(height, uint64(i))
	}
	return &coreda.GetIDsResult{IDs: ids, Timestamp: t0.Add(time.Duration(height) * time.Second)}, nil
}
func (d *scriptDA) Get(ctx context.Context, ids []coreda.ID, ns []byte) ([]coreda.Blob, error) {
	if err := ctx.Err(); err != nil {
		return nil, err
	}
	if d.getErr {
		return nil, errors.New("scripted Get failure")
	}
	out := make([]coreda.Blob, len(ids))
	for k, id := range ids {
		t, ok := splitID(id)
		if !ok || int(t.i) >= len(d.sizes[t.h]) {
			return nil, coreda.ErrBlobNotFound
		}
		out[k] = txBytes(t.h, t.i, d.sizes[t.h][t.i])
	}
	return out, nil
}
func (d *scriptDA) GetProofs(ctx context.Context, ids []coreda.ID, ns []byte) ([]coreda.Proof, error) {
	return nil, errors.New("unused")
}
func (d *scriptDA) Commit(ctx context.Context, blobs []coreda.Blob, ns []byte) ([]coreda.Commitment, error) {
	return nil, errors.New("unused")
}
func (d *scriptDA) Submit(ctx context.Context, blobs []coreda.Blob, gp float64, ns []byte) ([]coreda.ID, error) {
	return nil, errors.New("unused")
}
func (d *scriptDA) SubmitWithOptions(ctx context.Context, blobs []coreda.Blob, gp float64, ns []byte, o []byte) ([]coreda.ID, error) {
	return nil, errors.New("unused")
}
func (d *scriptDA) Validate(ctx context.Context, ids []coreda.ID, proofs []coreda.Proof, ns []byte) ([]bool, error) {
	return nil, errors.New("unused")
}
func (d *scriptDA) GasPrice(ctx context.Context) (float64, error)      { return 1, nil }
func (d *scriptDA) GasMultiplier(ctx context.Context) (float64, error) { return 1, nil }

// ---- projections -------------------------------------------------------------------------------

type qent struct {
	txs []txid
	ts  int64 // DA height of the entry's timestamp, -1 if it is no DA timestamp
}
type obs struct {
	failed  bool // GetNextBatch returned an error
	errk    int  // its class: 1 = ErrInvalidId, 3 = the context's error, 2 = any other
	nilResp bool
	txs     []txid
	ts      int64
	log     []uint64
	scanned int64 // -1 = key absent, -2 = undecodable
	memq    []qent
	durq    []qent
}

func tsTag(t time.Time) int64 {
	d := t.Unix() - t0.Unix()
	if d < 0 || d > 1_000_000 || t.Nanosecond() != 0 {
		return -1
	}
	return d
}

func projQueue(l []based.TxsWithTimestamp) []qent {
	var out []qent
	for _, e := range l {
		q := qent{ts: tsTag(e.Timestamp)}
		for _, id := range e.IDs {
			t, ok := splitID(id)
			if !ok {
				t = txid{999999, 999999}
			}
			q.txs = append(q.txs, t)
		}
		if len(e.Txs) != len(e.IDs) {
			q.txs = append(q.txs, txid{999998, 999998})
		}
		out = append(out, q)
	}
	return out
}

func qentsEq(a, b []qent) bool {
	if len(a) != len(b) {
		return false
	}
	for i := range a {
		if a[i].ts != b[i].ts || len(a[i].txs) != len(b[i].txs) {
			return false
		}
		for k := range a[i].txs {
			if a[i].txs[k] != b[i].txs[k] {
				return false
			}
		}
	}
	return true
}

func coqIDs(l []txid) string {
	parts := make([]string, len(l))
	for i, t := range l {
		parts[i] = fmt.Sprintf("(%d,%d)", t.h, t.i)
	}
	return "[" + strings.Join(parts, ";") + "]"
}
func coqNs(l []uint64) string {
	parts := make([]string, len(l))
	for i, t := range l {
		parts[i] = fmt.Sprint(t)
	}
	return "[" + strings.Join(parts, ";") + "]"
}
func coqOptN(v int64) string {
	if v < 0 {
		return "None"
	}
	return fmt.Sprintf("(Some %d)", v)
}
func coqQ(q []qent) string {
	parts := make([]string, len(q))
	for i, e := range q {
		parts[i] = fmt.Sprintf("(%s,%s)", coqIDs(e.txs), coqOptN(e.ts))
	}
	return "[" + strings.Join(parts, ";") + "]"
}
func (o obs) coq() string {
	resp := "RNone"
	if o.failed {
		resp = fmt.Sprintf("(RFail %d)", o.errk)
	} else if !o.nilResp {
		resp = fmt.Sprintf("(RBatch %s %s)", coqIDs(o.txs), coqOptN(o.ts))
	}
	sc := coqOptN(o.scanned)
	if o.scanned == -2 {
		sc = "(Some 99999999)"
	}
	if qentsEq(o.memq, o.durq) {
		return fmt.Sprintf("mkobs %s %s %s %s", resp, coqNs(o.log), sc, coqQ(o.durq))
	}
	return fmt.Sprintf("mkobs2 %s %s %s %s %s", resp, coqNs(o.log), sc, coqQ(o.memq), coqQ(o.durq))
}

// ---- running the real sequencer + the oracle -------------------------------------------------------

type caseResult struct {
	obs  []obs
	viol []string
	what []string
	stat map[string]int
	err  error
}

func (c *caseResult) fail(sig, what string) {
	for _, s := range c.viol {
		if s == sig {
			return
		}
	}
	c.viol = append(c.viol, sig)
	c.what = append(c.what, what)
}

var chainID = []byte("c20")
var logger = logging.Logger("c20")

func runCase(rp *Replay, withRestarts bool, oracle bool) (res *caseResult) {
	res = &caseResult{stat: map[string]int{}}
	defer func() {
		if x := recover(); x != nil {
			res.fail("panic", fmt.Sprint(x))
		}
	}()
	ctx := context.Background()
	store := dssync.MutexWrap(ds.NewMapDatastore())
	da := &scriptDA{sizes: map[uint64][]int{}, future: map[uint64]bool{}}
	for _, d := range rp.DA {
		da.sizes[d.H] = d.Sizes
	}
	seq, err := based.NewSequencer(logger, da, chainID, rp.Start, rp.Drift, store)
	if err != nil {
		res.err = err
		return
	}
	// the DA contents in DA order, from the start height on: what must be released, in this order
	var stream []txid
	hs := make([]uint64, 0, len(da.sizes))
	for h := range da.sizes {
		hs = append(hs, h)
	}
	sort.Slice(hs, func(i, j int) bool { return hs[i] < hs[j] })
	for _, h := range hs {
		if h < rp.Start {
			continue
		}
		for i := range da.sizes[h] {
			stream = append(stream, txid{h, uint64(i)})
		}
	}
	released := map[txid]int{}
	everQueued := map[txid]bool{} // seen in the carry-over queue after some call
	nextIdx := 0 // first stream element not yet released
	raw := rp.hasRaw()
	var mgrLBD [][]byte // what block.Manager.retrieveBatch keeps: BatchData of the last non-nil response
	var prevQ []qent    // the stored queue after the previous call
	var prevMem []qent  // the queue in the memory of the running process before this call
	justRestarted := false
	cancelled, cancel := context.WithCancel(context.Background())
	cancel()

	items := rp.full()
	for ii, it := range items {
		if it.T == "restart" {
			if withRestarts {
				seq, err = based.NewSequencer(logger, da, chainID, rp.Start, rp.Drift, store)
				if err != nil {
					res.fail("restart-failed", err.Error())
					return
				}
				prevMem = prevQ // the new process starts from the stored queue
			}
			justRestarted = true
			continue
		}
		cl := it.Call
		da.tip, da.errs, da.k, da.log, da.getErr = cl.Tip, cl.Errs, 0, nil, false
		req := coresequencer.GetNextBatchRequest{Id: chainID, MaxBytes: cl.Max}
		switch cl.Lbd {
		case "":
			req.LastBatchData = mgrLBD
		case "raw":
			req.LastBatchData = [][]byte{mkID(cl.LbdH, 0)}
		case "short":
			req.LastBatchData = shortLBD(cl.V, mgrLBD)
		}
		cctx := ctx
		switch cl.Req {
		case "cancelled":
			cctx = cancelled
		case "foreign":
			req.Id = foreignID(cl.V)
		}
		kind := "ordinary"
		if cl.unusable() {
			kind = "unusable"
		} else if cl.Req == "cancelled" {
			kind = "cancelled"
		}
		resp, err := seq.GetNextBatch(cctx, req)
		o := obs{log: da.log, ts: -1}
		switch {
		case err != nil:
			o.failed = true
			switch {
			case errors.Is(err, based.ErrInvalidId):
				o.errk = 1
			case errors.Is(err, context.Canceled):
				o.errk = 3
			default:
				o.errk = 2
			}
			// an error is what a request that cannot be used is answered with; a call under a cancelled context
			// may report the context's error (the pinned code does not) — whether anything was lost by it is
			// judged below; an ordinary call must not fail
			if kind == "ordinary" {
				res.fail("call-failed", "GetNextBatch returned an error: "+err.Error())
			}
		case resp == nil:
			o.nilResp = true
		default:
			mgrLBD = resp.BatchData
			o.ts = tsTag(resp.Timestamp)
			if resp.Batch == nil || len(resp.Batch.Transactions) != len(resp.BatchData) {
				res.fail("ids-txs-mismatch", "response with different numbers of transactions and ids")
				o.txs = append(o.txs, txid{999998, 999998})
			} else {
				for k, id := range resp.BatchData {
					t, ok := splitID(id)
					if !ok || int(t.i) >= len(da.sizes[t.h]) {
						res.fail("unknown-id", fmt.Sprintf("released id %x is not on the DA layer", id))
						t = txid{999999, 999999}
					} else if !bytes.Equal(resp.Batch.Transactions[k], txBytes(t.h, t.i, da.sizes[t.h][t.i])) {
						res.fail("tx-bytes-differ", fmt.Sprintf("released bytes of (%d,%d) differ from the DA layer's", t.h, t.i))
					}
					o.txs = append(o.txs, t)
				}
			}
		}
		// persisted state, read from the datastore itself
		o.scanned = -1
		if b, e := store.Get(ctx, ds.NewKey(based.VerifC20ScannedKey())); e == nil {
			var v uint64
			if json.Unmarshal(b, &v) == nil {
				o.scanned = int64(v)
			} else {
				o.scanned = -2
			}
		}
		if b, e := store.Get(ctx, ds.NewKey(based.VerifC20PendingKey())); e == nil {
			var l []based.TxsWithTimestamp
			if json.Unmarshal(b, &l) == nil {
				o.durq = projQueue(l)
			} else {
				o.durq = []qent{{txs: []txid{{999997, 999997}}, ts: -1}}
			}
		}
		o.memq = projQueue(based.VerifC20MemQueue(seq))
		res.obs = append(res.obs, o)

		// statistics of what the history exercised
		if len(o.durq) > 0 {
			res.stat["call:leaves-carry-over"]++
		}
		if len(prevQ) > 0 {
			res.stat["call:starts-with-carry-over"]++
		}
		if kind != "ordinary" {
			res.stat["call:"+kind]++
			if cl.Lbd == "short" {
				res.stat[fmt.Sprintf("call:malformed-LastBatchData-variant-%d", cl.V%5)]++
			}
			if len(prevQ) > 0 {
				res.stat["call:"+kind+"-with-carry-over-waiting"]++
			}
			if justRestarted {
				res.stat["call:"+kind+"-right-after-restart"]++
			}
			if ii+1 < len(items) && items[ii+1].T == "restart" {
				res.stat["call:"+kind+"-right-before-restart"]++
			}
			if o.failed {
				res.stat["call:"+kind+"-answered-with-error"]++
			}
		}
		justRestarted = false
		if !o.nilResp && !o.failed {
			res.stat["call:non-empty-batch"]++
		} else {
			res.stat["call:no-batch"]++
		}
		for _, h := range o.log {
			if h > cl.Tip {
				res.stat["retrieval:future-height"]++
			}
		}

		if oracle {
			// (1) size bound — for every history
			var sum uint64
			for _, t := range o.txs {
				if int(t.i) < len(da.sizes[t.h]) {
					sum += uint64(da.sizes[t.h][t.i])
				}
			}
			if sum > effMax(cl.Max) {
				res.fail("batch-over-limit", fmt.Sprintf("batch of %d bytes for a limit of %d", sum, effMax(cl.Max)))
			}
			// (2) the transaction that did not fit comes first in the next batch — for every history
			if len(prevQ) > 0 && len(prevQ[0].txs) > 0 && len(o.txs) > 0 && o.txs[0] != prevQ[0].txs[0] {
				res.fail("carry-over-not-first", fmt.Sprintf("carry-over head %v but the batch starts with %v", prevQ[0].txs[0], o.txs[0]))
			}
			// (2b) a transaction that did not fit is never dropped: whatever was queued before the call is in the
			// batch or still queued after it, in memory and in the datastore — for every history and every kind of
			// call (a request that cannot be used, a cancelled context included)
			for vi, before := range [][]qent{prevMem, prevQ} {
				after, view := o.memq, "in memory"
				if vi == 1 {
					after, view = o.durq, "in the datastore"
				}
				for _, e := range before {
					for _, x := range e.txs {
						if !hasTx(o.txs, x) && !inQueue(after, x) {
							sig := "carry-over-dropped"
							switch kind {
							case "unusable":
								sig = "unusable-request-consumes-carry-over"
							case "cancelled":
								sig = "cancelled-call-consumes-carry-over"
							}
							res.fail(sig, fmt.Sprintf("%v was queued %s before call %d (%s request) and is afterwards neither in its batch nor in that queue", x, view, len(res.obs)-1, kind))
						}
					}
				}
			}
			// (3) DA order, exactly once — histories in which LastBatchData is what the manager passes
			if !raw {
				for _, t := range o.txs {
					if released[t] > 0 {
						res.fail("tx-released-twice", fmt.Sprintf("transaction %v released again (call %d)", t, len(res.obs)-1))
					} else if nextIdx < len(stream) && t != stream[nextIdx] {
						exp := stream[nextIdx]
						inCarry := false
						for _, e := range o.durq {
							for _, x := range e.txs {
								if x == exp {
									inCarry = true
								}
							}
						}
						switch {
						case inCarry:
							res.fail("carry-over-overtaken", fmt.Sprintf("%v released while the earlier %v is still in the carry-over queue", t, exp))
						case da.future[exp.h] && !everQueued[exp]:
							res.fail("future-height-stepped-over", fmt.Sprintf("%v released but %v (height %d was stepped over while in the future) never was", t, exp, exp.h))
						default:
							res.fail("tx-skipped-or-reordered", fmt.Sprintf("%v released, expected %v", t, exp))
						}
					} else if nextIdx >= len(stream) {
						res.fail("tx-not-from-da-stream", fmt.Sprintf("%v released: below the start height or unknown", t))
					}
					released[t]++
					for nextIdx < len(stream) && released[stream[nextIdx]] > 0 {
						nextIdx++
					}
				}
			}
		}
		prevQ = o.durq
		prevMem = o.memq
		for _, q := range [][]qent{o.durq, o.memq} {
			for _, e := range q {
				for _, x := range e.txs {
					everQueued[x] = true
				}
			}
		}
	}
	if oracle && rp.Drain && !raw {
		for _, t := range stream {
			if released[t] == 0 {
				if da.future[t.h] && !everQueued[t] {
					res.fail("future-height-stepped-over", fmt.Sprintf("%v never released: height %d was stepped over while in the future", t, t.h))
				} else {
					res.fail("tx-never-released", fmt.Sprintf("%v never released although every height was scanned without limit", t))
				}
				break
			}
		}
	}
	return
}

func hasTx(l []txid, x txid) bool {
	for _, t := range l {
		if t == x {
			return true
		}
	}
	return false
}
func inQueue(q []qent, x txid) bool {
	for _, e := range q {
		if hasTx(e.txs, x) {
			return true
		}
	}
	return false
}

func respSeq(c *caseResult) string {
	var sb strings.Builder
	for _, o := range c.obs {
		sb.WriteString(fmt.Sprintf("%v%v%v|", o.failed, o.nilResp, o.txs))
	}
	return sb.String()
}

// evaluate = run with restarts (observations + oracle), and once more without them: the sequence
// of responses must be the same (restart safety, judged on the implementation alone)
func evaluate(rp *Replay) *caseResult {
	cr := runCase(rp, true, true)
	if cr.err != nil {
		return cr
	}
	hasRestart := false
	for _, it := range rp.History {
		if it.T == "restart" {
			hasRestart = true
		}
	}
	if hasRestart {
		nr := runCase(rp, false, false)
		if nr.err == nil && respSeq(nr) != respSeq(cr) {
			cr.fail("restart-changes-sequence", "the responses differ from those of the same history without restarts")
		}
	}
	return cr
}

func hasSig(c *caseResult, sig string) bool {
	for _, s := range c.viol {
		if s == sig {
			return true
		}
	}
	return false
}

func shrink(rp Replay, sig string) Replay {
	cur := rp
	fails := func(c Replay) bool { return hasSig(evaluate(&c), sig) }
	cur.History = vgen.Shrink(cur.History, func(h []Item) bool {
		c := cur
		c.History = h
		return fails(c)
	})
	// drop whole heights, then single transactions
	cur.DA = vgen.Shrink(cur.DA, func(d []DAH) bool {
		c := cur
		c.DA = d
		return fails(c)
	})
	for hi := 0; hi < len(cur.DA); hi++ {
		sz := vgen.Shrink(cur.DA[hi].Sizes, func(s []int) bool {
			if len(s) == 0 {
				return false
			}
			c := cur
			c.DA = append([]DAH{}, cur.DA...)
			c.DA[hi] = DAH{H: cur.DA[hi].H, Sizes: s}
			return fails(c)
		})
		nd := append([]DAH{}, cur.DA...)
		nd[hi] = DAH{H: cur.DA[hi].H, Sizes: sz}
		cur.DA = nd
	}
	// drop error scripts
	for i := range cur.History {
		if cur.History[i].Call != nil && len(cur.History[i].Call.Errs) > 0 {
			c := cur
			c.History = append([]Item{}, cur.History...)
			nc := *cur.History[i].Call
			nc.Errs = nil
			c.History[i] = Item{T: "call", Call: &nc}
			if fails(c) {
				cur = c
			}
		}
	}
	if cur.Drain {
		c := cur
		c.Drain = false
		if fails(c) {
			cur = c
		}
	}
	return cur
}

// ---- Coq terms ---------------------------------------------------------------------------------------

func histCoq(h []Item) string {
	var items []string
	for _, it := range h {
		if it.T == "restart" {
			items = append(items, "IRestart")
			continue
		}
		c := it.Call
		lbd := "LMgr"
		switch c.Lbd {
		case "none":
			lbd = "LNone"
		case "raw":
			lbd = fmt.Sprintf("(LRaw %d)", c.LbdH)
		case "short":
			lbd = "LShort"
		}
		errs := make([]uint64, len(c.Errs))
		for i, e := range c.Errs {
			errs[i] = uint64(e)
		}
		switch c.Req {
		case "cancelled":
			items = append(items, fmt.Sprintf("ICall (mkcallq %d %d %s %s QCancelled)", c.Max, c.Tip, coqNs(errs), lbd))
		case "foreign":
			items = append(items, fmt.Sprintf("ICall (mkcallq %d %d %s %s QForeignId)", c.Max, c.Tip, coqNs(errs), lbd))
		default:
			items = append(items, fmt.Sprintf("ICall (mkcall %d %d %s %s)", c.Max, c.Tip, coqNs(errs), lbd))
		}
	}
	return "[" + strings.Join(items, "; ") + "]"
}

func daCoq(d []DAH) string {
	var parts []string
	for _, x := range d {
		sz := make([]uint64, len(x.Sizes))
		for i, s := range x.Sizes {
			sz[i] = uint64(s)
		}
		parts = append(parts, fmt.Sprintf("(%d,%s)", x.H, coqNs(sz)))
	}
	return "[" + strings.Join(parts, ";") + "]"
}

func caseRng(seed int64, c int) *rand.Rand { return rand.New(rand.NewSource(seed*1000003 + int64(c))) }

func TestVerif(t *testing.T) {
	_ = logging.SetLogLevel("c20", "FATAL")
	e := vgen.GetEnv()
	res := vgen.NewResult("C20", e)
	var jobs []Replay
	if e.Replay != "" {
		var rp Replay
		if err := vgen.LoadReplay(e.Replay, &rp); err != nil {
			t.Fatal(err)
		}
		jobs = append(jobs, rp)
	} else {
		files, _ := filepath.Glob("../corpus/C20/*.json")
		if os.Getenv("VERIF_NO_CORPUS") != "" {
			files = nil
		}
		for _, f := range files {
			var rp Replay
			if vgen.LoadReplay(f, &rp) == nil {
				jobs = append(jobs, rp)
			}
		}
		maxCalls := 8
		if e.Tier == "thorough" {
			maxCalls = 20
		}
		for c := 0; c < e.N; c++ {
			jobs = append(jobs, genReplay(caseRng(e.Seed, c), e.Seed, c, maxCalls))
		}
	}
	var cases, defs []string
	defs = append(defs, "Open Scope N_scope.")
	distinct := map[string]bool{}
	for ji := range jobs {
		rp := jobs[ji]
		cr := evaluate(&rp)
		if cr.err != nil {
			t.Fatalf("harness error: %v", cr.err)
		}
		res.Evaluations++
		ncalls, nrest := 0, 0
		for _, it := range rp.History {
			res.Count("item:" + it.T)
			if it.Call != nil {
				ncalls++
				lb := it.Call.Lbd
				if lb == "" {
					lb = "manager"
				}
				res.Count("lastBatchData:" + lb)
				switch {
				case it.Call.Req == "foreign":
					res.Count("request:foreign-chain-id")
				case it.Call.Lbd == "short":
					res.Count("request:malformed-LastBatchData")
				case it.Call.Req == "cancelled":
					res.Count("request:cancelled-context")
				default:
					res.Count("request:ordinary")
				}
				for _, x := range it.Call.Errs {
					res.Count(fmt.Sprintf("retrieval-script:%d", x))
				}
				switch {
				case it.Call.Max == 0:
					res.Count("limit:default")
				case it.Call.Max <= 6:
					res.Count("limit:1-6(can be below one tx)")
				default:
					res.Count("limit:7+")
				}
			} else {
				nrest++
			}
		}
		for k, v := range cr.stat {
			res.Distribution[k] += v
		}
		if rp.Drain {
			res.Count("history:drained")
		}
		if rp.hasRaw() {
			res.Count("history:forged-LastBatchData(correspondence only)")
		}
		if cr.stat["call:leaves-carry-over"] > 0 {
			res.Count("history:with-carry-over")
		}
		if cr.stat["retrieval:future-height"] > 0 {
			res.Count("history:meets-future-height")
		}
		if nrest > 0 && cr.stat["call:leaves-carry-over"] > 0 {
			res.Count("history:restart-and-carry-over")
		}
		if cr.stat["call:unusable"] > 0 {
			res.Count("history:with-unusable-request")
		}
		if cr.stat["call:unusable-with-carry-over-waiting"] > 0 {
			res.Count("history:unusable-request-while-carry-over-waits")
		}
		if cr.stat["call:cancelled-with-carry-over-waiting"] > 0 {
			res.Count("history:cancelled-call-while-carry-over-waits")
		}
		hc := daCoq(rp.DA) + histCoq(rp.History)
		if ncalls >= 3 && (cr.stat["call:leaves-carry-over"] > 0 || cr.stat["call:non-empty-batch"] > 1) {
			distinct[hc] = true
		}
		for vi, sig := range cr.viol {
			sh := shrink(rp, sig)
			what := cr.what[vi]
			if sr := evaluate(&sh); hasSig(sr, sig) { // describe the shrunk history, not the original
				for k, s2 := range sr.viol {
					if s2 == sig {
						what = sr.what[k]
					}
				}
			}
			res.Violations = append(res.Violations, vgen.Violation{Signature: sig, What: what, Case: ji, Replay: sh})
		}
		var outs []string
		for _, o := range cr.obs {
			outs = append(outs, o.coq())
		}
		defs = append(defs, fmt.Sprintf("Module C%d.\nDefinition c : bcase := mkcase %d %d %s\n %s\n [%s].\nEnd C%d.",
			ji, rp.Start, rp.Drift, daCoq(rp.DA), histCoq(rp.full()), strings.Join(outs, ";\n  "), ji))
		cases = append(cases, fmt.Sprintf("C%d.c", ji))
		res.Replays[fmt.Sprint(ji)] = rp
		if len(res.Samples) < 3 && nrest > 0 && cr.stat["call:leaves-carry-over"] > 0 {
			res.Samples = append(res.Samples, map[string]interface{}{"replay": rp, "observed": outs})
		}
	}
	res.Distinct = len(distinct)
	res.Rule = "histories of 3..10 GetNextBatch calls (thorough: ..22) and restarts (p=0.2 between calls) of the real based.Sequencer; DA contents: 3-10 heights around the start height, 35% empty, 1-4 transactions of 1-6 bytes; limits from {1..8,10,12,15,default,1000} (constant per case in half of the cases); DA tip starting near the start height and growing 0-3 per call (future heights); retrieval scripts (GetIDs error, Get error, not-found as error) in 25% of the calls; LastBatchData = what block.Manager passes (88%), none (8%), forged (only in 10% of the cases; those are correspondence-only); in half of the cases also requests that cannot be used (a LastBatchData whose last id has <= 8 bytes in 5 shapes incl. the empty id and exactly 8 bytes; a foreign chain id in 3 shapes) inserted before 20% of the calls (once or twice), before a restart (25%) and after the last call (17%), and ordinary calls under an already cancelled context (14%; the DA double answers them with the context's error); 70% of the cases end with drain calls and the no-loss check; non-trivial = at least 3 calls and a carry-over or two non-empty batches; distinct = distinct (DA, history) terms"
	res.Cases = len(cases)
	header := "From Coq Require Import NArith List Bool.\nFrom Verif Require Import Model.Based Check.BasedCheck."
	// bin/check reads the mismatch indices in the form "(<i>%N, ...)": N_scope must be closed again before [Print M]
	defs = append(defs, "Close Scope N_scope.")
	path := filepath.Join(e.Out, "cases_C20.v")
	if err := vgen.WriteCases(path, header, defs, "bcase", cases, "mismatches"); err != nil {
		t.Fatal(err)
	}
	res.CaseFiles = []string{path}
	if err := res.Write(e.Out); err != nil {
		t.Fatal(err)
	}
}
