// C06 correspondence harness: a REAL aggregator block.Manager (NewManager on an in-memory datastore, real
// store, real signer, real publishBlockInternal) commits a chain; its DA submission side is then driven
//   - iteration by iteration through the block/verif_export.go hooks (getPendingHeaders, submitHeadersToDA,
//     createSignedDataToSubmit, submitDataToDA), and
//   - as the unmodified HeaderSubmissionLoop / DataSubmissionLoop goroutines,
//
// everything inside testing/synctest bubbles (virtual time: the backoff sleeps are real timers),
// against a scripted DA double (the only collaborator that is a double besides executor and sequencer)
// which records every SubmitWithOptions call and answers from an outcome script.  Restart = NewManager on
// the same datastore.  Writes cases_C06.v (for Model/Submitter.v) and result.json (Go oracle).
package c06

import (
	"bytes"
	"context"
	"encoding/binary"
	"errors"
	"fmt"
	"math/rand"
	"os"
	"path/filepath"
	"strings"
	"sync"
	"sync/atomic"
	"testing"
	"testing/synctest"
	"time"

	ds "github.com/ipfs/go-datastore"
	logging "github.com/ipfs/go-log/v2"
	"github.com/libp2p/go-libp2p/core/crypto"

	"github.com/evstack/ev-node/block"
	coreda "github.com/evstack/ev-node/core/da"
	coreexec "github.com/evstack/ev-node/core/execution"
	coreseq "github.com/evstack/ev-node/core/sequencer"
	"github.com/evstack/ev-node/pkg/config"
	genesispkg "github.com/evstack/ev-node/pkg/genesis"
	"github.com/evstack/ev-node/pkg/signer"
	noopsigner "github.com/evstack/ev-node/pkg/signer/noop"
	"github.com/evstack/ev-node/pkg/store"
	"github.com/evstack/ev-node/types"

	"verif/harness/doubles/crashds"
	"verif/harness/vgen"
)

// ---- histories ---------------------------------------------------------------------------------

type Outcome struct {
	O string `json:"o"`           // accept fail acklost cancel
	K uint64 `json:"k,omitempty"` // accept / acklost: how many blobs of the call the DA layer takes
	F string `json:"f,omitempty"` // fail / acklost: notincluded inmempool toobig err deadline seq;  cancel: "" = context.Canceled, "sentinel" = coreda.ErrContextCanceled
	P []bool `json:"p,omitempty"` // tick items only: blocks (with transactions?) the aggregator commits WHILE this DA call is in flight (after the call is made, before its answer is processed)
}
type Item struct {
	T  string    `json:"t"`            // publish tick loop restart
	NE bool      `json:"ne,omitempty"` // publish: with transactions
	N  int       `json:"n,omitempty"`  // publish: n > 1 = a run of n blocks of this kind committed in a row (idle stretch when ne is false); one model item HPublishN per maximal run of equal observed kinds
	TX int       `json:"tx,omitempty"` // publish with transactions: 0 = fresh random transactions, n > 0 = the fixed transaction list no. n (so that several blocks of a chain carry IDENTICAL transaction lists)
	K  string    `json:"k,omitempty"`  // tick: "h" | "d"
	SC []Outcome `json:"sc,omitempty"` // tick: DA answers (then cancellation);  loop: answers to header calls
	SD []Outcome `json:"sd,omitempty"` // loop: answers to data calls
	Q  [][]Outcome `json:"q,omitempty"` // lpublish: iterations of the data submission loop (one script each) that run WHILE block production is inside numWaitingData, right after it has read the pending range
}
type Replay struct {
	Seed    int64  `json:"seed"`
	Case    int    `json:"case"`
	Init    uint64 `json:"init"`
	Limit   uint64 `json:"limit,omitempty"` // config.Node.MaxPendingHeadersAndData of the node (0 = no limit)
	History []Item `json:"history"`
}

const (
	daBlockTimeMs = 1000
	mempoolTTL    = 2
)

var fkinds = []string{"notincluded", "inmempool", "toobig", "err", "deadline", "seq"}

func genOutcome(r *rand.Rand) Outcome {
	x := r.Intn(100)
	switch {
	case x < 38:
		return Outcome{O: "accept", K: 1000}
	case x < 52:
		return Outcome{O: "accept", K: uint64(r.Intn(4))}
	case x < 82:
		return Outcome{O: "fail", F: fkinds[r.Intn(len(fkinds))]}
	case x < 95:
		k := uint64(r.Intn(4))
		if r.Intn(2) == 0 {
			k = 1000
		}
		return Outcome{O: "acklost", K: k, F: fkinds[r.Intn(len(fkinds))]}
	default:
		if r.Intn(2) == 0 {
			return Outcome{O: "cancel", F: "sentinel"} // coreda.ErrContextCanceled (what a DA client behind the proxy returns)
		}
		return Outcome{O: "cancel"} // context.Canceled
	}
}

func genScript(r *rand.Rand) []Outcome {
	var sc []Outcome
	x := r.Intn(100)
	switch {
	case x < 10: // a fault burst longer than maxSubmitAttempts
		n := 28 + r.Intn(6)
		f := fkinds[r.Intn(len(fkinds))]
		for i := 0; i < n; i++ {
			if r.Intn(6) == 0 {
				sc = append(sc, Outcome{O: "accept", K: 1}) // partial acceptances also use up attempts
			} else if r.Intn(8) == 0 {
				sc = append(sc, Outcome{O: "fail", F: fkinds[r.Intn(len(fkinds))]})
			} else {
				sc = append(sc, Outcome{O: "fail", F: f})
			}
		}
		sc = append(sc, Outcome{O: "accept", K: 1000})
	case x < 30:
		sc = []Outcome{{O: "accept", K: 1000}}
	case x < 38: // the DA node / proxy aborts a request ("cancelled" answer) while the node itself keeps running; then ordinary answers, then acceptance
		for i, n := 0, r.Intn(3); i < n; i++ {
			sc = append(sc, Outcome{O: "fail", F: fkinds[r.Intn(len(fkinds))]})
		}
		for i, n := 0, 1+r.Intn(2); i < n; i++ {
			if r.Intn(2) == 0 {
				sc = append(sc, Outcome{O: "cancel", F: "sentinel"})
			} else {
				sc = append(sc, Outcome{O: "cancel"})
			}
		}
		for i, n := 0, r.Intn(3); i < n; i++ {
			sc = append(sc, genOutcome(r))
		}
		sc = append(sc, Outcome{O: "accept", K: 1000})
	default:
		n := 1 + r.Intn(7)
		for i := 0; i < n; i++ {
			sc = append(sc, genOutcome(r))
		}
	}
	return sc
}

func genHistory(r *rand.Rand, maxLen int) (uint64, []Item) {
	init := uint64(1)
	switch x := r.Intn(100); {
	case x < 12:
		init = 2
	case x < 24:
		init = 7
	}
	n := 3 + r.Intn(maxLen-2)
	var h []Item
	blocks := 0
	// chains in which several non-empty blocks carry the same transaction list (equal DA commitments,
	// different metadata): 45% of the histories draw most transaction lists from a pool of two
	dupHeavy := r.Intn(100) < 45
	pub := func() Item {
		it := Item{T: "publish", NE: r.Intn(100) >= 30}
		if it.NE && dupHeavy && r.Intn(100) < 70 {
			it.TX = 1 + r.Intn(2)
		}
		return it
	}
	// a busy chain: in 35% of the iterations the aggregator commits blocks while DA calls of the iteration are in
	// flight (1..2 blocks during about half of the calls, 70% of them with transactions)
	inflight := func(sc []Outcome) []Outcome {
		if r.Intn(100) >= 35 {
			return sc
		}
		for i := range sc {
			if r.Intn(2) == 0 || blocks >= 30 {
				continue
			}
			for j, k := 0, 1+r.Intn(2); j < k && blocks < 30; j++ {
				sc[i].P = append(sc[i].P, r.Intn(100) < 70)
				blocks++
			}
		}
		return sc
	}
	if r.Intn(100) < 15 { // equal lists in consecutive blocks, pending together in one batch, optionally across a restart
		h = append(h, Item{T: "publish"}, Item{T: "publish", NE: true, TX: 1}, Item{T: "publish", NE: true, TX: 1})
		blocks += 3
		if r.Intn(2) == 0 {
			h = append(h, Item{T: "tick", K: "d", SC: []Outcome{{O: "fail", F: "err"}}}, Item{T: "publish", NE: true, TX: 1})
			blocks++
		}
		if r.Intn(2) == 0 {
			h = append(h, Item{T: "restart"})
		}
		h = append(h, Item{T: "tick", K: "d", SC: genScript(r)})
	}
	for i := 0; i < n; i++ {
		x := r.Intn(100)
		switch {
		case x < 34 && blocks < 30:
			k := 1 + r.Intn(4)
			for j := 0; j < k && blocks < 30; j++ {
				h = append(h, pub())
				blocks++
			}
		case x < 56:
			h = append(h, Item{T: "tick", K: "h", SC: inflight(genScript(r))})
		case x < 78:
			h = append(h, Item{T: "tick", K: "d", SC: inflight(genScript(r))})
		case x < 88:
			h = append(h, Item{T: "loop", SC: genScript(r), SD: genScript(r)})
		default:
			h = append(h, Item{T: "restart"})
		}
	}
	if r.Intn(100) < 70 { // closing phase: the DA layer accepts from here on
		if r.Intn(3) == 0 {
			h = append(h, Item{T: "restart"})
		}
		all := []Outcome{{O: "accept", K: 1000}}
		if r.Intn(4) == 0 {
			h = append(h, Item{T: "loop", SC: all, SD: all})
		}
		h = append(h, Item{T: "tick", K: "h", SC: all}, Item{T: "tick", K: "d", SC: all})
	}
	return init, h
}

// long-stretch stream: the chain stays idle (blocks without transactions) — or busy — for 100..600 blocks in a
// row above a watermark, then blocks with transactions arrive; DA outages in between leave hundreds of headers
// pending.  Anything that bounds, windows, pages or truncates the pending range (watermark, height] — per call,
// per tick, by count or by a narrow counter — shows here and nowhere in the 0..30 block chains above: the data
// watermark only moves on an accepted NON-empty data blob, the header watermark on every accepted header.
// The stretch is one history item (publish with n), written to the case file as the run-length item HPublishN
// which expands inside Coq.
const acceptEverything = 100000

func acceptAll(n int) []Outcome {
	var sc []Outcome
	for i := 0; i < n; i++ {
		sc = append(sc, Outcome{O: "accept", K: acceptEverything})
	}
	return sc
}

// a short DA outage (or none), then acceptance of everything / of a prefix and then everything
func genLongScript(r *rand.Rand) []Outcome {
	var sc []Outcome
	switch x := r.Intn(100); {
	case x < 40:
	case x < 80:
		for i, n := 0, 1+r.Intn(3); i < n; i++ {
			sc = append(sc, Outcome{O: "fail", F: fkinds[r.Intn(len(fkinds)-2)]}) // not the 60 s deadline: keep virtual time short
		}
	case x < 90:
		sc = append(sc, Outcome{O: "acklost", K: uint64(1 + r.Intn(150)), F: "err"})
	default:
		sc = append(sc, Outcome{O: "accept", K: uint64(1 + r.Intn(150))})
	}
	return append(sc, Outcome{O: "accept", K: acceptEverything})
}

func genLong(r *rand.Rand, idx int) (uint64, []Item) {
	closingPhase := func(h []Item) []Item {
		// the DA layer accepts from here on: the unmodified loops for a while, then one iteration of each kind
		return append(h, Item{T: "loop", SC: acceptAll(8), SD: acceptAll(8)},
			Item{T: "tick", K: "h", SC: acceptAll(1)}, Item{T: "tick", K: "d", SC: acceptAll(1)})
	}
	if idx == 0 {
		// always present: transactions, everything on the DA layer; the chain stays idle for 150 blocks; two blocks
		// with transactions; a data iteration, a header iteration, then the closing phase
		h := []Item{{T: "publish", NE: true}, {T: "publish", NE: true},
			{T: "tick", K: "h", SC: acceptAll(1)}, {T: "tick", K: "d", SC: acceptAll(1)},
			{T: "publish", N: 150}, {T: "publish", NE: true}, {T: "publish", NE: true},
			{T: "tick", K: "d", SC: acceptAll(1)}, {T: "tick", K: "h", SC: acceptAll(1)}}
		return 1, closingPhase(h)
	}
	init := []uint64{1, 1, 2, 7}[r.Intn(4)]
	lens := []int{100, 101, 128, 199, 200, 255, 256, 257, 300, 600}
	var h []Item
	tick := func(k string) { h = append(h, Item{T: "tick", K: k, SC: genLongScript(r)}) }
	if r.Intn(2) == 0 { // a few blocks first, on the DA layer or not
		for i, n := 0, 1+r.Intn(3); i < n; i++ {
			h = append(h, Item{T: "publish", NE: r.Intn(2) == 0})
		}
		if r.Intn(2) == 0 {
			tick("h")
		}
		if r.Intn(2) == 0 {
			tick("d")
		}
	}
	total := 0
	for seg, nseg := 0, 1+r.Intn(2); seg < nseg; seg++ {
		n := lens[r.Intn(len(lens))]
		if r.Intn(3) == 0 {
			n = 100 + r.Intn(501)
		}
		if total+n > 800 {
			n = 100 + r.Intn(28)
		}
		total += n
		h = append(h, Item{T: "publish", N: n, NE: r.Intn(100) < 12}) // mostly idle stretches; sometimes a busy one
		switch x := r.Intn(100); {
		case x < 25: // only the headers of the stretch reach the DA layer before transactions arrive
			tick("h")
		case x < 40: // the DA layer is down for a whole submitToDA call (> maxSubmitAttempts failures): everything stays pending
			var sc []Outcome
			for i := 0; i < 31; i++ {
				sc = append(sc, Outcome{O: "fail", F: "err"})
			}
			h = append(h, Item{T: "tick", K: "h", SC: sc})
		case x < 50:
			tick("d")
		}
		for j, k := 0, 1+r.Intn(3); j < k; j++ {
			h = append(h, Item{T: "publish", NE: true})
		}
		if r.Intn(4) == 0 {
			h = append(h, Item{T: "restart"})
		}
		switch x := r.Intn(100); {
		case x < 35:
			tick("d")
			tick("h")
		case x < 60:
			tick("h")
			tick("d")
		case x < 75:
			tick("d")
		case x < 85:
			h = append(h, Item{T: "loop", SC: genLongScript(r), SD: genLongScript(r)})
		}
		if r.Intn(3) == 0 {
			h = append(h, Item{T: "publish", NE: r.Intn(2) == 0})
		}
	}
	if r.Intn(4) == 0 {
		h = append(h, Item{T: "restart"})
	}
	return init, closingPhase(h)
}

// pending-limit stream: the node runs with MaxPendingHeadersAndData = L (1..4), so block production's pending-limit
// check calls PendingData.numWaitingData once L data items are pending — the SECOND writer of the data watermark
// (it steps over empty items right above the watermark).  Every block is an item "lpublish" = one call of the real
// publishBlockInternal (it may refuse); in about half of them iterations of the data submission loop (Q) run INSIDE
// numWaitingData, after it has read the pending range (a store wrapper runs them when the first pending item is
// fetched): the two writers of the watermark interleaved.  Model item: WPublish (Model/SubmitterWaiting.v).
func genWaitScript(r *rand.Rand) []Outcome {
	all := Outcome{O: "accept", K: acceptEverything}
	switch x := r.Intn(100); {
	case x < 30:
		return []Outcome{all}
	case x < 55: // a prefix is accepted, then the round ends (the script's end = cancellation)
		return []Outcome{{O: "accept", K: uint64(1 + r.Intn(2))}}
	case x < 65:
		return []Outcome{{O: "accept", K: uint64(1 + r.Intn(2))}, {O: "cancel"}}
	case x < 75:
		return []Outcome{{O: "accept", K: uint64(1 + r.Intn(2))}, all}
	case x < 85:
		return []Outcome{{O: "fail", F: fkinds[r.Intn(len(fkinds)-2)]}, all}
	case x < 92:
		return []Outcome{{O: "acklost", K: uint64(1 + r.Intn(2)), F: "err"}, all}
	default:
		return []Outcome{{O: "cancel"}}
	}
}

func genWaiting(r *rand.Rand) (uint64, uint64, []Item) {
	init := uint64(1)
	if x := r.Intn(100); x >= 70 {
		init = []uint64{2, 7}[r.Intn(2)]
	}
	limit := uint64(2 + r.Intn(3))
	if r.Intn(10) == 0 {
		limit = 1
	}
	pEmpty := []float64{0.3, 0.5, 0.7}[r.Intn(3)]
	var h []Item
	n := 8 + r.Intn(12)
	for len(h) < n {
		switch x := r.Intn(100); {
		case x < 70:
			it := Item{T: "lpublish", NE: r.Float64() >= pEmpty}
			if len(h) >= 2 && r.Intn(100) < 65 {
				for i, k := 0, 1+r.Intn(2); i < k; i++ {
					it.Q = append(it.Q, genWaitScript(r))
				}
			}
			h = append(h, it)
			if r.Intn(100) < 80 { // keep the headers below the limit, otherwise they refuse before the data is looked at
				h = append(h, Item{T: "tick", K: "h", SC: acceptAll(2)})
			}
		case x < 78:
			h = append(h, Item{T: "tick", K: "d", SC: genWaitScript(r)})
		case x < 86:
			h = append(h, Item{T: "tick", K: "h", SC: genWaitScript(r)})
		case x < 94:
			h = append(h, Item{T: "restart"})
		default:
			h = append(h, Item{T: "loop", SC: acceptAll(3), SD: genWaitScript(r)})
		}
	}
	h = append(h, Item{T: "tick", K: "h", SC: acceptAll(4)}, Item{T: "tick", K: "d", SC: acceptAll(4)})
	return init, limit, h
}

// ---- doubles -----------------------------------------------------------------------------------

type seqDouble struct {
	mu   sync.Mutex
	next [][]byte
}

func (s *seqDouble) SubmitBatchTxs(ctx context.Context, req coreseq.SubmitBatchTxsRequest) (*coreseq.SubmitBatchTxsResponse, error) {
	return &coreseq.SubmitBatchTxsResponse{}, nil
}
func (s *seqDouble) GetNextBatch(ctx context.Context, req coreseq.GetNextBatchRequest) (*coreseq.GetNextBatchResponse, error) {
	s.mu.Lock()
	defer s.mu.Unlock()
	txs := s.next
	s.next = nil
	return &coreseq.GetNextBatchResponse{Batch: &coreseq.Batch{Transactions: txs}, Timestamp: time.Now()}, nil
}
func (s *seqDouble) VerifyBatch(ctx context.Context, req coreseq.VerifyBatchRequest) (*coreseq.VerifyBatchResponse, error) {
	return &coreseq.VerifyBatchResponse{Status: true}, nil
}

type nopBroadcaster[T any] struct{}

func (nopBroadcaster[T]) WriteToStoreAndBroadcast(ctx context.Context, payload T) error { return nil }

type daCall struct {
	kind     string // "h" "d" "?"
	blobs    [][]byte
	heights  []uint64
	vol      uint64
	meta     *uint64
	out      Outcome
	accepted int
	epoch    int // number of restarts before the call
	pubs     []bool // observed kinds of the blocks committed while the call was in flight
}

type daDouble struct {
	mu       sync.Mutex
	w        *world
	script   map[string][]Outcome // per kind; tick mode uses the key of the kind being driven
	anyKind  bool                 // tick mode: one script whatever the kind
	onEmpty  map[string]func()
	calls    []daCall
	accepted map[string][][]byte // kind -> accepted blobs in order
	daHeight uint64
	unlogged int
	acked    map[string]uint64 // highest height whose acceptance was acknowledged to the caller
	inflight func(pubs []bool) []bool // tick items: commits the blocks of an answer while the call is in flight; returns the observed kinds
}

// DA answers of the script of a kind not asked for yet
func (d *daDouble) left(key string) int {
	d.mu.Lock()
	defer d.mu.Unlock()
	return len(d.script[key])
}

func fErr(f string) error {
	switch f {
	case "notincluded":
		return coreda.ErrTxTimedOut
	case "inmempool":
		return coreda.ErrTxAlreadyInMempool
	case "toobig":
		return coreda.ErrBlobSizeOverLimit
	case "deadline":
		return coreda.ErrContextDeadline
	case "seq":
		return coreda.ErrTxIncorrectAccountSequence
	}
	return errors.New("generic DA failure")
}

// blob kind and height as the blob itself says (the oracle compares with the store later)
func classify(b []byte) (string, uint64) {
	var sh types.SignedHeader
	if err := sh.UnmarshalBinary(b); err == nil && sh.ValidateBasic() == nil {
		return "h", sh.Height()
	}
	var sd types.SignedData
	if err := sd.UnmarshalBinary(b); err == nil && sd.Metadata != nil {
		return "d", sd.Height()
	}
	return "?", 0
}

func (d *daDouble) SubmitWithOptions(ctx context.Context, blobs []coreda.Blob, gasPrice float64, ns []byte, opts []byte) ([]coreda.ID, error) {
	d.mu.Lock()
	kind := "?"
	var hs []uint64
	for i, b := range blobs {
		k, h := classify(b)
		if i == 0 {
			kind = k
		} else if k != kind {
			kind = "?"
		}
		hs = append(hs, h)
	}
	key := kind
	if d.anyKind {
		key = "*"
	}
	sc := d.script[key]
	if len(sc) == 0 { // script used up: the context of the caller is cancelled
		d.unlogged++
		f := d.onEmpty[key]
		d.mu.Unlock()
		if f != nil {
			f()
		}
		return nil, context.Canceled
	}
	o := sc[0]
	d.script[key] = sc[1:]
	c := daCall{kind: kind, heights: hs, out: o, epoch: d.w.epoch}
	for _, b := range blobs {
		c.blobs = append(c.blobs, append([]byte{}, b...))
	}
	c.vol, c.meta = d.w.watermark(kind)
	n := len(blobs)
	take := 0
	if o.O == "accept" || o.O == "acklost" {
		take = n
		if o.K < uint64(n) {
			take = int(o.K)
		}
	}
	c.accepted = take
	d.daHeight++
	var ids []coreda.ID
	for i := 0; i < take; i++ {
		d.accepted[kind] = append(d.accepted[kind], c.blobs[i])
		id := make([]byte, 8+4)
		binary.LittleEndian.PutUint64(id, d.daHeight)
		binary.LittleEndian.PutUint32(id[8:], uint32(len(d.accepted[kind])))
		ids = append(ids, id)
	}
	if o.O == "accept" && take > 0 && hs[take-1] > d.acked[kind] {
		d.acked[kind] = hs[take-1]
	}
	d.calls = append(d.calls, c)
	ci := len(d.calls) - 1
	hook := d.inflight
	d.mu.Unlock()
	if len(o.P) > 0 && hook != nil {
		// the call is in flight: the aggregator commits blocks (publishBlockInternal on the same Manager); the caller
		// built its batch before and processes the answer after
		obs := hook(o.P)
		d.mu.Lock()
		d.calls[ci].pubs = obs
		d.mu.Unlock()
	}
	switch o.O {
	case "accept":
		return ids, nil
	case "cancel":
		if o.F == "sentinel" {
			return nil, fmt.Errorf("da double: %w", coreda.ErrContextCanceled)
		}
		return nil, context.Canceled
	}
	if o.F == "deadline" { // the DA client sits on the request until the 60 s submit context expires
		<-ctx.Done()
	}
	return nil, fmt.Errorf("da double: %w", fErr(o.F))
}

func (d *daDouble) Submit(ctx context.Context, blobs []coreda.Blob, gasPrice float64, ns []byte) ([]coreda.ID, error) {
	return d.SubmitWithOptions(ctx, blobs, gasPrice, ns, nil)
}
func (d *daDouble) Get(ctx context.Context, ids []coreda.ID, ns []byte) ([]coreda.Blob, error) {
	return nil, coreda.ErrBlobNotFound
}
func (d *daDouble) GetIDs(ctx context.Context, height uint64, ns []byte) (*coreda.GetIDsResult, error) {
	return nil, coreda.ErrBlobNotFound
}
func (d *daDouble) GetProofs(ctx context.Context, ids []coreda.ID, ns []byte) ([]coreda.Proof, error) {
	return nil, nil
}
func (d *daDouble) Commit(ctx context.Context, blobs []coreda.Blob, ns []byte) ([]coreda.Commitment, error) {
	return nil, nil
}
func (d *daDouble) Validate(ctx context.Context, ids []coreda.ID, proofs []coreda.Proof, ns []byte) ([]bool, error) {
	return nil, nil
}
func (d *daDouble) GasPrice(ctx context.Context) (float64, error)      { return 1, nil }
func (d *daDouble) GasMultiplier(ctx context.Context) (float64, error) { return 1.5, nil }

// ---- the node under test -------------------------------------------------------------------------

// the real store, plus: a count of the block reads below a given height, and a one-shot hook that runs right after
// the block of a chosen height was read (used to place iterations of the data submission loop at an exact point of
// block production's numWaitingData: inside getPendingData, after the watermark and the store height were read)
type hookStore struct {
	store.Store
	hookHeight uint64
	hook       func()
	below      uint64 // reads of heights below this one are counted
	nBelow     int
}

func (s *hookStore) GetBlockData(ctx context.Context, height uint64) (*types.SignedHeader, *types.Data, error) {
	h, d, err := s.Store.GetBlockData(ctx, height)
	if height < s.below {
		s.nBelow++
	}
	if s.hook != nil && height == s.hookHeight {
		f := s.hook
		s.hook = nil
		f()
	}
	return h, d, err
}

type world struct {
	r       *rand.Rand
	kv      ds.Batching
	hs      *hookStore
	st      store.Store
	sig     signer.Signer
	pub     crypto.PubKey
	gen     genesispkg.Genesis
	cfg     config.Config
	da      *daDouble
	seq     *seqDouble
	m       *block.Manager
	epoch   int
	ctx     context.Context
	rootDir string
}

type rndReader struct{ r *rand.Rand }

func (x rndReader) Read(p []byte) (int, error) { return x.r.Read(p) }

func newWorld(r *rand.Rand, init, limit uint64, rootDir string) (*world, error) {
	w := &world{r: r, ctx: context.Background(), rootDir: rootDir}
	priv, pub, err := crypto.GenerateEd25519Key(rndReader{r})
	if err != nil {
		return nil, err
	}
	w.pub = pub
	if w.sig, err = noopsigner.NewNoopSigner(priv); err != nil {
		return nil, err
	}
	addr, err := w.sig.GetAddress()
	if err != nil {
		return nil, err
	}
	w.gen = genesispkg.NewGenesis("c06", init, time.Now(), addr)
	w.cfg = config.DefaultConfig
	w.cfg.RootDir = rootDir
	w.cfg.Node.Aggregator = true
	w.cfg.Node.MaxPendingHeadersAndData = limit
	w.cfg.Node.BlockTime.Duration = time.Second
	w.cfg.DA.BlockTime.Duration = daBlockTimeMs * time.Millisecond
	w.cfg.DA.MempoolTTL = mempoolTTL
	w.kv = crashds.New()
	w.da = &daDouble{w: w, script: map[string][]Outcome{}, onEmpty: map[string]func(){}, accepted: map[string][][]byte{}, acked: map[string]uint64{}}
	return w, w.start()
}

// start = what a process start does for the block manager: NewManager on the datastore
func (w *world) start() error {
	w.hs = &hookStore{Store: store.New(w.kv)}
	w.st = w.hs
	w.seq = &seqDouble{}
	lg := logging.Logger("c06")
	logging.SetAllLoggers(logging.LevelFatal)
	m, err := block.NewManager(w.ctx, w.sig, w.cfg, w.gen, w.st, coreexec.NewDummyExecutor(), w.seq, w.da,
		lg, nil, nil, nopBroadcaster[*types.SignedHeader]{}, nopBroadcaster[*types.Data]{},
		block.NopMetrics(), 1.0, 1.5, block.DefaultManagerOptions())
	if err != nil {
		return err
	}
	w.m = m
	return nil
}

func (w *world) persisted(kind string) *uint64 {
	key := store.LastSubmittedHeaderHeightKey
	if kind == "d" {
		key = block.LastSubmittedDataHeightKey
	}
	raw, err := w.st.GetMetadata(w.ctx, key)
	if err != nil || len(raw) != 8 {
		return nil
	}
	v := binary.LittleEndian.Uint64(raw)
	return &v
}

func (w *world) watermark(kind string) (uint64, *uint64) {
	if kind == "d" {
		return w.m.VerifLastSubmittedDataHeight(), w.persisted("d")
	}
	return w.m.VerifLastSubmittedHeaderHeight(), w.persisted("h")
}

// one block committed by the real publishBlockInternal; returns whether the committed block has transactions
func (w *world) publish(ne bool, tx int) (bool, error) {
	before := w.height()
	w.nextBatch(ne, tx)
	if err := w.m.VerifPublishBlock(w.ctx); err != nil {
		return false, fmt.Errorf("publish failed: %w", err)
	}
	if w.height() != before+1 {
		return false, fmt.Errorf("publish did not commit a block (height %d -> %d)", before, w.height())
	}
	return w.nonEmpty(before + 1), nil
}

// one iteration of the data submission loop body (submitter.go:53-69) through the hooks; returns the result class
// (0 idle 1 nothing to submit 2 getPending error 3 nil 4 error) and the virtual time spent in submitDataToDA
func (w *world) dataTick(sc []Outcome) (int, time.Duration) {
	w.da.anyKind = true
	w.da.script["*"] = append([]Outcome{}, sc...)
	if w.m.VerifNumPendingData() == 0 {
		return 0, 0
	}
	sds, err := w.m.VerifCreateSignedDataToSubmit(w.ctx)
	if err != nil {
		return 2, 0
	}
	if len(sds) == 0 {
		return 1, 0
	}
	start := time.Now()
	if err := w.m.VerifSubmitDataToDA(w.ctx, sds); err != nil {
		return 4, time.Since(start)
	}
	return 3, time.Since(start)
}

// what the sequencer hands to the next publishBlockInternal
func (w *world) nextBatch(ne bool, tx int) {
	r := w.r
	if ne {
		n := 1 + r.Intn(3)
		var txs [][]byte
		for i := 0; i < n; i++ {
			tx := make([]byte, 1+r.Intn(24))
			r.Read(tx)
			txs = append(txs, tx)
		}
		if tx > 0 { // a fixed list: blocks with the same TX have identical transaction lists
			txs = [][]byte{[]byte(fmt.Sprintf("pool-%d-a", tx)), []byte(fmt.Sprintf("pool-%d-b", tx))}
		}
		w.seq.next = txs
	} else {
		w.seq.next = nil
	}
}

func (w *world) height() uint64 {
	h, _ := w.st.Height(w.ctx)
	return h
}

// ---- running one history -------------------------------------------------------------------------

type itemOut struct {
	witem   bool // coqItem is already a term of type witem (publishBlockInternal under a pending limit)
	lim     int  // witem: 2*(numWaitingData ran) + refused; 4 + refused when it cannot be told whether it ran; -1 = not compared
	citem   bool // coqItem is already a term of type citem (iteration with in-flight commits)
	left    int  // loop items: DA answers the loop did not ask for; -1 = not compared
	hitem   bool // coqItem is already a term of type hitem (run-length item); otherwise an item, wrapped in HI
	coqItem string
	res     int // 0 idle 1 nothing 2 geterr 3 nil 4 err; -1 = not compared
	elapsed int64
	calls   []daCall
	h, d    *[2]string // (vol, meta) as Coq terms, nil = not compared
}

type caseResult struct {
	outs       []itemOut
	chain      []bool // observed: has transactions, from the initial height on
	viol, what []string
	err        error
	hacc, dacc []uint64
	height     uint64
	ncalls     int
	nGetErr    int
	nExhausted int
	nPartial   int
	nAckLost   int
	nInflight  int
	nRefused   int
	nWaitRan   int // publishBlockInternal calls in which numWaitingData ran
	nInside    int // data iterations that ran inside numWaitingData
	nInsideUp  int // ... of which raised the data watermark
}

func hasInflight(sc []Outcome) bool {
	for _, o := range sc {
		if len(o.P) > 0 {
			return true
		}
	}
	return false
}

func optN(p *uint64) string {
	if p == nil {
		return "None"
	}
	return "(Some " + vgen.N(*p) + ")"
}

func outcomeCoq(o Outcome) string {
	f := map[string]string{"notincluded": "FNotIncluded", "inmempool": "FInMempool", "toobig": "FTooBig", "err": "FErr", "deadline": "FDeadline", "seq": "FSeq"}[o.F]
	switch o.O {
	case "accept":
		return "OAccept " + vgen.N(o.K)
	case "fail":
		return "OFail " + f
	case "acklost":
		return "OAckLost " + vgen.N(o.K) + " " + f
	}
	return "OCancel " + vgen.Bool(o.F == "sentinel")
}
func scriptCoq(sc []Outcome) string {
	var s []string
	for _, o := range sc {
		s = append(s, outcomeCoq(o))
	}
	return vgen.List(s)
}

func (w *world) marks() (*[2]string, *[2]string) {
	hv, hm := w.watermark("h")
	dv, dm := w.watermark("d")
	return &[2]string{vgen.N(hv), optN(hm)}, &[2]string{vgen.N(dv), optN(dm)}
}

type oracle struct {
	w          *world
	viol, what []string
	prevVol    map[string]uint64
	prevMeta   map[string]uint64
	getErrSeen bool
	judged     map[string]verdict // kind + blob bytes -> verdict (committed blocks are immutable, so is the verdict)
}

type verdict struct {
	h   uint64
	why string
}

func (o *oracle) fail(sig, what string) {
	for _, s := range o.viol {
		if s == sig {
			return
		}
	}
	o.viol = append(o.viol, sig)
	o.what = append(o.what, what)
}

// the committed block at a height, from the block store
func (w *world) committed(h uint64) (*types.SignedHeader, *types.Data, bool) {
	if h < w.gen.InitialHeight || h > w.height() {
		return nil, nil, false
	}
	sh, d, err := w.st.GetBlockData(w.ctx, h)
	if err != nil {
		return nil, nil, false
	}
	return sh, d, true
}

// Judges one blob handed to the DA layer: it must decode, its signature must verify under the proposer key
// over the bytes of ITS OWN content (header: ValidateBasic; data: Data.MarshalBinary of the decoded blob), and
// the decoded item must equal the committed one of that height in the block store (data: including the
// metadata).  Returns the height the blob claims and "" or the failure class.
func (o *oracle) judge(kind string, blob []byte) (uint64, string) {
	key := kind + string(blob)
	if v, ok := o.judged[key]; ok {
		return v.h, v.why
	}
	h, why := o.judge1(kind, blob)
	if o.judged == nil {
		o.judged = map[string]verdict{}
	}
	o.judged[key] = verdict{h, why}
	return h, why
}

func (o *oracle) judge1(kind string, blob []byte) (uint64, string) {
	w := o.w
	if kind == "h" {
		var sh types.SignedHeader
		if err := sh.UnmarshalBinary(blob); err != nil {
			return 0, "blob-not-faithful"
		}
		if sh.ValidateBasic() != nil || sh.Signer.PubKey == nil || !sh.Signer.PubKey.Equals(w.pub) || !bytes.Equal(sh.ProposerAddress, w.gen.ProposerAddress) {
			return sh.Height(), "header-blob-signature-invalid"
		}
		st, _, ok := w.committed(sh.Height())
		if !ok {
			return sh.Height(), "blob-not-faithful"
		}
		b1, e1 := sh.MarshalBinary()
		b2, e2 := st.MarshalBinary()
		if e1 != nil || e2 != nil || !bytes.Equal(b1, b2) || !bytes.Equal(sh.Hash(), st.Hash()) || !bytes.Equal(sh.Signature, st.Signature) {
			return sh.Height(), "blob-not-faithful"
		}
		return sh.Height(), ""
	}
	var sd types.SignedData
	if err := sd.UnmarshalBinary(blob); err != nil || sd.Metadata == nil {
		return 0, "blob-not-faithful"
	}
	bz, err := sd.Data.MarshalBinary()
	if err != nil || sd.Signer.PubKey == nil || !sd.Signer.PubKey.Equals(w.pub) || !bytes.Equal(sd.Signer.Address, w.gen.ProposerAddress) {
		return sd.Height(), "data-blob-signature-invalid"
	}
	if v, err := sd.Signer.PubKey.Verify(bz, sd.Signature); err != nil || !v {
		return sd.Height(), "data-blob-signature-invalid"
	}
	_, d, ok := w.committed(sd.Height())
	if !ok {
		return sd.Height(), "blob-not-faithful"
	}
	dz, err := d.MarshalBinary()
	if err != nil || !bytes.Equal(bz, dz) || !bytes.Equal(sd.Data.Hash(), d.Hash()) || len(sd.Txs) != len(d.Txs) || len(sd.Txs) == 0 || d.Metadata == nil ||
		sd.Metadata.Height != d.Metadata.Height || sd.Metadata.Time != d.Metadata.Time || sd.Metadata.ChainID != d.Metadata.ChainID || !bytes.Equal(sd.Metadata.LastDataHash, d.Metadata.LastDataHash) {
		return sd.Height(), "blob-not-faithful"
	}
	for i := range d.Txs {
		if !bytes.Equal(sd.Txs[i], d.Txs[i]) {
			return sd.Height(), "blob-not-faithful"
		}
	}
	return sd.Height(), ""
}

func (o *oracle) faithful(kind string, blob []byte) (uint64, bool) {
	h, why := o.judge(kind, blob)
	return h, why == ""
}

// heights whose committed header (resp. non-empty data) the DA layer has accepted
func (o *oracle) acceptedSet(kind string) map[uint64]bool {
	set := map[uint64]bool{}
	for _, b := range o.w.da.accepted[kind] {
		if h, ok := o.faithful(kind, b); ok {
			set[h] = true
		}
	}
	return set
}

func (w *world) nonEmpty(h uint64) bool {
	_, d, ok := w.committed(h)
	return ok && len(d.Txs) > 0
}

// longest n such that every committed height up to n has its blob on the DA layer (data: every non-empty one)
func (o *oracle) prefix(kind string) uint64 {
	set := o.acceptedSet(kind)
	top := o.w.height()
	// heights below the initial height do not exist: nothing to accept there
	n := o.w.gen.InitialHeight - 1
	for h := o.w.gen.InitialHeight; h <= top; h++ {
		_, _, ok := o.w.committed(h)
		if !ok {
			break
		}
		if kind == "h" && !set[h] {
			break
		}
		if kind == "d" && o.w.nonEmpty(h) && !set[h] {
			break
		}
		n = h
	}
	return n
}

func (o *oracle) afterItem(restart bool) {
	for _, kind := range []string{"h", "d"} {
		vol, meta := o.w.watermark(kind)
		pm := uint64(0)
		if meta != nil {
			pm = *meta
		}
		if restart {
			if vol != pm && !(pm < o.w.gen.InitialHeight && vol == o.w.gen.InitialHeight-1) {
				o.fail("restart-does-not-resume-from-recorded-height", fmt.Sprintf("%s: after restart in-memory watermark %d, recorded %d", kind, vol, pm))
			}
		} else if vol < o.prevVol[kind] {
			o.fail("watermark-decreased", fmt.Sprintf("%s: in-memory watermark went %d -> %d", kind, o.prevVol[kind], vol))
		}
		if pm < o.prevMeta[kind] {
			o.fail("watermark-decreased", fmt.Sprintf("%s: recorded watermark went %d -> %d", kind, o.prevMeta[kind], pm))
		}
		if a := o.w.da.acked[kind]; pm < a || vol < a {
			o.fail("acknowledged-height-not-recorded", fmt.Sprintf("%s: the DA layer acknowledged height %d but the watermark is %d (recorded %d): a restart would re-submit confirmed blobs", kind, a, vol, pm))
		}
		o.prevVol[kind], o.prevMeta[kind] = vol, pm
		if top := o.w.height(); vol > top || pm > top {
			o.fail("watermark-above-chain-height", fmt.Sprintf("%s: watermark %d/%d, chain height %d", kind, vol, pm, top))
		}
		if p := o.prefix(kind); vol > p || pm > p {
			o.fail("watermark-past-unaccepted-height", fmt.Sprintf("%s: watermark %d (recorded %d) but the DA layer holds the blobs only up to height %d", kind, vol, pm, p))
		}
	}
}

// every call: the blobs are the committed headers / data of the heights just above the watermark, in order
func (o *oracle) checkCalls() {
	w := o.w
	lastEpoch := map[string]int{"h": -1, "d": -1}
	for ci, c := range w.da.calls {
		if c.kind != "h" && c.kind != "d" {
			o.fail("blob-not-faithful", fmt.Sprintf("call %d: blobs are neither headers nor signed data (or mixed)", ci))
			continue
		}
		prev := c.vol
		for i, b := range c.blobs {
			h, why := o.judge(c.kind, b)
			if why == "blob-not-faithful" {
				o.fail(why, fmt.Sprintf("call %d blob %d (%s, height %d) does not decode to exactly the committed item of that height", ci, i, c.kind, h))
			} else if why != "" {
				o.fail(why, fmt.Sprintf("call %d blob %d (%s, height %d): the signature does not verify under the proposer key over the blob's own content (full nodes reject it)", ci, i, c.kind, h))
			}
			if h <= prev {
				if i == 0 {
					o.fail("resubmits-confirmed-height", fmt.Sprintf("call %d starts at height %d, watermark was %d", ci, h, c.vol))
				} else {
					o.fail("submission-out-of-order", fmt.Sprintf("call %d: height %d after %d", ci, h, prev))
				}
			}
			for x := prev + 1; x < h; x++ {
				if c.kind == "h" || w.nonEmpty(x) {
					o.fail("submission-skips-height", fmt.Sprintf("call %d (%s): height %d skipped (watermark %d, blob heights %v)", ci, c.kind, x, c.vol, c.heights))
				}
			}
			if h > prev {
				prev = h
			}
		}
		if lastEpoch[c.kind] != c.epoch && c.epoch > 0 { // first call of this kind after a restart
			pm := uint64(0)
			if c.meta != nil {
				pm = *c.meta
			}
			if c.vol != pm && !(pm < w.gen.InitialHeight && c.vol == w.gen.InitialHeight-1) {
				o.fail("restart-does-not-resume-from-recorded-height", fmt.Sprintf("call %d: first %s call after restart made with watermark %d, recorded %d", ci, c.kind, c.vol, pm))
			}
		}
		lastEpoch[c.kind] = c.epoch
	}
}

func stripInflight(sc []Outcome) []Outcome {
	out := append([]Outcome{}, sc...)
	for i := range out {
		out[i].P = nil
	}
	return out
}

// committed headers / non-empty data of a kind not (faithfully) on the DA layer: "" when there is none
func (o *oracle) missingOf(kind string) string {
	w := o.w
	top := w.height()
	if top < w.gen.InitialHeight {
		return ""
	}
	set := o.acceptedSet(kind)
	for h := w.gen.InitialHeight; h <= top; h++ {
		if kind == "h" && !set[h] {
			return fmt.Sprintf("header %d", h)
		}
		if kind == "d" && w.nonEmpty(h) && !set[h] {
			return fmt.Sprintf("data %d", h)
		}
	}
	return ""
}

// "Submission is retried through DA failures until accepted", judged on the UNMODIFIED loop goroutine: it ran, with its
// context alive, for longer than every scripted DA answer can take (backoffs, the 60 s submit deadline, one tick per
// iteration).  If the DA double still has answers of that kind to give (left > 0: the script's end is what cancels the
// loop's context) while a committed header / non-empty data is not on the DA layer, the loop has stopped retrying.
func (o *oracle) loopRetries(kind string, left int, returned bool, ran time.Duration) {
	if left == 0 {
		return
	}
	missing := o.missingOf(kind)
	if missing == "" {
		return
	}
	name := map[string]string{"h": "HeaderSubmissionLoop", "d": "DataSubmissionLoop"}[kind]
	state := "is still running but made no further DA call"
	if returned {
		state = "RETURNED although its context was not cancelled"
	}
	o.fail("loop-stopped-retrying-while-da-answers", fmt.Sprintf("%s ran %v of virtual time with its context alive; %s is not on the DA layer and the DA layer had %d more answers to give, but the loop %s", name, ran, missing, left, state))
}

func closing(h []Item) bool {
	n := len(h)
	if n < 2 {
		return false
	}
	full := func(it Item, k string) bool {
		return it.T == "tick" && it.K == k && len(it.SC) >= 1 && it.SC[0].O == "accept" && it.SC[0].K >= 1000
	}
	return full(h[n-2], "h") && full(h[n-1], "d")
}

// what is still missing on the DA layer: "" when every committed header and every committed non-empty data is
// there (faithful blob accepted) and the header watermark is at the chain height
func (o *oracle) missing() string {
	w := o.w
	top := w.height()
	if top < w.gen.InitialHeight {
		return "" // nothing committed
	}
	hs, dset := o.acceptedSet("h"), o.acceptedSet("d")
	for h := w.gen.InitialHeight; h <= top; h++ {
		if !hs[h] {
			return fmt.Sprintf("header %d", h)
		}
		if w.nonEmpty(h) && !dset[h] {
			return fmt.Sprintf("data %d", h)
		}
	}
	if hv, _ := w.watermark("h"); hv != top {
		return fmt.Sprintf("header watermark %d != height %d", hv, top)
	}
	return ""
}

// one more iteration of the header / data submission loop body against a DA layer that accepts everything
// (oracle only: made after the history ended, not part of the trace compared with the model)
func (w *world) iterateAccepting(kind string) {
	w.da.anyKind = true
	w.da.script["*"] = acceptAll(30) // more answers than one submitToDA call can use (the script's end is a cancellation)
	if kind == "h" {
		if w.m.VerifNumPendingHeaders() == 0 {
			return
		}
		if hs, err := w.m.VerifGetPendingHeaders(w.ctx); err == nil && len(hs) > 0 {
			_ = w.m.VerifSubmitHeadersToDA(w.ctx, hs)
		}
		return
	}
	if w.m.VerifNumPendingData() == 0 {
		return
	}
	if sds, err := w.m.VerifCreateSignedDataToSubmit(w.ctx); err == nil && len(sds) > 0 {
		_ = w.m.VerifSubmitDataToDA(w.ctx, sds)
	}
}

// Liveness, judged when the history ends with an accepting phase: "submission is retried until accepted".  If
// something committed is still missing after the closing iterations, the DA layer keeps accepting and the node
// gets further iterations of both loops for as long as they make ANY progress (a blob accepted, a watermark
// moved).  It is a violation when an iteration of each loop against an accepting DA layer makes no progress
// while a committed header / non-empty data is still not on the DA layer: nothing will ever change again.
func (o *oracle) eventually(init uint64) {
	w := o.w
	top := w.height()
	missing := o.missing()
	if missing == "" {
		return
	}
	measure := func() uint64 {
		hv, _ := w.watermark("h")
		dv, _ := w.watermark("d")
		return uint64(len(o.acceptedSet("h"))+len(o.acceptedSet("d"))) + hv + dv
	}
	rounds := 0
	for limit := 2*int(top) + 4; missing != "" && rounds < limit; {
		rounds++
		before := measure()
		w.iterateAccepting("h")
		w.iterateAccepting("d")
		o.afterItem(false)
		missing = o.missing()
		if measure() == before {
			break
		}
	}
	if missing == "" {
		return
	}
	if init > 1 && len(w.da.calls) == 0 && o.getErrSeen {
		o.fail("initial-height-gt1-nothing-submitted", fmt.Sprintf("initial height %d, chain height %d: the pending range starts at height 1, getPending fails, no DA call is ever made (%s never submitted although the DA layer accepts)", init, top, missing))
	} else {
		o.fail("not-submitted-although-da-accepts", fmt.Sprintf("initial height %d, chain height %d: %s missing on the DA layer, and a further iteration of each submission loop against an accepting DA layer makes no progress (%d further rounds tried after the closing iterations)", init, top, missing, rounds))
	}
}

func runCase(seed int64, c int, init, limit uint64, hist []Item, rootDir string) (res *caseResult) {
	res = &caseResult{}
	var w *world
	var or *oracle
	defer func() {
		if x := recover(); x != nil {
			res.viol = append(res.viol, "panic")
			res.what = append(res.what, fmt.Sprint(x))
		}
	}()
	r := rand.New(rand.NewSource(seed*7919 + int64(c)*104729 + 17))
	_ = os.RemoveAll(rootDir)
	w, err := newWorld(r, init, limit, rootDir)
	if err != nil {
		res.err = err
		return
	}
	or = &oracle{w: w, prevVol: map[string]uint64{}, prevMeta: map[string]uint64{}}
	mark := func(io *itemOut, both bool, kind string) {
		h, d := w.marks()
		if both || kind == "h" {
			io.h = h
		}
		if both || kind == "d" {
			io.d = d
		}
	}
	for _, it := range hist {
		switch it.T {
		case "publish":
			n := it.N
			if n < 1 {
				n = 1
			}
			var kinds []bool
			for j := 0; j < n; j++ {
				ne, err := w.publish(it.NE, it.TX)
				if err != nil {
					res.err = err
					return
				}
				res.chain = append(res.chain, ne)
				kinds = append(kinds, ne)
			}
			if it.N <= 1 {
				io := itemOut{coqItem: "IPublish " + vgen.Bool(kinds[0]), res: -1, left: -1, lim: -1}
				mark(&io, true, "")
				res.outs = append(res.outs, io)
			} else {
				// one run-length model item per maximal run of equal OBSERVED kinds; the watermarks are observed after the last
				for a := 0; a < len(kinds); {
					b := a
					for b < len(kinds) && kinds[b] == kinds[a] {
						b++
					}
					io := itemOut{hitem: true, coqItem: "HPublishN " + vgen.Bool(kinds[a]) + " " + vgen.N(uint64(b-a)), res: -1, left: -1, lim: -1}
					if b == len(kinds) {
						mark(&io, true, "")
					}
					res.outs = append(res.outs, io)
					a = b
				}
			}
			or.afterItem(false)
		case "lpublish":
			// one call of the real publishBlockInternal under the pending limit.  The data iterations of it.Q run inside
			// numWaitingData: the store wrapper runs them when getPendingData fetches the first pending item, i.e. after
			// the watermark and the store height were read and before the loop over the items starts.  Armed only when
			// that item is below the store height (publishBlockInternal itself reads the block AT the store height).
			before := w.height()
			dv, _ := w.watermark("d")
			n0 := len(w.da.calls)
			io := itemOut{witem: true, res: -1, left: -1, lim: -1}
			fired := false
			w.hs.below, w.hs.nBelow = before, 0
			if len(it.Q) > 0 && dv+1 < before {
				w.hs.hookHeight = dv + 1
				w.hs.hook = func() {
					fired = true
					for _, sc := range it.Q {
						v0, _ := w.watermark("d")
						if rc, _ := w.dataTick(sc); rc == 2 {
							or.getErrSeen = true
						}
						res.nInside++
						if v1, _ := w.watermark("d"); v1 > v0 {
							res.nInsideUp++
						}
					}
				}
			}
			w.nextBatch(it.NE, it.TX)
			err := w.m.VerifPublishBlock(w.ctx)
			w.hs.hook = nil
			ranWaiting := w.hs.nBelow > 0
			w.hs.below = 0
			if err != nil {
				res.err = fmt.Errorf("publish under the limit failed: %w", err)
				return
			}
			refused := w.height() == before
			if !refused && w.height() != before+1 {
				res.err = fmt.Errorf("publish under the limit: height %d -> %d", before, w.height())
				return
			}
			kind := it.NE
			if !refused {
				kind = w.nonEmpty(before + 1)
				res.chain = append(res.chain, kind)
			} else {
				res.nRefused++
			}
			if ranWaiting {
				res.nWaitRan++
			}
			rf := 0
			if refused {
				rf = 1
			}
			switch {
			case ranWaiting:
				io.lim = 2 + rf
			case dv+1 < before: // the pending data range has an item below the store height: numWaitingData would have read it
				io.lim = rf
			default:
				io.lim = 4 + rf
			}
			var qs []string
			if fired {
				for _, sc := range it.Q {
					qs = append(qs, scriptCoq(sc))
				}
				io.coqItem = "WPublish " + vgen.N(limit) + " " + vgen.Bool(kind) + " [" + vgen.List(qs) + "]"
			} else {
				io.coqItem = "WPublish " + vgen.N(limit) + " " + vgen.Bool(kind) + " []"
			}
			io.calls = append(io.calls, w.da.calls[n0:]...)
			for _, c := range io.calls {
				if c.kind != "d" {
					or.fail("blob-not-faithful", fmt.Sprintf("a data submission carried blobs of kind %q", c.kind))
				}
			}
			mark(&io, true, "")
			res.outs = append(res.outs, io)
			or.afterItem(false)
		case "restart":
			if err := w.start(); err != nil {
				res.err = fmt.Errorf("restart failed: %w", err)
				return
			}
			w.epoch++
			io := itemOut{coqItem: "IRestart", res: -1, left: -1, lim: -1}
			mark(&io, true, "")
			res.outs = append(res.outs, io)
			or.afterItem(true)
		case "tick":
			w.da.anyKind = true
			w.da.script["*"] = append([]Outcome{}, it.SC...)
			n0 := len(w.da.calls)
			io := itemOut{res: -1, left: -1, lim: -1}
			var pubErr error
			w.da.inflight = func(pubs []bool) []bool {
				var obs []bool
				for _, ne := range pubs {
					b, err := w.publish(ne, 0)
					if err != nil {
						pubErr = err
						return obs
					}
					res.chain = append(res.chain, b)
					res.nInflight++
					obs = append(obs, b)
				}
				return obs
			}
			start := time.Now()
			if it.K == "h" {
				io.coqItem = "ITick KHeader " + scriptCoq(it.SC)
				if w.m.VerifNumPendingHeaders() == 0 { // isEmpty
					io.res = 0
				} else if hs, err := w.m.VerifGetPendingHeaders(w.ctx); err != nil {
					io.res = 2
					or.getErrSeen = true
				} else if len(hs) == 0 {
					io.res = 1
				} else {
					start = time.Now()
					if err := w.m.VerifSubmitHeadersToDA(w.ctx, hs); err != nil {
						io.res = 4
					} else {
						io.res = 3
					}
				}
			} else {
				io.coqItem = "ITick KData " + scriptCoq(it.SC)
				if w.m.VerifNumPendingData() == 0 {
					io.res = 0
				} else if sds, err := w.m.VerifCreateSignedDataToSubmit(w.ctx); err != nil {
					io.res = 2
					or.getErrSeen = true
				} else if len(sds) == 0 {
					io.res = 1
				} else {
					start = time.Now()
					if err := w.m.VerifSubmitDataToDA(w.ctx, sds); err != nil {
						io.res = 4
					} else {
						io.res = 3
					}
				}
			}
			io.elapsed = time.Since(start).Milliseconds()
			if io.res < 3 {
				io.elapsed = 0
			}
			w.da.inflight = nil
			if pubErr != nil {
				res.err = fmt.Errorf("in-flight %w", pubErr)
				return
			}
			io.calls = append(io.calls, w.da.calls[n0:]...)
			if hasInflight(it.SC) {
				// the model item: every DA answer with the blocks committed while that call was in flight — as observed
				// for the calls that were made, as requested (they never happen) for the answers not asked for
				var ps []string
				for i, o := range it.SC {
					pubs := o.P
					if i < len(io.calls) {
						pubs = io.calls[i].pubs
					}
					var bs []string
					for _, b := range pubs {
						bs = append(bs, vgen.Bool(b))
					}
					ps = append(ps, "("+outcomeCoq(o)+", "+vgen.List(bs)+")")
				}
				io.citem = true
				io.coqItem = "CTickP " + map[string]string{"h": "KHeader", "d": "KData"}[it.K] + " " + vgen.List(ps)
			}
			for _, c := range io.calls {
				if c.kind != it.K {
					or.fail("blob-not-faithful", fmt.Sprintf("a %s submission carried blobs of kind %q", it.K, c.kind))
				}
			}
			if io.res == 4 {
				res.nExhausted++
			}
			if io.res == 2 {
				res.nGetErr++
			}
			mark(&io, true, "")
			res.outs = append(res.outs, io)
			or.afterItem(false)
		case "loop":
			w.da.anyKind = false
			w.da.inflight = nil // the chain is frozen while both loops run (their relative order is not determined)
			w.da.script["h"] = stripInflight(it.SC)
			w.da.script["d"] = stripInflight(it.SD)
			n0 := len(w.da.calls)
			ctxH, cancelH := context.WithCancel(w.ctx)
			ctxD, cancelD := context.WithCancel(w.ctx)
			w.da.onEmpty["h"], w.da.onEmpty["d"] = cancelH, cancelD
			var wg sync.WaitGroup
			wg.Add(2)
			m := w.m
			var doneH, doneD atomic.Bool
			go func() { defer wg.Done(); defer doneH.Store(true); m.HeaderSubmissionLoop(ctxH) }()
			go func() { defer wg.Done(); defer doneD.Store(true); m.DataSubmissionLoop(ctxD) }()
			// virtual time: long enough for every scripted answer (60 s deadline answers, 2 s backoffs)
			sleep := time.Duration(len(it.SC)+len(it.SD)+4) * 64 * time.Second
			if w.height() > 60 {
				// long chains: an idle tick of the data loop re-reads the whole pending range, so do not idle for
				// longer than the script can take: per answer <= 2 s backoff + 1 s to the next tick (+ 60 s when the
				// DA client sits on the request until the submit deadline)
				sleep = 8 * time.Second
				for _, o := range append(append([]Outcome{}, it.SC...), it.SD...) {
					sleep += 4 * time.Second
					if o.F == "deadline" {
						sleep += 61 * time.Second
					}
				}
			}
			time.Sleep(sleep)
			synctest.Wait()
			// the node's context is still alive here: what each loop left of its script, and whether it is still running
			leftH, leftD := w.da.left("h"), w.da.left("d")
			goneH, goneD := ctxH.Err() == nil && doneH.Load(), ctxD.Err() == nil && doneD.Load()
			cancelH()
			cancelD()
			wg.Wait()
			synctest.Wait()
			w.da.onEmpty = map[string]func(){}
			or.loopRetries("h", leftH, goneH, sleep)
			or.loopRetries("d", leftD, goneD, sleep)
			ioH := itemOut{coqItem: "ILoop KHeader " + scriptCoq(stripInflight(it.SC)), res: -1, left: leftH, lim: -1}
			ioD := itemOut{coqItem: "ILoop KData " + scriptCoq(stripInflight(it.SD)), res: -1, left: leftD, lim: -1}
			for _, c := range w.da.calls[n0:] {
				if c.kind == "d" {
					ioD.calls = append(ioD.calls, c)
				} else {
					ioH.calls = append(ioH.calls, c)
				}
			}
			if len(ioH.calls) == 0 && len(ioD.calls) == 0 && w.height() > 0 {
				hv, _ := w.watermark("h")
				if hv != w.height() {
					or.getErrSeen = or.getErrSeen || func() bool { _, err := w.m.VerifGetPendingHeaders(w.ctx); return err != nil }()
				}
			}
			mark(&ioH, false, "h")
			mark(&ioD, true, "")
			res.outs = append(res.outs, ioH, ioD)
			or.afterItem(false)
		}
	}
	traceCalls := len(w.da.calls) // the calls of the history; the liveness oracle may add iterations of its own
	if closing(hist) {
		or.eventually(init)
	}
	or.checkCalls()
	res.viol, res.what = append(res.viol, or.viol...), append(res.what, or.what...)
	res.height = w.height()
	res.ncalls = traceCalls
	for _, c := range w.da.calls[:traceCalls] {
		if c.out.O == "acklost" && c.accepted > 0 {
			res.nAckLost++
		}
		if c.out.O == "accept" && c.accepted > 0 && c.accepted < len(c.blobs) {
			res.nPartial++
		}
		for i := 0; i < c.accepted; i++ {
			if c.kind == "d" {
				res.dacc = append(res.dacc, c.heights[i])
			} else {
				res.hacc = append(res.hacc, c.heights[i])
			}
		}
	}
	return
}

// a list of heights as a Coq term; long lists in run-length form (Check.SubmitterCheck.runs, expanded in Coq)
func nlist(xs []uint64) string {
	if len(xs) > 12 {
		var rs []string
		for a := 0; a < len(xs); {
			b := a + 1
			for b < len(xs) && xs[b] == xs[b-1]+1 {
				b++
			}
			rs = append(rs, "("+vgen.N(xs[a])+", "+vgen.N(uint64(b-a))+")")
			a = b
		}
		if len(rs)*2 < len(xs) {
			return "(runs " + vgen.List(rs) + ")"
		}
	}
	s := make([]string, len(xs))
	for i, x := range xs {
		s[i] = vgen.N(x)
	}
	return vgen.List(s)
}

func (io itemOut) coq() string {
	opt := func(v int64) string {
		if v < 0 {
			return "None"
		}
		return "(Some " + vgen.N(uint64(v)) + ")"
	}
	var cs []string
	for _, c := range io.calls {
		cs = append(cs, fmt.Sprintf("(%s, %s, %s)", nlist(c.heights), vgen.N(c.vol), optN(c.meta)))
	}
	side := func(p *[2]string) string {
		if p == nil {
			return "None"
		}
		return "(Some (" + p[0] + ", " + p[1] + "))"
	}
	el := int64(-1)
	if io.res >= 0 {
		el = io.elapsed
	}
	return fmt.Sprintf("{| io_res := %s; io_el := %s; io_calls := %s; io_h := %s; io_d := %s; io_left := %s; io_lim := %s |}", opt(int64(io.res)), opt(el), vgen.List(cs), side(io.h), side(io.d), opt(int64(io.left)), opt(int64(io.lim)))
}

// run a case inside a synctest bubble (virtual time)
func runBubble(t *testing.T, seed int64, c int, init, limit uint64, hist []Item, rootDir string) *caseResult {
	var res *caseResult
	synctest.Test(t, func(t *testing.T) {
		res = runCase(seed, c, init, limit, hist, rootDir)
	})
	return res
}

func hasSig(r *caseResult, sig string) bool {
	for _, s := range r.viol {
		if s == sig {
			return true
		}
	}
	return false
}

// second shrinking pass: the length of every publish run, by bisection (smallest length that still fails,
// assuming the failure is monotone in the length; every accepted step was re-run and failed)
func shrinkRuns(h []Item, fails func([]Item) bool) []Item {
	h = append([]Item{}, h...)
	for i := range h {
		if h[i].T != "publish" || h[i].N <= 1 {
			continue
		}
		lo, hi := 1, h[i].N // invariant: hi fails
		for lo < hi {
			mid := (lo + hi) / 2
			try := append([]Item{}, h...)
			try[i].N = mid
			if fails(try) {
				hi = mid
			} else {
				lo = mid + 1
			}
		}
		h[i].N = hi
	}
	return h
}

// third shrinking pass: the DA answers of every script one at a time, then the in-flight commits of every answer
func shrinkScripts(h []Item, fails func([]Item) bool) []Item {
	h = append([]Item{}, h...)
	with := func(i int, f func(it *Item)) []Item {
		try := append([]Item{}, h...)
		it := try[i]
		it.SC = append([]Outcome{}, it.SC...)
		it.SD = append([]Outcome{}, it.SD...)
		f(&it)
		try[i] = it
		return try
	}
	for i := range h {
		if h[i].T != "tick" && h[i].T != "loop" {
			continue
		}
		h[i].SC = vgen.Shrink(h[i].SC, func(sc []Outcome) bool { return fails(with(i, func(it *Item) { it.SC = sc })) })
		h[i].SD = vgen.Shrink(h[i].SD, func(sc []Outcome) bool { return fails(with(i, func(it *Item) { it.SD = sc })) })
		for j := range h[i].SC {
			if len(h[i].SC[j].P) == 0 {
				continue
			}
			sc := append([]Outcome{}, h[i].SC...)
			sc[j].P = vgen.Shrink(sc[j].P, func(p []bool) bool {
				return fails(with(i, func(it *Item) { it.SC[j].P = p }))
			})
			h[i].SC = sc
		}
	}
	return h
}

func caseRng(seed int64, c int) *rand.Rand { return rand.New(rand.NewSource(seed*1000003 + int64(c))) }

func TestVerif(t *testing.T) {
	logging.SetAllLoggers(logging.LevelFatal)
	e := vgen.GetEnv()
	res := vgen.NewResult("C06", e)
	rootDir, err := os.MkdirTemp("", "c06root")
	if err != nil {
		t.Fatal(err)
	}
	defer os.RemoveAll(rootDir)
	type job struct {
		seed int64
		c    int
		init uint64
		lim  uint64
		hist []Item
		long bool // the long-stretch stream (genLong)
		wait bool // the pending-limit stream (genWaiting)
	}
	var jobs []job
	if e.Replay != "" {
		var rp Replay
		if err := vgen.LoadReplay(e.Replay, &rp); err != nil {
			t.Fatal(err)
		}
		jobs = append(jobs, job{seed: rp.Seed, c: rp.Case, init: rp.Init, lim: rp.Limit, hist: rp.History})
	} else {
		files, _ := filepath.Glob("../corpus/C06/*.json")
		if os.Getenv("VERIF_NO_CORPUS") != "" {
			files = nil
		}
		for _, f := range files {
			var rp Replay
			if vgen.LoadReplay(f, &rp) == nil {
				jobs = append(jobs, job{seed: rp.Seed, c: rp.Case, init: rp.Init, lim: rp.Limit, hist: rp.History})
			}
		}
		// the long-stretch stream: nLong cases per run (quick) / per shard (thorough), the first one fixed
		nLong := 6
		if e.Tier == "thorough" {
			nLong = 14
		}
		if e.N < 20 { // witness re-runs and other tiny runs
			nLong = 0
		}
		for c := 0; c < nLong; c++ {
			jobs = append(jobs, job{seed: e.Seed, c: 1000000 + c, long: true})
		}
		// the pending-limit stream: nWait cases per run (quick) / per shard (thorough)
		nWait := 60
		if e.Tier == "thorough" {
			nWait = 150
		}
		if e.N < 20 {
			nWait = 0
		}
		for c := 0; c < nWait; c++ {
			jobs = append(jobs, job{seed: e.Seed, c: 2000000 + c, wait: true})
		}
		for c := 0; c < e.N; c++ {
			jobs = append(jobs, job{seed: e.Seed, c: c})
		}
	}
	maxLen := 12
	if e.Tier == "thorough" {
		maxLen = 30
	}
	var cases, defsAll []string
	distinct := map[string]bool{}
	for ji, j := range jobs {
		init, limit, hist := j.init, j.lim, j.hist
		if hist == nil && j.wait {
			init, limit, hist = genWaiting(caseRng(j.seed, j.c))
			res.Count("stream:pending-limit")
			res.Count(fmt.Sprintf("pending-limit:L=%d", limit))
		} else if hist == nil && j.long {
			init, hist = genLong(caseRng(j.seed, j.c), j.c-1000000)
			res.Count("stream:long-stretch")
		} else if hist == nil {
			init, hist = genHistory(caseRng(j.seed, j.c), maxLen)
		}
		cr := runBubble(t, j.seed, j.c, init, limit, hist, rootDir)
		if cr.err != nil {
			t.Fatalf("harness error (seed %d case %d): %v", j.seed, j.c, cr.err)
		}
		res.Evaluations++
		res.Count(fmt.Sprintf("initial-height:%d", init))
		npub, nrestart, nloop := 0, 0, 0
		for _, it := range hist {
			res.Count("item:" + it.T)
			switch it.T {
			case "publish":
				npub++
				if it.N >= 100 {
					if it.NE {
						res.Count("publish-run:>=100-blocks-with-txs")
					} else {
						res.Count("publish-run:>=100-empty-blocks")
					}
				}
			case "restart":
				nrestart++
			case "loop":
				nloop++
			}
			for _, o := range append(append([]Outcome{}, it.SC...), it.SD...) {
				k := "outcome:" + o.O
				if o.F != "" {
					k += ":" + o.F
				}
				if o.O == "accept" && o.K < 1000 {
					k += ":k-of-n"
				}
				res.Count(k)
			}
		}
		dupSeen := map[int]int{}
		for _, it := range hist {
			if it.T == "publish" && it.NE && it.TX > 0 {
				dupSeen[it.TX]++
			}
		}
		for _, n := range dupSeen {
			if n > 1 {
				res.Count("history:blocks-with-identical-tx-lists")
				break
			}
		}
		for _, b := range cr.chain {
			if b {
				res.Count("block:with-txs")
			} else {
				res.Count("block:empty")
			}
		}
		res.Distribution["da-calls"] += cr.ncalls
		res.Distribution["da-calls:accepted-k-of-n"] += cr.nPartial
		res.Distribution["da-calls:accepted-ack-lost"] += cr.nAckLost
		res.Distribution["tick:exhausted-30-attempts"] += cr.nExhausted
		res.Distribution["tick:getpending-error"] += cr.nGetErr
		res.Distribution["block:committed-while-a-da-call-is-in-flight"] += cr.nInflight
		res.Distribution["publish-under-limit:refused"] += cr.nRefused
		res.Distribution["publish-under-limit:numWaitingData-ran"] += cr.nWaitRan
		res.Distribution["data-iteration-inside-numWaitingData"] += cr.nInside
		res.Distribution["data-iteration-inside-numWaitingData:raised-the-watermark"] += cr.nInsideUp
		for _, it := range hist {
			if it.T == "tick" && hasInflight(it.SC) {
				res.Count("tick:with-in-flight-commits:" + it.K)
			}
			if it.T == "loop" {
				for _, sc := range [][]Outcome{it.SC, it.SD} {
					for i, o := range sc {
						if o.O == "cancel" && i+1 < len(sc) {
							res.Count("loop-script:cancelled-answer-then-more-answers")
							break
						}
					}
				}
			}
		}
		if closing(hist) {
			res.Count("history:closing-accepting-phase")
		}
		var items, outs []string
		for _, o := range cr.outs {
			if o.witem {
				items = append(items, o.coqItem)
			} else if o.citem {
				items = append(items, "WC ("+o.coqItem+")")
			} else if o.hitem {
				items = append(items, "WC (CH ("+o.coqItem+"))")
			} else {
				items = append(items, "WC (CH (HI ("+o.coqItem+")))")
			}
			outs = append(outs, o.coq())
		}
		hc := fmt.Sprintf("%d|%s", init, strings.Join(items, ";"))
		if npub > 0 && cr.ncalls > 0 {
			distinct[hc] = true
		}
		rp := Replay{Seed: j.seed, Case: j.c, Init: init, Limit: limit, History: hist}
		for vi, sig := range cr.viol {
			stillFails := func(h []Item) bool {
				if len(h) == 0 {
					return false
				}
				r2 := runBubble(t, j.seed, j.c, init, limit, h, rootDir)
				return r2.err == nil && hasSig(r2, sig)
			}
			sh := vgen.Shrink(hist, stillFails)
			sh = shrinkRuns(sh, stillFails)
			sh = shrinkScripts(sh, stillFails)
			res.Violations = append(res.Violations, vgen.Violation{Signature: sig, What: cr.what[vi], Case: ji,
				Replay: Replay{Seed: j.seed, Case: j.c, Init: init, Limit: limit, History: sh}})
		}
		mod := fmt.Sprintf("Module C%d.\nDefinition c : ocase := {| oc_cfg := {| c_bt := %s; c_ttl := %s |}; oc_init := %s;\n oc_hist := %s;\n oc_outs := %s;\n oc_hacc := %s; oc_dacc := %s; oc_height := %s |}.\nEnd C%d.",
			ji, vgen.N(daBlockTimeMs), vgen.N(mempoolTTL), vgen.N(init), vgen.List(items), vgen.List(outs), nlist(cr.hacc), nlist(cr.dacc), vgen.N(cr.height), ji)
		defsAll = append(defsAll, mod)
		cases = append(cases, fmt.Sprintf("C%d.c", ji))
		res.Replays[fmt.Sprint(ji)] = rp
		if len(res.Samples) < 3 && npub > 1 && cr.ncalls > 2 && nrestart > 0 {
			res.Samples = append(res.Samples, map[string]interface{}{"initial_height": init, "history": hist, "model_items": items, "observed": outs})
		}
	}
	res.Distinct = len(distinct)
	res.Rule = "real aggregator Manager (NewManager, real store/signer/publishBlockInternal) commits 0..30 blocks in the main stream (30% requested empty; the first block is always the stored genesis block, empty) with initial height 1 (76%), 2 or 7; in 45% of the histories most non-empty blocks draw their transaction list from a pool of two (identical lists in several, also consecutive, blocks; 15% start with two or three such blocks pending together, optionally across a restart); histories of 3..maxLen items: publish bursts, single header/data submission iterations through the hooks, the unmodified HeaderSubmissionLoop+DataSubmissionLoop goroutines, restarts (NewManager on the same datastore); every DA call answered from a script over {accept all, accept k of n, not-included, in-mempool, too-big, error, deadline(60 s), account-sequence, accepted-but-error k (ack lost), cancel as context.Canceled or as the DA sentinel ErrContextCanceled}, 6% of scripts with a fault burst of 28..33 answers (> maxSubmitAttempts); 8% of scripts = 0..2 failures, 1..2 cancelled answers, 0..2 arbitrary answers, acceptance; script end = context cancellation; in 35% of the single iterations the aggregator commits blocks WHILE DA calls of the iteration are in flight (1..2 blocks, 70% with transactions, during about half of the calls: the DA double runs the real publishBlockInternal after it received the call and before it answers; model item CTickP, Model/SubmitterConc.v); after every loop item the oracle judges the unmodified loops themselves (context alive, more virtual time than all scripted answers can take: a loop that leaves DA answers unasked while a committed header / non-empty data is not on the DA layer has stopped retrying) and the number of answers each loop left is compared with the model (loop_left); 70% of histories end with an accepting phase on which the liveness clause is judged (if a committed header / non-empty data is still missing after it, the oracle keeps giving the node accepting iterations of both loop bodies for as long as they make any progress, and fails when one makes none); plus the long-stretch stream (6 cases per run, 14 per thorough shard, the first one fixed): initial height 1, 2 or 7, one or two stretches of 100..600 blocks of one kind committed in a row (88% without transactions = idle chain; lengths from {100,101,128,199,200,255,256,257,300,600} or uniform 100..600; one run-length item, HPublishN in the case file, expanded inside Coq) above the watermarks, each followed by 1..3 blocks with transactions, with header / data iterations before, between and after (scripts: accept all, a DA outage of 1..3 failures, acknowledgement lost for 1..150 blobs, a prefix of 1..150 blobs accepted, then acceptance; or an outage of 31 failures = a whole submitToDA call lost with hundreds of headers pending), restarts, the unmodified loops, and a closing phase (loops with 8 accepting answers each, then one accepting iteration of each kind) on which liveness is judged; long height lists are written as runs (Check.SubmitterCheck.runs); all in synctest bubbles (virtual time; elapsed backoff time is compared); non-trivial = at least one block and one DA call; distinct = distinct (initial height, model history) terms"
	res.Cases = len(cases)
	header := "From Coq Require Import NArith List Bool.\nFrom Verif Require Import Model.Submitter Model.SubmitterConc Model.SubmitterWaiting Check.SubmitterCheck."
	path := filepath.Join(e.Out, "cases_C06.v")
	if err := vgen.WriteCases(path, header, defsAll, "ocase", cases, "mismatches"); err != nil {
		t.Fatal(err)
	}
	res.CaseFiles = []string{path}
	if err := res.Write(e.Out); err != nil {
		t.Fatal(err)
	}
}
