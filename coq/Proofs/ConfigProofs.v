(* Proofs/ConfigProofs.v — all lemmas about Model/Config.v. *)
From Coq Require Import String Ascii NArith ZArith List Bool Lia.
From Verif Require Import Model.Config.
Import ListNotations.
Open Scope string_scope.

(* ---- strings ---------------------------------------------------------------------------------- *)
Lemma prefix_app : forall p s, String.prefix p (p ++ s) = true.
Proof.
  induction p as [|a p IH]; intros s; cbn.
  - destruct s; reflexivity.
  - destruct (ascii_dec a a) as [_|n]; [apply IH | congruence].
Qed.

Lemma drop_app : forall p s, drop (String.length p) (p ++ s) = s.
Proof. induction p as [|a p IH]; intros s; cbn; [destruct s; reflexivity | apply IH]. Qed.

Lemma prefix_split : forall p s, String.prefix p s = true -> s = p ++ drop (String.length p) s.
Proof.
  induction p as [|a p IH]; intros s H.
  - cbn. destruct s; reflexivity.
  - destruct s as [|b s]; cbn in H; [discriminate|].
    destruct (ascii_dec a b) as [->|]; [|discriminate].
    cbn. f_equal. apply IH. exact H.
Qed.

Lemma append_inj_l : forall p a b : string, p ++ a = p ++ b -> a = b.
Proof. induction p as [|c p IH]; cbn; intros a b H; [exact H | inversion H; auto]. Qed.

Lemma strip_prefixed : forall p, strip (cfg_prefix ++ p) = p.
Proof.
  intros p. unfold strip. rewrite prefix_app. apply drop_app.
Qed.

Lemma strip_unprefixed : forall n, String.prefix cfg_prefix n = false -> strip n = n.
Proof. intros n H. unfold strip. rewrite H. reflexivity. Qed.

(* for a key that does not itself start with the prefix, "the flag's stripped name is the key" is exactly
   "the flag names the key" *)
Lemma strip_names : forall n path,
  String.prefix cfg_prefix path = false ->
  String.eqb (strip n) path = namesb n path.
Proof.
  intros n path Hp. unfold namesb.
  destruct (String.prefix cfg_prefix n) eqn:Hn.
  - pose proof (prefix_split _ _ Hn) as Hs.
    assert (Hne : String.eqb n path = false).
    { destruct (String.eqb_spec n path) as [->|]; [congruence | reflexivity]. }
    rewrite Hne. cbn [orb].
    unfold strip. rewrite Hn.
    destruct (String.eqb_spec (drop (String.length cfg_prefix) n) path) as [E|E];
      destruct (String.eqb_spec n (cfg_prefix ++ path)) as [E'|E']; try reflexivity.
    + exfalso. apply E'. rewrite Hs at 1. rewrite E. reflexivity.
    + exfalso. apply E. rewrite E'. apply drop_app.
  - rewrite (strip_unprefixed _ Hn).
    assert (Hne : String.eqb n (cfg_prefix ++ path) = false).
    { destruct (String.eqb_spec n (cfg_prefix ++ path)) as [->|]; [|reflexivity].
      rewrite prefix_app in Hn. discriminate. }
    rewrite Hne. rewrite orb_false_r. reflexivity.
Qed.

(* ---- lists ------------------------------------------------------------------------------------ *)
Lemma filter_nil_forall : forall {A} (p : A -> bool) l, filter p l = [] -> forall x, In x l -> p x = false.
Proof.
  intros A p l. induction l as [|a l IH]; cbn; intros H x Hin; [contradiction|].
  destruct (p a) eqn:Ha; [discriminate|].
  destruct Hin as [->|Hin]; [exact Ha | apply IH; assumption].
Qed.

Lemma map_nil_inv : forall {A B} (f : A -> B) l, map f l = [] -> l = [].
Proof. intros A B f l. destruct l; [reflexivity | discriminate]. Qed.

Lemma mem_In : forall s l, mem s l = true <-> In s l.
Proof.
  intros s l. unfold mem. rewrite existsb_exists. split.
  - intros [x [Hin E]]. apply String.eqb_eq in E. subst. exact Hin.
  - intros Hin. exists s. split; [exact Hin | apply String.eqb_refl].
Qed.

Lemma nodupb_NoDup : forall l, nodupb l = true -> NoDup l.
Proof.
  induction l as [|x l IH]; cbn; intros H; [constructor|].
  apply andb_true_iff in H. destruct H as [H1 H2].
  constructor; [|apply IH; exact H2].
  intros Hin. apply mem_In in Hin. rewrite Hin in H1. discriminate.
Qed.

Lemma map_combine_eq : forall {A B} (g : A -> B) l c,
  List.length l = List.length c ->
  (forall a b, In (a, b) (combine l c) -> g a = b) ->
  map g l = c.
Proof.
  intros A B g. induction l as [|a l IH]; intros [|b c] Hlen H; cbn in *; try discriminate; [reflexivity|].
  f_equal; [apply H; left; reflexivity|].
  apply IH; [lia|]. intros a' b' Hin. apply H. right. exact Hin.
Qed.

Section WithValues.
Context {V : Type}.
Variable veqb : V -> V -> bool.
Hypothesis veqb_eq : forall a b, veqb a b = true -> a = b.

Notation field := (field V).
Notation flag := (flag V).

Lemma lookup_last_by_ext_acc : forall (p q : string -> bool) (l : list (string * V)) acc,
  (forall n, p n = q n) ->
  fold_left (fun acc e => if p (fst e) then Some (snd e) else acc) l acc =
  fold_left (fun acc e => if q (fst e) then Some (snd e) else acc) l acc.
Proof.
  intros p q l. induction l as [|e l IH]; intros acc H; cbn; [reflexivity|].
  rewrite H. apply IH. exact H.
Qed.

Lemma lookup_last_by_ext : forall (p q : string -> bool) (l : list (string * V)),
  (forall n, p n = q n) -> lookup_last_by p l = lookup_last_by q l.
Proof. intros. unfold lookup_last_by. apply lookup_last_by_ext_acc. assumption. Qed.

Lemma lookup_last_by_snoc_hit : forall (p : string -> bool) (l : list (string * V)) n v,
  p n = true -> lookup_last_by p (l ++ [(n, v)])%list = Some v.
Proof.
  intros p l n v H. unfold lookup_last_by. rewrite fold_left_app. cbn. rewrite H. reflexivity.
Qed.

(* ---- the components of table_ok ----------------------------------------------------------------- *)
Lemma is_nil_true : forall {A} (l : list A), match l with [] => true | _ => false end = true -> l = [].
Proof. intros A [|a l] H; [reflexivity | discriminate]. Qed.

Lemma table_ok_elim : forall af afl (fields : list field) (flags : list flag),
  table_ok veqb af afl fields flags = true ->
  unreached_flags af fields flags = [] /\
  unkeyed_fields afl fields = [] /\
  coherentb veqb fields flags = true /\
  yaml_disagree fields = [] /\
  prefixed_fields fields = [] /\
  NoDup (map f_path (filter settable fields)) /\
  NoDup (map (fun g => strip (g_name g)) flags).
Proof.
  intros af afl fields flags H. unfold table_ok in H.
  repeat (apply andb_true_iff in H; destruct H as [H ?]).
  repeat split; try (apply is_nil_true; assumption); try assumption; apply nodupb_NoDup; assumption.
Qed.

Lemma unprefixed_of_table : forall (fields : list field),
  prefixed_fields fields = [] -> forall f, In f fields -> String.prefix cfg_prefix (f_path f) = false.
Proof.
  intros fields H f Hin. unfold prefixed_fields in H. apply map_nil_inv in H.
  exact (filter_nil_forall _ _ H f Hin).
Qed.

Lemma arg_for_is_flag_value : forall (args : cargs V) (f : field),
  String.prefix cfg_prefix (f_path f) = false ->
  arg_for args (f_path f) = flag_value args f.
Proof.
  intros args f Hp. unfold arg_for, flag_value. apply lookup_last_by_ext.
  intros n. apply strip_names. exact Hp.
Qed.

Lemma flag_default_coherent : forall (fields : list field) (flags : list flag) f g,
  coherentb veqb fields flags = true ->
  In f fields -> settable f = true ->
  flag_for flags (f_path f) = Some g ->
  g_def g = f_def f.
Proof.
  intros fields flags f g Hc Hf Hs Hg. unfold flag_for in Hg.
  apply find_some in Hg. destruct Hg as [Hgin Hgeq].
  unfold coherentb in Hc. rewrite forallb_forall in Hc. specialize (Hc g Hgin).
  rewrite forallb_forall in Hc. specialize (Hc f Hf).
  rewrite Hs, Hgeq in Hc. cbn in Hc. apply veqb_eq. exact Hc.
Qed.

(* ---- flag > file > default ---------------------------------------------------------------------- *)
Theorem precedence : forall af afl (fields : list field) (flags : list flag),
  table_ok veqb af afl fields flags = true ->
  forall f, In f fields -> settable f = true ->
  forall (file : cfile V) (args : cargs V) (home : V),
    load1 flags file args home f = resolve (f_def f) (lookup (f_path f) file) (flag_value args f).
Proof.
  intros af afl fields flags Hok f Hf Hs file args home.
  destruct (table_ok_elim _ _ _ _ Hok) as (_ & _ & Hc & _ & Hp & _ & _).
  pose proof (unprefixed_of_table _ Hp f Hf) as Hpf.
  unfold load1. rewrite Hs. rewrite (arg_for_is_flag_value args f Hpf).
  unfold resolve. destruct (flag_value args f) as [v|]; [reflexivity|].
  destruct (lookup (f_path f) file) as [v|]; [reflexivity|].
  destruct (flag_for flags (f_path f)) as [g|] eqn:Hg; [|reflexivity].
  eapply flag_default_coherent; eassumption.
Qed.

(* ---- every registered flag reaches the option it names ------------------------------------------ *)
Definition names (g : flag) (f : field) : Prop :=
  g_name g = f_path f \/ g_name g = cfg_prefix ++ f_path f.

Lemma namesb_names : forall (g : flag) (f : field), namesb (g_name g) (f_path f) = true <-> names g f.
Proof.
  intros g f. unfold namesb, names. rewrite orb_true_iff, !String.eqb_eq. reflexivity.
Qed.

Theorem every_flag_reaches : forall af afl (fields : list field) (flags : list flag),
  table_ok veqb af afl fields flags = true ->
  forall g, In g flags -> ~ In (g_name g) af ->
  exists f, In f fields /\ settable f = true /\ names g f /\ g_kind g = f_kind f /\
    forall (file : cfile V) (args : cargs V) (home v : V),
      load1 flags file (args ++ [(g_name g, v)])%list home f = v.
Proof.
  intros af afl fields flags Hok g Hg Hna.
  destruct (table_ok_elim _ _ _ _ Hok) as (Hu & _ & _ & _ & Hp & _ & _).
  unfold unreached_flags in Hu. apply map_nil_inv in Hu.
  pose proof (filter_nil_forall _ _ Hu g Hg) as Hr. cbn in Hr.
  assert (Hm : mem (g_name g) af = false).
  { destruct (mem (g_name g) af) eqn:E; [|reflexivity]. apply mem_In in E. contradiction. }
  rewrite Hm in Hr. cbn in Hr. apply negb_false_iff in Hr.
  unfold reachesb in Hr. apply existsb_exists in Hr. destruct Hr as [f [Hf Hr]].
  apply andb_true_iff in Hr. destruct Hr as [Hr Hk]. apply andb_true_iff in Hr. destruct Hr as [Hs Hn].
  pose proof (unprefixed_of_table _ Hp f Hf) as Hpf.
  exists f. split; [exact Hf|]. split; [exact Hs|].
  assert (Hnm : namesb (g_name g) (f_path f) = true) by (rewrite <- strip_names by exact Hpf; exact Hn).
  split; [apply namesb_names; exact Hnm|].
  split.
  { destruct (g_kind g), (f_kind f); cbn in Hk; try discriminate; reflexivity. }
  intros file args home v.
  rewrite (precedence _ _ _ _ Hok f Hf Hs). unfold flag_value.
  rewrite lookup_last_by_snoc_hit by exact Hnm. reflexivity.
Qed.

(* ---- every option can be set from the configuration file ----------------------------------------- *)
Theorem every_field_has_a_file_key : forall af afl (fields : list field) (flags : list flag),
  table_ok veqb af afl fields flags = true ->
  forall f, In f fields -> ~ In (f_go f) afl ->
  settable f = true /\
  forall (file : cfile V) (home v : V),
    lookup (f_path f) file = Some v -> load1 flags file [] home f = v.
Proof.
  intros af afl fields flags Hok f Hf Hna.
  destruct (table_ok_elim _ _ _ _ Hok) as (_ & Hu & _ & _ & _ & _ & _).
  unfold unkeyed_fields in Hu. apply map_nil_inv in Hu.
  pose proof (filter_nil_forall _ _ Hu f Hf) as Hr. cbn in Hr.
  assert (Hm : mem (f_go f) afl = false).
  { destruct (mem (f_go f) afl) eqn:E; [|reflexivity]. apply mem_In in E. contradiction. }
  rewrite Hm in Hr. cbn in Hr. apply negb_false_iff in Hr.
  split; [exact Hr|].
  intros file home v Hl.
  rewrite (precedence _ _ _ _ Hok f Hf Hr). unfold flag_value, lookup_last_by. cbn.
  rewrite Hl. reflexivity.
Qed.

(* ---- a configuration written to disk loads back equal -------------------------------------------- *)
Lemma lookup_save : forall (fields : list field) (cfg : list V),
  yaml_disagree fields = [] ->
  NoDup (map f_path (filter settable fields)) ->
  forall f v, In (f, v) (combine fields cfg) -> settable f = true ->
  lookup (f_path f) (save fields cfg) = Some v.
Proof.
  induction fields as [|f0 fs IH]; intros cfg Hy Hnd f v Hin Hs; [contradiction|].
  destruct cfg as [|v0 vs]; [contradiction|].
  assert (Hy0 : String.eqb (f_yaml f0) (f_path f0) = true /\ yaml_disagree fs = []).
  { unfold yaml_disagree in *. cbn in Hy. destruct (String.eqb (f_yaml f0) (f_path f0)); cbn in Hy;
      [split; [reflexivity | exact Hy] | discriminate]. }
  destruct Hy0 as [Hy0 Hys]. apply String.eqb_eq in Hy0.
  cbn [save]. cbn [combine] in Hin.
  destruct (settable f0) eqn:Hs0.
  - (* f0 is written *)
    assert (Hw : String.eqb (f_yaml f0) "-" = false).
    { unfold settable in Hs0. rewrite Hy0. apply negb_true_iff in Hs0. exact Hs0. }
    rewrite Hw. cbn [lookup]. rewrite Hy0.
    cbn [filter] in Hnd. rewrite Hs0 in Hnd. cbn [map] in Hnd. inversion Hnd as [|x l Hnotin Hnd']. subst.
    destruct Hin as [E|Hin].
    + inversion E. subst. rewrite String.eqb_refl. reflexivity.
    + destruct (String.eqb_spec (f_path f) (f_path f0)) as [E|E].
      * exfalso. apply Hnotin. rewrite <- E. apply in_map. apply filter_In. split; [|exact Hs].
        eapply in_combine_l. exact Hin.
      * apply IH; assumption.
  - (* f0 is skipped *)
    assert (Hw : String.eqb (f_yaml f0) "-" = true).
    { unfold settable in Hs0. rewrite Hy0. apply negb_false_iff in Hs0. exact Hs0. }
    rewrite Hw.
    cbn [filter] in Hnd. rewrite Hs0 in Hnd.
    destruct Hin as [E|Hin].
    + inversion E. subst. congruence.
    + apply IH; assumption.
Qed.

Theorem save_load : forall af afl (fields : list field) (flags : list flag),
  table_ok veqb af afl fields flags = true ->
  forall (cfg : list V) (home : V),
    List.length cfg = List.length fields ->
    (forall f v, In (f, v) (combine fields cfg) -> settable f = false -> v = home) ->
    load fields flags (save fields cfg) [] home = cfg.
Proof.
  intros af afl fields flags Hok cfg home Hlen Hhome.
  destruct (table_ok_elim _ _ _ _ Hok) as (_ & _ & _ & Hy & _ & Hnd & _).
  unfold load. apply map_combine_eq; [symmetry; exact Hlen|].
  intros f v Hin. unfold load1.
  destruct (settable f) eqn:Hs.
  - unfold arg_for, lookup_last_by. cbn [fold_left].
    rewrite (lookup_save fields cfg Hy Hnd f v Hin Hs). reflexivity.
  - symmetry. apply Hhome with f; assumption.
Qed.

(* the same through the YAML libraries, for configurations whose scalars the writer/reader pair preserves *)
Lemma reread_fixed : forall (rt : V -> V) (fields : list field) (cfg : list V),
  (forall v, In v cfg -> rt v = v) -> reread rt true (save fields cfg) = save fields cfg.
Proof.
  intros rt. unfold reread.
  induction fields as [|f fs IH]; intros cfg H; [reflexivity|].
  destruct cfg as [|v vs]; [reflexivity|].
  cbn [save]. destruct (String.eqb (f_yaml f) "-").
  - apply IH. intros x Hx. apply H. right. exact Hx.
  - cbn [map fst snd]. rewrite (H v (or_introl eq_refl)). f_equal.
    apply IH. intros x Hx. apply H. right. exact Hx.
Qed.

Theorem save_load_through_yaml : forall af afl (fields : list field) (flags : list flag),
  table_ok veqb af afl fields flags = true ->
  forall (rt : V -> V) (parses : bool) (cfg : list V) (home : V),
    parses = true -> (forall v, In v cfg -> rt v = v) ->
    List.length cfg = List.length fields ->
    (forall f v, In (f, v) (combine fields cfg) -> settable f = false -> v = home) ->
    load fields flags (reread rt parses (save fields cfg)) [] home = cfg.
Proof.
  intros af afl fields flags Hok rt parses cfg home -> Hrt Hlen Hhome.
  rewrite reread_fixed by exact Hrt. eapply save_load; eassumption.
Qed.

(* ---- the configuration directory: the file consulted is exactly <home>/config/<config_name> --------- *)
Lemma dlookup_app_other : forall (name n : string) (c : dcontent V) (d1 d2 : cdir V),
  n <> name -> dlookup name (d1 ++ (n, c) :: d2)%list = dlookup name (d1 ++ d2)%list.
Proof.
  intros name n c d1 d2 Hne. induction d1 as [|[n1 c1] d1 IH]; cbn.
  - destruct (String.eqb_spec name n) as [E|_]; [congruence | reflexivity].
  - destruct (String.eqb name n1); [reflexivity | exact IH].
Qed.

(* a Load depends on the directory ONLY through the entry called config_name *)
Theorem config_file_pinned : forall (cn : string) (fields : list field) (flags : list flag) (d d' : cdir V)
  (args : cargs V) (home : V),
  dlookup cn d = dlookup cn d' ->
  load_dir cn fields flags d args home = load_dir cn fields flags d' args home.
Proof. intros cn fields flags d d' args home H. unfold load_dir, consulted. rewrite H. reflexivity. Qed.

(* any other file — whatever its name (evnode.json, evnode.toml, evnode.yml, evnode, a backup ...), its content
   and its place in the directory — changes nothing *)
Theorem siblings_ignored : forall (cn : string) (fields : list field) (flags : list flag) (d1 d2 : cdir V)
  (name : string) (c : dcontent V) (args : cargs V) (home : V),
  name <> cn ->
  load_dir cn fields flags (d1 ++ (name, c) :: d2)%list args home = load_dir cn fields flags (d1 ++ d2)%list args home.
Proof.
  intros cn fields flags d1 d2 name c args home Hne. apply config_file_pinned.
  apply dlookup_app_other. exact Hne.
Qed.

(* with only other files there (no config_name entry, or one that cannot be read as YAML): the defaults *)
Theorem no_config_file_is_empty_file : forall (cn : string) (fields : list field) (flags : list flag) (d : cdir V)
  (args : cargs V) (home : V),
  (dlookup cn d = None \/ dlookup cn d = Some DOpaque) ->
  load_dir cn fields flags d args home = load fields flags [] args home.
Proof. intros cn fields flags d args home [H|H]; unfold load_dir, consulted; rewrite H; reflexivity. Qed.

(* flag > file > default where "file" is the entry config_name of the directory and nothing else *)
Theorem precedence_dir : forall af afl (fields : list field) (flags : list flag),
  table_ok veqb af afl fields flags = true ->
  forall f, In f fields -> settable f = true ->
  forall (cn : string) (d : cdir V) (args : cargs V) (home : V),
    load1 flags (consulted cn d) args home f = resolve (f_def f) (file_value cn d f) (flag_value args f).
Proof.
  intros af afl fields flags Hok f Hf Hs cn d args home.
  rewrite (precedence _ _ _ _ Hok f Hf Hs). unfold consulted, file_value.
  destruct (dlookup cn d) as [[file|]|]; reflexivity.
Qed.

(* SaveAsYaml then Load in a directory holding ANYTHING else (stale copies under other extensions, an older
   configuration under config_name itself, unreadable entries) gives back the configuration written *)
Theorem save_load_dir : forall af afl (fields : list field) (flags : list flag),
  table_ok veqb af afl fields flags = true ->
  forall (cn : string) (d : cdir V) (cfg : list V) (home : V),
    List.length cfg = List.length fields ->
    (forall f v, In (f, v) (combine fields cfg) -> settable f = false -> v = home) ->
    load_dir cn fields flags (save_dir cn fields cfg d) [] home = cfg.
Proof.
  intros af afl fields flags Hok cn d cfg home Hlen Hhome.
  unfold load_dir, save_dir, dwrite, consulted. cbn [dlookup]. rewrite String.eqb_refl.
  eapply save_load; eassumption.
Qed.

(* ... and writing other files AFTER the save does not change that either *)
Theorem save_load_dir_later_siblings : forall af afl (fields : list field) (flags : list flag),
  table_ok veqb af afl fields flags = true ->
  forall (cn : string) (d : cdir V) (later : cdir V) (cfg : list V) (home : V),
    (forall n c, In (n, c) later -> n <> cn) ->
    List.length cfg = List.length fields ->
    (forall f v, In (f, v) (combine fields cfg) -> settable f = false -> v = home) ->
    load_dir cn fields flags (later ++ save_dir cn fields cfg d)%list [] home = cfg.
Proof.
  intros af afl fields flags Hok cn d later cfg home Hl Hlen Hhome.
  induction later as [|[n c] later IH].
  - cbn [app]. eapply save_load_dir; eassumption.
  - cbn [app].
    pose proof (siblings_ignored cn fields flags [] (later ++ save_dir cn fields cfg d)%list n c [] home) as Hs.
    cbn [app] in Hs. rewrite Hs.
    + apply IH. intros n' c' Hin. apply (Hl n' c'). right. exact Hin.
    + apply (Hl n c). left. reflexivity.
Qed.

End WithValues.

(* the full statement (for whatever the YAML libraries do to a scalar) is false: one scalar that does not
   survive the writer/reader pair, or a written document that does not parse, and the loaded configuration
   differs from the written one *)
Definition rf_fields : list (field N) :=
  [ {| f_go := "RootDir"; f_path := "-"; f_yaml := "-"; f_kind := KString; f_def := 0%N |};
    {| f_go := "DA.Namespace"; f_path := "da.namespace"; f_yaml := "da.namespace"; f_kind := KString; f_def := 0%N |} ].

Theorem save_load_refuted_by_mangled_scalar : forall (rt : N -> N) (v : N), rt v <> v ->
  exists (fields : list (field N)) (flags : list (flag N)) (cfg : list N) (home : N),
    table_ok N.eqb allow_flags allow_fields fields flags = true /\
    List.length cfg = List.length fields /\
    (forall f x, In (f, x) (combine fields cfg) -> settable f = false -> x = home) /\
    load fields flags (reread rt true (save fields cfg)) [] home <> cfg.
Proof.
  intros rt v Hv. exists rf_fields, [], [7%N; v], 7%N.
  split; [vm_compute; reflexivity|]. split; [reflexivity|]. split.
  - intros f x [E|[E|[]]] Hs; inversion E; subst; [reflexivity | cbn in Hs; discriminate].
  - vm_compute. intros E. inversion E. contradiction.
Qed.

Theorem save_load_refuted_by_unparsable_file :
  exists (fields : list (field N)) (flags : list (flag N)) (cfg : list N) (home : N),
    table_ok N.eqb allow_flags allow_fields fields flags = true /\
    List.length cfg = List.length fields /\
    load fields flags (reread (fun x => x) false (save fields cfg)) [] home <> cfg.
Proof.
  exists rf_fields, [], [7%N; 1%N], 7%N.
  split; [vm_compute; reflexivity|]. split; [reflexivity|]. vm_compute. intros E. discriminate.
Qed.

(* ---- genesis -------------------------------------------------------------------------------------- *)
Lemma gvalidate_iff : forall g,
  gvalidate g = true <->
  gn_chain g <> "" /\ (1 <= gn_initial g)%N /\ gn_time g <> 0%Z /\ gn_proposer g <> None.
Proof.
  intros g. unfold gvalidate. rewrite !andb_true_iff, !negb_true_iff.
  rewrite N.leb_le, Z.eqb_neq.
  split.
  - intros [[[H1 H2] H3] H4]. repeat split; try assumption.
    + intros E. rewrite E in H1. cbn in H1. discriminate.
    + destruct (gn_proposer g); [discriminate | discriminate].
  - intros (H1 & H2 & H3 & H4). repeat split; try assumption.
    + destruct (String.eqb_spec (gn_chain g) ""); [contradiction | reflexivity].
    + destruct (gn_proposer g); [reflexivity | contradiction].
Qed.

Theorem genesis_roundtrip : forall g, gvalidate g = true -> gload (gsave g) = Some g.
Proof. intros g H. unfold gsave, gload. rewrite H. reflexivity. Qed.

Theorem genesis_invalid_refused : forall f,
  (forall g, f = GJson g -> gvalidate g = false) -> gload f = None.
Proof.
  intros [| |g|g n m] H; cbn; try reflexivity.
  rewrite (H g eq_refl). reflexivity.
Qed.

Theorem genesis_load_sound : forall f g, gload f = Some g -> f = GJson g /\ gvalidate g = true.
Proof.
  intros [| |g'|g' n m] g H; cbn in H; try discriminate.
  destruct (gvalidate g') eqn:E; [|discriminate]. inversion H. subst. split; [reflexivity | exact E].
Qed.

(* ---- the text at the path as a sequence of top-level items ------------------------------------------- *)
(* a complete genesis object followed by anything that is not white space is refused, however valid the
   object in front is *)
Theorem genesis_trailing_refused : forall g next more, gload (GSeveral g next more) = None.
Proof. reflexivity. Qed.

Theorem genesis_text_trailing_refused : forall g next more, gload (gtext (IObj g :: next :: more)) = None.
Proof. reflexivity. Qed.

(* LoadGenesis returns a genesis only when the text consists of exactly ONE item, that item is an object
   decoding to the genesis returned, and it is valid *)
Theorem genesis_text_load_sound : forall items g,
  gload (gtext items) = Some g -> items = [IObj g] /\ gvalidate g = true.
Proof.
  intros [|[g'|] [|n m]] g H; cbn in H; try discriminate.
  destruct (gvalidate g') eqn:E; [|discriminate]. inversion H. subst. split; [reflexivity | exact E].
Qed.

Theorem genesis_text_load_iff : forall items g,
  gload (gtext items) = Some g <-> items = [IObj g] /\ gvalidate g = true.
Proof.
  intros items g. split; [apply genesis_text_load_sound|].
  intros [-> H]. cbn. rewrite H. reflexivity.
Qed.

(* appending anything (not white space) to a non-empty text gives a refused text — also when the text in front
   was an accepted one: acceptance looks at the whole text *)
Theorem genesis_text_append_refused : forall first items extra,
  extra <> [] -> gload (gtext (first :: items ++ extra)%list) = None.
Proof.
  intros first items extra Hne.
  destruct (gload (gtext (first :: items ++ extra)%list)) eqn:E; [|reflexivity].
  apply genesis_text_load_sound in E. destruct E as [E _]. inversion E as [[H1 H2]].
  destruct items; [destruct extra; [contradiction|discriminate] | discriminate].
Qed.

(* saving over whatever was at the path (a longer or shorter genesis, junk, nothing) and loading gives the
   genesis just saved *)
Lemma gputs_last : forall ws start w, gputs start (ws ++ [w])%list = w.
Proof. intros ws start w. unfold gputs. rewrite fold_left_app. reflexivity. Qed.

Theorem genesis_overwrite : forall (start : gfile) (ws : list gfile) (g : genesis),
  gvalidate g = true -> gload (gputs start (ws ++ [gsave g])%list) = Some g.
Proof. intros start ws g H. rewrite gputs_last. apply genesis_roundtrip. exact H. Qed.

Theorem genesis_overwrite_invalid : forall (start : gfile) (ws : list gfile) (g : genesis),
  gvalidate g = false -> gload (gputs start (ws ++ [gsave g])%list) = None.
Proof. intros start ws g H. rewrite gputs_last. unfold gsave, gload. rewrite H. reflexivity. Qed.

(* ---- NewGenesis / CreateGenesis: the arguments are stored as given -------------------------------- *)
Theorem gnew_valid_iff : forall c i t p,
  gvalidate (gnew c i t p) = true <-> c <> "" /\ (1 <= i)%N /\ t <> 0%Z /\ p <> None.
Proof. intros c i t p. rewrite gvalidate_iff. cbn. reflexivity. Qed.

(* in particular an EMPTY BUT NON-NIL proposer address is a valid genesis ... *)
Theorem gnew_empty_proposer_valid : forall c i t,
  c <> "" -> (1 <= i)%N -> t <> 0%Z -> gvalidate (gnew c i t (Some empty_bytes)) = true.
Proof. intros c i t Hc Hi Ht. apply gnew_valid_iff. repeat split; try assumption. discriminate. Qed.

(* ... and what NewGenesis built from valid arguments, saved, loads back with exactly those arguments
   (proposer: nil / empty / bytes kept apart) *)
Theorem genesis_new_roundtrip : forall c i t p,
  c <> "" -> (1 <= i)%N -> t <> 0%Z -> p <> None ->
  gload (gsave (gnew c i t p)) = Some {| gn_chain := c; gn_time := t; gn_initial := i; gn_proposer := p |}.
Proof.
  intros c i t p Hc Hi Ht Hp. apply genesis_roundtrip. apply gnew_valid_iff. repeat split; assumption.
Qed.

Theorem genesis_new_invalid_refused : forall c i t p,
  (c = "" \/ (i < 1)%N \/ t = 0%Z \/ p = None) -> gload (gsave (gnew c i t p)) = None.
Proof.
  intros c i t p H. unfold gsave, gload.
  destruct (gvalidate (gnew c i t p)) eqn:E; [|reflexivity].
  apply gnew_valid_iff in E. destruct E as (Hc & Hi & Ht & Hp).
  destruct H as [H|[H|[H|H]]]; [contradiction | lia | contradiction | contradiction].
Qed.

(* CreateGenesis where nothing lies: the file it writes loads back as the arguments; where something lies:
   refused and untouched *)
Theorem genesis_create_roundtrip : forall c i now p,
  c <> "" -> (1 <= i)%N -> now <> 0%Z -> p <> None ->
  gcreate GAbsent c i now p = (gsave (gnew c i now p), true) /\
  gload (fst (gcreate GAbsent c i now p)) = Some {| gn_chain := c; gn_time := now; gn_initial := i; gn_proposer := p |}.
Proof.
  intros c i now p Hc Hi Ht Hp. split; [reflexivity|]. cbn [gcreate fst]. apply genesis_new_roundtrip; assumption.
Qed.

Theorem genesis_create_keeps_existing : forall f c i now p,
  f <> GAbsent -> gcreate f c i now p = (f, false).
Proof. intros [| |g|g n m] c i now p H; [contradiction | reflexivity | reflexivity | reflexivity]. Qed.
