(* Proofs/ProducerProofs.v — all lemmas about Model/Producer.v (C01, C04). *)
From Coq Require Import String Ascii NArith ZArith List Bool Lia ZifyBool ZifyN ZifyNat.
From Verif Require Import Base.KV Base.Keys Model.Types Model.Producer.
Import ListNotations.
Open Scope string_scope.
Open Scope list_scope.
Open Scope N_scope.

(* ================================================================================================ *)
(* 1. keys and accessors                                                                            *)
(* ================================================================================================ *)

Lemma block_key_inj n m : block_key n = block_key m -> n = m.
Proof. unfold block_key; intros H. apply append_inj_r in H. apply dec_inj; exact H. Qed.

Lemma block_key_eqb n m : String.eqb (block_key n) (block_key m) = (n =? m).
Proof.
  destruct (N.eqb_spec n m) as [->|Hne].
  - apply String.eqb_refl.
  - apply String.eqb_neq. intros H; apply Hne, block_key_inj, H.
Qed.

Lemma hk_bk n : String.eqb height_key (block_key n) = false. Proof. reflexivity. Qed.
Lemma sk_bk n : String.eqb state_key (block_key n) = false. Proof. reflexivity. Qed.
Lemma ck_bk n : String.eqb cursor_key (block_key n) = false. Proof. reflexivity. Qed.
Lemma bk_hk n : String.eqb (block_key n) height_key = false. Proof. reflexivity. Qed.
Lemma bk_sk n : String.eqb (block_key n) state_key = false. Proof. reflexivity. Qed.
Lemma bk_ck n : String.eqb (block_key n) cursor_key = false. Proof. reflexivity. Qed.

(* the four kinds of writes, seen through the four reads *)
Lemma aw_height (m : img) n :
  g_height (apply_write m (w_height n)) = n /\
  g_state (apply_write m (w_height n)) = g_state m /\
  g_cursor (apply_write m (w_height n)) = g_cursor m /\
  forall k, g_block (apply_write m (w_height n)) k = g_block m k.
Proof.
  unfold g_height, g_state, g_cursor, g_block, w_height; cbn [apply_write apply_prim].
  rewrite !kv_get_put. repeat split.
Qed.

Lemma aw_state (m : img) s :
  g_height (apply_write m (w_state s)) = g_height m /\
  g_state (apply_write m (w_state s)) = Some s /\
  g_cursor (apply_write m (w_state s)) = g_cursor m /\
  forall k, g_block (apply_write m (w_state s)) k = g_block m k.
Proof.
  unfold g_height, g_state, g_cursor, g_block, w_state; cbn [apply_write apply_prim].
  rewrite !kv_get_put. repeat split.
Qed.

Lemma aw_cursor (m : img) x :
  g_height (apply_write m (w_cursor x)) = g_height m /\
  g_state (apply_write m (w_cursor x)) = g_state m /\
  g_cursor (apply_write m (w_cursor x)) = x /\
  forall k, g_block (apply_write m (w_cursor x)) k = g_block m k.
Proof.
  unfold g_height, g_state, g_cursor, g_block, w_cursor; cbn [apply_write apply_prim].
  rewrite !kv_get_put. repeat split.
Qed.

Lemma aw_block (m : img) n b :
  g_height (apply_write m (w_block n b)) = g_height m /\
  g_state (apply_write m (w_block n b)) = g_state m /\
  g_cursor (apply_write m (w_block n b)) = g_cursor m /\
  forall k, g_block (apply_write m (w_block n b)) k = if k =? n then Some b else g_block m k.
Proof.
  unfold g_height, g_state, g_cursor, g_block, w_block; cbn [apply_write apply_prim fold_left].
  rewrite !kv_get_put, hk_bk, sk_bk, ck_bk. repeat split. intros k. rewrite kv_get_put, block_key_eqb.
  destruct (k =? n); reflexivity.
Qed.

Lemma apply_writes_cons (m : img) w ws : apply_writes m (w :: ws) = apply_writes (apply_write m w) ws.
Proof. reflexivity. Qed.
Lemma aws_app (m : img) (a b : list wr) : apply_writes m (a ++ b) = apply_writes (apply_writes m a) b.
Proof. apply apply_writes_app. Qed.
Lemma apply_writes_nil (m : img) : apply_writes m [] = m.
Proof. reflexivity. Qed.

(* ================================================================================================ *)
(* 2. symbolic equality tests                                                                       *)
(* ================================================================================================ *)

Lemma commitment_eqb_refl a : commitment_eqb a a = true.
Proof. induction a as [|x a IH]; cbn; [reflexivity|]. rewrite N.eqb_refl; exact IH. Qed.

Lemma addr_eqb_refl a : addr_eqb a a = true.
Proof. destruct a; cbn; try apply N.eqb_refl; reflexivity. Qed.

Lemma addr_eqb_eq a b : addr_eqb a b = true -> a = b.
Proof. destruct a, b; cbn; intros H; try discriminate H; try reflexivity; apply N.eqb_eq in H; subst; reflexivity. Qed.

Fixpoint header_eqb_refl (h : header) : header_eqb h h = true.
Proof.
  destruct h as [ht tm ch la da ap pr].
  cbn [header_eqb h_height h_time h_chain h_last h_data h_app h_proposer].
  rewrite !N.eqb_refl, Z.eqb_refl, commitment_eqb_refl, addr_eqb_refl.
  destruct la as [p|]; [rewrite (header_eqb_refl p)|]; reflexivity.
Qed.

(* what a successful validation says about the header *)
Lemma validate_facts s sh d :
  validate s sh d = true ->
  h_height (sh_hdr sh) = s_height s + 1 /\
  h_chain (sh_hdr sh) = s_chain s /\
  h_app (sh_hdr sh) = s_app s /\
  (1 < h_height (sh_hdr sh) -> (s_time s <= h_time (sh_hdr sh))%Z) /\
  commitment_eqb (d_txs d) (h_data (sh_hdr sh)) = true /\
  h_proposer (sh_hdr sh) = sg_addr (sh_signer sh) /\
  validate_basic sh = true.
Proof.
  unfold validate, validate_pair. rewrite !andb_true_iff.
  intros [[[[[Hb [_ Hc]] Hch] Hh] Ht] Ha].
  repeat split; try lia; try assumption.
  unfold validate_basic in Hb. rewrite !andb_true_iff in Hb. destruct Hb as [[[_ _] Hp] _].
  apply addr_eqb_eq; exact Hp.
Qed.

(* ================================================================================================ *)
(* 3. the specification of a valid chain                                                            *)
(* ================================================================================================ *)

Lemma chain_height c blocks built execs r0 n s :
  chain c blocks built execs r0 n s ->
  s_height s = n /\ c_initial c - 1 <= n /\ s_chain s = c_chain c /\ s_initial s = c_initial c.
Proof.
  induction 1 as [|n s b r Hc IH Hb Hv].
  - cbn. repeat split; lia.
  - destruct IH as (Hh & Hle & Hch & Hin). destruct Hv as (Hval & _).
    apply validate_facts in Hval. destruct Hval as (Hhh & _).
    cbn [next_state s_height s_chain s_initial]. unfold hdr_of. repeat split; try lia; assumption.
Qed.

Lemma chain_mono c blocks blocks' built built' execs execs' r0 n s :
  chain c blocks built execs r0 n s ->
  (forall k, k <= n -> blocks' k = blocks k) -> incl built built' -> incl execs execs' ->
  chain c blocks' built' execs' r0 n s.
Proof.
  induction 1 as [|n s b r Hc IH Hb Hv]; intros Hbl Hbu Hex.
  - constructor.
  - pose proof (chain_height _ _ _ _ _ _ _ Hc) as (Hh & Hle & _).
    constructor.
    + apply IH; try assumption. intros k Hk; apply Hbl; lia.
    + rewrite Hbl by lia. exact Hb.
    + destruct Hv as (Hval & Hl & Hs & Hi & He).
      pose proof (validate_facts _ _ _ Hval) as (Hhh & _). unfold hdr_of in *.
      split; [exact Hval|]. split; [|split; [exact Hs|split; [apply Hbu, Hi|apply Hex, He]]].
      unfold hdr_of. rewrite Hl. unfold link. destruct (_ <=? _); [reflexivity|]. rewrite Hbl by lia. reflexivity.
Qed.

Lemma chain_tip c blocks built execs r0 n s :
  1 <= c_initial c ->
  chain c blocks built execs r0 n s -> c_initial c <= n ->
  exists b, blocks n = Some b /\ s_time s = h_time (hdr_of b) /\ h_height (hdr_of b) = n.
Proof.
  intros Hwf Hc Hn. inversion Hc as [Heq|n0 s0 b r Hc0 Hb Hv Heq Hs].
  - lia.
  - exists b. split; [exact Hb|]. split; [reflexivity|].
    destruct Hv as (Hval & _). apply validate_facts in Hval. destruct Hval as (Hh & _).
    apply chain_height in Hc0. unfold hdr_of. lia.
Qed.

(* every height of [initial, n] holds a block *)
Lemma chain_blocks c blocks built execs r0 n s :
  1 <= c_initial c ->
  chain c blocks built execs r0 n s -> forall k, c_initial c <= k -> k <= n -> exists b, blocks k = Some b /\ h_height (hdr_of b) = k.
Proof.
  intros Hwf. induction 1 as [|n s b r Hc IH Hb Hv]; intros k Hk1 Hk2.
  - lia.
  - destruct (N.eq_dec k (n + 1)) as [->|Hne].
    + exists b; split; [exact Hb|]. destruct Hv as (Hval & _). apply validate_facts in Hval.
      apply chain_height in Hc. unfold hdr_of. lia.
    + apply IH; lia.
Qed.

(* ================================================================================================ *)
(* 4. invariants                                                                                    *)
(* ================================================================================================ *)

Lemma final_hdr c b : hdr_of (final_block c b) = hdr_of b. Proof. reflexivity. Qed.
Lemma final_txs c b : d_txs (b_data (final_block c b)) = d_txs (b_data b). Proof. reflexivity. Qed.
Lemma final_final c b : final_block c (final_block c b) = final_block c b. Proof. reflexivity. Qed.

Lemma incl_log_opt {A} (l : list A) x : incl l (log_opt l x).
Proof. destruct x; cbn; [apply incl_tl|]; apply incl_refl. Qed.
Lemma incl_log_execs l r a : incl l (log_execs l r a).
Proof.
  unfold log_execs. destruct (a_call r) as [[[[n t] z] p]|]; [|apply incl_refl].
  destruct (exec_ret a); [apply incl_tl|]; apply incl_refl.
Qed.

Ltac splits := repeat match goal with |- ?G => let G' := eval hnf in G in match G' with _ /\ _ => split end end.

Section Inv.
Variable c : cfg.
Hypothesis Hwf : wf_cfg c.

Definition live (s : cstate) (b : blk) : Prop :=
  validate s (b_sh (final_block c b)) (b_data (final_block c b)) = true.

Definition pend_ok (m : img) (built : list (N * list tx * Z)) (s : cstate) (n : N) (b : blk) : Prop :=
  h_last (hdr_of b) = link c (g_block m) n /\ sh_signer (b_sh b) = mk_signer c /\
  In (n, d_txs (b_data b), h_time (hdr_of b)) built /\ live s b.

(* the durable part: holds at every instant, also of the image a dead process leaves behind.  The chain is
   valid up to the height n of the RECORDED STATE; the store height is n, or n-1 after a crash between the
   state write and the height write (start-up raises it) *)
Definition DInv (m : img) (inits : list root) built execs : Prop :=
  match g_state m with
  | Some s => (exists r0, In r0 inits /\ chain c (g_block m) built execs r0 (s_height s) s) /\ c_initial c <= s_height s /\
              s_height s <= g_height m + 1 /\ g_height m <= s_height s /\
              (forall b, g_block m (s_height s + 1) = Some b -> pend_ok m built s (s_height s + 1) b) /\
              (forall k, s_height s + 1 < k -> g_block m k = None)
  | None => g_height m <= c_initial c - 1 /\ (forall k, c_initial c < k -> g_block m k = None)
  end.

(* what holds while a process runs with last state [s] *)
Definition RF (m : img) (inits : list root) built execs (s : cstate) : Prop :=
  let H := g_height m in
  (exists r0, In r0 inits /\ chain c (g_block m) built execs r0 H s) /\
  (forall b, g_block m (H + 1) = Some b -> pend_ok m built s (H + 1) b) /\
  (forall k, H + 1 < k -> g_block m k = None) /\
  ((g_state m = Some s /\ c_initial c <= H) \/
   (g_state m = None /\ H = c_initial c - 1 /\ exists b, g_block m (c_initial c) = Some b)).

Definition Inv (st : mach) : Prop :=
  DInv (img_of st) (g_inits st) (g_built st) (g_execs st) /\
  forall v, vol_of st = Some v -> RF (img_of st) (g_inits st) (g_built st) (g_execs st) (v_state v).

Lemma wf_initial : 1 <= c_initial c. Proof. exact (proj1 Hwf). Qed.
Lemma wf_gaddr : c_gaddr c = Addr (c_key c). Proof. exact (proj2 Hwf). Qed.

Lemma rf_height m inits built execs s : RF m inits built execs s -> s_height s = g_height m /\ c_initial c - 1 <= g_height m.
Proof. intros ((r0 & _ & Hc) & _). apply chain_height in Hc. split; apply Hc. Qed.

Lemma rf_dinv m inits built execs s : RF m inits built execs s -> DInv m inits built execs.
Proof.
  intros Hrf. pose proof (rf_height _ _ _ _ _ Hrf) as (Hsh & _).
  destruct Hrf as (Hch & Hp & Ha & [[Hs Hle]|(Hs & HH & _)]); unfold DInv; rewrite Hs.
  - rewrite Hsh. splits; try assumption; lia.
  - pose proof wf_initial. split; [lia|]. intros k Hk. apply Ha. lia.
Qed.

Lemma pend_mono m built built' s n b : incl built built' -> pend_ok m built s n b -> pend_ok m built' s n b.
Proof. intros Hi (A & B & C & D). splits; try assumption. apply Hi, C. Qed.

Lemma pend_blocks m m' built s n b :
  g_block m' (n - 1) = g_block m (n - 1) -> pend_ok m built s n b -> pend_ok m' built s n b.
Proof.
  intros He (A & B & C & D). splits; try assumption.
  rewrite A. unfold link. destruct (_ <=? _); [reflexivity|]. rewrite He. reflexivity.
Qed.

Lemma rf_mono m inits inits' built built' execs execs' s :
  incl inits inits' -> incl built built' -> incl execs execs' ->
  RF m inits built execs s -> RF m inits' built' execs' s.
Proof.
  intros Hi Hb He ((r0 & Hr & Hc) & Hp & Ha & Hs). splits.
  - exists r0. split; [apply Hi, Hr|]. eapply chain_mono; eauto.
  - intros b Hb'. eapply pend_mono; eauto.
  - exact Ha.
  - exact Hs.
Qed.

Lemma dinv_mono m inits inits' built built' execs execs' :
  incl inits inits' -> incl built built' -> incl execs execs' ->
  DInv m inits built execs -> DInv m inits' built' execs'.
Proof.
  intros Hi Hb He. unfold DInv. destruct (g_state m) as [s|]; [|tauto].
  intros ((r0 & Hr & Hc) & Hle & Hb1 & Hb2 & Hp & Ha). splits; try assumption.
  - exists r0. split; [apply Hi, Hr|]. eapply chain_mono; eauto.
  - intros b Hb'. eapply pend_mono; eauto.
Qed.

(* the durable invariant does not depend on the store height beyond the two bounds *)
Lemma dinv_transport m m' inits built execs s :
  g_state m = Some s -> g_state m' = Some s -> (forall k, g_block m' k = g_block m k) ->
  s_height s <= g_height m' + 1 -> g_height m' <= s_height s ->
  DInv m inits built execs -> DInv m' inits built execs.
Proof.
  intros Hs Hs' Hb B1 B2. unfold DInv. rewrite Hs, Hs'.
  intros ((r0 & Hr & Hc) & Hle & _ & _ & Hp & Ha). splits; try assumption.
  - exists r0. split; [exact Hr|]. eapply chain_mono; eauto using incl_refl.
  - intros b Hb'. rewrite Hb in Hb'. eapply pend_blocks; [|apply Hp, Hb']. apply Hb.
  - intros k Hk. rewrite Hb. apply Ha, Hk.
Qed.

(* ---- writes that do not commit ---- *)
Definition safe (m0 : img) built (s : cstate) (w : wr) : Prop :=
  (exists x, w = w_cursor x) \/
  (exists b, w = w_block (g_height m0 + 1) b /\ pend_ok m0 built s (g_height m0 + 1) b).

(* m has the height, state and lower blocks of m0 *)
Definition based (m0 m : img) : Prop :=
  g_height m = g_height m0 /\ g_state m = g_state m0 /\ forall k, k <= g_height m0 -> g_block m k = g_block m0 k.

Lemma based_refl m : based m m. Proof. splits; reflexivity. Qed.

Lemma rf_safe_write m0 m inits built execs s w :
  based m0 m -> safe m0 built s w -> RF m inits built execs s ->
  based m0 (apply_write m w) /\ RF (apply_write m w) inits built execs s.
Proof.
  intros (Bh & Bs & Bb) Hsafe ((r0 & Hr & Hc) & Hp & Ha & Hs).
  pose proof (chain_height _ _ _ _ _ _ _ Hc) as (Hsh & Hge & _).
  destruct Hsafe as [[x ->]|(b & -> & Hpb)].
  - destruct (aw_cursor m x) as (E1 & E2 & _ & E4).
    split; [splits; try congruence; intros k Hk; rewrite E4; apply Bb, Hk|].
    unfold RF. rewrite E1, E2. splits.
    + exists r0. split; [exact Hr|]. eapply chain_mono; eauto using incl_refl.
    + intros b Hb. rewrite E4 in Hb. eapply pend_blocks; [|apply Hp, Hb]. apply E4.
    + intros k Hk. rewrite E4. apply Ha, Hk.
    + destruct Hs as [Hs|(Hs1 & Hs2 & b & Hb)]; [left; exact Hs|right]. splits; try assumption.
      exists b. rewrite E4. exact Hb.
  - destruct (aw_block m (g_height m0 + 1) b) as (E1 & E2 & _ & E4).
    split.
    { splits; try congruence. intros k Hk. rewrite E4.
      destruct (N.eqb_spec k (g_height m0 + 1)); [lia|]. apply Bb, Hk. }
    unfold RF. rewrite E1, E2. splits.
    + exists r0. split; [exact Hr|]. eapply chain_mono; eauto using incl_refl.
      intros k Hk. rewrite E4. destruct (N.eqb_spec k (g_height m0 + 1)); [lia|reflexivity].
    + intros b' Hb'. rewrite E4, Bh, N.eqb_refl in Hb'. inversion Hb'; subst b'.
      rewrite Bh. eapply pend_blocks; [|exact Hpb].
      rewrite E4. replace (g_height m0 + 1 - 1) with (g_height m0) by lia.
      destruct (N.eqb_spec (g_height m0) (g_height m0 + 1)); [lia|]. apply Bb. lia.
    + intros k Hk. rewrite E4. destruct (N.eqb_spec k (g_height m0 + 1)); [lia|]. apply Ha, Hk.
    + destruct Hs as [Hs|(Hs1 & Hs2 & b' & Hb')]; [left; exact Hs|right]. splits; try assumption.
      rewrite E4. destruct (N.eqb_spec (c_initial c) (g_height m0 + 1)); [exists b; reflexivity|exists b'; exact Hb'].
Qed.

Lemma rf_safe_writes m0 inits built execs s ws : forall m,
  based m0 m -> Forall (safe m0 built s) ws -> RF m inits built execs s ->
  based m0 (apply_writes m ws) /\ RF (apply_writes m ws) inits built execs s.
Proof.
  induction ws as [|w ws IH]; intros m Hb Hf Hrf.
  - split; assumption.
  - inversion Hf as [|? ? Hw Hws]; subst.
    destruct (rf_safe_write _ _ _ _ _ _ _ Hb Hw Hrf) as (Hb' & Hrf').
    rewrite apply_writes_cons. apply IH; assumption.
Qed.

Lemma block_valid_blocks blocks blocks' built execs s b r :
  blocks' (h_height (hdr_of b) - 1) = blocks (h_height (hdr_of b) - 1) ->
  block_valid c blocks built execs s b r -> block_valid c blocks' built execs s b r.
Proof.
  intros He (A & B & C & D & E). splits; try assumption; try apply C.
  rewrite B. unfold link. destruct (_ <=? _); [reflexivity|]. rewrite He. reflexivity.
Qed.

(* ---- the commit group: state, then store height ---- *)
Lemma rf_commit m inits built execs s b ret :
  RF m inits built execs s ->
  g_block m (g_height m + 1) = Some b ->
  block_valid c (g_block m) built execs s b ret ->
  let s' := next_state s (hdr_of b) ret in
  let mA := apply_writes m [w_state s'] in
  let m' := apply_writes m [w_state s'; w_height (g_height m + 1)] in
  RF m' inits built execs s' /\ g_height m' = g_height m + 1 /\ (forall k, g_block m' k = g_block m k) /\
  (* the image after the state write alone *)
  DInv mA inits built execs /\ g_height mA = g_height m /\ (forall k, g_block mA k = g_block m k).
Proof.
  intros ((r0 & Hr & Hc) & Hp & Ha & Hs) Hb Hv s' mA m'.
  pose proof (chain_height _ _ _ _ _ _ _ Hc) as (Hsh & Hge & _).
  pose proof wf_initial as Hi.
  destruct (aw_state m s') as (A1 & A2 & _ & A4).
  destruct (aw_height (apply_write m (w_state s')) (g_height m + 1)) as (B1 & B2 & _ & B4).
  assert (EA : g_height mA = g_height m /\ g_state mA = Some s' /\ forall k, g_block mA k = g_block m k).
  { unfold mA. rewrite apply_writes_cons, apply_writes_nil. splits; assumption. }
  assert (EH : g_height m' = g_height m + 1 /\ g_state m' = Some s' /\ forall k, g_block m' k = g_block m k).
  { unfold m'. rewrite apply_writes_cons, apply_writes_cons, apply_writes_nil.
    splits; [congruence|congruence|intros k; rewrite B4; apply A4]. }
  destruct EA as (F1 & F2 & F4). destruct EH as (E1 & E2 & E4).
  assert (Hrf : RF m' inits built execs s').
  { unfold RF. rewrite E1, E2. splits.
    - exists r0. split; [exact Hr|].
      eapply chain_mono with (blocks := g_block m); eauto using incl_refl.
      constructor; assumption.
    - intros b' Hb'. rewrite E4 in Hb'. rewrite Ha in Hb' by lia. discriminate.
    - intros k Hk. rewrite E4. apply Ha. lia.
    - left. split; [reflexivity|lia]. }
  pose proof (rf_height _ _ _ _ _ Hrf) as (Hsh' & _).
  split; [exact Hrf|]. split; [exact E1|]. split; [exact E4|]. split; [|split; [exact F1|exact F4]].
  apply (dinv_transport m' mA inits built execs s' E2 F2).
  - intros k. rewrite F4, E4. reflexivity.
  - rewrite Hsh', E1, F1. lia.
  - rewrite Hsh', E1, F1. lia.
  - eapply rf_dinv; exact Hrf.
Qed.

(* ---- symbolic validation of freshly built blocks ---- *)
Lemma validate_intro s sh d :
  validate_basic sh = true -> validate_pair sh d = true -> h_chain (sh_hdr sh) = s_chain s ->
  h_height (sh_hdr sh) = s_height s + 1 -> (1 < h_height (sh_hdr sh) -> (s_time s <= h_time (sh_hdr sh))%Z) ->
  h_app (sh_hdr sh) = s_app s -> validate s sh d = true.
Proof.
  intros A B C D E F. unfold validate. rewrite A, B, C, D, F, !N.eqb_refl. cbn [andb].
  rewrite andb_true_r. apply negb_true_iff. apply andb_false_iff.
  destruct (1 <? s_height s + 1) eqn:G; [right|left; reflexivity].
  apply Z.ltb_ge. apply E. rewrite D. lia.
Qed.

Lemma live_intro s b :
  sh_signer (b_sh b) = mk_signer c -> h_proposer (hdr_of b) = c_gaddr c ->
  h_data (hdr_of b) = d_txs (b_data b) -> h_chain (hdr_of b) = s_chain s ->
  h_height (hdr_of b) = s_height s + 1 -> (1 < h_height (hdr_of b) -> (s_time s <= h_time (hdr_of b))%Z) ->
  h_app (hdr_of b) = s_app s -> live s b.
Proof.
  intros A B C D E F G. unfold live. apply validate_intro; cbn [final_block b_sh b_data sh_hdr]; try assumption.
  - unfold validate_basic. cbn [sh_hdr sh_sig sh_signer]. rewrite A. cbn [mk_signer sg_addr sg_pub].
    fold (hdr_of b). rewrite B, wf_gaddr. cbn [addr_eqb negb andb verify_header key_address].
    rewrite !N.eqb_refl, header_eqb_refl. reflexivity.
  - unfold validate_pair. cbn [d_meta d_txs sh_hdr m_chain m_height m_time]. fold (hdr_of b).
    rewrite !N.eqb_refl, Z.eqb_refl, C, commitment_eqb_refl. reflexivity.
Qed.

Lemma live_genesis r0 : live (genesis_state c r0) (genesis_block c r0).
Proof.
  apply live_intro; try reflexivity; cbn; pose proof wf_initial; lia.
Qed.

Lemma pend_genesis m built r0 :
  In (c_initial c, [], c_gtime c) built ->
  pend_ok m built (genesis_state c r0) (c_initial c) (genesis_block c r0).
Proof.
  intros Hi. splits.
  - unfold link. rewrite N.leb_refl. reflexivity.
  - reflexivity.
  - exact Hi.
  - apply live_genesis.
Qed.


(* ================================================================================================ *)
(* 5. what one action does (still inside Section Inv)                                               *)
(* ================================================================================================ *)

Definition step_post (m : img) built execs (v : vol) (a : act) (r : ares) : Prop :=
  let H := g_height m in
  let built' := log_opt built (a_built r) in
  let execs' := log_execs execs r a in
  a_init r = None /\
  Forall (safe m built' (v_state v)) (a_pre r) /\
  ((a_commit r = [] /\ exists v', a_vol r = Some v' /\ v_state v' = v_state v) \/
   (exists b ret pre0,
      a_commit r = [w_state (next_state (v_state v) (hdr_of b) ret); w_height (H + 1)] /\
      a_pre r = pre0 ++ [w_block (H + 1) b] /\
      block_valid c (g_block m) built' execs' (v_state v) b ret /\
      (exists v', a_vol r = Some v' /\ v_state v' = next_state (v_state v) (hdr_of b) ret) /\
      a_out r = OCommitted (H + 1))).

Lemma set_height_next (m : img) : set_height m (g_height m + 1) = [w_height (g_height m + 1)].
Proof. unfold set_height. destruct (N.leb_spec (g_height m + 1) (g_height m)); [lia|reflexivity]. Qed.

Lemma pend_final m built s n b : pend_ok m built s n b -> pend_ok m built s n (final_block c b).
Proof.
  intros (A & B & C & D). splits; assumption.
Qed.

Lemma finish_spec m built execs v b ws0 req bu sq e :
  s_height (v_state v) = g_height m ->
  pend_ok m (log_opt built bu) (v_state v) (g_height m + 1) b ->
  Forall (safe m (log_opt built bu) (v_state v)) ws0 ->
  step_post m built execs v (AStep sq e) (finish c m v b ws0 req bu e).
Proof.
  intros Hh Hp Hws. unfold finish, step_post.
  destruct e as [ret|].
  - destruct (validate (v_state v) (b_sh (final_block c b)) (b_data (final_block c b))) eqn:Hval;
      cbn [a_pre a_commit a_vol a_out a_built a_call a_init].
    + pose proof (validate_facts _ _ _ Hval) as (Hhh & _). cbn [final_block b_sh sh_hdr] in Hhh.
      assert (Hn : h_height (hdr_of b) = g_height m + 1) by (unfold hdr_of in *; lia).
      rewrite Hn. split; [reflexivity|]. split.
      * apply Forall_app. split; [exact Hws|]. constructor; [|constructor].
        right. exists (final_block c b). split; [reflexivity|]. apply pend_final, Hp.
      * right. exists (final_block c b), ret, ws0. rewrite set_height_next.
        split; [reflexivity|]. split; [reflexivity|]. split; [|split; [eexists; split; reflexivity|reflexivity]].
        destruct Hp as (A & B & C & D).
        unfold block_valid. rewrite final_hdr, final_txs, Hn.
        split; [exact Hval|]. split; [exact A|]. split; [|split; [exact C|]].
        { unfold signed_by. cbn [final_block b_sh sh_sig sh_signer b_sig]. auto. }
        unfold log_execs. cbn [a_call exec_ret]. left. reflexivity.
    + split; [reflexivity|]. split; [exact Hws|]. left. split; [reflexivity|]. exists v. split; reflexivity.
  - cbn [a_pre a_commit a_vol a_out a_built a_call a_init].
    split; [reflexivity|]. split; [exact Hws|]. left. split; [reflexivity|]. exists v. split; reflexivity.
Qed.

Lemma last_info_rf m inits built execs s :
  RF m inits built execs s ->
  exists lsig ltime, last_info c m (g_height m) = Some (lsig, link c (g_block m) (g_height m + 1), ltime) /\
    ((g_height m + 1 <= c_initial c /\ ltime = None) \/ (c_initial c <= g_height m /\ ltime = Some (s_time s))).
Proof.
  intros ((r0 & Hr & Hc) & _). unfold last_info, link.
  destruct (N.leb_spec (g_height m + 1) (c_initial c)) as [Hle|Hgt].
  - exists SigEmpty, None. split; [reflexivity|]. left; split; [exact Hle|reflexivity].
  - destruct (chain_tip _ _ _ _ _ _ _ wf_initial Hc) as (bH & HbH & Ht & _); [lia|].
    replace (g_height m + 1 - 1) with (g_height m) by lia. rewrite HbH. cbn [option_map].
    exists (b_sig bH), (Some (h_time (hdr_of bH))). split; [reflexivity|]. right. split; [lia|]. rewrite Ht; reflexivity.
Qed.

Lemma step_spec m inits built execs v sq e :
  RF m inits built execs (v_state v) ->
  step_post m built execs v (AStep sq e) (step c m v sq e).
Proof.
  intros Hrf.
  pose proof (rf_height _ _ _ _ _ Hrf) as (Hsh & Hge).
  destruct (last_info_rf _ _ _ _ _ Hrf) as (lsig & ltime & Hli & Hlt).
  destruct Hrf as (Hch & Hp & Ha & Hs).
  unfold step. rewrite Hli.
  destruct (g_block m (g_height m + 1)) as [pb|] eqn:Hpb.
  - apply finish_spec; [exact Hsh|apply Hp; reflexivity|constructor].
  - assert (Hquiet : forall v' ws o req, v_state v' = v_state v -> Forall (safe m built (v_state v)) ws ->
              step_post m built execs v (AStep sq e) (quiet v' ws o req)).
    { intros v' ws o req Hv Hws. unfold step_post, quiet; cbn [a_pre a_commit a_vol a_out a_built a_call a_init log_opt].
      split; [reflexivity|]. split; [exact Hws|]. left. split; [reflexivity|]. exists v'. split; [reflexivity|exact Hv]. }
    destruct sq as [| |txs ts cur].
    + apply Hquiet; [reflexivity|constructor].
    + apply Hquiet; [reflexivity|constructor].
    + assert (Hcur : Forall (safe m built (v_state v)) [w_cursor cur]).
      { constructor; [left; eexists; reflexivity|constructor]. }
      cbv zeta.
      destruct (match ltime with Some lt => (ts <? lt)%Z | None => false end) eqn:Hbf.
      { (* older than the last block: refused (non-empty) or skipped (empty), nothing saved *)
        destruct txs as [|t0 txs']; cbn [andb]; apply Hquiet; try reflexivity; exact Hcur. }
      rewrite andb_false_r.
      destruct (negb (addr_eqb (c_gaddr c) (Addr (c_key c)))) eqn:Hadr.
      { apply Hquiet; [reflexivity|exact Hcur]. }
      (* the early block *)
      set (v' := {| v_state := v_state v; v_cursor := cur |}).
      set (eb := early_block c v (g_height m + 1) lsig (link c (g_block m) (g_height m + 1)) txs ts).
      assert (Hpe : pend_ok m (log_opt built (Some (g_height m + 1, txs, ts))) (v_state v) (g_height m + 1) eb).
      { splits; try reflexivity.
        - left; reflexivity.
        - apply live_intro; try reflexivity.
          + cbn. lia.
          + intros _. cbn [eb early_block hdr_of b_sh sh_hdr h_time].
            destruct Hs as [[_ Hle]|(_ & HH & b0 & Hb0)].
            2:{ replace (c_initial c) with (g_height m + 1) in Hb0 by (pose proof wf_initial; lia). congruence. }
            destruct Hlt as [[Hle' _]|[_ ->]]; [lia|]. lia. }
      pose proof (finish_spec m built execs v' eb ([w_cursor cur] ++ [w_block (g_height m + 1) eb]) (Some (v_cursor v))
                    (Some (g_height m + 1, txs, ts)) (SBatch txs ts cur) e Hsh Hpe) as HF.
      apply HF.
      constructor; [left; eexists; reflexivity|]. constructor; [|constructor].
      right. exists eb. split; [reflexivity|exact Hpe].
Qed.

Lemma log_execs_boot l r ic : log_execs l r (ABoot ic) = l.
Proof. unfold log_execs. destruct (a_call r) as [[[[? ?] ?] ?]|]; reflexivity. Qed.

Lemma dinv_none_intro m inits built execs :
  g_state m = None -> g_height m <= c_initial c - 1 -> (forall k, c_initial c < k -> g_block m k = None) ->
  DInv m inits built execs.
Proof. intros A B C. unfold DInv. rewrite A. split; assumption. Qed.

(* once the store height has caught up with the recorded state, a process can run on the image *)
Lemma dinv_rf m inits built execs s :
  DInv m inits built execs -> g_state m = Some s -> g_height m = s_height s -> RF m inits built execs s.
Proof.
  unfold DInv. intros HD Hs Hh. rewrite Hs in HD. rewrite <- Hh in HD.
  destruct HD as (Hch & Hle & _ & _ & Hp & Ha). unfold RF. splits; try assumption. left. split; assumption.
Qed.

Definition synced (m : img) : Prop := forall s, g_state m = Some s -> g_height m = s_height s.

Lemma boot_spec m inits built execs fok ic :
  DInv m inits built execs ->
  let r := boot c m fok ic in
  let inits' := log_opt inits (a_init r) in
  let built' := log_opt built (a_built r) in
  a_commit r = [] /\
  (forall k, let m' := apply_writes m (firstn k (a_pre r)) in
       DInv m' inits' built' execs /\ g_height m <= g_height m' /\ (forall j, j <= g_height m -> g_block m' j = g_block m j)) /\
  (forall v, a_vol r = Some v -> RF (apply_writes m (a_pre r)) inits' built' execs (v_state v)) /\
  synced (apply_writes m (a_pre r)).
Proof.
  intros HD. pose proof wf_initial as Hi. unfold boot. pose proof HD as HD0. unfold DInv in HD.
  destruct (g_state m) as [s|] eqn:Hst.
  - (* a state is stored: the store height is raised to its height if it lags behind *)
    destruct HD as ((r0 & Hr & Hc) & Hle & Hb1 & Hb2 & Hp & Ha).
    destruct (N.ltb_spec (s_height s) (c_initial c)) as [Hlt|_]; [lia|].
    unfold set_height. destruct (N.leb_spec (s_height s) (g_height m)) as [Hge|Hlt2].
    + assert (HH : g_height m = s_height s) by lia.
      assert (Hrf : RF m inits built execs s) by (apply dinv_rf; assumption).
      destruct fok; cbn [a_pre a_commit a_vol a_init a_built fail_res log_opt];
        (split; [reflexivity|]); (split; [intros k; rewrite firstn_nil, apply_writes_nil; split; [exact HD0|split; [lia|reflexivity]]|]);
        rewrite apply_writes_nil; (split; [|intros s0 Hs0; congruence]).
      * intros v Hv. inversion Hv; subst v. exact Hrf.
      * intros v Hv. discriminate Hv.
    + destruct (aw_height m (s_height s)) as (C1 & C2 & _ & C4).
      assert (HD1 : DInv (apply_write m (w_height (s_height s))) inits built execs).
      { apply (dinv_transport m _ inits built execs s Hst); [congruence|exact C4|lia|lia|exact HD0]. }
      assert (Hrf : RF (apply_write m (w_height (s_height s))) inits built execs s).
      { apply dinv_rf; [exact HD1|congruence|exact C1]. }
      assert (Hpre : forall k, let m' := apply_writes m (firstn k [w_height (s_height s)]) in
                 DInv m' inits built execs /\ g_height m <= g_height m' /\ (forall j, j <= g_height m -> g_block m' j = g_block m j)).
      { intros [|k]; cbn [firstn].
        - rewrite apply_writes_nil. split; [exact HD0|split; [lia|reflexivity]].
        - rewrite firstn_nil, apply_writes_cons, apply_writes_nil. split; [exact HD1|]. split; [lia|intros j _; apply C4]. }
      destruct fok; cbn [a_pre a_commit a_vol a_init a_built fail_res log_opt];
        (split; [reflexivity|]); (split; [exact Hpre|]);
        rewrite apply_writes_cons, apply_writes_nil; (split; [|intros s0 Hs0; congruence]).
      * intros v Hv. inversion Hv; subst v. exact Hrf.
      * intros v Hv. discriminate Hv.
  - (* no state: genesis *)
    destruct HD as (Hle & Ha).
    destruct ic as [r0|].
    2:{ cbn [a_pre a_commit a_vol a_init a_built fail_res log_opt]. split; [reflexivity|]. split.
        - intros k. rewrite firstn_nil, apply_writes_nil. split; [|split; [lia|reflexivity]].
          apply dinv_none_intro; assumption.
        - split; [intros v Hv; discriminate Hv|]. rewrite apply_writes_nil. intros s0 Hs0. congruence. }
    set (gb := genesis_block c r0).
    destruct (aw_block m (c_initial c) gb) as (B1 & B2 & _ & B4).
    destruct (aw_height (apply_write m (w_block (c_initial c) gb)) (c_initial c - 1)) as (C1 & C2 & _ & C4).
    assert (Hpre : a_pre (if fok
             then {| a_pre := [w_block (c_initial c) gb] ++ set_height m (c_initial c - 1); a_commit := [];
                     a_vol := Some {| v_state := genesis_state c r0; v_cursor := g_cursor m |};
                     a_out := OBootOk; a_call := None; a_req := None; a_init := Some r0;
                     a_built := Some (c_initial c, [], c_gtime c) |}
             else fail_res ([w_block (c_initial c) gb] ++ set_height m (c_initial c - 1)) OBootFailCache (Some r0)
                    (Some (c_initial c, [], c_gtime c)))
            = [w_block (c_initial c) gb] ++ set_height m (c_initial c - 1)) by (destruct fok; reflexivity).
    assert (Hini : a_init (if fok
             then {| a_pre := [w_block (c_initial c) gb] ++ set_height m (c_initial c - 1); a_commit := [];
                     a_vol := Some {| v_state := genesis_state c r0; v_cursor := g_cursor m |};
                     a_out := OBootOk; a_call := None; a_req := None; a_init := Some r0;
                     a_built := Some (c_initial c, [], c_gtime c) |}
             else fail_res ([w_block (c_initial c) gb] ++ set_height m (c_initial c - 1)) OBootFailCache (Some r0)
                    (Some (c_initial c, [], c_gtime c))) = Some r0) by (destruct fok; reflexivity).
    assert (Hbu : a_built (if fok
             then {| a_pre := [w_block (c_initial c) gb] ++ set_height m (c_initial c - 1); a_commit := [];
                     a_vol := Some {| v_state := genesis_state c r0; v_cursor := g_cursor m |};
                     a_out := OBootOk; a_call := None; a_req := None; a_init := Some r0;
                     a_built := Some (c_initial c, [], c_gtime c) |}
             else fail_res ([w_block (c_initial c) gb] ++ set_height m (c_initial c - 1)) OBootFailCache (Some r0)
                    (Some (c_initial c, [], c_gtime c))) = Some (c_initial c, [], c_gtime c)) by (destruct fok; reflexivity).
    rewrite Hpre, Hini, Hbu. cbn [log_opt].
    split; [destruct fok; reflexivity|].
    (* the image after the block write, and after both writes *)
    assert (D1 : DInv (apply_write m (w_block (c_initial c) gb)) (r0 :: inits) ((c_initial c, [], c_gtime c) :: built) execs).
    { apply dinv_none_intro; [congruence|lia|]. intros k Hk. rewrite B4.
      destruct (N.eqb_spec k (c_initial c)); [lia|]. apply Ha, Hk. }
    assert (F1 : forall j, j <= g_height m -> g_block (apply_write m (w_block (c_initial c) gb)) j = g_block m j).
    { intros j Hj. rewrite B4. destruct (N.eqb_spec j (c_initial c)); [lia|reflexivity]. }
    unfold set_height. destruct (N.leb_spec (c_initial c - 1) (g_height m)) as [Hge|Hlt]; cbn [app].
    + (* the height is already initial-1 *)
      assert (HH : g_height m = c_initial c - 1) by lia.
      split.
      * intros [|k]; cbn [firstn].
        { rewrite apply_writes_nil. split; [|split; [lia|reflexivity]]. apply dinv_none_intro; assumption. }
        { rewrite firstn_nil, apply_writes_cons, apply_writes_nil. split; [exact D1|]. split; [lia|exact F1]. }
      * split; [|intros s0 Hs0; rewrite apply_writes_cons, apply_writes_nil in Hs0; congruence].
        intros v Hv. rewrite apply_writes_cons, apply_writes_nil.
        assert (v_state v = genesis_state c r0) as -> by (destruct fok; inversion Hv; reflexivity).
        unfold RF. rewrite B1, B2, HH. replace (c_initial c - 1 + 1) with (c_initial c) by lia.
        splits.
        { exists r0. split; [left; reflexivity|constructor]. }
        { intros b Hb. rewrite B4, N.eqb_refl in Hb. inversion Hb; subst b. apply pend_genesis. left; reflexivity. }
        { intros k Hk. rewrite B4. destruct (N.eqb_spec k (c_initial c)); [lia|]. apply Ha, Hk. }
        { right. splits; [exact Hst|reflexivity|]. exists gb. rewrite B4, N.eqb_refl. reflexivity. }
    + (* the height is raised to initial-1 *)
      split.
      * intros [|[|k]]; cbn [firstn].
        { rewrite apply_writes_nil. split; [|split; [lia|reflexivity]]. apply dinv_none_intro; assumption. }
        { rewrite apply_writes_cons, apply_writes_nil. split; [exact D1|]. split; [lia|exact F1]. }
        { rewrite firstn_nil, apply_writes_cons, apply_writes_cons, apply_writes_nil.
          split; [|split; [lia|intros j Hj; rewrite C4; apply F1, Hj]].
          apply dinv_none_intro; [congruence|lia|]. intros k' Hk'. rewrite C4, B4.
          destruct (N.eqb_spec k' (c_initial c)); [lia|]. apply Ha, Hk'. }
      * split; [|intros s0 Hs0; rewrite apply_writes_cons, apply_writes_cons, apply_writes_nil in Hs0; congruence].
        intros v Hv. rewrite apply_writes_cons, apply_writes_cons, apply_writes_nil.
        assert (v_state v = genesis_state c r0) as -> by (destruct fok; inversion Hv; reflexivity).
        unfold RF. rewrite C1, C2, B2. replace (c_initial c - 1 + 1) with (c_initial c) by lia.
        splits.
        { exists r0. split; [left; reflexivity|constructor]. }
        { intros b Hb. rewrite C4, B4, N.eqb_refl in Hb. inversion Hb; subst b. apply pend_genesis. left; reflexivity. }
        { intros k Hk. rewrite C4, B4. destruct (N.eqb_spec k (c_initial c)); [lia|]. apply Ha, Hk. }
        { right. splits; [exact Hst|reflexivity|]. exists gb. rewrite C4, B4, N.eqb_refl. reflexivity. }
Qed.

Lemma Forall_firstn_ {A} (P : A -> Prop) k (l : list A) : Forall P l -> Forall P (firstn k l).
Proof.
  intros H. rewrite <- (firstn_skipn k l) in H. apply Forall_app in H. apply H.
Qed.

(* a step applied to an image on which a process runs with last state [v_state v]; a crash after ANY
   number k of its writes leaves an image that satisfies the durable invariant *)
Lemma step_apply m inits built execs v sq e :
  RF m inits built execs (v_state v) ->
  let r := step c m v sq e in
  let built' := log_opt built (a_built r) in
  let execs' := log_execs execs r (AStep sq e) in
  a_init r = None /\
  (exists v', a_vol r = Some v' /\ RF (apply_writes m (a_ws r)) inits built' execs' (v_state v')) /\
  (forall k,
     let m' := apply_writes m (firstn k (a_ws r)) in
     DInv m' inits built' execs' /\ g_height m <= g_height m' /\ (forall j, j <= g_height m -> g_block m' j = g_block m j)).
Proof.
  intros Hrf r built' execs'.
  pose proof (step_spec m inits built execs v sq e Hrf) as (Hini & Hsafe & Hcase).
  fold r in Hini, Hsafe, Hcase. fold built' in Hsafe, Hcase. fold execs' in Hcase.
  pose proof (rf_height _ _ _ _ _ Hrf) as (Hsh & Hge).
  assert (Hrf' : RF m inits built' execs' (v_state v)).
  { eapply rf_mono; [apply incl_refl|apply incl_log_opt|apply incl_log_execs|exact Hrf]. }
  assert (Hpref : forall k, let m' := apply_writes m (firstn k (a_pre r)) in
             DInv m' inits built' execs' /\ g_height m <= g_height m' /\ (forall j, j <= g_height m -> g_block m' j = g_block m j)).
  { intros k m'. destruct (rf_safe_writes m inits built' execs' (v_state v) (firstn k (a_pre r)) m (based_refl m)
                            (Forall_firstn_ _ k _ Hsafe) Hrf') as ((B1 & B2 & B3) & Hr1).
    split; [eapply rf_dinv; exact Hr1|]. split; [unfold m'; lia|exact B3]. }
  destruct (rf_safe_writes m inits built' execs' (v_state v) (a_pre r) m (based_refl m) Hsafe Hrf') as ((B1 & B2 & B3) & Hr1).
  split; [exact Hini|].
  destruct Hcase as [(Hcm & v' & Hv' & Hvs)|(b & ret & pre0 & Hcm & Hpre & Hbv & (v' & Hv' & Hvs) & Hout)].
  - (* no commit *)
    assert (Hws : a_ws r = a_pre r) by (unfold a_ws; rewrite Hcm; apply app_nil_r).
    rewrite Hws. split.
    + exists v'. split; [exact Hv'|]. rewrite Hvs. exact Hr1.
    + intros k. apply Hpref.
  - (* commit *)
    set (m1 := apply_writes m (a_pre r)) in *.
    set (s' := next_state (v_state v) (hdr_of b) ret) in *.
    assert (Hb1 : g_block m1 (g_height m1 + 1) = Some b).
    { rewrite B1. unfold m1. rewrite Hpre, aws_app, apply_writes_cons, apply_writes_nil.
      destruct (aw_block (apply_writes m pre0) (g_height m + 1) b) as (_ & _ & _ & E4).
      rewrite E4, N.eqb_refl. reflexivity. }
    assert (Hbv1 : block_valid c (g_block m1) built' execs' (v_state v) b ret).
    { eapply block_valid_blocks; [|exact Hbv].
      destruct Hbv as (Hval & _). apply validate_facts in Hval. destruct Hval as (Hhh & _).
      apply B3. unfold hdr_of. lia. }
    pose proof (rf_commit m1 inits built' execs' (v_state v) b ret Hr1 Hb1 Hbv1) as (Hr2 & Hh2 & Hb2 & HDA & HhA & HbA).
    fold s' in Hr2, Hh2, Hb2, HDA, HhA, HbA.
    assert (Hcm' : a_commit r = [w_state s'; w_height (g_height m1 + 1)]) by (rewrite Hcm, B1; reflexivity).
    assert (Hfull : apply_writes m (a_ws r) = apply_writes m1 [w_state s'; w_height (g_height m1 + 1)]).
    { unfold a_ws. rewrite aws_app, Hcm'. reflexivity. }
    split.
    + exists v'. split; [exact Hv'|]. rewrite Hfull, Hvs. exact Hr2.
    + intros k.
      destruct (Nat.leb_spec k (length (a_pre r))) as [Hle|Hgt].
      * (* the cut is inside the safe prefix *)
        assert (Hf : firstn k (a_ws r) = firstn k (a_pre r)).
        { unfold a_ws. rewrite firstn_app. replace (k - length (a_pre r))%nat with 0%nat by lia.
          cbn [firstn]. apply app_nil_r. }
        rewrite Hf. apply Hpref.
      * destruct (Nat.eq_dec k (S (length (a_pre r)))) as [->|Hne].
        { (* the cut is between the state write and the height write *)
          assert (Hf : firstn (S (length (a_pre r))) (a_ws r) = a_pre r ++ [w_state s']).
          { unfold a_ws. rewrite firstn_app, firstn_all2 by lia.
            replace (S (length (a_pre r)) - length (a_pre r))%nat with 1%nat by lia. rewrite Hcm'. reflexivity. }
          rewrite Hf, aws_app. fold m1.
          split; [exact HDA|]. split; [lia|]. intros j Hj. rewrite HbA. apply B3, Hj. }
        { (* the cut is after the last write *)
          assert (Hall : (length (a_ws r) <= k)%nat).
          { unfold a_ws. rewrite app_length, Hcm'. cbn [length]. lia. }
          rewrite firstn_all2 by exact Hall. rewrite Hfull.
          split; [eapply rf_dinv; exact Hr2|]. split; [lia|].
          intros j Hj. rewrite Hb2. apply B3, Hj. }
Qed.

Definition frame (st st' : mach) : Prop :=
  g_height (img_of st) <= g_height (img_of st') /\
  forall k, k <= g_height (img_of st) -> g_block (img_of st') k = g_block (img_of st) k.

Lemma frame_refl st : frame st st. Proof. split; [lia|reflexivity]. Qed.
Lemma frame_same st st' : img_of st' = img_of st -> frame st st'.
Proof. intros E. unfold frame. rewrite E. split; [lia|reflexivity]. Qed.

(* EVERY item of a history — completed action, crash after any number of writes, shutdown cut anywhere,
   hand-made damage to a cache file — preserves the invariant and never touches a committed height;
   a completed action leaves the store height equal to the height of the recorded state *)
Lemma inv_item st i :
  Inv st ->
  Inv (fst (exec_item c st i)) /\ frame st (fst (exec_item c st i)) /\
  (is_run i = true -> synced (img_of st) -> synced (img_of (fst (exec_item c st i)))).
Proof.
  intros (HD & HR).
  destruct i as [a|a k|cut|f].
  - (* the action runs to completion *)
    destruct a as [ic|sq e]; cbn [exec_item fst do_act].
    + pose proof (boot_spec (img_of st) (g_inits st) (g_built st) (g_execs st) (files_ok st) ic HD) as (Hcm & Hpre & Hrun & Hsy).
      set (r := boot c (img_of st) (files_ok st) ic) in *.
      assert (Hws : a_ws r = a_pre r) by (unfold a_ws; rewrite Hcm; apply app_nil_r).
      specialize (Hpre (length (a_pre r))). rewrite firstn_all in Hpre. destruct Hpre as (HD' & Hf1 & Hf2).
      split; [|split; [split; cbn [img_of]; rewrite Hws; assumption|intros _ _; cbn [img_of]; rewrite Hws; exact Hsy]].
      split; cbn [img_of g_inits g_built g_execs vol_of]; rewrite Hws, log_execs_boot; [exact HD'|].
      intros v Hv. apply Hrun, Hv.
    + destruct (vol_of st) as [v|] eqn:Hvol.
      * pose proof (step_apply (img_of st) (g_inits st) (g_built st) (g_execs st) v sq e (HR v eq_refl))
          as (Hini & (v' & Hv' & Hrf') & Hpre).
        set (r := step c (img_of st) v sq e) in *.
        specialize (Hpre (length (a_ws r))). rewrite firstn_all in Hpre.
        destruct Hpre as (HD' & Hf1 & Hf2).
        split; [|split; [split; cbn [img_of]; assumption|]].
        { split; cbn [img_of g_inits g_built g_execs vol_of]; rewrite Hini; cbn [log_opt]; [exact HD'|].
          intros v0 Hv0. rewrite Hv' in Hv0. inversion Hv0; subst v0. exact Hrf'. }
        intros _ _ s0 Hs0. cbn [img_of] in *.
        pose proof (rf_height _ _ _ _ _ Hrf') as (Hh & _).
        destruct Hrf' as (_ & _ & _ & [[Hs _]|(Hs & _)]); rewrite Hs in Hs0; [|discriminate Hs0].
        inversion Hs0; subst s0. symmetry; exact Hh.
      * cbn [not_running a_ws a_pre a_commit a_vol a_init a_built app log_opt log_execs a_call].
        rewrite apply_writes_nil. split; [|split; [apply frame_same; reflexivity|intros _ Hs; exact Hs]].
        split; cbn [img_of g_inits g_built g_execs vol_of]; [exact HD|intros v Hv; discriminate Hv].
  - (* the process dies after k writes *)
    destruct a as [ic|sq e]; cbn [exec_item fst do_act].
    + pose proof (boot_spec (img_of st) (g_inits st) (g_built st) (g_execs st) (files_ok st) ic HD) as (Hcm & Hpre & _).
      set (r := boot c (img_of st) (files_ok st) ic) in *.
      assert (Hws : a_ws r = a_pre r) by (unfold a_ws; rewrite Hcm; apply app_nil_r).
      specialize (Hpre k). destruct Hpre as (HD' & Hf1 & Hf2).
      unfold crash_after. rewrite Hws.
      split; [|split; [split; cbn [img_of]; assumption|intros Hx; discriminate Hx]].
      split; cbn [img_of g_inits g_built g_execs vol_of]; rewrite log_execs_boot; [exact HD'|intros v Hv; discriminate Hv].
    + destruct (vol_of st) as [v|] eqn:Hvol.
      * pose proof (step_apply (img_of st) (g_inits st) (g_built st) (g_execs st) v sq e (HR v eq_refl))
          as (Hini & _ & Hpre).
        set (r := step c (img_of st) v sq e) in *.
        specialize (Hpre k). destruct Hpre as (HD' & Hf1 & Hf2).
        unfold crash_after.
        split; [|split; [split; cbn [img_of]; assumption|intros Hx; discriminate Hx]].
        split; cbn [img_of g_inits g_built g_execs vol_of]; rewrite Hini; cbn [log_opt]; [exact HD'|intros v0 Hv0; discriminate Hv0].
      * cbn [not_running a_ws a_pre a_commit a_vol a_init a_built app log_opt log_execs a_call].
        unfold crash_after. rewrite firstn_nil, apply_writes_nil. split; [|split; [apply frame_same; reflexivity|intros Hx; discriminate Hx]].
        split; cbn [img_of g_inits g_built g_execs vol_of]; [exact HD|intros v Hv; discriminate Hv].
  - (* shutdown *)
    cbn [exec_item]. destruct (vol_of st) as [v|] eqn:Hvol; cbn [fst].
    + split; [|split; [apply frame_same; reflexivity|intros Hx; discriminate Hx]].
      split; cbn [img_of g_inits g_built g_execs vol_of]; [exact HD|intros v0 Hv0; discriminate Hv0].
    + split; [|split; [apply frame_same; reflexivity|intros Hx; discriminate Hx]].
      split; [exact HD|]. intros v Hv. rewrite Hvol in Hv. discriminate Hv.
  - (* a cache file damaged by hand: datastore and process untouched *)
    cbn [exec_item fst]. split; [|split; [apply frame_same; reflexivity|intros Hx; discriminate Hx]].
    split; cbn [img_of g_inits g_built g_execs vol_of]; [exact HD|exact HR].
Qed.

(* ---- histories ---- *)
Lemma run_from_cons st i r :
  fst (run_from c st (i :: r)) = fst (run_from c (fst (exec_item c st i)) r).
Proof.
  cbn [run_from]. destruct (exec_item c st i) as [st' o]. cbn [fst].
  destruct (run_from c st' r) as [st'' os]. reflexivity.
Qed.

Lemma frame_trans a b d : frame a b -> frame b d -> frame a d.
Proof.
  intros (A1 & A2) (B1 & B2). split; [lia|]. intros k Hk. rewrite B2 by lia. apply A2, Hk.
Qed.

Lemma inv_run h : forall st,
  Inv st ->
  Inv (fst (run_from c st h)) /\ frame st (fst (run_from c st h)) /\
  (crash_free h = true -> synced (img_of st) -> synced (img_of (fst (run_from c st h)))).
Proof.
  induction h as [|i r IH]; intros st HI.
  - split; [exact HI|]. split; [apply frame_refl|]. intros _ Hs; exact Hs.
  - destruct (inv_item st i HI) as (HI' & Hf' & Hs').
    destruct (IH _ HI') as (HI'' & Hf'' & Hs'').
    rewrite run_from_cons. split; [exact HI''|]. split; [eapply frame_trans; eassumption|].
    intros Hc Hsy. cbn [crash_free forallb] in Hc. apply andb_true_iff in Hc. destruct Hc as (Hc1 & Hc2).
    apply Hs''; [exact Hc2|]. apply Hs'; assumption.
Qed.

Lemma inv_fresh : Inv fresh.
Proof.
  split.
  - unfold DInv. cbn. split; [lia|reflexivity].
  - intros v Hv. discriminate Hv.
Qed.

Lemma synced_fresh : synced (img_of fresh).
Proof. intros s Hs. discriminate Hs. Qed.

Lemma inv_chain_durable st : Inv st -> ChainDurable c st.
Proof.
  intros (HD & _). unfold ChainDurable, DInv in *. pose proof wf_initial.
  destruct (g_state (img_of st)) as [s|].
  - right. destruct HD as ((r0 & Hr & Hc) & Hle & Hb1 & Hb2 & _). exists r0, s. splits; try assumption. reflexivity.
  - left. destruct HD as (Hle & _). split; [lia|reflexivity].
Qed.

Lemma inv_chain_valid st : Inv st -> synced (img_of st) -> ChainValid c st.
Proof.
  intros HI Hsy. destruct (inv_chain_durable st HI) as [Hn|(r0 & s & Hr & Hc & Hs & Hle & _)]; [left; exact Hn|].
  right. exists r0, s. rewrite (Hsy s Hs). splits; assumption.
Qed.

Lemma running_synced st v : Inv st -> vol_of st = Some v -> synced (img_of st).
Proof.
  intros (_ & HR) Hv s Hs. specialize (HR v Hv). pose proof (rf_height _ _ _ _ _ HR) as (Hh & _).
  destruct HR as (_ & _ & _ & [[Hs' _]|(Hs' & _)]); rewrite Hs' in Hs; [|discriminate Hs].
  inversion Hs; subst s. symmetry; exact Hh.
Qed.

(* ---- liveness ---- *)
Lemma live_early v n lsig lhdr txs ts :
  n = s_height (v_state v) + 1 -> (1 < n -> (s_time (v_state v) <= ts)%Z) ->
  live (v_state v) (early_block c v n lsig lhdr txs ts).
Proof. intros Hn Ht. apply live_intro; try reflexivity; cbn; [lia|exact Ht]. Qed.

Lemma no_wedge_step m inits built execs v sq e lt0 :
  RF m inits built execs (v_state v) ->
  match sq, e with
  | SBatch _ ts _, EOk _ => match last_info c m (g_height m) with
                            | Some (_, _, Some lt) => (lt <=? ts)%Z
                            | Some (_, _, None) => true
                            | None => lt0
                            end
  | _, _ => false
  end = true ->
  a_out (step c m v sq e) = OCommitted (g_height m + 1).
Proof.
  intros Hrf Hwfr.
  pose proof (rf_height _ _ _ _ _ Hrf) as (Hsh & Hge).
  destruct (last_info_rf _ _ _ _ _ Hrf) as (lsig & ltime & Hli & Hlt).
  destruct Hrf as (Hch & Hp & Ha & Hs).
  destruct sq as [| |txs ts cur]; try discriminate Hwfr.
  destruct e as [ret|]; try discriminate Hwfr.
  rewrite Hli in Hwfr.
  unfold step. rewrite Hli.
  destruct (g_block m (g_height m + 1)) as [pb|] eqn:Hpb.
  - destruct (Hp pb eq_refl) as (_ & _ & _ & D). unfold live in D.
    unfold finish. rewrite D. cbn [a_out].
    apply validate_facts in D. destruct D as (Hhh & _). cbn [final_block b_sh sh_hdr] in Hhh.
    unfold hdr_of in *. f_equal. lia.
  - destruct Hs as [[_ Hle]|(_ & HH & b0 & Hb0)].
    2:{ replace (c_initial c) with (g_height m + 1) in Hb0 by (pose proof wf_initial; lia). congruence. }
    destruct Hlt as [[Hle' _]|[_ ->]]; [lia|].
    cbv zeta.
    replace (ts <? s_time (v_state v))%Z with false by lia. rewrite andb_false_r.
    rewrite wf_gaddr, addr_eqb_refl. cbn [negb].
    unfold finish.
    pose proof (live_early v (g_height m + 1) lsig (link c (g_block m) (g_height m + 1)) txs ts) as L.
    unfold live in L. cbn [v_state] in *. rewrite L by lia. reflexivity.
Qed.

Lemma boot_ok m inits built execs r0 :
  DInv m inits built execs -> exists v, a_vol (boot c m true (Some r0)) = Some v.
Proof.
  intros HD. unfold boot. unfold DInv in HD. destruct (g_state m) as [s|].
  - destruct HD as (_ & Hle & _).
    destruct (N.ltb_spec (s_height s) (c_initial c)); [lia|]. eexists; reflexivity.
  - eexists; reflexivity.
Qed.

End Inv.

(* ================================================================================================ *)
(* 6. history-level theorems: no guard on the history                                               *)
(* ================================================================================================ *)

Theorem reach_inv c h : wf_cfg c -> Inv c (run c h).
Proof. intros Hwf. unfold run. apply (inv_run c Hwf h fresh (inv_fresh c)). Qed.

(* C01: chain validity for every crash-free history *)
Theorem chain_valid_crash_free c h :
  wf_cfg c -> crash_free h = true -> ChainValid c (run c h).
Proof.
  intros Hwf Hc. destruct (inv_run c Hwf h fresh (inv_fresh c)) as (HI & _ & Hs).
  apply (inv_chain_valid c Hwf); [exact HI|]. apply Hs; [exact Hc|apply synced_fresh].
Qed.

(* C04: the durable image is consistent after EVERY history *)
Theorem chain_durable_all c h : wf_cfg c -> ChainDurable c (run c h).
Proof. intros Hwf. apply (inv_chain_durable c Hwf), reach_inv, Hwf. Qed.

(* C04: whenever a process runs (i.e. after every successful start), height, state and blocks agree *)
Theorem chain_valid_running c h :
  wf_cfg c -> forall v, vol_of (run c h) = Some v -> ChainValid c (run c h).
Proof.
  intros Hwf v Hv. pose proof (reach_inv c h Hwf) as HI.
  apply (inv_chain_valid c Hwf); [exact HI|]. eapply running_synced; eassumption.
Qed.

Lemma run_app c h1 h2 : run c (h1 ++ h2) = fst (run_from c (run c h1) h2).
Proof.
  unfold run. generalize fresh. induction h1 as [|i r IH]; intros st; [reflexivity|].
  cbn [app]. rewrite !run_from_cons. apply IH.
Qed.

(* C04 (ii): a committed height keeps its block, the height never decreases *)
Theorem committed_stable c h1 h2 :
  wf_cfg c ->
  let st1 := run c h1 in let st2 := run c (h1 ++ h2) in
  g_height (img_of st1) <= g_height (img_of st2) /\
  forall k, k <= g_height (img_of st1) -> g_block (img_of st2) k = g_block (img_of st1) k.
Proof.
  intros Hwf st1 st2. unfold st2. rewrite run_app.
  destruct (inv_run c Hwf h2 st1 (reach_inv c h1 Hwf)) as (_ & Hf & _). exact Hf.
Qed.

(* ---- the cache directory ---- *)
(* [dir_ok d]: no FINAL name holds a partial stream *)
Lemma dir_ok_rm n d : dir_ok d = true -> dir_ok (f_rm n d) = true.
Proof.
  unfold dir_ok, f_rm. rewrite !forallb_forall. intros H x Hx. apply filter_In in Hx. apply H, Hx.
Qed.

Lemma dir_ok_cons_tmp f d : dir_ok d = true -> dir_ok (FTmp f :: d) = true.
Proof. intros H. exact H. Qed.

Lemma fname_eqb_refl n : fname_eqb n n = true.
Proof. destruct n; cbn [fname_eqb]; apply Nat.eqb_refl. Qed.

Lemma f_mem_rm n d : f_mem n (f_rm n d) = false.
Proof.
  unfold f_mem, f_rm. induction d as [|x d IH]; [reflexivity|].
  cbn [filter]. destruct (fname_eqb x n) eqn:E; cbn [negb]; [exact IH|].
  cbn [existsb]. rewrite IH, orb_false_r.
  destruct n, x; cbn [fname_eqb] in *; try reflexivity; rewrite Nat.eqb_sym; exact E.
Qed.

(* one file written by temporary file + rename: at EVERY point — after any number of its three operations, or
   inside any of them — no final name holds a partial stream, and after the three the same holds again *)
Lemma save_file_after f d :
  dir_ok d = true -> dir_ok (apply_fops d (save_file f)) = true.
Proof.
  intros H. unfold apply_fops, save_file. cbn [fold_left apply_fop].
  rewrite f_mem_rm. apply dir_ok_rm, dir_ok_rm, dir_ok_rm, dir_ok_cons_tmp, dir_ok_rm, H.
Qed.

Lemma save_files_cut fs : forall d cp,
  dir_ok d = true -> dir_ok (cut_dir d (flat_map save_file fs) cp) = true.
Proof.
  induction fs as [|f fs IH]; intros d cp H.
  - unfold cut_dir. cbn [flat_map]. rewrite firstn_nil. cbn [apply_fops fold_left].
    destruct cp as [k|k b]; [exact H|]. destruct k; exact H.
  - assert (H1 : dir_ok (FTmp f :: f_rm (FTmp f) d) = true) by (apply dir_ok_cons_tmp, dir_ok_rm, H).
    assert (H2 : dir_ok (f_rm (FTmp f) (FTmp f :: f_rm (FTmp f) d)) = true) by (apply dir_ok_rm, H1).
    pose proof (save_file_after f d H) as H3.
    cbn [flat_map]. unfold cut_dir.
    destruct cp as [k|k b]; cbn [cut_done].
    + destruct k as [|[|[|k]]].
      * exact H.
      * exact H1.
      * exact H2.
      * change (save_file f ++ flat_map save_file fs) with
          (FCreate (FTmp f) :: FWrite (FTmp f) :: FRename (FTmp f) (FFinal f) :: flat_map save_file fs).
        cbn [firstn]. unfold apply_fops. cbn [fold_left].
        apply (IH _ (CutAfter k)). exact H3.
    + destruct k as [|[|[|k]]].
      * exact H.
      * cbn [save_file app firstn apply_fops fold_left apply_fop nth_error torn_fop]. apply dir_ok_cons_tmp, dir_ok_rm, H1.
      * exact H2.
      * change (save_file f ++ flat_map save_file fs) with
          (FCreate (FTmp f) :: FWrite (FTmp f) :: FRename (FTmp f) (FFinal f) :: flat_map save_file fs).
        cbn [firstn nth_error]. unfold apply_fops. cbn [fold_left].
        apply (IH _ (CutInside k b)). exact H3.
Qed.

Lemma save_files_all fs : forall d, dir_ok d = true -> dir_ok (apply_fops d (flat_map save_file fs)) = true.
Proof.
  induction fs as [|f fs IH]; intros d H; [exact H|].
  cbn [flat_map]. unfold apply_fops. rewrite fold_left_app. apply IH, save_file_after, H.
Qed.

(* SaveCache cut ANYWHERE — after any number of file operations, or inside the write of any file after any number
   of bytes, whatever the directory held before (nothing: the first save; complete files: a later save; stale
   temporary files of an earlier crash) — leaves every cache file absent or complete *)
Theorem save_cache_cut_ok d cp : dir_ok d = true -> dir_ok (cut_dir d save_ops cp) = true.
Proof. apply save_files_cut. Qed.

Theorem save_cache_done_ok d : dir_ok d = true -> dir_ok (apply_fops d save_ops) = true.
Proof. apply save_files_all. Qed.

(* crashes and shutdowns cut anywhere never leave a cache file that is neither absent nor complete *)
Lemma bad_files_run c h : untampered h = true -> forall st, files_ok st = true ->
  files_ok (fst (run_from c st h)) = true.
Proof.
  induction h as [|i r IH]; intros Hu st Hf; [exact Hf|].
  cbn [untampered forallb] in Hu. apply andb_true_iff in Hu. destruct Hu as (H1 & H2).
  rewrite run_from_cons. apply IH; [exact H2|].
  unfold files_ok in *.
  destruct i as [a|a k|cut|f]; cbn [exec_item fst bad_files]; try exact Hf.
  - destruct (vol_of st); cbn [fst bad_files]; [|exact Hf].
    destruct cut as [cp|]; [apply save_cache_cut_ok|apply save_cache_done_ok]; exact Hf.
  - discriminate H1.
Qed.

Theorem cache_files_ok_all c h : untampered h = true -> files_ok (run c h) = true.
Proof. intros Hu. unfold run. apply (bad_files_run c h Hu fresh). reflexivity. Qed.

(* why the temporary file matters: the same save writing each file IN PLACE (create the final name, write it) —
   also if only when the file does not exist yet — is refuted by a cut inside the first write of the first save *)
Definition save_file_in_place (f : nat) : list fop := [FCreate (FFinal f); FWrite (FFinal f)].
Lemma in_place_first_save_torn :
  dir_ok (cut_dir [] (flat_map save_file_in_place (seq 0 n_files)) (CutInside 1 26)) = false.
Proof. vm_compute. reflexivity. Qed.

Lemma wf_resp_shape c st sq e :
  wf_resp c st sq e = true ->
  match sq, e with
  | SBatch _ ts _, EOk _ => match last_info c (img_of st) (g_height (img_of st)) with
                            | Some (_, _, Some lt) => (lt <=? ts)%Z
                            | Some (_, _, None) => true
                            | None => true
                            end
  | _, _ => false
  end = true.
Proof.
  unfold wf_resp, last_time. destruct sq as [| |txs ts cur]; try discriminate.
  destruct e as [ret|]; try discriminate.
  destruct (last_info c (img_of st) (g_height (img_of st))) as [[[a b] [lt|]]|]; intros Hw; try exact Hw; reflexivity.
Qed.

(* C01 no-wedge: whenever a process runs, a well-formed pair of responses commits the next block at once *)
Theorem no_wedge_all c h :
  wf_cfg c ->
  forall v, vol_of (run c h) = Some v ->
  forall sq e, wf_resp c (run c h) sq e = true ->
  a_out (step c (img_of (run c h)) v sq e) = OCommitted (g_height (img_of (run c h)) + 1).
Proof.
  intros Hwf v Hv sq e Hw.
  destruct (reach_inv c h Hwf) as (_ & HR).
  apply (no_wedge_step c Hwf _ _ _ _ v sq e true (HR v Hv)). apply wf_resp_shape, Hw.
Qed.

(* C04 (v): after ANY history of boots, steps, crashes and shutdowns a restart with a working execution
   layer succeeds, everything agrees, and a well-formed pair of responses commits the next block at once *)
Theorem restart_all c h r0 :
  wf_cfg c -> untampered h = true ->
  let st' := fst (exec_item c (run c h) (IRun (ABoot (Some r0)))) in
  exists v, vol_of st' = Some v /\ ChainValid c st' /\
    forall sq e, wf_resp c st' sq e = true ->
      a_out (step c (img_of st') v sq e) = OCommitted (g_height (img_of st') + 1).
Proof.
  intros Hwf Hu st'.
  pose proof (reach_inv c h Hwf) as HI.
  assert (Hf : files_ok (run c h) = true) by (apply cache_files_ok_all, Hu).
  destruct (inv_item c Hwf (run c h) (IRun (ABoot (Some r0))) HI) as (HI' & _ & _).
  fold st' in HI'.
  destruct HI as (HD & _).
  destruct (boot_ok c _ _ _ _ r0 HD) as (v & Hv).
  assert (Hv' : vol_of st' = Some v).
  { unfold st'. cbn [exec_item fst vol_of do_act]. rewrite Hf. exact Hv. }
  exists v. split; [exact Hv'|]. split.
  - apply (inv_chain_valid c Hwf); [exact HI'|]. eapply running_synced; eassumption.
  - intros sq e Hw. destruct HI' as (_ & HR').
    apply (no_wedge_step c Hwf _ _ _ _ v sq e true (HR' v Hv')). apply wf_resp_shape, Hw.
Qed.

(* ================================================================================================ *)
(* 7. the flat reading of [chain]: what holds of every committed height                             *)
(* ================================================================================================ *)

Lemma commitment_eqb_eq a : forall b, commitment_eqb a b = true -> a = b.
Proof.
  induction a as [|x a IH]; intros [|y b] H; cbn in H; try discriminate H; [reflexivity|].
  apply andb_true_iff in H. destruct H as (H1 & H2). apply N.eqb_eq in H1. subst. f_equal. apply IH, H2.
Qed.

Definition block_facts (c : cfg) (blocks : N -> option blk) (built : list (N * list tx * Z))
           (execs : list (N * list tx * Z * root * root)) (r0 : root) (top : N) (s_top : cstate) (k : N) : Prop :=
  exists b, blocks k = Some b /\
    h_height (hdr_of b) = k /\
    h_chain (hdr_of b) = c_chain c /\
    (k = c_initial c -> h_last (hdr_of b) = None /\ h_app (hdr_of b) = r0) /\
    (c_initial c < k -> exists p, blocks (k - 1) = Some p /\ h_last (hdr_of b) = Some (hdr_of p) /\
                                  (h_time (hdr_of p) <= h_time (hdr_of b))%Z) /\
    h_data (hdr_of b) = d_txs (b_data b) /\
    In (k, d_txs (b_data b), h_time (hdr_of b)) built /\
    signed_by c b /\ h_proposer (hdr_of b) = c_gaddr c /\ validate_basic (b_sh b) = true /\
    exists r, In (k, d_txs (b_data b), h_time (hdr_of b), h_app (hdr_of b), r) execs /\
      (k < top -> exists b', blocks (k + 1) = Some b' /\ h_app (hdr_of b') = r) /\
      (k = top -> s_app s_top = r).

Lemma chain_explicit c blocks built execs r0 n s :
  wf_cfg c -> chain c blocks built execs r0 n s ->
  forall k, c_initial c <= k -> k <= n -> block_facts c blocks built execs r0 n s k.
Proof.
  intros Hwf. pose proof (proj1 Hwf) as Hi.
  induction 1 as [|n s b r Hc IH Hb Hv]; intros k Hk1 Hk2; [lia|].
  pose proof (chain_height _ _ _ _ _ _ _ Hc) as (Hsh & Hge & Hsc & _).
  pose proof Hv as (Hval & Hl & Hsg & Hbu & Hex).
  pose proof (validate_facts _ _ _ Hval) as (Hhh & Hch & Happ & Htm & Hcm & Hpr & Hvb).
  fold (hdr_of b) in Hhh, Hch, Happ, Htm, Hcm, Hpr.
  assert (Hn : h_height (hdr_of b) = n + 1) by lia.
  destruct (N.eq_dec k (n + 1)) as [->|Hne].
  - exists b. split; [exact Hb|]. split; [exact Hn|]. split; [congruence|].
    split; [|split; [|split; [|split; [|split; [|split; [|split]]]]]].
    + intros He. split.
      * rewrite Hl, Hn. unfold link. destruct (N.leb_spec (n + 1) (c_initial c)); [reflexivity|lia].
      * rewrite Happ. inversion Hc as [Heq Hs0|n0 s0 b0 r1 Hc0 Hb0 Hv0 Heq Hs0].
        { reflexivity. }
        { apply chain_height in Hc0. lia. }
    + intros Hlt. destruct (chain_tip _ _ _ _ _ _ _ Hi Hc) as (p & Hp & Ht & _); [lia|].
      exists p. replace (n + 1 - 1) with n by lia. split; [exact Hp|]. split.
      * rewrite Hl, Hn. unfold link. destruct (N.leb_spec (n + 1) (c_initial c)); [lia|].
        replace (n + 1 - 1) with n by lia. rewrite Hp. reflexivity.
      * rewrite <- Ht. apply Htm. lia.
    + symmetry. apply commitment_eqb_eq, Hcm.
    + rewrite <- Hn. exact Hbu.
    + exact Hsg.
    + rewrite Hpr. destruct Hsg as (_ & -> & _). reflexivity.
    + exact Hvb.
    + exists r. split; [rewrite <- Hn at 1; rewrite Happ; exact Hex|]. split; [lia|]. intros _. reflexivity.
  - destruct (IH k Hk1 ltac:(lia)) as (bk & B1 & B2 & B2' & B3 & B4 & B5 & B6 & B7 & B8 & B9 & rk & E1 & E2 & E3).
    exists bk. repeat (split; [assumption|]).
    exists rk. split; [exact E1|]. split; [|lia]. intros _.
    destruct (N.eq_dec k n) as [->|Hkn].
    + exists b. split; [exact Hb|]. rewrite Happ. apply E3. reflexivity.
    + apply E2. lia.
Qed.

(* ================================================================================================ *)
(* 8. the height-by-height statements of Props/C01.v and Props/C04.v                                *)
(* ================================================================================================ *)

Lemma blocks_of_chain_valid c st :
  wf_cfg c -> ChainValid c st ->
  let m := img_of st in
  forall k, c_initial c <= k -> k <= g_height m ->
  exists r0 s, In r0 (g_inits st) /\ g_state m = Some s /\ s_height s = g_height m /\
               block_facts c (g_block m) (g_built st) (g_execs st) r0 (g_height m) s k.
Proof.
  intros Hwf [[Hlt _]|(r0 & s & Hr & Hch & Hs & Hle)] m k Hk1 Hk2; [fold m in Hlt; lia|].
  fold m in Hr, Hch, Hs, Hle. exists r0, s. split; [exact Hr|]. split; [exact Hs|].
  split; [apply chain_height in Hch; apply Hch|]. eapply chain_explicit; eauto.
Qed.

Theorem blocks_valid_crash_free c h :
  wf_cfg c -> crash_free h = true ->
  let st := run c h in let m := img_of st in
  forall k, c_initial c <= k -> k <= g_height m ->
  exists r0 s, In r0 (g_inits st) /\ g_state m = Some s /\ s_height s = g_height m /\
               block_facts c (g_block m) (g_built st) (g_execs st) r0 (g_height m) s k.
Proof. intros Hwf Hc. apply blocks_of_chain_valid; [exact Hwf|]. apply chain_valid_crash_free; assumption. Qed.

Theorem blocks_valid_running c h :
  wf_cfg c -> forall v, vol_of (run c h) = Some v ->
  let st := run c h in let m := img_of st in
  forall k, c_initial c <= k -> k <= g_height m ->
  exists r0 s, In r0 (g_inits st) /\ g_state m = Some s /\ s_height s = g_height m /\
               block_facts c (g_block m) (g_built st) (g_execs st) r0 (g_height m) s k.
Proof. intros Hwf v Hv. apply blocks_of_chain_valid; [exact Hwf|]. eapply chain_valid_running; eassumption. Qed.

Theorem no_wedge_crash_free c h :
  wf_cfg c -> crash_free h = true ->
  forall v, vol_of (run c h) = Some v ->
  forall sq e, wf_resp c (run c h) sq e = true ->
  a_out (step c (img_of (run c h)) v sq e) = OCommitted (g_height (img_of (run c h)) + 1).
Proof. intros Hwf _. apply no_wedge_all, Hwf. Qed.

Theorem consistent_all c h :
  wf_cfg c ->
  ChainDurable c (run c h) /\ (forall v, vol_of (run c h) = Some v -> ChainValid c (run c h)).
Proof. intros Hwf. split; [apply chain_durable_all, Hwf|apply chain_valid_running, Hwf]. Qed.

(* ================================================================================================ *)
(* 7. what the node's store serves, at every instant, at every height (C01)                         *)
(* ================================================================================================ *)

Lemma signed_by_served c b : signed_by c b -> validate_basic (b_sh b) = true -> served_signed c b.
Proof.
  intros (A & B & C) Hv. unfold served_signed. rewrite A, C. splits; try assumption; try reflexivity.
  cbn [verify_header]. rewrite N.eqb_refl, header_eqb_refl. reflexivity.
Qed.

(* After every crash-free history (every instant between two actions of a run is the end of such a history):
   every committed height serves a block of that height that is signed by the configured signer; the only
   record above the committed heights is the pending block at height+1, which validates once it is signed;
   nothing is served above it. *)
Theorem served_crash_free c h :
  wf_cfg c -> crash_free h = true ->
  let st := run c h in let H := g_height (img_of st) in
  (forall n, c_initial c <= n -> n <= H ->
     exists b, served st n = Some b /\ h_height (hdr_of b) = n /\ served_signed c b) /\
  (forall v b, vol_of st = Some v -> served st (H + 1) = Some b ->
     validate (v_state v) (b_sh (final_block c b)) (b_data (final_block c b)) = true) /\
  (forall n, H + 1 < n -> c_initial c < n -> served st n = None).
Proof.
  intros Hwf Hc st H. subst st H. splits.
  - intros n Hn1 Hn2.
    destruct (blocks_valid_crash_free c h Hwf Hc n Hn1 Hn2) as (r0 & s & _ & _ & _ & (b & Hb & Hh & _ & _ & _ & _ & _ & Hsg & _ & Hvb & _)).
    exists b. split; [exact Hb|]. split; [exact Hh|]. apply signed_by_served; assumption.
  - intros v b Hv Hb. pose proof (reach_inv c h Hwf) as (_ & HR). specialize (HR v Hv).
    destruct HR as (_ & Hp & _). specialize (Hp b Hb). destruct Hp as (_ & _ & _ & Hl). exact Hl.
  - intros n Hn1 Hn2. destruct (inv_run c Hwf h fresh (inv_fresh c)) as ((HD & _) & _ & Hs).
    specialize (Hs Hc (synced_fresh)). fold (run c h) in HD, Hs. unfold served. unfold DInv in HD.
    destruct (g_state (img_of (run c h))) as [s|] eqn:Es.
    + destruct HD as (_ & _ & _ & _ & _ & Hnone). apply Hnone. rewrite <- (Hs s Es). exact Hn1.
    + destruct HD as (_ & Hnone). apply Hnone, Hn2.
Qed.
