(* Proofs/P2PIngressProofs.v — lemmas about Model/P2PIngress.v (block/store.go, the P2P ingress loops) and
   their composition with the syncer's completeness theorem (Proofs/SyncerProofs.v, progress). *)
From Coq Require Import String NArith ZArith List Bool Lia ZifyBool ZifyN ZifyNat Sorting.Sorted.
From Verif Require Import Base.KV Base.Keys Model.Types Model.Syncer Model.P2PIngress Proofs.SyncerProofs.
Import ListNotations.
Open Scope list_scope.
Open Scope N_scope.

(* ---- the height ranges ---------------------------------------------------------------------------- *)
Lemma seq_from_In a n x : In x (seq_from a n) <-> a < x /\ x <= a + N.of_nat n.
Proof.
  revert a. induction n as [|n IH]; intros a; cbn [seq_from In].
  - split; [intros []|lia].
  - rewrite IH. lia.
Qed.

Lemma heights_between_In cur sh x : In x (heights_between cur sh) <-> cur < x /\ x <= sh.
Proof. unfold heights_between. rewrite seq_from_In. lia. Qed.

Lemma seq_from_sorted a n : StronglySorted N.lt (seq_from a n).
Proof.
  revert a. induction n as [|n IH]; intros a; cbn [seq_from]; constructor.
  - apply IH.
  - apply Forall_forall. intros x Hx. apply seq_from_In in Hx. lia.
Qed.

Lemma heights_between_sorted cur sh : StronglySorted N.lt (heights_between cur sh).
Proof. apply seq_from_sorted. Qed.

(* ---- list helpers ------------------------------------------------------------------------------------ *)
Lemma sorted_filter {A} (R : A -> A -> Prop) (f : A -> bool) l :
  StronglySorted R l -> StronglySorted R (filter f l).
Proof.
  induction 1 as [|a l Hs IH Hall]; cbn [filter]; [constructor|].
  destruct (f a); [|exact IH]. constructor; [exact IH|].
  apply Forall_forall. intros x Hx. apply filter_In in Hx as (Hx & _).
  rewrite Forall_forall in Hall. auto.
Qed.

Lemma sorted_app {A} (R : A -> A -> Prop) l1 l2 :
  StronglySorted R l1 -> StronglySorted R l2 -> (forall x y, In x l1 -> In y l2 -> R x y) ->
  StronglySorted R (l1 ++ l2).
Proof.
  induction 1 as [|a l Hs IH Hall]; intros H2 Hc; cbn [app]; [exact H2|].
  constructor.
  - apply IH; [exact H2|]. intros x y Hx Hy. apply Hc; [right; exact Hx|exact Hy].
  - apply Forall_app. split; [exact Hall|]. apply Forall_forall. intros y Hy. apply Hc; [left; reflexivity|exact Hy].
Qed.

Lemma sorted_lt_NoDup l : StronglySorted N.lt l -> NoDup l.
Proof.
  induction 1 as [|a l Hs IH Hall]; constructor; [|exact IH].
  intros Hin. rewrite Forall_forall in Hall. specialize (Hall a Hin). lia.
Qed.

Lemma map_fst_tag {A B} (d : B) (l : list A) : map fst (map (fun n => (n, d)) l) = l.
Proof. induction l as [|a l IH]; cbn; [reflexivity|now rewrite IH]. Qed.

Lemma max_store_ge sigs : forall cur s, In s sigs -> ps_store s <= max_store cur sigs.
Proof.
  assert (Hm : forall l c, c <= max_store c l).
  { induction l as [|x l IH]; intros c; unfold max_store in *; cbn [fold_left]; [lia|].
    specialize (IH (N.max c (ps_store x))). lia. }
  induction sigs as [|x r IH]; intros cur s Hin; [destruct Hin|].
  unfold max_store. cbn [fold_left]. destruct Hin as [->|Hin].
  - pose proof (Hm r (N.max cur (ps_store s))). unfold max_store in *. lia.
  - apply (IH (N.max cur (ps_store x)) s Hin).
Qed.

(* ---- one signal -------------------------------------------------------------------------------------- *)
Section Loop.
  Variable accept : N -> bool.

  Lemma step_heights cur s :
    map fst (fst (loop_step accept cur s)) =
    if (cur <? ps_store s) && negb (gap_hit cur s) then filter accept (heights_between cur (ps_store s)) else [].
  Proof.
    unfold loop_step. destruct (cur <? ps_store s); [|reflexivity].
    destruct (gap_hit cur s); cbn [fst andb negb map]; [reflexivity|]. apply map_fst_tag.
  Qed.

  (* what is sent: heights of the store above the cursor that pass the filter, tagged with the DA position *)
  Lemma step_emitted_spec cur s x d :
    In (x, d) (fst (loop_step accept cur s)) ->
    cur < x /\ x <= ps_store s /\ accept x = true /\ d = ps_da s.
  Proof.
    unfold loop_step. destruct (cur <? ps_store s); [|intros []].
    destruct (gap_hit cur s); cbn [fst]; [intros []|].
    intros Hin. apply in_map_iff in Hin as (n & E & Hn). inversion E; subst.
    apply filter_In in Hn as (Hn & Ha). apply heights_between_In in Hn. tauto.
  Qed.

  (* the cursor stays when the batch read failed; otherwise it is the larger of cursor and store height *)
  Lemma step_cursor cur s :
    snd (loop_step accept cur s) = if gap_hit cur s then cur else N.max cur (ps_store s).
  Proof.
    unfold loop_step. destruct (cur <? ps_store s) eqn:E.
    - destruct (gap_hit cur s); cbn [snd]; lia.
    - destruct (gap_hit cur s); cbn [snd]; lia.
  Qed.

  (* the cursor never decreases *)
  Lemma step_mono cur s : cur <= snd (loop_step accept cur s).
  Proof. rewrite step_cursor. destruct (gap_hit cur s); lia. Qed.

  (* a failed batch read sends nothing and leaves the cursor where it was: the same range is read again at
     the next signal *)
  Lemma step_failed cur s : gap_hit cur s = true -> loop_step accept cur s = ([], cur).
  Proof. intros H. unfold loop_step. rewrite H. destruct (cur <? ps_store s); reflexivity. Qed.

  (* the cursor never passes a height that was not handed over *)
  Lemma step_no_skip cur s n :
    cur < n -> n <= snd (loop_step accept cur s) -> accept n = true ->
    In n (map fst (fst (loop_step accept cur s))).
  Proof.
    intros Hlo Hhi Ha. rewrite step_heights. unfold loop_step in Hhi.
    destruct (cur <? ps_store s) eqn:E; cbn [snd] in Hhi; [|lia].
    destruct (gap_hit cur s); cbn [snd andb negb] in *; [lia|].
    apply filter_In. split; [apply heights_between_In; lia|exact Ha].
  Qed.

  (* ---- a run ------------------------------------------------------------------------------------------ *)
  Lemma emitted_cons cur s r :
    emitted accept cur (s :: r) =
    map fst (fst (loop_step accept cur s)) ++ emitted accept (snd (loop_step accept cur s)) r.
  Proof.
    unfold emitted, emissions. cbn [loop_run].
    destruct (loop_step accept cur s) as (em & cur'). cbn [fst snd].
    destruct (loop_run accept cur' r) as (ems & fin). cbn [fst concat]. apply map_app.
  Qed.

  Lemma cursor_cons cur s r :
    cursor_after accept cur (s :: r) = cursor_after accept (snd (loop_step accept cur s)) r.
  Proof.
    unfold cursor_after. cbn [loop_run].
    destruct (loop_step accept cur s) as (em & cur'). cbn [snd].
    destruct (loop_run accept cur' r) as (ems & fin). reflexivity.
  Qed.

  Lemma cursor_app cur a b :
    cursor_after accept cur (a ++ b) = cursor_after accept (cursor_after accept cur a) b.
  Proof.
    revert cur. induction a as [|s a IH]; intros cur; [reflexivity|].
    cbn [app]. rewrite !cursor_cons. apply IH.
  Qed.

  Lemma emitted_app cur a b :
    emitted accept cur (a ++ b) = emitted accept cur a ++ emitted accept (cursor_after accept cur a) b.
  Proof.
    revert cur. induction a as [|s a IH]; intros cur; [reflexivity|].
    cbn [app]. rewrite !emitted_cons, cursor_cons, IH. apply app_assoc.
  Qed.

  (* NO SKIP, all sequences of signals (any store heights, also decreasing ones, read failures anywhere):
     every height between the initial cursor and the final cursor that passes the filter was handed over *)
  Theorem no_skip sigs : forall cur n,
    cur < n -> n <= cursor_after accept cur sigs -> accept n = true -> In n (emitted accept cur sigs).
  Proof.
    induction sigs as [|s r IH]; intros cur n Hlo Hhi Ha.
    - unfold cursor_after in Hhi. cbn in Hhi. lia.
    - rewrite emitted_cons. rewrite cursor_cons in Hhi. apply in_or_app.
      destruct (N.le_gt_cases n (snd (loop_step accept cur s))) as [Hle|Hgt].
      + left. apply step_no_skip; assumption.
      + right. apply IH; [lia|exact Hhi|exact Ha].
  Qed.

  Lemma cursor_mono sigs : forall cur, cur <= cursor_after accept cur sigs.
  Proof.
    induction sigs as [|s r IH]; intros cur; [unfold cursor_after; cbn; lia|].
    rewrite cursor_cons. pose proof (step_mono cur s). pose proof (IH (snd (loop_step accept cur s))). lia.
  Qed.

  (* THE CURSOR, all sequences of signals (empty stores, store heights going down, read failures anywhere):
     it never decreases; a wake-up whose batch read failed leaves it where it was; after a wake-up whose batch
     read did not fail it is the larger of the previous cursor and the store height of that signal *)
  Theorem cursor_law cur sigs s :
    cur <= cursor_after accept cur sigs /\
    cursor_after accept cur sigs <= cursor_after accept cur (sigs ++ [s]) /\
    cursor_after accept cur (sigs ++ [s]) =
      if gap_hit (cursor_after accept cur sigs) s then cursor_after accept cur sigs
      else N.max (cursor_after accept cur sigs) (ps_store s).
  Proof.
    split; [apply cursor_mono|]. rewrite cursor_app. split; [apply cursor_mono|].
    rewrite cursor_cons. unfold cursor_after at 1. cbn [loop_run snd]. apply step_cursor.
  Qed.

  Lemma cursor_last cur sigs s :
    gap_hit (cursor_after accept cur sigs) s = false ->
    cursor_after accept cur (sigs ++ [s]) = N.max (cursor_after accept cur sigs) (ps_store s).
  Proof. intros Hg. destruct (cursor_law cur sigs s) as (_ & _ & E). rewrite E, Hg. reflexivity. Qed.

  (* EVENTUALLY HANDED OVER: once a wake-up's batch read succeeds — after any number of failed ones, whatever
     happened before and whatever happens afterwards — everything the store held at that wake-up above the
     initial cursor has been handed to SyncLoop *)
  Theorem handed_over_once_served cur sigs s rest n :
    gap_hit (cursor_after accept cur sigs) s = false ->
    cur < n -> n <= ps_store s -> accept n = true -> In n (emitted accept cur (sigs ++ s :: rest)).
  Proof.
    intros Hg Hlo Hhi Ha. apply no_skip; [exact Hlo| |exact Ha].
    replace (sigs ++ s :: rest) with ((sigs ++ [s]) ++ rest) by (rewrite <- app_assoc; reflexivity).
    rewrite cursor_app. pose proof (cursor_mono rest (cursor_after accept cur (sigs ++ [s]))).
    rewrite cursor_last in * by exact Hg. lia.
  Qed.

  Theorem complete_at_last_signal cur sigs s n :
    gap_hit (cursor_after accept cur sigs) s = false ->
    cur < n -> n <= ps_store s -> accept n = true -> In n (emitted accept cur (sigs ++ [s])).
  Proof. apply (handed_over_once_served cur sigs s []). Qed.

  (* only heights the store held, above... and only accepted ones, are ever handed over *)
  Theorem emitted_in_store sigs : forall cur n,
    In n (emitted accept cur sigs) -> exists s, In s sigs /\ n <= ps_store s /\ accept n = true.
  Proof.
    induction sigs as [|s r IH]; intros cur n Hin; [destruct Hin|].
    rewrite emitted_cons in Hin. apply in_app_or in Hin as [Hin|Hin].
    - apply in_map_iff in Hin as ((x & d) & E & Hin). cbn in E; subst x.
      apply step_emitted_spec in Hin as (_ & Hle & Ha & _). exists s. split; [left; reflexivity|tauto].
    - destruct (IH _ _ Hin) as (s' & Hs & H). exists s'. split; [right; exact Hs|exact H].
  Qed.

  (* every event carries the DA position that was current at its signal *)
  Theorem emission_tag sigs : forall cur x d,
    In (x, d) (emissions accept cur sigs) -> exists s, In s sigs /\ d = ps_da s /\ x <= ps_store s.
  Proof.
    induction sigs as [|s r IH]; intros cur x d Hin; [destruct Hin|].
    unfold emissions in Hin. cbn [loop_run] in Hin.
    destruct (loop_step accept cur s) as (em & cur') eqn:Es.
    destruct (loop_run accept cur' r) as (ems & fin) eqn:Er. cbn [fst concat] in Hin.
    apply in_app_or in Hin as [Hin|Hin].
    - assert (H : In (x, d) (fst (loop_step accept cur s))) by (rewrite Es; exact Hin).
      apply step_emitted_spec in H as (_ & Hle & _ & Hd). exists s. split; [left; reflexivity|tauto].
    - destruct (IH cur' x d) as (s' & Hs & H).
      { unfold emissions. rewrite Er. exact Hin. }
      exists s'. split; [right; exact Hs|exact H].
  Qed.

  (* a run only emits heights above its cursor *)
  Lemma emitted_above sigs : forall cur, Forall (fun n => cur < n) (emitted accept cur sigs).
  Proof.
    induction sigs as [|s r IH]; intros cur; [constructor|].
    rewrite emitted_cons. apply Forall_app. split.
    - apply Forall_forall. intros n Hn. apply in_map_iff in Hn as ((x & d) & E & Hin). cbn in E; subst x.
      apply step_emitted_spec in Hin. lia.
    - specialize (IH (snd (loop_step accept cur s))). eapply Forall_impl; [|exact IH].
      intros n Hn. cbn beta in *. pose proof (step_mono cur s). lia.
  Qed.

  (* EXACTLY ONCE, IN INCREASING ORDER — for EVERY sequence of signals (since 2ae5bf0 no condition on the
     store heights: the cursor never goes back), with read failures anywhere *)
  Theorem emitted_sorted sigs : forall cur, StronglySorted N.lt (emitted accept cur sigs).
  Proof.
    induction sigs as [|s r IH]; intros cur; [constructor|].
    rewrite emitted_cons. apply sorted_app.
    - rewrite step_heights. destruct ((cur <? ps_store s) && negb (gap_hit cur s)); [|constructor].
      apply sorted_filter, heights_between_sorted.
    - apply IH.
    - intros x y Hx Hy.
      apply in_map_iff in Hx as ((x' & d) & E & Hin). cbn in E; subst x'.
      pose proof Hin as Hne. apply step_emitted_spec in Hin as (Hlo & Hle & _).
      (* something was sent, so the cursor is now the store height of this signal *)
      assert (Ec : snd (loop_step accept cur s) = ps_store s).
      { unfold loop_step in *. destruct (cur <? ps_store s); [|destruct Hne].
        destruct (gap_hit cur s); [destruct Hne|reflexivity]. }
      pose proof (emitted_above r (snd (loop_step accept cur s))) as Hb.
      rewrite Forall_forall in Hb. specialize (Hb y Hy). rewrite Ec in Hb. lia.
  Qed.

  Theorem once_in_order sigs cur :
    StronglySorted N.lt (emitted accept cur sigs) /\ NoDup (emitted accept cur sigs).
  Proof. split; [apply emitted_sorted|apply sorted_lt_NoDup, emitted_sorted]. Qed.

  (* ---- does the cursor reach the store height?  Yes (since 2ae5bf0): a store that begins at t <= initial
     cursor + 1 and never fails a read of a height it holds — whatever its head heights do: empty at some
     wake-ups, bursts, going down — gets the highest head it ever showed handed over *)
  Lemma never_fails_no_gap t cur s : t <= cur + 1 -> never_fails t s = true -> gap_hit cur s = false.
  Proof.
    unfold never_fails, gap_hit, first_fail. intros Ht H. apply andb_true_iff in H as (Htl & Hg).
    destruct (cur + 1 <? ps_tail s) eqn:E; [lia|]. destruct (ps_gap s); [discriminate|reflexivity].
  Qed.

  Theorem reaches_store t sigs : forall cur,
    t <= cur + 1 -> forallb (never_fails t) sigs = true ->
    cursor_after accept cur sigs = max_store cur sigs.
  Proof.
    induction sigs as [|s r IH]; intros cur Ht H; [reflexivity|].
    cbn [forallb] in H. apply andb_true_iff in H as (Hs & Hr).
    rewrite cursor_cons. unfold max_store. cbn [fold_left].
    rewrite step_cursor, (never_fails_no_gap t cur s Ht Hs). apply IH; [lia|exact Hr].
  Qed.

End Loop.

(* ---- composition: a node whose only ingress is P2P ------------------------------------------------------ *)
Lemma block_at_nth g C i : block_at g C (g_initial g + N.of_nat i) = nth_error C i.
Proof.
  unfold block_at. destruct (g_initial g + N.of_nat i <? g_initial g) eqn:E; [lia|].
  f_equal. lia.
Qed.

Lemma hdr_events_In g C em n da b :
  In (n, da) em -> block_at g C n = Some b -> In (IEv (EvHeader (fst b) da)) (hdr_events g C em).
Proof.
  intros Hin Hb. unfold hdr_events. apply in_flat_map. exists (n, da). split; [exact Hin|].
  cbn [fst snd]. rewrite Hb. left. reflexivity.
Qed.

Lemma data_events_In g C em n da b :
  In (n, da) em -> block_at g C n = Some b -> In (IEv (EvData (snd b) da)) (data_events g C em).
Proof.
  intros Hin Hb. unfold data_events. apply in_flat_map. exists (n, da). split; [exact Hin|].
  cbn [fst snd]. rewrite Hb. left. reflexivity.
Qed.

Lemma hdr_events_in_chain g C em : Forall (item_in C) (hdr_events g C em).
Proof.
  apply Forall_forall. intros i Hi. unfold hdr_events in Hi. apply in_flat_map in Hi as (e & _ & Hi).
  destruct (block_at g C (fst e)) as [b|] eqn:Eb; [|destruct Hi]. destruct Hi as [<-|[]].
  cbn. exists (snd b). unfold block_at in Eb. destruct (fst e <? g_initial g); [discriminate|].
  apply nth_error_In in Eb. destruct b; exact Eb.
Qed.

Lemma data_events_in_chain g C em : Forall (item_in C) (data_events g C em).
Proof.
  apply Forall_forall. intros i Hi. unfold data_events in Hi. apply in_flat_map in Hi as (e & _ & Hi).
  destruct (block_at g C (fst e)) as [b|] eqn:Eb; [|destruct Hi]. destruct Hi as [<-|[]].
  cbn. exists (fst b). unfold block_at in Eb. destruct (fst e <? g_initial g); [discriminate|].
  apply nth_error_In in Eb. destruct b; exact Eb.
Qed.

Lemma emitted_emissions accept cur sigs n :
  In n (emitted accept cur sigs) -> exists da, In (n, da) (emissions accept cur sigs).
Proof.
  unfold emitted. intros Hin. apply in_map_iff in Hin as ((x & d) & E & Hin). cbn in E; subst x.
  exists d. exact Hin.
Qed.

(* P2P INGRESS IS COMPLETE.  After any past h1 (any items of the chain: events, clean restarts, crashes), a
   process whose header loop and data loop start with cursors not above the node's height (store.go:13-19,
   68-74: they start with the node's own height) and see ANY sequences of signals / store heights / read
   failures: if SyncLoop then consumes (h2: any clean history of chain items, in any order, with any other
   events in between) at least what the two loops handed over, the node reaches every height that both
   cursors have reached — i.e. (cursor_last) the heights of the two P2P stores at their last successfully
   served signals. *)
Theorem p2p_complete exec g k C (acc : N -> bool) h1 hsigs dsigs ch cd h2 m :
  ChainValid exec g k C -> distinct_commitmentsb C = true ->
  Forall (item_in C) h1 ->
  ch <= d_height (n_disk (run exec g h1)) -> cd <= d_height (n_disk (run exec g h1)) ->
  Forall (item_in C) h2 -> forallb is_clean h2 = true ->
  incl (hdr_events g C (emissions acc ch hsigs)) h2 ->
  incl (data_events g C (emissions (fun _ => true) cd dsigs)) h2 ->
  (m <= length C)%nat ->
  (forall i, (i < m)%nat -> acc (g_initial g + N.of_nat i) = true) ->
  g_initial g + N.of_nat m - 1 <= cursor_after acc ch hsigs ->
  g_initial g + N.of_nat m - 1 <= cursor_after (fun _ => true) cd dsigs ->
  g_initial g + N.of_nat m - 1 <= d_height (n_disk (run exec g (h1 ++ h2))).
Proof.
  intros HV HD Ha1 Hch Hcd Ha2 Hcl Hih Hid Hm Hacc Hhc Hdc.
  apply (progress exec g k C h1 h2 m HV); try assumption.
  - apply Forall_app. split; assumption.
  - intros i b Hlt Hn.
    destruct (N.le_gt_cases (g_initial g + N.of_nat i) (d_height (n_disk (run exec g h1)))) as [Hle|Hgt]; [left; exact Hle|].
    right. assert (Hin : In (g_initial g + N.of_nat i) (emitted acc ch hsigs)).
    { apply no_skip; [lia|lia|apply Hacc; exact Hlt]. }
    apply emitted_emissions in Hin as (da & Hin). exists da. apply Hih.
    eapply hdr_events_In; [exact Hin|]. rewrite block_at_nth. exact Hn.
  - intros i b Hlt Hn _.
    destruct (N.le_gt_cases (g_initial g + N.of_nat i) (d_height (n_disk (run exec g h1)))) as [Hle|Hgt]; [left; exact Hle|].
    right. assert (Hin : In (g_initial g + N.of_nat i) (emitted (fun _ => true) cd dsigs)).
    { apply no_skip; [lia|lia|reflexivity]. }
    apply emitted_emissions in Hin as (da & Hin). exists da. apply Hid.
    eapply data_events_In; [exact Hin|]. rewrite block_at_nth. exact Hn.
Qed.

(* the same in terms of the P2P stores (since 2ae5bf0 with no condition on their head heights): stores that begin
   at the chain's initial height and never fail a read of a height they hold; loops that start with the node's
   height (>= initial - 1); if at SOME wake-up the header store showed head >= H and at some wake-up the data
   store showed head >= H (also if they were empty, or lower, at other wake-ups before or after), the node
   reaches H *)
Theorem p2p_complete_stores exec g k C (acc : N -> bool) h1 hsigs dsigs ch cd h2 m sh sd :
  ChainValid exec g k C -> distinct_commitmentsb C = true ->
  Forall (item_in C) h1 ->
  ch <= d_height (n_disk (run exec g h1)) -> cd <= d_height (n_disk (run exec g h1)) ->
  g_initial g <= ch + 1 -> g_initial g <= cd + 1 ->
  forallb (never_fails (g_initial g)) hsigs = true -> forallb (never_fails (g_initial g)) dsigs = true ->
  Forall (item_in C) h2 -> forallb is_clean h2 = true ->
  incl (hdr_events g C (emissions acc ch hsigs)) h2 ->
  incl (data_events g C (emissions (fun _ => true) cd dsigs)) h2 ->
  (m <= length C)%nat ->
  (forall i, (i < m)%nat -> acc (g_initial g + N.of_nat i) = true) ->
  In sh hsigs -> In sd dsigs ->
  g_initial g + N.of_nat m - 1 <= ps_store sh -> g_initial g + N.of_nat m - 1 <= ps_store sd ->
  g_initial g + N.of_nat m - 1 <= d_height (n_disk (run exec g (h1 ++ h2))).
Proof.
  intros HV HD Ha1 Hch Hcd Hth Htd Hfh Hfd Ha2 Hcl Hih Hid Hm Hacc Hsh Hsd Hh Hd.
  apply (p2p_complete exec g k C acc h1 hsigs dsigs ch cd h2 m); try assumption.
  - rewrite (reaches_store acc (g_initial g) hsigs ch Hth Hfh).
    pose proof (max_store_ge hsigs ch sh Hsh). lia.
  - rewrite (reaches_store (fun _ => true) (g_initial g) dsigs cd Htd Hfd).
    pose proof (max_store_ge dsigs cd sd Hsd). lia.
Qed.

(* ---- a concrete long chain for the non-vacuity examples: n blocks, every third one empty -------------- *)
Fixpoint ex_long_spec (n : nat) (i : N) : list (list tx * Z) :=
  match n with
  | O => []
  | S k => ((if i mod 3 =? 0 then [] else [i]), (100 + Z.of_N i)%Z) :: ex_long_spec k (i + 1)
  end.
Definition ex_long (initial : N) (n : nat) : list block := ex_chain initial (ex_long_spec n 1).
