(* Proofs/ConcProofs.v — the joint invariant of Model/Conc.v is kept by every atomic action of every activity,
   hence holds after every action of every schedule; heights, watermarks and the DA-included height never go
   back and committed blocks are never rewritten. *)
From Coq Require Import NArith List Bool Lia.
From Verif Require Import Model.Conc.
Import ListNotations.
Open Scope N_scope.

(* ---- basics ----------------------------------------------------------------------------------------- *)
Lemma upd_eq f h v : upd f h v h = v.
Proof. unfold upd. rewrite N.eqb_refl. reflexivity. Qed.
Lemma upd_neq f h v x : x <> h -> upd f h v x = f x.
Proof. unfold upd. intros H. destruct (N.eqb_spec x h); [contradiction | reflexivity]. Qed.
Lemma id_at_upd_neq f h v x : x <> h -> id_at (upd f h v) x = id_at f x.
Proof. intros H. unfold id_at. rewrite upd_neq by exact H. reflexivity. Qed.

Lemma rangeN_In w n h : In h (rangeN w n) <-> w < h <= n.
Proof.
  unfold rangeN. rewrite in_map_iff. split.
  - intros [i [Hi Hin]]. apply in_seq in Hin. lia.
  - intros H. exists (N.to_nat (h - w - 1)). split; [lia | apply in_seq; lia].
Qed.

Lemma posted_In k snap w n h b :
  w < h <= n -> snap h = Some b -> wants k b = true -> In (h, b_id b) (posted k snap w n).
Proof.
  intros Hr Hs Hw. unfold posted. apply in_flat_map. exists h. split; [apply rangeN_In; exact Hr|].
  rewrite Hs, Hw. left. reflexivity.
Qed.

Lemma pair_eqb_eq a b : pair_eqb a b = true -> a = b.
Proof.
  destruct a as [a1 a2], b as [b1 b2]. unfold pair_eqb; cbn. intros H. apply andb_prop in H. destruct H as [H1 H2].
  apply N.eqb_eq in H1. apply N.eqb_eq in H2. subst. reflexivity.
Qed.
Lemma mem_In x l : mem x l = true -> In x l.
Proof.
  unfold mem. intros H. apply existsb_exists in H. destruct H as [y [Hy He]]. apply pair_eqb_eq in He. subst. exact Hy.
Qed.

Lemma updk_eq {A} (f : kind -> A) k v : updk f k v k = v.
Proof. unfold updk. destruct k; reflexivity. Qed.
Lemma updk_neq {A} (f : kind -> A) k v k' : k' <> k -> updk f k v k' = f k'.
Proof. unfold updk. destruct k, k'; cbn; intros H; try reflexivity; contradiction H; reflexivity. Qed.
Lemma kind_dec (a b : kind) : a = b \/ a <> b.
Proof. destruct a, b; (left; reflexivity) || (right; discriminate). Qed.

(* ---- clauses of the other activities survive an action that respects what they read ------------------ *)
Lemma Pcl_pres s s' p : blk s' = blk s -> ht s' = ht s -> sth s' = sth s -> Pcl s p -> Pcl s' p.
Proof. intros Hb Hh Hs. unfold Pcl. rewrite Hb, Hh, Hs. exact (fun x => x). Qed.

Lemma snap_ok_pres s s' snap t :
  t <= ht s -> (forall h, h <= ht s -> blk s' h = blk s h) -> snap_ok s snap t -> snap_ok s' snap t.
Proof. intros Ht Hb H h Hh. rewrite Hb by lia. apply H. exact Hh. Qed.

Lemma Scl_pres k s s' q :
  ht s <= ht s' -> (forall h, h <= ht s -> blk s' h = blk s h) -> wmv s' k = wmv s k ->
  (forall x, In x (da s k) -> In x (da s' k)) -> Scl k s q -> Scl k s' q.
Proof.
  intros Hh Hb Hw Hd. destruct q as [|w t|w t snap|w t snap n|w t snap n|w t snap n]; cbn; rewrite ?Hw; intros H.
  - exact I.
  - intuition lia.
  - destruct H as (H1 & H2 & H3 & H4).
    split; [exact H1|]. split; [exact H2|]. split; [lia|]. eapply snap_ok_pres; eauto.
  - destruct H as (H1 & H2 & H3 & H4 & H5 & H6).
    split; [exact H1|]. split; [exact H2|]. split; [exact H3|]. split; [lia|]. split; [eapply snap_ok_pres; eauto|].
    intros x Hx; apply Hd, H6, Hx.
  - destruct H as (H1 & H2 & H3 & H4 & H5 & H6).
    split; [exact H1|]. split; [exact H2|]. split; [exact H3|]. split; [lia|]. split; [eapply snap_ok_pres; eauto|].
    intros x Hx; apply Hd, H6, Hx.
  - destruct H as (H1 & H2 & H3 & H4).
    split; [exact H1|]. split; [exact H2|]. split; [lia|]. eapply snap_ok_pres; eauto.
Qed.

Lemma marked_pres s s' c b : (forall k x, In x (mk s k) -> In x (mk s' k)) -> marked s c b -> marked s' c b.
Proof. intros Hm [H1 H2]. split; [apply Hm, H1 | intros Ht; apply Hm, H2, Ht]. Qed.

Lemma Icl_pres s s' q :
  ht s <= ht s' -> (forall h, 1 <= h <= ht s -> blk s' h = blk s h) ->
  di s' = di s -> pdi s' = pdi s -> fin s' = fin s ->
  (forall k x, In x (mk s k) -> In x (mk s' k)) -> Icl s q -> Icl s' q.
Proof.
  intros Hh Hb Hd Hp Hf Hm.
  assert (HB : forall c b, c + 1 <= ht s -> blk s (c + 1) = Some b -> blk s' (c + 1) = Some b).
  { intros c b Hc Hbk. rewrite Hb by lia. exact Hbk. }
  destruct q; cbn; rewrite ?Hd, ?Hp, ?Hf; intros H.
  - exact H.
  - exact H.
  - intuition lia.
  - destruct H as (H1 & H2 & H3 & H4). split; [exact H1|]. split; [exact H2|]. split; [lia|]. apply HB; assumption.
  - destruct H as (H1 & H2 & H3 & H4 & H5). split; [exact H1|]. split; [exact H2|]. split; [lia|]. split; [apply HB; assumption|]. eapply marked_pres; eauto.
  - destruct H as (H1 & H2 & H3 & H4 & H5). split; [exact H1|]. split; [exact H2|]. split; [lia|]. split; [apply HB; assumption|]. eapply marked_pres; eauto.
  - destruct H as (H1 & H2 & H3 & H4 & H5). split; [exact H1|]. split; [exact H2|]. split; [lia|]. split; [apply HB; assumption|]. eapply marked_pres; eauto.
  - destruct H as (H1 & H2 & H3 & H4 & H5 & H6 & H7). split; [exact H1|]. split; [exact H2|]. split; [exact H3|]. split; [exact H4|]. split; [lia|]. split; [apply HB; assumption|]. eapply marked_pres; eauto.
  - destruct H as (H1 & H2 & H3 & H4 & H5 & H6 & H7). split; [exact H1|]. split; [exact H2|]. split; [exact H3|]. split; [exact H4|]. split; [lia|]. split; [apply HB; assumption|]. eapply marked_pres; eauto.
Qed.

(* ---- producer ------------------------------------------------------------------------------------------ *)
Lemma G_upd_top s b :
  G s -> b_prev b = id_at (blk s) (ht s) -> G (set_blk s (upd (blk s) (ht s + 1) (Some b))).
Proof.
  intros g Hp.
  assert (E : forall h, h <= ht s -> upd (blk s) (ht s + 1) (Some b) h = blk s h) by (intros h Hh; apply upd_neq; lia).
  assert (EI : forall h, h <= ht s -> id_at (upd (blk s) (ht s + 1) (Some b)) h = id_at (blk s) h) by (intros h Hh; apply id_at_upd_neq; lia).
  constructor; cbn.
  - intros h Hh. rewrite E by lia. rewrite EI by lia. apply (g_chain s g). exact Hh.
  - intros b' Hb'. rewrite upd_eq in Hb'. inversion Hb'; subst b'. rewrite EI by lia. exact Hp.
  - intros h Hh. rewrite upd_neq by lia. apply (g_above s g). exact Hh.
  - rewrite E by lia. apply (g_zero s g).
  - apply (g_wm_le s g).
  - intros k h b' Hh. rewrite E by (pose proof (g_wm_le s g k); lia). apply (g_wm_da s g). exact Hh.
  - apply (g_mk_da s g).
  - apply (g_di_le s g).
  - intros h b' Hh. rewrite E by (pose proof (g_di_le s g); lia). apply (g_di_da s g). exact Hh.
  - apply (g_di_dur s g).
Qed.

Lemma G_set_sth s v : G s -> G (set_sth s v).
Proof. intros g. destruct g. constructor; cbn; assumption. Qed.

Lemma G_incr_ht s b :
  G s -> blk s (ht s + 1) = Some b -> b_final b = true -> G (set_ht s (ht s + 1)).
Proof.
  intros g Hb Hf. constructor; cbn.
  - intros h Hh. destruct (N.eq_dec h (ht s + 1)) as [->|Hne].
    + exists b. split; [exact Hb|]. split; [exact Hf|]. replace (ht s + 1 - 1) with (ht s) by lia. apply (g_early s g). exact Hb.
    + apply (g_chain s g). lia.
  - intros b' Hb'. rewrite (g_above s g) in Hb' by lia. discriminate.
  - intros h Hh. apply (g_above s g). lia.
  - apply (g_zero s g).
  - intros k. pose proof (g_wm_le s g k). lia.
  - apply (g_wm_da s g).
  - apply (g_mk_da s g).
  - pose proof (g_di_le s g). lia.
  - apply (g_di_da s g).
  - apply (g_di_dur s g).
Qed.

Definition frame_p (s s' : shared) : Prop :=
  ht s <= ht s' /\ (forall h, h <= ht s -> blk s' h = blk s h) /\
  wmv s' = wmv s /\ wmp s' = wmp s /\ da s' = da s /\ mk s' = mk s /\ di s' = di s /\ pdi s' = pdi s /\ fin s' = fin s.

Lemma frame_p_refl s : frame_p s s.
Proof. unfold frame_p. repeat split; try reflexivity; lia. Qed.

Lemma step_p_ok s p e : G s -> Pcl s p ->
  G (fst (step_p s p e)) /\ Pcl (fst (step_p s p e)) (snd (step_p s p e)) /\ frame_p s (fst (step_p s p e)).
Proof.
  intros g H. destruct p as [|h|h prev|h prev|h prev txs|h prev txs|h b|h b|h|h|]; cbn [step_p].
  - cbn. split; [exact g|]. split; [split; [exact H | reflexivity] | apply frame_p_refl].
  - cbn. destruct H as [H1 H2]. split; [exact g|]. split; [repeat split; assumption | apply frame_p_refl].
  - destruct H as (H1 & H2 & H3). destruct (blk s (h + 1)) as [b|] eqn:E; cbn.
    + split; [exact g|]. split; [repeat split; assumption | apply frame_p_refl].
    + split; [exact g|]. split; [repeat split; assumption | apply frame_p_refl].
  - destruct (e_ok e); cbn; (split; [exact g|]); (split; [| apply frame_p_refl]); [exact H | apply H].
  - cbn. split; [exact g|]. split; [exact H | apply frame_p_refl].
  - destruct H as (H1 & H2 & H3 & H4). subst h. cbn.
    split; [apply G_upd_top; [exact g | exact H3]|].
    split; [split; [exact H1|]; split; [reflexivity | apply upd_eq]|].
    unfold frame_p; cbn. repeat split; try reflexivity; try lia. intros h Hh. apply upd_neq. lia.
  - destruct (e_ok e); cbn; (split; [exact g|]); (split; [| apply frame_p_refl]); [exact H | apply H].
  - destruct H as (H1 & H2 & H3). subst h. cbn.
    split; [apply G_upd_top; [exact g | cbn; apply (g_early s g); exact H3]|].
    split; [split; [exact H1|]; split; [reflexivity|]; exists (finalize b); split; [apply upd_eq | reflexivity]|].
    unfold frame_p; cbn. repeat split; try reflexivity; try lia. intros h Hh. apply upd_neq. lia.
  - destruct H as (H1 & H2 & H3). subst h. cbn.
    split; [apply G_set_sth; exact g|]. split; [split; [reflexivity|]; split; [reflexivity | exact H3]|].
    unfold frame_p; cbn. repeat split; try reflexivity; lia.
  - destruct H as (H1 & H2 & b & H3 & H4). subst h. cbn.
    split; [eapply G_incr_ht; eauto|]. split; [exact H1|].
    unfold frame_p; cbn. repeat split; try reflexivity; lia.
  - cbn. split; [exact g|]. split; [exact H | apply frame_p_refl].
Qed.

(* ---- submitters ---------------------------------------------------------------------------------------- *)
Lemma updk_app_In {A} (f : kind -> list A) k l k' x : In x (f k') -> In x (updk f k (l ++ f k) k').
Proof.
  intros H. destruct (kind_dec k' k) as [->|Hne]; [rewrite updk_eq; apply in_or_app; right; exact H | rewrite updk_neq by exact Hne; exact H].
Qed.

Lemma G_da_grow s k l : G s -> G (set_da s (updk (da s) k (l ++ da s k))).
Proof.
  intros g. constructor; cbn.
  - apply (g_chain s g).
  - apply (g_early s g).
  - apply (g_above s g).
  - apply (g_zero s g).
  - apply (g_wm_le s g).
  - intros k' h b Hh Hb Hw. apply updk_app_In. eapply (g_wm_da s g); eauto.
  - intros k' x Hx. apply updk_app_In. apply (g_mk_da s g). exact Hx.
  - apply (g_di_le s g).
  - intros h b Hh Hb. destruct (g_di_da s g h b Hh Hb) as [H1 H2]. split; [apply updk_app_In; exact H1 | intros Ht; apply updk_app_In; apply H2; exact Ht].
  - apply (g_di_dur s g).
Qed.

Lemma G_mk_grow s k l : G s -> (forall x, In x l -> In x (da s k)) -> G (set_mk s (updk (mk s) k (l ++ mk s k))).
Proof.
  intros g Hl. constructor; cbn.
  - apply (g_chain s g).
  - apply (g_early s g).
  - apply (g_above s g).
  - apply (g_zero s g).
  - apply (g_wm_le s g).
  - apply (g_wm_da s g).
  - intros k' x Hx. destruct (kind_dec k' k) as [->|Hne].
    + rewrite updk_eq in Hx. apply in_app_or in Hx. destruct Hx as [Hx|Hx]; [apply Hl; exact Hx | apply (g_mk_da s g); exact Hx].
    + rewrite updk_neq in Hx by exact Hne. apply (g_mk_da s g). exact Hx.
  - apply (g_di_le s g).
  - apply (g_di_da s g).
  - apply (g_di_dur s g).
Qed.

Lemma G_set_wmv s k w t snap n :
  G s -> w = wmv s k -> w < n -> n <= t -> t <= ht s -> snap_ok s snap t ->
  (forall x, In x (posted k snap w n) -> In x (da s k)) ->
  G (set_wmv s (updk (wmv s) k n)).
Proof.
  intros g Hw Hwn Hnt Hth Hsn Hpo. constructor; cbn.
  - apply (g_chain s g).
  - apply (g_early s g).
  - apply (g_above s g).
  - apply (g_zero s g).
  - intros k'. destruct (kind_dec k' k) as [->|Hne].
    + rewrite updk_eq. pose proof (g_wm_le s g k). lia.
    + rewrite updk_neq by exact Hne. apply (g_wm_le s g).
  - intros k' h b Hh Hb Hwt. destruct (kind_dec k' k) as [->|Hne].
    + rewrite updk_eq in Hh. destruct (N.le_gt_cases h (wmv s k)) as [Hle|Hgt].
      * eapply (g_wm_da s g); eauto. lia.
      * apply Hpo. apply posted_In; [lia | rewrite Hsn by lia; exact Hb | exact Hwt].
    + rewrite updk_neq in Hh by exact Hne. eapply (g_wm_da s g); eauto.
  - apply (g_mk_da s g).
  - apply (g_di_le s g).
  - apply (g_di_da s g).
  - apply (g_di_dur s g).
Qed.

Lemma G_set_wmp s k n : G s -> n = wmv s k -> G (set_wmp s (updk (wmp s) k n)).
Proof.
  intros g Hn. constructor; cbn.
  - apply (g_chain s g).
  - apply (g_early s g).
  - apply (g_above s g).
  - apply (g_zero s g).
  - intros k'. destruct (kind_dec k' k) as [->|Hne].
    + rewrite updk_eq. pose proof (g_wm_le s g k). lia.
    + rewrite updk_neq by exact Hne. apply (g_wm_le s g).
  - apply (g_wm_da s g).
  - apply (g_mk_da s g).
  - apply (g_di_le s g).
  - apply (g_di_da s g).
  - apply (g_di_dur s g).
Qed.

Definition frame_s (k : kind) (s s' : shared) : Prop :=
  blk s' = blk s /\ ht s' = ht s /\ sth s' = sth s /\ di s' = di s /\ pdi s' = pdi s /\ fin s' = fin s /\
  (forall k', k' <> k -> wmv s' k' = wmv s k') /\ (forall k', wmv s k' <= wmv s' k') /\
  (forall k' x, In x (da s k') -> In x (da s' k')) /\ (forall k' x, In x (mk s k') -> In x (mk s' k')).

Lemma frame_s_refl k s : frame_s k s s.
Proof. unfold frame_s. repeat split; try reflexivity; try lia; auto. Qed.

Lemma Scl_next k s t snap n :
  n = wmv s k -> n <= t -> t <= ht s -> snap_ok s snap t -> Scl k s (s_next t snap n).
Proof.
  intros H1 H2 H3 H4. unfold s_next. destruct (N.ltb_spec n t); cbn; [repeat split; assumption | exact I].
Qed.

Lemma step_s_ok k s p e : G s -> Scl k s p ->
  G (fst (step_s k s p e)) /\ Scl k (fst (step_s k s p e)) (snd (step_s k s p e)) /\ frame_s k s (fst (step_s k s p e)).
Proof.
  intros g H. destruct p as [|w t|w t snap|w t snap n|w t snap n|w t snap n]; cbn [step_s].
  - destruct (N.ltb_spec (wmv s k) (ht s)); cbn; (split; [exact g|]); (split; [|apply frame_s_refl]); [|exact I].
    repeat split; [assumption | lia].
  - cbn. destruct H as (H1 & H2 & H3). split; [exact g|]. split; [|apply frame_s_refl].
    repeat split; assumption.
  - destruct H as (H1 & H2 & H3 & H4). destruct (e_ok e); [|cbn; split; [exact g|]; split; [exact I | apply frame_s_refl]].
    destruct ((w <? e_n e) && (e_n e <=? t)) eqn:E; cbn.
    + apply andb_prop in E. destruct E as [E1 E2]. apply N.ltb_lt in E1. apply N.leb_le in E2.
      split; [apply G_da_grow; exact g|].
      split.
      * repeat split; try assumption. rewrite updk_eq. intros x Hx. apply in_or_app. left. exact Hx.
      * unfold frame_s; cbn. repeat split; try reflexivity; try lia; auto. intros k' x Hx. apply updk_app_In. exact Hx.
    + split; [exact g|]. split; [repeat split; assumption | apply frame_s_refl].
  - destruct H as (H1 & H2 & H3 & H4 & H5 & H6). cbn.
    split; [apply G_mk_grow; [exact g | exact H6]|].
    split; [repeat split; assumption|].
    unfold frame_s; cbn. repeat split; try reflexivity; try lia; auto. intros k' x Hx. apply updk_app_In. exact Hx.
  - destruct H as (H1 & H2 & H3 & H4 & H5 & H6). destruct (N.ltb_spec (wmv s k) n) as [Hlt|Hge]; [|lia]. cbn.
    split; [eapply G_set_wmv; eauto|].
    split; [rewrite updk_eq; repeat split; try assumption; reflexivity|].
    unfold frame_s; cbn. repeat split; try reflexivity; auto.
    + intros k' Hne. apply updk_neq. exact Hne.
    + intros k'. destruct (kind_dec k' k) as [->|Hne]; [rewrite updk_eq; lia | rewrite updk_neq by exact Hne; lia].
  - destruct H as (H1 & H2 & H3 & H4). cbn.
    split; [apply G_set_wmp; [exact g | exact H1]|].
    split; [apply Scl_next; assumption|].
    unfold frame_s; cbn. repeat split; try reflexivity; try lia; auto.
Qed.

(* ---- includer ------------------------------------------------------------------------------------------ *)
Lemma G_set_fin s v : G s -> pdi s <= v -> v <= di s + 1 -> G (set_fin s v).
Proof.
  intros g H1 H2. destruct g. constructor; cbn; try assumption. lia.
Qed.
Lemma G_set_pdi s v : G s -> di s <= v -> v <= fin s -> G (set_pdi s v).
Proof.
  intros g H1 H2. destruct g. constructor; cbn; try assumption. lia.
Qed.
Lemma G_incr_di s b :
  G s -> di s + 1 <= ht s -> blk s (di s + 1) = Some b -> marked s (di s) b -> pdi s = di s + 1 -> fin s = di s + 1 ->
  G (set_di s (di s + 1)).
Proof.
  intros g Hh Hb [Hm1 Hm2] Hp Hf. constructor; cbn.
  - apply (g_chain s g).
  - apply (g_early s g).
  - apply (g_above s g).
  - apply (g_zero s g).
  - apply (g_wm_le s g).
  - apply (g_wm_da s g).
  - apply (g_mk_da s g).
  - exact Hh.
  - intros h b' Hr Hb'. destruct (N.eq_dec h (di s + 1)) as [->|Hne].
    + rewrite Hb in Hb'. inversion Hb'; subst b'. split; [apply (g_mk_da s g); exact Hm1 | intros Ht; apply (g_mk_da s g); apply Hm2; exact Ht].
    + apply (g_di_da s g); [lia | exact Hb'].
  - lia.
Qed.

Definition frame_i (s s' : shared) : Prop :=
  blk s' = blk s /\ ht s' = ht s /\ sth s' = sth s /\ wmv s' = wmv s /\ wmp s' = wmp s /\ da s' = da s /\ mk s' = mk s /\ di s <= di s'.
Lemma frame_i_refl s : frame_i s s.
Proof. unfold frame_i. repeat split; try reflexivity; lia. Qed.

Lemma step_i_ok s p e : G s -> Icl s p ->
  G (fst (step_i s p e)) /\ Icl (fst (step_i s p e)) (snd (step_i s p e)) /\ frame_i s (fst (step_i s p e)).
Proof.
  intros g H. destruct p as [|c|c|c b|c b|c b|c b|c b cur|c b cur]; cbn [step_i].
  - cbn. split; [exact g|]. split; [split; [exact H | reflexivity] | apply frame_i_refl].
  - destruct H as (H1 & H2). destruct (N.leb_spec (c + 1) (ht s)); cbn; (split; [exact g|]); (split; [|apply frame_i_refl]).
    + repeat split; assumption.
    + exact H1.
  - destruct H as (H1 & H2 & H3). destruct (blk s (c + 1)) as [b|] eqn:E; cbn; (split; [exact g|]); (split; [|apply frame_i_refl]).
    + repeat split; assumption.
    + exact H1.
  - destruct H as (H1 & H2 & H3 & H4).
    destruct (mem (c + 1, b_id b) (mk s Hdr) && (negb (b_txs b) || mem (c + 1, b_id b) (mk s Dat))) eqn:E; cbn;
      (split; [exact g|]); (split; [|apply frame_i_refl]); [|exact H1].
    apply andb_prop in E. destruct E as [E1 E2].
    split; [exact H1|]. split; [exact H2|]. split; [exact H3|]. split; [exact H4|].
    split; [apply mem_In; exact E1|]. intros Ht. rewrite Ht in E2. cbn in E2. apply mem_In. exact E2.
  - cbn. split; [exact g|]. split; [exact H | apply frame_i_refl].
  - cbn. split; [exact g|]. split; [exact H | apply frame_i_refl].
  - destruct H as (H1 & H2 & H3 & H4 & H5). destruct (e_ok e); cbn.
    + split; [apply G_set_fin; [exact g | lia | lia]|].
      split; [split; [exact H1|]; split; [reflexivity|]; split; [reflexivity|]; split; [exact H2|]; split; [exact H3|]; split; [exact H4 | exact H5]|].
      unfold frame_i; cbn. repeat split; try reflexivity; lia.
    + split; [exact g|]. split; [exact H1 | apply frame_i_refl].
  - destruct H as (H1 & H2 & H3 & H4 & H5 & H6 & H7). cbn.
    split; [apply G_set_pdi; [exact g | lia | lia]|].
    split; [split; [lia|]; split; [exact H2|]; split; [exact H3|]; split; [exact H4|]; split; [exact H5|]; split; [exact H6 | exact H7]|].
    unfold frame_i; cbn. repeat split; try reflexivity; lia.
  - destruct H as (H1 & H2 & H3 & H4 & H5 & H6 & H7). destruct (N.eqb_spec (di s) cur) as [He|Hne]; [|congruence]. cbn.
    subst cur c.
    split; [eapply G_incr_di; eauto|].
    split; [split; [exact H1 | reflexivity]|].
    unfold frame_i; cbn. repeat split; try reflexivity; lia.
Qed.

(* ---- every action of every activity keeps the joint invariant ------------------------------------------ *)
Lemma J_init : J init.
Proof.
  unfold J, init; cbn. split; [|split; [reflexivity | split; [intros k; exact I | reflexivity]]].
  constructor; cbn.
  - intros h Hh. lia.
  - intros b Hb. discriminate.
  - reflexivity.
  - reflexivity.
  - intros k. lia.
  - intros k h b Hh. lia.
  - intros k x Hx. exact Hx.
  - lia.
  - intros h b Hh. lia.
  - lia.
Qed.

Lemma step_keeps_J st ae : J st -> J (step st ae).
Proof.
  intros (g & HP & HS & HI). destruct ae as [a e]. destruct a as [|k|]; unfold step.
  - pose proof (step_p_ok (sh st) (pp st) e g HP) as (g' & HP' & F).
    destruct (step_p (sh st) (pp st) e) as [s' p']; cbn [fst snd] in *.
    destruct F as (F1 & F2 & F3 & F4 & F5 & F6 & F7 & F8 & F9).
    unfold J; cbn. split; [exact g'|]. split; [exact HP'|]. split.
    + intros k. apply (Scl_pres k (sh st) s'); [exact F1 | exact F2 | rewrite F3; reflexivity | rewrite F5; auto | apply HS].
    + apply (Icl_pres (sh st) s'); try assumption; [intros h Hh; apply F2; lia | rewrite F6; auto].
  - pose proof (step_s_ok k (sh st) (ps st k) e g (HS k)) as (g' & HS' & F).
    destruct (step_s k (sh st) (ps st k) e) as [s' p']; cbn [fst snd] in *.
    destruct F as (F1 & F2 & F3 & F4 & F5 & F6 & F7 & F8 & F9 & F10).
    unfold J; cbn. split; [exact g'|]. split; [apply (Pcl_pres (sh st) s'); assumption|]. split.
    + intros k'. destruct (kind_dec k' k) as [->|Hne].
      * rewrite updk_eq. exact HS'.
      * rewrite updk_neq by exact Hne.
        apply (Scl_pres k' (sh st) s'); [rewrite F2; lia | intros h Hh; rewrite F1; reflexivity | apply F7; exact Hne | apply F9 | apply HS].
    + apply (Icl_pres (sh st) s'); try assumption; [rewrite F2; lia | intros h Hh; rewrite F1; reflexivity].
  - pose proof (step_i_ok (sh st) (pi st) e g HI) as (g' & HI' & F).
    destruct (step_i (sh st) (pi st) e) as [s' p']; cbn [fst snd] in *.
    destruct F as (F1 & F2 & F3 & F4 & F5 & F6 & F7 & F8).
    unfold J; cbn. split; [exact g'|]. split; [apply (Pcl_pres (sh st) s'); assumption|]. split; [|exact HI'].
    intros k. apply (Scl_pres k (sh st) s'); [rewrite F2; lia | intros h Hh; rewrite F1; reflexivity | rewrite F4; reflexivity | rewrite F6; auto | apply HS].
Qed.

Theorem interleaving_from st sched : J st -> J (run st sched).
Proof.
  revert st. induction sched as [|ae sched IH]; intros st H; [exact H|].
  cbn. apply IH. apply step_keeps_J. exact H.
Qed.

Theorem interleaving sched : J (run init sched).
Proof. apply interleaving_from. exact J_init. Qed.

(* after EVERY action of the schedule, not only at its end *)
Theorem interleaving_every_prefix sched n : J (run init (firstn n sched)).
Proof. apply interleaving. Qed.

(* nothing goes back, committed blocks are never rewritten, the DA layer never forgets *)
Lemma step_mono st ae : J st -> mono (sh st) (sh (step st ae)).
Proof.
  intros (g & HP & HS & HI). destruct ae as [a e]. destruct a as [|k|]; unfold step.
  - pose proof (step_p_ok (sh st) (pp st) e g HP) as (_ & _ & F).
    destruct (step_p (sh st) (pp st) e) as [s' p']; cbn [fst snd sh] in *.
    destruct F as (F1 & F2 & F3 & F4 & F5 & F6 & F7 & F8 & F9).
    unfold mono. split; [exact F1|]. split; [intros k; rewrite F3; lia|]. split; [lia|]. split; [intros h Hh; apply F2; lia|]. intros k x Hx. rewrite F5. exact Hx.
  - pose proof (step_s_ok k (sh st) (ps st k) e g (HS k)) as (_ & _ & F).
    destruct (step_s k (sh st) (ps st k) e) as [s' p']; cbn [fst snd sh] in *.
    destruct F as (F1 & F2 & F3 & F4 & F5 & F6 & F7 & F8 & F9 & F10).
    unfold mono. split; [lia|]. split; [exact F8|]. split; [lia|]. split; [intros h Hh; rewrite F1; reflexivity | exact F9].
  - pose proof (step_i_ok (sh st) (pi st) e g HI) as (_ & _ & F).
    destruct (step_i (sh st) (pi st) e) as [s' p']; cbn [fst snd sh] in *.
    destruct F as (F1 & F2 & F3 & F4 & F5 & F6 & F7 & F8).
    unfold mono. split; [lia|]. split; [intros k; rewrite F4; lia|]. split; [exact F8|]. split; [intros h Hh; rewrite F1; reflexivity|]. intros k x Hx. rewrite F6. exact Hx.
Qed.

Theorem monotone sched ae : mono (sh (run init sched)) (sh (run init (sched ++ [ae]))).
Proof.
  unfold run. rewrite fold_left_app. cbn. apply step_mono. apply interleaving.
Qed.

(* ---- the boolean check is implied by the invariant (at a point where the producer is between two steps) --- *)
Lemma In_mem x l : In x l -> mem x l = true.
Proof.
  intros H. unfold mem. apply existsb_exists. exists x. split; [exact H|].
  destruct x as [a b]. unfold pair_eqb; cbn. rewrite !N.eqb_refl. reflexivity.
Qed.

Lemma gcheck_sound s : G s -> sth s = ht s -> gcheck s = [].
Proof.
  intros g Hs. unfold gcheck.
  pose proof (g_wm_le s g Hdr) as [A1 A2]. pose proof (g_wm_le s g Dat) as [B1 B2].
  pose proof (g_di_le s g) as C. pose proof (g_di_dur s g) as (D1 & D2 & D3).
  rewrite Hs, N.eqb_refl.
  rewrite (proj2 (N.leb_le _ _) A1), (proj2 (N.leb_le _ _) A2), (proj2 (N.leb_le _ _) B1), (proj2 (N.leb_le _ _) B2).
  rewrite (proj2 (N.leb_le _ _) C), (proj2 (N.leb_le _ _) D1), (proj2 (N.leb_le _ _) D2), (proj2 (N.leb_le _ _) D3).
  cbn [andb app].
  assert (K : forall k h, 1 <= h <= wmv s k -> on_da s k h = true).
  { intros k h Hh. pose proof (g_wm_le s g k) as [W _]. destruct (g_chain s g h ltac:(lia)) as (b & Hb & _).
    unfold on_da. rewrite Hb. destruct (wants k b) eqn:Ew; [|reflexivity]. cbn. apply In_mem. eapply (g_wm_da s g); eauto. }
  assert (KD : forall h, 1 <= h <= di s -> on_da s Hdr h && on_da s Dat h = true).
  { intros h Hh. destruct (g_chain s g h ltac:(lia)) as (b & Hb & _). destruct (g_di_da s g h b Hh Hb) as [X1 X2].
    unfold on_da. rewrite Hb. cbn. rewrite (In_mem _ _ X1). cbn. destruct (b_txs b) eqn:Et; [|reflexivity]. cbn. apply In_mem. apply X2. reflexivity. }
  assert (F1 : forallb (on_da s Hdr) (rangeN 0 (wmv s Hdr)) = true).
  { apply forallb_forall. intros h Hh. apply rangeN_In in Hh. apply K. lia. }
  assert (F2 : forallb (on_da s Dat) (rangeN 0 (wmv s Dat)) = true).
  { apply forallb_forall. intros h Hh. apply rangeN_In in Hh. apply K. lia. }
  assert (F3 : forallb (fun h => on_da s Hdr h && on_da s Dat h) (rangeN 0 (di s)) = true).
  { apply forallb_forall. intros h Hh. apply rangeN_In in Hh. apply KD. lia. }
  assert (F4 : forallb (fun h => match blk s h with
                        | Some b => b_final b && (b_prev b =? id_at (blk s) (h - 1))
                        | None => false end) (rangeN 0 (ht s)) = true).
  { apply forallb_forall. intros h Hh. apply rangeN_In in Hh. destruct (g_chain s g h ltac:(lia)) as (b & Hb & Hf & Hp).
    rewrite Hb, Hf, Hp, N.eqb_refl. reflexivity. }
  rewrite F1, F2, F3, F4. reflexivity.
Qed.

Theorem gcheck_reachable sched : pp (run init sched) = P0 -> gcheck (sh (run init sched)) = [].
Proof.
  intros HP. destruct (interleaving sched) as (g & HPc & _). apply gcheck_sound; [exact g|].
  rewrite HP in HPc. exact HPc.
Qed.
