(* Proofs/ConcProofs.v — the joint invariant of Model/Conc.v is kept by every atomic action of every activity,
   hence holds after every action of every schedule; heights, watermarks (volatile AND durable) and the
   DA-included height never go back and committed blocks are never rewritten.  The data watermark has two
   writers (data submission loop, block production's numWaitingData); what makes the durable copy monotone is
   pendingBase.setMu: a writer's knowledge about the watermark is stable exactly while it holds the mutex
   (frame_p / frame_s: "mu s k = <the other owner> -> unchanged").  Without the mutex the statement is false:
   two_writers_unlocked_* at the end. *)
From Coq Require Import NArith List Bool Lia.
From Verif Require Import Model.Conc.
Import ListNotations.
Open Scope N_scope.

(* ---- basics ----------------------------------------------------------------------------------------- *)
Lemma upd_eq f h v : upd f h v h = v.
Proof. unfold upd. rewrite N.eqb_refl. reflexivity. Qed.
Lemma upd_neq f h v x : x <> h -> upd f h v x = f x.
Proof. unfold upd. intros H. destruct (N.eqb_spec x h); [contradiction | reflexivity]. Qed.
Lemma id_at_upd_neq f h v x : x <> h -> id_at (upd f h v) x = id_at f x.
Proof. intros H. unfold id_at. rewrite upd_neq by exact H. reflexivity. Qed.

Lemma rangeN_In w n h : In h (rangeN w n) <-> w < h <= n.
Proof.
  unfold rangeN. rewrite in_map_iff. split.
  - intros [i [Hi Hin]]. apply in_seq in Hin. lia.
  - intros H. exists (N.to_nat (h - w - 1)). split; [lia | apply in_seq; lia].
Qed.

Lemma posted_In k snap w n h b :
  w < h <= n -> snap h = Some b -> wants k b = true -> In (h, b_id b) (posted k snap w n).
Proof.
  intros Hr Hs Hw. unfold posted. apply in_flat_map. exists h. split; [apply rangeN_In; exact Hr|].
  rewrite Hs, Hw. left. reflexivity.
Qed.

Lemma pair_eqb_eq a b : pair_eqb a b = true -> a = b.
Proof.
  destruct a as [a1 a2], b as [b1 b2]. unfold pair_eqb; cbn. intros H. apply andb_prop in H. destruct H as [H1 H2].
  apply N.eqb_eq in H1. apply N.eqb_eq in H2. subst. reflexivity.
Qed.
Lemma mem_In x l : mem x l = true -> In x l.
Proof.
  unfold mem. intros H. apply existsb_exists in H. destruct H as [y [Hy He]]. apply pair_eqb_eq in He. subst. exact Hy.
Qed.

Lemma updk_eq {A} (f : kind -> A) k v : updk f k v k = v.
Proof. unfold updk. destruct k; reflexivity. Qed.
Lemma updk_neq {A} (f : kind -> A) k v k' : k' <> k -> updk f k v k' = f k'.
Proof. unfold updk. destruct k, k'; cbn; intros H; try reflexivity; contradiction H; reflexivity. Qed.
Lemma kind_dec (a b : kind) : a = b \/ a <> b.
Proof. destruct a, b; (left; reflexivity) || (right; discriminate). Qed.

(* ---- clauses of the other activities survive an action that respects what they read ------------------ *)
Lemma lim_ok_pres s s' w t snap i :
  blk s' = blk s -> ht s' = ht s -> wmv s Dat <= wmv s' Dat -> lim_ok s w t snap i -> lim_ok s' w t snap i.
Proof.
  intros Hb Hh Hw (H1 & H2 & H3 & H4 & H5 & H6). unfold lim_ok, snap_ok in *. rewrite Hb, Hh.
  split; [lia|]. split; [exact H2|]. split; [exact H3|]. split; [exact H4|]. split; [exact H5 | exact H6].
Qed.

Lemma Pcl_pres s s' p :
  blk s' = blk s -> ht s' = ht s -> sth s' = sth s -> wmv s Dat <= wmv s' Dat ->
  (mu s Dat = 2 -> mu s' Dat = 2 /\ wmv s' Dat = wmv s Dat /\ wmp s' Dat = wmp s Dat) ->
  Pcl s p -> Pcl s' p.
Proof.
  intros Hb Hh Hs Hw Hm.
  destruct p as [| |w t|w t snap i|w t snap i|w t snap i|w t snap i| | |h|h prev|h prev|h prev txs|h prev txs|h b|h b|h|h|];
    cbn [Pcl]; rewrite ?Hb, ?Hh, ?Hs; try exact (fun x => x).
  - intros (H1 & H2 & H3 & H4). split; [exact H1|]. split; [lia|]. split; assumption.
  - intros (H1 & H2). split; [exact H1|]. eapply lim_ok_pres; eauto.
  - intros (H1 & H2 & H3 & H4). destruct (Hm H2) as (M1 & M2 & M3).
    split; [exact H1|]. split; [exact M1|]. split; [rewrite M2, M3; exact H3|]. eapply lim_ok_pres; eauto.
  - intros (H1 & H2 & H3 & H4). destruct (Hm H2) as (M1 & M2 & M3).
    split; [exact H1|]. split; [exact M1|]. split; [rewrite M2; exact H3|]. eapply lim_ok_pres; eauto.
  - intros (H1 & H2 & H3 & H4). destruct (Hm H2) as (M1 & M2 & M3).
    split; [exact H1|]. split; [exact M1|]. split; [rewrite M2, M3; exact H3|]. eapply lim_ok_pres; eauto.
Qed.

Lemma snap_ok_pres s s' snap t :
  t <= ht s -> (forall h, h <= ht s -> blk s' h = blk s h) -> snap_ok s snap t -> snap_ok s' snap t.
Proof. intros Ht Hb H h Hh. rewrite Hb by lia. apply H. exact Hh. Qed.

Lemma Scl_pres k s s' q :
  ht s <= ht s' -> (forall h, h <= ht s -> blk s' h = blk s h) ->
  (forall x, In x (da s k) -> In x (da s' k)) ->
  wmv s k <= wmv s' k ->
  (mu s k = 1 -> mu s' k = 1 /\ wmv s' k = wmv s k /\ wmp s' k = wmp s k) ->
  Scl k s q -> Scl k s' q.
Proof.
  intros Hh Hb Hd Hw Hm.
  destruct q as [|w t|w t snap|w t snap n|w t snap n|w t snap n|w t snap n|w t snap n]; cbn [Scl]; intros H.
  - exact I.
  - intuition lia.
  - destruct H as (H1 & H2 & H3 & H4).
    split; [lia|]. split; [exact H2|]. split; [lia|]. eapply snap_ok_pres; eauto.
  - destruct H as (H1 & H2 & H3 & H4 & H5 & H6).
    split; [lia|]. split; [exact H2|]. split; [exact H3|]. split; [lia|]. split; [eapply snap_ok_pres; eauto|].
    intros x Hx; apply Hd, H6, Hx.
  - destruct H as (H1 & H2 & H3 & H4 & H5 & H6).
    split; [lia|]. split; [exact H2|]. split; [exact H3|]. split; [lia|]. split; [eapply snap_ok_pres; eauto|].
    intros x Hx; apply Hd, H6, Hx.
  - destruct H as (M & E & H1 & H2 & H3 & H4 & H5 & H6). destruct (Hm M) as (M1 & M2 & M3).
    split; [exact M1|]. split; [rewrite M2, M3; exact E|].
    split; [lia|]. split; [exact H2|]. split; [exact H3|]. split; [lia|]. split; [eapply snap_ok_pres; eauto|].
    intros x Hx; apply Hd, H6, Hx.
  - destruct H as (M & H1 & H2 & H3 & H4). destruct (Hm M) as (M1 & M2 & M3).
    split; [exact M1|]. split; [rewrite M2; exact H1|]. split; [exact H2|]. split; [lia|]. eapply snap_ok_pres; eauto.
  - destruct H as (M & E & H1 & H2 & H3 & H4). destruct (Hm M) as (M1 & M2 & M3).
    split; [exact M1|]. split; [rewrite M2, M3; exact E|]. split; [lia|]. split; [exact H2|]. split; [lia|]. eapply snap_ok_pres; eauto.
Qed.

Lemma marked_pres s s' c b : (forall k x, In x (mk s k) -> In x (mk s' k)) -> marked s c b -> marked s' c b.
Proof. intros Hm [H1 H2]. split; [apply Hm, H1 | intros Ht; apply Hm, H2, Ht]. Qed.

Lemma Icl_pres s s' q :
  ht s <= ht s' -> (forall h, 1 <= h <= ht s -> blk s' h = blk s h) ->
  di s' = di s -> pdi s' = pdi s -> fin s' = fin s ->
  (forall k x, In x (mk s k) -> In x (mk s' k)) -> Icl s q -> Icl s' q.
Proof.
  intros Hh Hb Hd Hp Hf Hm.
  assert (HB : forall c b, c + 1 <= ht s -> blk s (c + 1) = Some b -> blk s' (c + 1) = Some b).
  { intros c b Hc Hbk. rewrite Hb by lia. exact Hbk. }
  destruct q; cbn; rewrite ?Hd, ?Hp, ?Hf; intros H.
  - exact H.
  - exact H.
  - intuition lia.
  - destruct H as (H1 & H2 & H3 & H4). split; [exact H1|]. split; [exact H2|]. split; [lia|]. apply HB; assumption.
  - destruct H as (H1 & H2 & H3 & H4 & H5). split; [exact H1|]. split; [exact H2|]. split; [lia|]. split; [apply HB; assumption|]. eapply marked_pres; eauto.
  - destruct H as (H1 & H2 & H3 & H4 & H5). split; [exact H1|]. split; [exact H2|]. split; [lia|]. split; [apply HB; assumption|]. eapply marked_pres; eauto.
  - destruct H as (H1 & H2 & H3 & H4 & H5). split; [exact H1|]. split; [exact H2|]. split; [lia|]. split; [apply HB; assumption|]. eapply marked_pres; eauto.
  - destruct H as (H1 & H2 & H3 & H4 & H5 & H6 & H7). split; [exact H1|]. split; [exact H2|]. split; [exact H3|]. split; [exact H4|]. split; [lia|]. split; [apply HB; assumption|]. eapply marked_pres; eauto.
  - destruct H as (H1 & H2 & H3 & H4 & H5 & H6 & H7). split; [exact H1|]. split; [exact H2|]. split; [exact H3|]. split; [exact H4|]. split; [lia|]. split; [apply HB; assumption|]. eapply marked_pres; eauto.
Qed.

(* ---- producer ------------------------------------------------------------------------------------------ *)
Lemma G_upd_top s b :
  G s -> b_prev b = id_at (blk s) (ht s) -> G (set_blk s (upd (blk s) (ht s + 1) (Some b))).
Proof.
  intros g Hp.
  assert (E : forall h, h <= ht s -> upd (blk s) (ht s + 1) (Some b) h = blk s h) by (intros h Hh; apply upd_neq; lia).
  assert (EI : forall h, h <= ht s -> id_at (upd (blk s) (ht s + 1) (Some b)) h = id_at (blk s) h) by (intros h Hh; apply id_at_upd_neq; lia).
  constructor; cbn.
  - intros h Hh. rewrite E by lia. rewrite EI by lia. apply (g_chain s g). exact Hh.
  - intros b' Hb'. rewrite upd_eq in Hb'. inversion Hb'; subst b'. rewrite EI by lia. exact Hp.
  - intros h Hh. rewrite upd_neq by lia. apply (g_above s g). exact Hh.
  - rewrite E by lia. apply (g_zero s g).
  - apply (g_wm_le s g).
  - apply (g_wm_eq s g).
  - intros k h b' Hh. rewrite E by (pose proof (g_wm_le s g k); lia). apply (g_wm_da s g). exact Hh.
  - apply (g_mk_da s g).
  - apply (g_di_le s g).
  - intros h b' Hh. rewrite E by (pose proof (g_di_le s g); lia). apply (g_di_da s g). exact Hh.
  - apply (g_di_dur s g).
Qed.

Lemma G_set_sth s v : G s -> G (set_sth s v).
Proof. intros g. destruct g. constructor; cbn; assumption. Qed.

Lemma G_incr_ht s b :
  G s -> blk s (ht s + 1) = Some b -> b_final b = true -> G (set_ht s (ht s + 1)).
Proof.
  intros g Hb Hf. constructor; cbn.
  - intros h Hh. destruct (N.eq_dec h (ht s + 1)) as [->|Hne].
    + exists b. split; [exact Hb|]. split; [exact Hf|]. replace (ht s + 1 - 1) with (ht s) by lia. apply (g_early s g). exact Hb.
    + apply (g_chain s g). lia.
  - intros b' Hb'. rewrite (g_above s g) in Hb' by lia. discriminate.
  - intros h Hh. apply (g_above s g). lia.
  - apply (g_zero s g).
  - intros k. pose proof (g_wm_le s g k). lia.
  - apply (g_wm_eq s g).
  - apply (g_wm_da s g).
  - apply (g_mk_da s g).
  - pose proof (g_di_le s g). lia.
  - apply (g_di_da s g).
  - apply (g_di_dur s g).
Qed.

(* ---- submitters ---------------------------------------------------------------------------------------- *)
Lemma updk_app_In {A} (f : kind -> list A) k l k' x : In x (f k') -> In x (updk f k (l ++ f k) k').
Proof.
  intros H. destruct (kind_dec k' k) as [->|Hne]; [rewrite updk_eq; apply in_or_app; right; exact H | rewrite updk_neq by exact Hne; exact H].
Qed.

Lemma G_da_grow s k l : G s -> G (set_da s (updk (da s) k (l ++ da s k))).
Proof.
  intros g. constructor; cbn.
  - apply (g_chain s g).
  - apply (g_early s g).
  - apply (g_above s g).
  - apply (g_zero s g).
  - apply (g_wm_le s g).
  - apply (g_wm_eq s g).
  - intros k' h b Hh Hb Hw. apply updk_app_In. eapply (g_wm_da s g); eauto.
  - intros k' x Hx. apply updk_app_In. apply (g_mk_da s g). exact Hx.
  - apply (g_di_le s g).
  - intros h b Hh Hb. destruct (g_di_da s g h b Hh Hb) as [H1 H2]. split; [apply updk_app_In; exact H1 | intros Ht; apply updk_app_In; apply H2; exact Ht].
  - apply (g_di_dur s g).
Qed.

Lemma G_mk_grow s k l : G s -> (forall x, In x l -> In x (da s k)) -> G (set_mk s (updk (mk s) k (l ++ mk s k))).
Proof.
  intros g Hl. constructor; cbn.
  - apply (g_chain s g).
  - apply (g_early s g).
  - apply (g_above s g).
  - apply (g_zero s g).
  - apply (g_wm_le s g).
  - apply (g_wm_eq s g).
  - apply (g_wm_da s g).
  - intros k' x Hx. destruct (kind_dec k' k) as [->|Hne].
    + rewrite updk_eq in Hx. apply in_app_or in Hx. destruct Hx as [Hx|Hx]; [apply Hl; exact Hx | apply (g_mk_da s g); exact Hx].
    + rewrite updk_neq in Hx by exact Hne. apply (g_mk_da s g). exact Hx.
  - apply (g_di_le s g).
  - apply (g_di_da s g).
  - apply (g_di_dur s g).
Qed.

(* raising the volatile watermark of kind k to n, by whoever holds the mutex of k: everything its submitter
   sends between the old value and n is on the DA layer (the submitter: it was just accepted; block production:
   there is nothing to send, the data stepped over has no transactions) *)
Lemma G_set_wmv s k n :
  G s -> mu s k <> 0 -> wmv s k <= n -> n <= ht s ->
  (forall h b, wmv s k < h <= n -> blk s h = Some b -> wants k b = true -> In (h, b_id b) (da s k)) ->
  G (set_wmv s (updk (wmv s) k n)).
Proof.
  intros g Hmu Hwn Hnh Hpo. constructor; cbn.
  - apply (g_chain s g).
  - apply (g_early s g).
  - apply (g_above s g).
  - apply (g_zero s g).
  - intros k'. destruct (kind_dec k' k) as [->|Hne].
    + rewrite updk_eq. pose proof (g_wm_le s g k). lia.
    + rewrite updk_neq by exact Hne. apply (g_wm_le s g).
  - intros k' Hk'. destruct (kind_dec k' k) as [->|Hne]; [contradiction|].
    rewrite updk_neq by exact Hne. apply (g_wm_eq s g). exact Hk'.
  - intros k' h b Hh Hb Hwt. destruct (kind_dec k' k) as [->|Hne].
    + rewrite updk_eq in Hh. destruct (N.le_gt_cases h (wmv s k)) as [Hle|Hgt].
      * eapply (g_wm_da s g); eauto. lia.
      * apply Hpo; [lia | exact Hb | exact Hwt].
    + rewrite updk_neq in Hh by exact Hne. eapply (g_wm_da s g); eauto.
  - apply (g_mk_da s g).
  - apply (g_di_le s g).
  - apply (g_di_da s g).
  - apply (g_di_dur s g).
Qed.

Lemma G_set_wmp s k n : G s -> n = wmv s k -> G (set_wmp s (updk (wmp s) k n)).
Proof.
  intros g Hn. constructor; cbn.
  - apply (g_chain s g).
  - apply (g_early s g).
  - apply (g_above s g).
  - apply (g_zero s g).
  - intros k'. destruct (kind_dec k' k) as [->|Hne].
    + rewrite updk_eq. pose proof (g_wm_le s g k). lia.
    + rewrite updk_neq by exact Hne. apply (g_wm_le s g).
  - intros k' Hk'. destruct (kind_dec k' k) as [->|Hne].
    + rewrite updk_eq. exact Hn.
    + rewrite updk_neq by exact Hne. apply (g_wm_eq s g). exact Hk'.
  - apply (g_wm_da s g).
  - apply (g_mk_da s g).
  - apply (g_di_le s g).
  - apply (g_di_da s g).
  - apply (g_di_dur s g).
Qed.

(* Lock (v <> 0) and Unlock (v = 0): the mutex may be released only with the durable copy up to date *)
Lemma G_set_mu s k v : G s -> (v = 0 -> wmp s k = wmv s k) -> G (set_mu s (updk (mu s) k v)).
Proof.
  intros g Hv. constructor; cbn.
  - apply (g_chain s g).
  - apply (g_early s g).
  - apply (g_above s g).
  - apply (g_zero s g).
  - apply (g_wm_le s g).
  - intros k' Hk'. destruct (kind_dec k' k) as [->|Hne].
    + rewrite updk_eq in Hk'. apply Hv. exact Hk'.
    + rewrite updk_neq in Hk' by exact Hne. apply (g_wm_eq s g). exact Hk'.
  - apply (g_wm_da s g).
  - apply (g_mk_da s g).
  - apply (g_di_le s g).
  - apply (g_di_da s g).
  - apply (g_di_dur s g).
Qed.

(* ---- producer: actions ------------------------------------------------------------------------------------- *)
(* what an action of block production leaves to the others: the watermarks only grow, and a watermark whose mutex
   a submission loop holds is not touched at all *)
Definition frame_p (s s' : shared) : Prop :=
  ht s <= ht s' /\ (forall h, h <= ht s -> blk s' h = blk s h) /\
  da s' = da s /\ mk s' = mk s /\ di s' = di s /\ pdi s' = pdi s /\ fin s' = fin s /\
  (forall k, wmv s k <= wmv s' k) /\ (forall k, wmp s k <= wmp s' k) /\
  (forall k, mu s k = 1 -> mu s' k = 1 /\ wmv s' k = wmv s k /\ wmp s' k = wmp s k).

Lemma frame_p_base s s' :
  ht s <= ht s' -> (forall h, h <= ht s -> blk s' h = blk s h) ->
  da s' = da s -> mk s' = mk s -> di s' = di s -> pdi s' = pdi s -> fin s' = fin s ->
  wmv s' = wmv s -> wmp s' = wmp s -> mu s' = mu s -> frame_p s s'.
Proof.
  intros H1 H2 H3 H4 H5 H6 H7 H8 H9 H10. unfold frame_p. rewrite H8, H9, H10.
  repeat (split; [assumption|]). split; [intros k; lia|]. split; [intros k; lia|]. intros k Hk. auto.
Qed.

Lemma frame_p_refl s : frame_p s s.
Proof. apply frame_p_base; try reflexivity; lia. Qed.

(* an action on the data watermark / its mutex, made while no submission loop holds that mutex *)
Lemma frame_p_wm s s' :
  blk s' = blk s -> ht s' = ht s -> da s' = da s -> mk s' = mk s -> di s' = di s -> pdi s' = pdi s -> fin s' = fin s ->
  (forall k, k <> Dat -> wmv s' k = wmv s k /\ wmp s' k = wmp s k /\ mu s' k = mu s k) ->
  wmv s Dat <= wmv s' Dat -> wmp s Dat <= wmp s' Dat -> mu s Dat <> 1 -> frame_p s s'.
Proof.
  intros H1 H2 H3 H4 H5 H6 H7 Hk Hv Hp Hm. unfold frame_p. rewrite H1, H2.
  split; [lia|]. split; [reflexivity|]. repeat (split; [assumption|]).
  split; [|split].
  - intros k. destruct (kind_dec k Dat) as [->|Hne]; [exact Hv | destruct (Hk k Hne) as (E & _ & _); lia].
  - intros k. destruct (kind_dec k Dat) as [->|Hne]; [exact Hp | destruct (Hk k Hne) as (_ & E & _); lia].
  - intros k Hk1. destruct (kind_dec k Dat) as [->|Hne]; [contradiction|].
    destruct (Hk k Hne) as (E1 & E2 & E3). rewrite E3. auto.
Qed.

Lemma Pcl_l_next s w t snap i :
  sth s = ht s -> w <= wmv s Dat -> w < i -> t <= ht s -> snap_ok s snap t ->
  (forall h b, w < h < i -> snap h = Some b -> b_txs b = false) ->
  Pcl s (l_next w t snap i).
Proof.
  intros Hs Hw Hi Ht Hsn He. unfold l_next. destruct (N.leb_spec i t) as [Hit|Hit]; [|exact Hs].
  destruct (snap i) as [b0|] eqn:Eb; [|exact Hs]. destruct (b_txs b0) eqn:Etx; [exact Hs|].
  cbn [Pcl]. split; [exact Hs|]. unfold lim_ok. repeat (split; [assumption|]).
  intros h b Hh Hb. destruct (N.eq_dec h i) as [->|Hne].
  - rewrite Eb in Hb. inversion Hb; subst b. exact Etx.
  - apply (He h b); [lia | exact Hb].
Qed.

Lemma not_Dat k : k <> Dat -> k = Hdr.
Proof. destruct k; [reflexivity | intros H; contradiction H; reflexivity]. Qed.

Lemma step_p_ok s p e : G s -> Pcl s p ->
  G (fst (step_p s p e)) /\ Pcl (fst (step_p s p e)) (snd (step_p s p e)) /\ frame_p s (fst (step_p s p e)).
Proof.
  intros g H.
  destruct p as [| |w t|w t snap i|w t snap i|w t snap i|w t snap i| | |h|h prev|h prev|h prev txs|h prev txs|h b|h b|h|h|]; cbn [step_p].
  - (* PL0 *) destruct (e_ok e); cbn; (split; [exact g|]); (split; [exact H | apply frame_p_refl]).
  - (* PL1 *) destruct (N.ltb_spec (wmv s Dat) (ht s)) as [Hlt|Hge]; cbn; (split; [exact g|]); (split; [|apply frame_p_refl]).
    + split; [exact H|]. split; [lia|]. split; [exact Hlt | lia].
    + exact H.
  - (* PL2 *) destruct H as (H1 & H2 & H3 & H4). cbn [fst snd]. split; [exact g|]. split; [|apply frame_p_refl].
    apply Pcl_l_next; try assumption; try lia.
    intros h Hh. reflexivity.
  - (* PL3: Lock *) destruct H as (H1 & H2). destruct (N.eqb_spec (mu s Dat) 0) as [Hfree|Hheld]; cbn [fst snd].
    + split; [apply G_set_mu; [exact g | intros X; discriminate X]|].
      split.
      * cbn. split; [exact H1|]. split; [reflexivity|]. split; [apply (g_wm_eq s g); exact Hfree | exact H2].
      * apply frame_p_wm; cbn; rewrite ?updk_eq; try reflexivity; try lia; intros k' Hne'; rewrite ?updk_neq by exact Hne'; auto.
    + split; [exact g|]. split; [split; assumption | apply frame_p_refl].
  - (* PL4: load + compare-and-swap *) destruct H as (H1 & H2 & H3 & H4). pose proof H4 as (L1 & L2 & L3 & L4 & L5 & L6).
    destruct (N.ltb_spec (wmv s Dat) i) as [Hlt|Hge]; cbn [fst snd].
    + split.
      { apply G_set_wmv; [exact g | lia | lia | lia |].
        intros h b Hh Hb Hwt. exfalso. cbn in Hwt. rewrite <- (L5 h) in Hb by lia.
        rewrite (L6 h b) in Hwt; [discriminate | lia | exact Hb]. }
      split.
      * cbn. split; [exact H1|]. split; [exact H2|]. split; [reflexivity|].
        unfold lim_ok; cbn. rewrite ?updk_eq. repeat (split; [assumption || lia|]). exact L6.
      * apply frame_p_wm; cbn; rewrite ?updk_eq; try reflexivity; try lia; intros k' Hne'; rewrite ?updk_neq by exact Hne'; auto.
    + split; [exact g|]. split; [cbn; auto | apply frame_p_refl].
  - (* PL5: put *) destruct H as (H1 & H2 & H3 & H4). cbn [fst snd].
    split; [apply G_set_wmp; [exact g | exact H3]|].
    split.
    + cbn. split; [exact H1|]. split; [exact H2|]. split; [rewrite ?updk_eq; exact H3 | exact H4].
    + pose proof (g_wm_le s g Dat). apply frame_p_wm; cbn; rewrite ?updk_eq; try reflexivity; try lia; intros k' Hne'; rewrite ?updk_neq by exact Hne'; auto.
  - (* PL6: Unlock *) destruct H as (H1 & H2 & H3 & H4). destruct H4 as (L1 & L2 & L3 & L4 & L5 & L6). cbn [fst snd].
    split; [apply G_set_mu; [exact g | intros _; exact H3]|].
    split.
    + apply Pcl_l_next; cbn; try assumption; try lia.
      intros h b Hh Hb. apply (L6 h b); [lia | exact Hb].
    + apply frame_p_wm; cbn; rewrite ?updk_eq; try reflexivity; try lia; intros k' Hne'; rewrite ?updk_neq by exact Hne'; auto.
  - (* PL7 *) destruct (e_ok e); cbn; (split; [exact g|]); (split; [exact H | apply frame_p_refl]).
  - cbn. split; [exact g|]. split; [split; [exact H | reflexivity] | apply frame_p_refl].
  - cbn. destruct H as [H1 H2]. split; [exact g|]. split; [repeat split; assumption | apply frame_p_refl].
  - destruct H as (H1 & H2 & H3). destruct (blk s (h + 1)) as [b|] eqn:E; cbn.
    + split; [exact g|]. split; [repeat split; assumption | apply frame_p_refl].
    + split; [exact g|]. split; [repeat split; assumption | apply frame_p_refl].
  - destruct (e_ok e); cbn; (split; [exact g|]); (split; [| apply frame_p_refl]); [exact H | apply H].
  - cbn. split; [exact g|]. split; [exact H | apply frame_p_refl].
  - destruct H as (H1 & H2 & H3 & H4). subst h. cbn.
    split; [apply G_upd_top; [exact g | exact H3]|].
    split; [split; [exact H1|]; split; [reflexivity | apply upd_eq]|].
    apply frame_p_base; cbn; try reflexivity; try lia. intros h Hh. apply upd_neq. lia.
  - destruct (e_ok e); cbn; (split; [exact g|]); (split; [| apply frame_p_refl]); [exact H | apply H].
  - destruct H as (H1 & H2 & H3). subst h. cbn.
    split; [apply G_upd_top; [exact g | cbn; apply (g_early s g); exact H3]|].
    split; [split; [exact H1|]; split; [reflexivity|]; exists (finalize b); split; [apply upd_eq | reflexivity]|].
    apply frame_p_base; cbn; try reflexivity; try lia. intros h Hh. apply upd_neq. lia.
  - destruct H as (H1 & H2 & H3). subst h. cbn.
    split; [apply G_set_sth; exact g|]. split; [split; [reflexivity|]; split; [reflexivity | exact H3]|].
    apply frame_p_base; cbn; try reflexivity; try lia.
  - destruct H as (H1 & H2 & b & H3 & H4). subst h. cbn.
    split; [eapply G_incr_ht; eauto|]. split; [exact H1|].
    apply frame_p_base; cbn; try reflexivity; try lia.
  - cbn. split; [exact g|]. split; [exact H | apply frame_p_refl].
Qed.

(* what an action of the submission loop of kind k leaves to the others: the other watermark and its mutex are not
   touched; its own watermark only grows and is not touched at all while block production holds its mutex *)
Definition frame_s (k : kind) (s s' : shared) : Prop :=
  blk s' = blk s /\ ht s' = ht s /\ sth s' = sth s /\ di s' = di s /\ pdi s' = pdi s /\ fin s' = fin s /\
  (forall k', k' <> k -> wmv s' k' = wmv s k' /\ wmp s' k' = wmp s k' /\ mu s' k' = mu s k') /\
  (forall k', wmv s k' <= wmv s' k') /\ (forall k', wmp s k' <= wmp s' k') /\
  (forall k' x, In x (da s k') -> In x (da s' k')) /\ (forall k' x, In x (mk s k') -> In x (mk s' k')) /\
  (mu s k = 2 -> mu s' k = 2 /\ wmv s' k = wmv s k /\ wmp s' k = wmp s k).

Lemma frame_s_refl k s : frame_s k s s.
Proof. unfold frame_s. repeat split; try reflexivity; try lia; auto. Qed.

(* an action on watermark k / its mutex, made while block production does not hold that mutex *)
Lemma frame_s_wm k s s' :
  blk s' = blk s -> ht s' = ht s -> sth s' = sth s -> di s' = di s -> pdi s' = pdi s -> fin s' = fin s ->
  da s' = da s -> mk s' = mk s ->
  (forall k', k' <> k -> wmv s' k' = wmv s k' /\ wmp s' k' = wmp s k' /\ mu s' k' = mu s k') ->
  wmv s k <= wmv s' k -> wmp s k <= wmp s' k -> mu s k <> 2 -> frame_s k s s'.
Proof.
  intros H1 H2 H3 H4 H5 H6 H7 H8 Hk Hv Hp Hm. unfold frame_s. rewrite H7, H8.
  repeat (split; [assumption|]).
  split; [|split; [|split; [auto|split; [auto|intros X; contradiction]]]].
  - intros k'. destruct (kind_dec k' k) as [->|Hne]; [exact Hv | destruct (Hk k' Hne) as (E & _ & _); lia].
  - intros k'. destruct (kind_dec k' k) as [->|Hne]; [exact Hp | destruct (Hk k' Hne) as (_ & E & _); lia].
Qed.

Lemma Scl_next k s t snap n :
  n <= wmv s k -> n <= t -> t <= ht s -> snap_ok s snap t -> Scl k s (s_next t snap n).
Proof.
  intros H1 H2 H3 H4. unfold s_next. destruct (N.ltb_spec n t); cbn; [repeat split; assumption | exact I].
Qed.

Lemma step_s_ok k s p e : G s -> Scl k s p ->
  G (fst (step_s k s p e)) /\ Scl k (fst (step_s k s p e)) (snd (step_s k s p e)) /\ frame_s k s (fst (step_s k s p e)).
Proof.
  intros g H. destruct p as [|w t|w t snap|w t snap n|w t snap n|w t snap n|w t snap n|w t snap n]; cbn [step_s].
  - destruct (N.ltb_spec (wmv s k) (ht s)); cbn; (split; [exact g|]); (split; [|apply frame_s_refl]); [|exact I].
    repeat split; [lia | assumption | lia].
  - cbn. destruct H as (H1 & H2 & H3). split; [exact g|]. split; [|apply frame_s_refl].
    repeat split; assumption.
  - destruct H as (H1 & H2 & H3 & H4). destruct (e_ok e); [|cbn; split; [exact g|]; split; [exact I | apply frame_s_refl]].
    destruct ((w <? e_n e) && (e_n e <=? t)) eqn:E; cbn.
    + apply andb_prop in E. destruct E as [E1 E2]. apply N.ltb_lt in E1. apply N.leb_le in E2.
      split; [apply G_da_grow; exact g|].
      split.
      * repeat split; try assumption. rewrite updk_eq. intros x Hx. apply in_or_app. left. exact Hx.
      * unfold frame_s; cbn. repeat split; try reflexivity; try lia; auto. intros k' x Hx. apply updk_app_In. exact Hx.
    + split; [exact g|]. split; [repeat split; assumption | apply frame_s_refl].
  - (* S3: marks *) destruct H as (H1 & H2 & H3 & H4 & H5 & H6). cbn.
    split; [apply G_mk_grow; [exact g | exact H6]|].
    split; [repeat split; assumption|].
    unfold frame_s; cbn. repeat split; try reflexivity; try lia; auto. intros k' x Hx. apply updk_app_In. exact Hx.
  - (* SL: Lock *) destruct H as (H1 & H2 & H3 & H4 & H5 & H6). destruct (N.eqb_spec (mu s k) 0) as [Hfree|Hheld]; cbn [fst snd].
    + split; [apply G_set_mu; [exact g | intros X; discriminate X]|].
      split.
      * cbn. split; [apply updk_eq|]. split; [apply (g_wm_eq s g); exact Hfree|]. repeat split; assumption.
      * apply frame_s_wm; cbn; rewrite ?updk_eq; try reflexivity; try lia; intros k' Hne'; rewrite ?updk_neq by exact Hne'; auto.
    + split; [exact g|]. split; [cbn; repeat split; assumption | apply frame_s_refl].
  - (* S4: load + compare-and-swap *) destruct H as (M & E & H1 & H2 & H3 & H4 & H5 & H6).
    destruct (N.ltb_spec (wmv s k) n) as [Hlt|Hge]; cbn [fst snd].
    + split.
      { apply G_set_wmv; [exact g | lia | lia | lia |].
        intros h b Hh Hb Hwt. apply H6. apply posted_In; [lia | rewrite H5 by lia; exact Hb | exact Hwt]. }
      split.
      * cbn. rewrite updk_eq. repeat split; try assumption; reflexivity.
      * apply frame_s_wm; cbn; rewrite ?updk_eq; try reflexivity; try lia; intros k' Hne'; rewrite ?updk_neq by exact Hne'; auto.
    + split; [exact g|]. split; [cbn; repeat split; assumption | apply frame_s_refl].
  - (* S5: put *) destruct H as (M & H1 & H2 & H3 & H4). cbn [fst snd].
    split; [apply G_set_wmp; [exact g | exact H1]|].
    split.
    + cbn. rewrite updk_eq. repeat split; try assumption; lia.
    + pose proof (g_wm_le s g k). apply frame_s_wm; cbn; rewrite ?updk_eq; try reflexivity; try lia; intros k' Hne'; rewrite ?updk_neq by exact Hne'; auto.
  - (* S6: Unlock *) destruct H as (M & E & H1 & H2 & H3 & H4). cbn [fst snd].
    split; [apply G_set_mu; [exact g | intros _; exact E]|].
    split.
    + apply Scl_next; cbn; assumption.
    + apply frame_s_wm; cbn; rewrite ?updk_eq; try reflexivity; try lia; intros k' Hne'; rewrite ?updk_neq by exact Hne'; auto.
Qed.

(* ---- includer ------------------------------------------------------------------------------------------ *)
Lemma G_set_fin s v : G s -> pdi s <= v -> v <= di s + 1 -> G (set_fin s v).
Proof.
  intros g H1 H2. destruct g. constructor; cbn; try assumption. lia.
Qed.
Lemma G_set_pdi s v : G s -> di s <= v -> v <= fin s -> G (set_pdi s v).
Proof.
  intros g H1 H2. destruct g. constructor; cbn; try assumption. lia.
Qed.
Lemma G_incr_di s b :
  G s -> di s + 1 <= ht s -> blk s (di s + 1) = Some b -> marked s (di s) b -> pdi s = di s + 1 -> fin s = di s + 1 ->
  G (set_di s (di s + 1)).
Proof.
  intros g Hh Hb [Hm1 Hm2] Hp Hf. constructor; cbn.
  - apply (g_chain s g).
  - apply (g_early s g).
  - apply (g_above s g).
  - apply (g_zero s g).
  - apply (g_wm_le s g).
  - apply (g_wm_eq s g).
  - apply (g_wm_da s g).
  - apply (g_mk_da s g).
  - exact Hh.
  - intros h b' Hr Hb'. destruct (N.eq_dec h (di s + 1)) as [->|Hne].
    + rewrite Hb in Hb'. inversion Hb'; subst b'. split; [apply (g_mk_da s g); exact Hm1 | intros Ht; apply (g_mk_da s g); apply Hm2; exact Ht].
    + apply (g_di_da s g); [lia | exact Hb'].
  - lia.
Qed.

Definition frame_i (s s' : shared) : Prop :=
  blk s' = blk s /\ ht s' = ht s /\ sth s' = sth s /\ wmv s' = wmv s /\ wmp s' = wmp s /\ da s' = da s /\ mk s' = mk s /\ di s <= di s' /\ mu s' = mu s.
Lemma frame_i_refl s : frame_i s s.
Proof. unfold frame_i. repeat split; try reflexivity; lia. Qed.

Lemma step_i_ok s p e : G s -> Icl s p ->
  G (fst (step_i s p e)) /\ Icl (fst (step_i s p e)) (snd (step_i s p e)) /\ frame_i s (fst (step_i s p e)).
Proof.
  intros g H. destruct p as [|c|c|c b|c b|c b|c b|c b cur|c b cur]; cbn [step_i].
  - cbn. split; [exact g|]. split; [split; [exact H | reflexivity] | apply frame_i_refl].
  - destruct H as (H1 & H2). destruct (N.leb_spec (c + 1) (ht s)); cbn; (split; [exact g|]); (split; [|apply frame_i_refl]).
    + repeat split; assumption.
    + exact H1.
  - destruct H as (H1 & H2 & H3). destruct (blk s (c + 1)) as [b|] eqn:E; cbn; (split; [exact g|]); (split; [|apply frame_i_refl]).
    + repeat split; assumption.
    + exact H1.
  - destruct H as (H1 & H2 & H3 & H4).
    destruct (mem (c + 1, b_id b) (mk s Hdr) && (negb (b_txs b) || mem (c + 1, b_id b) (mk s Dat))) eqn:E; cbn;
      (split; [exact g|]); (split; [|apply frame_i_refl]); [|exact H1].
    apply andb_prop in E. destruct E as [E1 E2].
    split; [exact H1|]. split; [exact H2|]. split; [exact H3|]. split; [exact H4|].
    split; [apply mem_In; exact E1|]. intros Ht. rewrite Ht in E2. cbn in E2. apply mem_In. exact E2.
  - cbn. split; [exact g|]. split; [exact H | apply frame_i_refl].
  - cbn. split; [exact g|]. split; [exact H | apply frame_i_refl].
  - destruct H as (H1 & H2 & H3 & H4 & H5). destruct (e_ok e); cbn.
    + split; [apply G_set_fin; [exact g | lia | lia]|].
      split; [split; [exact H1|]; split; [reflexivity|]; split; [reflexivity|]; split; [exact H2|]; split; [exact H3|]; split; [exact H4 | exact H5]|].
      unfold frame_i; cbn. repeat split; try reflexivity; lia.
    + split; [exact g|]. split; [exact H1 | apply frame_i_refl].
  - destruct H as (H1 & H2 & H3 & H4 & H5 & H6 & H7). cbn.
    split; [apply G_set_pdi; [exact g | lia | lia]|].
    split; [split; [lia|]; split; [exact H2|]; split; [exact H3|]; split; [exact H4|]; split; [exact H5|]; split; [exact H6 | exact H7]|].
    unfold frame_i; cbn. repeat split; try reflexivity; lia.
  - destruct H as (H1 & H2 & H3 & H4 & H5 & H6 & H7). destruct (N.eqb_spec (di s) cur) as [He|Hne]; [|congruence]. cbn.
    subst cur c.
    split; [eapply G_incr_di; eauto|].
    split; [split; [exact H1 | reflexivity]|].
    unfold frame_i; cbn. repeat split; try reflexivity; lia.
Qed.

(* ---- every action of every activity keeps the joint invariant ------------------------------------------ *)
Lemma J_init : J init.
Proof.
  unfold J, init; cbn. split; [|split; [reflexivity | split; [intros k; exact I | reflexivity]]].
  constructor; cbn.
  - intros h Hh. lia.
  - intros b Hb. discriminate.
  - reflexivity.
  - reflexivity.
  - intros k. lia.
  - intros k _. reflexivity.
  - intros k h b Hh. lia.
  - intros k x Hx. exact Hx.
  - lia.
  - intros h b Hh. lia.
  - lia.
Qed.

Lemma step_keeps_J st ae : J st -> J (step st ae).
Proof.
  intros (g & HP & HS & HI). destruct ae as [a e]. destruct a as [|k|]; unfold step.
  - pose proof (step_p_ok (sh st) (pp st) e g HP) as (g' & HP' & F).
    destruct (step_p (sh st) (pp st) e) as [s' p']; cbn [fst snd] in *.
    destruct F as (F1 & F2 & F3 & F4 & F5 & F6 & F7 & F8 & F9 & F10).
    unfold J; cbn. split; [exact g'|]. split; [exact HP'|]. split.
    + intros k. apply (Scl_pres k (sh st) s'); [exact F1 | exact F2 | rewrite F3; auto | apply F8 | | apply HS].
      intros Hk. destruct (F10 k Hk) as (A & B & C). auto.
    + apply (Icl_pres (sh st) s'); try assumption; [intros h Hh; apply F2; lia | rewrite F4; auto].
  - pose proof (step_s_ok k (sh st) (ps st k) e g (HS k)) as (g' & HS' & F).
    destruct (step_s k (sh st) (ps st k) e) as [s' p']; cbn [fst snd] in *.
    destruct F as (F1 & F2 & F3 & F4 & F5 & F6 & F7 & F8 & F9 & F10 & F11 & F12).
    unfold J; cbn. split; [exact g'|]. split.
    { apply (Pcl_pres (sh st) s'); try assumption; [apply F8|].
      intros Hm. destruct (kind_dec Dat k) as [<-|Hne]; [exact (F12 Hm)|].
      destruct (F7 Dat Hne) as (A & B & C). rewrite C. auto. }
    split.
    + intros k'. destruct (kind_dec k' k) as [->|Hne].
      * rewrite updk_eq. exact HS'.
      * rewrite updk_neq by exact Hne. destruct (F7 k' Hne) as (A & B & C).
        apply (Scl_pres k' (sh st) s'); [rewrite F2; lia | intros h Hh; rewrite F1; reflexivity | apply F10 | apply F8 | | apply HS].
        intros Hk. rewrite C. auto.
    + apply (Icl_pres (sh st) s'); try assumption; [rewrite F2; lia | intros h Hh; rewrite F1; reflexivity].
  - pose proof (step_i_ok (sh st) (pi st) e g HI) as (g' & HI' & F).
    destruct (step_i (sh st) (pi st) e) as [s' p']; cbn [fst snd] in *.
    destruct F as (F1 & F2 & F3 & F4 & F5 & F6 & F7 & F8 & F9).
    unfold J; cbn. split; [exact g'|]. split.
    { apply (Pcl_pres (sh st) s'); try assumption; [rewrite F4; lia|]. rewrite F4, F5, F9. auto. }
    split; [|exact HI'].
    intros k. apply (Scl_pres k (sh st) s'); [rewrite F2; lia | intros h Hh; rewrite F1; reflexivity | rewrite F6; auto | rewrite F4; lia | | apply HS].
    rewrite F4, F5, F9. auto.
Qed.

Theorem interleaving_from st sched : J st -> J (run st sched).
Proof.
  revert st. induction sched as [|ae sched IH]; intros st H; [exact H|].
  cbn. apply IH. apply step_keeps_J. exact H.
Qed.

Theorem interleaving sched : J (run init sched).
Proof. apply interleaving_from. exact J_init. Qed.

(* after EVERY action of the schedule, not only at its end *)
Theorem interleaving_every_prefix sched n : J (run init (firstn n sched)).
Proof. apply interleaving. Qed.

(* nothing goes back, committed blocks are never rewritten, the DA layer never forgets *)
Lemma step_mono st ae : J st -> mono (sh st) (sh (step st ae)).
Proof.
  intros (g & HP & HS & HI). destruct ae as [a e]. destruct a as [|k|]; unfold step.
  - pose proof (step_p_ok (sh st) (pp st) e g HP) as (_ & _ & F).
    destruct (step_p (sh st) (pp st) e) as [s' p']; cbn [fst snd sh] in *.
    destruct F as (F1 & F2 & F3 & F4 & F5 & F6 & F7 & F8 & F9 & F10).
    unfold mono. split; [exact F1|]. split; [exact F8|]. split; [exact F9|]. split; [lia|]. split; [intros h Hh; apply F2; lia|]. intros k x Hx. rewrite F3. exact Hx.
  - pose proof (step_s_ok k (sh st) (ps st k) e g (HS k)) as (_ & _ & F).
    destruct (step_s k (sh st) (ps st k) e) as [s' p']; cbn [fst snd sh] in *.
    destruct F as (F1 & F2 & F3 & F4 & F5 & F6 & F7 & F8 & F9 & F10 & F11 & F12).
    unfold mono. split; [lia|]. split; [exact F8|]. split; [exact F9|]. split; [lia|]. split; [intros h Hh; rewrite F1; reflexivity | exact F10].
  - pose proof (step_i_ok (sh st) (pi st) e g HI) as (_ & _ & F).
    destruct (step_i (sh st) (pi st) e) as [s' p']; cbn [fst snd sh] in *.
    destruct F as (F1 & F2 & F3 & F4 & F5 & F6 & F7 & F8 & F9).
    unfold mono. split; [lia|]. split; [intros k; rewrite F4; lia|]. split; [intros k; rewrite F5; lia|]. split; [exact F8|]. split; [intros h Hh; rewrite F1; reflexivity|]. intros k x Hx. rewrite F6. exact Hx.
Qed.

Theorem monotone sched ae : mono (sh (run init sched)) (sh (run init (sched ++ [ae]))).
Proof.
  unfold run. rewrite fold_left_app. cbn. apply step_mono. apply interleaving.
Qed.

(* ---- the boolean check is implied by the invariant (at a point where the producer is between two steps) --- *)
Lemma In_mem x l : In x l -> mem x l = true.
Proof.
  intros H. unfold mem. apply existsb_exists. exists x. split; [exact H|].
  destruct x as [a b]. unfold pair_eqb; cbn. rewrite !N.eqb_refl. reflexivity.
Qed.

Lemma gcheck_sound s : G s -> sth s = ht s -> gcheck s = [].
Proof.
  intros g Hs. unfold gcheck.
  pose proof (g_wm_le s g Hdr) as [A1 A2]. pose proof (g_wm_le s g Dat) as [B1 B2].
  pose proof (g_di_le s g) as C. pose proof (g_di_dur s g) as (D1 & D2 & D3).
  rewrite Hs, N.eqb_refl.
  assert (WD : forall k, wm_dur s k = true).
  { intros k. unfold wm_dur. destruct (N.eqb_spec (mu s k) 0) as [Hf|Hh].
    - rewrite (g_wm_eq s g k Hf). apply N.eqb_refl.
    - apply N.leb_le. apply (g_wm_le s g k). }
  rewrite (proj2 (N.leb_le _ _) A1), (proj2 (N.leb_le _ _) B1), !WD.
  rewrite (proj2 (N.leb_le _ _) C), (proj2 (N.leb_le _ _) D1), (proj2 (N.leb_le _ _) D2), (proj2 (N.leb_le _ _) D3).
  cbn [andb app].
  assert (K : forall k h, 1 <= h <= wmv s k -> on_da s k h = true).
  { intros k h Hh. pose proof (g_wm_le s g k) as [W _]. destruct (g_chain s g h ltac:(lia)) as (b & Hb & _).
    unfold on_da. rewrite Hb. destruct (wants k b) eqn:Ew; [|reflexivity]. cbn. apply In_mem. eapply (g_wm_da s g); eauto. }
  assert (KD : forall h, 1 <= h <= di s -> on_da s Hdr h && on_da s Dat h = true).
  { intros h Hh. destruct (g_chain s g h ltac:(lia)) as (b & Hb & _). destruct (g_di_da s g h b Hh Hb) as [X1 X2].
    unfold on_da. rewrite Hb. cbn. rewrite (In_mem _ _ X1). cbn. destruct (b_txs b) eqn:Et; [|reflexivity]. cbn. apply In_mem. apply X2. reflexivity. }
  assert (F1 : forallb (on_da s Hdr) (rangeN 0 (wmv s Hdr)) = true).
  { apply forallb_forall. intros h Hh. apply rangeN_In in Hh. apply K. lia. }
  assert (F2 : forallb (on_da s Dat) (rangeN 0 (wmv s Dat)) = true).
  { apply forallb_forall. intros h Hh. apply rangeN_In in Hh. apply K. lia. }
  assert (F3 : forallb (fun h => on_da s Hdr h && on_da s Dat h) (rangeN 0 (di s)) = true).
  { apply forallb_forall. intros h Hh. apply rangeN_In in Hh. apply KD. lia. }
  assert (F4 : forallb (fun h => match blk s h with
                        | Some b => b_final b && (b_prev b =? id_at (blk s) (h - 1))
                        | None => false end) (rangeN 0 (ht s)) = true).
  { apply forallb_forall. intros h Hh. apply rangeN_In in Hh. destruct (g_chain s g h ltac:(lia)) as (b & Hb & Hf & Hp).
    rewrite Hb, Hf, Hp, N.eqb_refl. reflexivity. }
  rewrite F1, F2, F3, F4. reflexivity.
Qed.

Theorem gcheck_reachable sched : pp (run init sched) = PL0 -> gcheck (sh (run init sched)) = [].
Proof.
  intros HP. destruct (interleaving sched) as (g & HPc & _). apply gcheck_sound; [exact g|].
  rewrite HP in HPc. exact HPc.
Qed.

(* ---- the two writers of the data watermark ------------------------------------------------------------------ *)
(* the mutex excludes: block production and the data submission loop are never both between Lock and Unlock *)
Theorem watermark_mutex sched :
  ~ (holds_p (pp (run init sched)) = true /\ holds_s (ps (run init sched) Dat) = true).
Proof.
  destruct (interleaving sched) as (_ & HP & HS & _). specialize (HS Dat). intros [A B].
  destruct (pp (run init sched)); cbn in A; try discriminate A;
    destruct (ps (run init sched) Dat); cbn in B; try discriminate B;
    cbn in HP, HS; destruct HP as (_ & M2 & _); destruct HS as (M1 & _); rewrite M1 in M2; discriminate M2.
Qed.

(* the durable copy is the volatile value whenever nobody is inside setLastSubmittedHeight *)
Theorem durable_is_volatile_when_free sched k :
  mu (sh (run init sched)) k = 0 -> wmp (sh (run init sched)) k = wmv (sh (run init sched)) k.
Proof. destruct (interleaving sched) as (g & _). apply (g_wm_eq _ g). Qed.

(* BEFORE the repair (no mutex): block production steps over the empty block 1 - swaps 0 -> 1 in memory -, the
   data submission loop has block 2 accepted, swaps 1 -> 2 and stores 2, then block production stores 1. *)
Definition yes (n : N) : env := {| e_ok := true; e_txs := true; e_n := n |}.
Definition yes_empty (n : N) : env := {| e_ok := true; e_txs := false; e_n := n |}.
Definition no : env := {| e_ok := false; e_txs := false; e_n := 0 |}.
Definition two_writers_sched : list (act * env) :=
  (* block 1, no transactions *)
  [ (AProd, no); (AProd, no); (AProd, no); (AProd, no); (AProd, yes_empty 0); (AProd, no); (AProd, yes 11);
    (AProd, yes 0); (AProd, no); (AProd, no); (AProd, no); (AProd, no) ] ++
  (* block 2, with transactions *)
  [ (AProd, no); (AProd, no); (AProd, no); (AProd, no); (AProd, yes 0); (AProd, no); (AProd, yes 12);
    (AProd, yes 0); (AProd, no); (AProd, no); (AProd, no); (AProd, no) ] ++
  (* third call: the limit test calls numWaitingData: reads, Lock, swap 0 -> 1 *)
  [ (AProd, yes 0); (AProd, no); (AProd, no); (AProd, no); (AProd, no) ] ++
  (* data submission loop: reads watermark 1, height 2; block 2 accepted; marks; Lock; swap 1 -> 2; put 2 *)
  [ (ASub Dat, no); (ASub Dat, no); (ASub Dat, yes 2); (ASub Dat, no); (ASub Dat, no); (ASub Dat, no); (ASub Dat, no) ].
Definition two_writers_last : act * env := (AProd, no).   (* block production: put 1 *)

Lemma two_writers_unlocked_witness :
  let a := sh (run_old init two_writers_sched) in
  let b := sh (run_old init (two_writers_sched ++ [two_writers_last])) in
  (wmv a Dat, wmp a Dat) = (2, 2) /\ (wmv b Dat, wmp b Dat) = (2, 1) /\
  (* after a restart the node resumes from the durable value: block 2 is above it although its data is on the DA layer *)
  mem (2, 12) (da b Dat) = true /\ (forall k, mu b k = 0).
Proof. vm_compute. repeat split; destruct k; reflexivity. Qed.

Theorem two_writers_unlocked_false :
  ~ (forall sched ae, mono (sh (run_old init sched)) (sh (run_old init (sched ++ [ae])))).
Proof.
  intros H. destruct (H two_writers_sched two_writers_last) as (_ & _ & Hp & _). specialize (Hp Dat).
  vm_compute in Hp. apply Hp. reflexivity.
Qed.

(* the same schedule WITH the mutex: the submission loop waits at Lock, the durable value never goes back, and once
   both have finished it is 2 *)
Lemma two_writers_locked_same_schedule :
  let b := sh (run init (two_writers_sched ++ [two_writers_last])) in
  let c := sh (run init (two_writers_sched ++ [two_writers_last; (AProd, no); (ASub Dat, no); (ASub Dat, no); (ASub Dat, no); (ASub Dat, no)])) in
  (wmv b Dat, wmp b Dat) = (1, 1) /\ (wmv c Dat, wmp c Dat) = (2, 2).
Proof. vm_compute. split; reflexivity. Qed.
