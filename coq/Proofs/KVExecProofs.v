(* Proofs/KVExecProofs.v — lemmas about Model/KVExec.v (property C15). *)
From Coq Require Import String Ascii NArith List Bool Lia OrderedTypeEx.
From Verif Require Import Base.Keys Model.KVExec.
Import ListNotations.
Open Scope string_scope.
Open Scope list_scope.

(* ---- byte order on keys ---------------------------------------------------------------------- *)
Definition klt (a b : string) : Prop := String.compare a b = Lt.

Lemma cmp_refl a : String.compare a a = Eq.
Proof. apply String_as_OT.cmp_eq; reflexivity. Qed.

Lemma cmp_eq a b : String.compare a b = Eq -> a = b.
Proof. apply String_as_OT.cmp_eq. Qed.

Lemma cmp_gt_lt a b : String.compare a b = Gt -> klt b a.
Proof.
  unfold klt; intros H. rewrite String.compare_antisym, H; reflexivity.
Qed.

Lemma klt_trans a b c : klt a b -> klt b c -> klt a c.
Proof.
  unfold klt; intros H1 H2.
  apply String_as_OT.cmp_lt. apply String_as_OT.cmp_lt in H1. apply String_as_OT.cmp_lt in H2.
  eapply String_as_OT.lt_trans; eassumption.
Qed.

Lemma klt_neq a b : klt a b -> String.eqb a b = false.
Proof.
  unfold klt; intros H. apply String.eqb_neq; intros E; subst.
  rewrite cmp_refl in H; discriminate.
Qed.

Lemma klt_neq' a b : klt a b -> String.eqb b a = false.
Proof. intros H. rewrite String.eqb_sym. apply klt_neq; exact H. Qed.

(* ---- sorted stores ----------------------------------------------------------------------------- *)
Definition above (k : string) (m : db) : Prop := Forall (fun e => klt k (fst e)) m.

Fixpoint sorted (m : db) : Prop :=
  match m with
  | [] => True
  | e :: r => above (fst e) r /\ sorted r
  end.

Lemma above_weaken a b m : klt a b -> above b m -> above a m.
Proof.
  unfold above; intros Hab H. eapply Forall_impl; [|exact H].
  intros e He; eapply klt_trans; eassumption.
Qed.

Lemma above_filter k f (m : db) : above k m -> above k (filter f m).
Proof.
  unfold above; induction m as [|e r IH]; intros H; cbn [filter]; [constructor|].
  inversion H; subst. destruct (f e); [constructor|]; auto.
Qed.

Lemma put_above a k v m : above a m -> klt a k -> above a (db_put k v m).
Proof.
  unfold above; induction m as [|[k' v'] r IH]; intros H Hak; cbn [db_put].
  - constructor; [exact Hak | constructor].
  - inversion H as [|? ? Hk' Hr]; subst.
    destruct (String.compare k k'); repeat constructor; auto.
Qed.

Lemma put_sorted k v m : sorted m -> sorted (db_put k v m).
Proof.
  induction m as [|[k' v'] r IH]; intros H; cbn [db_put].
  - cbn; split; [constructor | exact I].
  - destruct H as [Ha Hs]; cbn [fst] in Ha.
    destruct (String.compare k k') eqn:E.
    + apply cmp_eq in E; subst. cbn; split; assumption.
    + cbn [sorted fst]; split; [|split; assumption].
      constructor; [exact E | eapply above_weaken; eassumption].
    + cbn [sorted fst]; split; [|auto].
      apply put_above; [exact Ha | apply cmp_gt_lt; exact E].
Qed.

Lemma puts_sorted ps m : sorted m -> sorted (db_puts ps m).
Proof.
  unfold db_puts; revert m; induction ps as [|p ps IH]; intros m H; cbn [fold_left]; [exact H|].
  apply IH, put_sorted, H.
Qed.

Lemma put_lt_all k v m : above k m -> db_put k v m = (k, v) :: m.
Proof.
  destruct m as [|[k' v'] r]; intros H; cbn [db_put]; [reflexivity|].
  inversion H as [|? ? Hk _]; subst; cbn [fst] in Hk. unfold klt in Hk; rewrite Hk; reflexivity.
Qed.

Lemma get_put k' k v m :
  db_get k' (db_put k v m) = if String.eqb k' k then Some v else db_get k' m.
Proof.
  induction m as [|[k0 v0] r IH]; cbn [db_put db_get]; [reflexivity|].
  destruct (String.compare k k0) eqn:E.
  - apply cmp_eq in E; subst. cbn [db_get]. destruct (String.eqb k' k0); reflexivity.
  - cbn [db_get]. reflexivity.
  - cbn [db_get]. rewrite IH. destruct (String.eqb k' k0) eqn:E0; [|reflexivity].
    apply String.eqb_eq in E0; subst.
    apply cmp_gt_lt, klt_neq in E. rewrite E; reflexivity.
Qed.

Lemma get_above k m : above k m -> db_get k m = None.
Proof.
  unfold above; induction m as [|[k' v'] r IH]; intros H; cbn [db_get]; [reflexivity|].
  inversion H as [|? ? Hk Hr]; subst; cbn [fst] in Hk.
  rewrite (klt_neq _ _ Hk). auto.
Qed.

(* two sorted stores with the same contents are the same list *)
Lemma sorted_ext m1 : forall m2, sorted m1 -> sorted m2 ->
  (forall k, db_get k m1 = db_get k m2) -> m1 = m2.
Proof.
  induction m1 as [|[k1 v1] r1 IH]; intros [|[k2 v2] r2] S1 S2 G.
  - reflexivity.
  - specialize (G k2); cbn [db_get] in G. rewrite String.eqb_refl in G; discriminate.
  - specialize (G k1); cbn [db_get] in G. rewrite String.eqb_refl in G; discriminate.
  - destruct S1 as [A1 S1], S2 as [A2 S2]; cbn [fst] in A1, A2.
    destruct (String.compare k1 k2) eqn:E.
    + apply cmp_eq in E; subst k2.
      pose proof (G k1) as G1; cbn [db_get] in G1; rewrite String.eqb_refl in G1.
      inversion G1; subst v2. f_equal.
      apply IH; try assumption. intros k.
      destruct (String.eqb k k1) eqn:Ek.
      * apply String.eqb_eq in Ek; subst. rewrite (get_above _ _ A1), (get_above _ _ A2); reflexivity.
      * specialize (G k); cbn [db_get] in G; rewrite Ek in G; exact G.
    + exfalso. specialize (G k1); cbn [db_get] in G. rewrite String.eqb_refl in G.
      rewrite (klt_neq _ _ E) in G.
      rewrite (get_above k1 r2) in G; [discriminate|].
      eapply above_weaken; eassumption.
    + exfalso. apply cmp_gt_lt in E. specialize (G k2); cbn [db_get] in G.
      rewrite String.eqb_refl in G. rewrite (klt_neq _ _ E) in G.
      rewrite (get_above k2 r1) in G; [discriminate|].
      eapply above_weaken; eassumption.
Qed.

(* ---- reading after a batch ----------------------------------------------------------------------- *)
(* the value the staged puts leave for key k, starting from d *)
Definition ov (k : string) (ps : list (string * string)) (d : option string) : option string :=
  fold_left (fun acc p => if String.eqb k (fst p) then Some (snd p) else acc) ps d.

Lemma get_puts k ps : forall m, db_get k (db_puts ps m) = ov k ps (db_get k m).
Proof.
  unfold db_puts, ov; induction ps as [|[a b] ps IH]; intros m; cbn [fold_left fst snd]; [reflexivity|].
  rewrite IH, get_put. reflexivity.
Qed.

Lemma ov_default k ps : forall d,
  ov k ps d = match ov k ps None with Some v => Some v | None => d end.
Proof.
  unfold ov; induction ps as [|[a b] ps IH]; intros d; cbn [fold_left fst snd]; [reflexivity|].
  destruct (String.eqb k a).
  - rewrite (IH (Some b)). destruct (fold_left _ ps None); reflexivity.
  - apply IH.
Qed.

Lemma ov_idem k ps d : ov k ps (ov k ps d) = ov k ps d.
Proof.
  rewrite (ov_default k ps (ov k ps d)), (ov_default k ps d).
  destruct (ov k ps None); reflexivity.
Qed.

Lemma puts_idem ps m : sorted m -> db_puts ps (db_puts ps m) = db_puts ps m.
Proof.
  intros S. apply sorted_ext; try (repeat apply puts_sorted; exact S).
  intros k. rewrite !get_puts. apply ov_idem.
Qed.

Lemma ov_other k ps d : (forall p, In p ps -> String.eqb k (fst p) = false) -> ov k ps d = d.
Proof.
  unfold ov; revert d; induction ps as [|p ps IH]; intros d H; cbn [fold_left]; [reflexivity|].
  rewrite (H p (or_introl eq_refl)). apply IH. intros q Hq; apply H; right; exact Hq.
Qed.

(* ---- transactions never touch reserved keys ------------------------------------------------------- *)
Lemma parse_tx_not_reserved tx k v : parse_tx tx = Some (k, v) -> reserved k = false.
Proof.
  unfold parse_tx. destruct (split_eq tx) as [[k0 v0]|]; [|discriminate].
  destruct (String.eqb (trim k0) ""); [discriminate|].
  destruct (reserved (clean_key (trim k0))) eqn:E; [discriminate|].
  intros H; inversion H; subst; exact E.
Qed.

Lemma parse_block_cons t r ps :
  parse_block (t :: r) = Some ps ->
  exists p ps', parse_tx t = Some p /\ parse_block r = Some ps' /\ ps = p :: ps'.
Proof.
  cbn [parse_block]. destruct (parse_tx t) as [p|]; [|discriminate].
  destruct (parse_block r) as [ps'|]; [|discriminate].
  intros H; inversion H; subst. exists p, ps'; auto.
Qed.

Lemma parse_block_not_reserved b : forall ps, parse_block b = Some ps ->
  forall p, In p ps -> reserved (fst p) = false.
Proof.
  induction b as [|t r IH]; intros ps H p Hp.
  - inversion H; subst; destruct Hp.
  - apply parse_block_cons in H. destruct H as (q & ps' & Hq & Hr & ->).
    destruct Hp as [<-|Hp].
    + destruct q as [k v]. eapply parse_tx_not_reserved; exact Hq.
    + eapply IH; eassumption.
Qed.

Lemma reserved_neq k r : reserved r = true -> reserved k = false -> String.eqb r k = false.
Proof.
  intros Hr Hk. apply String.eqb_neq; intros E; subst. rewrite Hr in Hk; discriminate.
Qed.

(* a successful or failed ExecuteTxs leaves every reserved key as it was *)
Lemma get_reserved_puts b ps m r :
  parse_block b = Some ps -> reserved r = true -> db_get r (db_puts ps m) = db_get r m.
Proof.
  intros H Hr. rewrite get_puts. apply ov_other.
  intros p Hp. apply reserved_neq; [exact Hr|]. eapply parse_block_not_reserved; eassumption.
Qed.

(* ---- the user part of the store (what the root is computed from) ----------------------------------- *)
Lemma user_put_reserved k v m : reserved k = true -> user (db_put k v m) = user m.
Proof.
  intros Hk. unfold user. induction m as [|[k' v'] r IH]; cbn [db_put filter fst].
  - rewrite Hk; reflexivity.
  - destruct (String.compare k k') eqn:E.
    + apply cmp_eq in E; subst. cbn [filter fst]. rewrite Hk; reflexivity.
    + cbn [filter fst]. rewrite Hk; reflexivity.
    + cbn [filter fst]. rewrite IH; reflexivity.
Qed.

Lemma user_put_user k v m : sorted m -> reserved k = false ->
  user (db_put k v m) = db_put k v (user m).
Proof.
  intros S Hk. unfold user. induction m as [|[k' v'] r IH]; cbn [db_put filter fst].
  - rewrite Hk; reflexivity.
  - destruct S as [A S]; cbn [fst] in A.
    destruct (String.compare k k') eqn:E.
    + apply cmp_eq in E; subst k'. cbn [filter fst]. rewrite Hk. cbn [negb db_put].
      rewrite cmp_refl; reflexivity.
    + cbn [filter fst]. rewrite Hk. cbn [negb].
      destruct (reserved k') eqn:Rk'; cbn [negb].
      * symmetry. apply put_lt_all. apply above_filter.
        eapply above_weaken; eassumption.
      * cbn [db_put]. rewrite E; reflexivity.
    + cbn [filter fst]. destruct (reserved k') eqn:Rk'; cbn [negb].
      * apply IH; exact S.
      * cbn [db_put]. rewrite E. f_equal. apply IH; exact S.
Qed.

Lemma user_sorted m : sorted m -> sorted (user m).
Proof.
  unfold user; induction m as [|e r IH]; intros S; cbn [filter]; [exact I|].
  destruct S as [A S]. destruct (negb (reserved (fst e))); [|auto].
  cbn [sorted]; split; [apply above_filter; exact A | auto].
Qed.

Lemma user_puts b : forall ps m, parse_block b = Some ps -> sorted m ->
  user (db_puts ps m) = fold_left apply_tx b (user m).
Proof.
  induction b as [|t r IH]; intros ps m H S.
  - inversion H; subst; reflexivity.
  - apply parse_block_cons in H. destruct H as ([k v] & ps' & Hq & Hr & ->).
    unfold db_puts; cbn [fold_left fst snd]. fold (db_puts ps' (db_put k v m)).
    rewrite (IH ps' _ Hr (put_sorted k v m S)).
    rewrite user_put_user; [|exact S | eapply parse_tx_not_reserved; exact Hq].
    cbn [fold_left].
    replace (apply_tx (user m) t) with (db_put k v (user m)) by (unfold apply_tx; rewrite Hq; reflexivity).
    reflexivity.
Qed.

(* ---- steps ---------------------------------------------------------------------------------------- *)
Lemma reserved_initialized : reserved k_initialized = true. Proof. reflexivity. Qed.
Lemma reserved_stateroot : reserved k_stateroot = true. Proof. reflexivity. Qed.
Lemma reserved_final : reserved k_final = true. Proof. reflexivity. Qed.

Lemma step_sorted s i : sorted (s_db s) -> sorted (s_db (fst (step s i))).
Proof.
  intros S. destruct i; cbn [step].
  - destruct (db_get k_initialized (s_db s)); cbn [fst s_db]; [exact S|].
    apply puts_sorted; exact S.
  - destruct (parse_block txs); cbn [fst s_db]; [apply puts_sorted|]; exact S.
  - destruct (h =? 0)%N; cbn [fst s_db]; [|apply put_sorted]; exact S.
  - destruct (N.of_nat (length (s_mp s)) <? mempool_cap)%N; exact S.
  - exact S.
  - exact S.
Qed.

(* only a successful ExecuteTxs changes the user part, and by exactly its transactions *)
Lemma step_user s i : sorted (s_db s) ->
  user (s_db (fst (step s i))) =
  match i with
  | IExec b => if block_ok b then fold_left apply_tx b (user (s_db s)) else user (s_db s)
  | _ => user (s_db s)
  end.
Proof.
  intros S. destruct i; cbn [step].
  - destruct (db_get k_initialized (s_db s)); cbn [fst s_db]; [reflexivity|].
    unfold db_puts; cbn [fold_left fst snd].
    rewrite !user_put_reserved; reflexivity.
  - unfold block_ok. destruct (parse_block txs) as [ps|] eqn:E; cbn [fst s_db]; [|reflexivity].
    apply user_puts; assumption.
  - destruct (h =? 0)%N; cbn [fst s_db]; [reflexivity|].
    apply user_put_reserved; reflexivity.
  - destruct (N.of_nat (length (s_mp s)) <? mempool_cap)%N; reflexivity.
  - reflexivity.
  - reflexivity.
Qed.

Lemma run_cons s i r :
  run s (i :: r) =
  (fst (run (fst (step s i)) r),
   (snd (step s i), root (s_db (fst (step s i)))) :: snd (run (fst (step s i)) r)).
Proof.
  cbn [run]. destruct (step s i) as [s1 o]. cbn [fst snd]. destruct (run s1 r); reflexivity.
Qed.

Lemma run_app s h1 : forall h2,
  run s (h1 ++ h2) =
  (fst (run (fst (run s h1)) h2), snd (run s h1) ++ snd (run (fst (run s h1)) h2)).
Proof.
  revert s; induction h1 as [|i r IH]; intros s h2.
  - cbn [app run fst snd]. destruct (run s h2); reflexivity.
  - rewrite <- app_comm_cons, !run_cons, IH. cbn [fst snd]. reflexivity.
Qed.

Lemma final_app h1 h2 : final (h1 ++ h2) = fst (run (final h1) h2).
Proof. unfold final. rewrite run_app; reflexivity. Qed.

Lemma final_snoc h i : final (h ++ [i]) = fst (step (final h) i).
Proof. rewrite final_app, run_cons; reflexivity. Qed.

Lemma outputs_app h1 h2 : outputs (h1 ++ h2) = outputs h1 ++ snd (run (final h1) h2).
Proof. unfold outputs, final. rewrite run_app; reflexivity. Qed.

Lemma run_sorted h : forall s, sorted (s_db s) -> sorted (s_db (fst (run s h))).
Proof.
  induction h as [|i r IH]; intros s S; [exact S|].
  rewrite run_cons; cbn [fst]. apply IH, step_sorted, S.
Qed.

Lemma final_sorted h : sorted (s_db (final h)).
Proof. apply run_sorted; exact I. Qed.

(* ---- the root is a function of the executed transactions -------------------------------------------- *)
Lemma executed_cons b bs :
  executed (b :: bs) = if block_ok b then b ++ executed bs else executed bs.
Proof. unfold executed; cbn [filter]. destruct (block_ok b); reflexivity. Qed.

Lemma executed_app a b : executed (a ++ b) = executed a ++ executed b.
Proof. unfold executed. rewrite filter_app, concat_app; reflexivity. Qed.

Lemma blocks_of_app h1 h2 : blocks_of (h1 ++ h2) = blocks_of h1 ++ blocks_of h2.
Proof. unfold blocks_of. apply flat_map_app. Qed.

Lemma run_user h : forall s, sorted (s_db s) ->
  user (s_db (fst (run s h))) = fold_left apply_tx (executed (blocks_of h)) (user (s_db s)).
Proof.
  induction h as [|i r IH]; intros s S; [reflexivity|].
  rewrite run_cons; cbn [fst].
  rewrite (IH _ (step_sorted s i S)), (step_user s i S).
  destruct i; try reflexivity.
  change (blocks_of (IExec txs :: r)) with (txs :: blocks_of r).
  rewrite executed_cons. destruct (block_ok txs); [|reflexivity].
  rewrite fold_left_app; reflexivity.
Qed.

(* after ANY history, the store's root is the root of the executed transactions *)
Lemma root_final h : root (s_db (final h)) = root_of_txs (executed (blocks_of h)).
Proof.
  unfold root, root_of_txs, final. rewrite run_user; [reflexivity | exact I].
Qed.

(* what ExecuteTxs returns next, after any history *)
Lemma exec_result h b :
  snd (step (final h) (IExec b)) =
  OExec (if block_ok b then Some (root_of_txs (executed (blocks_of h ++ [b]))) else None).
Proof.
  pose proof (root_final (h ++ [IExec b])) as R.
  rewrite final_snoc, blocks_of_app in R. cbn [blocks_of flat_map app] in R.
  cbn [step] in *. unfold block_ok. destruct (parse_block b); cbn [snd fst s_db] in *; [|reflexivity].
  rewrite R; reflexivity.
Qed.

Lemma exec_outs_app a b : exec_outs (a ++ b) = exec_outs a ++ exec_outs b.
Proof. unfold exec_outs. apply flat_map_app. Qed.

Lemma spec_exec_app done a : forall b,
  spec_exec done (a ++ b) = spec_exec done a ++ spec_exec (done ++ filter block_ok a) b.
Proof.
  revert done; induction a as [|x a IH]; intros done b.
  - cbn [app spec_exec filter]. rewrite app_nil_r; reflexivity.
  - cbn [app spec_exec filter]. destruct (block_ok x).
    + rewrite IH, <- app_assoc. reflexivity.
    + rewrite IH. reflexivity.
Qed.

Lemma executed_filter bs : executed (filter block_ok bs) = executed bs.
Proof.
  unfold executed. f_equal. induction bs as [|b r IH]; cbn [filter]; [reflexivity|].
  destruct (block_ok b) eqn:E; cbn [filter]; [rewrite E, IH|]; auto.
Qed.

Lemma exec_outs_cons o rt l :
  exec_outs ((o, rt) :: l) = match o with OExec r => [r] | _ => [] end ++ exec_outs l.
Proof. reflexivity. Qed.

Lemma non_exec_out s i : is_exec i = false ->
  match snd (step s i) with OExec r => [r] | _ => [] end = [].
Proof.
  destruct i; intros H; try discriminate H; cbn [step].
  - destruct (db_get k_initialized (s_db s)); reflexivity.
  - destruct (h =? 0)%N; reflexivity.
  - destruct (N.of_nat (length (s_mp s)) <? mempool_cap)%N; reflexivity.
  - reflexivity.
  - reflexivity.
Qed.

Lemma non_exec_blocks i : is_exec i = false -> blocks_of [i] = [].
Proof. destruct i; intros H; try discriminate H; reflexivity. Qed.

Lemma exec_outs_spec_gen h : forall h0,
  exec_outs (snd (run (final h0) h)) = spec_exec (filter block_ok (blocks_of h0)) (blocks_of h).
Proof.
  induction h as [|i r IH]; intros h0; [reflexivity|].
  rewrite run_cons; cbn [snd].
  rewrite exec_outs_cons, <- final_snoc, IH, blocks_of_app.
  change (i :: r) with ([i] ++ r). rewrite (blocks_of_app [i] r).
  destruct (is_exec i) eqn:Ei.
  - destruct i; try discriminate Ei.
    rewrite exec_result. change (blocks_of [IExec txs]) with [txs].
    cbn [app spec_exec]. rewrite filter_app; cbn [filter].
    destruct (block_ok txs) eqn:E; cbn [app]; [|rewrite app_nil_r; reflexivity].
    f_equal. f_equal. f_equal. rewrite !executed_app, executed_filter. reflexivity.
  - rewrite (non_exec_out _ _ Ei), (non_exec_blocks _ Ei). cbn [app filter].
    rewrite app_nil_r. reflexivity.
Qed.

Lemma exec_outs_spec h : exec_outs (outputs h) = spec_exec [] (blocks_of h).
Proof. exact (exec_outs_spec_gen h []). Qed.

Lemma root_function_of_txs h :
  exec_outs (outputs h) = spec_exec [] (blocks_of h) /\
  root (s_db (final h)) = root_of_txs (executed (blocks_of h)).
Proof. split; [apply exec_outs_spec | apply root_final]. Qed.

Lemma two_instances h1 h2 : blocks_of h1 = blocks_of h2 ->
  exec_outs (outputs h1) = exec_outs (outputs h2) /\
  root (s_db (final h1)) = root (s_db (final h2)).
Proof.
  intros E. rewrite !exec_outs_spec, !root_final, E. split; reflexivity.
Qed.

(* a call that is not ExecuteTxs never changes the root *)
Lemma non_exec_keeps_root h i : is_exec i = false ->
  root (s_db (final (h ++ [i]))) = root (s_db (final h)).
Proof.
  intros H. rewrite !root_final, blocks_of_app.
  destruct i; try discriminate; cbn [blocks_of flat_map]; rewrite app_nil_r; reflexivity.
Qed.

(* ---- a rejected block changes nothing ----------------------------------------------------------------- *)
Lemma block_with_bad_tx b tx : In tx b -> parse_tx tx = None -> block_ok b = false.
Proof.
  unfold block_ok. induction b as [|t r IH]; intros Hin Hp; [destruct Hin|].
  cbn [parse_block]. destruct Hin as [->|Hin].
  - rewrite Hp; reflexivity.
  - destruct (parse_tx t); [|reflexivity].
    specialize (IH Hin Hp). destruct (parse_block r); [discriminate | reflexivity].
Qed.

Lemma rejected_noop s b : block_ok b = false -> step s (IExec b) = (s, OExec None).
Proof. unfold block_ok; cbn [step]. destruct (parse_block b); [discriminate | reflexivity]. Qed.

Lemma malformed_noop h b tx : In tx b -> parse_tx tx = None ->
  final (h ++ [IExec b]) = final h /\
  outputs (h ++ [IExec b]) = outputs h ++ [(OExec None, root (s_db (final h)))].
Proof.
  intros Hin Hp. pose proof (block_with_bad_tx b tx Hin Hp) as Hb.
  rewrite final_snoc, outputs_app, run_cons, (rejected_noop _ _ Hb). cbn [fst snd run]. auto.
Qed.

(* ---- executing a block again ------------------------------------------------------------------------------ *)
Lemma reexec_step s b : sorted (s_db s) ->
  step (fst (step s (IExec b))) (IExec b) = step s (IExec b).
Proof.
  intros S. cbn [step]. destruct (parse_block b) as [ps|] eqn:E; cbn [fst s_db s_mp]; rewrite ?E; [|reflexivity].
  cbn [s_db s_mp]. rewrite (puts_idem ps _ S). reflexivity.
Qed.

Lemma reexec_idem h b :
  final (h ++ [IExec b; IExec b]) = final (h ++ [IExec b]) /\
  exists o, outputs (h ++ [IExec b; IExec b]) = outputs h ++ [o; o].
Proof.
  change [IExec b; IExec b] with ([IExec b] ++ [IExec b]).
  rewrite app_assoc, final_snoc, final_snoc.
  pose proof (reexec_step (final h) b (final_sorted h)) as R.
  split; [rewrite R; reflexivity|].
  rewrite outputs_app, outputs_app, run_cons, run_cons. cbn [run snd fst].
  rewrite <- final_snoc, <- app_assoc.
  rewrite final_snoc. rewrite R.
  eexists. cbn [app]. reflexivity.
Qed.

(* ---- InitChain ---------------------------------------------------------------------------------------------- *)
(* genesis record present: the flag and the stored genesis root *)
Definition genesis_is (s : st) (g : string) : Prop :=
  (exists x, db_get k_initialized (s_db s) = Some x) /\ db_get k_stateroot (s_db s) = Some g.

Lemma init_step_sets s : db_get k_initialized (s_db s) = None ->
  genesis_is (fst (step s IInit)) (root (s_db s)) /\ snd (step s IInit) = OInit (Some (root (s_db s))).
Proof.
  intros H. cbn [step]. rewrite H. cbn [fst snd s_db]. split; [|reflexivity].
  unfold genesis_is, db_puts; cbn [s_db fold_left fst snd]. rewrite !get_put. split.
  - exists "true". reflexivity.
  - reflexivity.
Qed.

Lemma init_step_when_set s g : genesis_is s g -> step s IInit = (s, OInit (Some g)).
Proof. intros [[x Hx] Hg]. cbn [step]. rewrite Hx, Hg. reflexivity. Qed.

(* no call ever changes a genesis record once it is there *)
Lemma genesis_frozen_step s g i : genesis_is s g -> genesis_is (fst (step s i)) g.
Proof.
  intros G. destruct i.
  - rewrite (init_step_when_set s g G). exact G.
  - cbn [step]. destruct (parse_block txs) as [ps|] eqn:E; cbn [fst]; [|exact G].
    destruct G as [[x Hx] Hg]. unfold genesis_is; cbn [s_db].
    rewrite (get_reserved_puts txs ps _ k_initialized E reserved_initialized),
            (get_reserved_puts txs ps _ k_stateroot E reserved_stateroot).
    split; [exists x|]; assumption.
  - cbn [step]. destruct (h =? 0)%N; cbn [fst]; [exact G|].
    destruct G as [[x Hx] Hg]. unfold genesis_is; cbn [s_db]. rewrite !get_put.
    cbn. split; [exists x|]; assumption.
  - cbn [step]. destruct (N.of_nat (length (s_mp s)) <? mempool_cap)%N; exact G.
  - exact G.
  - exact G.
Qed.

Lemma genesis_frozen_run h : forall s g, genesis_is s g -> genesis_is (fst (run s h)) g.
Proof.
  induction h as [|i r IH]; intros s g G; [exact G|].
  rewrite run_cons; cbn [fst]. apply IH, genesis_frozen_step, G.
Qed.

(* reachable stores: the flag is never there without the root *)
Definition genesis_ok (s : st) : Prop :=
  db_get k_initialized (s_db s) = None \/ exists g, genesis_is s g.

Lemma genesis_ok_step s i : genesis_ok s -> genesis_ok (fst (step s i)).
Proof.
  intros [N|[g G]]; [|right; exists g; apply genesis_frozen_step, G].
  destruct i.
  - right. eexists. apply init_step_sets, N.
  - left. cbn [step]. destruct (parse_block txs) as [ps|] eqn:E; cbn [fst s_db]; [|exact N].
    rewrite (get_reserved_puts txs ps _ k_initialized E reserved_initialized). exact N.
  - left. cbn [step]. destruct (h =? 0)%N; cbn [fst s_db]; [exact N|]. rewrite get_put. cbn. exact N.
  - left. cbn [step]. destruct (N.of_nat (length (s_mp s)) <? mempool_cap)%N; exact N.
  - left; exact N.
  - left; exact N.
Qed.

Lemma genesis_ok_final h : genesis_ok (final h).
Proof.
  unfold final. assert (G : genesis_ok init_st) by (left; reflexivity).
  revert G. generalize init_st. induction h as [|i r IH]; intros s G; [exact G|].
  rewrite run_cons; cbn [fst]. apply IH, genesis_ok_step, G.
Qed.

(* InitChain after any history succeeds and establishes/keeps the genesis record *)
Lemma init_after h : exists g,
  snd (step (final h) IInit) = OInit (Some g) /\ genesis_is (fst (step (final h) IInit)) g.
Proof.
  destruct (genesis_ok_final h) as [N|[g G]].
  - exists (root (s_db (final h))). destruct (init_step_sets _ N); auto.
  - exists g. rewrite (init_step_when_set _ g G). auto.
Qed.

(* every later InitChain, whatever happened in between, changes nothing and returns what the earlier returned *)
Lemma init_idem h1 h2 :
  exists g,
    snd (step (final h1) IInit) = OInit (Some g) /\
    step (final (h1 ++ IInit :: h2)) IInit = (final (h1 ++ IInit :: h2), OInit (Some g)).
Proof.
  destruct (init_after h1) as (g & Ho & G). exists g. split; [exact Ho|].
  apply init_step_when_set.
  change (IInit :: h2) with ([IInit] ++ h2). rewrite app_assoc, final_app, final_snoc.
  apply genesis_frozen_run, G.
Qed.

(* before the first InitChain the flag is absent, so the first InitChain returns the current root *)
Lemma not_initialized h : forallb (fun i => negb (is_init i)) h = true ->
  db_get k_initialized (s_db (final h)) = None.
Proof.
  unfold final. assert (G : db_get k_initialized (s_db init_st) = None) by reflexivity.
  revert G. generalize init_st. induction h as [|i r IH]; intros s G H; [exact G|].
  cbn [forallb] in H. apply andb_true_iff in H. destruct H as [Hi Hr].
  rewrite run_cons; cbn [fst]. apply IH; [|exact Hr].
  destruct i; try discriminate.
  - cbn [step]. destruct (parse_block txs) as [ps|] eqn:E; cbn [fst s_db]; [|exact G].
    rewrite (get_reserved_puts txs ps _ k_initialized E reserved_initialized). exact G.
  - cbn [step]. destruct (h =? 0)%N; cbn [fst s_db]; [exact G|]. rewrite get_put. cbn. exact G.
  - cbn [step]. destruct (N.of_nat (length (s_mp s)) <? mempool_cap)%N; exact G.
  - exact G.
  - exact G.
Qed.

Lemma first_init_root h : forallb (fun i => negb (is_init i)) h = true ->
  snd (step (final h) IInit) = OInit (Some (root_of_txs (executed (blocks_of h)))).
Proof.
  intros H. destruct (init_step_sets _ (not_initialized h H)) as [_ Ho].
  rewrite Ho, root_final. reflexivity.
Qed.

(* ---- mempool: independent of the store (supporting facts) ------------------------------------------------ *)
Lemma step_db_mempool_free s mp i :
  s_db (fst (step {| s_db := s_db s; s_mp := mp |} i)) = s_db (fst (step s i)) /\
  match i with IGetTxs => True | _ =>
    snd (step {| s_db := s_db s; s_mp := mp |} i) = snd (step s i) end.
Proof.
  destruct i; cbn [step s_db s_mp].
  - destruct (db_get k_initialized (s_db s)); auto.
  - destruct (parse_block txs); auto.
  - destruct (h =? 0)%N; auto.
  - destruct (N.of_nat (length mp) <? mempool_cap)%N, (N.of_nat (length (s_mp s)) <? mempool_cap)%N; auto.
  - auto.
  - auto.
Qed.
