(* Proofs/GoLiteBootRefine.v — the translated getInitialState (block/manager.go) refines the start-up of Model/Producer.v.

   Check/GoLiteBoot.v proves what getInitialState — regenerated from the Go source on every run — does against scripted
   collaborators, for all worlds.  Here that expectation is tied to [Producer.boot] (the start of every history of C01
   and C04), for EVERY configuration, durable image and answer of InitChain, with the cache files intact:

     boot_refines_model   the code fails exactly when the model's outcome is OBootFailInit / OBootFailGenesis; it saves a
                          block — the genesis block, at the initial height, once — exactly when the model's first write
                          is that block (no state stored), and saves NOTHING when a state is stored: in particular it
                          neither looks for nor adopts blocks above the recorded state; InitChain is called exactly
                          when the model calls it.
     translated_boot_refines_model   the composition: the statement about the translated Go code itself. *)
From Coq Require Import String List NArith ZArith Bool Lia.
From Verif Require Import Base.KV Base.Keys Model.Types Model.GoLite Check.GoLiteBoot.
From Verif Require Model.Producer.
Import ListNotations.
Open Scope list_scope.
Import Producer.

Definition is_some {A} (x : option A) : bool := match x with Some _ => true | None => false end.

Definition bworld_of (c : cfg) (m : img) (ic : option root) : bworld :=
  {| b_state := match g_state m with None => StNotFound | Some s => StFound (s_height s) end;
     b_initial := c_initial c; b_gtime := c_gtime c; b_signer := true;
     b_init_ok := is_some ic; b_pub_ok := true; b_payload_ok := true; b_sign_ok := true; b_save_ok := true |}.

(* the heights at which the code saves a block, and whether it called InitChain *)
Definition saved_heights (o : list gval * list gval) : list N :=
  flat_map (fun e => match e with
                     | VEff name [_; VRec fs; _; _] =>
                         if String.eqb name "store.SaveBlockData" then
                           match GoLite.lookup fs "Header" with
                           | Some (VRec hf) => match GoLite.lookup hf "BaseHeader" with
                                               | Some (VRec bf) => match GoLite.lookup bf "Height" with Some (VN h) => [h] | _ => [] end
                                               | _ => [] end
                           | _ => [] end
                         else []
                     | _ => [] end) (snd o).
Definition init_called (o : list gval * list gval) : bool :=
  existsb (fun e => match e with VEff name _ => String.eqb name "exec.InitChain" | _ => false end) (snd o).
Definition failed (o : list gval * list gval) : bool := match fst o with [_; VNil] => false | _ => true end.

(* ... of the model *)
Definition model_block_heights (r : ares) : list N :=
  flat_map (fun w => match w with WBatch [Put _ (VBlock b)] => [h_height (hdr_of b)] | _ => [] end) (a_pre r).
Definition model_failed (r : ares) : bool := match a_out r with OBootOk => false | _ => true end.

Theorem boot_refines_model : forall (c : cfg) (m : img) (ic : option root),
  let o := boot_expect (bworld_of c m ic) in
  let r := boot c m true ic in
  failed o = model_failed r /\
  saved_heights o = model_block_heights r /\
  init_called o = is_some (a_init r) || (match g_state m, ic with None, None => true | _, _ => false end).
Proof.
  intros c m ic. cbv zeta. unfold boot_expect, bworld_of, boot; cbn [b_state b_initial b_gtime b_signer b_init_ok b_pub_ok b_payload_ok b_sign_ok b_save_ok].
  destruct (g_state m) as [s|].
  - destruct (s_height s <? c_initial c)%N; unfold set_height;
      destruct (s_height s <=? g_height m)%N; repeat split; reflexivity.
  - destruct ic as [r0|]; cbn [is_some negb].
    + unfold set_height. destruct (c_initial c - 1 <=? g_height m)%N; repeat split; reflexivity.
    + repeat split; reflexivity.
Qed.

Theorem translated_boot_refines_model : forall (c : cfg) (m : img) (ic : option root),
  exists o, run_boot (bworld_of c m ic) = Some o /\
            failed o = model_failed (boot c m true ic) /\
            saved_heights o = model_block_heights (boot c m true ic).
Proof.
  intros c m ic. exists (boot_expect (bworld_of c m ic)). split; [apply go_getInitialState|].
  destruct (boot_refines_model c m ic) as [A [B _]]. split; assumption.
Qed.

(* a stored state is returned as it is, whatever else the store holds: nothing executed, nothing saved *)
Theorem stored_state_is_adopted_untouched : forall w last,
  b_state w = StFound last -> (b_initial w <= last)%N ->
  boot_expect w = ([stored_state last; VNil], [VEff "store.GetState" [ctx]]).
Proof.
  intros w last Hs Hle. unfold boot_expect. rewrite Hs.
  destruct (last <? b_initial w)%N eqn:E; [apply N.ltb_lt in E; lia|reflexivity].
Qed.

Print Assumptions translated_boot_refines_model.
Print Assumptions stored_state_is_adopted_untouched.
