(* Proofs/StoreProofs.v — the store refines a height-indexed map (C14). *)
From Coq Require Import String Ascii NArith List Bool Lia PeanoNat.
From Verif Require Import Base.KV Base.Keys Model.Store.
Import ListNotations.
Open Scope string_scope.
Open Scope list_scope.

(* ---- key builders: injective, and different kinds never collide ------------------------ *)
Inductive keykind := KHeader (n : N) | KData (n : N) | KSig (n : N) | KIndex (h : string)
                   | KState | KHeightK | KMeta (k : string).

Definition key_of (k : keykind) : string :=
  match k with
  | KHeader n => header_key n | KData n => data_key n | KSig n => sig_key n
  | KIndex h => index_key h | KState => state_key | KHeightK => height_key | KMeta k => meta_key k
  end.

Lemma key_of_inj a b : key_of a = key_of b -> a = b.
Proof.
  destruct a, b; unfold key_of, header_key, data_key, sig_key, index_key, state_key, height_key, meta_key;
    simpl; intros H; try discriminate H; try reflexivity;
    inversion H as [H']; f_equal;
    first [ apply dec_inj; exact H' | apply hex_inj; exact H' | exact H' ].
Qed.

Lemma key_neq a b : a <> b -> key_of a <> key_of b.
Proof. intros H E; apply H, key_of_inj, E. Qed.

Ltac kneq :=
  let E := fresh "E" in
  intro E;
  unfold header_key, data_key, sig_key, index_key, state_key, height_key, meta_key in E;
  cbn [append] in E;
  first [ discriminate E
        | let E' := fresh "E" in
          inversion E as [E'];
          first [ apply dec_inj in E'; congruence
                | apply hex_inj in E'; congruence
                | congruence ] ].

(* ---- abstract-map lemmas ---------------------------------------------------------------- *)
Lemma a_lookup_remove_same l n : a_lookup (a_remove l n) n = None.
Proof.
  induction l as [|[n' b] l IH]; simpl; [reflexivity|].
  destruct (N.eqb_spec n' n) as [->|Hne]; simpl; [exact IH|].
  destruct (N.eqb_spec n n'); [congruence | exact IH].
Qed.

Lemma a_lookup_remove_other l n m : m <> n -> a_lookup (a_remove l n) m = a_lookup l m.
Proof.
  intros Hne; induction l as [|[n' b] l IH]; simpl; [reflexivity|].
  destruct (N.eqb_spec n' n) as [->|Hne']; simpl.
  - destruct (N.eqb_spec m n); [congruence | exact IH].
  - destruct (N.eqb_spec m n'); [reflexivity | exact IH].
Qed.

(* ---- the invariant of the abstract block list ------------------------------------------- *)
(* every entry sits at its own height, and the current blocks have pairwise distinct hashes *)
Definition blocks_ok (l : list (N * blk)) : Prop :=
  (forall n b, a_lookup l n = Some b -> hheight (b_hdr b) = n) /\
  (forall n m b c, a_lookup l n = Some b -> a_lookup l m = Some c ->
                   hhash (b_hdr b) = hhash (b_hdr c) -> n = m).

Lemma find_lookup l hash n b :
  find (fun e : N * blk => String.eqb (hhash (b_hdr (snd e))) hash) l = Some (n, b) ->
  hhash (b_hdr b) = hash /\ In (n, b) l.
Proof.
  induction l as [|[n' b'] l IH]; simpl; [discriminate|].
  destruct (String.eqb_spec (hhash (b_hdr b')) hash) as [E|E].
  - intros H; inversion H; subst; auto.
  - intros H; destruct (IH H); auto.
Qed.

(* NoDup of heights in the list (one entry per height) *)
Definition heights (l : list (N * blk)) := map fst l.

Lemma a_remove_heights l n : ~ In n (heights (a_remove l n)).
Proof.
  unfold heights, a_remove; intros H. apply in_map_iff in H as [[n' b] [E Hin]]; simpl in E; subst.
  apply filter_In in Hin as [_ Hf]; simpl in Hf. rewrite N.eqb_refl in Hf; discriminate.
Qed.

Lemma a_remove_nodup l n : NoDup (heights l) -> NoDup (heights (a_remove l n)).
Proof.
  unfold heights, a_remove; induction l as [|[n' b] l IH]; simpl; intros H; [constructor|].
  inversion H as [|? ? Hnin Hnd]; subst.
  destruct (N.eqb_spec n' n); simpl; [apply IH; exact Hnd|].
  constructor; [|apply IH; exact Hnd].
  intros Hin; apply Hnin. apply in_map_iff in Hin as [[x y] [E Hin]]; simpl in E; subst.
  apply filter_In in Hin as [Hin _]. apply in_map_iff; exists (n', y); auto.
Qed.

Lemma lookup_in l n b : NoDup (heights l) -> In (n, b) l -> a_lookup l n = Some b.
Proof.
  induction l as [|[n' b'] l IH]; simpl; intros Hnd Hin; [contradiction|].
  inversion Hnd as [|? ? Hnin Hnd']; subst.
  destruct Hin as [E|Hin].
  - inversion E; subst; rewrite N.eqb_refl; reflexivity.
  - destruct (N.eqb_spec n n') as [->|Hne]; [|apply IH; assumption].
    exfalso; apply Hnin. apply in_map_iff; exists (n', b); auto.
Qed.

Lemma in_lookup l n b : a_lookup l n = Some b -> In (n, b) l.
Proof.
  induction l as [|[n' b'] l IH]; simpl; [discriminate|].
  destruct (N.eqb_spec n n') as [->|Hne]; intros H; [inversion H; auto | right; apply IH, H].
Qed.

Lemma a_by_hash_spec l hash :
  NoDup (heights l) -> blocks_ok l ->
  match a_by_hash l hash with
  | Some b => hhash (b_hdr b) = hash /\ a_lookup l (hheight (b_hdr b)) = Some b
  | None => forall n b, a_lookup l n = Some b -> hhash (b_hdr b) <> hash
  end.
Proof.
  intros Hnd [Hh Hu]. unfold a_by_hash.
  destruct (find _ l) as [[n b]|] eqn:E.
  - apply find_lookup in E as [E1 E2]. split; [exact E1|].
    pose proof (lookup_in _ _ _ Hnd E2) as Hl. rewrite (Hh _ _ Hl); exact Hl.
  - intros n b Hl Hhash. apply in_lookup in Hl.
    pose proof (find_none _ _ E _ Hl) as Hf; simpl in Hf.
    apply String.eqb_neq in Hf; contradiction.
Qed.

(* ---- the simulation relation -------------------------------------------------------------- *)
Record R (m : img) (a : spec) : Prop := {
  R_hdr : forall n, kv_get m (header_key n) = option_map (fun b => VHeader (b_hdr b)) (a_lookup (a_blocks a) n);
  R_data : forall n, kv_get m (data_key n) = option_map (fun b => VData (b_data b)) (a_lookup (a_blocks a) n);
  R_sig : forall n, kv_get m (sig_key n) = option_map (fun b => VSig (b_sig b)) (a_lookup (a_blocks a) n);
  R_idx : forall hash, kv_get m (index_key hash) =
                       option_map (fun b => VHeight (hheight (b_hdr b))) (a_by_hash (a_blocks a) hash);
  R_height : kv_get m height_key = if (a_height a =? 0)%N then None else Some (VHeight (a_height a));
  R_state : kv_get m state_key = option_map VState (a_state a);
  R_meta : forall k, kv_get m (meta_key k) = option_map VBytes (a_meta_get (a_meta a) k);
  R_nodup : NoDup (heights (a_blocks a));
  R_ok : blocks_ok (a_blocks a)
}.

Lemma R_init : R [] a_init.
Proof.
  constructor; simpl; intros; try reflexivity; try constructor; intros; discriminate.
Qed.

(* the hypothesis under which a save keeps hashes distinct: no *other* height currently
   holds a block with the new header's hash *)
Definition save_ok (a : spec) (h : hdr) : Prop :=
  forall m c, a_lookup (a_blocks a) m = Some c -> hhash (b_hdr c) = hhash h -> m = hheight h.

Lemma fold_apply_app (m : img) (p q : list (prim sval)) :
  fold_left apply_prim (p ++ q) m = fold_left apply_prim q (fold_left apply_prim p m).
Proof. apply fold_left_app. Qed.

Lemma by_hash_cons_new n b l hash :
  a_by_hash ((n, b) :: l) hash =
  if String.eqb (hhash (b_hdr b)) hash then Some b else a_by_hash l hash.
Proof. unfold a_by_hash; simpl. destruct (String.eqb _ hash); reflexivity. Qed.

(* by-hash lookup in the list with height n removed *)
Lemma by_hash_remove l n hash :
  NoDup (heights l) -> blocks_ok l ->
  a_by_hash (a_remove l n) hash =
  match a_by_hash l hash with
  | Some b => if (hheight (b_hdr b) =? n)%N then None else Some b
  | None => None
  end.
Proof.
  intros Hnd Hok.
  assert (Hnd' := a_remove_nodup l n Hnd).
  assert (Hok' : blocks_ok (a_remove l n)).
  { destruct Hok as [Hh Hu]; split.
    - intros k b Hl. destruct (N.eq_dec k n) as [->|Hne].
      + rewrite a_lookup_remove_same in Hl; discriminate.
      + rewrite a_lookup_remove_other in Hl by exact Hne. eauto.
    - intros k1 k2 b c H1 H2 E.
      destruct (N.eq_dec k1 n) as [->|Hne1]; [rewrite a_lookup_remove_same in H1; discriminate|].
      destruct (N.eq_dec k2 n) as [->|Hne2]; [rewrite a_lookup_remove_same in H2; discriminate|].
      rewrite a_lookup_remove_other in H1, H2 by assumption. eauto. }
  pose proof (a_by_hash_spec _ hash Hnd' Hok') as S'.
  pose proof (a_by_hash_spec _ hash Hnd Hok) as S.
  destruct Hok as [Hh Hu].
  destruct (a_by_hash (a_remove l n) hash) as [b'|] eqn:E';
    destruct (a_by_hash l hash) as [b|] eqn:E.
  - destruct S' as [H1 H2], S as [H3 H4].
    destruct (N.eq_dec (hheight (b_hdr b')) n) as [En|Hne].
    + rewrite En, a_lookup_remove_same in H2; discriminate.
    + rewrite a_lookup_remove_other in H2 by exact Hne.
      assert (hheight (b_hdr b') = hheight (b_hdr b)) as Eh by (eapply Hu; eauto; congruence).
      rewrite Eh in H2. rewrite H2 in H4; inversion H4; subst.
      destruct (N.eqb_spec (hheight (b_hdr b)) n); [congruence | reflexivity].
  - destruct S' as [H1 H2].
    destruct (N.eq_dec (hheight (b_hdr b')) n) as [En|Hne].
    + rewrite En, a_lookup_remove_same in H2; discriminate.
    + rewrite a_lookup_remove_other in H2 by exact Hne. exfalso; eapply S; eauto.
  - destruct S as [H3 H4].
    destruct (N.eqb_spec (hheight (b_hdr b)) n) as [En|Hne]; [reflexivity|].
    exfalso. eapply (S' (hheight (b_hdr b)) b); [|exact H3].
    rewrite a_lookup_remove_other by exact Hne; exact H4.
  - reflexivity.
Qed.

Lemma aw_nil (m : img) : apply_writes m [] = m.
Proof. reflexivity. Qed.
Lemma aw_put (m : img) k v : apply_writes m [W1 (Put k v)] = kv_put m k v.
Proof. reflexivity. Qed.
Lemma aw_batch (m : img) ps : apply_writes m [WBatch ps] = fold_left apply_prim ps m.
Proof. reflexivity. Qed.

Lemma R_step (m : img) (a : spec) (o : op) :
  R m a ->
  (forall h d s, o = OSave h d s -> save_ok a h) ->
  snd (step m o) = snd (a_step a o) /\ R (apply_writes m (fst (step m o))) (fst (a_step a o)).
Proof.
  intros HR Hsave. pose proof HR as HR0.
  destruct HR as [Hhdr Hdata Hsig Hidx Hheight Hstate Hmeta Hnd Hok].
  assert (Hc_height : c_height m = Some (a_height a)).
  { unfold c_height; rewrite Hheight. destruct (N.eqb_spec (a_height a) 0) as [->|]; reflexivity. }
  assert (Hc_hdr : forall n, c_get_header m n = option_map b_hdr (a_lookup (a_blocks a) n)).
  { intros n; unfold c_get_header; rewrite Hhdr; destruct (a_lookup _ n); reflexivity. }
  assert (Hc_data : forall n, c_get_data m n = option_map b_data (a_lookup (a_blocks a) n)).
  { intros n; unfold c_get_data; rewrite Hdata; destruct (a_lookup _ n); reflexivity. }
  assert (Hc_sig : forall n, c_get_sig m n = option_map b_sig (a_lookup (a_blocks a) n)).
  { intros n; unfold c_get_sig; rewrite Hsig; destruct (a_lookup _ n); reflexivity. }
  assert (Hc_idx : forall hash, c_height_by_hash m hash =
                                option_map (fun b => hheight (b_hdr b)) (a_by_hash (a_blocks a) hash)).
  { intros hash; unfold c_height_by_hash; rewrite Hidx; destruct (a_by_hash _ hash); reflexivity. }
  assert (Hc_blk : forall n, c_get_block m n =
             match a_lookup (a_blocks a) n with Some b => RBlock (b_hdr b) (b_data b) | None => RErr end).
  { intros n; unfold c_get_block; rewrite Hc_hdr, Hc_data; destruct (a_lookup _ n); reflexivity. }
  destruct o; cbn [step a_step fst snd].
  - (* OSetHeight *)
    rewrite Hc_height. destruct (N.leb_spec n (a_height a)) as [Hle|Hlt]; cbn [fst snd].
    + split; [reflexivity|]. rewrite N.max_l by lia. rewrite aw_nil.
      constructor; cbn [a_height a_blocks a_state a_meta]; auto.
    + split; [reflexivity|]. rewrite N.max_r by lia. rewrite aw_put.
      constructor; cbn [a_height a_blocks a_state a_meta]; auto; intros;
        try (rewrite kv_get_put_other by kneq; auto).
      rewrite kv_get_put_same. destruct (N.eqb_spec n 0); [lia|reflexivity].
  - (* OHeight *) rewrite Hc_height; split; [reflexivity | rewrite ?aw_nil; exact HR0].
  - (* OSave *)
    split; [reflexivity|].
    specialize (Hsave h d s eq_refl). unfold save_ok in Hsave.
    set (n := hheight h) in *.
    set (nb := {| b_hdr := h; b_data := d; b_sig := s |}).
    rewrite aw_batch. unfold save_prims. fold n. rewrite Hc_hdr.
    rewrite fold_apply_app.
    set (stale := match option_map b_hdr (a_lookup (a_blocks a) n) with
                  | Some old => if String.eqb (hhash old) (hhash h) then [] else [Del (index_key (hhash old))]
                  | None => [] end).
    set (m0 := fold_left apply_prim stale m).
    cbn [fold_left apply_prim].
    assert (Hm0_other : forall k, (forall hash, k <> index_key hash) -> kv_get m0 k = kv_get m k).
    { intros k Hk; unfold m0, stale. destruct (a_lookup (a_blocks a) n) as [ob|]; cbn [option_map]; [|reflexivity].
      destruct (String.eqb _ _); cbn [fold_left apply_prim]; [reflexivity|]. apply kv_get_del_other, Hk. }
    assert (Hnd' := a_remove_nodup (a_blocks a) n Hnd).
    assert (Hok' : blocks_ok ((n, nb) :: a_remove (a_blocks a) n)).
    { destruct Hok as [Hh Hu]; split.
      - intros k b; cbn [a_lookup]. destruct (N.eqb_spec k n) as [->|Hne].
        + intros E; inversion E; reflexivity.
        + rewrite a_lookup_remove_other by exact Hne. apply Hh.
      - intros k1 k2 b c; cbn [a_lookup].
        destruct (N.eqb_spec k1 n) as [->|Hne1]; destruct (N.eqb_spec k2 n) as [->|Hne2];
          try rewrite !a_lookup_remove_other by assumption; intros H1 H2 E.
        + reflexivity.
        + inversion H1; subst b; cbn [b_hdr nb] in E. symmetry. eapply Hsave; eauto.
        + inversion H2; subst c; cbn [b_hdr nb] in E. eapply Hsave; eauto.
        + eauto. }
    constructor; cbn [a_height a_blocks a_state a_meta].
    + intros k. cbn [a_lookup]. destruct (N.eqb_spec k n) as [->|Hne].
      * cbn [option_map b_hdr nb].
        rewrite kv_get_put_other by kneq. rewrite kv_get_put_other by kneq.
        rewrite kv_get_put_other by kneq. rewrite kv_get_put_same. reflexivity.
      * rewrite a_lookup_remove_other by exact Hne.
        rewrite !kv_get_put_other by (kneq). rewrite Hm0_other; [apply Hhdr|]. intros; kneq.
    + intros k. cbn [a_lookup]. destruct (N.eqb_spec k n) as [->|Hne].
      * cbn [option_map b_data nb].
        rewrite kv_get_put_other by kneq. rewrite kv_get_put_other by kneq.
        rewrite kv_get_put_same. reflexivity.
      * rewrite a_lookup_remove_other by exact Hne.
        rewrite !kv_get_put_other by (kneq). rewrite Hm0_other; [apply Hdata|]. intros; kneq.
    + intros k. cbn [a_lookup]. destruct (N.eqb_spec k n) as [->|Hne].
      * cbn [option_map b_sig nb].
        rewrite kv_get_put_other by kneq. rewrite kv_get_put_same. reflexivity.
      * rewrite a_lookup_remove_other by exact Hne.
        rewrite !kv_get_put_other by (kneq). rewrite Hm0_other; [apply Hsig|]. intros; kneq.
    + (* index *)
      intros hash. rewrite by_hash_cons_new; cbn [b_hdr nb].
      destruct (String.eqb_spec (hhash h) hash) as [E|E].
      * subst hash. rewrite kv_get_put_same. reflexivity.
      * rewrite kv_get_put_other by (intro X; apply append_inj_r, hex_inj in X; congruence).
        rewrite !kv_get_put_other by (kneq).
        rewrite by_hash_remove by assumption.
        pose proof (a_by_hash_spec _ hash Hnd Hok) as S.
        unfold m0, stale.
        destruct (a_lookup (a_blocks a) n) as [ob|] eqn:El; cbn [option_map].
        -- destruct (String.eqb_spec (hhash (b_hdr ob)) (hhash h)) as [E2|E2]; cbn [fold_left apply_prim].
           ++ rewrite Hidx. destruct (a_by_hash (a_blocks a) hash) as [b|]; [|reflexivity].
              destruct S as [S1 S2].
              destruct (N.eqb_spec (hheight (b_hdr b)) n) as [En|]; [|reflexivity].
              rewrite En, El in S2; inversion S2; subst; congruence.
           ++ destruct (String.eqb_spec (hhash (b_hdr ob)) hash) as [E3|E3].
              ** subst hash. rewrite kv_get_del_same.
                 destruct (a_by_hash (a_blocks a) (hhash (b_hdr ob))) as [b|]; [|reflexivity].
                 destruct S as [S1 S2]. destruct Hok as [Hh Hu].
                 assert (hheight (b_hdr b) = n) as -> by (eapply Hu; eauto).
                 rewrite N.eqb_refl; reflexivity.
              ** rewrite kv_get_del_other by (intro X; apply append_inj_r, hex_inj in X; congruence).
                 rewrite Hidx. destruct (a_by_hash (a_blocks a) hash) as [b|]; [|reflexivity].
                 destruct S as [S1 S2].
                 destruct (N.eqb_spec (hheight (b_hdr b)) n) as [En|]; [|reflexivity].
                 rewrite En, El in S2; inversion S2; subst; congruence.
        -- cbn [fold_left]. rewrite Hidx. destruct (a_by_hash (a_blocks a) hash) as [b|]; [|reflexivity].
           destruct S as [S1 S2].
           destruct (N.eqb_spec (hheight (b_hdr b)) n) as [En|]; [|reflexivity].
           rewrite En, El in S2; discriminate.
    + rewrite !kv_get_put_other by (kneq). rewrite Hm0_other; [exact Hheight|]. intros; kneq.
    + rewrite !kv_get_put_other by (kneq). rewrite Hm0_other; [exact Hstate|]. intros; kneq.
    + intros k. rewrite !kv_get_put_other by (kneq). rewrite Hm0_other; [apply Hmeta|]. intros; kneq.
    + cbn [heights map fst]. constructor; [apply a_remove_heights | exact Hnd'].
    + exact Hok'.
  - (* OGetBlock *) rewrite Hc_blk; split; [reflexivity | rewrite ?aw_nil; exact HR0].
  - (* OGetByHash *)
    rewrite Hc_idx. pose proof (a_by_hash_spec _ hash Hnd Hok) as S.
    destruct (a_by_hash (a_blocks a) hash) as [b|]; simpl.
    + destruct S as [_ S2]. rewrite Hc_blk, S2. split; [reflexivity | rewrite ?aw_nil; exact HR0].
    + split; [reflexivity | rewrite ?aw_nil; exact HR0].
  - (* OGetHeader *) rewrite Hc_hdr. destruct (a_lookup _ n); simpl; (split; [reflexivity | rewrite ?aw_nil; exact HR0]).
  - (* OGetSig *) rewrite Hc_sig. destruct (a_lookup _ n); simpl; (split; [reflexivity | rewrite ?aw_nil; exact HR0]).
  - (* OGetSigByHash *)
    rewrite Hc_idx. pose proof (a_by_hash_spec _ hash Hnd Hok) as S.
    destruct (a_by_hash (a_blocks a) hash) as [b|]; simpl.
    + destruct S as [_ S2]. rewrite Hc_sig, S2. split; [reflexivity | rewrite ?aw_nil; exact HR0].
    + split; [reflexivity | rewrite ?aw_nil; exact HR0].
  - (* OUpdState *)
    split; [reflexivity|]. rewrite aw_put.
    constructor; cbn [a_height a_blocks a_state a_meta]; auto; intros;
      try (rewrite kv_get_put_other by kneq; auto).
  - (* OGetState *) rewrite Hstate. destruct (a_state a); simpl; (split; [reflexivity | rewrite ?aw_nil; exact HR0]).
  - (* OSetMeta *)
    split; [reflexivity|]. rewrite aw_put.
    constructor; cbn [a_height a_blocks a_state a_meta]; auto; intros;
      try (rewrite kv_get_put_other by kneq; auto).
    cbn [a_meta_get].
    destruct (String.eqb_spec k0 k) as [->|Hne].
    + rewrite kv_get_put_same; reflexivity.
    + rewrite kv_get_put_other; [apply Hmeta|]. intro X; apply append_inj_r in X; congruence.
  - (* OGetMeta *) rewrite Hmeta. destruct (a_meta_get _ k); simpl; (split; [reflexivity | rewrite ?aw_nil; exact HR0]).
Qed.

(* ---- histories ------------------------------------------------------------------------------ *)
Definition consistent (l : list hdr) : Prop :=
  forall x y, In x l -> In y l -> hhash x = hhash y -> hheight x = hheight y.

Lemma hash_consistentb_sound l : hash_consistentb l = true -> consistent l.
Proof.
  unfold hash_consistentb, consistent; intros H x y Hx Hy E.
  rewrite forallb_forall in H. specialize (H x Hx). rewrite forallb_forall in H. specialize (H y Hy).
  apply orb_true_iff in H as [H|H].
  - apply negb_true_iff, String.eqb_neq in H; contradiction.
  - apply N.eqb_eq, H.
Qed.

(* the current blocks were all saved earlier *)
Definition from_past (a : spec) (past : list hdr) : Prop :=
  forall n b, a_lookup (a_blocks a) n = Some b -> In (b_hdr b) past.

Lemma save_ok_of_consistent a past h :
  blocks_ok (a_blocks a) -> from_past a past -> consistent (h :: past) -> save_ok a h.
Proof.
  intros [Hh _] Hp Hc m c Hl E.
  rewrite <- (Hh _ _ Hl). apply Hc; [right; eapply Hp; eauto | left; reflexivity | exact E].
Qed.

Lemma from_past_step a past o :
  from_past a past -> from_past (fst (a_step a o)) (op_saves o ++ past).
Proof.
  intros Hp. destruct o; cbn [a_step fst op_saves app]; try exact Hp.
  intros n b; cbn [a_blocks a_lookup].
  destruct (N.eqb_spec n (hheight h)) as [->|Hne].
  - intros E; inversion E; left; reflexivity.
  - rewrite a_lookup_remove_other by exact Hne. intros Hl; right; eapply Hp; eauto.
Qed.

Lemma from_past_weaken a p q : from_past a p -> (forall x, In x p -> In x q) -> from_past a q.
Proof. intros H Hi n b Hl; apply Hi; eapply H; eauto. Qed.

Definition item_saves (i : item) : list hdr :=
  match item_op i with Some o => op_saves o | None => [] end.

Lemma saves_cons i h : saves (i :: h) = item_saves i ++ saves h.
Proof. reflexivity. Qed.

Lemma consistent_sub l l' : consistent l -> (forall x, In x l' -> In x l) -> consistent l'.
Proof. intros H Hs x y Hx Hy; apply H; auto. Qed.

Lemma run_cons m i h :
  run m (i :: h) = (fst (run (fst (istep m i)) h), snd (istep m i) :: snd (run (fst (istep m i)) h)).
Proof.
  cbn [run]. destruct (istep m i) as [m' o]. cbn [fst snd]. destruct (run m' h) as [m'' os]. reflexivity.
Qed.

(* every operation makes at most one atomic write *)
Lemma step_writes_le1 m o : length (fst (step m o)) <= 1.
Proof.
  destruct o; cbn [step fst]; try (cbn; lia).
  destruct (c_height m); [destruct (n <=? n0)%N|]; cbn; lia.
Qed.

(* the specification charges an operation with exactly the writes the store makes *)
Lemma R_writes m a o : R m a -> length (fst (step m o)) = a_writes a o.
Proof.
  intros HR. destruct o; cbn [step fst a_writes]; try reflexivity.
  assert (Hc : c_height m = Some (a_height a)).
  { unfold c_height; rewrite (R_height _ _ HR). destruct (N.eqb_spec (a_height a) 0) as [->|]; reflexivity. }
  rewrite Hc. destruct (n <=? a_height a)%N; reflexivity.
Qed.

(* a write fault that is met: nothing is written, the result is an error *)
Lemma fault_step_hit m o k :
  k < length (fst (step m o)) -> fault_step m o k = ([], RErr).
Proof.
  intros Hk. pose proof (step_writes_le1 m o) as Hl. unfold fault_step.
  destruct (step m o) as [ws r]; cbn [fst] in *.
  destruct (Nat.ltb_spec k (length ws)); [|lia].
  assert (k = 0%nat) as -> by lia. reflexivity.
Qed.

(* a write fault that is not met: the operation runs as usual *)
Lemma fault_step_miss m o k :
  length (fst (step m o)) <= k -> fault_step m o k = step m o.
Proof.
  intros Hk. unfold fault_step. destruct (step m o) as [ws r]; cbn [fst] in *.
  destruct (Nat.ltb_spec k (length ws)); [lia | reflexivity].
Qed.

(* the main refinement statement, from any related pair of states *)
Lemma refines_from (h : list item) : forall m a past,
  R m a -> from_past a past -> consistent (saves h ++ past) ->
  exists happened,
    snd (run m h) = snd (a_run a h happened) /\
    R (fst (run m h)) (fst (a_run a h happened)).
Proof.
  induction h as [|i h IH]; intros m a past HR Hp Hc.
  - exists []; split; [reflexivity | exact HR].
  - rewrite saves_cons, <- app_assoc in Hc.
    destruct i as [o| |o k|o k].
    + (* IOp *)
      assert (Hs : forall hd d s, o = OSave hd d s -> save_ok a hd).
      { intros hd d s ->. eapply save_ok_of_consistent; [apply HR | exact Hp |].
        eapply consistent_sub; [exact Hc|]. cbn [item_saves item_op op_saves app].
        intros x [<-|Hx]; [left; reflexivity | right; apply in_or_app; right; exact Hx]. }
      destruct (R_step m a o HR Hs) as [Ho HR'].
      destruct (IH (apply_writes m (fst (step m o))) (fst (a_step a o)) (op_saves o ++ past) HR') as [hp [E1 E2]].
      * apply from_past_step, Hp.
      * eapply consistent_sub; [exact Hc|]. cbn [item_saves item_op].
        intros x Hx. apply in_app_or in Hx as [Hx|Hx]; [apply in_or_app; right; apply in_or_app; left; exact Hx|].
        apply in_app_or in Hx as [Hx|Hx]; [apply in_or_app; left; exact Hx | apply in_or_app; right; apply in_or_app; right; exact Hx].
      * exists hp. rewrite run_cons. cbn [istep a_run].
        destruct (step m o) as [ws r] eqn:Es. cbn [fst snd] in *.
        destruct (a_step a o) as [a' x] eqn:Ea. cbn [fst snd] in *.
        destruct (a_run a' h hp) as [a'' os]. cbn [fst snd] in *.
        split; [rewrite E1, Ho; reflexivity | exact E2].
    + (* IReopen *)
      destruct (IH m a past HR Hp) as [hp [E1 E2]].
      * eapply consistent_sub; [exact Hc|]. intros x Hx; exact Hx.
      * exists hp. rewrite run_cons. cbn [istep a_run fst snd].
        destruct (a_run a h hp) as [a'' os]. cbn [fst snd] in *.
        split; [rewrite E1; reflexivity | exact E2].
    + (* ICrash: every step has at most one atomic write *)
      assert (Hs : forall hd d s, o = OSave hd d s -> save_ok a hd).
      { intros hd d s ->. eapply save_ok_of_consistent; [apply HR | exact Hp |].
        eapply consistent_sub; [exact Hc|]. cbn [item_saves item_op op_saves app].
        intros x [<-|Hx]; [left; reflexivity | right; apply in_or_app; right; exact Hx]. }
      destruct (R_step m a o HR Hs) as [_ HR'].
      assert (Hlen : length (fst (step m o)) <= 1) by apply step_writes_le1.
      destruct (crash_single m (fst (step m o)) k Hlen) as [Ec|Ec].
      * (* nothing happened *)
        destruct (IH m a past HR Hp) as [hp [E1 E2]].
        { eapply consistent_sub; [exact Hc|]. intros x Hx; apply in_or_app; right; exact Hx. }
        exists (false :: hp). rewrite run_cons. cbn [istep a_run fst snd]. rewrite Ec.
        destruct (a_run a h hp) as [a'' os]. cbn [fst snd] in *.
        split; [rewrite E1; reflexivity | exact E2].
      * (* it happened entirely *)
        destruct (IH (apply_writes m (fst (step m o))) (fst (a_step a o)) (op_saves o ++ past) HR') as [hp [E1 E2]].
        { apply from_past_step, Hp. }
        { eapply consistent_sub; [exact Hc|]. cbn [item_saves item_op].
          intros x Hx. apply in_app_or in Hx as [Hx|Hx]; [apply in_or_app; right; apply in_or_app; left; exact Hx|].
          apply in_app_or in Hx as [Hx|Hx]; [apply in_or_app; left; exact Hx | apply in_or_app; right; apply in_or_app; right; exact Hx]. }
        exists (true :: hp). rewrite run_cons. cbn [istep a_run fst snd]. rewrite Ec.
        destruct (a_run (fst (a_step a o)) h hp) as [a'' os]. cbn [fst snd] in *.
        split; [rewrite E1; reflexivity | exact E2].
    + (* IFault: met = nothing written, error, the specification state is unchanged; not met = an ordinary operation *)
      pose proof (R_writes m a o HR) as Hw.
      destruct (Nat.ltb_spec k (length (fst (step m o)))) as [Hhit|Hmiss].
      * destruct (IH m a past HR Hp) as [hp [E1 E2]].
        { eapply consistent_sub; [exact Hc|]. intros x Hx; apply in_or_app; right; exact Hx. }
        exists hp. rewrite run_cons. cbn [istep a_run]. unfold a_fault_step.
        rewrite (fault_step_hit m o k Hhit). rewrite <- Hw.
        destruct (Nat.ltb_spec k (length (fst (step m o)))); [|lia].
        cbn [fst snd]. rewrite aw_nil.
        destruct (a_run a h hp) as [a'' os]. cbn [fst snd] in *.
        split; [rewrite E1; reflexivity | exact E2].
      * assert (Hs : forall hd d s, o = OSave hd d s -> save_ok a hd).
        { intros hd d s ->. eapply save_ok_of_consistent; [apply HR | exact Hp |].
          eapply consistent_sub; [exact Hc|]. cbn [item_saves item_op op_saves app].
          intros x [<-|Hx]; [left; reflexivity | right; apply in_or_app; right; exact Hx]. }
        destruct (R_step m a o HR Hs) as [Ho HR'].
        destruct (IH (apply_writes m (fst (step m o))) (fst (a_step a o)) (op_saves o ++ past) HR') as [hp [E1 E2]].
        { apply from_past_step, Hp. }
        { eapply consistent_sub; [exact Hc|]. cbn [item_saves item_op].
          intros x Hx. apply in_app_or in Hx as [Hx|Hx]; [apply in_or_app; right; apply in_or_app; left; exact Hx|].
          apply in_app_or in Hx as [Hx|Hx]; [apply in_or_app; left; exact Hx | apply in_or_app; right; apply in_or_app; right; exact Hx]. }
        exists hp. rewrite run_cons. cbn [istep a_run]. unfold a_fault_step.
        rewrite (fault_step_miss m o k Hmiss). rewrite <- Hw.
        destruct (Nat.ltb_spec k (length (fst (step m o)))); [lia|].
        destruct (step m o) as [ws r] eqn:Es. cbn [fst snd] in *.
        destruct (a_step a o) as [a' x] eqn:Ea. cbn [fst snd] in *.
        destruct (a_run a' h hp) as [a'' os]. cbn [fst snd] in *.
        split; [rewrite E1, Ho; reflexivity | exact E2].
Qed.

Theorem store_refines (h : list item) :
  hash_consistentb (saves h) = true ->
  exists happened,
    outputs h = snd (a_run a_init h happened) /\
    R (final h) (fst (a_run a_init h happened)).
Proof.
  intros Hc. unfold outputs, final.
  apply (refines_from h [] a_init []); [exact R_init | intros n b; discriminate |].
  rewrite app_nil_r. apply hash_consistentb_sound, Hc.
Qed.

(* the recorded height only grows, whatever happens *)
Lemma a_step_height a o : (a_height a <= a_height (fst (a_step a o)))%N.
Proof. destruct o; cbn [a_step fst a_height]; lia. Qed.

Lemma a_run_height h : forall a hp, (a_height a <= a_height (fst (a_run a h hp)))%N.
Proof.
  induction h as [|i h IH]; intros a hp; cbn [a_run fst]; [lia|].
  destruct i as [o| |o k|o k].
  - destruct (a_step a o) as [a' x] eqn:E. specialize (IH a' hp).
    destruct (a_run a' h hp) as [a'' os]; cbn [fst] in *.
    pose proof (a_step_height a o) as H; rewrite E in H; cbn [fst] in H. lia.
  - specialize (IH a hp). destruct (a_run a h hp); cbn [fst] in *; exact IH.
  - destruct hp as [|b hp].
    + specialize (IH a []). destruct (a_run a h []); cbn [fst] in *; exact IH.
    + destruct b.
      * specialize (IH (fst (a_step a o)) hp). pose proof (a_step_height a o).
        destruct (a_run (fst (a_step a o)) h hp); cbn [fst] in *; lia.
      * specialize (IH a hp). destruct (a_run a h hp); cbn [fst] in *; exact IH.
  - destruct (a_fault_step a o k) as [a' x] eqn:E. specialize (IH a' hp).
    destruct (a_run a' h hp) as [a'' os]; cbn [fst] in *.
    assert (a_height a <= a_height a')%N; [|lia].
    unfold a_fault_step in E. destruct (k <? a_writes a o)%nat.
    + inversion E; subst; lia.
    + pose proof (a_step_height a o) as H; rewrite E in H; exact H.
Qed.

(* concrete reading: Height() never returns less than before, whatever the history does *)
Definition prim_key (p : prim sval) : string := match p with Put k _ => k | Del k => k end.
Definition write_keys (w : wr) : list string :=
  match w with W1 p => [prim_key p] | WBatch ps => map prim_key ps end.

Lemma apply_prims_other (ps : list (prim sval)) : forall (m : img) k,
  ~ In k (map prim_key ps) -> kv_get (fold_left apply_prim ps m) k = kv_get m k.
Proof.
  induction ps as [|p ps IH]; intros m k Hn; [reflexivity|].
  cbn [fold_left]. rewrite IH by (intros X; apply Hn; right; exact X).
  destruct p; cbn [apply_prim]; [apply kv_get_put_other | apply kv_get_del_other];
    intros ->; apply Hn; left; reflexivity.
Qed.

Lemma apply_writes_other (ws : list wr) : forall (m : img) k,
  ~ In k (flat_map write_keys ws) -> kv_get (apply_writes m ws) k = kv_get m k.
Proof.
  induction ws as [|w ws IH]; intros m k Hn; [reflexivity|].
  unfold apply_writes in *; cbn [fold_left]. rewrite IH.
  - destruct w as [p|ps]; cbn [apply_write].
    + apply (apply_prims_other [p]). intros X; apply Hn; cbn [flat_map]; apply in_or_app; left; exact X.
    + apply apply_prims_other. intros X; apply Hn; cbn [flat_map]; apply in_or_app; left; exact X.
  - intros X; apply Hn; cbn [flat_map]; apply in_or_app; right; exact X.
Qed.

Lemma save_prims_keys m h d s : ~ In height_key (map prim_key (save_prims m h d s)).
Proof.
  unfold save_prims. rewrite map_app. intros X. apply in_app_or in X as [X|X].
  - destruct (c_get_header m (hheight h)) as [old|]; [|contradiction].
    destruct (String.eqb _ _); [contradiction|]. destruct X as [X|[]]. revert X. kneq.
  - cbn [map prim_key] in X.
    destruct X as [X|[X|[X|[X|[]]]]]; revert X; kneq.
Qed.

Lemma firstn_flat_in {A B} (f : A -> list B) k (l : list A) x :
  In x (flat_map f (firstn k l)) -> In x (flat_map f l).
Proof.
  intros H. apply in_flat_map in H as [y [Hy Hx]]. apply in_flat_map. exists y; split; [|exact Hx].
  rewrite <- (firstn_skipn k l). apply in_or_app; left; exact Hy.
Qed.

Lemma c_height_prefix m o k n :
  c_height m = Some n ->
  exists n', c_height (apply_writes m (firstn k (fst (step m o)))) = Some n' /\ (n <= n')%N.
Proof.
  intros Hh.
  assert (Hsame : forall ws, ~ In height_key (flat_map write_keys ws) ->
                             c_height (apply_writes m (firstn k ws)) = Some n).
  { intros ws Hn. unfold c_height. rewrite apply_writes_other; [exact Hh|].
    intros X; apply Hn. eapply firstn_flat_in; exact X. }
  destruct o; cbn [step fst];
    try (exists n; split; [|lia]; apply Hsame; cbn; try tauto; fail).
  - (* OSetHeight *)
    rewrite Hh. destruct (N.leb_spec n0 n) as [Hle|Hlt].
    + exists n; split; [apply Hsame; cbn; tauto | lia].
    + destruct k as [|k].
      * exists n; split; [exact Hh | lia].
      * exists n0; split; [|lia]. cbn [firstn fst]. rewrite firstn_nil.
        unfold c_height. rewrite aw_put, kv_get_put_same. reflexivity.
  - (* OSave *)
    exists n; split; [|lia]. apply Hsame. cbn [flat_map write_keys]. rewrite app_nil_r. apply save_prims_keys.
  - (* OUpdState *) exists n; split; [|lia]. apply Hsame. cbn. intros [X|[]]; revert X; kneq.
  - (* OSetMeta *) exists n; split; [|lia]. apply Hsame. cbn. intros [X|[]]; revert X; kneq.
Qed.

Lemma c_height_istep m i n :
  c_height m = Some n -> exists n', c_height (fst (istep m i)) = Some n' /\ (n <= n')%N.
Proof.
  intros Hh. destruct i as [o| |o k|o k]; cbn [istep].
  - destruct (step m o) as [ws r] eqn:E. cbn [fst].
    destruct (c_height_prefix m o (length ws) n Hh) as [n' [H1 H2]].
    rewrite E in H1; cbn [fst] in H1. rewrite firstn_all in H1. eauto.
  - exists n; split; [exact Hh | lia].
  - cbn [fst]. unfold crash_after. apply c_height_prefix, Hh.
  - (* IFault: what is written is a prefix of the operation's writes *)
    unfold fault_step. destruct (step m o) as [ws r] eqn:E.
    destruct (k <? length ws)%nat; cbn [fst].
    + pose proof (c_height_prefix m o k n Hh) as H. rewrite E in H; exact H.
    + destruct (c_height_prefix m o (length ws) n Hh) as [n' [H1 H2]].
      rewrite E in H1; cbn [fst] in H1. rewrite firstn_all in H1. eauto.
Qed.

Lemma c_height_run h : forall m n,
  c_height m = Some n -> exists n', c_height (fst (run m h)) = Some n' /\ (n <= n')%N.
Proof.
  induction h as [|i h IH]; intros m n Hh; [exists n; split; [exact Hh | lia]|].
  rewrite run_cons; cbn [fst].
  destruct (c_height_istep m i n Hh) as [n1 [H1 L1]].
  destruct (IH _ _ H1) as [n2 [H2 L2]]. exists n2; split; [exact H2 | lia].
Qed.

Lemma run_app h1 h2 : forall m, fst (run m (h1 ++ h2)) = fst (run (fst (run m h1)) h2).
Proof.
  induction h1 as [|i h1 IH]; intros m; [reflexivity|].
  rewrite <- app_comm_cons, !run_cons; cbn [fst]. apply IH.
Qed.

Theorem height_monotone (h1 h2 : list item) :
  exists n1 n2, c_height (final h1) = Some n1 /\ c_height (final (h1 ++ h2)) = Some n2 /\ (n1 <= n2)%N.
Proof.
  destruct (c_height_run h1 [] 0%N eq_refl) as [n1 [H1 _]].
  destruct (c_height_run h2 _ _ H1) as [n2 [H2 L]].
  exists n1, n2. unfold final. rewrite run_app. auto.
Qed.

(* a read by hash returns the block currently stored at its height, and that block has the hash asked for *)
Theorem by_hash_sound (h : list item) (hash : string) :
  hash_consistentb (saves h) = true ->
  match snd (step (final h) (OGetByHash hash)) with
  | RBlock hd d => hhash hd = hash /\ snd (step (final h) (OGetBlock (hheight hd))) = RBlock hd d
  | RErr => forall n hd d, snd (step (final h) (OGetBlock n)) = RBlock hd d -> hhash hd <> hash
  | _ => False
  end.
Proof.
  intros Hc. destruct (store_refines h Hc) as [hp [_ HR]].
  set (a := fst (a_run a_init h hp)) in *.
  destruct (R_step _ _ (OGetByHash hash) HR ltac:(intros ? ? ? X; discriminate X)) as [E _]. rewrite E. cbn [a_step snd].
  pose proof (a_by_hash_spec _ hash (R_nodup _ _ HR) (R_ok _ _ HR)) as S.
  destruct (a_by_hash (a_blocks a) hash) as [b|].
  - destruct S as [S1 S2]. split; [exact S1|].
    destruct (R_step _ _ (OGetBlock (hheight (b_hdr b))) HR ltac:(intros ? ? ? X; discriminate X)) as [E' _]. rewrite E'. cbn [a_step snd].
    rewrite S2; reflexivity.
  - intros n hd d. destruct (R_step _ _ (OGetBlock n) HR ltac:(intros ? ? ? X; discriminate X)) as [E' _]. rewrite E'. cbn [a_step snd].
    destruct (a_lookup (a_blocks a) n) as [b|] eqn:El; [|discriminate].
    intros X; inversion X; subst. eapply S; eauto.
Qed.

(* a block save is one atomic write: under a crash it happened entirely or not at all *)
Theorem save_atomic (m : img) hd d s k :
  crash_after k m (fst (step m (OSave hd d s))) = m \/
  crash_after k m (fst (step m (OSave hd d s))) = apply_writes m (fst (step m (OSave hd d s))).
Proof. apply crash_single. cbn; auto. Qed.

(* ---- transient write faults ------------------------------------------------------------------- *)
(* a write fault that is met: the operation returns an error and the database is exactly what it was *)
Theorem fault_no_effect (m : img) (o : op) (k : nat) :
  k < length (fst (step m o)) -> istep m (IFault o k) = (m, Some RErr).
Proof. intros Hk. cbn [istep]. rewrite (fault_step_hit m o k Hk). reflexivity. Qed.

(* a write fault that is not met (the operation makes fewer write attempts): an ordinary operation *)
Theorem fault_not_met (m : img) (o : op) (k : nat) :
  length (fst (step m o)) <= k -> istep m (IFault o k) = istep m (IOp o).
Proof. intros Hk. cbn [istep]. rewrite (fault_step_miss m o k Hk). reflexivity. Qed.

Lemma setheight_written m n cur :
  c_height m = Some cur ->
  snd (step m (OSetHeight n)) = RUnit /\
  exists n', c_height (apply_writes m (fst (step m (OSetHeight n)))) = Some n' /\ (n <= n')%N.
Proof.
  intros Hh. cbn [step]. rewrite Hh. destruct (N.leb_spec n cur) as [Hle|Hlt]; cbn [fst snd].
  - split; [reflexivity|]. exists cur; split; [exact Hh | exact Hle].
  - split; [reflexivity|]. exists n; split; [|lia].
    unfold c_height. rewrite aw_put, kv_get_put_same. reflexivity.
Qed.

(* an ACKNOWLEDGED SetHeight is durable: if SetHeight(n) returned without error - as a plain operation or with a write
   fault armed that it did not meet - then after ANY continuation (operations, reopenings, crashes, further faults) the
   recorded height is at least n *)
Theorem acked_height_durable (h1 : list item) (i : item) (h2 : list item) (n : N) :
  item_op i = Some (OSetHeight n) -> snd (istep (final h1) i) = Some RUnit ->
  exists n', c_height (final (h1 ++ i :: h2)) = Some n' /\ (n <= n')%N.
Proof.
  intros Hi Hack.
  destruct (c_height_run h1 [] 0%N eq_refl) as [cur [Hcur _]]. fold (final h1) in Hcur.
  assert (Hstep : exists n1, c_height (fst (istep (final h1) i)) = Some n1 /\ (n <= n1)%N).
  { destruct (setheight_written (final h1) n cur Hcur) as [Hr Hw].
    destruct i as [o| |o k|o k]; cbn [item_op] in Hi; try discriminate Hi; inversion Hi; subst o.
    - cbn [istep]. destruct (step (final h1) (OSetHeight n)) as [ws r]; cbn [fst snd] in *. exact Hw.
    - cbn [istep snd] in Hack. discriminate Hack.
    - destruct (Nat.ltb_spec k (length (fst (step (final h1) (OSetHeight n))))) as [Hhit|Hmiss].
      + rewrite (fault_no_effect _ _ _ Hhit) in Hack. cbn [snd] in Hack. discriminate Hack.
      + rewrite (fault_not_met _ _ _ Hmiss). cbn [istep].
        destruct (step (final h1) (OSetHeight n)) as [ws r]; cbn [fst snd] in *. exact Hw. }
  destruct Hstep as [n1 [H1 L1]].
  destruct (c_height_run h2 _ _ H1) as [n2 [H2 L2]].
  exists n2. split; [|lia].
  unfold final. rewrite run_app. rewrite run_cons. cbn [fst]. exact H2.
Qed.

(* a REPORTED height is durable: whatever Height() returned is never lost by any continuation *)
Theorem reported_height_durable (h1 h2 : list item) (n : N) :
  snd (step (final h1) OHeight) = RHeight n ->
  exists n', c_height (final (h1 ++ h2)) = Some n' /\ (n <= n')%N.
Proof.
  intros Hr. destruct (height_monotone h1 h2) as [n1 [n2 [H1 [H2 L]]]].
  cbn [step snd] in Hr. rewrite H1 in Hr. inversion Hr; subst. eauto.
Qed.

(* ---- SetHeight: never lowers, always raises; the height record as bytes ------------------------- *)
(* one SetHeight from ANY image with a readable height: it returns without error and the recorded height afterwards
   is the maximum of the old height and the argument - never lower than before, never lower than what was asked *)
Theorem set_height_max (m : img) (n cur : N) :
  c_height m = Some cur ->
  snd (istep m (IOp (OSetHeight n))) = Some RUnit /\
  c_height (fst (istep m (IOp (OSetHeight n)))) = Some (N.max cur n).
Proof.
  intros Hh. cbn [istep step]. rewrite Hh.
  destruct (N.leb_spec n cur) as [Hle|Hlt]; cbn [fst snd].
  - split; [reflexivity|]. rewrite aw_nil, Hh. f_equal. lia.
  - split; [reflexivity|]. unfold c_height. rewrite aw_put, kv_get_put_same. f_equal. lia.
Qed.

Lemma outputs_app h1 h2 : forall m,
  snd (run m (h1 ++ h2)) = snd (run m h1) ++ snd (run (fst (run m h1)) h2).
Proof.
  induction h1 as [|i h1 IH]; intros m; [reflexivity|].
  rewrite <- app_comm_cons, !run_cons; cbn [fst snd]. rewrite IH. reflexivity.
Qed.

(* the same over histories: after ANY history (operations, reopenings, crashes, write faults) Height() reports some
   cur, and SetHeight(n) followed by Height() returns no error and reports max cur n *)
Theorem set_height_then_height (h : list item) (n : N) :
  exists cur, snd (step (final h) OHeight) = RHeight cur /\
    outputs (h ++ [IOp (OSetHeight n); IOp OHeight]) = outputs h ++ [Some RUnit; Some (RHeight (N.max cur n))].
Proof.
  destruct (c_height_run h [] 0%N eq_refl) as [cur [Hcur _]]. fold (final h) in Hcur.
  exists cur. split; [cbn [step snd]; rewrite Hcur; reflexivity|].
  unfold outputs. rewrite outputs_app. f_equal. fold (final h).
  destruct (set_height_max (final h) n cur Hcur) as [Hr Hm].
  rewrite run_cons, Hr. f_equal.
  rewrite run_cons. cbn [run snd]. f_equal.
  set (m1 := fst (istep (final h) (IOp (OSetHeight n)))) in *.
  cbn [istep step fst snd]. rewrite Hm. reflexivity.
Qed.

(* the 8-byte little-endian record: decoding an encoded height gives the height back, for every uint64 *)
Lemma le_bytes_length k : forall n, length (le_bytes k n) = k.
Proof. induction k as [|k IH]; intros n; cbn [le_bytes length]; [reflexivity | rewrite IH; reflexivity]. Qed.

Lemma le_value_bytes k : forall n, le_value (le_bytes k n) = (n mod 256 ^ N.of_nat k)%N.
Proof.
  induction k as [|k IH]; intros n.
  - cbn [le_bytes le_value]. change (256 ^ N.of_nat 0)%N with 1%N. rewrite N.mod_1_r. reflexivity.
  - cbn [le_bytes le_value]. rewrite IH, Nat2N.inj_succ, N.pow_succ_r'.
    rewrite N.mod_mul_r; [reflexivity | lia | apply N.pow_nonzero; lia].
Qed.

Theorem height_codec (n : N) : (n < 2 ^ 64)%N -> dec_height (enc_height n) = Some n.
Proof.
  intros Hn. unfold dec_height, enc_height. rewrite le_bytes_length, Nat.eqb_refl, le_value_bytes.
  f_equal. apply N.mod_small. exact Hn.
Qed.

(* hence the encoding is injective on uint64: different heights are different records *)
Theorem enc_height_inj (a b : N) : (a < 2 ^ 64)%N -> (b < 2 ^ 64)%N -> enc_height a = enc_height b -> a = b.
Proof.
  intros Ha Hb E. pose proof (height_codec a Ha) as Da. rewrite E, (height_codec b Hb) in Da. inversion Da; reflexivity.
Qed.

(* ---- SaveBlockData is ONE atomic write, whatever the block -------------------------------------- *)
(* for every image, header, data and signature (the model does not look at the data, so: whatever its size) the save
   is exactly one batch, and header, data, signature record and hash index are all in that batch *)
Theorem save_one_batch (m : img) hd d s :
  exists ps, fst (step m (OSave hd d s)) = [WBatch ps] /\
    In (Put (header_key (hheight hd)) (VHeader hd)) ps /\ In (Put (data_key (hheight hd)) (VData d)) ps /\
    In (Put (sig_key (hheight hd)) (VSig s)) ps /\ In (Put (index_key (hhash hd)) (VHeight (hheight hd))) ps.
Proof.
  exists (save_prims m hd d s). split; [reflexivity|]. unfold save_prims.
  repeat split; apply in_or_app; right; cbn [In]; tauto.
Qed.

(* ---- key normalisation and the hash index ------------------------------------------------------------ *)
(* a text without '/' is not cut *)
Lemma split_plain s : plain_text s = true -> split_slash s = [s].
Proof.
  induction s as [|c s IH]; cbn [plain_text split_slash]; [reflexivity|].
  intros H. apply andb_true_iff in H as [H Hs]. apply andb_true_iff in H as [Hc _].
  apply negb_true_iff in Hc. rewrite Hc, (IH Hs). reflexivity.
Qed.

Lemma one_element_not_dots s : one_element s = true ->
  String.eqb s "" = false /\ String.eqb s "." = false /\ String.eqb s ".." = false.
Proof.
  unfold one_element. intros H. apply andb_true_iff in H as [H0 Hp]. apply negb_true_iff in H0.
  split; [exact H0|].
  destruct s as [|c s]; [discriminate H0|]. cbn [plain_text] in Hp.
  apply andb_true_iff in Hp as [Hp _]. apply andb_true_iff in Hp as [_ Hd]. apply negb_true_iff in Hd.
  split; cbn [String.eqb]; rewrite Hd; reflexivity.
Qed.

(* normalisation does not touch "/i/" ++ text when the text is one clean element *)
Lemma index_text_key_normal t : one_element t = true -> index_text_key t = ("/i/" ++ t)%string.
Proof.
  intros H. destruct (one_element_not_dots t H) as [E0 [E1 E2]].
  unfold one_element in H. apply andb_true_iff in H as [_ Hp].
  unfold index_text_key, key_clean. cbn [append split_slash Ascii.eqb Bool.eqb].
  rewrite (split_plain t Hp). cbn [fold_left clean_step String.eqb Ascii.eqb Bool.eqb orb tl].
  unfold clean_step. rewrite E0, E1, E2. cbn [orb rev app join_path fold_left append]. reflexivity.
Qed.

(* hence: whatever textual form [enc] of a hash the index key is built from - if it is injective and always ONE clean
   element, the normalised keys of two different hashes differ *)
Lemma index_text_key_inj (enc : string -> string) :
  (forall a b, enc a = enc b -> a = b) -> (forall a, one_element (enc a) = true) ->
  forall a b, index_text_key (enc a) = index_text_key (enc b) -> a = b.
Proof.
  intros Hinj Hone a b E. rewrite !index_text_key_normal in E by apply Hone.
  apply Hinj. eapply append_inj_r; exact E.
Qed.

(* the hex text of a hash has neither '/' nor '.' in it *)
Lemma hexdigit_plain b3 b2 b1 b0 :
  Ascii.eqb (hexdigit b3 b2 b1 b0) "/"%char = false /\ Ascii.eqb (hexdigit b3 b2 b1 b0) "."%char = false.
Proof. destruct b3, b2, b1, b0; split; reflexivity. Qed.

Lemma hex_plain h : plain_text (hex h) = true.
Proof.
  induction h as [|a h IH]; [reflexivity|].
  destruct a as [a0 a1 a2 a3 a4 a5 a6 a7]. cbn [hex hex_hi hex_lo plain_text].
  destruct (hexdigit_plain a7 a6 a5 a4) as [-> ->], (hexdigit_plain a3 a2 a1 a0) as [-> ->].
  cbn [negb andb]. exact IH.
Qed.

Lemma hex_one_element h : h <> "" -> one_element (hex h) = true.
Proof.
  intros Hne. unfold one_element. rewrite hex_plain, andb_true_r.
  destruct h as [|a h]; [congruence|]. reflexivity.
Qed.

(* the index key of a (non-empty) hash is a fixed point of the normalisation: what GenerateKey / ds.NewKey hand to the
   database IS "/i/" ++ hex hash *)
Theorem index_key_normal h : h <> "" -> index_text_key (hex h) = index_key h.
Proof. intros Hne. apply index_text_key_normal, hex_one_element, Hne. Qed.

(* and for ALL hashes (the empty one included: its key is "/i"), normalisation identifies no two of them *)
Theorem index_key_clean_inj a b : index_text_key (hex a) = index_text_key (hex b) -> a = b.
Proof.
  destruct a as [|x a], b as [|y b]; [reflexivity | | |].
  - rewrite (index_key_normal (String y b)) by discriminate.
    destruct y as [y0 y1 y2 y3 y4 y5 y6 y7]. vm_compute. intros E; discriminate E.
  - rewrite (index_key_normal (String x a)) by discriminate.
    destruct x as [x0 x1 x2 x3 x4 x5 x6 x7]. vm_compute. intros E; discriminate E.
  - rewrite !index_key_normal by discriminate. unfold index_key. intros E.
    apply hex_inj. eapply append_inj_r; exact E.
Qed.

(* ---- reads by a hash that was never handed to SaveBlockData ------------------------------------------- *)
Lemma a_run_from_past h : forall a past hp,
  from_past a past -> from_past (fst (a_run a h hp)) (saves h ++ past).
Proof.
  induction h as [|i h IH]; intros a past hp Hp; [exact Hp|].
  rewrite saves_cons.
  assert (Hw : forall a', from_past a' (item_saves i ++ past) ->
                          forall hp', from_past (fst (a_run a' h hp')) ((item_saves i ++ saves h) ++ past)).
  { intros a' Ha' hp'. eapply from_past_weaken; [apply (IH a' (item_saves i ++ past) hp' Ha')|].
    intros x Hx. apply in_app_or in Hx as [Hx|Hx]; [apply in_or_app; left; apply in_or_app; right; exact Hx|].
    apply in_app_or in Hx as [Hx|Hx]; [apply in_or_app; left; apply in_or_app; left; exact Hx | apply in_or_app; right; exact Hx]. }
  assert (Hkeep : from_past a (item_saves i ++ past)).
  { eapply from_past_weaken; [exact Hp|]. intros x Hx; apply in_or_app; right; exact Hx. }
  destruct i as [o| |o k|o k]; cbn [a_run].
  - pose proof (from_past_step a past o Hp) as Hs.
    destruct (a_step a o) as [a' x] eqn:Ea. cbn [fst] in Hs.
    specialize (Hw a' Hs hp). destruct (a_run a' h hp) as [a'' os]. exact Hw.
  - specialize (Hw a Hkeep hp). destruct (a_run a h hp) as [a'' os]. exact Hw.
  - destruct hp as [|b hp].
    + specialize (Hw a Hkeep []). destruct (a_run a h []) as [a'' os]. exact Hw.
    + destruct b.
      * specialize (Hw (fst (a_step a o)) (from_past_step a past o Hp) hp).
        destruct (a_run (fst (a_step a o)) h hp) as [a'' os]. exact Hw.
      * specialize (Hw a Hkeep hp). destruct (a_run a h hp) as [a'' os]. exact Hw.
  - unfold a_fault_step. destruct (k <? a_writes a o)%nat.
    + specialize (Hw a Hkeep hp). destruct (a_run a h hp) as [a'' os]. exact Hw.
    + pose proof (from_past_step a past o Hp) as Hs.
      destruct (a_step a o) as [a' x] eqn:Ea. cbn [fst] in Hs.
      specialize (Hw a' Hs hp). destruct (a_run a' h hp) as [a'' os]. exact Hw.
Qed.

(* a read by a hash that no header ever handed to SaveBlockData has (completed, crashed or failed save alike) finds
   nothing: neither a block nor a signature *)
Theorem by_hash_unwritten (h : list item) (hash : string) :
  hash_consistentb (saves h) = true ->
  (forall hd, In hd (saves h) -> hhash hd <> hash) ->
  snd (step (final h) (OGetByHash hash)) = RErr /\ snd (step (final h) (OGetSigByHash hash)) = RErr.
Proof.
  intros Hc Hnew. destruct (store_refines h Hc) as [hp [_ HR]].
  pose proof (a_run_from_past h a_init [] hp ltac:(intros n b; discriminate)) as Hp. rewrite app_nil_r in Hp.
  set (a := fst (a_run a_init h hp)) in *.
  assert (Hn : a_by_hash (a_blocks a) hash = None).
  { pose proof (a_by_hash_spec _ hash (R_nodup _ _ HR) (R_ok _ _ HR)) as S.
    destruct (a_by_hash (a_blocks a) hash) as [b|]; [|reflexivity].
    destruct S as [S1 S2]. exfalso. apply (Hnew (b_hdr b)); [eapply Hp; exact S2 | exact S1]. }
  split.
  - destruct (R_step _ _ (OGetByHash hash) HR ltac:(intros ? ? ? X; discriminate X)) as [E _]. rewrite E.
    cbn [a_step snd]. rewrite Hn. reflexivity.
  - destruct (R_step _ _ (OGetSigByHash hash) HR ltac:(intros ? ? ? X; discriminate X)) as [E _]. rewrite E.
    cbn [a_step snd]. rewrite Hn. reflexivity.
Qed.

(* a signature read by hash returns the signature record of the block currently stored under that hash *)
Theorem sig_by_hash_sound (h : list item) (hash : string) :
  hash_consistentb (saves h) = true ->
  match snd (step (final h) (OGetSigByHash hash)) with
  | RSig s => exists hd d, snd (step (final h) (OGetByHash hash)) = RBlock hd d /\ hhash hd = hash /\
                           snd (step (final h) (OGetSig (hheight hd))) = RSig s
  | RErr => snd (step (final h) (OGetByHash hash)) = RErr
  | _ => False
  end.
Proof.
  intros Hc. destruct (store_refines h Hc) as [hp [_ HR]].
  set (a := fst (a_run a_init h hp)) in *.
  destruct (R_step _ _ (OGetSigByHash hash) HR ltac:(intros ? ? ? X; discriminate X)) as [E _]. rewrite E.
  destruct (R_step _ _ (OGetByHash hash) HR ltac:(intros ? ? ? X; discriminate X)) as [E1 _]. rewrite E1.
  cbn [a_step snd].
  pose proof (a_by_hash_spec _ hash (R_nodup _ _ HR) (R_ok _ _ HR)) as S.
  destruct (a_by_hash (a_blocks a) hash) as [b|]; [|reflexivity].
  destruct S as [S1 S2]. exists (b_hdr b), (b_data b). split; [reflexivity|]. split; [exact S1|].
  destruct (R_step _ _ (OGetSig (hheight (b_hdr b))) HR ltac:(intros ? ? ? X; discriminate X)) as [E2 _]. rewrite E2.
  cbn [a_step snd]. rewrite S2. reflexivity.
Qed.
