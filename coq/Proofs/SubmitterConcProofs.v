(* Proofs/SubmitterConcProofs.v — lemmas about Model/SubmitterConc.v (property C06):
   1. an iteration during which blocks are committed (while its DA calls are in flight) is the iteration on the
      frozen chain followed by those commits; hence every history with in-flight commits reaches the state of a
      sequential history, and every theorem about all reachable states (Proofs/SubmitterProofs.v) holds for them;
      in particular the watermark never steps over a block committed after the batch was built;
   2. the submission loop goes round until its script (its context) ends or nothing is pending — whatever the DA
      answers are, "cancelled" included. *)
From Coq Require Import NArith Arith List Bool Sorted Lia ZifyBool ZifyN ZifyNat.
From Verif Require Import Model.Submitter Model.SubmitterConc Proofs.SubmitterProofs.
From Verif Require Check.SubmitterCheck.
Import ListNotations.
Open Scope N_scope.

(* ---- 1. blocks committed while a call is in flight ---------------------------------------------------------- *)

Lemma submit_rest_le : forall c fuel b rem sc sd el,
  (length (snd (fst (fst (submit c fuel b rem sc sd el)))) <= length sc)%nat.
Proof.
  induction fuel as [|f IH]; intros b rem sc sd el; cbn [submit]; [cbn [fst snd]; lia|].
  destruct sc as [|o sc']; [cbn [fst snd length]; lia|].
  destruct (helper_status o (N.of_nat (length rem))) as [st cnt]; destruct st;
    try (etransitivity; [apply IH|]; cbn [length]; lia); try (cbn [fst snd length]; lia).
  destruct (cnt =? N.of_nat (length rem)); [cbn [fst snd length]; lia|].
  etransitivity; [apply IH|]; cbn [length]; lia.
Qed.

(* a call was made on a non-empty script: at least one answer is consumed *)
Lemma submit_consumes : forall c f b rem o sc sd el,
  (length (snd (fst (fst (submit c (S f) b rem (o :: sc) sd el)))) <= length sc)%nat.
Proof.
  intros. cbn [submit].
  destruct (helper_status o (N.of_nat (length rem))) as [st cnt]; destruct st;
    try apply submit_rest_le; try (cbn [fst snd]; lia).
  destruct (cnt =? N.of_nat (length rem)); [cbn [fst snd]; lia | apply submit_rest_le].
Qed.

(* submit_p = submit on the answers alone; the chain grows by the blocks of the j answers consumed *)
Lemma submit_p_spec : forall c fuel b rem scp sd ch el,
  let x := submit c fuel b rem (map fst scp) sd el in
  exists j, (j <= length scp)%nat /\
    snd (fst (fst x)) = map fst (skipn j scp) /\
    submit_p c fuel b rem scp sd ch el =
      (fst (fst (fst x)), ch ++ concat (map snd (firstn j scp)), skipn j scp, snd (fst x), snd x).
Proof.
  intros c. induction fuel as [|f IH]; intros b rem scp sd ch el; cbv zeta.
  - exists O. cbn [submit submit_p fst snd skipn firstn map concat]. rewrite app_nil_r. split; [lia|]. split; reflexivity.
  - destruct scp as [|[o pubs] scp'].
    + exists O. cbn [submit submit_p fst snd skipn firstn map concat length]. rewrite app_nil_r. split; [lia|]. split; reflexivity.
    + cbn [submit submit_p map fst].
      assert (Hstep : forall b' rem' sd',
        let x := submit c f b' rem' (map fst scp') sd' (el + b + call_cost o) in
        exists j, (j <= length ((o, pubs) :: scp'))%nat /\
          snd (fst (fst x)) = map fst (skipn j ((o, pubs) :: scp')) /\
          submit_p c f b' rem' scp' sd' (ch ++ pubs) (el + b + call_cost o) =
          (fst (fst (fst x)), ch ++ concat (map snd (firstn j ((o, pubs) :: scp'))), skipn j ((o, pubs) :: scp'), snd (fst x), snd x)).
      { intros b' rem' sd'. cbv zeta.
        destruct (IH b' rem' scp' sd' (ch ++ pubs) (el + b + call_cost o)) as (j & Hj & H1 & H2).
        exists (S j). cbn [length skipn firstn map concat snd]. split; [lia|]. split; [exact H1|].
        rewrite H2. rewrite <- app_assoc. reflexivity. }
      assert (Hend : forall (sd' : side) (r : result),
        exists j, (j <= length ((o, pubs) :: scp'))%nat /\
          map fst scp' = map fst (skipn j ((o, pubs) :: scp')) /\
          (sd', ch ++ pubs, scp', r, el + b + call_cost o) =
          (sd', ch ++ concat (map snd (firstn j ((o, pubs) :: scp'))), skipn j ((o, pubs) :: scp'), r, el + b + call_cost o)).
      { intros sd' r. exists 1%nat. cbn [length skipn firstn map concat snd]. rewrite app_nil_r.
        split; [lia|]. split; reflexivity. }
      destruct (helper_status o (N.of_nat (length rem))) as [st cnt]; destruct st;
        try (apply Hstep); try (cbn [fst snd]; apply Hend).
      destruct (cnt =? N.of_nat (length rem)); [cbn [fst snd]; apply Hend | apply Hstep].
Qed.

Lemma run_publishes : forall c l s,
  run_from c s (map IPublish l) = with_chain s (s_chain s ++ l).
Proof.
  intros c. induction l as [|b l IH]; intros s.
  - cbn [map run_from fold_left]. rewrite app_nil_r. destruct s; reflexivity.
  - cbn [map]. change (run_from c s (IPublish b :: map IPublish l))
      with (run_from c (fst (step c s (IPublish b))) (map IPublish l)).
    rewrite IH. cbn [step fst with_chain s_init s_chain s_h s_d]. rewrite <- app_assoc. reflexivity.
Qed.

Lemma set_side_get : forall k s, set_side k s (get_side k s) = s.
Proof. intros [] []; reflexivity. Qed.

Lemma with_chain_self : forall s, with_chain s (s_chain s ++ []) = s.
Proof. intros []. unfold with_chain. cbn. rewrite app_nil_r. reflexivity. Qed.

Lemma with_chain_set_side : forall k s sd ch, with_chain (set_side k s sd) ch = set_side k (with_chain s ch) sd.
Proof. intros [] s sd ch; reflexivity. Qed.

Lemma get_set_side : forall k s sd, get_side k (set_side k s sd) = sd.
Proof. intros [] s sd; reflexivity. Qed.

(* the iteration with in-flight commits = the iteration on the frozen chain; then the chain grows by the blocks
   of the j answers it consumed *)
Lemma tick_p_spec : forall c k scp s,
  let x := tick_side c (rel_of k s) (s_init s) (height s) (map fst scp) (get_side k s) in
  exists j, (j <= length scp)%nat /\
    snd (fst (fst x)) = map fst (skipn j scp) /\
    tick_p c k scp s =
      (set_side k (with_chain s (s_chain s ++ concat (map snd (firstn j scp)))) (fst (fst (fst x))),
       skipn j scp, snd (fst x), snd x).
Proof.
  intros c k scp s. cbv zeta. unfold tick_side, tick_p.
  assert (Hnone : forall r : result,
    exists j, (j <= length scp)%nat /\ map fst scp = map fst (skipn j scp) /\
      (s, scp, r, 0) = (set_side k (with_chain s (s_chain s ++ concat (map snd (firstn j scp)))) (get_side k s), skipn j scp, r, 0)).
  { intros r. exists O. cbn [skipn firstn map concat]. rewrite with_chain_self, set_side_get.
    split; [lia|]. split; reflexivity. }
  destruct (vol (get_side k s) =? height s); [cbn [fst snd]; apply Hnone|].
  destruct (pending_range (s_init s) (height s) (vol (get_side k s))) as [r|]; [|cbn [fst snd]; apply Hnone].
  destruct (match rel_of k s with Some f => filter f r | None => r end) as [|x0 items] eqn:Hit;
    [cbn [fst snd]; apply Hnone|].
  destruct (submit_p_spec c max_attempts 0 (x0 :: items) scp (get_side k s) (s_chain s) 0) as (j & Hj & H1 & H2).
  exists j. split; [exact Hj|]. split; [exact H1|].
  rewrite H2. reflexivity.
Qed.

Lemma consumed_pubs_skipn : forall (scp : pscript) j, (j <= length scp)%nat ->
  consumed_pubs scp (skipn j scp) = concat (map snd (firstn j scp)).
Proof.
  intros scp j Hj. unfold consumed_pubs. rewrite skipn_length.
  replace (length scp - (length scp - j))%nat with j by lia. reflexivity.
Qed.

Lemma cstep_is_run : forall c s ci, cstep_state c s ci = run_from c s (cexpand_item c s ci).
Proof.
  intros c s [h|k scp]; [reflexivity|].
  cbn [cstep_state cexpand_item].
  destruct (tick_p_spec c k scp s) as (j & Hj & H1 & H2). rewrite H2. cbn [fst snd].
  rewrite consumed_pubs_skipn by exact Hj.
  change (run_from c s (ITick k (map fst scp) :: map IPublish (concat (map snd (firstn j scp)))))
    with (run_from c (fst (step c s (ITick k (map fst scp)))) (map IPublish (concat (map snd (firstn j scp))))).
  rewrite run_publishes. cbn [step].
  destruct (tick_side c (rel_of k s) (s_init s) (height s) (map fst scp) (get_side k s)) as [[[sd' sc'] r] el].
  cbn [fst]. rewrite with_chain_set_side. destruct k; reflexivity.
Qed.

(* every history with in-flight commits reaches the state of a sequential history *)
Lemma crun_from_is_run : forall c h s, crun_from c s h = run_from c s (cexpand c s h).
Proof.
  intros c. induction h as [|ci h IH]; intros s; [reflexivity|].
  cbn [cexpand]. rewrite run_from_app. rewrite <- cstep_is_run.
  change (crun_from c s (ci :: h)) with (crun_from c (cstep_state c s ci) h). apply IH.
Qed.

Lemma crun_is_run : forall c init h, crun c init h = run c init (cexpand c (boot init) h).
Proof. intros. apply crun_from_is_run. Qed.

Lemma crun_from_app : forall c h1 h2 s, crun_from c s (h1 ++ h2) = crun_from c (crun_from c s h1) h2.
Proof. intros. unfold crun_from. apply fold_left_app. Qed.

Lemma cexpand_app : forall c h1 h2 s,
  cexpand c s (h1 ++ h2) = cexpand c s h1 ++ cexpand c (crun_from c s h1) h2.
Proof.
  intros c. induction h1 as [|ci h1 IH]; intros h2 s; [reflexivity|].
  cbn [app cexpand]. rewrite IH, <- app_assoc. reflexivity.
Qed.

Lemma inv_crun : forall c init h, 1 <= init -> Inv (crun c init h).
Proof. intros. rewrite crun_is_run. apply inv_run. assumption. Qed.

(* safety, for all histories with in-flight commits *)
Lemma watermark_sound_conc : forall c init (h : list citem) k, 1 <= init -> watermark_sound_stmt (crun c init h) k.
Proof. intros. rewrite crun_is_run. apply watermark_sound. assumption. Qed.

Lemma watermark_monotone_conc : forall c init (h1 h2 : list citem) k, 1 <= init ->
  vol (get_side k (crun c init h1)) <= vol (get_side k (crun c init (h1 ++ h2))) /\
  meta0 (meta (get_side k (crun c init h1))) <= meta0 (meta (get_side k (crun c init (h1 ++ h2)))).
Proof.
  intros c init h1 h2 k H1. unfold crun at 2 4. rewrite !crun_from_is_run, cexpand_app.
  fold (crun c init h1). rewrite (crun_is_run c init h1) at 1 3.
  fold (run c init (cexpand c (boot init) h1 ++ cexpand c (crun c init h1) h2)).
  apply watermark_monotone. assumption.
Qed.

(* liveness, from every state reachable with in-flight commits *)
Lemma eventually_conc : forall c init (h : list citem) k fails sc kd, 1 <= init ->
  forallb nonprogress fails = true -> (length fails < max_attempts)%nat ->
  let s := crun c init h in
  height s <= k ->
  let s' := fst (step c s (ITick kd (fails ++ OAccept k :: sc))) in
  (forall m, s_init s <= m <= height s -> relevant kd s m -> In m (acc (get_side kd s'))) /\
  (kd = KHeader -> vol (s_h s') = height s).
Proof.
  intros c init h k fails sc kd H1 Hf Hl. rewrite crun_is_run.
  exact (eventually_all c init H1 (cexpand c (boot init) h) k fails sc kd Hf Hl).
Qed.

(* THE POINT.  From any reachable state: after an iteration during which blocks were committed, the watermark of
   that kind is at most the chain height the iteration STARTED from, and so is every height it put on the DA layer:
   a block committed after the batch was built is never stepped over (it is still pending for the next iteration) *)
Lemma inflight_not_stepped_over : forall c init (h : list citem) k scp, 1 <= init ->
  let s := crun c init h in
  let s' := cstep_state c s (CTickP k scp) in
  vol (get_side k s') <= height s /\ meta0 (meta (get_side k s')) <= height s /\
  (forall x, In x (acc (get_side k s')) -> x <= height s) /\
  height s <= height s'.
Proof.
  intros c init h k scp H1 s s'.
  pose proof (inv_get k _ (inv_crun c init h H1)) as I. fold s in I.
  pose proof (tick_inv c (rel_of k s) (s_init s) (height s) (map fst scp) (get_side k s) I) as It.
  unfold s'. cbn [cstep_state].
  destruct (tick_p_spec c k scp s) as (j & Hj & _ & H2). rewrite H2. cbn [fst].
  rewrite get_set_side.
  set (sd' := fst (fst (fst (tick_side c (rel_of k s) (s_init s) (height s) (map fst scp) (get_side k s))))) in *.
  pose proof (si_le _ _ _ _ It) as Hle. pose proof (si_meta _ _ _ _ It) as Hme.
  split; [exact Hle|]. split.
  - unfold resume in Hme. destruct (meta0 (meta sd') =? 0) eqn:E; lia.
  - split.
    + intros x Hx. apply (si_closed _ _ _ _ It) in Hx. lia.
    + unfold height. destruct k; cbn [set_side with_chain s_init s_chain]; rewrite app_length; lia.
Qed.

(* ---- 2. the loop and what it leaves of its script ------------------------------------------------------------- *)

Lemma loop_rest_fst : forall c o init hi fuel sc sd,
  fst (loop_side_rest c o init hi fuel sc sd) = loop_side c o init hi fuel sc sd.
Proof.
  induction fuel as [|f IH]; intros sc sd; cbn [loop_side_rest loop_side]; [reflexivity|].
  destruct sc as [|o0 sc0]; [reflexivity|].
  destruct (tick_side c o init hi (o0 :: sc0) sd) as [[[sd' sc'] r] el].
  destruct (made_call r); [apply IH | reflexivity].
Qed.

Lemma submit_made_call : forall c fu b rem sc sd el, made_call (snd (fst (submit c fu b rem sc sd el))) = true.
Proof.
  intros c. induction fu as [|fu IHf]; intros; cbn [submit]; [reflexivity|].
  destruct sc as [|o sc]; [reflexivity|].
  destruct (helper_status o (N.of_nat (length rem))) as [st cnt]; destruct st; try apply IHf; try reflexivity.
  destruct (cnt =? N.of_nat (length rem)); [reflexivity | apply IHf].
Qed.

(* one iteration: either it made no call — then nothing relevant is missing on the DA layer — or it consumed at
   least one answer *)
Lemma tick_call_or_done : forall c o init hi o0 sc0 sd,
  1 <= init -> SInv init hi (relf o) sd ->
  let x := tick_side c o init hi (o0 :: sc0) sd in
  (made_call (snd (fst x)) = true /\ (length (snd (fst (fst x))) <= length sc0)%nat) \/
  (made_call (snd (fst x)) = false /\ fst (fst (fst x)) = sd /\
   forall m, init <= m <= hi -> relf o m = true -> In m (acc sd)).
Proof.
  intros c o init hi o0 sc0 sd Hi I. cbv zeta. unfold tick_side.
  destruct (vol sd =? hi) eqn:E.
  - right. cbn [fst snd made_call]. split; [reflexivity|]. split; [reflexivity|].
    intros m Hm Hr. apply (si_sound _ _ _ _ I); auto. lia.
  - pose proof (si_le _ _ _ _ I) as Hle. pose proof (si_base _ _ _ _ I) as Hba.
    rewrite pending_range_above_base by (auto; lia).
    pose proof (pending_remok init hi (relf o) sd _ I (pending_range_above_base init hi (vol sd) Hi Hba ltac:(lia))) as R.
    rewrite items_filter.
    destruct (filter (relf o) (seqN (vol sd + 1) (N.to_nat (hi - vol sd)))) as [|x0 rem0] eqn:Hfil.
    + right. cbn [fst snd made_call]. split; [reflexivity|]. split; [reflexivity|].
      intros m Hm Hr. destruct (N.le_gt_cases m (vol sd)).
      * apply (si_sound _ _ _ _ I); auto. lia.
      * exfalso. assert (Hin : In m []) by (apply (ro_all _ _ _ _ _ R); auto; lia). destruct Hin.
    + left. change max_attempts with (S 29). split; [apply submit_made_call | apply submit_consumes].
Qed.

(* the loop: when it stops with answers left, every committed relevant block is on the DA layer *)
Lemma loop_retries_side : forall c o init hi fuel sc sd,
  1 <= init -> SInv init hi (relf o) sd -> (length sc < fuel)%nat ->
  let x := loop_side_rest c o init hi fuel sc sd in
  SInv init hi (relf o) (fst x) /\
  (snd x = [] \/ forall m, init <= m <= hi -> relf o m = true -> In m (acc (fst x))).
Proof.
  intros c o init hi. induction fuel as [|f IH]; intros sc sd Hi I Hl; [lia|].
  cbv zeta. cbn [loop_side_rest].
  destruct sc as [|o0 sc0]; [cbn [fst snd]; split; [exact I | left; reflexivity]|].
  pose proof (tick_inv c o init hi (o0 :: sc0) sd I) as It.
  pose proof (tick_call_or_done c o init hi o0 sc0 sd Hi I) as Hc. cbv zeta in Hc.
  destruct (tick_side c o init hi (o0 :: sc0) sd) as [[[sd' sc'] r] el]. cbn [fst snd] in *.
  destruct Hc as [(Hm & Hlen) | (Hm & Hsd & Hall)]; rewrite Hm.
  - apply IH; auto. cbn [length] in Hl. lia.
  - cbn [fst snd]. split; [exact It|]. right. rewrite Hsd. exact Hall.
Qed.

Lemma loop_retries : forall c init hist kd sc, 1 <= init ->
  let s := run c init hist in
  let s' := fst (step c s (ILoop kd sc)) in
  loop_left c s kd sc = [] \/
  (forall m, s_init s <= m <= height s -> relevant kd s m -> In m (acc (get_side kd s'))).
Proof.
  intros c init hist kd sc H1 s s'.
  pose proof (inv_get kd _ (inv_run c init hist H1)) as I. fold s in I.
  assert (Hi : s_init s = init) by apply run_init.
  destruct (loop_retries_side c (rel_of kd s) (s_init s) (height s) (S (length sc)) sc (get_side kd s)
              ltac:(lia) I ltac:(lia)) as (_ & [Hr|Hr]).
  - left. exact Hr.
  - right. intros m Hm Hrel. unfold s'. cbn [step fst]. rewrite get_set_side, <- loop_rest_fst.
    apply Hr; auto. apply relevant_rel; auto.
Qed.

(* the same from every state reachable with in-flight commits *)
Lemma loop_retries_conc : forall c init (h : list citem) kd sc, 1 <= init ->
  let s := crun c init h in
  let s' := fst (step c s (ILoop kd sc)) in
  loop_left c s kd sc = [] \/
  (forall m, s_init s <= m <= height s -> relevant kd s m -> In m (acc (get_side kd s'))).
Proof.
  intros c init h kd sc H1. rewrite crun_is_run. apply loop_retries. assumption.
Qed.

Lemma loop_side_S : forall c o init hi f o0 sc0 sd,
  loop_side c o init hi (S f) (o0 :: sc0) sd =
  let '(sd', sc', r, _) := tick_side c o init hi (o0 :: sc0) sd in
  if made_call r then loop_side c o init hi f sc' sd' else sd'.
Proof. reflexivity. Qed.

(* a DA answer "cancelled" ends the iteration, not the loop: with something relevant pending, the loop asks again
   and an accepting DA layer gets everything *)
Lemma loop_survives_cancel : forall c init hist kd (b : bool) k sc, 1 <= init ->
  let s := run c init hist in
  height s <= k ->
  let s' := fst (step c s (ILoop kd (OCancel b :: OAccept k :: sc))) in
  forall m, s_init s <= m <= height s -> relevant kd s m -> In m (acc (get_side kd s')).
Proof.
  intros c init hist kd b k sc H1 s Hk s' m Hm Hrel.
  pose proof (inv_get kd _ (inv_run c init hist H1)) as I. fold s in I.
  assert (Hi : s_init s = init) by apply run_init.
  unfold s'. cbn [step fst]. rewrite get_set_side.
  set (o := rel_of kd s) in *. set (sd := get_side kd s) in *.
  apply relevant_rel in Hrel. fold o in Hrel.
  change (S (length (OCancel b :: OAccept k :: sc))) with (S (S (S (length sc)))).
  rewrite loop_side_S.
  pose proof (tick_inv c o (s_init s) (height s) (OCancel b :: OAccept k :: sc) sd I) as It.
  pose proof (tick_call_or_done c o (s_init s) (height s) (OCancel b) (OAccept k :: sc) sd ltac:(lia) I) as Hc.
  cbv zeta in Hc.
  (* what the first iteration does: no call (done), or exactly the cancelled call *)
  assert (Hfirst : let x := tick_side c o (s_init s) (height s) (OCancel b :: OAccept k :: sc) sd in
            made_call (snd (fst x)) = true -> snd (fst (fst x)) = OAccept k :: sc).
  { cbv zeta. unfold tick_side.
    destruct (vol sd =? height s); [cbn; discriminate|].
    destruct (pending_range (s_init s) (height s) (vol sd)); [|cbn; discriminate].
    destruct (match o with Some f => filter f l | None => l end); [cbn; discriminate|].
    intros _. reflexivity. }
  cbv zeta in Hfirst.
  destruct (tick_side c o (s_init s) (height s) (OCancel b :: OAccept k :: sc) sd) as [[[sd1 sc1] r1] el1].
  cbn [fst snd] in *.
  destruct Hc as [(Hm1 & _) | (Hm1 & Hsd & Hall)]; rewrite Hm1.
  - rewrite (Hfirst Hm1). rewrite loop_side_S.
    pose proof (tick_eventually c o (s_init s) (height s) [] k sc sd1 ltac:(lia) It eq_refl ltac:(cbn; unfold max_attempts; lia) Hk)
      as (I2 & Hall2 & _).
    cbn [app] in *.
    pose proof (tick_call_or_done c o (s_init s) (height s) (OAccept k) sc sd1 ltac:(lia) It) as Hc2. cbv zeta in Hc2.
    destruct (tick_side c o (s_init s) (height s) (OAccept k :: sc) sd1) as [[[sd2 sc2] r2] el2].
    cbn [fst snd] in *.
    assert (Hmono : forall fuel sc0 sd0, (forall m, In m (acc sd0) -> In m (acc (loop_side c o (s_init s) (height s) fuel sc0 sd0)))).
    { intros fuel sc0 sd0. apply (loop_pres (fun sdx => forall m, In m (acc sd0) -> In m (acc sdx))).
      - intros rem o1 sdx H m0 Hm0. cbn [log_call acc]. apply in_or_app. right. auto.
      - intros n sdx H m0 Hm0. unfold set_last. destruct (vol sdx <? n); cbn [acc]; auto.
      - auto. }
    destruct (made_call r2); [apply Hmono|]; apply Hall2; auto.
  - rewrite Hsd. apply Hall; auto.
Qed.

(* ---- the comparator walks exactly the history ------------------------------------------------------------ *)

Lemma check_citem_state : forall c s ci o,
  fst (Check.SubmitterCheck.check_citem c s ci o) = cstep_state c s ci.
Proof.
  intros c s [hi|k scp] o; cbn [Check.SubmitterCheck.check_citem cstep_state].
  - apply check_item_state.
  - destruct (tick_p c k scp s) as [[[s' rest] r] el]. reflexivity.
Qed.

Lemma check_citems_state : forall c h os s, length h = length os ->
  fst (Check.SubmitterCheck.check_citems c s h os) = crun_from c s h.
Proof.
  intros c. induction h as [|ci h IH]; intros os s Hlen; destruct os as [|o os]; try discriminate Hlen.
  - reflexivity.
  - cbn [Check.SubmitterCheck.check_citems].
    pose proof (check_citem_state c s ci o) as E1.
    destruct (Check.SubmitterCheck.check_citem c s ci o) as [s1 e1]. cbn [fst] in E1.
    specialize (IH os s1 ltac:(cbn [length] in Hlen; lia)).
    destruct (Check.SubmitterCheck.check_citems c s1 h os) as [s2 e2]. cbn [fst] in *.
    change (crun_from c s (ci :: h)) with (crun_from c (cstep_state c s ci) h). rewrite <- E1. exact IH.
Qed.
