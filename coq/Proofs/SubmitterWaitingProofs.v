(* Proofs/SubmitterWaitingProofs.v — lemmas about Model/SubmitterWaiting.v (property C06): block production's
   numWaitingData as second writer of the data watermark, interleaved with the data submission loop. *)
From Coq Require Import NArith Arith List Bool Sorted Lia ZifyBool ZifyN ZifyNat.
From Verif Require Import Model.Submitter Model.SubmitterConc Model.SubmitterWaiting.
From Verif Require Import Proofs.SubmitterProofs Proofs.SubmitterConcProofs.
From Verif Require Check.SubmitterCheck.
Import ListNotations.
Open Scope N_scope.

(* ---- the data iterations that run inside the check ------------------------------------------------------------ *)

Lemma dticks_inv : forall c rel init hi scs sd,
  SInv init hi rel sd -> SInv init hi rel (dticks c rel init hi scs sd).
Proof.
  intros c rel init hi. induction scs as [|sc scs IH]; intros sd I; cbn [dticks fold_left]; [exact I|].
  apply IH. exact (tick_inv c (Some rel) init hi sc sd I).
Qed.

Lemma dticks_mono : forall c rel init hi scs sd, vol sd <= vol (dticks c rel init hi scs sd).
Proof.
  intros c rel init hi. induction scs as [|sc scs IH]; intros sd; cbn [dticks fold_left]; [lia|].
  etransitivity; [apply (tick_mono c (Some rel) init hi sc sd)|]. apply IH.
Qed.

Lemma dticks_pres : forall (P : side -> Prop),
  (forall rem o sd, P sd -> P (log_call rem o sd)) -> (forall n sd, P sd -> P (set_last n sd)) ->
  forall c rel init hi scs sd, P sd -> P (dticks c rel init hi scs sd).
Proof.
  intros P PL PS c rel init hi. induction scs as [|sc scs IH]; intros sd H; cbn [dticks fold_left]; [exact H|].
  apply IH. exact (tick_pres P PL PS c (Some rel) init hi sc sd H).
Qed.

Lemma set_last_mono : forall n sd, vol sd <= vol (set_last n sd).
Proof. intros n sd. unfold set_last. destruct (vol sd <? n) eqn:E; cbn [vol]; lia. Qed.

(* stepping over a height: sound when every relevant height up to it is already below the watermark *)
Lemma set_last_inv : forall init hi rel h sd,
  SInv init hi rel sd -> h <= hi ->
  (forall m, vol sd < m <= h -> rel m = false) ->
  SInv init hi rel (set_last h sd).
Proof.
  intros init hi rel h sd I Hh Hemp. unfold set_last. destruct (vol sd <? h) eqn:E; [|exact I].
  destruct I as [Im Ib Il Is Ic Ik].
  constructor; cbn [vol meta acc calls]; auto; try lia.
  - unfold resume, meta0. destruct (h =? 0) eqn:E0; lia.
  - intros m Hm Hr. destruct (N.le_gt_cases m (vol sd)) as [Hle|Hgt].
    + apply Is; auto. lia.
    + rewrite Hemp in Hr by lia. discriminate.
Qed.

(* ---- numWaitingData's loop ------------------------------------------------------------------------------------- *)

(* [v0] = the watermark getPending read; the items are the heights lo, lo+1, .., hi; everything in (v0, lo) has
   been examined.  While nothing with transactions was met, everything in (v0, lo) is without transactions. *)
Lemma scan_inv : forall c rel init hi len lo waiting qs sd v0,
  SInv init hi rel sd -> v0 <= vol sd -> v0 < lo -> lo + N.of_nat len = hi + 1 ->
  (waiting = 0 -> forall m, v0 < m < lo -> rel m = false) ->
  SInv init hi rel (snd (waiting_scan c rel init hi (seqN lo len) waiting qs sd)).
Proof.
  intros c rel init hi. induction len as [|len IH]; intros lo waiting qs sd v0 I Hv Hlo Hlen Hemp;
    cbn [seqN waiting_scan]; [exact I|].
  pose proof (dticks_inv c rel init hi (hd [] qs) sd I) as I1.
  pose proof (dticks_mono c rel init hi (hd [] qs) sd) as M1.
  set (sd1 := dticks c rel init hi (hd [] qs) sd) in *.
  destruct (rel lo) eqn:Hr.
  - apply (IH (lo + 1) (waiting + 1) (tl qs) sd1 v0); auto; try lia.
  - destruct (waiting =? 0) eqn:Hw.
    + apply (IH (lo + 1) waiting (tl qs) (set_last lo sd1) v0); try lia.
      * apply set_last_inv; [exact I1 | lia |].
        intros m Hm. destruct (N.eq_dec m lo) as [->|Hne]; [exact Hr|]. apply Hemp; lia.
      * pose proof (set_last_mono lo sd1). lia.
      * intros _ m Hm. destruct (N.eq_dec m lo) as [->|Hne]; [exact Hr|]. apply Hemp; lia.
    + apply (IH (lo + 1) waiting (tl qs) sd1 v0); auto; try lia.
Qed.

Lemma scan_mono : forall c rel init hi hs waiting qs sd,
  vol sd <= vol (snd (waiting_scan c rel init hi hs waiting qs sd)).
Proof.
  intros c rel init hi. induction hs as [|h r IH]; intros waiting qs sd; cbn [waiting_scan snd]; [lia|].
  pose proof (dticks_mono c rel init hi (hd [] qs) sd) as M1.
  destruct (rel h); [|destruct (waiting =? 0)]; (etransitivity; [|apply IH]); auto.
  etransitivity; [exact M1 | apply set_last_mono].
Qed.

Lemma scan_pres : forall (P : side -> Prop),
  (forall rem o sd, P sd -> P (log_call rem o sd)) -> (forall n sd, P sd -> P (set_last n sd)) ->
  forall c rel init hi hs waiting qs sd, P sd -> P (snd (waiting_scan c rel init hi hs waiting qs sd)).
Proof.
  intros P PL PS c rel init hi. induction hs as [|h r IH]; intros waiting qs sd H; cbn [waiting_scan snd]; [exact H|].
  pose proof (dticks_pres P PL PS c rel init hi (hd [] qs) sd H) as H1.
  destruct (rel h); [|destruct (waiting =? 0)]; apply IH; auto.
Qed.

(* what getPendingData hands to the loop *)
Lemma pending_items_shape : forall init hi v,
  pending_items init hi v = [] \/ (v < hi /\ pending_items init hi v = seqN (v + 1) (N.to_nat (hi - v))).
Proof.
  intros init hi v. unfold pending_items, pending_range.
  destruct (v =? hi) eqn:E1; [left; reflexivity|].
  destruct (hi <? v) eqn:E2; [left; reflexivity|].
  destruct (forallb _ _); [right; split; [lia | reflexivity] | left; reflexivity].
Qed.

Lemma num_waiting_inv : forall c s qs, Inv s ->
  SInv (s_init s) (height s) (rel_d s) (snd (num_waiting c s qs)).
Proof.
  intros c s qs (H1 & Ih & Id). unfold num_waiting. fold (rel_d s).
  destruct (pending_items_shape (s_init s) (height s) (vol (s_d s))) as [->|(Hlt & ->)]; [exact Id|].
  apply (scan_inv c (rel_d s) (s_init s) (height s) _ _ 0 qs (s_d s) (vol (s_d s))); auto; try lia.
Qed.

Lemma num_waiting_mono : forall c s qs, vol (s_d s) <= vol (snd (num_waiting c s qs)).
Proof. intros. unfold num_waiting. apply scan_mono. Qed.

(* ---- the check and the commit ---------------------------------------------------------------------------------- *)

Lemma inv_commit : forall b s, Inv s -> Inv (commit b s).
Proof. intros b s I. exact (inv_step {| c_bt := 0; c_ttl := 0 |} s (IPublish b) I). Qed.

Lemma set_d_other : forall s sd, s_h (set_side KData s sd) = s_h s /\ s_init (set_side KData s sd) = s_init s /\
  s_chain (set_side KData s sd) = s_chain s /\ s_d (set_side KData s sd) = sd.
Proof. intros; repeat split. Qed.

Lemma inv_limit_check : forall c L qs s, Inv s -> Inv (snd (limit_check c L qs s)).
Proof.
  intros c L qs s I. unfold limit_check.
  destruct (L =? 0); [exact I|].
  destruct (L <=? num_pending (height s) (s_h s)); [exact I|].
  destruct (L <=? num_pending (height s) (s_d s)); [|exact I].
  pose proof (num_waiting_inv c s qs I) as Iw.
  destruct (num_waiting c s qs) as [n sd]. cbn [snd] in *.
  apply (inv_set KData s sd I). exact Iw.
Qed.

Lemma inv_wstep : forall c s wi, Inv s -> Inv (wstep c s wi).
Proof.
  intros c s [ci|L b qs] I; cbn [wstep].
  - rewrite cstep_is_run. apply inv_run_from, I.
  - pose proof (inv_limit_check c L qs s I) as Il.
    destruct (limit_check c L qs s) as [[called refused] s']. cbn [snd] in Il.
    destruct refused; [exact Il | apply inv_commit, Il].
Qed.

Lemma inv_wrun_from : forall c h s, Inv s -> Inv (wrun_from c s h).
Proof. intros c. induction h as [|wi h IH]; intros s I; cbn; auto. apply IH, inv_wstep, I. Qed.

Lemma inv_wrun : forall c init h, 1 <= init -> Inv (wrun c init h).
Proof. intros. apply inv_wrun_from, inv_boot. assumption. Qed.

Lemma limit_check_init : forall c L qs s, s_init (snd (limit_check c L qs s)) = s_init s.
Proof.
  intros. unfold limit_check.
  destruct (L =? 0); [reflexivity|]. destruct (L <=? _); [reflexivity|]. destruct (L <=? _); [|reflexivity].
  destruct (num_waiting c s qs) as [n sd]. reflexivity.
Qed.

Lemma wstep_init : forall c s wi, s_init (wstep c s wi) = s_init s.
Proof.
  intros c s [ci|L b qs]; cbn [wstep].
  - rewrite cstep_is_run. apply run_from_init.
  - pose proof (limit_check_init c L qs s) as E.
    destruct (limit_check c L qs s) as [[called refused] s']. cbn [snd] in E.
    destruct refused; [exact E | exact E].
Qed.

Lemma wrun_from_init : forall c h s, s_init (wrun_from c s h) = s_init s.
Proof.
  intros c. induction h as [|wi h IH]; intros s; [reflexivity|].
  change (wrun_from c s (wi :: h)) with (wrun_from c (wstep c s wi) h). rewrite IH. apply wstep_init.
Qed.

Lemma wrun_init : forall c init h, s_init (wrun c init h) = init.
Proof. intros. unfold wrun. rewrite wrun_from_init. reflexivity. Qed.

Lemma wrun_from_app : forall c h1 h2 s, wrun_from c s (h1 ++ h2) = wrun_from c (wrun_from c s h1) h2.
Proof. intros. unfold wrun_from. apply fold_left_app. Qed.

(* histories without the new item are the histories of Model/SubmitterConc.v *)
Lemma wrun_from_WC : forall c h s, wrun_from c s (map WC h) = crun_from c s h.
Proof.
  intros c. induction h as [|ci h IH]; intros s; [reflexivity|].
  change (wrun_from c s (map WC (ci :: h))) with (wrun_from c (cstep_state c s ci) (map WC h)).
  rewrite IH. reflexivity.
Qed.

(* ---- safety ------------------------------------------------------------------------------------------------------ *)

Lemma sound_of_inv : forall s k, Inv s -> watermark_sound_stmt s k.
Proof.
  intros s k I. pose proof (inv_get k _ I) as [Im Ib Il Is Ic Ik]. destruct I as (H1 & _).
  unfold watermark_sound_stmt. cbv zeta.
  split; [exact Im|]. split.
  { rewrite Im in Ib |- *. unfold resume, base in *.
    destruct (meta0 (meta (get_side k s)) =? 0) eqn:E0; destruct (1 <? s_init s) eqn:E1; lia. }
  rewrite Forall_forall in Ik.
  split; [exact Il|]. split.
  { intros m Hm Hr. apply Is; auto. apply relevant_rel; auto. }
  split.
  { intros x Hx. destruct (Ic _ Hx) as (A & B & C). split; [exact A|]. split; [apply relevant_rel; exact B|].
    intros m Hm Hr. apply C; auto. apply relevant_rel; auto. }
  intros cl Hcl. destruct (Ik _ Hcl) as (C1 & C2 & C3). split; [exact C1|]. split; [exact C2|].
  intros x Hx. destruct (C3 _ Hx) as (D1 & D2 & D3 & D4).
  split; [exact D1|]. split; [exact D2|]. split; [apply relevant_rel; exact D3|].
  intros m Hm Hr. apply D4; auto. apply relevant_rel; auto.
Qed.

Lemma watermark_sound_waiting : forall c init (h : list witem) k, 1 <= init -> watermark_sound_stmt (wrun c init h) k.
Proof. intros. apply sound_of_inv, inv_wrun. assumption. Qed.

(* ---- monotonicity ------------------------------------------------------------------------------------------------ *)

Lemma limit_check_mono : forall c L qs s k,
  vol (get_side k s) <= vol (get_side k (snd (limit_check c L qs s))).
Proof.
  intros. unfold limit_check.
  destruct (L =? 0); [cbn [snd]; lia|]. destruct (L <=? _); [cbn [snd]; lia|]. destruct (L <=? _); [|cbn [snd]; lia].
  pose proof (num_waiting_mono c s qs) as M.
  destruct (num_waiting c s qs) as [n sd]. cbn [snd] in *.
  destruct k; cbn [get_side set_side s_h s_d]; lia.
Qed.

Lemma wstep_mono : forall c s wi k, Inv s -> vol (get_side k s) <= vol (get_side k (wstep c s wi)).
Proof.
  intros c s [ci|L b qs] k I; cbn [wstep].
  - rewrite cstep_is_run. apply run_from_mono, I.
  - pose proof (limit_check_mono c L qs s k) as M.
    destruct (limit_check c L qs s) as [[called refused] s']. cbn [snd] in M.
    destruct refused; [exact M|]. destruct k; cbn [commit get_side s_h s_d] in *; exact M.
Qed.

Lemma wrun_from_mono : forall c h s k, Inv s -> vol (get_side k s) <= vol (get_side k (wrun_from c s h)).
Proof.
  intros c. induction h as [|wi h IH]; intros s k I; cbn; [lia|].
  etransitivity; [apply (wstep_mono c s wi k I)|]. apply IH. apply inv_wstep, I.
Qed.

Lemma limit_check_recorded : forall c L qs s k,
  meta0 (meta (get_side k s)) <> 0 -> meta0 (meta (get_side k (snd (limit_check c L qs s)))) <> 0.
Proof.
  intros c L qs s k H. unfold limit_check.
  destruct (L =? 0); [exact H|]. destruct (L <=? _); [exact H|]. destruct (L <=? _); [|exact H].
  assert (PL : forall rem o sd, meta0 (meta sd) <> 0 -> meta0 (meta (log_call rem o sd)) <> 0)
    by (intros; apply recorded_stays; auto).
  assert (PS : forall n sd, meta0 (meta sd) <> 0 -> meta0 (meta (set_last n sd)) <> 0)
    by (intros; apply recorded_stays; auto).
  pose proof (scan_pres _ PL PS c (nonempty_at (s_init s) (s_chain s)) (s_init s) (height s)
                (pending_items (s_init s) (height s) (vol (s_d s))) 0 qs (s_d s)) as M.
  fold (num_waiting c s qs) in M.
  destruct (num_waiting c s qs) as [n sd]. cbn [snd] in *.
  destruct k; cbn [get_side set_side s_h s_d] in *; auto.
Qed.

Lemma wstep_recorded : forall c s wi k, Inv s ->
  meta0 (meta (get_side k s)) <> 0 -> meta0 (meta (get_side k (wstep c s wi))) <> 0.
Proof.
  intros c s [ci|L b qs] k I H; cbn [wstep].
  - rewrite cstep_is_run. apply run_from_recorded; assumption.
  - pose proof (limit_check_recorded c L qs s k H) as M.
    destruct (limit_check c L qs s) as [[called refused] s']. cbn [snd] in M.
    destruct refused; [exact M|]. destruct k; cbn [commit get_side s_h s_d] in *; exact M.
Qed.

Lemma wrun_from_recorded : forall c h s k, Inv s ->
  meta0 (meta (get_side k s)) <> 0 -> meta0 (meta (get_side k (wrun_from c s h))) <> 0.
Proof.
  intros c. induction h as [|wi h IH]; intros s k I H; cbn; [exact H|].
  apply IH; [apply inv_wstep, I | apply wstep_recorded; assumption].
Qed.

Lemma watermark_monotone_waiting : forall c init (h1 h2 : list witem) k, 1 <= init ->
  vol (get_side k (wrun c init h1)) <= vol (get_side k (wrun c init (h1 ++ h2))) /\
  meta0 (meta (get_side k (wrun c init h1))) <= meta0 (meta (get_side k (wrun c init (h1 ++ h2)))).
Proof.
  intros c init h1 h2 k H1.
  pose proof (inv_get k _ (inv_wrun c init h1 H1)) as I1.
  pose proof (inv_get k _ (inv_wrun c init (h1 ++ h2) H1)) as I2.
  assert (Hm : forall sd hi rel, SInv init hi rel sd -> meta0 (meta sd) = 0 \/ meta0 (meta sd) = vol sd).
  { intros sd hi rel I. rewrite (si_meta _ _ _ _ I). unfold resume.
    destruct (meta0 (meta sd) =? 0) eqn:E; [left; lia | right; reflexivity]. }
  rewrite wrun_init in I1, I2.
  assert (Happ : wrun c init (h1 ++ h2) = wrun_from c (wrun c init h1) h2) by apply wrun_from_app.
  pose proof (wrun_from_mono c h2 _ k (inv_wrun c init h1 H1)) as Mv. rewrite <- Happ in Mv.
  split; [exact Mv|].
  destruct (N.eq_dec (meta0 (meta (get_side k (wrun c init h1)))) 0) as [Z|Hnz]; [lia|].
  pose proof (wrun_from_recorded c h2 _ k (inv_wrun c init h1 H1) Hnz) as Hp. rewrite <- Happ in Hp.
  destruct (Hm _ _ _ I1) as [E1|E1]; [lia|].
  destruct (Hm _ _ _ I2) as [E2|E2]; lia.
Qed.

(* ---- what the check may step over -------------------------------------------------------------------------------- *)

(* One call of publishBlockInternal, whatever the submission loop does inside the check: the data watermark it
   leaves (in memory and recorded) is at most the chain height BEFORE the call, every committed block with
   transactions up to it has its data on the DA layer, and the header side is untouched by the check. *)
Lemma publish_steps_over_accepted_only : forall c init (h : list witem) L b qs, 1 <= init ->
  let s := wrun c init h in
  let s' := wstep c s (WPublish L b qs) in
  vol (s_d s') <= height s /\ meta0 (meta (s_d s')) <= height s /\
  (forall m, s_init s <= m <= vol (s_d s') -> nonempty_at (s_init s) (s_chain s) m = true -> In m (acc (s_d s'))) /\
  vol (s_h s') = vol (s_h s) /\ meta (s_h s') = meta (s_h s) /\ acc (s_h s') = acc (s_h s).
Proof.
  intros c init h L b qs H1 s s'.
  pose proof (inv_wrun c init h H1) as I. fold s in I.
  pose proof (inv_limit_check c L qs s I) as Il.
  assert (Hh : s_h (snd (limit_check c L qs s)) = s_h s /\ s_chain (snd (limit_check c L qs s)) = s_chain s /\
               s_init (snd (limit_check c L qs s)) = s_init s).
  { unfold limit_check. destruct (L =? 0); [auto|]. destruct (L <=? _); [auto|]. destruct (L <=? _); [|auto].
    destruct (num_waiting c s qs) as [n sd]. cbn [snd]. auto. }
  unfold s'. cbn [wstep].
  destruct (limit_check c L qs s) as [[called refused] s1]. cbn [snd] in *.
  destruct Hh as (Eh & Ec & Ei).
  assert (Hgt : height s1 = height s) by (unfold height; rewrite Ec, Ei; reflexivity).
  destruct Il as (_ & _ & Id). rewrite Hgt, Ei in Id. unfold rel_d in Id. rewrite Ec, Ei in Id.
  pose proof (si_le _ _ _ _ Id) as Hle. pose proof (si_meta _ _ _ _ Id) as Hme.
  assert (Hrec : meta0 (meta (s_d s1)) <= height s).
  { unfold resume in Hme. destruct (meta0 (meta (s_d s1)) =? 0) eqn:E; lia. }
  destruct refused; cbn [commit s_d s_h]; rewrite Eh; repeat split; auto; apply (si_sound _ _ _ _ Id).
Qed.

(* ---- liveness from every state reachable with both writers ------------------------------------------------------- *)

Lemma eventually_waiting : forall c init (hist : list witem) k fails sc kd, 1 <= init ->
  forallb nonprogress fails = true -> (length fails < max_attempts)%nat ->
  let s := wrun c init hist in
  height s <= k ->
  let s' := fst (step c s (ITick kd (fails ++ OAccept k :: sc))) in
  (forall m, s_init s <= m <= height s -> relevant kd s m -> In m (acc (get_side kd s'))) /\
  (kd = KHeader -> vol (s_h s') = height s).
Proof.
  intros c init hist k fails sc kd H1 Hf Hl s Hk s'.
  pose proof (inv_get kd _ (inv_wrun c init hist H1)) as I. fold s in I.
  assert (Hi : s_init s = init) by apply wrun_init.
  pose proof (tick_eventually c (rel_of kd s) (s_init s) (height s) fails k sc (get_side kd s)
                ltac:(lia) I Hf Hl Hk) as (I' & Hall & Hv).
  unfold s'. cbn [step].
  destruct (tick_side c (rel_of kd s) (s_init s) (height s) (fails ++ OAccept k :: sc) (get_side kd s))
    as [[[sd' sc'] r] el]. cbn [fst] in *.
  split.
  - intros m Hm Hr. replace (get_side kd (set_side kd s sd')) with sd' by (destruct kd; reflexivity).
    apply Hall; [lia|]. apply relevant_rel; auto.
  - intros ->. cbn [set_side s_h]. apply Hv. reflexivity.
Qed.

(* ---- the comparator walks exactly the history -------------------------------------------------------------------- *)

Lemma check_witem_state : forall c s wi o,
  fst (Check.SubmitterCheck.check_witem c s wi o) = wstep c s wi.
Proof.
  intros c s [ci|L b qs] o; cbn [Check.SubmitterCheck.check_witem wstep].
  - apply check_citem_state.
  - destruct (limit_check c L qs s) as [[called refused] s']. destruct refused; reflexivity.
Qed.

Lemma check_witems_state : forall c h os s, length h = length os ->
  fst (Check.SubmitterCheck.check_witems c s h os) = wrun_from c s h.
Proof.
  intros c. induction h as [|wi h IH]; intros os s Hlen; destruct os as [|o os]; try discriminate Hlen.
  - reflexivity.
  - cbn [Check.SubmitterCheck.check_witems].
    pose proof (check_witem_state c s wi o) as E1.
    destruct (Check.SubmitterCheck.check_witem c s wi o) as [s1 e1]. cbn [fst] in E1.
    specialize (IH os s1 ltac:(cbn [length] in Hlen; lia)).
    destruct (Check.SubmitterCheck.check_witems c s1 h os) as [s2 e2]. cbn [fst] in *.
    change (wrun_from c s (wi :: h)) with (wrun_from c (wstep c s wi) h). rewrite <- E1. exact IH.
Qed.
