(* Proofs/ThrottleProofs.v — lemmas about Model/Throttle.v (property C08). *)
From Coq Require Import NArith List Bool Lia ZifyBool ZifyN ZifyNat.
From Verif Require Import Model.Throttle.
Import ListNotations.
Open Scope N_scope.

(* ---- lists of heights ------------------------------------------------------------------------------ *)
Lemma seqN_In : forall n a x, In x (seqN a n) <-> a <= x < a + N.of_nat n.
Proof.
  induction n as [|n IH]; intros a x; cbn [seqN In].
  - lia.
  - rewrite IH. lia.
Qed.

Lemma seqN_length : forall n a, length (seqN a n) = n.
Proof. induction n as [|n IH]; intros a; cbn [seqN length]; [reflexivity | now rewrite IH]. Qed.

Lemma seqN_NoDup : forall n a, NoDup (seqN a n).
Proof.
  induction n as [|n IH]; intros a; cbn [seqN]; constructor.
  - rewrite seqN_In. lia.
  - apply IH.
Qed.

Lemma memN_In : forall x l, memN x l = true <-> In x l.
Proof.
  intros x l. unfold memN. rewrite existsb_exists. split.
  - intros [y [Hy He]]. apply N.eqb_eq in He. now subst.
  - intros Hi. exists x. split; [assumption | apply N.eqb_refl].
Qed.

Lemma memN_false : forall x l, memN x l = false <-> ~ In x l.
Proof.
  intros x l. rewrite <- memN_In. destruct (memN x l); split; intro H; try reflexivity; try discriminate.
  exfalso. now apply H.
Qed.

Lemma filter_nil_all : forall (A : Type) (f : A -> bool) l, (forall x, In x l -> f x = false) -> filter f l = [].
Proof.
  intros A f l. induction l as [|a l IH]; intros H; cbn [filter]; [reflexivity|].
  rewrite (H a (or_introl eq_refl)). apply IH. intros x Hx. apply H. now right.
Qed.

(* strictly increasing and above w *)
Fixpoint inc (w : N) (l : list N) : Prop :=
  match l with [] => True | x :: r => w < x /\ inc x r end.

Lemma inc_all_gt : forall l w h, inc w l -> In h l -> w < h.
Proof.
  induction l as [|x l IH]; intros w h Hi Hin; cbn [inc In] in *; [contradiction|].
  destruct Hi as [Hw Hx]. destruct Hin as [->|Hin]; [assumption|].
  specialize (IH x h Hx Hin). lia.
Qed.

Lemma inc_filter_seqN : forall (p : N -> bool) n a w, w < a -> inc w (filter p (seqN a n)).
Proof.
  intros p. induction n as [|n IH]; intros a w Hw; cbn [seqN filter inc]; [exact I|].
  destruct (p a); cbn [inc].
  - split; [assumption | apply IH; lia].
  - apply IH. lia.
Qed.

Lemma inc_seqN : forall n a w, w < a -> inc w (seqN a n).
Proof.
  induction n as [|n IH]; intros a w Hw; cbn [seqN inc]; [exact I|]. split; [assumption | apply IH; lia].
Qed.

Lemma inc_split : forall a b w, a <> [] -> inc w (a ++ b) ->
  w < last a 0 /\ inc (last a 0) b /\ (forall h, In h a -> h <= last a 0) /\ In (last a 0) a.
Proof.
  induction a as [|x a IH]; intros b w Hne Hi; [congruence|].
  destruct a as [|y a].
  - cbn [app inc last In] in *. destruct Hi as [Hw Hb]. repeat split; try assumption.
    + intros h [->|[]]. lia.
    + now left.
  - change (last (x :: y :: a) 0) with (last (y :: a) 0).
    change ((x :: y :: a) ++ b) with (x :: ((y :: a) ++ b)) in Hi. cbn [inc] in Hi. destruct Hi as [Hw Hx].
    destruct (IH b x ltac:(discriminate) Hx) as [H1 [H2 [H3 H4]]].
    repeat split.
    + lia.
    + assumption.
    + intros h [->|Hh]; [lia | now apply H3].
    + now right.
Qed.

(* ---- marks ------------------------------------------------------------------------------------------ *)
Lemma set_mark_lt : forall w p x, w < x -> set_mark (w, p) x = (x, x).
Proof. intros w p x H. unfold set_mark. cbn [fst]. destruct (N.ltb_spec w x); [reflexivity | lia]. Qed.

Lemma get_pending_ok : forall w h, w <= h -> get_pending w h = Some (seqN (w + 1) (N.to_nat (h - w))).
Proof.
  intros w h H. unfold get_pending. destruct (N.eqb_spec w h) as [->|Hne].
  - now rewrite N.sub_diag.
  - destruct (N.ltb_spec h w); [lia | reflexivity].
Qed.

Lemma sub64_le : forall a b, b <= a -> sub64 a b = a - b.
Proof. intros a b H. unfold sub64. destruct (N.leb_spec b a); [reflexivity | lia]. Qed.

(* ---- submitToDA -------------------------------------------------------------------------------------- *)
Lemma submit_loop_spec : forall fuel rem sc w p cs acc e w' p',
  inc w rem -> submit_loop fuel rem sc (w, p) = (cs, acc, e, (w', p')) ->
  exists rest, rem = acc ++ rest /\ inc w' rest /\ w <= w' /\ (forall h, In h acc -> h <= w') /\
               (((w', p') = (w, p) /\ acc = []) \/ (p' = w' /\ In w' acc)).
Proof.
  induction fuel as [|f IH]; intros rem sc w p cs acc e w' p' Hinc Heq; cbn [submit_loop] in Heq.
  - inversion Heq; subst. exists rem. split; [reflexivity|]. split; [assumption|]. split; [lia|]. split; [intros h []|]. left. split; reflexivity.
  - destruct sc as [|o sc'].
    + inversion Heq; subst. exists rem. split; [reflexivity|]. split; [assumption|]. split; [lia|]. split; [intros h []|]. left. split; reflexivity.
    + remember (match o with OAccept k => Nat.min (N.to_nat k) (length rem) | OAcceptAll => length rem | OFail => O end) as take eqn:Htake.
      assert (Hle : (take <= length rem)%nat) by (subst take; destruct o; lia).
      destruct take as [|t].
      * destruct (submit_loop f rem sc' (w, p)) as [[[cs0 acc0] e0] [w0 p0]] eqn:Hrec.
        inversion Heq; subst. eapply IH; eassumption.
      * assert (Hsub : firstn (S t) rem <> []) by (destruct rem; cbn in *; [lia | discriminate]).
        pose proof (firstn_skipn (S t) rem) as Hfs.
        rewrite <- Hfs in Hinc.
        destruct (inc_split _ _ _ Hsub Hinc) as [H1 [H2 [H3 H4]]].
        rewrite (set_mark_lt _ _ _ H1) in Heq.
        destruct (skipn (S t) rem) as [|r0 rest0] eqn:Hsk.
        -- remember (firstn (S t) rem) as sub eqn:Esub. inversion Heq; subst cs acc e w' p'. exists []. rewrite app_nil_r in Hfs.
           split; [rewrite app_nil_r; now symmetry|]. split; [exact I|]. split; [lia|]. split; [assumption|].
           right. split; [reflexivity | assumption].
        -- remember (firstn (S t) rem) as sub eqn:Esub.
           destruct (submit_loop f (r0 :: rest0) sc' (last sub 0, last sub 0)) as [[[cs0 acc0] e0] [w0 p0]] eqn:Hrec.
           inversion Heq; subst cs acc e w' p'.
           destruct (IH _ _ _ _ _ _ _ _ _ H2 Hrec) as [rest [E1 [E2 [E3 [E4 E5]]]]].
           exists rest. split; [|split; [|split; [|split]]].
           ++ rewrite <- app_assoc, <- E1. now symmetry.
           ++ assumption.
           ++ lia.
           ++ intros h Hh. apply in_app_or in Hh. destruct Hh as [Hh|Hh]; [specialize (H3 h Hh); lia | now apply E4].
           ++ right. destruct E5 as [[E5 E6]|[E5 E6]].
              ** inversion E5; subst. split; [reflexivity|]. apply in_or_app. now left.
              ** split; [assumption|]. apply in_or_app. now right.
Qed.

(* a DA layer that accepts after an outage shorter than the attempts of one iteration *)
Definition eventually_accepts (sc : list outcome) : Prop :=
  exists n r, (n < max_attempts)%nat /\ sc = repeat OFail n ++ OAcceptAll :: r.

Lemma submit_loop_accepting : forall n fuel rem r wp, (n < fuel)%nat -> rem <> [] ->
  submit_loop fuel rem (repeat OFail n ++ OAcceptAll :: r) wp = (repeat rem (S n), rem, false, set_mark wp (last rem 0)).
Proof.
  induction n as [|n IH]; intros fuel rem r wp Hf Hne; (destruct fuel as [|f]; [lia|]).
  - cbn [repeat app submit_loop]. destruct rem as [|x rem]; [congruence|].
    cbn [length]. rewrite firstn_all2 by (cbn [length]; lia).
    change (S (length rem)) with (length (x :: rem)). rewrite skipn_all. reflexivity.
  - cbn [repeat app submit_loop]. rewrite IH by (try lia; assumption). reflexivity.
Qed.

(* ---- numWaitingData ---------------------------------------------------------------------------------- *)
Lemma waiting_loop_spec : forall s n a k w p cnt w' p',
  waiting_loop s (seqN a n) k (w, p) = (cnt, (w', p')) -> w < a -> (k = 0 -> a = w + 1) ->
  cnt = k + N.of_nat (length (filter (nonempty s) (seqN a n))) /\
  w <= w' /\ w' < a + N.of_nat n /\
  (forall h, w < h <= w' -> nonempty s h = false) /\
  ((w', p') = (w, p) \/ p' = w').
Proof.
  intros s. induction n as [|n IH]; intros a k w p cnt w' p' Heq Hw Hk; cbn [seqN waiting_loop filter] in *.
  - inversion Heq; subst. cbn [length]. repeat split; try lia. now left.
  - destruct (nonempty s a) eqn:Hne.
    + destruct (IH _ _ _ _ _ _ _ Heq ltac:(lia) ltac:(lia)) as [C1 [C2 [C3 [C4 C5]]]].
      cbn [length]. repeat split; try lia; assumption.
    + destruct (N.eqb_spec k 0) as [->|Hk0].
      * rewrite (set_mark_lt _ _ _ Hw) in Heq.
        destruct (IH _ _ _ _ _ _ _ Heq ltac:(lia) ltac:(lia)) as [C1 [C2 [C3 [C4 C5]]]].
        repeat split; try lia.
        -- intros h Hh. destruct (N.eq_dec h a) as [->|Hha]; [assumption|]. apply C4. specialize (Hk eq_refl). lia.
        -- right. destruct C5 as [C5|C5]; [now inversion C5 | assumption].
      * destruct (IH _ _ _ _ _ _ _ Heq ltac:(lia) ltac:(lia)) as [C1 [C2 [C3 [C4 C5]]]].
        repeat split; try lia; assumption.
Qed.

(* ---- the invariant ------------------------------------------------------------------------------------ *)
Record Inv (c : cfg) (s : state) : Prop := {
  i_hlo : c_init c - 1 <= t_wh s;
  i_hhi : t_wh s <= t_height s;
  i_dlo : c_init c - 1 <= t_wd s;
  i_dhi : t_wd s <= t_height s;
  i_ph : t_ph s = t_wh s \/ (t_ph s = 0 /\ t_wh s = c_init c - 1);
  i_pd : t_pd s = t_wd s \/ (t_pd s = 0 /\ t_wd s = c_init c - 1);
  i_nes : forall h, In h (t_nes s) -> c_init c < h <= t_height s;
  (* the DA layer holds exactly the headers up to the header watermark *)
  i_dah : forall h, In h (t_dah s) <-> c_init c <= h <= t_wh s;
  (* the DA layer holds no data above the data watermark, and all non-empty data up to it *)
  i_dad1 : forall h, In h (t_dad s) -> h <= t_wd s;
  i_dad2 : forall h, c_init c <= h <= t_wd s -> nonempty s h = true -> In h (t_dad s);
  (* the limit is enforced on the headers *)
  i_thr : c_limit c <> 0 -> t_height s - t_wh s <= c_limit c
}.

Lemma boot_mark_id : forall c w p, 1 <= c_init c -> c_init c - 1 <= w ->
  (p = w \/ (p = 0 /\ w = c_init c - 1)) -> boot_mark c p = w.
Proof.
  intros c w p Hi Hw Hp. unfold boot_mark.
  destruct (N.ltb_spec 1 (c_init c)); destruct (N.eqb_spec p 0); cbn [andb]; lia.
Qed.

Lemma init_inv : forall c, 1 <= c_init c -> Inv c (init_state c).
Proof.
  intros c Hi. assert (Hb : boot_mark c 0 = c_init c - 1) by (apply boot_mark_id; lia).
  unfold init_state. rewrite Hb. constructor; cbn; try lia; try (intros h Hh; tauto); try (intros h _ Hf; discriminate).
Qed.

Lemma restart_inv : forall c s, 1 <= c_init c -> Inv c s -> Inv c (restart c s).
Proof.
  intros c s Hi I. destruct I. unfold restart.
  rewrite (boot_mark_id c (t_wh s) (t_ph s)) by assumption.
  rewrite (boot_mark_id c (t_wd s) (t_pd s)) by assumption.
  constructor; cbn; assumption.
Qed.

Lemma restart_same : forall c s, 1 <= c_init c -> Inv c s ->
  restart c s = s.
Proof.
  intros c s Hi I. destruct I. unfold restart.
  rewrite (boot_mark_id c (t_wh s) (t_ph s)) by assumption.
  rewrite (boot_mark_id c (t_wd s) (t_pd s)) by assumption.
  now destruct s.
Qed.

Lemma headers_iter_inv : forall c s sc s' r, 1 <= c_init c -> Inv c s -> headers_iter s sc = (s', r) -> Inv c s'.
Proof.
  intros c s sc s' r Hi I Heq. unfold headers_iter in Heq.
  destruct (N.eqb_spec (t_wh s) (t_height s)) as [E|E]; [inversion Heq; now subst|].
  rewrite (get_pending_ok _ _ (i_hhi _ _ I)) in Heq.
  destruct (seqN (t_wh s + 1) (N.to_nat (t_height s - t_wh s))) as [|x items] eqn:Hit; [inversion Heq; now subst|].
  rewrite <- Hit in Heq.
  destruct (submit_loop max_attempts _ sc (t_wh s, t_ph s)) as [[[cs acc] e] [w p]] eqn:Hsl.
  inversion Heq; subst s' r; clear Heq.
  assert (Hinc : inc (t_wh s) (seqN (t_wh s + 1) (N.to_nat (t_height s - t_wh s)))).
  { apply inc_seqN. lia. }
  destruct (submit_loop_spec _ _ _ _ _ _ _ _ _ _ Hinc Hsl) as [rest [E1 [E2 [E3 [E4 E5]]]]].
  assert (Hmem : forall h, In h (acc ++ rest) <-> t_wh s + 1 <= h <= t_height s).
  { intros h. rewrite <- E1, seqN_In. pose proof (i_hhi _ _ I). lia. }
  assert (Hw : w <= t_height s).
  { destruct E5 as [[E5 _]|[_ E5]]; [inversion E5; subst; apply (i_hhi _ _ I)|].
    apply (Hmem w). apply in_or_app. now left. }
  destruct I. constructor; cbn; try assumption; try lia.
  - destruct E5 as [[E5 _]|[E5 _]]; [inversion E5; subst; assumption | now left].
  - intros h. rewrite in_app_iff, i_dah0. split.
    + intros [Hh|Hh]; [lia|]. specialize (E4 h Hh). assert (In h (acc ++ rest)) by (apply in_or_app; now left).
      apply Hmem in H. lia.
    + intros Hh. destruct (N.le_gt_cases h (t_wh s)) as [Hl|Hg]; [left; lia|]. right.
      assert (Hin : In h (acc ++ rest)) by (apply Hmem; lia).
      apply in_app_or in Hin. destruct Hin as [Hin|Hin]; [assumption|].
      pose proof (inc_all_gt _ _ _ E2 Hin). lia.
Qed.

Lemma data_items_inc : forall s, inc (t_wd s) (filter (nonempty s) (seqN (t_wd s + 1) (N.to_nat (t_height s - t_wd s)))).
Proof. intros s. apply inc_filter_seqN. lia. Qed.

Lemma data_iter_inv : forall c s sc s' r, 1 <= c_init c -> Inv c s -> data_iter s sc = (s', r) -> Inv c s'.
Proof.
  intros c s sc s' r Hi I Heq. unfold data_iter in Heq.
  destruct (N.eqb_spec (t_wd s) (t_height s)) as [E|E]; [inversion Heq; now subst|].
  rewrite (get_pending_ok _ _ (i_dhi _ _ I)) in Heq.
  destruct (filter (nonempty s) (seqN (t_wd s + 1) (N.to_nat (t_height s - t_wd s)))) as [|x items] eqn:Hit; [inversion Heq; now subst|].
  rewrite <- Hit in Heq.
  destruct (submit_loop max_attempts _ sc (t_wd s, t_pd s)) as [[[cs acc] e] [w p]] eqn:Hsl.
  inversion Heq; subst s' r; clear Heq.
  destruct (submit_loop_spec _ _ _ _ _ _ _ _ _ _ (data_items_inc s) Hsl) as [rest [E1 [E2 [E3 [E4 E5]]]]].
  assert (Hmem : forall h, In h (acc ++ rest) <-> (t_wd s + 1 <= h <= t_height s /\ nonempty s h = true)).
  { intros h. rewrite <- E1, filter_In, seqN_In. pose proof (i_dhi _ _ I). lia. }
  assert (Hw : w <= t_height s).
  { destruct E5 as [[E5 _]|[_ E5]]; [inversion E5; subst; apply (i_dhi _ _ I)|].
    apply (Hmem w). apply in_or_app. now left. }
  destruct I. constructor; cbn; try assumption; try lia.
  - destruct E5 as [[E5 _]|[E5 _]]; [inversion E5; subst; assumption | now left].
  - intros h Hh. apply in_app_or in Hh. destruct Hh as [Hh|Hh]; [specialize (i_dad3 h Hh); lia | now apply E4].
  - intros h Hh Hne. apply in_or_app. destruct (N.le_gt_cases h (t_wd s)) as [Hl|Hg]; [left; apply i_dad4; [lia | assumption]|].
    right. assert (Hin : In h (acc ++ rest)) by (apply Hmem; split; [lia | assumption]).
    apply in_app_or in Hin. destruct Hin as [Hin|Hin]; [assumption|].
    pose proof (inc_all_gt _ _ _ E2 Hin). lia.
Qed.

(* the side effect of numWaitingData *)
Lemma num_waiting_spec : forall c s n w p, Inv c s -> num_waiting s = (n, (w, p)) ->
  n = N.of_nat (length (filter (nonempty s) (seqN (t_wd s + 1) (N.to_nat (t_height s - t_wd s))))) /\
  Inv c (mk_state (t_height s) (t_nes s) (t_wh s) (t_ph s) w p (t_dah s) (t_dad s)).
Proof.
  intros c s n w p I Heq. unfold num_waiting in Heq. rewrite (get_pending_ok _ _ (i_dhi _ _ I)) in Heq.
  destruct (waiting_loop_spec _ _ _ _ _ _ _ _ _ Heq ltac:(lia) ltac:(lia)) as [C1 [C2 [C3 [C4 C5]]]].
  split; [lia|].
  pose proof (i_dhi _ _ I) as Hd.
  destruct I. constructor; cbn; try assumption; try lia.
  - destruct C5 as [C5|C5]; [inversion C5; subst; assumption | now left].
  - intros h Hh. specialize (i_dad3 h Hh). lia.
  - intros h Hh Hne. destruct (N.le_gt_cases h (t_wd s)) as [Hl|Hg]; [apply i_dad4; [lia | assumption]|].
    change (nonempty s h = true) in Hne. rewrite (C4 h) in Hne; [discriminate | lia].
Qed.

Lemma limit_check_inv : forall c s r s1, Inv c s -> limit_check c s = (r, s1) ->
  Inv c s1 /\ t_height s1 = t_height s /\ t_wh s1 = t_wh s /\ t_nes s1 = t_nes s.
Proof.
  intros c s r s1 I Heq. unfold limit_check in Heq.
  destruct (c_limit c =? 0); [inversion Heq; subst; auto|].
  destruct (c_limit c <=? sub64 (t_height s) (t_wh s)); [inversion Heq; subst; auto|].
  destruct (c_limit c <=? sub64 (t_height s) (t_wd s)); [|inversion Heq; subst; auto].
  destruct (num_waiting s) as [n [w p]] eqn:Hn. inversion Heq; subst; clear Heq.
  destruct (num_waiting_spec _ _ _ _ _ I Hn) as [_ I']. auto.
Qed.

Lemma produce_inv : forall c s ne, 1 <= c_init c -> Inv c s -> Inv c (produce c s ne).
Proof.
  intros c s ne Hi I. unfold produce. destruct (limit_check c s) as [r s1] eqn:Hlc.
  destruct (limit_check_inv _ _ _ _ I Hlc) as [I1 [Eh [Ew En]]].
  destruct r; [assumption|].
  assert (Hthr : c_limit c <> 0 -> t_height s - t_wh s < c_limit c).
  { intros HL. unfold limit_check in Hlc. destruct (N.eqb_spec (c_limit c) 0); [contradiction|].
    rewrite (sub64_le _ _ (i_hhi _ _ I)) in Hlc.
    destruct (N.leb_spec (c_limit c) (t_height s - t_wh s)); [inversion Hlc | assumption]. }
  destruct I1. constructor; cbn; try assumption; try lia.
  - intros h Hh. destruct (ne && negb (t_height s1 + 1 <=? c_init c)) eqn:Hne.
    + destruct Hh as [<-|Hh]; [|specialize (i_nes0 h Hh); lia].
      apply andb_prop in Hne. destruct Hne as [_ Hne].
      destruct (N.leb_spec (t_height s1 + 1) (c_init c)); [discriminate | lia].
    + specialize (i_nes0 h Hh). lia.
  - intros h Hh Hne. apply i_dad4; [assumption|].
    unfold nonempty in *. cbn [t_nes] in *. destruct (ne && negb (t_height s1 + 1 <=? c_init c)); [|assumption].
    unfold memN in *. cbn [existsb] in Hne. destruct (N.eqb_spec h (t_height s1 + 1)); [lia | assumption].
Qed.

Lemma produce_n_inv : forall c n s, 1 <= c_init c -> Inv c s -> Inv c (fst (produce_n c s n)).
Proof.
  intros c. induction n as [|n IH]; intros s Hi I; cbn [produce_n]; [assumption|].
  specialize (IH (produce c s false) Hi (produce_inv c s false Hi I)).
  destruct (produce_n c (produce c s false) n) as [s2 m]. assumption.
Qed.

Lemma step_inv : forall c s i, 1 <= c_init c -> Inv c s -> Inv c (fst (step c s i)).
Proof.
  intros c s i Hi I. destruct i as [ne|n|sc|sc|]; cbn [step].
  - cbn [fst]. now apply produce_inv.
  - pose proof (produce_n_inv c (N.to_nat n) s Hi I) as H.
    destruct (produce_n c s (N.to_nat n)) as [s' m]. assumption.
  - destruct (headers_iter s sc) as [s' [r cs]] eqn:Hh. cbn [fst]. eapply headers_iter_inv; eassumption.
  - destruct (data_iter s sc) as [s' [r cs]] eqn:Hd. cbn [fst]. eapply data_iter_inv; eassumption.
  - cbn [fst]. now apply restart_inv.
Qed.

Lemma run_from_fst : forall c h s, fst (run_from c s h) = fold_left (fun s i => fst (step c s i)) h s.
Proof.
  intros c. induction h as [|i h IH]; intros s; cbn [run_from fold_left]; [reflexivity|].
  destruct (step c s i) as [s1 o] eqn:Hs. specialize (IH s1).
  destruct (run_from c s1 h) as [s2 os]. cbn [fst] in *. assumption.
Qed.

Lemma run_from_inv : forall c h s, 1 <= c_init c -> Inv c s -> Inv c (fst (run_from c s h)).
Proof.
  intros c h s Hi. rewrite run_from_fst. revert s.
  induction h as [|i h IH]; intros s I; cbn [fold_left]; [assumption|].
  apply IH. now apply step_inv.
Qed.

Lemma final_inv : forall c h, 1 <= c_init c -> Inv c (final c h).
Proof. intros c h Hi. unfold final, run. apply run_from_inv; [assumption | now apply init_inv]. Qed.

Lemma final_app : forall c h1 h2, final c (h1 ++ h2) = fst (run_from c (final c h1) h2).
Proof. intros c h1 h2. unfold final, run. rewrite !run_from_fst. apply fold_left_app. Qed.

(* ---- a refusal is justified ------------------------------------------------------------------------- *)
Lemma committed_In : forall c s h, 1 <= c_init c -> c_init c - 1 <= t_height s ->
  (In h (committed c s) <-> c_init c <= h <= t_height s).
Proof. intros c s h Hi Hh. unfold committed. rewrite seqN_In. lia. Qed.

Lemma waiting_blocks_ge : forall c s ws, NoDup ws ->
  (forall h, In h ws -> In h (committed c s) /\ waits s h = true) ->
  N.of_nat (length ws) <= num_waiting_blocks c s.
Proof.
  intros c s ws Hnd Hall. unfold num_waiting_blocks.
  assert (Hincl : incl ws (filter (waits s) (committed c s))).
  { intros h Hh. apply filter_In. now apply Hall. }
  pose proof (NoDup_incl_length Hnd Hincl). lia.
Qed.

Lemma refusal_justified : forall c s, 1 <= c_init c -> Inv c s -> refused c s = true ->
  c_limit c <= num_waiting_blocks c s.
Proof.
  intros c s Hi I Hr. unfold refused, limit_check in Hr.
  pose proof (i_hhi _ _ I) as Hhh. pose proof (i_hlo _ _ I) as Hhl.
  pose proof (i_dhi _ _ I) as Hdh. pose proof (i_dlo _ _ I) as Hdl.
  destruct (N.eqb_spec (c_limit c) 0) as [E0|E0]; [discriminate|].
  rewrite (sub64_le _ _ Hhh) in Hr.
  destruct (N.leb_spec (c_limit c) (t_height s - t_wh s)) as [HA|HA].
  - (* headers: every block above the header watermark has no header on the DA layer *)
    pose proof (waiting_blocks_ge c s (seqN (t_wh s + 1) (N.to_nat (t_height s - t_wh s))) (seqN_NoDup _ _)) as H.
    rewrite seqN_length in H. etransitivity; [|apply H]; [lia|].
    intros h Hh. apply seqN_In in Hh. split.
    + apply committed_In; [assumption | lia | lia].
    + unfold waits. apply orb_true_iff. left. apply negb_true_iff, memN_false.
      intro Hin. apply (i_dah _ _ I) in Hin. lia.
  - rewrite (sub64_le _ _ Hdh) in Hr.
    destruct (N.leb_spec (c_limit c) (t_height s - t_wd s)) as [HB|HB]; [|discriminate].
    destruct (num_waiting s) as [n [w p]] eqn:Hn. cbn [fst] in Hr.
    destruct (num_waiting_spec _ _ _ _ _ I Hn) as [En _].
    apply N.leb_le in Hr.
    (* data: the non-empty blocks above the data watermark have no data on the DA layer *)
    pose proof (waiting_blocks_ge c s (filter (nonempty s) (seqN (t_wd s + 1) (N.to_nat (t_height s - t_wd s))))
                  (NoDup_filter _ (seqN_NoDup _ _))) as H.
    etransitivity; [|apply H]; [lia|].
    intros h Hh. apply filter_In in Hh. destruct Hh as [Hh Hne]. apply seqN_In in Hh. split.
    + apply committed_In; [assumption | lia | lia].
    + unfold waits. apply orb_true_iff. right. rewrite Hne. cbn [andb]. apply negb_true_iff, memN_false.
      intro Hin. apply (i_dad1 _ _ I) in Hin. lia.
Qed.

(* ---- resumption --------------------------------------------------------------------------------------- *)
Definition all_headers_on_da (c : cfg) (s : state) : Prop :=
  forall h, c_init c <= h <= t_height s -> In h (t_dah s).
Definition all_data_on_da (c : cfg) (s : state) : Prop :=
  forall h, c_init c <= h <= t_height s -> nonempty s h = true -> In h (t_dad s).

Lemma settled_zero : forall c s, 1 <= c_init c -> c_init c - 1 <= t_height s ->
  all_headers_on_da c s -> all_data_on_da c s -> num_waiting_blocks c s = 0.
Proof.
  intros c s Hi Hh HH HD. unfold num_waiting_blocks. rewrite filter_nil_all; [reflexivity|].
  intros h Hin. apply committed_In in Hin; try assumption. unfold waits.
  rewrite (proj2 (memN_In h (t_dah s)) (HH h Hin)). cbn [negb orb].
  destruct (nonempty s h) eqn:Hne; [|reflexivity].
  rewrite (proj2 (memN_In h (t_dad s)) (HD h Hin Hne)). reflexivity.
Qed.

Lemma headers_iter_frame : forall s sc s' r, headers_iter s sc = (s', r) ->
  t_height s' = t_height s /\ t_nes s' = t_nes s /\ t_dad s' = t_dad s /\ t_wd s' = t_wd s.
Proof.
  intros s sc s' r Heq. unfold headers_iter in Heq.
  destruct (t_wh s =? t_height s); [inversion Heq; now subst|].
  destruct (get_pending (t_wh s) (t_height s)) as [[|x l]|]; [inversion Heq; now subst | | inversion Heq; now subst].
  destruct (submit_loop max_attempts (x :: l) sc (t_wh s, t_ph s)) as [[[cs acc] e] [w p]].
  inversion Heq; subst. cbn. auto.
Qed.

Lemma data_iter_frame : forall s sc s' r, data_iter s sc = (s', r) ->
  t_height s' = t_height s /\ t_nes s' = t_nes s /\ t_dah s' = t_dah s /\ t_wh s' = t_wh s.
Proof.
  intros s sc s' r Heq. unfold data_iter in Heq.
  destruct (t_wd s =? t_height s); [inversion Heq; now subst|].
  destruct (get_pending (t_wd s) (t_height s)) as [pending|]; [|inversion Heq; now subst].
  destruct (filter (nonempty s) pending) as [|x l]; [inversion Heq; now subst|].
  destruct (submit_loop max_attempts (x :: l) sc (t_wd s, t_pd s)) as [[[cs acc] e] [w p]].
  inversion Heq; subst. cbn. auto.
Qed.

Lemma headers_accepting : forall c s sc s' r, Inv c s -> eventually_accepts sc ->
  headers_iter s sc = (s', r) -> all_headers_on_da c s'.
Proof.
  intros c s sc s' r I [n [rr [Hn ->]]] Heq. unfold headers_iter in Heq.
  destruct (N.eqb_spec (t_wh s) (t_height s)) as [E|E].
  { inversion Heq; subst. intros h Hh. apply (i_dah _ _ I). lia. }
  rewrite (get_pending_ok _ _ (i_hhi _ _ I)) in Heq.
  destruct (seqN (t_wh s + 1) (N.to_nat (t_height s - t_wh s))) as [|x items] eqn:Hit.
  { pose proof (i_hhi _ _ I). apply (f_equal (@length N)) in Hit. rewrite seqN_length in Hit. cbn in Hit. lia. }
  rewrite submit_loop_accepting in Heq by (try assumption; discriminate).
  destruct (set_mark (t_wh s, t_ph s) (last (x :: items) 0)) as [w p].
  inversion Heq; subst; clear Heq. intros h Hh. cbn in *. apply in_or_app.
  destruct (N.le_gt_cases h (t_wh s)) as [Hl|Hg]; [left; apply (i_dah _ _ I); lia|].
  right. rewrite <- Hit. apply seqN_In. pose proof (i_hhi _ _ I). lia.
Qed.

Lemma data_accepting : forall c s sc s' r, Inv c s -> eventually_accepts sc ->
  data_iter s sc = (s', r) -> all_data_on_da c s'.
Proof.
  intros c s sc s' r I [n [rr [Hn ->]]] Heq. unfold data_iter in Heq.
  destruct (N.eqb_spec (t_wd s) (t_height s)) as [E|E].
  { inversion Heq; subst. intros h Hh Hne. apply (i_dad2 _ _ I); [lia | assumption]. }
  rewrite (get_pending_ok _ _ (i_dhi _ _ I)) in Heq.
  assert (Hsmall : forall h, c_init c <= h <= t_height s -> nonempty s h = true ->
            In h (t_dad s) \/ In h (filter (nonempty s) (seqN (t_wd s + 1) (N.to_nat (t_height s - t_wd s))))).
  { intros h Hh Hne. destruct (N.le_gt_cases h (t_wd s)) as [Hl|Hg]; [left; apply (i_dad2 _ _ I); [lia | assumption]|].
    right. apply filter_In. split; [|assumption]. apply seqN_In. pose proof (i_dhi _ _ I). lia. }
  destruct (filter (nonempty s) (seqN (t_wd s + 1) (N.to_nat (t_height s - t_wd s)))) as [|x items] eqn:Hit.
  { inversion Heq; subst. intros h Hh Hne. destruct (Hsmall h Hh Hne) as [H|[]]. assumption. }
  rewrite submit_loop_accepting in Heq by (try assumption; discriminate).
  destruct (set_mark (t_wd s, t_pd s) (last (x :: items) 0)) as [w p].
  inversion Heq; subst; clear Heq. intros h Hh Hne. cbn in *. apply in_or_app.
  unfold nonempty in Hne. cbn in Hne. exact (Hsmall h Hh Hne).
Qed.

(* one header iteration and one data iteration, in either order *)
Definition sub_round (hfirst : bool) (sh sd : list outcome) : list item :=
  if hfirst then [IHeaders sh; IData sd] else [IData sd; IHeaders sh].

Lemma sub_round_settles : forall c s hfirst sh sd, 1 <= c_init c -> Inv c s ->
  eventually_accepts sh -> eventually_accepts sd ->
  let s' := fst (run_from c s (sub_round hfirst sh sd)) in
  Inv c s' /\ t_height s' = t_height s /\ num_waiting_blocks c s' = 0.
Proof.
  intros c s hfirst sh sd Hi I Hsh Hsd s'.
  assert (I' : Inv c s') by (now apply run_from_inv).
  subst s'. destruct hfirst; cbn [sub_round run_from step] in *.
  - destruct (headers_iter s sh) as [s1 [r1 cs1]] eqn:H1.
    destruct (data_iter s1 sd) as [s2 [r2 cs2]] eqn:H2. cbn [fst] in *.
    pose proof (headers_iter_inv _ _ _ _ _ Hi I H1) as I1.
    pose proof (headers_accepting _ _ _ _ _ I Hsh H1) as A1.
    pose proof (data_accepting _ _ _ _ _ I1 Hsd H2) as A2.
    destruct (headers_iter_frame _ _ _ _ H1) as [F1 _]. destruct (data_iter_frame _ _ _ _ H2) as [G1 [G2 [G3 _]]].
    split; [assumption|]. split; [congruence|].
    apply settled_zero; try assumption.
    + pose proof (i_hlo _ _ I'). pose proof (i_hhi _ _ I'). lia.
    + intros h Hh. rewrite G3. apply A1. lia.
  - destruct (data_iter s sd) as [s1 [r1 cs1]] eqn:H1.
    destruct (headers_iter s1 sh) as [s2 [r2 cs2]] eqn:H2. cbn [fst] in *.
    pose proof (data_iter_inv _ _ _ _ _ Hi I H1) as I1.
    pose proof (data_accepting _ _ _ _ _ I Hsd H1) as A1.
    pose proof (headers_accepting _ _ _ _ _ I1 Hsh H2) as A2.
    destruct (data_iter_frame _ _ _ _ H1) as [F1 _]. destruct (headers_iter_frame _ _ _ _ H2) as [G1 [G2 [G3 _]]].
    split; [assumption|]. split; [congruence|].
    apply settled_zero; try assumption.
    + pose proof (i_hlo _ _ I'). pose proof (i_hhi _ _ I'). lia.
    + intros h Hh Hne. rewrite G3. apply A1; [lia|]. unfold nonempty in *. now rewrite <- G2.
Qed.

Lemma not_refused_produces : forall c s ne, refused c s = false -> t_height (produce c s ne) = t_height s + 1.
Proof.
  intros c s ne Hr. unfold produce, refused in *. destruct (limit_check c s) as [r s1] eqn:Hlc. cbn [fst] in Hr. subst r.
  cbn [t_height]. f_equal. unfold limit_check in Hlc.
  destruct (c_limit c =? 0); [inversion Hlc; now subst|].
  destruct (c_limit c <=? sub64 (t_height s) (t_wh s)); [inversion Hlc|].
  destruct (c_limit c <=? sub64 (t_height s) (t_wd s)); [|inversion Hlc; now subst].
  destruct (num_waiting s) as [n [w p]]. inversion Hlc; subst. reflexivity.
Qed.

Lemma refused_keeps_height : forall c s ne, refused c s = true -> t_height (produce c s ne) = t_height s.
Proof.
  intros c s ne Hr. unfold produce, refused in *. destruct (limit_check c s) as [r s1] eqn:Hlc. cbn [fst] in Hr. subst r.
  unfold limit_check in Hlc.
  destruct (c_limit c =? 0); [inversion Hlc|].
  destruct (c_limit c <=? sub64 (t_height s) (t_wh s)); [inversion Hlc; now subst|].
  destruct (c_limit c <=? sub64 (t_height s) (t_wd s)); [|inversion Hlc].
  destruct (num_waiting s) as [n [w p]]. inversion Hlc; subst. reflexivity.
Qed.

Lemma settled_not_refused : forall c s, 1 <= c_init c -> Inv c s ->
  num_waiting_blocks c s < c_limit c \/ c_limit c = 0 -> refused c s = false.
Proof.
  intros c s Hi I H. destruct (refused c s) eqn:Hr; [|reflexivity].
  pose proof (refusal_justified _ _ Hi I Hr). destruct H as [H|H]; [lia|].
  unfold refused, limit_check in Hr. rewrite H in Hr. discriminate.
Qed.

(* ---- no deadlock ----------------------------------------------------------------------------------------- *)
(* one round: both submission iterations against a DA layer that accepts (possibly after a short outage),
   then one production attempt *)
Record round := mk_round { r_hfirst : bool; r_sh : list outcome; r_sd : list outcome; r_ne : bool }.
Definition round_items (r : round) : list item := sub_round (r_hfirst r) (r_sh r) (r_sd r) ++ [IProduce (r_ne r)].
Definition round_ok (r : round) : Prop := eventually_accepts (r_sh r) /\ eventually_accepts (r_sd r).

Lemma run_from_app_fst : forall c s h1 h2, fst (run_from c s (h1 ++ h2)) = fst (run_from c (fst (run_from c s h1)) h2).
Proof. intros. rewrite !run_from_fst. apply fold_left_app. Qed.

Lemma rounds_progress : forall c rs s, 1 <= c_init c -> Inv c s -> Forall round_ok rs ->
  t_height (fst (run_from c s (flat_map round_items rs))) = t_height s + N.of_nat (length rs).
Proof.
  intros c. induction rs as [|r rs IH]; intros s Hi I Hok; cbn [flat_map length].
  - cbn. lia.
  - inversion Hok as [|r' rs' [Hsh Hsd] Hrest]; subst.
    rewrite run_from_app_fst. unfold round_items at 1. rewrite run_from_app_fst.
    destruct (sub_round_settles c s (r_hfirst r) (r_sh r) (r_sd r) Hi I Hsh Hsd) as [I1 [E1 Z1]].
    set (s1 := fst (run_from c s (sub_round (r_hfirst r) (r_sh r) (r_sd r)))) in *.
    cbn [run_from step fst].
    assert (Hnr : refused c s1 = false).
    { apply settled_not_refused; try assumption. destruct (N.eq_dec (c_limit c) 0); [now right | left; lia]. }
    rewrite IH; try assumption; [|now apply produce_inv].
    rewrite (not_refused_produces _ _ _ Hnr). lia.
Qed.

(* ---- the limit is enforced -------------------------------------------------------------------------------- *)
Lemma limit_enforced : forall c s h, Inv c s -> c_limit c <> 0 ->
  c_init c <= h <= t_height s -> ~ In h (t_dah s) -> t_height s < h + c_limit c.
Proof.
  intros c s h I HL Hh Hn. pose proof (i_thr _ _ I HL). pose proof (i_hhi _ _ I).
  destruct (N.le_gt_cases h (t_wh s)) as [Hl|Hg]; [|lia].
  exfalso. apply Hn. apply (i_dah _ _ I). lia.
Qed.

(* outages: a DA layer that fails n < 30 times and then accepts is as good as one that accepts at once *)
Lemma outage_transparent : forall n rem r wp, (n < max_attempts)%nat -> rem <> [] ->
  let '(_, acc, e, wp') := submit_loop max_attempts rem (repeat OFail n ++ OAcceptAll :: r) wp in
  let '(_, acc0, e0, wp0) := submit_loop max_attempts rem (OAcceptAll :: r) wp in
  acc = acc0 /\ e = e0 /\ wp' = wp0.
Proof.
  intros n rem r wp Hn Hne.
  rewrite (submit_loop_accepting n) by assumption.
  pose proof (submit_loop_accepting 0 max_attempts rem r wp ltac:(unfold max_attempts; lia) Hne) as H0.
  cbn [repeat app] in H0. rewrite H0. auto.
Qed.

(* ---- the statements of Props/C08.v ------------------------------------------------------------------------ *)
Lemma c08_refusal_justified : forall (c : cfg) (hist : list item) (ne : bool), 1 <= c_init c ->
  let s := final c hist in
  t_height (produce c s ne) <> t_height s + 1 ->
  t_height (produce c s ne) = t_height s /\ c_limit c <> 0 /\ c_limit c <= num_waiting_blocks c s.
Proof.
  intros c hist ne Hi s Hn. destruct (refused c s) eqn:Hr.
  - split; [now apply refused_keeps_height|]. split.
    + intro E. unfold refused, limit_check in Hr. rewrite E in Hr. discriminate.
    + apply refusal_justified; [assumption | now apply final_inv | assumption].
  - exfalso. apply Hn. now apply not_refused_produces.
Qed.

Lemma c08_resumes : forall (c : cfg) (hist : list item) (hfirst : bool) (sh sd : list outcome) (ne : bool),
  1 <= c_init c -> eventually_accepts sh -> eventually_accepts sd ->
  let s := final c (hist ++ sub_round hfirst sh sd) in
  num_waiting_blocks c s = 0 /\ t_height (produce c s ne) = t_height s + 1.
Proof.
  intros c hist hfirst sh sd ne Hi Hsh Hsd s. subst s. rewrite final_app.
  destruct (sub_round_settles c (final c hist) hfirst sh sd Hi (final_inv c hist Hi) Hsh Hsd) as [I1 [E1 Z1]].
  split; [assumption|]. apply not_refused_produces. apply settled_not_refused; try assumption.
  destruct (N.eq_dec (c_limit c) 0); [now right | left; lia].
Qed.

Lemma c08_resumes_when_accepted : forall (c : cfg) (hist : list item) (ne : bool), 1 <= c_init c ->
  let s := final c hist in
  num_waiting_blocks c s < c_limit c -> t_height (produce c s ne) = t_height s + 1.
Proof.
  intros c hist ne Hi s Hlt. apply not_refused_produces. apply settled_not_refused; [assumption | now apply final_inv | now left].
Qed.

Lemma c08_no_deadlock : forall (c : cfg) (hist : list item) (rs : list round), 1 <= c_init c ->
  Forall round_ok rs ->
  t_height (final c (hist ++ flat_map round_items rs)) = t_height (final c hist) + N.of_nat (length rs).
Proof.
  intros c hist rs Hi Hok. rewrite final_app. apply rounds_progress; [assumption | now apply final_inv | assumption].
Qed.

Lemma c08_limit_enforced : forall (c : cfg) (hist : list item) (h : N), 1 <= c_init c -> c_limit c <> 0 ->
  let s := final c hist in
  c_init c <= h <= t_height s -> ~ In h (t_dah s) -> t_height s < h + c_limit c.
Proof. intros c hist h Hi HL s Hh Hn. eapply limit_enforced; try eassumption. now apply final_inv. Qed.

Lemma c08_no_wrap : forall (c : cfg) (hist : list item), 1 <= c_init c ->
  let s := final c hist in
  c_init c - 1 <= t_wh s <= t_height s /\ c_init c - 1 <= t_wd s <= t_height s /\
  sub64 (t_height s) (t_wh s) = t_height s - t_wh s /\ sub64 (t_height s) (t_wd s) = t_height s - t_wd s.
Proof.
  intros c hist Hi s. destruct (final_inv c hist Hi). fold s in i_hlo0, i_hhi0, i_dlo0, i_dhi0.
  repeat split; try assumption; now apply sub64_le.
Qed.

(* the run-length item is n single attempts *)
Lemma produce_n_is_repeat : forall c n s,
  fst (produce_n c s n) = fst (run_from c s (repeat (IProduce false) n)).
Proof.
  intros c. induction n as [|n IH]; intros s; cbn [produce_n repeat run_from step]; [reflexivity|].
  specialize (IH (produce c s false)).
  destruct (produce_n c (produce c s false) n) as [s2 m].
  destruct (run_from c (produce c s false) (repeat (IProduce false) n)) as [s3 os]. cbn [fst] in *. assumption.
Qed.

Lemma c08_run_length : forall (c : cfg) (hist : list item) (n : N),
  final c (hist ++ [IProduceEmptyN n]) = final c (hist ++ repeat (IProduce false) (N.to_nat n)).
Proof.
  intros c hist n. rewrite !final_app. cbn [run_from step].
  rewrite <- produce_n_is_repeat. destruct (produce_n c (final c hist) (N.to_nat n)) as [s' m]. reflexivity.
Qed.
