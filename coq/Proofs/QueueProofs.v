(* Proofs/QueueProofs.v — lemmas about Model/Queue.v (C10): first the keyed core (any key scheme), then the
   repaired code (sequence-number keys), whose full FIFO theorem instantiates the guarded refinement of the core. *)
From Coq Require Import NArith List Bool Lia ZifyBool ZifyN ZifyNat.
From Verif Require Import Model.Queue.
Import ListNotations.
Open Scope N_scope.

(* ---- booleans / sortedness ---------------------------------------------------------------------- *)
Lemma forallb_ltb k l : forallb (N.ltb k) l = true <-> forall x, In x l -> k < x.
Proof.
  rewrite forallb_forall. split; intros H x Hx; specialize (H x Hx).
  - apply N.ltb_lt; assumption.
  - apply N.ltb_lt; assumption.
Qed.

Lemma memb_in k l : memb k l = true <-> In k l.
Proof.
  unfold memb. rewrite existsb_exists. split.
  - intros [x [Hx He]]. apply N.eqb_eq in He. subst. assumption.
  - intros H. exists k. split; [assumption | apply N.eqb_refl].
Qed.

Lemma memb_false k l : memb k l = false <-> ~ In k l.
Proof.
  rewrite <- memb_in. destruct (memb k l); split; intros H; try reflexivity; try discriminate.
  - exfalso; apply H; reflexivity.
Qed.

Lemma ssorted_cons x l : ssorted (x :: l) = true <-> (forall y, In y l -> x < y) /\ ssorted l = true.
Proof. cbn [ssorted]. rewrite andb_true_iff, forallb_ltb. tauto. Qed.

Lemma ssorted_app a b :
  ssorted (a ++ b) = true <->
  ssorted a = true /\ ssorted b = true /\ (forall x y, In x a -> In y b -> x < y).
Proof.
  induction a as [|x a IH]; cbn [app].
  - split.
    + intros H. repeat split; auto. intros x y [].
    + intros (_ & H & _); exact H.
  - rewrite !ssorted_cons, IH. split.
    + intros (H1 & H2 & H3 & H4). repeat split; auto.
      * intros y Hy. apply H1. apply in_or_app; left; assumption.
      * intros x' y [<-|Hx] Hy.
        -- apply H1, in_or_app; right; assumption.
        -- apply H4; assumption.
    + intros ((H1 & H2) & H3 & H4). repeat split; auto.
      * intros y Hy. apply in_app_or in Hy as [Hy|Hy].
        -- apply H1; assumption.
        -- apply H4; [left; reflexivity | assumption].
      * intros x' y Hx Hy. apply H4; [right; assumption | assumption].
Qed.

Lemma ssorted_nodup l : ssorted l = true -> NoDup l.
Proof.
  induction l as [|x l IH]; intros H; [constructor|].
  apply ssorted_cons in H as [H1 H2]. constructor; auto.
  intros Hin. specialize (H1 _ Hin). lia.
Qed.

Lemma nodup_snoc {A} (l : list A) x : NoDup l -> ~ In x l -> NoDup (l ++ [x]).
Proof.
  induction l as [|y l IH]; intros Hn Hx; cbn [app].
  - constructor; [intros [] | constructor].
  - inversion Hn as [|? ? Hy Hl]; subst. constructor.
    + intros Hin. apply in_app_or in Hin as [Hin|[<-|[]]]; [auto|]. apply Hx; left; reflexivity.
    + apply IH; auto. intros Hin; apply Hx; right; assumption.
Qed.

Lemma keys_cons e l : keys (e :: l) = fst e :: keys l.
Proof. reflexivity. Qed.

Lemma keys_app a b : keys (a ++ b) = keys a ++ keys b.
Proof. unfold keys; apply map_app. Qed.

Lemma in_keys k l : In k (keys l) <-> exists b, In (k, b) l.
Proof.
  unfold keys. rewrite in_map_iff. split.
  - intros [[k' b] [H1 H2]]. cbn in H1; subst. eauto.
  - intros [b H]. exists (k, b); auto.
Qed.

Lemma in_keys_fst (e : entry) l : In e l -> In (fst e) (keys l).
Proof. intros H. unfold keys. apply in_map; assumption. Qed.

(* ---- the durable image --------------------------------------------------------------------------- *)
Lemma in_db_insert e k b d : In e (db_insert k b d) <-> e = (k, b) \/ In e d.
Proof.
  induction d as [|[k' b'] r IH]; cbn [db_insert].
  - cbn [In]. split; intros [H|H]; auto.
  - destruct (k <? k'); cbn [In].
    + split; intros [H|H]; auto.
    + rewrite IH. split; intros H; tauto.
Qed.

Lemma in_db_del e k d : In e (db_del k d) <-> In e d /\ fst e <> k.
Proof. unfold db_del. rewrite filter_In, negb_true_iff, N.eqb_neq. tauto. Qed.

Lemma in_db_put e k b d : In e (db_put k b d) <-> e = (k, b) \/ (In e d /\ fst e <> k).
Proof. unfold db_put. rewrite in_db_insert, in_db_del. tauto. Qed.

Lemma keys_db_insert_in x k b d : In x (keys (db_insert k b d)) <-> x = k \/ In x (keys d).
Proof.
  rewrite !in_keys. split.
  - intros [b' H]. apply in_db_insert in H as [H|H].
    + left; congruence.
    + right; eauto.
  - intros [->|[b' H]].
    + exists b. apply in_db_insert; auto.
    + exists b'. apply in_db_insert; auto.
Qed.

Lemma ssorted_db_insert k b d :
  ssorted (keys d) = true -> ~ In k (keys d) -> ssorted (keys (db_insert k b d)) = true.
Proof.
  induction d as [|[k' b'] r IH]; intros Hs Hn.
  - reflexivity.
  - cbn [db_insert]. rewrite keys_cons in Hs. cbn [fst] in Hs.
    apply ssorted_cons in Hs as [H1 H2].
    destruct (k <? k') eqn:E.
    + apply N.ltb_lt in E. rewrite !keys_cons. cbn [fst]. apply ssorted_cons. split.
      * intros y [<-|Hy]; [assumption|]. specialize (H1 y Hy). lia.
      * apply ssorted_cons; auto.
    + apply N.ltb_ge in E. rewrite keys_cons. cbn [fst]. apply ssorted_cons. split.
      * intros y Hy. apply keys_db_insert_in in Hy as [->|Hy].
        -- assert (k <> k') by (intros ->; apply Hn; left; reflexivity). lia.
        -- auto.
      * apply IH; auto. intros Hin; apply Hn; right; assumption.
Qed.

Lemma ssorted_filter (f : entry -> bool) d :
  ssorted (keys d) = true -> ssorted (keys (filter f d)) = true.
Proof.
  induction d as [|e r IH]; intros Hs; [reflexivity|].
  rewrite keys_cons in Hs. apply ssorted_cons in Hs as [H1 H2].
  cbn [filter]. destruct (f e); auto.
  rewrite keys_cons. apply ssorted_cons; split; auto.
  intros y Hy. apply H1. apply in_keys in Hy as [b Hy]. apply filter_In in Hy as [Hy _].
  apply in_keys; eauto.
Qed.

Lemma ssorted_db_del k d : ssorted (keys d) = true -> ssorted (keys (db_del k d)) = true.
Proof. apply ssorted_filter. Qed.

Lemma ssorted_db_put k b d : ssorted (keys d) = true -> ssorted (keys (db_put k b d)) = true.
Proof.
  intros H. unfold db_put. apply ssorted_db_insert.
  - apply ssorted_db_del; assumption.
  - intros Hin. apply in_keys in Hin as [b' Hin]. apply in_db_del in Hin as [_ Hne]. apply Hne; reflexivity.
Qed.

Lemma ssorted_apply_w d w : ssorted (keys d) = true -> ssorted (keys (apply_w d w)) = true.
Proof. destruct w; cbn [apply_w]; [apply ssorted_db_put | apply ssorted_db_del]. Qed.

Lemma ssorted_apply_ws ws : forall d, ssorted (keys d) = true -> ssorted (keys (apply_ws d ws)) = true.
Proof.
  unfold apply_ws. induction ws as [|w ws IH]; intros d H; cbn [fold_left]; auto.
  apply IH, ssorted_apply_w, H.
Qed.

(* two key-sorted images with the same records are the same list *)
Lemma sorted_ext (a : list entry) : forall b,
  ssorted (keys a) = true -> ssorted (keys b) = true -> (forall e, In e a <-> In e b) -> a = b.
Proof.
  induction a as [|x a IH]; intros b Ha Hb Hab.
  - destruct b as [|y b]; auto. exfalso. apply (Hab y). left; reflexivity.
  - destruct b as [|y b]; [exfalso; apply (Hab x); left; reflexivity|].
    rewrite keys_cons in Ha, Hb.
    apply ssorted_cons in Ha as [Ha1 Ha2]. apply ssorted_cons in Hb as [Hb1 Hb2].
    assert (Hxy : x = y).
    { destruct (proj1 (Hab x) (or_introl eq_refl)) as [E|Hx]; [auto|].
      destruct (proj2 (Hab y) (or_introl eq_refl)) as [E|Hy]; [auto|].
      assert (fst y < fst x) by (apply Hb1, in_keys_fst; assumption).
      assert (fst x < fst y) by (apply Ha1, in_keys_fst; assumption). lia. }
    subst y. f_equal. apply IH; auto.
    intros e; split; intros He.
    + destruct (proj1 (Hab e) (or_intror He)) as [E|H']; auto. subst e.
      assert (fst x < fst x) by (apply Ha1, in_keys_fst; assumption). lia.
    + destruct (proj2 (Hab e) (or_intror He)) as [E|H']; auto. subst e.
      assert (fst x < fst x) by (apply Hb1, in_keys_fst; assumption). lia.
Qed.

(* ---- unfolding the runs ------------------------------------------------------------------------- *)
Lemma run_cons max st it r :
  run max st (it :: r) =
  (fst (run max (fst (step max st it)) r), snd (step max st it) :: snd (run max (fst (step max st it)) r)).
Proof.
  cbn [run]. destruct (step max st it) as [st' o]. cbn [fst snd].
  destruct (run max st' r) as [st'' os]. reflexivity.
Qed.

Lemma a_run_cons max q it r :
  a_run max q (it :: r) =
  (fst (a_run max (fst (a_item max q it)) r), snd (a_item max q it) :: snd (a_run max (fst (a_item max q it)) r)).
Proof.
  cbn [a_run]. destruct (a_item max q it) as [q' o]. cbn [fst snd].
  destruct (a_run max q' r) as [q'' os]. reflexivity.
Qed.

Lemma a_item_op max q o : a_item max q (IOp o) = (fst (a_step max q o), Some (snd (a_step max q o))).
Proof. cbn [a_item]. destruct (a_step max q o); reflexivity. Qed.

(* ---- one operation -------------------------------------------------------------------------------- *)
Definition DbRel (d q : list entry) : Prop :=
  ssorted (keys d) = true /\ (forall e, In e d <-> In e q).

Lemma ws_le1 max m o : (length (snd (step_mem max m o)) <= 1)%nat.
Proof.
  destruct o as [[] [| |k b]|[]]; cbn [step_mem]; try (cbn; lia).
  - destruct (full max m); cbn; lia.
  - destruct m as [|[k b] r]; cbn; lia.
Qed.

Lemma firstn_le1 {A} (ws : list A) n : (length ws <= 1)%nat -> firstn n ws = [] \/ (n <> O /\ firstn n ws = ws).
Proof.
  intros H. destruct n as [|n]; [left; reflexivity|].
  destruct ws as [|w [|w' ws]]; cbn in H.
  - left; reflexivity.
  - right. split; [discriminate|]. cbn. destruct n; reflexivity.
  - lia.
Qed.

Lemma op_db max d q o :
  NoDup (keys q) -> DbRel d q -> op_guard max q o = true ->
  fst (fst (step_mem max q o)) = fst (a_step max q o) /\
  snd (fst (step_mem max q o)) = snd (a_step max q o) /\
  NoDup (keys (fst (a_step max q o))) /\
  DbRel (apply_ws d (snd (step_mem max q o))) (fst (a_step max q o)) /\
  (snd (step_mem max q o) = [] -> fst (a_step max q o) = q).
Proof.
  intros Hnd [Hs Hin] Hg.
  destruct o as [[] [| |k b]|[]]; cbn [step_mem a_step fst snd apply_ws fold_left];
    try (repeat split; auto; apply Hin).
  - (* submit of a real batch *)
    destruct (full max q) eqn:Ef; cbn [fst snd apply_ws fold_left apply_w].
    + repeat split; auto; apply Hin.
    + cbn [op_guard] in Hg. rewrite Ef in Hg. cbn [orb] in Hg.
      apply negb_true_iff, memb_false in Hg.
      split; [reflexivity|]. split; [reflexivity|]. split; [|split].
      * rewrite keys_app. apply nodup_snoc; assumption.
      * split; [apply ssorted_db_put; assumption|].
        intros e. rewrite in_db_put, in_app_iff. cbn [In]. split.
        -- intros [->|[He _]]; [right; left; reflexivity | left; apply Hin; assumption].
        -- intros [He|[<-|[]]]; [right | left; reflexivity].
           split; [apply Hin; assumption|]. intros E. apply Hg. rewrite <- E. apply in_keys_fst; assumption.
      * discriminate.
  - (* next *)
    destruct q as [|[k b] r]; cbn [fst snd apply_ws fold_left apply_w].
    + repeat split; auto; apply Hin.
    + rewrite keys_cons in Hnd. cbn [fst] in Hnd. inversion Hnd as [|? ? Hk Hr]; subst.
      split; [reflexivity|]. split; [reflexivity|]. split; [assumption|]. split; [|discriminate].
      split; [apply ssorted_db_del; assumption|].
      intros e. rewrite in_db_del. split.
      * intros [He Hne]. apply Hin in He as [<-|He]; [exfalso; apply Hne; reflexivity | assumption].
      * intros He. split; [apply Hin; right; assumption|].
        intros E. apply Hk. rewrite <- E. apply in_keys_fst; assumption.
Qed.

(* the guard of a completed operation follows from the sortedness required after a crash *)
Lemma sorted_after_op_guard max q o :
  ssorted (keys (fst (a_step max q o))) = true -> op_guard max q o = true.
Proof.
  destruct o as [[] [| |k b]|[]]; cbn [op_guard a_step]; auto.
  destruct (full max q); cbn [orb fst]; auto.
  rewrite keys_app. intros H. apply ssorted_app in H as (_ & _ & H).
  apply negb_true_iff, memb_false. intros Hin.
  specialize (H k k Hin (or_introl eq_refl)). lia.
Qed.

(* ---- the refinement under the guard ---------------------------------------------------------------- *)
Definition Inv (st : qstate) (q : list entry) : Prop :=
  mem st = q /\ NoDup (keys q) /\ DbRel (db st) q.

Lemma reload d q : DbRel d q -> ssorted (keys q) = true -> Inv (load d) q.
Proof.
  intros [Hs Hin] Hq.
  assert (d = q) by (apply sorted_ext; assumption). subst d.
  split; [reflexivity|]. split; [apply ssorted_nodup; assumption|]. split; assumption.
Qed.

Lemma step_refines max st q it :
  Inv st q -> fifo_guard max q [it] = true ->
  snd (step max st it) = snd (a_item max q it) /\ Inv (fst (step max st it)) (fst (a_item max q it)).
Proof.
  intros (Hm & Hnd & Hdb) Hg. cbn [fifo_guard] in Hg.
  destruct it as [o| |o n].
  - rewrite andb_true_r in Hg.
    destruct (op_db max (db st) q o Hnd Hdb Hg) as (E1 & E2 & Hnd' & Hdb' & _).
    rewrite a_item_op. cbn [step fst snd]. rewrite Hm.
    destruct (step_mem max q o) as [[m' r] ws]. cbn [fst snd] in *. subst m' r.
    split; [reflexivity|]. split; [reflexivity|]. split; assumption.
  - rewrite andb_true_r in Hg. cbn [step a_item fst snd]. split; [reflexivity|].
    apply reload; assumption.
  - rewrite andb_true_r in Hg. cbn [step]. rewrite Hm.
    destruct (step_mem max q o) as [[m' r] ws] eqn:Es. cbn [fst snd]. split; [reflexivity|].
    pose proof (ws_le1 max q o) as Hle. rewrite Es in Hle. cbn [snd] in Hle.
    destruct n as [|n].
    + cbn [firstn apply_ws fold_left]. cbn [a_item fst] in *. apply reload; assumption.
    + cbn [a_item fst] in *.
      pose proof (sorted_after_op_guard max q o Hg) as Hop.
      destruct (op_db max (db st) q o Hnd Hdb Hop) as (E1 & E2 & Hnd' & Hdb' & Hnil).
      rewrite Es in *. cbn [fst snd] in *.
      destruct (firstn_le1 ws (S n) Hle) as [E|[_ E]]; rewrite E.
      * destruct ws as [|w ws']; [|cbn in E; discriminate].
        cbn [apply_ws fold_left]. rewrite (Hnil eq_refl) in *. apply reload; assumption.
      * apply reload; assumption.
Qed.

Lemma guard_cons max q it r :
  fifo_guard max q (it :: r) = fifo_guard max q [it] && fifo_guard max (fst (a_item max q it)) r.
Proof.
  destruct it as [o| |o n]; cbn [fifo_guard]; rewrite ?andb_true_r.
  - rewrite a_item_op. reflexivity.
  - reflexivity.
  - reflexivity.
Qed.

Theorem refine_guard max : forall h st q,
  Inv st q -> fifo_guard max q h = true ->
  snd (run max st h) = snd (a_run max q h) /\ Inv (fst (run max st h)) (fst (a_run max q h)).
Proof.
  induction h as [|it r IH]; intros st q HI Hg.
  - cbn. auto.
  - rewrite guard_cons in Hg. apply andb_true_iff in Hg as [Hg1 Hg2].
    destruct (step_refines max st q it HI Hg1) as [Ho HI'].
    destruct (IH _ _ HI' Hg2) as [Ho' HI''].
    rewrite run_cons, a_run_cons. cbn [fst snd]. rewrite Ho, Ho'. auto.
Qed.

Lemma inv0 : Inv st0 [].
Proof.
  split; [reflexivity|]. split; [constructor|]. split; [reflexivity|]. intros e; tauto.
Qed.

Theorem fifo_partial : forall max h, fifo_guard max [] h = true -> fifo_refines max h.
Proof.
  intros max h Hg. destruct (refine_guard max h st0 [] inv0 Hg) as [Ho (Hm & _ & _ & Hin)].
  unfold fifo_refines, outputs, a_outputs, final, a_final. auto.
Qed.

(* ---- monotone keys imply the guard ---------------------------------------------------------------- *)
Lemma ssorted_drop_mid a k b : ssorted (a ++ k :: b) = true -> ssorted (a ++ b) = true.
Proof.
  rewrite !ssorted_app, ssorted_cons. intros (Ha & (Hk & Hb) & Hab).
  repeat split; auto. intros x y Hx Hy. apply Hab; [assumption | right; assumption].
Qed.

Lemma ssorted_app_l a b : ssorted (a ++ b) = true -> ssorted a = true.
Proof. rewrite ssorted_app. tauto. Qed.

Lemma sorted_mid_notin a k b : ssorted (a ++ k :: b) = true -> ~ In k a.
Proof.
  rewrite ssorted_app. intros (_ & _ & H) Hin. specialize (H k k Hin (or_introl eq_refl)). lia.
Qed.

Lemma mono_step max q o :
  ssorted (keys q ++ submit_keys [IOp o]) = true ->
  op_guard max q o = true /\
  forall rest, ssorted (keys q ++ submit_keys (IOp o :: rest)) = true ->
               ssorted (keys (fst (a_step max q o)) ++ submit_keys rest) = true.
Proof.
  intros H0.
  destruct o as [[] [| |k b]|[]]; cbn [submit_keys op_guard a_step fst] in *; try (split; [reflexivity|auto]).
  - (* real submit *)
    split.
    + apply orb_true_iff. right. apply negb_true_iff, memb_false. eapply sorted_mid_notin; eassumption.
    + intros rest H. destruct (full max q); cbn [fst].
      * eapply ssorted_drop_mid; eassumption.
      * rewrite keys_app, <- app_assoc. exact H.
  - (* next *)
    intros rest H. destruct q as [|e r]; cbn [fst]; auto.
    rewrite keys_cons in H. cbn [app] in H. apply ssorted_cons in H. tauto.
Qed.

Lemma submit_keys_op_nil o : submit_keys [IOp o] = match o with OSubmit true (SB k _) => [k] | _ => [] end.
Proof. destruct o as [[] [| |k b]|[]]; reflexivity. Qed.

Lemma submit_keys_cons_op o r : submit_keys (IOp o :: r) = submit_keys [IOp o] ++ submit_keys r.
Proof. destruct o as [[] [| |k b]|[]]; reflexivity. Qed.

Lemma submit_keys_cons_crash o n r : submit_keys (ICrash o n :: r) = submit_keys [IOp o] ++ submit_keys r.
Proof. destruct o as [[] [| |k b]|[]]; reflexivity. Qed.

Lemma mono_guard max : forall h q,
  ssorted (keys q ++ submit_keys h) = true -> fifo_guard max q h = true.
Proof.
  induction h as [|it r IH]; intros q H; [reflexivity|].
  destruct it as [o| |o n].
  - cbn [fifo_guard].
    assert (H0 : ssorted (keys q ++ submit_keys [IOp o]) = true).
    { rewrite submit_keys_cons_op, app_assoc in H. eapply ssorted_app_l; eassumption. }
    destruct (mono_step max q o H0) as [Hg Hn]. rewrite Hg. cbn [andb]. apply IH, Hn, H.
  - cbn [fifo_guard submit_keys] in *. rewrite (ssorted_app_l _ _ H). cbn [andb]. apply IH, H.
  - cbn [fifo_guard a_item fst].
    assert (H0 : ssorted (keys q ++ submit_keys [IOp o]) = true).
    { rewrite submit_keys_cons_crash, app_assoc in H. eapply ssorted_app_l; eassumption. }
    destruct (mono_step max q o H0) as [Hg Hn].
    rewrite submit_keys_cons_crash in H. rewrite <- submit_keys_cons_op in H.
    destruct n as [|n].
    + (* the write was lost: the key is skipped *)
      assert (H1 : ssorted (keys q ++ submit_keys r) = true).
      { rewrite submit_keys_cons_op in H. rewrite submit_keys_op_nil in H.
        destruct o as [[] [| |k b]|[]]; cbn [app] in H; auto.
        eapply ssorted_drop_mid; eassumption. }
      rewrite (ssorted_app_l _ _ H1). cbn [andb]. apply IH, H1.
    + specialize (Hn r H). rewrite (ssorted_app_l _ _ Hn). cbn [andb]. apply IH, Hn.
Qed.

Theorem fifo_monotone_keys : forall max h, monotone_keys h = true -> fifo_refines max h.
Proof.
  intros max h H. apply fifo_partial. apply mono_guard. exact H.
Qed.

(* ---- the bound, unconditionally --------------------------------------------------------------------- *)
Definition BInv (max : N) (st : qstate) : Prop :=
  ssorted (keys (db st)) = true /\
  incl (keys (db st)) (keys (mem st)) /\
  (0 < max -> N.of_nat (length (mem st)) <= max).

Lemma keys_length (l : list entry) : length (keys l) = length l.
Proof. unfold keys; apply map_length. Qed.

Lemma bound_reload max st : BInv max st -> BInv max (load (db st)).
Proof.
  intros (Hs & Hi & Hb). split; [exact Hs|]. split; [apply incl_refl|].
  intros Hm. specialize (Hb Hm). cbn [load mem].
  pose proof (NoDup_incl_length (ssorted_nodup _ Hs) Hi) as Hl. rewrite !keys_length in Hl. lia.
Qed.

Lemma bound_op max st o : BInv max st -> BInv max (fst (step max st (IOp o))).
Proof.
  intros (Hs & Hi & Hb). unfold BInv. cbn [step].
  destruct o as [[] [| |k b]|[]]; cbn [step_mem fst mem db apply_ws fold_left]; try (split; [|split]; assumption).
  - destruct (full max (mem st)) eqn:Ef; cbn [fst mem db apply_ws fold_left apply_w]; [split; [|split]; assumption|].
    split; [apply ssorted_db_put; assumption|]. split.
    + intros x Hx. apply in_keys in Hx as [b' Hx]. apply in_db_put in Hx as [E|[Hx _]].
      * inversion E; subst. rewrite keys_app. apply in_or_app; right; left; reflexivity.
      * rewrite keys_app. apply in_or_app; left. apply Hi. apply in_keys; eauto.
    + intros Hm. specialize (Hb Hm). unfold full in Ef. rewrite app_length. cbn [length]. lia.
  - destruct (mem st) as [|[k b] r] eqn:Em; cbn [fst mem db apply_ws fold_left apply_w].
    + split; [|split]; assumption.
    + split; [apply ssorted_db_del; assumption|]. split.
      * intros x Hx. apply in_keys in Hx as [b' Hx]. apply in_db_del in Hx as [Hx Hne]. cbn [fst] in Hne.
        assert (Hk : In x (keys ((k, b) :: r))) by (apply Hi, in_keys; eauto).
        rewrite keys_cons in Hk. destruct Hk as [E|Hk]; [cbn [fst] in E; congruence | assumption].
      * intros Hm. specialize (Hb Hm). cbn [length] in Hb. lia.
Qed.

Lemma bound_step max st it : BInv max st -> BInv max (fst (step max st it)).
Proof.
  intros HB. destruct it as [o| |o n].
  - apply bound_op; assumption.
  - cbn [step fst]. apply bound_reload; assumption.
  - pose proof (bound_op max st o HB) as HB'. cbn [step] in *.
    pose proof (ws_le1 max (mem st) o) as Hle.
    destruct (step_mem max (mem st) o) as [[m' r] ws]. cbn [fst snd] in *.
    destruct (firstn_le1 ws n Hle) as [E|[_ E]]; rewrite E.
    + cbn [apply_ws fold_left]. apply bound_reload; assumption.
    + apply (bound_reload max _ HB').
Qed.

Theorem bound_inv max : forall h st, BInv max st -> BInv max (fst (run max st h)).
Proof.
  induction h as [|it r IH]; intros st HB; [exact HB|].
  rewrite run_cons. cbn [fst]. apply IH, bound_step, HB.
Qed.

Theorem bound_full : forall max h, 0 < max -> N.of_nat (length (mem (final max h))) <= max.
Proof.
  intros max h Hm. unfold final.
  assert (HB : BInv max st0) by (split; [reflexivity|]; split; [apply incl_refl | intros _; cbn; lia]).
  destruct (bound_inv max h st0 HB) as (_ & _ & Hb). auto.
Qed.

(* the durable image never holds more records than the bound either *)
Theorem bound_db_full : forall max h, 0 < max -> N.of_nat (length (db (final max h))) <= max.
Proof.
  intros max h Hm. unfold final.
  assert (HB : BInv max st0) by (split; [reflexivity|]; split; [apply incl_refl | intros _; cbn; lia]).
  destruct (bound_inv max h st0 HB) as (Hs & Hi & Hb). specialize (Hb Hm).
  pose proof (NoDup_incl_length (ssorted_nodup _ Hs) Hi) as Hl. rewrite !keys_length in Hl. lia.
Qed.

Theorem bound_both : forall max h,
  0 < max ->
  N.of_nat (length (mem (final max h))) <= max /\ N.of_nat (length (db (final max h))) <= max.
Proof. intros max h Hm. split; [apply bound_full | apply bound_db_full]; assumption. Qed.

(* ---- a rejected or empty submission leaves no trace ---------------------------------------------------- *)
Theorem rejected_no_trace : forall max st o r,
  snd (step max st (IOp o)) = Some r -> (r = RInvalidId \/ r = RFull) ->
  fst (step max st (IOp o)) = st /\ snd (step_mem max (mem st) o) = [].
Proof.
  intros max [m d] o r. cbn [step mem db].
  destruct o as [[] [| |k b]|[]]; cbn [step_mem fst snd apply_ws fold_left];
    try (intros E [->| ->]; inversion E; fail); auto.
  - destruct (full max m); cbn [fst snd apply_ws fold_left]; auto.
    intros E [->| ->]; inversion E.
  - destruct m as [|[k b] m']; cbn [fst snd apply_ws fold_left]; intros E [->| ->]; inversion E.
Qed.

Theorem empty_submission_no_trace : forall max st ok s, s = SNil \/ s = SEmpty ->
  fst (step max st (IOp (OSubmit ok s))) = st /\ snd (step_mem max (mem st) (OSubmit ok s)) = [].
Proof.
  intros max [m d] ok s [-> | ->]; destruct ok; cbn; auto.
Qed.

(* ---- BEFORE THE REPAIR: with content-hash keys the keyed core does not refine the FIFO -------------------- *)
(* two contents, whose hash order is the reverse of their id order *)
Definition w_tbl : list (batch * key) := [(1, 20); (2, 10)].
(* equal batches share one record: the second one is lost over a restart *)
Definition w_equal : list item :=
  [IOp (OSubmit true (SB 20 1)); IOp (OSubmit true (SB 20 1)); IOp (ONext true); IRestart; IOp (ONext true)].
(* reload is in key order, not acceptance order *)
Definition w_order : list item :=
  [IOp (OSubmit true (SB 20 1)); IOp (OSubmit true (SB 10 2)); IRestart; IOp (ONext true)].

Theorem fifo_refuted_equal : hash_keyedb w_tbl w_equal = true /\ ~ fifo_refines 0 w_equal.
Proof.
  split; [vm_compute; reflexivity|]. intros [H _]. vm_compute in H. discriminate.
Qed.

Theorem fifo_refuted_order : hash_keyedb w_tbl w_order = true /\ ~ fifo_refines 0 w_order.
Proof.
  split; [vm_compute; reflexivity|]. intros [H _]. vm_compute in H. discriminate.
Qed.

(* the full statement, for content-hash keyed histories, and its refutation by either witness *)
Definition fifo_full_statement : Prop :=
  forall max tbl h, hash_keyedb tbl h = true -> fifo_refines max h.

Theorem fifo_full_refuted_by_equal_batches : ~ fifo_full_statement.
Proof. intros H. destruct fifo_refuted_equal as [Hk Hn]. exact (Hn (H 0 w_tbl w_equal Hk)). Qed.

Theorem fifo_full_refuted_by_reload_order : ~ fifo_full_statement.
Proof. intros H. destruct fifo_refuted_order as [Hk Hn]. exact (Hn (H 0 w_tbl w_order Hk)). Qed.

(* ==== the repaired code ================================================================================ *)
Lemma r_run_cons max rst it r :
  r_run max rst (it :: r) =
  (fst (r_run max (fst (r_step max rst it)) r), snd (r_step max rst it) :: snd (r_run max (fst (r_step max rst it)) r)).
Proof.
  cbn [r_run]. destruct (r_step max rst it) as [rst' o]. cbn [fst snd].
  destruct (r_run max rst' r) as [rst'' os]. reflexivity.
Qed.

Lemma s_run_cons max q it r :
  s_run max q (it :: r) =
  (fst (s_run max (fst (s_item max q it)) r), snd (s_item max q it) :: snd (s_run max (fst (s_item max q it)) r)).
Proof.
  cbn [s_run]. destruct (s_item max q it) as [q' o]. cbn [fst snd].
  destruct (s_run max q' r) as [q'' os]. reflexivity.
Qed.

Lemma s_item_op max q o : s_item max q (UOp o) = (fst (s_step max q o), Some (snd (s_step max q o))).
Proof. cbn [s_item]. destruct (s_step max q o); reflexivity. Qed.

(* ---- the specification means "exactly once, in order" ---------------------------------------------- *)
Lemma spec_item max q it :
  q ++ accepted_by max q it = delivered_by q it ++ fst (s_item max q it).
Proof.
  destruct it as [o| |o n].
  - rewrite s_item_op. cbn [fst].
    destruct o as [[] [| |b]|[]]; cbn [accepted_by delivered_by s_step fst]; rewrite ?app_nil_r; auto.
    + destruct (s_full max q); cbn [fst]; rewrite ?app_nil_r; reflexivity.
    + destruct q as [|e r]; reflexivity.
  - cbn. rewrite app_nil_r. reflexivity.
  - cbn [s_item fst].
    destruct n as [|n].
    + destruct o as [[] [| |b]|[]]; cbn [accepted_by delivered_by]; rewrite ?app_nil_r; reflexivity.
    + destruct o as [[] [| |b]|[]]; cbn [accepted_by delivered_by s_step fst]; rewrite ?app_nil_r; auto.
      * destruct (s_full max q); cbn [fst]; rewrite ?app_nil_r; reflexivity.
      * destruct q as [|e r]; reflexivity.
Qed.

Theorem spec_exactly_once max : forall h q,
  q ++ s_accepted max q h = s_delivered max q h ++ fst (s_run max q h).
Proof.
  induction h as [|it r IH]; intros q.
  - cbn. rewrite app_nil_r. reflexivity.
  - rewrite s_run_cons. cbn [s_accepted s_delivered fst].
    rewrite app_assoc, spec_item, <- app_assoc, IH, app_assoc. reflexivity.
Qed.

Theorem spec_exactly_once0 : forall max h,
  s_accepted max [] h = s_delivered max [] h ++ s_final max h.
Proof. intros max h. exact (spec_exactly_once max h []). Qed.

(* ---- the sequence counter stays above every pending key -------------------------------------------- *)
Lemma next_seq_fold d : forall a,
  a <= fold_left (fun a e => N.max a (fst e + 1)) d a /\
  (forall e : entry, In e d -> fst e + 1 <= fold_left (fun a e => N.max a (fst e + 1)) d a).
Proof.
  induction d as [|x d IH]; intros a; cbn [fold_left].
  - split; [lia | intros e []].
  - destruct (IH (N.max a (fst x + 1))) as [H1 H2].
    pose proof (N.le_max_l a (fst x + 1)) as Hl. pose proof (N.le_max_r a (fst x + 1)) as Hr.
    split; [eapply N.le_trans; eassumption|].
    intros e [<-|He]; [eapply N.le_trans; eassumption | apply H2; assumption].
Qed.

Lemma next_seq_gt d k : In k (keys d) -> k < next_seq d.
Proof.
  intros H. apply in_keys in H as [b H]. unfold next_seq.
  destruct (next_seq_fold d 0) as [_ H2]. specialize (H2 _ H). cbn [fst] in H2. lia.
Qed.

(* ---- the keyed specification projects onto the plain FIFO ------------------------------------------- *)
Lemma full_proj max (q : list entry) : full max q = s_full max (map snd q).
Proof. unfold full, s_full. rewrite map_length. reflexivity. Qed.

Lemma a_step_proj max q s o :
  map snd (fst (a_step max q (key_op s o))) = fst (s_step max (map snd q) o) /\
  snd (a_step max q (key_op s o)) = snd (s_step max (map snd q) o).
Proof.
  destruct o as [[] [| |b]|[]]; cbn [key_op a_step s_step fst snd]; auto.
  - rewrite <- full_proj. destruct (full max q); cbn [fst snd]; rewrite ?map_app; auto.
  - destruct q as [|[k b] r]; cbn; auto.
Qed.

Lemma a_item_proj max q s it :
  map snd (fst (a_item max q (key_item s it))) = fst (s_item max (map snd q) it) /\
  snd (a_item max q (key_item s it)) = snd (s_item max (map snd q) it).
Proof.
  destruct it as [o| |o n]; cbn [key_item].
  - rewrite a_item_op, s_item_op. cbn [fst snd]. destruct (a_step_proj max q s o) as [H1 H2].
    rewrite H1, H2. auto.
  - cbn. auto.
  - cbn [a_item s_item fst snd]. destruct n as [|n]; [auto|]. destruct (a_step_proj max q s o) as [H1 _]. auto.
Qed.

(* ---- the repaired code refines the FIFO, for all histories -------------------------------------------- *)
Definition RInv (rst : rstate) (q : list entry) : Prop :=
  Inv (core rst) q /\ ssorted (keys q) = true /\ (forall k, In k (keys q) -> k < nseq rst).

Lemma sorted_after max q s o :
  ssorted (keys q) = true -> (forall k, In k (keys q) -> k < s) ->
  ssorted (keys (fst (a_step max q (key_op s o)))) = true /\
  (forall k, In k (keys (fst (a_step max q (key_op s o)))) -> k < (if accepts max q o then s + 1 else s)).
Proof.
  intros Hs Hlt.
  destruct o as [[] [| |b]|[]]; cbn [key_op a_step accepts fst]; auto.
  - destruct (full max q); cbn [fst negb]; auto.
    rewrite keys_app. cbn [keys map fst]. split.
    + apply ssorted_app. split; [assumption|]. split; [reflexivity|].
      intros x y Hx [<-|[]]. apply Hlt; assumption.
    + intros k Hk. apply in_app_or in Hk as [Hk|[<-|[]]]; [specialize (Hlt _ Hk)|]; lia.
  - destruct q as [|e r]; cbn [fst]; auto.
    rewrite keys_cons in Hs, Hlt. apply ssorted_cons in Hs as [_ Hs]. split; [assumption|].
    intros k Hk. apply Hlt. right; assumption.
Qed.

Lemma r_boot_of_load d st q : st = load d -> Inv st q -> r_boot (db st) = {| core := st; nseq := next_seq q |}.
Proof.
  intros -> (Hm & _). cbn [load mem db] in *. subst d. reflexivity.
Qed.

Lemma r_step_refines max rst q it :
  RInv rst q ->
  snd (r_step max rst it) = snd (a_item max q (key_item (nseq rst) it)) /\
  RInv (fst (r_step max rst it)) (fst (a_item max q (key_item (nseq rst) it))).
Proof.
  intros (HI & Hs & Hlt).
  assert (Hq' : ssorted (keys (fst (a_item max q (key_item (nseq rst) it)))) = true).
  { destruct it as [o| |o n]; cbn [key_item].
    - rewrite a_item_op. cbn [fst]. apply sorted_after; assumption.
    - exact Hs.
    - cbn [a_item fst]. destruct n; [exact Hs | apply sorted_after; assumption]. }
  assert (Hg : fifo_guard max q [key_item (nseq rst) it] = true).
  { destruct it as [o| |o n]; cbn [key_item fifo_guard] in *; rewrite andb_true_r.
    - apply sorted_after_op_guard. rewrite a_item_op in Hq'. exact Hq'.
    - exact Hs.
    - exact Hq'. }
  destruct (step_refines max (core rst) q _ HI Hg) as [Ho HI'].
  unfold r_step.
  destruct (step max (core rst) (key_item (nseq rst) it)) as [st' r] eqn:Es. cbn [fst snd] in Ho, HI'.
  destruct it as [o| |o n]; cbn [key_item] in *; cbn [fst snd].
  - split; [exact Ho|]. split; [exact HI'|].
    rewrite a_item_op in *. cbn [fst] in *. destruct HI as (Hm & _). rewrite Hm.
    split; [exact Hq' | apply sorted_after; assumption].
  - cbn [step] in Es. inversion Es; subst st' r.
    rewrite (r_boot_of_load _ _ _ eq_refl HI'). split; [reflexivity|].
    cbn [a_item fst] in *. split; [exact HI'|]. split; [exact Hs|]. cbn [nseq]. apply next_seq_gt.
  - cbn [step] in Es. destruct (step_mem max (mem (core rst)) (key_op (nseq rst) o)) as [[m' r'] ws].
    inversion Es; subst st' r.
    rewrite (r_boot_of_load _ _ _ eq_refl HI'). split; [reflexivity|].
    split; [exact HI'|]. split; [exact Hq'|]. cbn [nseq]. apply next_seq_gt.
Qed.

Theorem r_refines max : forall h rst q,
  RInv rst q ->
  snd (r_run max rst h) = snd (s_run max (map snd q) h) /\
  exists q', RInv (fst (r_run max rst h)) q' /\ map snd q' = fst (s_run max (map snd q) h).
Proof.
  induction h as [|it r IH]; intros rst q HI.
  - cbn. split; [reflexivity|]. exists q. auto.
  - destruct (r_step_refines max rst q it HI) as [Ho HI'].
    destruct (a_item_proj max q (nseq rst) it) as [Hp1 Hp2].
    destruct (IH _ _ HI') as [Ho' (q' & HI'' & Hq')].
    rewrite r_run_cons, s_run_cons. cbn [fst snd].
    rewrite Ho, Ho', Hp1, Hp2. split; [reflexivity|].
    exists q'. rewrite <- Hp1. auto.
Qed.

Lemma rinv0 : RInv r_st0 [].
Proof.
  split; [|split; [reflexivity | intros k []]].
  split; [reflexivity|]. split; [constructor|]. split; [reflexivity|]. intros e; tauto.
Qed.

Theorem fifo_full : forall max h, r_fifo max h.
Proof.
  intros max h. destruct (r_refines max h r_st0 [] rinv0) as [Ho (q' & (HI & Hs & _) & Hq')].
  destruct HI as (Hm & _ & Hd & Hin).
  unfold r_fifo, r_outputs, s_outputs, r_final, s_final. cbn [map] in *.
  split; [exact Ho|]. split.
  - rewrite Hm. exact Hq'.
  - assert (E : db (core (fst (r_run max r_st0 h))) = q') by (apply sorted_ext; assumption).
    rewrite E. exact Hq'.
Qed.

(* ---- bound and no-trace for the repaired code ----------------------------------------------------------- *)
Lemma r_step_core max rst it :
  core (fst (r_step max rst it)) = fst (step max (core rst) (key_item (nseq rst) it)).
Proof.
  unfold r_step. destruct it as [o| |o n]; cbn [key_item step].
  - destruct (step_mem max (mem (core rst)) (key_op (nseq rst) o)) as [[m' r] ws]. reflexivity.
  - reflexivity.
  - destruct (step_mem max (mem (core rst)) (key_op (nseq rst) o)) as [[m' r] ws]. reflexivity.
Qed.

Theorem r_bound_inv max : forall h rst, BInv max (core rst) -> BInv max (core (fst (r_run max rst h))).
Proof.
  induction h as [|it r IH]; intros rst HB; [exact HB|].
  rewrite r_run_cons. cbn [fst]. apply IH. rewrite r_step_core. apply bound_step, HB.
Qed.

Theorem r_bound_both : forall max h,
  0 < max ->
  N.of_nat (length (mem (core (r_final max h)))) <= max /\ N.of_nat (length (db (core (r_final max h)))) <= max.
Proof.
  intros max h Hm. unfold r_final.
  assert (HB : BInv max (core r_st0)) by (split; [reflexivity|]; split; [apply incl_refl | intros _; cbn; lia]).
  destruct (r_bound_inv max h r_st0 HB) as (Hs & Hi & Hb). specialize (Hb Hm). split; [exact Hb|].
  pose proof (NoDup_incl_length (ssorted_nodup _ Hs) Hi) as Hl. rewrite !keys_length in Hl. lia.
Qed.

Theorem r_rejected_no_trace : forall max rst o r,
  snd (r_step max rst (UOp o)) = Some r -> (r = RInvalidId \/ r = RFull) ->
  fst (r_step max rst (UOp o)) = rst /\ r_wlog max rst [UOp o] = [].
Proof.
  intros max [[m d] s] o r. unfold r_step. cbn [r_wlog wlog key_item step core mem db nseq].
  destruct o as [[] [| |b]|[]]; cbn [key_op step_mem accepts fst snd apply_ws fold_left app];
    try (intros E [->| ->]; inversion E; fail); auto.
  - destruct (full max m); cbn [fst snd apply_ws fold_left app negb]; auto.
    intros E [->| ->]; inversion E.
  - destruct m as [|[k b] m']; cbn [fst snd apply_ws fold_left app]; intros E [->| ->]; inversion E.
Qed.

Theorem r_empty_submission_no_trace : forall max rst ok s, s = UNil \/ s = UEmpty ->
  fst (r_step max rst (UOp (USubmit ok s))) = rst /\ r_wlog max rst [UOp (USubmit ok s)] = [].
Proof.
  intros max [[m d] sq] ok s [-> | ->]; destruct ok; cbn; auto.
Qed.

(* ---- admission of one submission is one atomic step, whatever it contains ---------------------------------- *)
(* either nothing happens at all (no write, state incl. the sequence counter unchanged) or the WHOLE submission
   becomes exactly one record and one queue entry, by exactly one datastore write *)
Theorem r_submission_atomic : forall max rst ok s,
  (fst (r_step max rst (UOp (USubmit ok s))) = rst /\ r_wlog max rst [UOp (USubmit ok s)] = []) \/
  (exists b, s = UB b /\ ok = true /\
     snd (r_step max rst (UOp (USubmit ok s))) = Some ROk /\
     r_wlog max rst [UOp (USubmit ok s)] = [WPut (nseq rst) b] /\
     mem (core (fst (r_step max rst (UOp (USubmit ok s))))) = mem (core rst) ++ [(nseq rst, b)] /\
     db (core (fst (r_step max rst (UOp (USubmit ok s))))) = db_put (nseq rst) b (db (core rst)) /\
     nseq (fst (r_step max rst (UOp (USubmit ok s)))) = nseq rst + 1).
Proof.
  intros max [[m d] sq] ok s. unfold r_step. cbn [r_wlog wlog key_item step core mem db nseq].
  destruct ok; destruct s as [| |b]; cbn [key_op step_mem accepts fst snd apply_ws fold_left app]; auto.
  destruct (full max m) eqn:F; cbn [fst snd apply_ws fold_left app negb apply_w core mem db nseq]; auto.
  right. exists b. repeat split; reflexivity.
Qed.

(* a process death at ANY point inside a submission (after any number n of its datastore writes) leaves the
   datastore either as it was or with the whole submission as one record; the restarted process is built from that *)
Theorem r_submission_crash_atomic : forall max rst ok s n,
  fst (r_step max rst (UCrash (USubmit ok s) n)) = r_boot (db (core rst)) \/
  (exists b, s = UB b /\
     fst (r_step max rst (UCrash (USubmit ok s) n)) = r_boot (db_put (nseq rst) b (db (core rst)))).
Proof.
  intros max [[m d] sq] ok s n. unfold r_step. cbn [key_item step core mem db nseq].
  destruct ok; destruct s as [| |b]; cbn [key_op step_mem fst snd];
    try (left; destruct n; reflexivity).
  destruct (full max m); [left; destruct n; reflexivity|].
  destruct n as [|n]; [left; reflexivity|right]. exists b. split; [reflexivity|].
  cbn [firstn apply_ws fold_left apply_w load db fst]. destruct n; reflexivity.
Qed.

(* the same for a submission given as a list of transactions of ANY sizes (and any number of them) *)
Theorem r_sized_submission_atomic : forall (enc : list tx -> batch) max rst ok req,
  (fst (r_step max rst (UOp (USubmit ok (sub_of enc req)))) = rst /\
   r_wlog max rst [UOp (USubmit ok (sub_of enc req))] = []) \/
  (exists l, req = Some l /\ l <> [] /\ ok = true /\
     snd (r_step max rst (UOp (USubmit ok (sub_of enc req)))) = Some ROk /\
     r_wlog max rst [UOp (USubmit ok (sub_of enc req))] = [WPut (nseq rst) (enc l)] /\
     mem (core (fst (r_step max rst (UOp (USubmit ok (sub_of enc req)))))) = mem (core rst) ++ [(nseq rst, enc l)] /\
     db (core (fst (r_step max rst (UOp (USubmit ok (sub_of enc req)))))) = db_put (nseq rst) (enc l) (db (core rst))).
Proof.
  intros enc max rst ok req.
  destruct (r_submission_atomic max rst ok (sub_of enc req)) as [H|[b (Hs & Hok & Hr & Hw & Hm & Hd & _)]]; [left; exact H|].
  right. destruct req as [[|t l]|]; cbn [sub_of] in Hs; try discriminate.
  exists (t :: l). inversion Hs as [Hb]. rewrite <- Hb in *.
  repeat split; auto. discriminate.
Qed.

(* ==== the bound is a parameter of every process start ====================================================== *)
Lemma v_step_r st it :
  vr (fst (v_step st it)) = fst (r_step (vmax st) (vr st) (v_plain it)) /\
  snd (v_step st it) = snd (r_step (vmax st) (vr st) (v_plain it)) /\
  vmax (fst (v_step st it)) = v_next_max (vmax st) it.
Proof.
  unfold v_step. destruct (r_step (vmax st) (vr st) (v_plain it)) as [rst' r].
  destruct it as [o|m|o n m]; cbn [fst snd vr vmax v_next_max]; auto.
Qed.

Lemma v_run_cons st it r :
  v_run st (it :: r) =
  (fst (v_run (fst (v_step st it)) r), snd (v_step st it) :: snd (v_run (fst (v_step st it)) r)).
Proof.
  cbn [v_run]. destruct (v_step st it) as [st' o]. cbn [fst snd].
  destruct (v_run st' r) as [st'' os]. reflexivity.
Qed.

Lemma sv_run_cons max q it r :
  sv_run max q (it :: r) =
  (fst (sv_run (v_next_max max it) (fst (s_item max q (v_plain it))) r),
   snd (s_item max q (v_plain it)) :: snd (sv_run (v_next_max max it) (fst (s_item max q (v_plain it))) r)).
Proof.
  cbn [sv_run]. destruct (s_item max q (v_plain it)) as [q' o]. cbn [fst snd].
  destruct (sv_run (v_next_max max it) q' r) as [q'' os]. reflexivity.
Qed.

(* the refinement, bounds changing from process to process: the invariant [RInv] does not mention any bound *)
Theorem v_refines : forall h st q,
  RInv (vr st) q ->
  snd (v_run st h) = snd (sv_run (vmax st) (map snd q) h) /\
  exists q', RInv (vr (fst (v_run st h))) q' /\ map snd q' = fst (sv_run (vmax st) (map snd q) h).
Proof.
  induction h as [|it r IH]; intros st q HI.
  - cbn. split; [reflexivity|]. exists q. auto.
  - destruct (v_step_r st it) as (Hr & Ho & Hm).
    destruct (r_step_refines (vmax st) (vr st) q (v_plain it) HI) as [Hro HI'].
    destruct (a_item_proj (vmax st) q (nseq (vr st)) (v_plain it)) as [Hp1 Hp2].
    rewrite <- Hr in HI'.
    destruct (IH _ _ HI') as [Ho' (q' & HI'' & Hq')].
    rewrite v_run_cons, sv_run_cons. cbn [fst snd].
    rewrite Ho, Hro, Hp2, Ho', Hm, Hp1. split; [reflexivity|].
    exists q'. rewrite <- Hp1, <- Hm. auto.
Qed.

Lemma rinv_v0 max : RInv (vr (v_st0 max)) [].
Proof. exact rinv0. Qed.

Theorem v_fifo_full : forall max0 h, v_fifo max0 h.
Proof.
  intros max0 h. destruct (v_refines h (v_st0 max0) [] (rinv_v0 max0)) as [Ho (q' & (HI & Hs & _) & Hq')].
  destruct HI as (Hm & _ & Hd & Hin).
  unfold v_fifo, v_outputs, sv_outputs, v_final, sv_final. cbn [map v_st0 v_boot vmax] in *.
  split; [exact Ho|]. split.
  - rewrite Hm. exact Hq'.
  - assert (E : db (core (vr (fst (v_run (v_st0 max0) h)))) = q') by (apply sorted_ext; assumption).
    rewrite E. exact Hq'.
Qed.

(* the specification with changing bounds still means "exactly once, in order" *)
Theorem sv_exactly_once : forall h max q,
  q ++ sv_accepted max q h = sv_delivered max q h ++ fst (sv_run max q h).
Proof.
  induction h as [|it r IH]; intros max q.
  - cbn. rewrite app_nil_r. reflexivity.
  - rewrite sv_run_cons. cbn [sv_accepted sv_delivered fst].
    rewrite app_assoc, spec_item, <- app_assoc, IH, app_assoc. reflexivity.
Qed.

Theorem sv_exactly_once0 : forall max0 h,
  sv_accepted max0 [] h = sv_delivered max0 [] h ++ sv_final max0 h.
Proof. intros max0 h. exact (sv_exactly_once h max0 []). Qed.

(* a process start reloads EVERY record, whatever the old and the new bound, and numbers on above all of them *)
Theorem v_start_loads_everything : forall st m,
  vr (fst (v_step st (VStart m))) = r_boot (db (core (vr st))) /\
  mem (core (vr (fst (v_step st (VStart m))))) = db (core (vr st)) /\
  db (core (vr (fst (v_step st (VStart m))))) = db (core (vr st)) /\
  vmax (fst (v_step st (VStart m))) = m /\
  (forall k, In k (keys (db (core (vr st)))) -> k < nseq (vr (fst (v_step st (VStart m))))).
Proof.
  intros st m. unfold v_step, r_step. cbn [v_plain key_item step fst snd vr vmax r_boot load core mem db nseq].
  repeat split; auto. intros k Hk. apply next_seq_gt; assumption.
Qed.

(* ... and so does the recovery from a crash: every record that was durable at the moment of death *)
Theorem v_crash_loads_everything : forall st o n m,
  exists d, vr (fst (v_step st (VCrash o n m))) = r_boot d /\
    d = apply_ws (db (core (vr st))) (firstn n (snd (step_mem (vmax st) (mem (core (vr st))) (key_op (nseq (vr st)) o)))) /\
    vmax (fst (v_step st (VCrash o n m))) = m.
Proof.
  intros st o n m. unfold v_step, r_step. cbn [v_plain key_item step].
  destruct (step_mem (vmax st) (mem (core (vr st))) (key_op (nseq (vr st)) o)) as [[m' r] ws].
  cbn [fst snd vr vmax load db]. eexists. repeat split.
Qed.

(* AddBatch enforces the bound of the process it runs in: an accepted submission found fewer than [max] batches
   queued; a queue holding [max] or more (e.g. reloaded under a smaller bound) refuses, leaving no trace *)
Theorem r_accept_below_bound : forall max rst ok s,
  0 < max -> snd (r_step max rst (UOp (USubmit ok s))) = Some ROk -> s <> UNil -> s <> UEmpty ->
  N.of_nat (length (mem (core rst))) < max.
Proof.
  intros max [[m d] sq] ok s Hm. unfold r_step. cbn [key_item step core mem db nseq].
  destruct ok; destruct s as [| |b]; cbn [key_op step_mem fst snd]; try congruence;
    try (intros E; inversion E; fail).
  unfold full. destruct (0 <? max) eqn:E0; [|apply N.ltb_ge in E0; lia].
  destruct (max <=? N.of_nat (length m)) eqn:E1; cbn [andb fst snd].
  - intros E; inversion E.
  - intros _ _ _. apply N.leb_gt in E1. exact E1.
Qed.

Theorem r_over_bound_refuses : forall max rst b,
  0 < max -> max <= N.of_nat (length (mem (core rst))) ->
  r_step max rst (UOp (USubmit true (UB b))) = (rst, Some RFull) /\ r_wlog max rst [UOp (USubmit true (UB b))] = [].
Proof.
  intros max [[m d] sq] b Hm Hl. unfold r_step. cbn [r_wlog wlog key_item step core mem db nseq key_op step_mem accepts] in *.
  assert (F : full max m = true) by (unfold full; apply andb_true_iff; split; [apply N.ltb_lt | apply N.leb_le]; assumption).
  rewrite F. cbn [fst snd apply_ws fold_left negb app]. auto.
Qed.

(* the bound, across process starts: the queue of a process never exceeds the larger of its bound and what its
   Load found; the durable records are as many as the queue *)
Definition VB (st : vstate) : Prop :=
  0 < vmax st -> N.of_nat (length (mem (core (vr st)))) <= N.max (vmax st) (vload st).

Lemma vb_step st it : VB st -> VB (fst (v_step st it)).
Proof.
  intros HB. unfold VB, v_step.
  destruct it as [o|m|o n m]; cbn [v_plain].
  - unfold r_step. cbn [key_item step].
    destruct st as [[[mm d] sq] mx ld]. unfold VB in HB. cbn [vr vmax vload core mem db nseq] in *.
    destruct o as [[] [| |b]|[]]; cbn [key_op step_mem accepts fst snd vr vmax vload core mem]; auto.
    + destruct (full mx mm) eqn:F; cbn [fst snd vr vmax vload core mem]; auto.
      intros Hm. specialize (HB Hm). unfold full in F. rewrite app_length. cbn [length]. lia.
    + destruct mm as [|[k b] r]; cbn [fst snd vr vmax vload core mem]; auto.
      intros Hm. specialize (HB Hm). cbn [length] in HB. lia.
  - destruct (r_step (vmax st) (vr st) URestart) as [rst' r]. cbn [fst vr vmax vload]. lia.
  - destruct (r_step (vmax st) (vr st) (UCrash o n)) as [rst' r]. cbn [fst vr vmax vload]. lia.
Qed.

Theorem v_bound_inv : forall h st, VB st -> VB (fst (v_run st h)).
Proof.
  induction h as [|it r IH]; intros st HB; [exact HB|].
  rewrite v_run_cons. cbn [fst]. apply IH, vb_step, HB.
Qed.

Theorem v_bound_full : forall max0 h,
  0 < vmax (v_final max0 h) ->
  N.of_nat (length (mem (core (vr (v_final max0 h))))) <= N.max (vmax (v_final max0 h)) (vload (v_final max0 h)) /\
  length (db (core (vr (v_final max0 h)))) = length (mem (core (vr (v_final max0 h)))).
Proof.
  intros max0 h Hm. split.
  - apply (v_bound_inv h (v_st0 max0)); [|exact Hm]. intros _. cbn. lia.
  - destruct (v_fifo_full max0 h) as (_ & H2 & H3).
    pose proof (f_equal (@length batch) H2) as L2. pose proof (f_equal (@length batch) H3) as L3.
    rewrite map_length in L2, L3. exact (eq_trans L3 (eq_sym L2)).
Qed.

(* histories whose process starts all use one bound are the histories of [r_run] *)
Theorem v_run_const : forall max h st,
  vmax st = max ->
  vr (fst (v_run st (map (v_of max) h))) = fst (r_run max (vr st) h) /\
  snd (v_run st (map (v_of max) h)) = snd (r_run max (vr st) h).
Proof.
  intros max. induction h as [|it r IH]; intros st Hm; [cbn; auto|].
  cbn [map]. rewrite v_run_cons, r_run_cons. cbn [fst snd].
  destruct (v_step_r st (v_of max it)) as (Hr & Ho & Hx).
  assert (Hp : v_plain (v_of max it) = it) by (destruct it; reflexivity).
  rewrite Hp, Hm in *.
  assert (Hm' : vmax (fst (v_step st (v_of max it))) = max) by (rewrite Hx; destruct it; reflexivity).
  destruct (IH _ Hm') as [H1 H2]. rewrite H1, H2, Hr, Ho. auto.
Qed.

Theorem v_const_outputs : forall max h,
  v_outputs max (map (v_of max) h) = r_outputs max h /\ vr (v_final max (map (v_of max) h)) = r_final max h.
Proof.
  intros max h. destruct (v_run_const max h (v_st0 max) eq_refl) as [H1 H2].
  unfold v_outputs, v_final, r_outputs, r_final. auto.
Qed.
